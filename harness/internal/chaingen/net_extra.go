package chaingen

// Additions for the network properties (C11, C12): adding hand-made blocks to a
// tree with independently computed labels. Pure additions; nothing above changes.

import (
	"time"

	"go.sia.tech/core/consensus"
	"go.sia.tech/core/types"
)

// AddBlock adds blk (whose ParentID must be the id of a node of the tree) with
// labels computed without the node under test: HdrOK/Future by core's
// ValidateOrphan against the parent's (header-derived) state, BodyOK by a fresh
// linear node fed the block's ancestry (false without trying when the ancestry
// is not valid). Returns nil if the parent is unknown or the id already exists.
func (t *Tree) AddBlock(blk types.Block, tag string) *Node {
	parent, ok := t.ByID[blk.ParentID]
	if !ok {
		return nil
	}
	id := blk.ID()
	if _, dup := t.ByID[id]; dup {
		return nil
	}
	n := &Node{Block: blk, ID: id, Parent: parent, Height: parent.Height + 1, Corrupt: tag}
	LabelAgainst(t, n)
	t.add(n)
	return n
}

// LabelAgainst labels n (not yet part of the tree) against its parent.
func LabelAgainst(t *Tree, n *Node) {
	parent := n.Parent
	if !hdrChainOK(parent) {
		// the parent has no header-derived state: nothing can be said beyond "invalid"
		n.HdrOK, n.BodyOK = false, false
		n.State = parent.State
		return
	}
	pcs := parent.State
	n.Future = n.Block.Timestamp.After(pcs.MaxFutureTimestamp(time.Now()))
	n.HdrOK = !n.Future && consensus.ValidateOrphan(pcs, n.Block) == nil
	if !n.HdrOK {
		n.State = pcs
		return
	}
	if !parent.ChainValid() {
		n.BodyOK = false
		n.State = consensus.ApplyHeader(pcs, n.Block.Header(), time.Time{})
		return
	}
	_, cm := t.Env.NewManager()
	path := Blocks(t.Path(parent))
	if len(path) > 0 {
		if err := cm.AddBlocks(path); err != nil {
			panic("chaingen: honest ancestry rejected: " + err.Error())
		}
	}
	err := cm.AddBlocks([]types.Block{n.Block})
	n.BodyOK = err == nil && cm.Tip().ID == n.ID
	if cs, ok := cm.State(n.ID); ok {
		n.State = cs
		if n.BodyOK {
			n.FullState = cs
		}
	} else {
		n.State = consensus.ApplyHeader(pcs, n.Block.Header(), time.Time{})
	}
}

// HdrChainOK reports whether every block from genesis to n has a valid header
// (so that n has a header-derived state).
func HdrChainOK(n *Node) bool { return hdrChainOK(n) }

// DeepCopyBlock copies a block through its encoding.
func DeepCopyBlock(b types.Block) types.Block { return deepCopyBlock(b) }
