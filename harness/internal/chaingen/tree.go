package chaingen

import (
	"bytes"
	"fmt"
	"math/big"
	"time"

	"go.sia.tech/core/consensus"
	"go.sia.tech/core/types"
	"go.sia.tech/coreutils/chain"
	"verif/harness/internal/rng"
)

// A Node is one block of a generated fork tree.
type Node struct {
	Idx       int // small integer name (0 = genesis), order of creation
	Block     types.Block
	ID        types.BlockID
	Parent    *Node
	Height    uint64
	Kinds     []string        // transaction kinds carried
	Corrupt   string          // "" for an honestly mined block, else the corrupted field
	TwinOf    *Node           // non-nil: a copy of that node with the same block id but an altered body (v2 ids cover only the header)
	HdrOK     bool            // ValidateOrphan against the parent's header state, timestamp not in the future
	Future    bool            // timestamp too far in the future (ErrFutureBlock)
	BodyOK    bool            // accepted by a fresh linear node on top of its ancestry (implies all ancestors are)
	State     consensus.State // state after the block as far as headers go (work, difficulty); valid when HdrOK
	FullState consensus.State // full state after the block; valid when the whole ancestry is valid
	Children  []*Node
}

// A Tree is a fork tree of real blocks over one network.
type Tree struct {
	Env   *Env
	Nodes []*Node
	ByID  map[types.BlockID]*Node
	hdr   *chain.Manager // a node that only validates headers is not available; see label()
}

// Path returns genesis..n (genesis excluded), i.e. the blocks to feed a node.
func (t *Tree) Path(n *Node) []*Node {
	var p []*Node
	for ; n != nil && n.Parent != nil; n = n.Parent {
		p = append(p, n)
	}
	for i, j := 0, len(p)-1; i < j; i, j = i+1, j-1 {
		p[i], p[j] = p[j], p[i]
	}
	return p
}

// Blocks converts nodes to blocks.
func Blocks(ns []*Node) []types.Block {
	bs := make([]types.Block, len(ns))
	for i, n := range ns {
		bs[i] = n.Block
	}
	return bs
}

// ChainValid reports whether n and all its ancestors are valid.
func (n *Node) ChainValid() bool {
	for ; n != nil; n = n.Parent {
		if n.Parent != nil && !(n.HdrOK && n.BodyOK) {
			return false
		}
	}
	return true
}

// Work returns the total work after n as a decimal string and its difficulty.
func (n *Node) Work() (tw, diff *big.Int) {
	return WorkInt(n.State.TotalWork), WorkInt(n.State.Difficulty)
}

// WorkInt converts core's Work to a big integer.
func WorkInt(w consensus.Work) *big.Int {
	s := w.String()
	v, ok := new(big.Int).SetString(s, 10)
	if !ok {
		panic("bad work " + s)
	}
	return v
}

// GenOpts controls tree generation.
type GenOpts struct {
	Blocks      int      // honestly mined blocks
	Branchiness int      // 1 in Branchiness blocks starts a new branch off an older node
	TxPerBlock  int      // attempted transactions per block (kinds picked at random)
	Kinds       []string // allowed kinds (nil = all)
	Twins       int      // same-id copies of v2 blocks with an altered body (miner address), see AddTwin
	Corruptions int      // number of corrupted blocks to add
	Jitter      int      // timestamp jitter in seconds (0 = every block one second after its parent)
	Shape       []int    // if set: node i+1 is mined on node Shape[i] (a directed tree); Blocks/Branchiness are ignored
	OnInvalid   int      // header-valid blocks mined on top of body-invalid blocks
	// opt-in (zero = off: nothing changes, no randomness is drawn; see remine.go)
	Chained int `json:",omitempty"` // > 0: same-block chained transactions (ChainKinds and v2-ephemeral) join the allowed kinds, Chained times each
	Remine  int `json:",omitempty"` // > 0: a mined block re-includes, with chance Remine/4 per block outside its ancestry, that block's transactions where still valid (same ids)
}

// Gen generates a fork tree.
func Gen(r *rng.R, env *Env, o GenOpts) *Tree {
	gcs := env.Net.GenesisState()
	_ = gcs
	t := &Tree{Env: env, ByID: map[types.BlockID]*Node{}}
	_, cm := env.NewManager()
	g := &Node{Idx: 0, Block: env.Genesis, ID: env.Genesis.ID(), HdrOK: true, BodyOK: true, State: cm.TipState(), FullState: cm.TipState()}
	t.add(g)
	builders := map[*Node]*Builder{}
	kinds := kindsFor(o)
	for len(t.Nodes)-1 < o.Blocks || o.Shape != nil {
		// choose the parent: usually a current branch tip, sometimes an older node
		var parent *Node
		tips := t.validTips()
		if o.Shape != nil {
			if len(t.Nodes)-1 >= len(o.Shape) {
				break
			}
			parent = t.Nodes[o.Shape[len(t.Nodes)-1]]
		} else if o.Branchiness > 0 && r.Chance(1, o.Branchiness) && len(t.Nodes) > 1 {
			parent = t.Nodes[r.Intn(len(t.Nodes))]
		} else {
			parent = tips[r.Intn(len(tips))]
		}
		b := builders[parent]
		if b == nil {
			b = env.NewBuilder(Blocks(t.Path(parent)))
		} else {
			delete(builders, parent)
		}
		b.Jitter = o.Jitter
		if o.Remine > 0 {
			b.Remine(r, t, parent, o.Remine)
		}
		for i := 0; i < o.TxPerBlock; i++ {
			b.AddTx(r, kinds[r.Intn(len(kinds))])
		}
		blk, ks := b.Mine(r)
		if _, dup := t.ByID[blk.ID()]; dup {
			// an otherwise identical sibling ground the same nonce (hard-target regimes): drop this
			// builder and mine another block instead (the random stream has moved on)
			continue
		}
		n := &Node{Block: blk, ID: blk.ID(), Parent: parent, Height: parent.Height + 1, Kinds: ks, HdrOK: true, BodyOK: true}
		cs, _ := b.CM.State(n.ID)
		n.State, n.FullState = cs, cs
		t.add(n)
		builders[n] = b
	}
	for i := 0; i < o.Corruptions; i++ {
		t.AddCorrupted(r)
	}
	for i := 0; i < o.OnInvalid; i++ {
		t.AddOnInvalid(r)
	}
	for i := 0; i < o.Twins; i++ {
		t.AddTwin(r)
	}
	return t
}

func (t *Tree) add(n *Node) {
	n.Idx = len(t.Nodes)
	t.Nodes = append(t.Nodes, n)
	t.ByID[n.ID] = n
	if n.Parent != nil {
		n.Parent.Children = append(n.Parent.Children, n)
	}
}

func (t *Tree) validTips() []*Node {
	var tips []*Node
	for _, n := range t.Nodes {
		if !n.ChainValid() {
			continue
		}
		leaf := true
		for _, c := range n.Children {
			if c.ChainValid() {
				leaf = false
			}
		}
		if leaf {
			tips = append(tips, n)
		}
	}
	return tips
}

// Corruptions lists the single-field corruptions AddCorrupted can apply.
var Corruptions = []string{"nonce", "timestamp-future", "timestamp-past", "parent", "payout-value", "v2-height", "v2-commitment", "signature", "output-value", "extra-payout"}

// AddCorrupted copies a random honest non-genesis block, corrupts one field,
// labels the copy by independent validation and adds it as a sibling. The copy
// may carry honest descendants' work no further: it is a leaf.
func (t *Tree) AddCorrupted(r *rng.R) *Node {
	for tries := 0; tries < 50; tries++ {
		src := t.Nodes[1+r.Intn(len(t.Nodes)-1)]
		if src.Corrupt != "" || !src.ChainValid() {
			continue
		}
		kind := Corruptions[r.Intn(len(Corruptions))]
		blk := deepCopyBlock(src.Block)
		pcs := src.Parent.State
		regrind := true
		switch kind {
		case "nonce":
			blk.Nonce++ // v1: still meets the trivial target unless the factor rule fails; v2: same
			regrind = false
		case "timestamp-future":
			blk.Timestamp = time.Now().Add(5 * time.Hour)
		case "timestamp-past":
			blk.Timestamp = t.Env.Genesis.Timestamp.Add(-time.Hour)
		case "parent":
			if src.Parent.Parent == nil {
				continue
			}
			blk.ParentID = src.Parent.Parent.ID // attaches one block lower with the wrong height/commitment
			pcs = src.Parent.Parent.State
		case "payout-value":
			blk.MinerPayouts[0].Value = blk.MinerPayouts[0].Value.Add(types.NewCurrency64(1))
		case "extra-payout":
			blk.MinerPayouts = append(blk.MinerPayouts, types.SiacoinOutput{Address: t.Env.Addr, Value: types.Siacoins(1)})
		case "v2-height":
			if blk.V2 == nil {
				continue
			}
			blk.V2.Height++
		case "v2-commitment":
			if blk.V2 == nil {
				continue
			}
			blk.V2.Commitment[0] ^= 1
		case "signature":
			done := false
			for i := range blk.Transactions {
				if len(blk.Transactions[i].Signatures) > 0 {
					blk.Transactions[i].Signatures[0].Signature[0] ^= 1
					done = true
					break
				}
			}
			if !done && blk.V2 != nil {
				for i := range blk.V2.Transactions {
					if len(blk.V2.Transactions[i].SiacoinInputs) > 0 && len(blk.V2.Transactions[i].SiacoinInputs[0].SatisfiedPolicy.Signatures) > 0 {
						blk.V2.Transactions[i].SiacoinInputs[0].SatisfiedPolicy.Signatures[0][0] ^= 1
						done = true
						break
					}
				}
			}
			if !done {
				continue
			}
			if blk.V2 != nil { // keep the commitment consistent so that only the signature is wrong
				blk.V2.Commitment = pcs.Commitment(blk.MinerPayouts[0].Address, blk.Transactions, blk.V2Transactions())
			}
		case "output-value":
			done := false
			for i := range blk.Transactions {
				if len(blk.Transactions[i].SiacoinOutputs) > 0 {
					blk.Transactions[i].SiacoinOutputs[0].Value = blk.Transactions[i].SiacoinOutputs[0].Value.Add(types.NewCurrency64(1))
					done = true
					break
				}
			}
			if !done && blk.V2 != nil {
				for i := range blk.V2.Transactions {
					if len(blk.V2.Transactions[i].SiacoinOutputs) > 0 {
						blk.V2.Transactions[i].SiacoinOutputs[0].Value = blk.V2.Transactions[i].SiacoinOutputs[0].Value.Add(types.NewCurrency64(1))
						done = true
						break
					}
				}
			}
			if !done {
				continue
			}
			if blk.V2 != nil {
				blk.V2.Commitment = pcs.Commitment(blk.MinerPayouts[0].Address, blk.Transactions, blk.V2Transactions())
			}
		}
		if regrind {
			FindNonce(pcs, &blk)
		}
		id := blk.ID()
		if _, dup := t.ByID[id]; dup {
			continue
		}
		parent := t.ByID[blk.ParentID]
		n := &Node{Block: blk, ID: id, Parent: parent, Height: parent.Height + 1, Kinds: src.Kinds, Corrupt: kind}
		t.label(n)
		t.add(n)
		return n
	}
	return nil
}

// label computes HdrOK/Future/BodyOK/State of a block by validation that does
// not involve the node under test: core's ValidateOrphan against the parent
// state, and a fresh linear node fed exactly the block's ancestry.
func (t *Tree) label(n *Node) {
	pcs := n.Parent.State
	n.Future = n.Block.Timestamp.After(pcs.MaxFutureTimestamp(time.Now()))
	n.HdrOK = !n.Future && consensus.ValidateOrphan(pcs, n.Block) == nil
	if !n.HdrOK {
		return
	}
	_, cm := t.Env.NewManager()
	path := Blocks(t.Path(n.Parent))
	if len(path) > 0 {
		if err := cm.AddBlocks(path); err != nil {
			panic(fmt.Sprintf("label: honest ancestry rejected: %v", err))
		}
	}
	before := cm.Tip()
	err := cm.AddBlocks([]types.Block{n.Block})
	n.BodyOK = err == nil && cm.Tip().ID == n.ID
	if err == nil && cm.Tip() == before {
		// stored but not adopted (not heavier): decide validity by core directly
		panic("label: linear extension not adopted")
	}
	if cs, ok := cm.State(n.ID); ok {
		n.State = cs
		if n.BodyOK {
			n.FullState = cs
		}
	} else {
		// header-derived state: apply the header
		n.State = pcs
	}
}

// deepCopyBlock copies a block through its encoding.
func deepCopyBlock(b types.Block) types.Block {
	var buf bytes.Buffer
	e := types.NewEncoder(&buf)
	types.V2Block(b).EncodeTo(e)
	e.Flush()
	var c types.Block
	d := types.NewBufDecoder(buf.Bytes())
	(*types.V2Block)(&c).DecodeFrom(d)
	if d.Err() != nil {
		panic(d.Err())
	}
	return c
}

// AddOnInvalid mines an empty, header-valid block on top of a block whose
// header is valid but whose body (or ancestry) is not: a chain that gains work
// through an invalid block. Returns nil if the tree has no such parent.
func (t *Tree) AddOnInvalid(r *rng.R) *Node {
	var cands []*Node
	for _, n := range t.Nodes {
		if n.Parent != nil && n.HdrOK && !n.ChainValid() && hdrChainOK(n) {
			cands = append(cands, n)
		}
	}
	if len(cands) == 0 {
		return nil
	}
	p := cands[r.Intn(len(cands))]
	cs := p.State
	var miner types.Address
	r.Bytes(miner[:])
	blk := types.Block{
		ParentID:     p.ID,
		Timestamp:    cs.PrevTimestamps[0].Add(time.Second),
		MinerPayouts: []types.SiacoinOutput{{Value: cs.BlockReward(), Address: miner}},
	}
	if cs.Index.Height+1 >= cs.Network.HardforkV2.AllowHeight {
		blk.V2 = &types.V2BlockData{Height: cs.Index.Height + 1}
		blk.V2.Commitment = cs.Commitment(miner, nil, nil)
	}
	FindNonceFrom(cs, &blk, uint64(r.Intn(1<<20)))
	if _, dup := t.ByID[blk.ID()]; dup {
		return nil
	}
	n := &Node{Block: blk, ID: blk.ID(), Parent: p, Height: p.Height + 1, Corrupt: "child-of-invalid"}
	n.Future = blk.Timestamp.After(cs.MaxFutureTimestamp(time.Now()))
	n.HdrOK = !n.Future && consensus.ValidateOrphan(cs, blk) == nil
	n.BodyOK = false
	if n.HdrOK {
		// header-derived state: the oak-era ancestor timestamp is not needed by the generated networks
		n.State = consensus.ApplyHeader(cs, blk.Header(), time.Time{})
	}
	t.add(n)
	return n
}

func hdrChainOK(n *Node) bool {
	for ; n != nil && n.Parent != nil; n = n.Parent {
		if !n.HdrOK {
			return false
		}
	}
	return true
}

// AddTwin adds a copy of an honest v2 block whose miner address is altered while
// the commitment (and therefore the block id) is kept: same id, header-valid,
// body-invalid. The twin is not in ByID (the genuine node owns the id).
func (t *Tree) AddTwin(r *rng.R) *Node {
	var cands []*Node
	for _, n := range t.Nodes {
		if n.Parent != nil && n.Corrupt == "" && n.TwinOf == nil && n.Block.V2 != nil && n.ChainValid() {
			cands = append(cands, n)
		}
	}
	if len(cands) == 0 {
		return nil
	}
	src := cands[r.Intn(len(cands))]
	blk := deepCopyBlock(src.Block)
	blk.MinerPayouts[0].Address[0] ^= 0x55
	if blk.ID() != src.ID {
		panic("chaingen: twin changed the block id")
	}
	n := &Node{Block: blk, ID: src.ID, Parent: src.Parent, Height: src.Height, Kinds: src.Kinds, Corrupt: "body-same-id", TwinOf: src, State: src.State}
	pcs := src.Parent.State
	n.HdrOK = consensus.ValidateOrphan(pcs, blk) == nil
	// body validity by a fresh linear node
	_, cm := t.Env.NewManager()
	if path := Blocks(t.Path(src.Parent)); len(path) > 0 {
		if err := cm.AddBlocks(path); err != nil {
			panic(err)
		}
	}
	n.BodyOK = cm.AddBlocks([]types.Block{blk}) == nil && cm.Tip().ID == n.ID
	if n.BodyOK {
		panic("chaingen: a same-id twin with an altered miner address validated")
	}
	n.Idx = len(t.Nodes)
	t.Nodes = append(t.Nodes, n)
	src.Parent.Children = append(src.Parent.Children, n)
	return n
}

// Canon returns the node that owns n's block id (n itself unless n is a twin).
func (n *Node) Canon() *Node {
	if n.TwinOf != nil {
		return n.TwinOf
	}
	return n
}
