// Package chaingen generates fork trees of real, mined blocks carrying every
// element-changing transaction kind, and keeps an independent ledger of the
// elements of a chain (the harness's own ground truth, fed only by consensus
// updates in linear order).
package chaingen

import (
	"bytes"
	"fmt"
	"sort"

	"go.sia.tech/core/consensus"
	"go.sia.tech/core/types"
)

// A Ledger is the set of unspent elements of one chain, with Merkle proofs
// kept current, built from consensus updates only.
type Ledger struct {
	Tip  types.ChainIndex
	SC   map[types.SiacoinOutputID]types.SiacoinElement
	SF   map[types.SiafundOutputID]types.SiafundElement
	FC   map[types.FileContractID]types.FileContractElement
	V2FC map[types.FileContractID]types.V2FileContractElement
	CIE  map[types.ChainIndex]types.ChainIndexElement
}

// NewLedger returns an empty ledger.
func NewLedger() *Ledger {
	return &Ledger{
		SC:   map[types.SiacoinOutputID]types.SiacoinElement{},
		SF:   map[types.SiafundOutputID]types.SiafundElement{},
		FC:   map[types.FileContractID]types.FileContractElement{},
		V2FC: map[types.FileContractID]types.V2FileContractElement{},
		CIE:  map[types.ChainIndex]types.ChainIndexElement{},
	}
}

type proofUpdater interface {
	UpdateElementProof(e *types.StateElement)
}

func (l *Ledger) updateProofs(u proofUpdater) {
	for id, e := range l.SC {
		e = e.Copy()
		u.UpdateElementProof(&e.StateElement)
		l.SC[id] = e
	}
	for id, e := range l.SF {
		e = e.Copy()
		u.UpdateElementProof(&e.StateElement)
		l.SF[id] = e
	}
	for id, e := range l.FC {
		e = e.Copy()
		u.UpdateElementProof(&e.StateElement)
		l.FC[id] = e
	}
	for id, e := range l.V2FC {
		e = e.Copy()
		u.UpdateElementProof(&e.StateElement)
		l.V2FC[id] = e
	}
	for id, e := range l.CIE {
		e = e.Copy()
		u.UpdateElementProof(&e.StateElement)
		l.CIE[id] = e
	}
}

// Apply folds an apply update into the ledger; index is the applied block.
func (l *Ledger) Apply(cau consensus.ApplyUpdate, index types.ChainIndex) {
	// proofs of the elements we already hold are updated first; the new
	// elements carry proofs that are already current
	l.updateProofs(cau)
	for _, d := range cau.SiacoinElementDiffs() {
		switch {
		case d.Created && d.Spent:
		case d.Created:
			l.SC[d.SiacoinElement.ID] = d.SiacoinElement.Copy()
		case d.Spent:
			delete(l.SC, d.SiacoinElement.ID)
		}
	}
	for _, d := range cau.SiafundElementDiffs() {
		switch {
		case d.Created && d.Spent:
		case d.Created:
			l.SF[d.SiafundElement.ID] = d.SiafundElement.Copy()
		case d.Spent:
			delete(l.SF, d.SiafundElement.ID)
		}
	}
	for _, d := range cau.FileContractElementDiffs() {
		switch {
		case d.Resolved:
			delete(l.FC, d.FileContractElement.ID)
		case d.Revision != nil:
			re, _ := d.RevisionElement()
			l.FC[d.FileContractElement.ID] = re.Copy()
		case d.Created:
			l.FC[d.FileContractElement.ID] = d.FileContractElement.Copy()
		}
	}
	for _, d := range cau.V2FileContractElementDiffs() {
		switch {
		case d.Resolution != nil:
			delete(l.V2FC, d.V2FileContractElement.ID)
		case d.Revision != nil:
			e := d.V2FileContractElement.Copy()
			e.V2FileContract = *d.Revision
			l.V2FC[e.ID] = e
		case d.Created:
			l.V2FC[d.V2FileContractElement.ID] = d.V2FileContractElement.Copy()
		}
	}
	l.CIE[index] = cau.ChainIndexElement().Copy()
	l.Tip = index
}

// Revert undoes a block; reverted is the index of the block being reverted,
// prev the index of its parent.
func (l *Ledger) Revert(cru consensus.RevertUpdate, reverted, prev types.ChainIndex) {
	for _, d := range cru.SiacoinElementDiffs() {
		switch {
		case d.Created && d.Spent:
		case d.Created:
			delete(l.SC, d.SiacoinElement.ID)
		case d.Spent:
			l.SC[d.SiacoinElement.ID] = d.SiacoinElement.Copy()
		}
	}
	for _, d := range cru.SiafundElementDiffs() {
		switch {
		case d.Created && d.Spent:
		case d.Created:
			delete(l.SF, d.SiafundElement.ID)
		case d.Spent:
			l.SF[d.SiafundElement.ID] = d.SiafundElement.Copy()
		}
	}
	for _, d := range cru.FileContractElementDiffs() {
		switch {
		case d.Created:
			delete(l.FC, d.FileContractElement.ID)
		default:
			l.FC[d.FileContractElement.ID] = d.FileContractElement.Copy()
		}
	}
	for _, d := range cru.V2FileContractElementDiffs() {
		switch {
		case d.Created:
			delete(l.V2FC, d.V2FileContractElement.ID)
		default:
			l.V2FC[d.V2FileContractElement.ID] = d.V2FileContractElement.Copy()
		}
	}
	delete(l.CIE, reverted)
	l.updateProofs(cru)
	l.Tip = prev
}

// Clone returns a deep copy.
func (l *Ledger) Clone() *Ledger {
	c := NewLedger()
	c.Tip = l.Tip
	for k, v := range l.SC {
		c.SC[k] = v.Copy()
	}
	for k, v := range l.SF {
		c.SF[k] = v.Copy()
	}
	for k, v := range l.FC {
		c.FC[k] = v.Copy()
	}
	for k, v := range l.V2FC {
		c.V2FC[k] = v.Copy()
	}
	for k, v := range l.CIE {
		c.CIE[k] = v.Copy()
	}
	return c
}

// Digest returns a canonical text rendering of the ledger without proofs
// (ids, leaf indices, values), one element per line, sorted.
func (l *Ledger) Digest(withLeaf bool) string {
	var lines []string
	leaf := func(se types.StateElement) string {
		if withLeaf {
			return fmt.Sprintf(" leaf=%d", se.LeafIndex)
		}
		return ""
	}
	for id, e := range l.SC {
		lines = append(lines, fmt.Sprintf("sc %v %v %v m=%d%s", id, e.SiacoinOutput.Address, e.SiacoinOutput.Value.ExactString(), e.MaturityHeight, leaf(e.StateElement)))
	}
	for id, e := range l.SF {
		lines = append(lines, fmt.Sprintf("sf %v %v %d claim=%v%s", id, e.SiafundOutput.Address, e.SiafundOutput.Value, e.ClaimStart.ExactString(), leaf(e.StateElement)))
	}
	for id, e := range l.FC {
		var buf bytes.Buffer
		enc := types.NewEncoder(&buf)
		e.FileContract.EncodeTo(enc)
		enc.Flush()
		lines = append(lines, fmt.Sprintf("fc %v %x%s", id, buf.Bytes(), leaf(e.StateElement)))
	}
	for id, e := range l.V2FC {
		var buf bytes.Buffer
		enc := types.NewEncoder(&buf)
		e.V2FileContract.EncodeTo(enc)
		enc.Flush()
		lines = append(lines, fmt.Sprintf("v2fc %v %x%s", id, buf.Bytes(), leaf(e.StateElement)))
	}
	sort.Strings(lines)
	var sb bytes.Buffer
	for _, s := range lines {
		sb.WriteString(s)
		sb.WriteByte('\n')
	}
	return sb.String()
}
