package chaingen

import (
	"fmt"
	"time"

	"go.sia.tech/core/consensus"
	"go.sia.tech/core/types"
	"go.sia.tech/coreutils/chain"
	"verif/harness/internal/rng"
)

// Env is a network with a genesis block that funds one key.
type Env struct {
	Net     *consensus.Network
	Genesis types.Block
	Key     types.PrivateKey
	PK      types.PublicKey
	UC      types.UnlockConditions
	Addr    types.Address
	Payees  []types.Address // other addresses (never spent from)
	Regime  int             // 0 v1 only, 1 overlap (allow 3 / require 8), 2 v2 only
}

// Debug prints why a generated transaction was rejected by the builder's pool.
var Debug = false

// RegimeNames names the hardfork regimes.
var RegimeNames = []string{"v1-only", "v1+v2-overlap", "v2-only", "v1-only/hard-target", "v1+v2-overlap/hard-target", "v2-only/hard-target"}

// NewEnv builds the network for a hardfork regime. All keys derive from r.
func NewEnv(r *rng.R, regime int) *Env {
	n, genesis := chain.TestnetZen()
	n.InitialTarget = types.BlockID{0xFF}
	if regime >= 3 {
		// difficulty 256: the difficulty then reacts to timestamps, so equally long branches differ
		// slightly in work and the 20% rule of SufficientlyHeavierThan matters
		n.InitialTarget = types.BlockID{0x00, 0x20}
	}
	n.BlockInterval = time.Second
	n.MaturityDelay = 2
	n.HardforkDevAddr.Height = 1
	n.HardforkTax.Height = 1
	n.HardforkStorageProof.Height = 1
	n.HardforkOak.Height = 1
	n.HardforkOak.FixHeight = 1
	n.HardforkASIC.Height = 1
	n.HardforkFoundation.Height = 1
	switch regime % 3 {
	case 0:
		n.HardforkV2.AllowHeight, n.HardforkV2.RequireHeight, n.HardforkV2.FinalCutHeight = 1000, 2000, 3000
	case 1:
		n.HardforkV2.AllowHeight, n.HardforkV2.RequireHeight, n.HardforkV2.FinalCutHeight = 3, 8, 12
	default:
		n.HardforkV2.AllowHeight, n.HardforkV2.RequireHeight, n.HardforkV2.FinalCutHeight = 1, 1, 1
	}
	var seed [32]byte
	r.Bytes(seed[:])
	key := types.NewPrivateKeyFromSeed(seed[:])
	e := &Env{Net: n, Key: key, PK: key.PublicKey(), Regime: regime}
	e.UC = types.StandardUnlockConditions(e.PK)
	e.Addr = e.UC.UnlockHash()
	for i := 0; i < 3; i++ {
		var a types.Address
		r.Bytes(a[:])
		e.Payees = append(e.Payees, a)
	}
	gift := types.Transaction{}
	for i := 0; i < 10; i++ {
		gift.SiacoinOutputs = append(gift.SiacoinOutputs, types.SiacoinOutput{Address: e.Addr, Value: types.Siacoins(uint32(1000 + 100*i))})
	}
	gift.SiafundOutputs = []types.SiafundOutput{{Address: e.Addr, Value: 6000}, {Address: e.Addr, Value: 3000}, {Address: e.Payees[0], Value: 1000}}
	genesis.Transactions = []types.Transaction{gift}
	// the foundation subsidy goes to an address we can observe
	n.HardforkFoundation.PrimaryAddress = e.Payees[1]
	n.HardforkFoundation.FailsafeAddress = e.Payees[2]
	e.Genesis = genesis
	return e
}

// NewManager returns a fresh manager over a MemDB at genesis.
func (e *Env) NewManager() (*chain.DBStore, *chain.Manager) {
	store, ts, err := chain.NewDBStore(chain.NewMemDB(), e.Net, e.Genesis, nil)
	if err != nil {
		panic(err)
	}
	return store, chain.NewManager(store, ts)
}

// A Builder is a linear node used to construct valid blocks on a branch.
type Builder struct {
	Env      *Env
	CM       *chain.Manager
	L        *Ledger
	reserved map[types.Hash256]bool
	Kinds    []string // kinds of the transactions currently in the pool
	Jitter   int      // block timestamps advance by 1..1+Jitter seconds (varies the difficulty between branches)
	nonce    uint64
}

// NewBuilder returns a builder that has applied the given blocks (genesis excluded).
func (e *Env) NewBuilder(blocks []types.Block) *Builder {
	_, cm := e.NewManager()
	b := &Builder{Env: e, CM: cm, L: NewLedger(), reserved: map[types.Hash256]bool{}}
	if len(blocks) > 0 {
		if err := cm.AddBlocks(blocks); err != nil {
			panic(fmt.Sprintf("builder: replay failed: %v", err))
		}
	}
	b.Sync()
	return b
}

// Sync brings the builder's ledger to the manager's tip.
func (b *Builder) Sync() {
	SyncLedger(b.CM, b.L)
}

// SyncLedger folds the manager's update stream into l until it is at the tip.
func SyncLedger(cm *chain.Manager, l *Ledger) {
	for l.Tip != cm.Tip() {
		rus, aus, err := cm.UpdatesSince(l.Tip, 100)
		if err != nil {
			panic(fmt.Sprintf("ledger sync: %v", err))
		}
		for _, ru := range rus {
			reverted := types.ChainIndex{Height: ru.State.Index.Height + 1, ID: ru.Block.ID()}
			l.Revert(ru.RevertUpdate, reverted, ru.State.Index)
		}
		for _, au := range aus {
			l.Apply(au.ApplyUpdate, au.State.Index)
		}
		if len(rus)+len(aus) == 0 {
			break
		}
	}
}

func (b *Builder) height() uint64  { return b.CM.Tip().Height }
func (b *Builder) v2Allowed() bool { return b.height()+1 >= b.Env.Net.HardforkV2.AllowHeight }
func (b *Builder) v1Allowed() bool { return b.height()+1 < b.Env.Net.HardforkV2.RequireHeight }
func (b *Builder) payee(r *rng.R) types.Address {
	if r.Chance(1, 2) {
		return b.Env.Addr
	}
	return b.Env.Payees[r.Intn(len(b.Env.Payees))]
}

// spendable returns our mature, unreserved siacoin elements, in a stable order.
func (b *Builder) spendable() []types.SiacoinElement {
	var out []types.SiacoinElement
	for _, e := range b.L.SC {
		if e.SiacoinOutput.Address == b.Env.Addr && e.MaturityHeight <= b.height()+1 && !b.reserved[types.Hash256(e.ID)] && e.SiacoinOutput.Value.Cmp(types.Siacoins(40)) >= 0 {
			out = append(out, e)
		}
	}
	sortBy(out, func(e types.SiacoinElement) types.Hash256 { return types.Hash256(e.ID) })
	return out
}

func (b *Builder) siafunds() []types.SiafundElement {
	var out []types.SiafundElement
	for _, e := range b.L.SF {
		if e.SiafundOutput.Address == b.Env.Addr && !b.reserved[types.Hash256(e.ID)] {
			out = append(out, e)
		}
	}
	sortBy(out, func(e types.SiafundElement) types.Hash256 { return types.Hash256(e.ID) })
	return out
}

func sortBy[T any](xs []T, key func(T) types.Hash256) {
	for i := 1; i < len(xs); i++ {
		for j := i; j > 0; j-- {
			a, c := key(xs[j-1]), key(xs[j])
			if string(a[:]) <= string(c[:]) {
				break
			}
			xs[j-1], xs[j] = xs[j], xs[j-1]
		}
	}
}

func (b *Builder) signV1(txn *types.Transaction) {
	cs := b.CM.TipState()
	txn.Signatures = nil
	add := func(id types.Hash256) {
		txn.Signatures = append(txn.Signatures, types.TransactionSignature{ParentID: id, CoveredFields: types.CoveredFields{WholeTransaction: true}})
	}
	for _, in := range txn.SiacoinInputs {
		add(types.Hash256(in.ParentID))
	}
	for _, in := range txn.SiafundInputs {
		add(types.Hash256(in.ParentID))
	}
	for _, rev := range txn.FileContractRevisions {
		add(types.Hash256(rev.ParentID))
	}
	for i := range txn.Signatures {
		h := cs.WholeSigHash(*txn, txn.Signatures[i].ParentID, 0, 0, nil)
		sig := b.Env.Key.SignHash(h)
		txn.Signatures[i].Signature = sig[:]
	}
}

func (b *Builder) signV2(txn *types.V2Transaction) {
	cs := b.CM.TipState()
	h := cs.InputSigHash(*txn)
	sig := b.Env.Key.SignHash(h)
	sp := types.SatisfiedPolicy{Policy: types.SpendPolicy{Type: types.PolicyTypeUnlockConditions(b.Env.UC)}, Signatures: []types.Signature{sig}}
	for i := range txn.SiacoinInputs {
		txn.SiacoinInputs[i].SatisfiedPolicy = sp
	}
	for i := range txn.SiafundInputs {
		txn.SiafundInputs[i].SatisfiedPolicy = sp
	}
}

// v2Addr is the address our key controls under a v2 public-key policy; it
// equals the v1 standard unlock hash.
func (b *Builder) addV1(kind string, txn types.Transaction) bool {
	if _, err := b.CM.AddPoolTransactions([]types.Transaction{txn}); err != nil {
		if Debug {
			fmt.Println("chaingen:", kind, err)
		}
		return false
	}
	b.reserveV1(txn)
	b.Kinds = append(b.Kinds, kind)
	return true
}

func (b *Builder) reserveV1(txn types.Transaction) {
	for _, in := range txn.SiacoinInputs {
		b.reserved[types.Hash256(in.ParentID)] = true
	}
	for _, in := range txn.SiafundInputs {
		b.reserved[types.Hash256(in.ParentID)] = true
	}
	for _, rev := range txn.FileContractRevisions {
		b.reserved[types.Hash256(rev.ParentID)] = true
	}
	for _, sp := range txn.StorageProofs {
		b.reserved[types.Hash256(sp.ParentID)] = true
	}
}

func (b *Builder) addV2(kind string, txns ...types.V2Transaction) bool {
	if _, err := b.CM.AddV2PoolTransactions(b.CM.Tip(), txns); err != nil {
		if Debug {
			fmt.Println("chaingen:", kind, err)
		}
		return false
	}
	for _, txn := range txns {
		for _, in := range txn.SiacoinInputs {
			b.reserved[types.Hash256(in.Parent.ID)] = true
		}
		for _, in := range txn.SiafundInputs {
			b.reserved[types.Hash256(in.Parent.ID)] = true
		}
		for _, rev := range txn.FileContractRevisions {
			b.reserved[types.Hash256(rev.Parent.ID)] = true
		}
		for _, res := range txn.FileContractResolutions {
			b.reserved[types.Hash256(res.Parent.ID)] = true
		}
	}
	b.Kinds = append(b.Kinds, kind)
	return true
}

// TxKinds lists the transaction kinds the generator can produce.
var TxKinds = []string{
	"v1-transfer", "v1-siafund", "v1-form", "v1-revise", "v1-revise-window", "v1-proof",
	"v2-transfer", "v2-ephemeral", "v2-siafund", "v2-form", "v2-revise", "v2-renew", "v2-proof", "v2-expire",
}

// AddTx tries to add one transaction of the given kind to the builder's pool.
func (b *Builder) AddTx(r *rng.R, kind string) bool {
	cs := b.CM.TipState()
	h := b.height()
	switch kind {
	case "v1-transfer":
		sp := b.spendable()
		if !b.v1Allowed() || len(sp) == 0 {
			return false
		}
		in := sp[r.Intn(len(sp))]
		half := in.SiacoinOutput.Value.Div64(2)
		fee := types.Siacoins(1)
		txn := types.Transaction{
			SiacoinInputs:  []types.SiacoinInput{{ParentID: in.ID, UnlockConditions: b.Env.UC}},
			SiacoinOutputs: []types.SiacoinOutput{{Address: b.payee(r), Value: half}, {Address: b.Env.Addr, Value: in.SiacoinOutput.Value.Sub(half).Sub(fee)}},
			MinerFees:      []types.Currency{fee},
		}
		b.signV1(&txn)
		return b.addV1(kind, txn)
	case "v1-siafund":
		sf := b.siafunds()
		if !b.v1Allowed() || len(sf) == 0 {
			return false
		}
		in := sf[r.Intn(len(sf))]
		if in.SiafundOutput.Value < 2 {
			return false
		}
		txn := types.Transaction{
			SiafundInputs:  []types.SiafundInput{{ParentID: in.ID, UnlockConditions: b.Env.UC, ClaimAddress: b.payee(r)}},
			SiafundOutputs: []types.SiafundOutput{{Address: b.Env.Addr, Value: in.SiafundOutput.Value / 2}, {Address: b.Env.Addr, Value: in.SiafundOutput.Value - in.SiafundOutput.Value/2}},
		}
		b.signV1(&txn)
		return b.addV1(kind, txn)
	case "v1-form":
		sp := b.spendable()
		if !b.v1Allowed() || len(sp) == 0 {
			return false
		}
		in := sp[r.Intn(len(sp))]
		payoutValue := types.Siacoins(uint32(10 + r.Intn(5)))
		ws := h + 2 + uint64(r.Intn(2))
		fc := types.FileContract{
			Filesize:           0,
			WindowStart:        ws,
			WindowEnd:          ws + 2 + uint64(r.Intn(2)),
			ValidProofOutputs:  []types.SiacoinOutput{{Value: payoutValue, Address: b.Env.Addr}},
			MissedProofOutputs: []types.SiacoinOutput{{Value: payoutValue, Address: b.payee(r)}},
			UnlockHash:         b.Env.Addr,
		}
		r.Bytes(fc.FileMerkleRoot[:])
		fc.Payout = taxAdjustedPayout(payoutValue)
		if in.SiacoinOutput.Value.Cmp(fc.Payout) < 0 {
			return false
		}
		txn := types.Transaction{
			SiacoinInputs:  []types.SiacoinInput{{ParentID: in.ID, UnlockConditions: b.Env.UC}},
			SiacoinOutputs: []types.SiacoinOutput{{Address: b.Env.Addr, Value: in.SiacoinOutput.Value.Sub(fc.Payout)}},
			FileContracts:  []types.FileContract{fc},
		}
		b.signV1(&txn)
		return b.addV1(kind, txn)
	case "v1-revise", "v1-revise-window":
		if !b.v1Allowed() {
			return false
		}
		for _, fce := range b.sortedFC() {
			if b.reserved[types.Hash256(fce.ID)] || fce.FileContract.WindowStart <= h+1 || fce.FileContract.UnlockHash != b.Env.Addr {
				continue
			}
			rev := fce.FileContract
			rev.RevisionNumber++
			if kind == "v1-revise-window" {
				rev.WindowEnd++
			}
			txn := types.Transaction{FileContractRevisions: []types.FileContractRevision{{ParentID: fce.ID, UnlockConditions: b.Env.UC, FileContract: rev}}}
			b.signV1(&txn)
			if b.addV1(kind, txn) {
				return true
			}
		}
		return false
	case "v1-proof":
		if !b.v1Allowed() {
			return false
		}
		for _, fce := range b.sortedFC() {
			if b.reserved[types.Hash256(fce.ID)] || fce.FileContract.WindowStart > h || fce.FileContract.WindowEnd <= h+1 {
				continue
			}
			txn := types.Transaction{StorageProofs: []types.StorageProof{{ParentID: fce.ID}}}
			if b.addV1(kind, txn) {
				return true
			}
		}
		return false
	case "v2-transfer":
		sp := b.spendable()
		if !b.v2Allowed() || len(sp) == 0 {
			return false
		}
		in := sp[r.Intn(len(sp))]
		half := in.SiacoinOutput.Value.Div64(2)
		fee := types.Siacoins(1)
		txn := types.V2Transaction{
			SiacoinInputs:  []types.V2SiacoinInput{{Parent: in.Copy()}},
			SiacoinOutputs: []types.SiacoinOutput{{Address: b.payee(r), Value: half}, {Address: b.Env.Addr, Value: in.SiacoinOutput.Value.Sub(half).Sub(fee)}},
			MinerFee:       fee,
		}
		b.signV2(&txn)
		return b.addV2(kind, txn)
	case "v2-ephemeral":
		sp := b.spendable()
		if !b.v2Allowed() || len(sp) == 0 {
			return false
		}
		in := sp[r.Intn(len(sp))]
		fee := types.Siacoins(1)
		parent := types.V2Transaction{
			SiacoinInputs:  []types.V2SiacoinInput{{Parent: in.Copy()}},
			SiacoinOutputs: []types.SiacoinOutput{{Address: b.Env.Addr, Value: in.SiacoinOutput.Value.Sub(fee)}},
			MinerFee:       fee,
		}
		b.signV2(&parent)
		child := types.V2Transaction{
			SiacoinInputs:  []types.V2SiacoinInput{{Parent: parent.EphemeralSiacoinOutput(0)}},
			SiacoinOutputs: []types.SiacoinOutput{{Address: b.payee(r), Value: types.Siacoins(5)}, {Address: b.Env.Addr, Value: in.SiacoinOutput.Value.Sub(fee).Sub(fee).Sub(types.Siacoins(5))}},
			MinerFee:       fee,
		}
		b.signV2(&child)
		return b.addV2(kind, parent, child)
	case "v2-siafund":
		sf := b.siafunds()
		if !b.v2Allowed() || len(sf) == 0 {
			return false
		}
		in := sf[r.Intn(len(sf))]
		if in.SiafundOutput.Value < 2 {
			return false
		}
		txn := types.V2Transaction{
			SiafundInputs:  []types.V2SiafundInput{{Parent: in.Copy(), ClaimAddress: b.payee(r)}},
			SiafundOutputs: []types.SiafundOutput{{Address: b.Env.Addr, Value: in.SiafundOutput.Value / 2}, {Address: b.Env.Addr, Value: in.SiafundOutput.Value - in.SiafundOutput.Value/2}},
		}
		b.signV2(&txn)
		return b.addV2(kind, txn)
	case "v2-form":
		sp := b.spendable()
		if !b.v2Allowed() || len(sp) == 0 {
			return false
		}
		in := sp[r.Intn(len(sp))]
		fc := b.newV2Contract(r, cs, h)
		cost := fc.RenterOutput.Value.Add(fc.HostOutput.Value).Add(cs.V2FileContractTax(fc))
		if in.SiacoinOutput.Value.Cmp(cost) < 0 {
			return false
		}
		txn := types.V2Transaction{
			SiacoinInputs:  []types.V2SiacoinInput{{Parent: in.Copy()}},
			SiacoinOutputs: []types.SiacoinOutput{{Address: b.Env.Addr, Value: in.SiacoinOutput.Value.Sub(cost)}},
			FileContracts:  []types.V2FileContract{fc},
		}
		b.signV2(&txn)
		return b.addV2(kind, txn)
	case "v2-revise":
		if !b.v2Allowed() {
			return false
		}
		for _, fce := range b.sortedV2FC() {
			if b.reserved[types.Hash256(fce.ID)] || fce.V2FileContract.ProofHeight < h+1 {
				continue
			}
			rev := fce.V2FileContract
			rev.RevisionNumber++
			if r.Bool() && rev.RenterOutput.Value.Cmp(types.Siacoins(1)) > 0 {
				rev.RenterOutput.Value = rev.RenterOutput.Value.Sub(types.Siacoins(1))
				rev.HostOutput.Value = rev.HostOutput.Value.Add(types.Siacoins(1))
			}
			sig := b.Env.Key.SignHash(cs.ContractSigHash(rev))
			rev.RenterSignature, rev.HostSignature = sig, sig
			txn := types.V2Transaction{FileContractRevisions: []types.V2FileContractRevision{{Parent: fce.Copy(), Revision: rev}}}
			if b.addV2(kind, txn) {
				return true
			}
		}
		return false
	case "v2-renew":
		if !b.v2Allowed() {
			return false
		}
		for _, fce := range b.sortedV2FC() {
			if b.reserved[types.Hash256(fce.ID)] {
				continue
			}
			old := fce.V2FileContract
			nc := b.newV2Contract(r, cs, h)
			nc.RenterOutput.Value, nc.HostOutput.Value = old.RenterOutput.Value, old.HostOutput.Value
			nc.MissedHostValue, nc.TotalCollateral = types.ZeroCurrency, types.ZeroCurrency
			sig := b.Env.Key.SignHash(cs.ContractSigHash(nc))
			nc.RenterSignature, nc.HostSignature = sig, sig
			ren := types.V2FileContractRenewal{
				FinalRenterOutput: types.SiacoinOutput{Address: old.RenterOutput.Address, Value: types.ZeroCurrency},
				FinalHostOutput:   types.SiacoinOutput{Address: old.HostOutput.Address, Value: types.ZeroCurrency},
				RenterRollover:    old.RenterOutput.Value,
				HostRollover:      old.HostOutput.Value,
				NewContract:       nc,
			}
			rsig := b.Env.Key.SignHash(cs.RenewalSigHash(ren))
			ren.RenterSignature, ren.HostSignature = rsig, rsig
			// the tax of the new contract must be funded
			sp := b.spendable()
			if len(sp) == 0 {
				return false
			}
			in := sp[r.Intn(len(sp))]
			tax := cs.V2FileContractTax(nc)
			if in.SiacoinOutput.Value.Cmp(tax) < 0 {
				return false
			}
			txn := types.V2Transaction{
				SiacoinInputs:           []types.V2SiacoinInput{{Parent: in.Copy()}},
				SiacoinOutputs:          []types.SiacoinOutput{{Address: b.Env.Addr, Value: in.SiacoinOutput.Value.Sub(tax)}},
				FileContractResolutions: []types.V2FileContractResolution{{Parent: fce.Copy(), Resolution: &ren}},
			}
			b.signV2(&txn)
			if b.addV2(kind, txn) {
				return true
			}
		}
		return false
	case "v2-proof":
		if !b.v2Allowed() {
			return false
		}
		for _, fce := range b.sortedV2FC() {
			fc := fce.V2FileContract
			if b.reserved[types.Hash256(fce.ID)] || h+1 < fc.ProofHeight || h+1 > fc.ExpirationHeight {
				continue
			}
			var cie types.ChainIndexElement
			found := false
			for idx, e := range b.L.CIE {
				if idx.Height == fc.ProofHeight {
					cie, found = e.Copy(), true
				}
			}
			if !found {
				continue
			}
			txn := types.V2Transaction{FileContractResolutions: []types.V2FileContractResolution{{Parent: fce.Copy(), Resolution: &types.V2StorageProof{ProofIndex: cie}}}}
			if b.addV2(kind, txn) {
				return true
			}
		}
		return false
	case "v2-expire":
		if !b.v2Allowed() {
			return false
		}
		for _, fce := range b.sortedV2FC() {
			if b.reserved[types.Hash256(fce.ID)] || h+1 <= fce.V2FileContract.ExpirationHeight {
				continue
			}
			txn := types.V2Transaction{FileContractResolutions: []types.V2FileContractResolution{{Parent: fce.Copy(), Resolution: &types.V2FileContractExpiration{}}}}
			if b.addV2(kind, txn) {
				return true
			}
		}
		return false
	}
	return b.addTxChain(r, kind) // opt-in kinds (remine.go); false without drawing randomness for unknown kinds
}

func (b *Builder) newV2Contract(r *rng.R, cs consensus.State, h uint64) types.V2FileContract {
	ph := h + 2 + uint64(r.Intn(2))
	fc := types.V2FileContract{
		RenterOutput:     types.SiacoinOutput{Address: b.Env.Addr, Value: types.Siacoins(uint32(10 + r.Intn(5)))},
		HostOutput:       types.SiacoinOutput{Address: b.payee(r), Value: types.Siacoins(uint32(5 + r.Intn(5)))},
		ProofHeight:      ph,
		ExpirationHeight: ph + 2 + uint64(r.Intn(2)),
		RenterPublicKey:  b.Env.PK,
		HostPublicKey:    b.Env.PK,
	}
	sig := b.Env.Key.SignHash(cs.ContractSigHash(fc))
	fc.RenterSignature, fc.HostSignature = sig, sig
	return fc
}

func (b *Builder) sortedFC() []types.FileContractElement {
	var out []types.FileContractElement
	for _, e := range b.L.FC {
		out = append(out, e)
	}
	sortBy(out, func(e types.FileContractElement) types.Hash256 { return types.Hash256(e.ID) })
	return out
}

func (b *Builder) sortedV2FC() []types.V2FileContractElement {
	var out []types.V2FileContractElement
	for _, e := range b.L.V2FC {
		out = append(out, e)
	}
	sortBy(out, func(e types.V2FileContractElement) types.Hash256 { return types.Hash256(e.ID) })
	return out
}

func taxAdjustedPayout(target types.Currency) types.Currency {
	guess := target.Mul64(1000).Div64(961)
	mod64 := func(c types.Currency, v uint64) types.Currency { return c.Sub(c.Div64(v).Mul64(v)) }
	sfc := (consensus.State{}).SiafundCount()
	tm := mod64(target, sfc)
	gm := mod64(guess, sfc)
	if gm.Cmp(tm) < 0 {
		guess = guess.Sub(types.NewCurrency64(sfc))
	}
	return guess.Add(tm).Sub(gm)
}

// Mine assembles the pool into a block on the builder's tip (miner address
// chosen from r so that sibling blocks differ), adds it to the builder and
// returns it together with the kinds of transactions it carries.
func (b *Builder) Mine(r *rng.R) (types.Block, []string) {
	cs := b.CM.TipState()
	var miner types.Address
	if r.Chance(1, 3) {
		miner = b.Env.Addr
	} else {
		r.Bytes(miner[:])
	}
	blk := types.Block{
		ParentID:     cs.Index.ID,
		Timestamp:    cs.PrevTimestamps[0].Add(b.delay(r)),
		MinerPayouts: []types.SiacoinOutput{{Value: cs.BlockReward(), Address: miner}},
	}
	if blk.Timestamp.Before(b.Env.Genesis.Timestamp) {
		blk.Timestamp = b.Env.Genesis.Timestamp.Add(time.Second)
	}
	childHeight := cs.Index.Height + 1
	if childHeight >= cs.Network.HardforkV2.AllowHeight {
		blk.V2 = &types.V2BlockData{Height: childHeight}
	}
	var weight uint64
	if childHeight < cs.Network.HardforkV2.RequireHeight {
		for _, txn := range b.CM.PoolTransactions() {
			if weight += cs.TransactionWeight(txn); weight > cs.MaxBlockWeight() {
				break
			}
			blk.Transactions = append(blk.Transactions, txn)
			blk.MinerPayouts[0].Value = blk.MinerPayouts[0].Value.Add(txn.TotalFees())
		}
	}
	if blk.V2 != nil {
		for _, txn := range b.CM.V2PoolTransactions() {
			if weight += cs.V2TransactionWeight(txn); weight > cs.MaxBlockWeight() {
				break
			}
			blk.V2.Transactions = append(blk.V2.Transactions, txn)
			blk.MinerPayouts[0].Value = blk.MinerPayouts[0].Value.Add(txn.MinerFee)
		}
		blk.V2.Commitment = cs.Commitment(miner, blk.Transactions, blk.V2Transactions())
	}
	FindNonceFrom(cs, &blk, uint64(r.Intn(1<<20)))
	if err := b.CM.AddBlocks([]types.Block{blk}); err != nil {
		panic(fmt.Sprintf("builder: mined block rejected: %v (kinds %v)", err, b.Kinds))
	}
	if b.CM.Tip().ID != blk.ID() {
		panic("builder: mined block did not become the tip")
	}
	kinds := b.Kinds
	b.Kinds = nil
	b.reserved = map[types.Hash256]bool{}
	b.Sync()
	return blk, kinds
}

// delay picks the distance of a block's timestamp from its parent's: 1..1+Jitter
// seconds, or for Jitter >= 100 either one second or Jitter seconds (fast and slow
// blocks push the difficulty in opposite directions, so branches diverge in work).
func (b *Builder) delay(r *rng.R) time.Duration {
	if b.Jitter >= 100 {
		if r.Bool() {
			return time.Second
		}
		return time.Duration(b.Jitter) * time.Second
	}
	return time.Duration(1+r.Intn(b.Jitter+1)) * time.Second
}

// FindNonce grinds the nonce (instant with the test target).
func FindNonce(cs consensus.State, b *types.Block) { FindNonceFrom(cs, b, 0) }

// FindNonceFrom grinds the nonce starting at start*factor, so that otherwise
// identical sibling blocks get different ids.
func FindNonceFrom(cs consensus.State, b *types.Block, start uint64) {
	bh := b.Header()
	factor := cs.NonceFactor()
	bh.Nonce = start * factor
	for bh.ID().CmpWork(cs.PoWTarget()) < 0 {
		bh.Nonce += factor
	}
	b.Nonce = bh.Nonce
}
