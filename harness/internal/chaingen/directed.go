package chaingen

import (
	"time"

	"go.sia.tech/core/consensus"
	"go.sia.tech/core/types"
	"verif/harness/internal/rng"
)

// Directed construction of small trees (added for C02/C03): a Script grows a
// tree block by block, each block filled by a callback working on a Builder
// that has replayed the parent's ancestry.

// A Script builds a tree by hand.
type Script struct {
	T   *Tree
	R   *rng.R
	Env *Env
}

// NewScript returns a script over a tree that holds only genesis.
func NewScript(r *rng.R, env *Env) *Script {
	t := &Tree{Env: env, ByID: map[types.BlockID]*Node{}}
	_, cm := env.NewManager()
	t.add(&Node{Idx: 0, Block: env.Genesis, ID: env.Genesis.ID(), HdrOK: true, BodyOK: true, State: cm.TipState(), FullState: cm.TipState()})
	return &Script{T: t, R: r, Env: env}
}

// Extend mines a block on top of parent; fill (may be nil) adds transactions to
// the builder's pool first.
func (s *Script) Extend(parent *Node, fill func(b *Builder)) *Node {
	b := s.Env.NewBuilder(Blocks(s.T.Path(parent)))
	if fill != nil {
		fill(b)
	}
	blk, ks := b.Mine(s.R)
	n := &Node{Block: blk, ID: blk.ID(), Parent: parent, Height: parent.Height + 1, Kinds: ks, HdrOK: true, BodyOK: true}
	cs, _ := b.CM.State(n.ID)
	n.State, n.FullState = cs, cs
	s.T.add(n)
	return n
}

// ExtendUnapplied is Extend for a block that the builder must not apply itself
// (a consensus-valid block that is expected to crash the store): the block is
// assembled from the pool and grinded, but no node has applied it; its states
// are header-derived.
func (s *Script) ExtendUnapplied(parent *Node, fill func(b *Builder)) *Node {
	b := s.Env.NewBuilder(Blocks(s.T.Path(parent)))
	if fill != nil {
		fill(b)
	}
	blk := b.Assemble(s.R)
	n := &Node{Block: blk, ID: blk.ID(), Parent: parent, Height: parent.Height + 1, Kinds: b.Kinds, HdrOK: true, BodyOK: true}
	n.State = consensus.ApplyHeader(parent.State, blk.Header(), time.Time{})
	n.FullState = n.State
	s.T.add(n)
	return n
}

// Assemble builds a block from the builder's pool on its tip without adding it.
func (b *Builder) Assemble(r *rng.R) types.Block {
	cs := b.CM.TipState()
	var miner types.Address
	r.Bytes(miner[:])
	blk := types.Block{
		ParentID:     cs.Index.ID,
		Timestamp:    cs.PrevTimestamps[0].Add(time.Second),
		MinerPayouts: []types.SiacoinOutput{{Value: cs.BlockReward(), Address: miner}},
	}
	childHeight := cs.Index.Height + 1
	if childHeight >= cs.Network.HardforkV2.AllowHeight {
		blk.V2 = &types.V2BlockData{Height: childHeight}
	}
	if childHeight < cs.Network.HardforkV2.RequireHeight {
		for _, txn := range b.CM.PoolTransactions() {
			blk.Transactions = append(blk.Transactions, txn)
			blk.MinerPayouts[0].Value = blk.MinerPayouts[0].Value.Add(txn.TotalFees())
		}
	}
	if blk.V2 != nil {
		blk.V2.Commitment = cs.Commitment(miner, blk.Transactions, blk.V2Transactions())
	}
	FindNonceFrom(cs, &blk, uint64(r.Intn(1<<20)))
	return blk
}

// AddV1Form adds a v1 contract formation with the given window; it returns the
// contract id.
func (b *Builder) AddV1Form(r *rng.R, ws, we uint64) (types.FileContractID, bool) {
	sp := b.spendable()
	if !b.v1Allowed() || len(sp) == 0 {
		return types.FileContractID{}, false
	}
	in := sp[r.Intn(len(sp))]
	payoutValue := types.Siacoins(uint32(10 + r.Intn(5)))
	fc := types.FileContract{
		WindowStart:        ws,
		WindowEnd:          we,
		ValidProofOutputs:  []types.SiacoinOutput{{Value: payoutValue, Address: b.Env.Addr}},
		MissedProofOutputs: []types.SiacoinOutput{{Value: payoutValue, Address: b.payee(r)}},
		UnlockHash:         b.Env.Addr,
	}
	r.Bytes(fc.FileMerkleRoot[:])
	fc.Payout = taxAdjustedPayout(payoutValue)
	if in.SiacoinOutput.Value.Cmp(fc.Payout) < 0 {
		return types.FileContractID{}, false
	}
	txn := types.Transaction{
		SiacoinInputs:  []types.SiacoinInput{{ParentID: in.ID, UnlockConditions: b.Env.UC}},
		SiacoinOutputs: []types.SiacoinOutput{{Address: b.Env.Addr, Value: in.SiacoinOutput.Value.Sub(fc.Payout)}},
		FileContracts:  []types.FileContract{fc},
	}
	b.signV1(&txn)
	if !b.addV1("v1-form", txn) {
		return types.FileContractID{}, false
	}
	return txn.FileContractID(0), true
}

// AddV1ProofOf adds a storage proof for the given confirmed contract.
func (b *Builder) AddV1ProofOf(id types.FileContractID) bool {
	txn := types.Transaction{StorageProofs: []types.StorageProof{{ParentID: id}}}
	return b.addV1("v1-proof", txn)
}

// AddV1ReviseOf revises the given confirmed contract; newWE = 0 keeps the window.
func (b *Builder) AddV1ReviseOf(id types.FileContractID, newWE uint64) bool {
	fce, ok := b.L.FC[id]
	if !ok {
		return false
	}
	rev := fce.FileContract
	rev.RevisionNumber++
	kind := "v1-revise"
	if newWE != 0 {
		rev.WindowEnd = newWE
		kind = "v1-revise-window"
	}
	txn := types.Transaction{FileContractRevisions: []types.FileContractRevision{{ParentID: id, UnlockConditions: b.Env.UC, FileContract: rev}}}
	b.signV1(&txn)
	return b.addV1(kind, txn)
}

// ContractsOf lists the v1 contracts a block forms, in block order (the order
// in which the store appends them to their expiration list).
func ContractsOf(blk types.Block) (ids []types.FileContractID) {
	for _, txn := range blk.Transactions {
		for i := range txn.FileContracts {
			ids = append(ids, txn.FileContractID(i))
		}
	}
	return
}
