package chaingen

import (
	"time"

	"go.sia.tech/core/consensus"
	"go.sia.tech/core/types"
)

// Directed counterparts of AddCorrupted / AddOnInvalid: the caller names the block, so that a
// history can be built around a reorg that is bound to fail at a chosen depth.

// AddBodyCorruptedCopyOf adds a sibling of src that differs only in one flipped signature bit of its
// first signed transaction (the commitment is recomputed): the header is valid, the body is not.
// Returns nil if src cannot be used (no signed transaction).
func (t *Tree) AddBodyCorruptedCopyOf(src *Node) *Node {
	if src == nil || src.Parent == nil || src.Corrupt != "" || !src.ChainValid() {
		return nil
	}
	blk := deepCopyBlock(src.Block)
	pcs := src.Parent.State
	done := false
	for i := range blk.Transactions {
		if len(blk.Transactions[i].Signatures) > 0 && !done {
			blk.Transactions[i].Signatures[0].Signature[0] ^= 1
			done = true
		}
	}
	if !done && blk.V2 != nil {
		for i := range blk.V2.Transactions {
			if !done && len(blk.V2.Transactions[i].SiacoinInputs) > 0 && len(blk.V2.Transactions[i].SiacoinInputs[0].SatisfiedPolicy.Signatures) > 0 {
				blk.V2.Transactions[i].SiacoinInputs[0].SatisfiedPolicy.Signatures[0][0] ^= 1
				done = true
			}
		}
	}
	if !done {
		return nil
	}
	if blk.V2 != nil {
		blk.V2.Commitment = pcs.Commitment(blk.MinerPayouts[0].Address, blk.Transactions, blk.V2Transactions())
	}
	FindNonce(pcs, &blk)
	id := blk.ID()
	if _, dup := t.ByID[id]; dup {
		return nil
	}
	n := &Node{Block: blk, ID: id, Parent: src.Parent, Height: src.Parent.Height + 1, Kinds: src.Kinds, Corrupt: "signature"}
	t.label(n)
	t.add(n)
	return n
}

// AddOnInvalidAt mines an empty, header-valid block on p, a block whose header chain is valid but
// whose body (or ancestry) is not. Returns nil if p is not such a block.
func (t *Tree) AddOnInvalidAt(p *Node, salt uint64) *Node {
	if p == nil || p.Parent == nil || !p.HdrOK || p.ChainValid() || !hdrChainOK(p) {
		return nil
	}
	cs := p.State
	miner := types.Address{1, byte(salt), byte(salt >> 8)}
	blk := types.Block{
		ParentID:     p.ID,
		Timestamp:    cs.PrevTimestamps[0].Add(time.Second),
		MinerPayouts: []types.SiacoinOutput{{Value: cs.BlockReward(), Address: miner}},
	}
	if cs.Index.Height+1 >= cs.Network.HardforkV2.AllowHeight {
		blk.V2 = &types.V2BlockData{Height: cs.Index.Height + 1}
		blk.V2.Commitment = cs.Commitment(miner, nil, nil)
	}
	FindNonceFrom(cs, &blk, salt%(1<<20))
	if _, dup := t.ByID[blk.ID()]; dup {
		return nil
	}
	n := &Node{Block: blk, ID: blk.ID(), Parent: p, Height: p.Height + 1, Corrupt: "child-of-invalid"}
	n.Future = blk.Timestamp.After(cs.MaxFutureTimestamp(time.Now()))
	n.HdrOK = !n.Future && consensus.ValidateOrphan(cs, blk) == nil
	n.BodyOK = false
	if n.HdrOK {
		n.State = consensus.ApplyHeader(cs, blk.Header(), time.Time{})
	}
	t.add(n)
	return n
}
