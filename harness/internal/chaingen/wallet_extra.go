package chaingen

import (
	"bytes"
	"fmt"
	"time"

	"go.sia.tech/core/types"
	"verif/harness/internal/rng"
)

// This file adds what the wallet property (C06) needs on top of the generator:
// a second key ("the other party") that owns siafunds and can name the wallet
// address (Env.Addr) as claim address, siafund spends that are or are not
// siacoin-relevant to the wallet, and v2 renewals whose final outputs carry
// value and pay addresses other than the contract's.

// Other returns the second key, derived from the environment's key.
func (e *Env) Other() (types.PrivateKey, types.UnlockConditions, types.Address) {
	seed := make([]byte, 32)
	copy(seed, e.Key[:32])
	for i := range seed {
		seed[i] ^= 0x5A
	}
	k := types.NewPrivateKeyFromSeed(seed)
	uc := types.StandardUnlockConditions(k.PublicKey())
	return k, uc, uc.UnlockHash()
}

// WalletKinds are the additional transaction kinds of AddTxW.
var WalletKinds = []string{"w-sf-send", "w-sf-other", "w-v2-renew-final"}

// WalletKinds2 adds the kinds of GenW2.
var WalletKinds2 = []string{"w-sf-send", "w-sf-other", "w-v2-renew-final", "w-fund-other", "w-pass-through"}

// spendableOf returns addr's mature, unreserved siacoin elements worth at least min, in a stable order.
func (b *Builder) spendableOf(addr types.Address, min types.Currency) []types.SiacoinElement {
	var out []types.SiacoinElement
	for _, e := range b.L.SC {
		if e.SiacoinOutput.Address == addr && e.MaturityHeight <= b.height()+1 && !b.reserved[types.Hash256(e.ID)] && e.SiacoinOutput.Value.Cmp(min) >= 0 {
			out = append(out, e)
		}
	}
	sortBy(out, func(e types.SiacoinElement) types.Hash256 { return types.Hash256(e.ID) })
	return out
}

// OtherHasFunds reports whether the other party could pay the wallet now.
func (b *Builder) OtherHasFunds() bool {
	_, _, oaddr := b.Env.Other()
	return len(b.spendableOf(oaddr, types.Siacoins(10))) > 0
}

func (b *Builder) siafundsOf(addr types.Address) []types.SiafundElement {
	var out []types.SiafundElement
	for _, e := range b.L.SF {
		if e.SiafundOutput.Address == addr && !b.reserved[types.Hash256(e.ID)] {
			out = append(out, e)
		}
	}
	sortBy(out, func(e types.SiafundElement) types.Hash256 { return types.Hash256(e.ID) })
	return out
}

// signV1Mixed signs every input; ids in others are signed with the other key.
func (b *Builder) signV1Mixed(txn *types.Transaction, others map[types.Hash256]bool) {
	ok, _, _ := b.Env.Other()
	cs := b.CM.TipState()
	txn.Signatures = nil
	add := func(id types.Hash256) {
		txn.Signatures = append(txn.Signatures, types.TransactionSignature{ParentID: id, CoveredFields: types.CoveredFields{WholeTransaction: true}})
	}
	for _, in := range txn.SiacoinInputs {
		add(types.Hash256(in.ParentID))
	}
	for _, in := range txn.SiafundInputs {
		add(types.Hash256(in.ParentID))
	}
	for i := range txn.Signatures {
		h := cs.WholeSigHash(*txn, txn.Signatures[i].ParentID, 0, 0, nil)
		key := b.Env.Key
		if others[txn.Signatures[i].ParentID] {
			key = ok
		}
		sig := key.SignHash(h)
		txn.Signatures[i].Signature = sig[:]
	}
}

// signV2Mixed signs every input with the key that owns it.
func (b *Builder) signV2Mixed(txn *types.V2Transaction) {
	ok, ouc, oaddr := b.Env.Other()
	cs := b.CM.TipState()
	h := cs.InputSigHash(*txn)
	mine := types.SatisfiedPolicy{Policy: types.SpendPolicy{Type: types.PolicyTypeUnlockConditions(b.Env.UC)}, Signatures: []types.Signature{b.Env.Key.SignHash(h)}}
	theirs := types.SatisfiedPolicy{Policy: types.SpendPolicy{Type: types.PolicyTypeUnlockConditions(ouc)}, Signatures: []types.Signature{ok.SignHash(h)}}
	for i := range txn.SiacoinInputs {
		txn.SiacoinInputs[i].SatisfiedPolicy = mine
		if txn.SiacoinInputs[i].Parent.SiacoinOutput.Address == oaddr {
			txn.SiacoinInputs[i].SatisfiedPolicy = theirs
		}
	}
	for i := range txn.SiafundInputs {
		txn.SiafundInputs[i].SatisfiedPolicy = mine
		if txn.SiafundInputs[i].Parent.SiafundOutput.Address == oaddr {
			txn.SiafundInputs[i].SatisfiedPolicy = theirs
		}
	}
}

// AddTxW adds one transaction of a wallet-specific kind (or of a generator kind).
func (b *Builder) AddTxW(r *rng.R, kind string) bool {
	_, ouc, oaddr := b.Env.Other()
	h := b.height()
	cs := b.CM.TipState()
	pick := func() types.Address { // claim address / final output address
		switch r.Intn(3) {
		case 0:
			return b.Env.Addr
		case 1:
			return oaddr
		}
		return b.Env.Payees[0]
	}
	switch kind {
	case "w-sf-send", "w-sf-other":
		owner, uc := b.Env.Addr, b.Env.UC
		if kind == "w-sf-other" {
			owner, uc = oaddr, ouc
		}
		sf := b.siafundsOf(owner)
		if len(sf) == 0 {
			return false
		}
		in := sf[r.Intn(len(sf))]
		if in.SiafundOutput.Value < 2 {
			return false
		}
		claim := pick()
		if kind == "w-sf-other" && r.Chance(2, 3) {
			claim = b.Env.Addr
		}
		// the wallet's siafunds partly move to the other party (so that it has some to spend);
		// the other party keeps its own
		to1, to2 := owner, owner
		if kind == "w-sf-send" {
			to1 = oaddr
		}
		half := in.SiafundOutput.Value / 2
		relevant := r.Bool() // also touch the wallet's siacoins, which makes the transaction wallet-relevant
		sp := b.spendable()
		if len(sp) == 0 {
			relevant = false
		}
		fee := types.Siacoins(1)
		if b.v1Allowed() && (!b.v2Allowed() || r.Bool()) {
			txn := types.Transaction{
				SiafundInputs:  []types.SiafundInput{{ParentID: in.ID, UnlockConditions: uc, ClaimAddress: claim}},
				SiafundOutputs: []types.SiafundOutput{{Address: to1, Value: half}, {Address: to2, Value: in.SiafundOutput.Value - half}},
			}
			if relevant {
				sc := sp[r.Intn(len(sp))]
				txn.SiacoinInputs = []types.SiacoinInput{{ParentID: sc.ID, UnlockConditions: b.Env.UC}}
				txn.SiacoinOutputs = []types.SiacoinOutput{{Address: b.Env.Addr, Value: sc.SiacoinOutput.Value.Sub(fee)}}
				txn.MinerFees = []types.Currency{fee}
			}
			others := map[types.Hash256]bool{}
			if kind == "w-sf-other" {
				others[types.Hash256(in.ID)] = true
			}
			b.signV1Mixed(&txn, others)
			return b.addV1(kind, txn)
		} else if b.v2Allowed() {
			txn := types.V2Transaction{
				SiafundInputs:  []types.V2SiafundInput{{Parent: in.Copy(), ClaimAddress: claim}},
				SiafundOutputs: []types.SiafundOutput{{Address: to1, Value: half}, {Address: to2, Value: in.SiafundOutput.Value - half}},
			}
			if relevant {
				sc := sp[r.Intn(len(sp))]
				txn.SiacoinInputs = []types.V2SiacoinInput{{Parent: sc.Copy()}}
				txn.SiacoinOutputs = []types.SiacoinOutput{{Address: b.Env.Addr, Value: sc.SiacoinOutput.Value.Sub(fee)}}
				txn.MinerFee = fee
			}
			b.signV2Mixed(&txn)
			return b.addV2(kind, txn)
		}
		return false
	case "w-fund-other":
		// the wallet pays the other party, so that it can pay the wallet later
		sp := b.spendable()
		if len(sp) == 0 {
			return false
		}
		in := sp[r.Intn(len(sp))]
		fee, gift := types.Siacoins(1), types.Siacoins(12)
		if in.SiacoinOutput.Value.Cmp(types.Siacoins(40)) < 0 {
			return false
		}
		outs := []types.SiacoinOutput{{Address: oaddr, Value: gift}, {Address: oaddr, Value: gift}, {Address: b.Env.Addr, Value: in.SiacoinOutput.Value.Sub(gift).Sub(gift).Sub(fee)}}
		if b.v1Allowed() && (!b.v2Allowed() || r.Bool()) {
			txn := types.Transaction{SiacoinInputs: []types.SiacoinInput{{ParentID: in.ID, UnlockConditions: b.Env.UC}}, SiacoinOutputs: outs, MinerFees: []types.Currency{fee}}
			b.signV1(&txn)
			return b.addV1(kind, txn)
		} else if b.v2Allowed() {
			txn := types.V2Transaction{SiacoinInputs: []types.V2SiacoinInput{{Parent: in.Copy()}}, SiacoinOutputs: outs, MinerFee: fee}
			b.signV2(&txn)
			return b.addV2(kind, txn)
		}
		return false
	case "w-pass-through":
		// the other party pays the wallet and the wallet forwards exactly that unconfirmed output,
		// with no change back to itself, in the same block: the wallet's output is created and
		// spent inside the block (ephemeral)
		osp := b.spendableOf(oaddr, types.Siacoins(10))
		if len(osp) == 0 {
			return false
		}
		in := osp[r.Intn(len(osp))]
		fee, pay := types.Siacoins(1), types.Siacoins(5)
		dest := b.Env.Payees[r.Intn(len(b.Env.Payees))]
		if r.Bool() {
			dest = oaddr
		}
		if b.v1Allowed() && (!b.v2Allowed() || r.Bool()) {
			parent := types.Transaction{
				SiacoinInputs:  []types.SiacoinInput{{ParentID: in.ID, UnlockConditions: ouc}},
				SiacoinOutputs: []types.SiacoinOutput{{Address: b.Env.Addr, Value: pay}, {Address: oaddr, Value: in.SiacoinOutput.Value.Sub(pay).Sub(fee)}},
				MinerFees:      []types.Currency{fee},
			}
			b.signV1Mixed(&parent, map[types.Hash256]bool{types.Hash256(in.ID): true})
			child := types.Transaction{
				SiacoinInputs:  []types.SiacoinInput{{ParentID: parent.SiacoinOutputID(0), UnlockConditions: b.Env.UC}},
				SiacoinOutputs: []types.SiacoinOutput{{Address: dest, Value: pay.Sub(fee)}},
				MinerFees:      []types.Currency{fee},
			}
			b.signV1(&child)
			if _, err := b.CM.AddPoolTransactions([]types.Transaction{parent, child}); err != nil {
				if Debug {
					fmt.Println("chaingen:", kind, err)
				}
				return false
			}
			b.reserveV1(parent)
			b.Kinds = append(b.Kinds, kind)
			return true
		} else if b.v2Allowed() {
			parent := types.V2Transaction{
				SiacoinInputs:  []types.V2SiacoinInput{{Parent: in.Copy()}},
				SiacoinOutputs: []types.SiacoinOutput{{Address: b.Env.Addr, Value: pay}, {Address: oaddr, Value: in.SiacoinOutput.Value.Sub(pay).Sub(fee)}},
				MinerFee:       fee,
			}
			b.signV2Mixed(&parent)
			child := types.V2Transaction{
				SiacoinInputs:  []types.V2SiacoinInput{{Parent: parent.EphemeralSiacoinOutput(0)}},
				SiacoinOutputs: []types.SiacoinOutput{{Address: dest, Value: pay.Sub(fee)}},
				MinerFee:       fee,
			}
			b.signV2(&child)
			return b.addV2(kind, parent, child)
		}
		return false
	case "w-foundation-update":
		// a foundation address update signed by the current foundation key (the wallet's or the other
		// party's): the address passes from one to the other
		owner, newAddr := b.Env.Addr, oaddr
		switch cs.FoundationManagementAddress {
		case b.Env.Addr:
		case oaddr:
			owner, newAddr = oaddr, b.Env.Addr
		default:
			return false
		}
		ins := b.spendableOf(owner, types.Siacoins(10))
		if len(ins) == 0 {
			return false
		}
		in := ins[r.Intn(len(ins))]
		fee := types.Siacoins(1)
		outs := []types.SiacoinOutput{{Address: owner, Value: in.SiacoinOutput.Value.Sub(fee)}}
		if b.v1Allowed() && (!b.v2Allowed() || r.Bool()) {
			uc := b.Env.UC
			others := map[types.Hash256]bool{}
			if owner == oaddr {
				uc = ouc
				others[types.Hash256(in.ID)] = true
			}
			var buf bytes.Buffer
			e := types.NewEncoder(&buf)
			types.SpecifierFoundation.EncodeTo(e)
			types.FoundationAddressUpdate{NewPrimary: newAddr, NewFailsafe: newAddr}.EncodeTo(e)
			e.Flush()
			txn := types.Transaction{
				SiacoinInputs:  []types.SiacoinInput{{ParentID: in.ID, UnlockConditions: uc}},
				SiacoinOutputs: outs,
				MinerFees:      []types.Currency{fee},
				ArbitraryData:  [][]byte{buf.Bytes()},
			}
			b.signV1Mixed(&txn, others)
			return b.addV1(kind, txn)
		} else if b.v2Allowed() {
			txn := types.V2Transaction{SiacoinInputs: []types.V2SiacoinInput{{Parent: in.Copy()}}, SiacoinOutputs: outs, MinerFee: fee, NewFoundationAddress: &newAddr}
			b.signV2Mixed(&txn)
			return b.addV2(kind, txn)
		}
		return false
	case "w-v2-renew-final":
		if !b.v2Allowed() {
			return false
		}
		for _, fce := range b.sortedV2FC() {
			if b.reserved[types.Hash256(fce.ID)] {
				continue
			}
			old := fce.V2FileContract
			one := types.Siacoins(1)
			fr, fh := types.ZeroCurrency, types.ZeroCurrency
			if old.RenterOutput.Value.Cmp(types.Siacoins(3)) > 0 {
				fr = one
			}
			if old.HostOutput.Value.Cmp(types.Siacoins(3)) > 0 {
				fh = one
			}
			nc := b.newV2Contract(r, cs, h)
			nc.RenterOutput.Value, nc.HostOutput.Value = old.RenterOutput.Value.Sub(fr), old.HostOutput.Value.Sub(fh)
			nc.MissedHostValue, nc.TotalCollateral = types.ZeroCurrency, types.ZeroCurrency
			sig := b.Env.Key.SignHash(cs.ContractSigHash(nc))
			nc.RenterSignature, nc.HostSignature = sig, sig
			ren := types.V2FileContractRenewal{
				FinalRenterOutput: types.SiacoinOutput{Address: pick(), Value: fr},
				FinalHostOutput:   types.SiacoinOutput{Address: pick(), Value: fh},
				RenterRollover:    old.RenterOutput.Value.Sub(fr),
				HostRollover:      old.HostOutput.Value.Sub(fh),
				NewContract:       nc,
			}
			rsig := b.Env.Key.SignHash(cs.RenewalSigHash(ren))
			ren.RenterSignature, ren.HostSignature = rsig, rsig
			sp := b.spendable()
			if len(sp) == 0 {
				return false
			}
			in := sp[r.Intn(len(sp))]
			tax := cs.V2FileContractTax(nc)
			if in.SiacoinOutput.Value.Cmp(tax) <= 0 {
				return false
			}
			txn := types.V2Transaction{
				SiacoinInputs:           []types.V2SiacoinInput{{Parent: in.Copy()}},
				SiacoinOutputs:          []types.SiacoinOutput{{Address: b.Env.Addr, Value: in.SiacoinOutput.Value.Sub(tax)}},
				FileContractResolutions: []types.V2FileContractResolution{{Parent: fce.Copy(), Resolution: &ren}},
			}
			b.signV2(&txn)
			if b.addV2(kind, txn) {
				return true
			}
		}
		return false
	}
	return b.AddTx(r, kind)
}

// GenW is Gen with the wallet-specific kinds mixed in (honest blocks only, plus
// the usual corrupted / on-invalid blocks).
func GenW(r *rng.R, env *Env, o GenOpts) *Tree {
	t := &Tree{Env: env, ByID: map[types.BlockID]*Node{}}
	_, cm := env.NewManager()
	g := &Node{Idx: 0, Block: env.Genesis, ID: env.Genesis.ID(), HdrOK: true, BodyOK: true, State: cm.TipState(), FullState: cm.TipState()}
	t.add(g)
	builders := map[*Node]*Builder{}
	kinds := o.Kinds
	if kinds == nil {
		kinds = append(append([]string(nil), TxKinds...), WalletKinds...)
		// contracts (tax revenue) and siafund movements are what the claims need: weight them up
		kinds = append(kinds, "v1-form", "v2-form", "w-sf-send", "w-sf-other", "w-sf-other", "v1-siafund", "v2-siafund", "w-v2-renew-final")
	}
	for len(t.Nodes)-1 < o.Blocks {
		var parent *Node
		tips := t.validTips()
		if o.Branchiness > 0 && r.Chance(1, o.Branchiness) && len(t.Nodes) > 1 {
			parent = t.Nodes[r.Intn(len(t.Nodes))]
		} else {
			parent = tips[r.Intn(len(tips))]
		}
		b := builders[parent]
		if b == nil {
			b = env.NewBuilder(Blocks(t.Path(parent)))
		} else {
			delete(builders, parent)
		}
		b.Jitter = o.Jitter
		for i := 0; i < o.TxPerBlock; i++ {
			b.AddTxW(r, kinds[r.Intn(len(kinds))])
		}
		blk, ks := b.Mine(r)
		if _, dup := t.ByID[blk.ID()]; dup {
			panic("chaingen: duplicate block id")
		}
		n := &Node{Block: blk, ID: blk.ID(), Parent: parent, Height: parent.Height + 1, Kinds: ks, HdrOK: true, BodyOK: true}
		cs, _ := b.CM.State(n.ID)
		n.State, n.FullState = cs, cs
		t.add(n)
		builders[n] = b
	}
	for i := 0; i < o.Corruptions; i++ {
		t.AddCorrupted(r)
	}
	for i := 0; i < o.OnInvalid; i++ {
		t.AddOnInvalid(r)
	}
	return t
}

// W2Opts are opt-in features of GenW2With (zero value = GenW2).
type W2Opts struct {
	SplitPayouts bool // v1 blocks (below the v2 allow height) split their reward over two miner payouts: [other, wallet] or [wallet, wallet]
}

// GenW2 is GenW plus payments from the other party to the wallet (w-fund-other makes them
// possible) and, one block in four once the other party has funds, a block in which the wallet
// takes part only through pass-through outputs, mined by somebody else.
func GenW2(r *rng.R, env *Env, o GenOpts) *Tree { return GenW2With(r, env, o, W2Opts{}) }

// MineSplit is Mine for a v1 block whose reward (and fees) are split over two miner payouts, the
// wallet not being the only or not the first payee.
func (b *Builder) MineSplit(r *rng.R) (types.Block, []string) {
	cs := b.CM.TipState()
	var other types.Address
	r.Bytes(other[:])
	first := other
	if r.Bool() {
		first = b.Env.Addr
	}
	blk := types.Block{
		ParentID:  cs.Index.ID,
		Timestamp: cs.PrevTimestamps[0].Add(b.delay(r)),
	}
	if blk.Timestamp.Before(b.Env.Genesis.Timestamp) {
		blk.Timestamp = b.Env.Genesis.Timestamp.Add(time.Second)
	}
	total := cs.BlockReward()
	var weight uint64
	for _, txn := range b.CM.PoolTransactions() {
		if weight += cs.TransactionWeight(txn); weight > cs.MaxBlockWeight() {
			break
		}
		blk.Transactions = append(blk.Transactions, txn)
		total = total.Add(txn.TotalFees())
	}
	part := total.Div64(3)
	blk.MinerPayouts = []types.SiacoinOutput{{Value: part, Address: first}, {Value: total.Sub(part), Address: b.Env.Addr}}
	FindNonceFrom(cs, &blk, uint64(r.Intn(1<<20)))
	if err := b.CM.AddBlocks([]types.Block{blk}); err != nil {
		panic(fmt.Sprintf("builder: split-payout block rejected: %v (kinds %v)", err, b.Kinds))
	}
	if b.CM.Tip().ID != blk.ID() {
		panic("builder: split-payout block did not become the tip")
	}
	kinds := append(b.Kinds, "w-split-miner-payouts")
	b.Kinds = nil
	b.reserved = map[types.Hash256]bool{}
	b.Sync()
	return blk, kinds
}

func GenW2With(r *rng.R, env *Env, o GenOpts, wo W2Opts) *Tree {
	t := &Tree{Env: env, ByID: map[types.BlockID]*Node{}}
	_, cm := env.NewManager()
	g := &Node{Idx: 0, Block: env.Genesis, ID: env.Genesis.ID(), HdrOK: true, BodyOK: true, State: cm.TipState(), FullState: cm.TipState()}
	t.add(g)
	builders := map[*Node]*Builder{}
	kinds := o.Kinds
	if kinds == nil {
		kinds = append(append([]string(nil), TxKinds...), WalletKinds2...)
		// contracts (tax revenue) and siafund movements are what the claims need: weight them up
		kinds = append(kinds, "v1-form", "v2-form", "w-sf-send", "w-sf-other", "w-sf-other", "v1-siafund", "v2-siafund", "w-v2-renew-final", "w-fund-other", "w-fund-other")
	}
	for len(t.Nodes)-1 < o.Blocks {
		var parent *Node
		tips := t.validTips()
		if o.Branchiness > 0 && r.Chance(1, o.Branchiness) && len(t.Nodes) > 1 {
			parent = t.Nodes[r.Intn(len(t.Nodes))]
		} else {
			parent = tips[r.Intn(len(tips))]
		}
		b := builders[parent]
		if b == nil {
			b = env.NewBuilder(Blocks(t.Path(parent)))
		} else {
			delete(builders, parent)
		}
		b.Jitter = o.Jitter
		var blk types.Block
		var ks []string
		if b.OtherHasFunds() && r.Chance(1, 4) {
			// a block in which the wallet takes part only through pass-through outputs: nothing else
			// of the wallet's in it, and the miner payout goes to somebody else
			for i := 1 + r.Intn(2); i > 0; i-- {
				b.AddTxW(r, "w-pass-through")
			}
			for {
				s := r.U64()
				if !rng.New(s).Chance(1, 3) { // Mine's first draw decides whether the wallet mines
					blk, ks = b.Mine(rng.New(s))
					break
				}
			}
		} else {
			// on a network with a short subsidy period (SubsidyPeriod): a foundation address update
			// confirmed in the very block that pays a subsidy
			if p := SubsidyPeriod(env); p <= 12 && b.IsSubsidyHeight(b.height()+1) && r.Chance(2, 3) {
				b.AddTxW(r, "w-foundation-update")
			}
			for i := 0; i < o.TxPerBlock; i++ {
				b.AddTxW(r, kinds[r.Intn(len(kinds))])
			}
			if wo.SplitPayouts && b.height()+1 < env.Net.HardforkV2.AllowHeight && r.Chance(1, 2) {
				blk, ks = b.MineSplit(r)
			} else {
				blk, ks = b.Mine(r)
			}
		}
		if _, dup := t.ByID[blk.ID()]; dup {
			panic("chaingen: duplicate block id")
		}
		n := &Node{Block: blk, ID: blk.ID(), Parent: parent, Height: parent.Height + 1, Kinds: ks, HdrOK: true, BodyOK: true}
		cs, _ := b.CM.State(n.ID)
		n.State, n.FullState = cs, cs
		t.add(n)
		builders[n] = b
	}
	for i := 0; i < o.Corruptions; i++ {
		t.AddCorrupted(r)
	}
	for i := 0; i < o.OnInvalid; i++ {
		t.AddOnInvalid(r)
	}
	return t
}

// SubsidyPeriod is the number of blocks between foundation subsidies (core: a twelfth of the
// blocks of a year, which is network configuration through the block interval).
func SubsidyPeriod(env *Env) uint64 {
	return uint64(365*24*time.Hour/env.Net.BlockInterval) / 12
}

// ShortSubsidyPeriod configures a subsidy every 3 blocks (from the foundation hardfork height on) and
// makes addr the foundation's primary and failsafe address. Call it before any block is built.
func (e *Env) ShortSubsidyPeriod(addr types.Address) {
	e.Net.BlockInterval = 365 * 24 * time.Hour / 36
	e.Net.HardforkFoundation.PrimaryAddress = addr
	e.Net.HardforkFoundation.FailsafeAddress = addr
}

// IsSubsidyHeight reports whether the block at height h pays a foundation subsidy (after the initial one).
func (b *Builder) IsSubsidyHeight(h uint64) bool {
	hf := b.Env.Net.HardforkFoundation.Height
	p := SubsidyPeriod(b.Env)
	return p > 0 && h > hf && (h-hf)%p == 0
}
