package chaingen

// Exported constructors for single transactions over explicitly chosen inputs
// (used by the pool properties C05/C13/C14, which need conflicting, dependent
// and stale-basis sets rather than whatever the Builder picks).

import (
	"go.sia.tech/core/consensus"
	"go.sia.tech/core/types"
)

// SignV1 signs every input and revision of txn with the environment's key
// (whole-transaction signatures), for the replay prefix of cs.
func (e *Env) SignV1(cs consensus.State, txn *types.Transaction) {
	txn.Signatures = nil
	add := func(id types.Hash256) {
		txn.Signatures = append(txn.Signatures, types.TransactionSignature{ParentID: id, CoveredFields: types.CoveredFields{WholeTransaction: true}})
	}
	for _, in := range txn.SiacoinInputs {
		add(types.Hash256(in.ParentID))
	}
	for _, in := range txn.SiafundInputs {
		add(types.Hash256(in.ParentID))
	}
	for _, rev := range txn.FileContractRevisions {
		add(types.Hash256(rev.ParentID))
	}
	for i := range txn.Signatures {
		h := cs.WholeSigHash(*txn, txn.Signatures[i].ParentID, 0, 0, nil)
		sig := e.Key.SignHash(h)
		txn.Signatures[i].Signature = sig[:]
	}
}

// SignV2 fills the satisfied policies of every siacoin and siafund input.
func (e *Env) SignV2(cs consensus.State, txn *types.V2Transaction) {
	h := cs.InputSigHash(*txn)
	sig := e.Key.SignHash(h)
	sp := types.SatisfiedPolicy{Policy: types.SpendPolicy{Type: types.PolicyTypeUnlockConditions(e.UC)}, Signatures: []types.Signature{sig}}
	for i := range txn.SiacoinInputs {
		txn.SiacoinInputs[i].SatisfiedPolicy = sp
	}
	for i := range txn.SiafundInputs {
		txn.SiafundInputs[i].SatisfiedPolicy = sp
	}
}

// V1Spend builds a signed v1 transaction spending the siacoin output (id, value)
// owned by the environment's key: fee to the miner, `pay` to a payee, the rest
// back to the key (output 1 when pay > 0, else output 0). extra arbitrary data
// bytes inflate the weight.
func (e *Env) V1Spend(cs consensus.State, id types.SiacoinOutputID, value, fee, pay types.Currency, payee types.Address, extra int, salt byte) types.Transaction {
	txn := types.Transaction{SiacoinInputs: []types.SiacoinInput{{ParentID: id, UnlockConditions: e.UC}}}
	if !pay.IsZero() {
		txn.SiacoinOutputs = append(txn.SiacoinOutputs, types.SiacoinOutput{Address: payee, Value: pay})
	}
	txn.SiacoinOutputs = append(txn.SiacoinOutputs, types.SiacoinOutput{Address: e.Addr, Value: value.Sub(fee).Sub(pay)})
	if !fee.IsZero() {
		txn.MinerFees = []types.Currency{fee}
	}
	if extra > 0 {
		d := make([]byte, extra)
		d[0] = salt
		txn.ArbitraryData = [][]byte{d}
	}
	e.SignV1(cs, &txn)
	return txn
}

// V2Spend builds a signed v2 transaction spending the given element (which may
// be an ephemeral element obtained from EphemeralSiacoinOutput).
func (e *Env) V2Spend(cs consensus.State, in types.SiacoinElement, fee, pay types.Currency, payee types.Address, extra int, salt byte) types.V2Transaction {
	txn := types.V2Transaction{SiacoinInputs: []types.V2SiacoinInput{{Parent: in.Copy()}}, MinerFee: fee}
	if !pay.IsZero() {
		txn.SiacoinOutputs = append(txn.SiacoinOutputs, types.SiacoinOutput{Address: payee, Value: pay})
	}
	txn.SiacoinOutputs = append(txn.SiacoinOutputs, types.SiacoinOutput{Address: e.Addr, Value: in.SiacoinOutput.Value.Sub(fee).Sub(pay)})
	if extra > 0 {
		txn.ArbitraryData = make([]byte, extra)
		txn.ArbitraryData[0] = salt
	}
	e.SignV2(cs, &txn)
	return txn
}

// PoolOf returns the builder's current pool contents (the transactions AddTx
// constructed since the last Mine).
func (b *Builder) PoolOf() ([]types.Transaction, []types.V2Transaction) {
	return b.CM.PoolTransactions(), b.CM.V2PoolTransactions()
}

// TaxAdjustedPayout returns the payout of a v1 contract whose valid outputs sum to target.
func TaxAdjustedPayout(target types.Currency) types.Currency { return taxAdjustedPayout(target) }

// V1Form builds a signed v1 transaction forming a contract with the given window,
// funded by the siacoin output (id, value).
func (e *Env) V1Form(cs consensus.State, id types.SiacoinOutputID, value types.Currency, windowStart, windowEnd uint64, salt byte) types.Transaction {
	payoutValue := types.Siacoins(10)
	fc := types.FileContract{
		WindowStart:        windowStart,
		WindowEnd:          windowEnd,
		ValidProofOutputs:  []types.SiacoinOutput{{Value: payoutValue, Address: e.Addr}},
		MissedProofOutputs: []types.SiacoinOutput{{Value: payoutValue, Address: e.Payees[0]}},
		UnlockHash:         e.Addr,
	}
	fc.FileMerkleRoot[0] = salt
	fc.Payout = taxAdjustedPayout(payoutValue)
	txn := types.Transaction{
		SiacoinInputs:  []types.SiacoinInput{{ParentID: id, UnlockConditions: e.UC}},
		SiacoinOutputs: []types.SiacoinOutput{{Address: e.Addr, Value: value.Sub(fc.Payout)}},
		FileContracts:  []types.FileContract{fc},
	}
	e.SignV1(cs, &txn)
	return txn
}

// V2SpendMulti builds a signed v2 transaction spending several elements (confirmed or
// ephemeral) into one output back to the key.
func (e *Env) V2SpendMulti(cs consensus.State, ins []types.SiacoinElement, fee types.Currency) types.V2Transaction {
	txn := types.V2Transaction{MinerFee: fee}
	var sum types.Currency
	for _, in := range ins {
		txn.SiacoinInputs = append(txn.SiacoinInputs, types.V2SiacoinInput{Parent: in.Copy()})
		sum = sum.Add(in.SiacoinOutput.Value)
	}
	txn.SiacoinOutputs = []types.SiacoinOutput{{Address: e.Addr, Value: sum.Sub(fee)}}
	e.SignV2(cs, &txn)
	return txn
}
