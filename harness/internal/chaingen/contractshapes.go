package chaingen

// Opt-in contract shapes (added for C02/C03): one block that touches the same file
// contract more than once. Nothing here runs unless a caller names one of ShapeKinds
// in GenOpts.Kinds or calls AddTx / AddContractShape with it; unknown kinds still
// return false without drawing randomness.
//
//	v1-form-prove         a v1 contract whose WindowStart is the height of the block that
//	                      forms it, storage-proved in the same block (empty file: no Merkle
//	                      proof; core's storageProofWindowID supports it): the diff is
//	                      Created && Resolved
//	v1-form-revise        formed and revised (new window end) in one block: core rewrites the
//	                      created contract in place (Created, no Revision)
//	v1-form-revise-prove  formed, revised and proved in one block
//	v2-revise-twice       a confirmed v2 contract revised by two transactions of one block
//	v2-revise-renew       a confirmed v2 contract revised and then renewed in one block
//
// A v2 contract cannot be revised or resolved in the block that forms it (the parent
// must be in the accumulator), and "v1 revise + prove of a confirmed contract" is the
// known revise-and-resolve finding, which stays a hand-built scenario.

import (
	"go.sia.tech/core/types"
	"verif/harness/internal/rng"
)

// ShapeKinds are the opt-in same-block contract shapes.
var ShapeKinds = []string{"v1-form-prove", "v1-form-revise", "v1-form-revise-prove", "v2-revise-twice", "v2-revise-renew"}

// AddContractShape adds one of ShapeKinds to the builder's pool.
func (b *Builder) AddContractShape(r *rng.R, kind string) bool { return b.addContractShape(r, kind) }

func (b *Builder) addContractShape(r *rng.R, kind string) bool {
	cs := b.CM.TipState()
	h := b.height()
	switch kind {
	case "v1-form-prove", "v1-form-revise", "v1-form-revise-prove":
		sp := b.spendable()
		if !b.v1Allowed() || len(sp) == 0 {
			return false
		}
		in := sp[r.Intn(len(sp))]
		payoutValue := types.Siacoins(uint32(10 + r.Intn(5)))
		ws := h + 1 // the block that forms it opens the window
		if kind == "v1-form-revise" {
			ws += uint64(1 + r.Intn(2))
		}
		fc := types.FileContract{
			WindowStart:        ws,
			WindowEnd:          ws + 2 + uint64(r.Intn(2)),
			ValidProofOutputs:  []types.SiacoinOutput{{Value: payoutValue, Address: b.Env.Addr}},
			MissedProofOutputs: []types.SiacoinOutput{{Value: payoutValue, Address: b.payee(r)}},
			UnlockHash:         b.Env.Addr,
		}
		r.Bytes(fc.FileMerkleRoot[:])
		fc.Payout = taxAdjustedPayout(payoutValue)
		if in.SiacoinOutput.Value.Cmp(fc.Payout) < 0 {
			return false
		}
		form := types.Transaction{
			SiacoinInputs:  []types.SiacoinInput{{ParentID: in.ID, UnlockConditions: b.Env.UC}},
			SiacoinOutputs: []types.SiacoinOutput{{Address: b.Env.Addr, Value: in.SiacoinOutput.Value.Sub(fc.Payout)}},
			FileContracts:  []types.FileContract{fc},
		}
		b.signV1(&form)
		id := form.FileContractID(0)
		set := []types.Transaction{form}
		if kind != "v1-form-prove" {
			rev := fc
			rev.RevisionNumber++
			rev.WindowEnd++
			revise := types.Transaction{FileContractRevisions: []types.FileContractRevision{{ParentID: id, UnlockConditions: b.Env.UC, FileContract: rev}}}
			b.signV1(&revise)
			set = append(set, revise)
		}
		if kind != "v1-form-revise" {
			set = append(set, types.Transaction{StorageProofs: []types.StorageProof{{ParentID: id}}})
		}
		if _, err := b.CM.AddPoolTransactions(set); err != nil {
			if Debug {
				println("chaingen:", kind, err.Error())
			}
			return false
		}
		for _, txn := range set {
			b.reserveV1(txn)
		}
		b.reserved[types.Hash256(id)] = true
		b.Kinds = append(b.Kinds, kind)
		return true
	case "v2-revise-twice", "v2-revise-renew":
		if !b.v2Allowed() {
			return false
		}
		for _, fce := range b.sortedV2FC() {
			if b.reserved[types.Hash256(fce.ID)] || fce.V2FileContract.ProofHeight < h+1 {
				continue
			}
			rev := fce.V2FileContract
			rev.RevisionNumber++
			sig := b.Env.Key.SignHash(cs.ContractSigHash(rev))
			rev.RenterSignature, rev.HostSignature = sig, sig
			first := types.V2Transaction{FileContractRevisions: []types.V2FileContractRevision{{Parent: fce.Copy(), Revision: rev}}}
			var second types.V2Transaction
			if kind == "v2-revise-twice" {
				rev2 := rev
				rev2.RevisionNumber++
				if rev2.RenterOutput.Value.Cmp(types.Siacoins(1)) > 0 {
					rev2.RenterOutput.Value = rev2.RenterOutput.Value.Sub(types.Siacoins(1))
					rev2.HostOutput.Value = rev2.HostOutput.Value.Add(types.Siacoins(1))
				}
				sig2 := b.Env.Key.SignHash(cs.ContractSigHash(rev2))
				rev2.RenterSignature, rev2.HostSignature = sig2, sig2
				second = types.V2Transaction{FileContractRevisions: []types.V2FileContractRevision{{Parent: fce.Copy(), Revision: rev2}}}
			} else {
				old := rev
				nc := b.newV2Contract(r, cs, h)
				nc.RenterOutput.Value, nc.HostOutput.Value = old.RenterOutput.Value, old.HostOutput.Value
				nc.MissedHostValue, nc.TotalCollateral = types.ZeroCurrency, types.ZeroCurrency
				nsig := b.Env.Key.SignHash(cs.ContractSigHash(nc))
				nc.RenterSignature, nc.HostSignature = nsig, nsig
				ren := types.V2FileContractRenewal{
					FinalRenterOutput: types.SiacoinOutput{Address: old.RenterOutput.Address, Value: types.ZeroCurrency},
					FinalHostOutput:   types.SiacoinOutput{Address: old.HostOutput.Address, Value: types.ZeroCurrency},
					RenterRollover:    old.RenterOutput.Value,
					HostRollover:      old.HostOutput.Value,
					NewContract:       nc,
				}
				rsig := b.Env.Key.SignHash(cs.RenewalSigHash(ren))
				ren.RenterSignature, ren.HostSignature = rsig, rsig
				sp := b.spendable()
				if len(sp) == 0 {
					return false
				}
				in := sp[r.Intn(len(sp))]
				tax := cs.V2FileContractTax(nc)
				if in.SiacoinOutput.Value.Cmp(tax) < 0 {
					return false
				}
				second = types.V2Transaction{
					SiacoinInputs:           []types.V2SiacoinInput{{Parent: in.Copy()}},
					SiacoinOutputs:          []types.SiacoinOutput{{Address: b.Env.Addr, Value: in.SiacoinOutput.Value.Sub(tax)}},
					FileContractResolutions: []types.V2FileContractResolution{{Parent: fce.Copy(), Resolution: &ren}},
				}
				b.signV2(&second)
			}
			if b.addV2(kind, first, second) {
				return true
			}
		}
		return false
	}
	return false
}
