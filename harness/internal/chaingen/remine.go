package chaingen

// Opt-in generator features (GenOpts.Chained, GenOpts.Remine; zero = off, and
// then nothing here runs and no randomness is drawn):
//
//   - same-block chained transactions: a transaction spending an output that an
//     earlier transaction of the same block created (kinds ChainKinds), so that a
//     block's diff holds elements that are created and spent inside it;
//   - re-inclusion: a block mined on one branch carries, with their original ids,
//     transactions that a block outside its ancestry confirmed, when they are
//     still valid on this branch. That is what miners do with the transactions of
//     reverted blocks, and the only way for the same output ids to be created on
//     two competing branches.

import (
	"go.sia.tech/core/types"
	"verif/harness/internal/rng"
)

// ChainKinds are the same-block chain kinds AddTx understands besides TxKinds
// ("v2-ephemeral" of TxKinds is the v2 siacoin chain).
var ChainKinds = []string{"v1-chain", "v1-chain-3", "v1-siafund-chain"}

// kindsFor returns the kinds Gen draws from.
func kindsFor(o GenOpts) []string {
	kinds := o.Kinds
	if kinds == nil {
		kinds = TxKinds
	}
	if o.Chained > 0 {
		kinds = append([]string(nil), kinds...)
		for i := 0; i < o.Chained; i++ {
			kinds = append(kinds, ChainKinds...)
			kinds = append(kinds, "v2-ephemeral")
		}
	}
	return kinds
}

// addTxChain adds a same-block chain of v1 transactions to the pool.
func (b *Builder) addTxChain(r *rng.R, kind string) bool {
	switch kind {
	case "v1-revise-shrink":
		// a revision that SHORTENS the proof window (v1-revise-window only extends it): the contract's
		// expiration moves to a lower height
		if !b.v1Allowed() {
			return false
		}
		h := b.height()
		for _, fce := range b.sortedFC() {
			fc := fce.FileContract
			if b.reserved[types.Hash256(fce.ID)] || fc.WindowStart <= h+1 || fc.UnlockHash != b.Env.Addr || fc.WindowEnd <= fc.WindowStart+1 {
				continue
			}
			rev := fc
			rev.RevisionNumber++
			rev.WindowEnd--
			txn := types.Transaction{FileContractRevisions: []types.FileContractRevision{{ParentID: fce.ID, UnlockConditions: b.Env.UC, FileContract: rev}}}
			b.signV1(&txn)
			if b.addV1(kind, txn) {
				return true
			}
		}
		return false
	case "v1-chain", "v1-chain-3":
		sp := b.spendable()
		if !b.v1Allowed() || len(sp) == 0 {
			return false
		}
		in := sp[r.Intn(len(sp))]
		links := 2
		if kind == "v1-chain-3" {
			links = 3
		}
		fee := types.Siacoins(1)
		cs := b.CM.TipState()
		id, value := in.ID, in.SiacoinOutput.Value
		var set []types.Transaction
		for i := 0; i < links; i++ {
			pay := types.ZeroCurrency
			if i == links-1 || r.Bool() {
				pay = types.Siacoins(3)
			}
			// output 0 is the payee's when pay > 0; the change always goes back to our key and is what the next link spends
			txn := b.Env.V1Spend(cs, id, value, fee, pay, b.payee(r), 0, 0)
			set = append(set, txn)
			id, value = txn.SiacoinOutputID(len(txn.SiacoinOutputs)-1), value.Sub(fee).Sub(pay)
		}
		if _, err := b.CM.AddPoolTransactions(set); err != nil {
			return false
		}
		for _, txn := range set {
			b.reserveV1(txn)
		}
		b.Kinds = append(b.Kinds, kind)
		return true
	case "v1-siafund-chain":
		sf := b.siafunds()
		if !b.v1Allowed() || len(sf) == 0 {
			return false
		}
		in := sf[r.Intn(len(sf))]
		if in.SiafundOutput.Value < 4 {
			return false
		}
		half := in.SiafundOutput.Value / 2
		first := types.Transaction{
			SiafundInputs:  []types.SiafundInput{{ParentID: in.ID, UnlockConditions: b.Env.UC, ClaimAddress: b.payee(r)}},
			SiafundOutputs: []types.SiafundOutput{{Address: b.Env.Addr, Value: half}, {Address: b.Env.Addr, Value: in.SiafundOutput.Value - half}},
		}
		b.signV1(&first)
		second := types.Transaction{
			SiafundInputs:  []types.SiafundInput{{ParentID: first.SiafundOutputID(0), UnlockConditions: b.Env.UC, ClaimAddress: b.payee(r)}},
			SiafundOutputs: []types.SiafundOutput{{Address: b.Env.Addr, Value: half / 2}, {Address: b.payee(r), Value: half - half/2}},
		}
		b.signV1(&second)
		if _, err := b.CM.AddPoolTransactions([]types.Transaction{first, second}); err != nil {
			return false
		}
		b.reserveV1(first)
		b.reserveV1(second)
		b.Kinds = append(b.Kinds, kind)
		return true
	}
	return b.addContractShape(r, kind) // opt-in same-block contract shapes (contractshapes.go); false, no randomness drawn, for unknown kinds
}

// Remine offers the builder's pool the transactions of the blocks of t that are
// not in the ancestry of parent (the builder's tip), each candidate block with
// chance chance/4, in creation order (so that a block's transactions come after
// those of its ancestors). Whatever the pool accepts is still valid on this
// branch and will be mined with its original id. v2 transactions get the element
// proofs of this branch from the builder's own ledger (ids do not cover proofs).
// Returns the number of transactions re-included.
func (b *Builder) Remine(r *rng.R, t *Tree, parent *Node, chance int) int {
	anc := map[*Node]bool{}
	for n := parent; n != nil; n = n.Parent {
		anc[n] = true
	}
	count := 0
	// the pool validates a set against the tip alone: a transaction that spends an output of an earlier
	// re-included one must be offered together with it, so every offer is "all accepted so far + one more"
	var acc1 []types.Transaction
	var acc2 []types.V2Transaction
	for _, x := range t.Nodes {
		if anc[x] || x.Parent == nil || x.Corrupt != "" || x.TwinOf != nil || !x.ChainValid() {
			continue
		}
		if len(x.Block.Transactions) == 0 && len(x.Block.V2Transactions()) == 0 {
			continue
		}
		if !r.Chance(chance, 4) {
			continue
		}
		if b.v1Allowed() {
			for _, txn := range x.Block.Transactions {
				if b.touchesReserved(txn.FileContractRevisions, txn.StorageProofs, nil, nil) {
					continue // one contract is touched at most once per block, as everywhere in this generator
				}
				txn = deepCopyV1(txn)
				set := append(append([]types.Transaction(nil), acc1...), txn)
				if known, err := b.CM.AddPoolTransactions(set); err == nil && !known {
					acc1 = set
					b.reserveV1(txn)
					b.Kinds = append(b.Kinds, "remined-v1")
					count++
				}
			}
		}
		if b.v2Allowed() {
			for _, txn := range x.Block.V2Transactions() {
				if b.touchesReserved(nil, nil, txn.FileContractRevisions, txn.FileContractResolutions) {
					continue
				}
				c, ok := b.refreshV2(txn)
				if !ok {
					continue
				}
				set := append(append([]types.V2Transaction(nil), acc2...), c)
				n := len(b.CM.V2PoolTransactions())
				if b.addV2("remined-v2", set...) {
					if len(b.CM.V2PoolTransactions()) == n {
						b.Kinds = b.Kinds[:len(b.Kinds)-1] // all known already
						continue
					}
					acc2 = set
					count++
				}
			}
		}
	}
	return count
}

func (b *Builder) touchesReserved(revs []types.FileContractRevision, sps []types.StorageProof, v2revs []types.V2FileContractRevision, v2res []types.V2FileContractResolution) bool {
	for _, x := range revs {
		if b.reserved[types.Hash256(x.ParentID)] {
			return true
		}
	}
	for _, x := range sps {
		if b.reserved[types.Hash256(x.ParentID)] {
			return true
		}
	}
	for _, x := range v2revs {
		if b.reserved[types.Hash256(x.Parent.ID)] {
			return true
		}
	}
	for _, x := range v2res {
		if b.reserved[types.Hash256(x.Parent.ID)] {
			return true
		}
	}
	return false
}

func deepCopyV1(txn types.Transaction) types.Transaction {
	blk := deepCopyBlock(types.Block{Transactions: []types.Transaction{txn}, MinerPayouts: []types.SiacoinOutput{{}}})
	return blk.Transactions[0]
}

// refreshV2 copies txn and replaces the state elements (leaf index and proof) of
// the confirmed elements it references by this branch's; false when one of them
// does not exist on this branch. Ephemeral parents are left alone.
func (b *Builder) refreshV2(txn types.V2Transaction) (types.V2Transaction, bool) {
	c := txn.DeepCopy()
	for i := range c.FileContractResolutions {
		switch res := c.FileContractResolutions[i].Resolution.(type) {
		case *types.V2FileContractRenewal:
			rc := *res
			c.FileContractResolutions[i].Resolution = &rc
		case *types.V2StorageProof:
			rc := *res
			rc.ProofIndex = rc.ProofIndex.Copy()
			c.FileContractResolutions[i].Resolution = &rc
		}
	}
	for i := range c.SiacoinInputs {
		p := &c.SiacoinInputs[i].Parent
		if p.StateElement.LeafIndex == types.UnassignedLeafIndex {
			continue
		}
		e, ok := b.L.SC[p.ID]
		if !ok {
			return c, false
		}
		p.StateElement = e.StateElement.Copy()
	}
	for i := range c.SiafundInputs {
		p := &c.SiafundInputs[i].Parent
		if p.StateElement.LeafIndex == types.UnassignedLeafIndex {
			continue
		}
		e, ok := b.L.SF[p.ID]
		if !ok {
			return c, false
		}
		p.StateElement = e.StateElement.Copy()
	}
	for i := range c.FileContractRevisions {
		p := &c.FileContractRevisions[i].Parent
		e, ok := b.L.V2FC[p.ID]
		if !ok {
			return c, false
		}
		p.StateElement = e.StateElement.Copy()
	}
	for i := range c.FileContractResolutions {
		p := &c.FileContractResolutions[i].Parent
		e, ok := b.L.V2FC[p.ID]
		if !ok {
			return c, false
		}
		p.StateElement = e.StateElement.Copy()
		if sp, ok := c.FileContractResolutions[i].Resolution.(*types.V2StorageProof); ok {
			cie, found := b.L.CIE[sp.ProofIndex.ChainIndex]
			if !found {
				return c, false
			}
			sp.ProofIndex = cie.Copy()
		}
	}
	return c, true
}
