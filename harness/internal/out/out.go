// Package out holds what every property subcommand of vh produces: the result
// file read by bin/check (monitor failures, coverage counts, samples) and
// helpers for writing Coq terms into cases.v files.
package out

import (
	"crypto/sha256"
	"encoding/hex"
	"encoding/json"
	"fmt"
	"os"
	"path/filepath"
	"sort"
	"strings"
)

// A Failure is one monitor failure on a concrete, shrunk case.
type Failure struct {
	Kind   string `json:"kind"`   // short class used by the known-findings matcher
	Detail string `json:"detail"` // what was observed
	Replay string `json:"replay"` // path of the replay file
}

// Result is written as result.json into the output directory.
// A Tie is a source-level tie (lint, translator) that could not be re-established on this tree.
// It is not a failure: bin/check runs its focused search and, finding nothing, reports it as
// VIOLATION ... no-failing-input-found.
type Tie struct {
	Name   string `json:"name"`
	Detail string `json:"detail"`
}

// BreakTie records a broken source-level tie.
func (r *Result) BreakTie(name, detail string) {
	r.TieBroken = append(r.TieBroken, Tie{name, detail})
}

type Result struct {
	Property     string         `json:"property"`
	Evaluations  int            `json:"evaluations"`
	Nontrivial   int            `json:"distinct_nontrivial"`
	Rule         string         `json:"rule"`
	Samples      []any          `json:"samples"`
	Distribution map[string]int `json:"distribution"`
	Failures     []Failure      `json:"failures"`
	TieBroken    []Tie          `json:"tie_broken,omitempty"`
	CaseFiles    []string       `json:"case_files"`
	CaseCount    int            `json:"case_count"`
	Exhaustive   bool           `json:"exhaustive"`
	Notes        []string       `json:"notes"`
	Explored     map[string]any `json:"explored,omitempty"`
	Shard        int            `json:"-"` // cases per cases file (default 400)

	dir      string
	seen     map[string]bool
	failSeen map[string]int
}

// New creates a result bound to an output directory.
func New(prop, dir string) *Result {
	os.MkdirAll(dir, 0o755)
	return &Result{Property: prop, dir: dir, Distribution: map[string]int{}, seen: map[string]bool{}, failSeen: map[string]int{}}
}

// Dir returns the output directory.
func (r *Result) Dir() string { return r.dir }

// Count increments a distribution counter.
func (r *Result) Count(key string) { r.Distribution[key]++ }

// CountN adds n to a distribution counter.
func (r *Result) CountN(key string, n int) { r.Distribution[key] += n }

// Eval records one evaluated case; canon is a canonical rendering of the
// abstract case used for distinctness, nontrivial the per-property rule.
func (r *Result) Eval(canon string, nontrivial bool) {
	r.Evaluations++
	if !nontrivial {
		return
	}
	h := sha256.Sum256([]byte(canon))
	k := hex.EncodeToString(h[:8])
	if !r.seen[k] {
		r.seen[k] = true
		r.Nontrivial++
	}
}

// Sample keeps up to 5 samples.
func (r *Result) Sample(v any) {
	if len(r.Samples) < 5 {
		r.Samples = append(r.Samples, v)
	}
}

// Fail records a monitor failure and writes its replay file. At most 3
// replays are kept per kind; further ones are only counted.
func (r *Result) Fail(kind, detail string, replay any) {
	r.failSeen[kind]++
	r.Count("fail:" + kind)
	if r.failSeen[kind] > 3 {
		return
	}
	name := fmt.Sprintf("violation-%s-%d.json", sanitize(kind), r.failSeen[kind])
	p := filepath.Join(r.dir, name)
	b, _ := json.MarshalIndent(map[string]any{"property": r.Property, "kind": kind, "detail": detail, "replay": replay}, "", " ")
	os.WriteFile(p, b, 0o644)
	r.Failures = append(r.Failures, Failure{Kind: kind, Detail: detail, Replay: p})
}

func sanitize(s string) string {
	return strings.Map(func(c rune) rune {
		if c >= 'a' && c <= 'z' || c >= 'A' && c <= 'Z' || c >= '0' && c <= '9' || c == '-' {
			return c
		}
		return '_'
	}, s)
}

// WriteCases writes a cases file: header imports module mod, body is the list
// of case terms of Coq type "case"; the file prints the mismatching indices.
func (r *Result) WriteCases(mod string, cases []string) {
	shard := r.Shard
	if shard <= 0 {
		shard = 400
	}
	for i := 0; i < len(cases); i += shard {
		j := i + shard
		if j > len(cases) {
			j = len(cases)
		}
		name := fmt.Sprintf("cases_%s_%d.v", r.Property, len(r.CaseFiles))
		var sb strings.Builder
		fmt.Fprintf(&sb, "From Coq Require Import NArith ZArith List String.\nImport ListNotations.\nFrom CV Require Import %s.\nOpen Scope N_scope.\nDefinition cases : list case := [\n", mod)
		sb.WriteString(strings.Join(cases[i:j], ";\n"))
		sb.WriteString("\n].\nDefinition M := Eval vm_compute in mismatches cases.\nPrint M.\n")
		os.WriteFile(filepath.Join(r.dir, name), []byte(sb.String()), 0o644)
		r.CaseFiles = append(r.CaseFiles, name)
	}
	r.CaseCount += len(cases)
}

// Finish writes result.json.
func (r *Result) Finish() {
	if r.Failures == nil {
		r.Failures = []Failure{}
	}
	if r.Samples == nil {
		r.Samples = []any{}
	}
	if r.Notes == nil {
		r.Notes = []string{}
	}
	b, _ := json.MarshalIndent(r, "", " ")
	os.WriteFile(filepath.Join(r.dir, "result.json"), b, 0o644)
}

// Coq term helpers.

// N renders a number as an N literal (scope N is open in cases files).
func N(v uint64) string { return fmt.Sprintf("%d", v) }

// Z renders a signed decimal string as a Z literal.
func Z(dec string) string { return "(" + dec + ")%Z" }

// Bool renders a bool.
func Bool(b bool) string {
	if b {
		return "true"
	}
	return "false"
}

// List renders a list.
func List(xs []string) string { return "[" + strings.Join(xs, "; ") + "]" }

// NList renders a list of numbers.
func NList(xs []uint64) string {
	s := make([]string, len(xs))
	for i, x := range xs {
		s[i] = N(x)
	}
	return List(s)
}

// OptN renders an option N.
func OptN(v uint64, ok bool) string {
	if !ok {
		return "None"
	}
	return fmt.Sprintf("(Some %d)", v)
}

// Pair renders a pair.
func Pair(a, b string) string { return "(" + a + ", " + b + ")" }

// SortedKeys returns the sorted keys of a map.
func SortedKeys[V any](m map[string]V) []string {
	ks := make([]string, 0, len(m))
	for k := range m {
		ks = append(ks, k)
	}
	sort.Strings(ks)
	return ks
}
