// Package subs holds what the update-stream properties (C04, C06) share: an
// independent linear twin ledger per tree node (built with go.sia.tech/core and
// the store's public supplement look-ups only, never with UpdatesSince), a
// subscriber that folds UpdatesSince chunks into a shadow ledger, and the
// contiguity checks on a chunk.
package subs

import (
	"bytes"
	"crypto/sha256"
	"encoding/hex"
	"fmt"
	"time"

	"go.sia.tech/core/consensus"
	"go.sia.tech/core/types"
	"go.sia.tech/coreutils/chain"
	"verif/harness/internal/chaingen"
)

// A Twin computes, for every chain-valid node of a tree, the ledger of the
// linear chain genesis..node: each block is applied once, in order, on a fresh
// node that never saw another branch, with consensus.ApplyBlock called directly.
type Twin struct {
	T    *chaingen.Tree
	memo map[int]*chaingen.Ledger
	caus map[int]consensus.ApplyUpdate
}

// NewTwin returns an empty twin cache for t.
func NewTwin(t *chaingen.Tree) *Twin {
	return &Twin{T: t, memo: map[int]*chaingen.Ledger{}, caus: map[int]consensus.ApplyUpdate{}}
}

func (tw *Twin) fill(n *chaingen.Node) {
	if _, ok := tw.memo[n.Idx]; ok {
		return
	}
	if !n.ChainValid() {
		panic(fmt.Sprintf("subs: twin ledger of invalid node %d", n.Idx))
	}
	env := tw.T.Env
	// genesis
	if _, ok := tw.memo[0]; !ok {
		gs := env.Net.GenesisState()
		bs := consensus.V1BlockSupplement{Transactions: make([]consensus.V1TransactionSupplement, len(env.Genesis.Transactions))}
		cs, cau := consensus.ApplyBlock(gs, env.Genesis, bs, time.Time{})
		l := chaingen.NewLedger()
		l.Apply(cau, cs.Index)
		tw.memo[0] = l
		tw.caus[0] = cau
	}
	store, cm := env.NewManager()
	prev := tw.memo[0]
	for _, y := range tw.T.Path(n) {
		if l, ok := tw.memo[y.Idx]; ok {
			prev = l
		} else {
			bs := store.SupplementTipBlock(y.Block)
			ts, ok := store.AncestorTimestamp(y.Block.ParentID)
			if !ok {
				panic("subs: twin: no ancestor timestamp")
			}
			cs, cau := consensus.ApplyBlock(cm.TipState(), y.Block, bs, ts)
			l := prev.Clone()
			l.Apply(cau, cs.Index)
			tw.memo[y.Idx] = l
			tw.caus[y.Idx] = cau
			prev = l
		}
		if err := cm.AddBlocks([]types.Block{y.Block}); err != nil || cm.Tip().ID != y.ID {
			panic(fmt.Sprintf("subs: twin: linear replay of node %d failed: %v", y.Idx, err))
		}
	}
}

// At returns the linear ledger at n (do not modify it).
func (tw *Twin) At(n *chaingen.Node) *chaingen.Ledger {
	tw.fill(n)
	return tw.memo[n.Idx]
}

// Update returns the apply update of n on the linear chain (do not modify it).
func (tw *Twin) Update(n *chaingen.Node) consensus.ApplyUpdate {
	tw.fill(n)
	return tw.caus[n.Idx]
}

func proofEq(a, b types.StateElement) bool {
	if a.LeafIndex != b.LeafIndex || len(a.MerkleProof) != len(b.MerkleProof) {
		return false
	}
	for i := range a.MerkleProof {
		if a.MerkleProof[i] != b.MerkleProof[i] {
			return false
		}
	}
	return true
}

// Compare returns "" if the two ledgers hold the same elements (ids, values,
// leaf indices) with byte-equal Merkle proofs at the same tip, else what differs.
func Compare(got, want *chaingen.Ledger) string {
	if got.Tip != want.Tip {
		return fmt.Sprintf("tip %v, expected %v", got.Tip, want.Tip)
	}
	if g, w := got.Digest(true), want.Digest(true); g != w {
		return "elements differ:\n" + firstDiff(g, w)
	}
	for id, e := range want.SC {
		if !proofEq(got.SC[id].StateElement, e.StateElement) {
			return fmt.Sprintf("Merkle proof of siacoin element %v (leaf %d) differs", id, e.StateElement.LeafIndex)
		}
	}
	for id, e := range want.SF {
		if !proofEq(got.SF[id].StateElement, e.StateElement) {
			return fmt.Sprintf("Merkle proof of siafund element %v (leaf %d) differs", id, e.StateElement.LeafIndex)
		}
	}
	for id, e := range want.FC {
		if !proofEq(got.FC[id].StateElement, e.StateElement) {
			return fmt.Sprintf("Merkle proof of file contract %v (leaf %d) differs", id, e.StateElement.LeafIndex)
		}
	}
	for id, e := range want.V2FC {
		if !proofEq(got.V2FC[id].StateElement, e.StateElement) {
			return fmt.Sprintf("Merkle proof of v2 file contract %v (leaf %d) differs", id, e.StateElement.LeafIndex)
		}
	}
	if len(got.CIE) != len(want.CIE) {
		return fmt.Sprintf("%d chain index elements, expected %d", len(got.CIE), len(want.CIE))
	}
	for id, e := range want.CIE {
		g, ok := got.CIE[id]
		if !ok || !proofEq(g.StateElement, e.StateElement) {
			return fmt.Sprintf("chain index element %v missing or its Merkle proof differs", id)
		}
	}
	return ""
}

func firstDiff(g, w string) string {
	gl, wl := bytes.Split([]byte(g), []byte("\n")), bytes.Split([]byte(w), []byte("\n"))
	gs, ws := map[string]bool{}, map[string]bool{}
	for _, l := range gl {
		gs[string(l)] = true
	}
	for _, l := range wl {
		ws[string(l)] = true
	}
	out := ""
	n := 0
	for _, l := range gl {
		if !ws[string(l)] && n < 3 {
			out += "  only in the subscriber's ledger: " + short(string(l)) + "\n"
			n++
		}
	}
	for _, l := range wl {
		if !gs[string(l)] && n < 6 {
			out += "  only in the linear ledger:       " + short(string(l)) + "\n"
			n++
		}
	}
	return out
}

func short(s string) string {
	if len(s) > 200 {
		return s[:200] + "..."
	}
	return s
}

// CheckChunk checks one UpdatesSince result against the property's wording:
// no more than max updates; reverts walk back block by block from idx (each
// reverted block is the block of the current index, and the state carried is
// its parent's); applies walk forward, each attaching to the current index with
// the height one above. It returns the index after the chunk and "" or the
// failure (kind, detail).
func CheckChunk(idx types.ChainIndex, max int, rus []chain.RevertUpdate, aus []chain.ApplyUpdate) (after types.ChainIndex, kind, detail string) {
	after = idx
	if len(rus)+len(aus) > max {
		return after, "c04-chunk-too-long", fmt.Sprintf("UpdatesSince(%v, %d) returned %d reverts + %d applies", idx, max, len(rus), len(aus))
	}
	for i, ru := range rus {
		id := ru.Block.ID()
		if id != after.ID {
			return after, "c04-revert-not-contiguous", fmt.Sprintf("revert %d of the chunk from %v undoes block %v but the subscriber stands on %v", i, idx, id, after)
		}
		if ru.State.Index.ID != ru.Block.ParentID || ru.State.Index.Height+1 != after.Height {
			return after, "c04-revert-state-not-parent", fmt.Sprintf("revert %d of the chunk from %v carries state %v, expected the parent %v at height %d", i, idx, ru.State.Index, ru.Block.ParentID, after.Height-1)
		}
		after = ru.State.Index
	}
	for i, au := range aus {
		id := au.Block.ID()
		if after == (types.ChainIndex{}) {
			if au.Block.ParentID != (types.BlockID{}) || au.State.Index.Height != 0 {
				return after, "c04-apply-not-contiguous", fmt.Sprintf("apply %d of the chunk from the empty index is block %v at height %d, not genesis", i, id, au.State.Index.Height)
			}
		} else if au.Block.ParentID != after.ID || au.State.Index.Height != after.Height+1 {
			return after, "c04-apply-not-contiguous", fmt.Sprintf("apply %d of the chunk from %v is block %v (parent %v, height %d) but the subscriber stands on %v", i, idx, id, au.Block.ParentID, au.State.Index.Height, after)
		}
		if au.State.Index.ID != id {
			return after, "c04-apply-state-not-block", fmt.Sprintf("apply %d of the chunk from %v carries state %v for block %v", i, idx, au.State.Index, id)
		}
		after = au.State.Index
	}
	return after, "", ""
}

// Fold applies a chunk to a shadow ledger.
func Fold(l *chaingen.Ledger, rus []chain.RevertUpdate, aus []chain.ApplyUpdate) {
	for _, ru := range rus {
		reverted := types.ChainIndex{Height: ru.State.Index.Height + 1, ID: ru.Block.ID()}
		l.Revert(ru.RevertUpdate, reverted, ru.State.Index)
	}
	for _, au := range aus {
		l.Apply(au.ApplyUpdate, au.State.Index)
	}
}

// VerifyAt checks every element proof of a ledger against the accumulator of cs
// (core's own membership check, reached through ValidateTransactionElements):
// siacoin, siafund and v2 contract elements as unspent leaves, chain index
// elements as storage-proof indices. v1 contract elements cannot be posed to
// that API and are covered by the comparison with the linear twin. Returns ""
// or the first element whose proof does not verify.
func VerifyAt(cs consensus.State, l *chaingen.Ledger) string {
	for id, e := range l.SC {
		if err := VerifySiacoin(cs, e); err != nil {
			return fmt.Sprintf("siacoin element %v (leaf %d): %v", id, e.StateElement.LeafIndex, err)
		}
	}
	for id, e := range l.SF {
		txn := types.V2Transaction{SiafundInputs: []types.V2SiafundInput{{Parent: e.Copy()}}}
		if err := cs.Elements.ValidateTransactionElements(txn); err != nil {
			return fmt.Sprintf("siafund element %v (leaf %d): %v", id, e.StateElement.LeafIndex, err)
		}
	}
	for id, e := range l.V2FC {
		txn := types.V2Transaction{FileContractRevisions: []types.V2FileContractRevision{{Parent: e.Copy()}}}
		if err := cs.Elements.ValidateTransactionElements(txn); err != nil {
			return fmt.Sprintf("v2 file contract %v (leaf %d): %v", id, e.StateElement.LeafIndex, err)
		}
	}
	for id, e := range l.CIE {
		var dummy types.V2FileContractElement
		dummy.StateElement.LeafIndex = types.UnassignedLeafIndex
		txn := types.V2Transaction{FileContractResolutions: []types.V2FileContractResolution{{Parent: dummy, Resolution: &types.V2StorageProof{ProofIndex: e.Copy()}}}}
		if err := cs.Elements.ValidateTransactionElements(txn); err != nil {
			return fmt.Sprintf("chain index element %v (leaf %d): %v", id, e.StateElement.LeafIndex, err)
		}
	}
	return ""
}

// VerifySiacoin checks one siacoin element's proof against the accumulator of cs.
func VerifySiacoin(cs consensus.State, e types.SiacoinElement) error {
	return cs.Elements.ValidateTransactionElements(types.V2Transaction{SiacoinInputs: []types.V2SiacoinInput{{Parent: e.Copy()}}})
}

// CompareLoose is Compare without leaf indices and proofs (ids, values and
// contract contents only): what remains comparable with the linear twin when the
// node's own state differs from the linear replay's.
func CompareLoose(got, want *chaingen.Ledger) string {
	if got.Tip != want.Tip {
		return fmt.Sprintf("tip %v, expected %v", got.Tip, want.Tip)
	}
	if g, w := got.Digest(false), want.Digest(false); g != w {
		return "elements differ:\n" + firstDiff(g, w)
	}
	return ""
}

// DigestChunk is a canonical digest of everything a chunk hands to a subscriber:
// blocks, states, element diffs with leaf indices and Merkle proofs.
func DigestChunk(rus []chain.RevertUpdate, aus []chain.ApplyUpdate) string {
	h := sha256.New()
	e := types.NewEncoder(h)
	diffs := func(sc []consensus.SiacoinElementDiff, sf []consensus.SiafundElementDiff, fc []consensus.FileContractElementDiff, v2 []consensus.V2FileContractElementDiff) {
		for _, d := range sc {
			d.SiacoinElement.EncodeTo(e)
			e.WriteBool(d.Created)
			e.WriteBool(d.Spent)
		}
		for _, d := range sf {
			d.SiafundElement.EncodeTo(e)
			e.WriteBool(d.Created)
			e.WriteBool(d.Spent)
		}
		for _, d := range fc {
			d.FileContractElement.EncodeTo(e)
			e.WriteBool(d.Created)
			e.WriteBool(d.Resolved)
			e.WriteBool(d.Valid)
			e.WriteBool(d.Revision != nil)
			if d.Revision != nil {
				d.Revision.EncodeTo(e)
			}
		}
		for _, d := range v2 {
			d.V2FileContractElement.EncodeTo(e)
			e.WriteBool(d.Created)
			e.WriteBool(d.Revision != nil)
			if d.Revision != nil {
				d.Revision.EncodeTo(e)
			}
			e.WriteBool(d.Resolution != nil)
		}
	}
	for _, ru := range rus {
		e.WriteString("revert")
		types.V2Block(ru.Block).EncodeTo(e)
		ru.State.EncodeTo(e)
		diffs(ru.SiacoinElementDiffs(), ru.SiafundElementDiffs(), ru.FileContractElementDiffs(), ru.V2FileContractElementDiffs())
	}
	for _, au := range aus {
		e.WriteString("apply")
		types.V2Block(au.Block).EncodeTo(e)
		au.State.EncodeTo(e)
		diffs(au.SiacoinElementDiffs(), au.SiafundElementDiffs(), au.FileContractElementDiffs(), au.V2FileContractElementDiffs())
		cie := au.ChainIndexElement()
		cie.EncodeTo(e)
	}
	e.Flush()
	return hex.EncodeToString(h.Sum(nil))
}

// Scribble overwrites what a chunk handed out, as a careless subscriber may: proofs, values and
// addresses in the element diffs, payouts and arbitrary data in the blocks. Whatever the manager
// hands to the next caller must not be affected.
func Scribble(rus []chain.RevertUpdate, aus []chain.ApplyUpdate) {
	sc := func(ds []consensus.SiacoinElementDiff) {
		for i := range ds {
			for j := range ds[i].SiacoinElement.StateElement.MerkleProof {
				ds[i].SiacoinElement.StateElement.MerkleProof[j][0] ^= 0xFF
			}
			ds[i].SiacoinElement.SiacoinOutput.Value = types.ZeroCurrency
			ds[i].SiacoinElement.SiacoinOutput.Address[0] ^= 0xFF
			ds[i].SiacoinElement.StateElement.LeafIndex ^= 1
		}
	}
	sf := func(ds []consensus.SiafundElementDiff) {
		for i := range ds {
			for j := range ds[i].SiafundElement.StateElement.MerkleProof {
				ds[i].SiafundElement.StateElement.MerkleProof[j][0] ^= 0xFF
			}
			ds[i].SiafundElement.SiafundOutput.Value++
		}
	}
	blk := func(b *types.Block) {
		for i := range b.MinerPayouts {
			b.MinerPayouts[i].Address[0] ^= 0xFF
		}
		for i := range b.Transactions {
			for j := range b.Transactions[i].SiacoinOutputs {
				b.Transactions[i].SiacoinOutputs[j].Value = types.ZeroCurrency
			}
			for j := range b.Transactions[i].Signatures {
				for k := range b.Transactions[i].Signatures[j].Signature {
					b.Transactions[i].Signatures[j].Signature[k] ^= 0xFF
				}
			}
		}
		if b.V2 != nil {
			for i := range b.V2.Transactions {
				for j := range b.V2.Transactions[i].SiacoinOutputs {
					b.V2.Transactions[i].SiacoinOutputs[j].Value = types.ZeroCurrency
				}
				for j := range b.V2.Transactions[i].SiacoinInputs {
					for k := range b.V2.Transactions[i].SiacoinInputs[j].Parent.StateElement.MerkleProof {
						b.V2.Transactions[i].SiacoinInputs[j].Parent.StateElement.MerkleProof[k][0] ^= 0xFF
					}
				}
			}
		}
	}
	for i := range rus {
		sc(rus[i].SiacoinElementDiffs())
		sf(rus[i].SiafundElementDiffs())
		blk(&rus[i].Block)
	}
	for i := range aus {
		sc(aus[i].SiacoinElementDiffs())
		sf(aus[i].SiafundElementDiffs())
		blk(&aus[i].Block)
	}
}
