// Package netsim starts real syncer.Syncer instances over loopback inside one
// process (C11, C12). Every node is bound to its own 127.x.y.z address, both for
// listening and for dialling, so that the syncer's per-address and per-subnet
// bookkeeping (peer keys, bans, strikes) tells the nodes apart. What the syncer
// sees of its chain manager goes through a recording wrapper; what it tells its
// peer store is recorded too.
package netsim

import (
	"bytes"
	"context"
	"fmt"
	"net"
	"strings"
	"sync"
	"sync/atomic"
	"time"

	"go.sia.tech/core/consensus"
	"go.sia.tech/core/gateway"
	"go.sia.tech/core/types"
	"go.sia.tech/coreutils/chain"
	"go.sia.tech/coreutils/syncer"
	"go.uber.org/zap"
	"go.uber.org/zap/zapcore"
	"go.uber.org/zap/zaptest/observer"
	"verif/harness/internal/chaingen"
	"verif/harness/internal/mgrsim"
)

// ---------------------------------------------------------------- recording chain manager

// A Call is one call of the syncer on its ChainManager.
type Call struct {
	Seq    uint64
	Kind   string // history | headers | bfh | block | state | add | addv | txpb | addpool
	Index  types.ChainIndex
	Max    uint64
	IDs    []types.BlockID // argument ids (history, submitted blocks)
	Res    []types.BlockID // result ids (headers / blocks served, history)
	Rem    uint64
	OK     bool
	Err    string
	TipAft types.ChainIndex
}

var seq atomic.Uint64

// RecCM wraps a ChainManager and records the calls that matter, in the order
// in which they took effect on this manager (one lock around call + record).
type RecCM struct {
	Inner syncer.ChainManager
	mu    sync.Mutex
	log   []Call
	Off   bool // recording disabled
}

// Log returns a copy of the recorded calls.
func (r *RecCM) Log() []Call {
	r.mu.Lock()
	defer r.mu.Unlock()
	return append([]Call(nil), r.log...)
}

func (r *RecCM) rec(c Call) {
	if r.Off {
		return
	}
	c.Seq = seq.Add(1)
	r.log = append(r.log, c)
}

func ids(bs []types.Block) []types.BlockID {
	out := make([]types.BlockID, len(bs))
	for i := range bs {
		out[i] = bs[i].ID()
	}
	return out
}

func errStr(err error) string {
	if err == nil {
		return ""
	}
	return err.Error()
}

func (r *RecCM) History() ([32]types.BlockID, error) {
	r.mu.Lock()
	defer r.mu.Unlock()
	h, err := r.Inner.History()
	r.rec(Call{Kind: "history", Res: append([]types.BlockID(nil), h[:]...), Err: errStr(err), TipAft: r.Inner.Tip()})
	return h, err
}

func (r *RecCM) BlocksForHistory(history []types.BlockID, max uint64) ([]types.Block, uint64, error) {
	r.mu.Lock()
	defer r.mu.Unlock()
	bs, rem, err := r.Inner.BlocksForHistory(history, max)
	r.rec(Call{Kind: "bfh", IDs: append([]types.BlockID(nil), history...), Max: max, Res: ids(bs), Rem: rem, Err: errStr(err), TipAft: r.Inner.Tip()})
	return bs, rem, err
}

func (r *RecCM) Headers(index types.ChainIndex, max uint64) ([]types.BlockHeader, uint64, error) {
	r.mu.Lock()
	defer r.mu.Unlock()
	hs, rem, err := r.Inner.Headers(index, max)
	res := make([]types.BlockID, len(hs))
	for i := range hs {
		res[i] = hs[i].ID()
	}
	r.rec(Call{Kind: "headers", Index: index, Max: max, Res: res, Rem: rem, Err: errStr(err), TipAft: r.Inner.Tip()})
	return hs, rem, err
}

func (r *RecCM) Block(id types.BlockID) (types.Block, bool) {
	b, ok := r.Inner.Block(id)
	return b, ok
}

func (r *RecCM) State(id types.BlockID) (consensus.State, bool) { return r.Inner.State(id) }

func (r *RecCM) AddBlocks(blocks []types.Block) error {
	r.mu.Lock()
	defer r.mu.Unlock()
	err := r.Inner.AddBlocks(blocks)
	r.rec(Call{Kind: "add", IDs: ids(blocks), Err: errStr(err), TipAft: r.Inner.Tip()})
	return err
}

func (r *RecCM) AddValidatedV2Blocks(blocks []types.Block, states []consensus.State) error {
	r.mu.Lock()
	defer r.mu.Unlock()
	err := r.Inner.AddValidatedV2Blocks(blocks, states)
	r.rec(Call{Kind: "addv", IDs: ids(blocks), Err: errStr(err), TipAft: r.Inner.Tip()})
	return err
}

func (r *RecCM) Tip() types.ChainIndex     { return r.Inner.Tip() }
func (r *RecCM) TipState() consensus.State { return r.Inner.TipState() }
func (r *RecCM) PoolTransaction(id types.TransactionID) (types.Transaction, bool) {
	return r.Inner.PoolTransaction(id)
}
func (r *RecCM) AddPoolTransactions(txns []types.Transaction) (bool, error) {
	return r.Inner.AddPoolTransactions(txns)
}
func (r *RecCM) V2PoolTransaction(id types.TransactionID) (types.V2Transaction, bool) {
	return r.Inner.V2PoolTransaction(id)
}
func (r *RecCM) AddV2PoolTransactions(basis types.ChainIndex, txns []types.V2Transaction) (bool, error) {
	known, err := r.Inner.AddV2PoolTransactions(basis, txns)
	r.mu.Lock()
	r.rec(Call{Kind: "addpool", Index: basis, Max: uint64(len(txns)), OK: known, Err: errStr(err)})
	r.mu.Unlock()
	return known, err
}
func (r *RecCM) TransactionsForPartialBlock(missing []types.Hash256) ([]types.Transaction, []types.V2Transaction) {
	return r.Inner.TransactionsForPartialBlock(missing)
}

// ---------------------------------------------------------------- recording peer store

// A BanCall is one PeerStore.Ban call.
type BanCall struct {
	Addr   string
	Reason string
	At     time.Time
}

// RecStore is an in-memory PeerStore that records bans. Banned answers true
// only for banned addresses that are not trusted (honest nodes stay reachable
// whatever the subnet strikes add up to).
type RecStore struct {
	mu      sync.Mutex
	peers   map[string]syncer.PeerInfo
	bans    []BanCall
	Trusted map[string]bool // host -> never reported as banned
}

// NewRecStore returns an empty store.
func NewRecStore() *RecStore {
	return &RecStore{peers: map[string]syncer.PeerInfo{}, Trusted: map[string]bool{}}
}

func (ps *RecStore) AddPeer(addr string) error {
	ps.mu.Lock()
	defer ps.mu.Unlock()
	if _, ok := ps.peers[addr]; !ok {
		ps.peers[addr] = syncer.PeerInfo{Address: addr, FirstSeen: time.Now()}
	}
	return nil
}

func (ps *RecStore) Peers() ([]syncer.PeerInfo, error) {
	ps.mu.Lock()
	defer ps.mu.Unlock()
	var out []syncer.PeerInfo
	for _, p := range ps.peers {
		out = append(out, p)
	}
	return out, nil
}

func (ps *RecStore) PeerInfo(addr string) (syncer.PeerInfo, error) {
	ps.mu.Lock()
	defer ps.mu.Unlock()
	p, ok := ps.peers[addr]
	if !ok {
		return syncer.PeerInfo{}, syncer.ErrPeerNotFound
	}
	return p, nil
}

func (ps *RecStore) UpdatePeerInfo(addr string, fn func(*syncer.PeerInfo)) error {
	ps.mu.Lock()
	defer ps.mu.Unlock()
	p := ps.peers[addr]
	fn(&p)
	ps.peers[addr] = p
	return nil
}

func (ps *RecStore) Ban(addr string, _ time.Duration, reason string) error {
	ps.mu.Lock()
	defer ps.mu.Unlock()
	ps.bans = append(ps.bans, BanCall{Addr: addr, Reason: reason, At: time.Now()})
	return nil
}

func hostOf(addr string) string {
	if h, _, err := net.SplitHostPort(addr); err == nil {
		return h
	}
	return addr
}

func (ps *RecStore) Banned(addr string) (bool, error) {
	ps.mu.Lock()
	defer ps.mu.Unlock()
	h := hostOf(addr)
	if ps.Trusted[h] {
		return false, nil
	}
	ip := net.ParseIP(h)
	for _, b := range ps.bans {
		if strings.Contains(b.Addr, "/") {
			if _, n, err := net.ParseCIDR(b.Addr); err == nil && ip != nil && n.Contains(ip) && strings.HasSuffix(b.Addr, "/32") {
				return true, nil
			}
			continue
		}
		if hostOf(b.Addr) == h {
			return true, nil
		}
	}
	return false, nil
}

// Bans returns the recorded Ban calls.
func (ps *RecStore) Bans() []BanCall {
	ps.mu.Lock()
	defer ps.mu.Unlock()
	return append([]BanCall(nil), ps.bans...)
}

// BansOf returns the Ban calls that name host (a single address, not a subnet wider than /32).
func (ps *RecStore) BansOf(host string) []BanCall {
	var out []BanCall
	for _, b := range ps.Bans() {
		if strings.Contains(b.Addr, "/") {
			continue
		}
		if hostOf(b.Addr) == host {
			out = append(out, b)
		}
	}
	return out
}

// ---------------------------------------------------------------- nodes

// A Node is one running syncer with its chain manager.
type Node struct {
	Name  string
	IP    string
	Env   *chaingen.Env
	Store *chain.DBStore
	CM    *chain.Manager
	Rec   *RecCM // the ChainManager the syncer talks to (outermost wrapper)
	PS    *RecStore
	L     net.Listener
	S     *syncer.Syncer
	Logs  *observer.ObservedLogs
	UID   gateway.UniqueID

	tipMu sync.Mutex
	tips  []types.ChainIndex // every tip the manager reported to OnReorg, in order
	done  chan error
}

// Options of Start.
type Options struct {
	// Wrap, if set, is put between the recording wrapper and the manager: the
	// syncer sees Rec(Wrap(cm)).
	Wrap func(cm *chain.Manager) syncer.ChainManager
	// Opts are appended to the defaults (short intervals, no automatic dialling).
	Opts []syncer.Option
	// UID fixes the gateway unique id (8 bytes derived from the scenario seed).
	UID gateway.UniqueID
	// Unobserved: the syncer talks to the manager directly, without the recording wrapper (whose lock serialises
	// the calls of one node); such a node is judged only by its final state.
	Unobserved bool
}

// NewChain returns a manager at genesis that has been fed the path to n.
func NewChain(env *chaingen.Env, t *chaingen.Tree, n *chaingen.Node) (*chain.DBStore, *chain.Manager) {
	store, cm := env.NewManager()
	if n != nil && n.Parent != nil {
		if err := cm.AddBlocks(chaingen.Blocks(t.Path(n))); err != nil {
			panic(fmt.Sprintf("netsim: initial chain rejected: %v", err))
		}
		if cm.Tip().ID != n.ID {
			panic("netsim: initial chain not adopted")
		}
	}
	return store, cm
}

// Start starts a syncer for cm on ip (a 127.x.y.z address).
func Start(name, ip string, env *chaingen.Env, store *chain.DBStore, cm *chain.Manager, o Options) (*Node, error) {
	l, err := net.Listen("tcp", ip+":0")
	if err != nil {
		return nil, err
	}
	n := &Node{Name: name, IP: ip, Env: env, Store: store, CM: cm, PS: NewRecStore(), L: l, UID: o.UID, done: make(chan error, 1)}
	var inner syncer.ChainManager = cm
	if o.Wrap != nil {
		inner = o.Wrap(cm)
	}
	n.Rec = &RecCM{Inner: inner}
	cm.OnReorg(func(ci types.ChainIndex) {
		n.tipMu.Lock()
		n.tips = append(n.tips, ci)
		n.tipMu.Unlock()
	})
	core, logs := observer.New(zapcore.ErrorLevel)
	n.Logs = logs
	if n.UID == (gateway.UniqueID{}) {
		n.UID = gateway.GenerateUniqueID()
	}
	opts := []syncer.Option{
		syncer.WithLogger(zap.New(core)),
		syncer.WithDialer(&net.Dialer{LocalAddr: &net.TCPAddr{IP: net.ParseIP(ip)}}),
		syncer.WithSyncInterval(60 * time.Millisecond),
		syncer.WithPeerDiscoveryInterval(time.Hour),
		syncer.WithMaxOutboundPeers(0), // no automatic dialling: the harness fixes the topology with Connect
		syncer.WithConnectTimeout(5 * time.Second),
		syncer.WithSendBlockTimeout(5 * time.Second),
		syncer.WithSendBlocksTimeout(5 * time.Second),
		syncer.WithSendTransactionsTimeout(3 * time.Second),
		syncer.WithRelayHeaderTimeout(2 * time.Second),
		syncer.WithRelayBlockOutlineTimeout(3 * time.Second),
		syncer.WithRelayTransactionSetTimeout(3 * time.Second),
		syncer.WithRPCTimeout(10 * time.Second),
	}
	opts = append(opts, o.Opts...)
	var scm syncer.ChainManager = n.Rec
	if o.Unobserved {
		scm = inner
	}
	n.S = syncer.New(l, scm, n.PS, gateway.Header{GenesisID: env.Genesis.ID(), UniqueID: n.UID, NetAddress: l.Addr().String()}, opts...)
	go func() { n.done <- n.S.Run() }()
	return n, nil
}

// Close stops the syncer and waits for Run to return (bounded).
func (n *Node) Close() {
	n.S.Close()
	select {
	case <-n.done:
	case <-time.After(10 * time.Second):
	}
}

// Addr is the listening address.
func (n *Node) Addr() string { return n.L.Addr().String() }

// Connect dials o from n.
func (n *Node) Connect(o *Node) error {
	ctx, cancel := context.WithTimeout(context.Background(), 5*time.Second)
	defer cancel()
	_, err := n.S.Connect(ctx, o.Addr())
	return err
}

// Connected reports whether n currently has a live peer whose address is on host ip.
func (n *Node) Connected(ip string) bool {
	for _, p := range n.S.Peers() {
		if hostOf(p.ConnAddr) == ip && p.Err() == nil {
			return true
		}
	}
	return false
}

// AnnounceTip broadcasts the tip the way nodes do: its header, and for a v2
// block its outline. Errors (no peers) are ignored.
func (n *Node) AnnounceTip() {
	b, ok := n.CM.Block(n.CM.Tip().ID)
	if !ok {
		return
	}
	n.S.BroadcastV2Header(b.Header())
	if b.V2 != nil {
		n.S.BroadcastV2BlockOutline(gateway.OutlineBlock(b, n.CM.PoolTransactions(), n.CM.V2PoolTransactions()))
	}
}

// AnnounceHeader broadcasts only the header of the tip.
func (n *Node) AnnounceHeader() {
	if b, ok := n.CM.Block(n.CM.Tip().ID); ok {
		n.S.BroadcastV2Header(b.Header())
	}
}

// PeerSynced reports whether n has a live peer on host ip that it has marked synced.
func (n *Node) PeerSynced(ip string) bool {
	for _, p := range n.S.Peers() {
		if hostOf(p.ConnAddr) == ip && p.Err() == nil && p.Synced() {
			return true
		}
	}
	return false
}

// Tips returns the sequence of tips reported to OnReorg.
func (n *Node) Tips() []types.ChainIndex {
	n.tipMu.Lock()
	defer n.tipMu.Unlock()
	return append([]types.ChainIndex(nil), n.tips...)
}

// Panics returns the messages of recovered handler panics (the syncer logs them at error level).
func (n *Node) Panics() []string {
	var out []string
	// recognised by structure: the syncer logs a recovered handler panic at error level with a stack trace
	// attached (a field named "stack"); the wording of the message is only a fallback
	for _, e := range n.Logs.All() {
		_, hasStack := e.ContextMap()["stack"]
		if hasStack || strings.Contains(e.Message, "panic") {
			out = append(out, fmt.Sprintf("%s %v", e.Message, e.ContextMap()))
		}
	}
	return out
}

// ---------------------------------------------------------------- the C01 audit of a node

// Audit checks a node's chain against the tree's independent labels: the best
// chain is parent-linked from genesis, every block on it is a valid block of
// the tree, and TipState equals the linear replay (the generator's full state).
// It returns a failure kind ("" = fine) and a description.
func Audit(prefix string, t *chaingen.Tree, cm *chain.Manager) (string, string) {
	tip := cm.Tip()
	var prev *chaingen.Node
	for h := uint64(0); h <= tip.Height; h++ {
		idx, ok := cm.BestIndex(h)
		if !ok {
			return prefix + "-best-chain-broken", fmt.Sprintf("BestIndex(%d) missing below tip %v", h, tip)
		}
		n, ok := t.ByID[idx.ID]
		if !ok {
			return prefix + "-unknown-block-adopted", fmt.Sprintf("best chain holds block %v at height %d that the generator never made", idx.ID, h)
		}
		if h == 0 {
			if n.Parent != nil {
				return prefix + "-best-chain-not-from-genesis", fmt.Sprintf("height 0 is node %d", n.Idx)
			}
		} else {
			if n.Parent != prev {
				return prefix + "-best-chain-not-linked", fmt.Sprintf("node %d at height %d does not link to node %d", n.Idx, h, prev.Idx)
			}
			if !(n.HdrOK && n.BodyOK) || !n.ChainValid() {
				return prefix + "-invalid-block-adopted", fmt.Sprintf("best chain holds node %d at height %d (corruption %q, hdr_ok=%v body_ok=%v)", n.Idx, h, n.Corrupt, n.HdrOK, n.BodyOK)
			}
		}
		prev = n
	}
	if prev == nil || prev.ID != tip.ID {
		return prefix + "-best-chain-broken", "tip is not the last best index"
	}
	if !bytes.Equal(mgrsim.EncState(cm.TipState()), mgrsim.EncState(prev.FullState)) {
		return prefix + "-tip-state-differs", fmt.Sprintf("TipState differs from the linear replay of the best chain (tip node %d)", prev.Idx)
	}
	return "", ""
}

// AuditTips checks the sequence of reported tips: every move goes to a block of
// the tree that is sufficiently heavier than the previous tip (so work never decreases).
func AuditTips(prefix string, t *chaingen.Tree, start *chaingen.Node, tips []types.ChainIndex) (string, string) {
	cur := start
	for _, ci := range tips {
		n, ok := t.ByID[ci.ID]
		if !ok {
			return prefix + "-unknown-block-adopted", fmt.Sprintf("tip moved to %v which the generator never made", ci)
		}
		if n == cur {
			continue
		}
		if !n.ChainValid() {
			return prefix + "-invalid-block-adopted", fmt.Sprintf("the tip moved to node %d (corruption %q, hdr_ok=%v body_ok=%v), which is not a valid chain", n.Idx, n.Corrupt, n.HdrOK, n.BodyOK)
		}
		ctw, _ := cur.Work()
		ntw, _ := n.Work()
		if ntw.Cmp(ctw) < 0 {
			return prefix + "-work-decreased", fmt.Sprintf("tip moved from node %d (work %s) to node %d (work %s)", cur.Idx, ctw, n.Idx, ntw)
		}
		if !mgrsim.Heavier(n, cur) {
			return prefix + "-tip-moved-without-sufficient-work", fmt.Sprintf("tip moved from node %d to node %d which is not sufficiently heavier", cur.Idx, n.Idx)
		}
		cur = n
	}
	return "", ""
}

// WaitUntil polls cond every 20 ms until it holds or the timeout expires.
func WaitUntil(timeout time.Duration, cond func() bool) bool {
	deadline := time.Now().Add(timeout)
	for {
		if cond() {
			return true
		}
		if time.Now().After(deadline) {
			return false
		}
		time.Sleep(20 * time.Millisecond)
	}
}

// IPFor returns a loopback address for (scenario slot, node): distinct /24s
// for distinct nodes, distinct /16s for distinct slots.
func IPFor(slot, node int) string {
	return fmt.Sprintf("127.%d.%d.1", 10+slot%240, 1+node%250)
}
