package netsim

import (
	"context"
	"net"
	"sync"
	"sync/atomic"
)

// CutDialer dials like its inner dialer, but each of the first Times connections is cut (closed) as soon as this
// side has written more than Budget bytes on it: an exchange is aborted after the handshake, between two messages
// or in the middle of a bulk answer, depending on the budget. Later connections are untouched.
type CutDialer struct {
	Inner  *net.Dialer
	Budget int64
	Times  int32
	used   atomic.Int32
	Cuts   atomic.Int32 // connections that were actually cut
}

func (d *CutDialer) DialContext(ctx context.Context, network, addr string) (net.Conn, error) {
	c, err := d.Inner.DialContext(ctx, network, addr)
	if err != nil || d.used.Add(1) > d.Times {
		return c, err
	}
	return &cutConn{Conn: c, d: d, left: d.Budget}, nil
}

type cutConn struct {
	net.Conn
	d    *CutDialer
	mu   sync.Mutex
	left int64
	cut  bool
}

func (c *cutConn) Write(b []byte) (int, error) {
	c.mu.Lock()
	if c.cut {
		c.mu.Unlock()
		return 0, net.ErrClosed
	}
	if int64(len(b)) > c.left {
		n := c.left
		c.cut = true
		c.mu.Unlock()
		if n > 0 {
			c.Conn.Write(b[:n])
		}
		c.d.Cuts.Add(1)
		c.Conn.Close()
		return int(n), net.ErrClosed
	}
	c.left -= int64(len(b))
	c.mu.Unlock()
	return c.Conn.Write(b)
}
