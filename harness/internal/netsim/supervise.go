package netsim

import (
	"bufio"
	"context"
	"encoding/json"
	"fmt"
	"os"
	"os/exec"
	"path/filepath"
	"strings"
	"sync"
	"time"

	"verif/harness/internal/hx"
)

// The syncer recovers panics only inside RPC handlers; a panic in any other
// goroutine (sync workers, relays) kills the process. So that such a crash is
// reported as a monitor failure with the scenarios that were running, the
// harness runs its work in a child process of the same binary and the parent
// turns an abnormal exit into a failure.

const workerEnv = "VERIF_NET_WORKER"

var (
	progMu sync.Mutex
	progF  *os.File
)

// Begin notes that a scenario is running (worker side).
func Begin(id string, scen any) {
	progMu.Lock()
	defer progMu.Unlock()
	if progF == nil {
		return
	}
	b, _ := json.Marshal(scen)
	fmt.Fprintf(progF, "B %s %s\n", id, b)
}

// End notes that a scenario finished (worker side).
func End(id string) {
	progMu.Lock()
	defer progMu.Unlock()
	if progF == nil {
		return
	}
	fmt.Fprintf(progF, "E %s\n", id)
}

// Supervised runs work in a child process. kind is the failure kind reported
// when the child dies (e.g. "c11-process-crashed").
func Supervised(c *hx.Ctx, kind string, work func(c *hx.Ctx)) {
	dir := c.Res.Dir()
	prog := filepath.Join(dir, "progress.log")
	if os.Getenv(workerEnv) == "1" {
		f, err := os.OpenFile(prog, os.O_CREATE|os.O_WRONLY|os.O_TRUNC, 0o644)
		if err == nil {
			progF = f
			defer f.Close()
		}
		work(c)
		return
	}
	cmd := exec.Command(os.Args[0], os.Args[1:]...)
	cmd.Env = append(os.Environ(), workerEnv+"=1")
	errPath := filepath.Join(dir, "worker.stderr")
	ef, _ := os.Create(errPath)
	cmd.Stderr = ef
	cmd.Stdout = os.Stdout
	err := cmd.Run()
	ef.Close()
	if err == nil {
		// the worker wrote result.json; adopt it so that Finish rewrites the same content
		if b, rerr := os.ReadFile(filepath.Join(dir, "result.json")); rerr == nil {
			if json.Unmarshal(b, c.Res) == nil {
				return
			}
		}
		c.Res.Fail(kind, "the worker process exited normally but left no result", nil)
		return
	}
	// crashed: which scenarios were running?
	running := map[string]json.RawMessage{}
	if f, ferr := os.Open(prog); ferr == nil {
		sc := bufio.NewScanner(f)
		sc.Buffer(make([]byte, 1<<20), 1<<26)
		for sc.Scan() {
			parts := strings.SplitN(sc.Text(), " ", 3)
			if len(parts) >= 2 && parts[0] == "B" && len(parts) == 3 {
				running[parts[1]] = json.RawMessage(parts[2])
			} else if len(parts) >= 2 && parts[0] == "E" {
				delete(running, parts[1])
			}
		}
		f.Close()
	}
	tail := ""
	if b, rerr := os.ReadFile(errPath); rerr == nil {
		s := string(b)
		if i := strings.Index(s, "panic:"); i >= 0 {
			s = s[i:]
		}
		if len(s) > 3000 {
			s = s[:3000]
		}
		tail = s
	}
	// which of the running scenarios kills the process on its own? replay each in a child of its own
	type culprit struct {
		id   string
		scen json.RawMessage
		tail string
	}
	var mu sync.Mutex
	var culprits []culprit
	var wg sync.WaitGroup
	tier := "quick"
	if c.Thorough {
		tier = "thorough"
	}
	i := 0
	for id, scen := range running {
		i++
		wg.Add(1)
		go func(i int, id string, scen json.RawMessage) {
			defer wg.Done()
			sub := filepath.Join(dir, fmt.Sprintf("crash-replay-%d", i))
			os.MkdirAll(sub, 0o755)
			rf := filepath.Join(sub, "replay.json")
			b, _ := json.Marshal(map[string]any{"replay": map[string]any{"scenario": scen}})
			os.WriteFile(rf, b, 0o644)
			ctx, cancel := context.WithTimeout(context.Background(), 90*time.Second)
			defer cancel()
			ch := exec.CommandContext(ctx, os.Args[0], "-seed", fmt.Sprint(c.Seed), "-tier", tier, "-out", sub, "-replay", rf)
			ch.Env = append(os.Environ(), workerEnv+"=1")
			var eb strings.Builder
			ch.Stderr = &eb
			if rerr := ch.Run(); rerr != nil && ctx.Err() == nil {
				t := eb.String()
				if k := strings.Index(t, "panic:"); k >= 0 {
					t = t[k:]
				}
				if len(t) > 1500 {
					t = t[:1500]
				}
				mu.Lock()
				culprits = append(culprits, culprit{id, scen, t})
				mu.Unlock()
			}
		}(i, id, scen)
	}
	wg.Wait()
	if len(culprits) == 0 {
		c.Res.Fail(kind, fmt.Sprintf("the process running the syncers died (%v): %s (none of the %d running scenarios crashed again when replayed alone)", err, tail, len(running)), map[string]any{"running": running})
		return
	}
	for _, cu := range culprits {
		c.Res.Fail(kind, fmt.Sprintf("the process running the syncers died; scenario %s kills it when replayed alone: %s", cu.id, cu.tail), map[string]any{"scenario": cu.scen})
	}
}
