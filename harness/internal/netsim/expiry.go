package netsim

import (
	"strings"

	"go.sia.tech/coreutils/chain"
	"verif/harness/internal/chaingen"
	"verif/harness/internal/mgrsim"
	"verif/harness/internal/storeobs"
)

// ExpiryOrderDetail is the fixed text reported with the ...-by-expiry-order kinds.
const ExpiryOrderDetail = "known finding F8 (C02 c02-expiry-order-history-dependent): the node reorged over a block that resolves or re-windows one of several v1 contracts sharing a window end; re-running the node's recorded manager calls on an observed store, the C02 judge attributes the difference to the order of an expiration list (the only served data differing from a linear twin are permuted expiration lists)"

// ByExpiryOrder re-runs the manager calls the node's syncer made (its initial chain, then every recorded
// AddBlocks / AddValidatedV2Blocks call) on an observed store and asks the C02 judge (storeobs.Judge) whether the
// history shows the known expiry-order finding. False when the log cannot be replayed (unknown blocks, unobserved node).
func ByExpiryOrder(t *chaingen.Tree, start *chaingen.Node, n *Node) (yes bool) {
	defer func() {
		if recover() != nil {
			yes = false
		}
	}()
	nd, err := storeobs.NewNode(t, chain.NewMemDB(), nil)
	if err != nil {
		return false
	}
	var plan []mgrsim.Op
	if start != nil && start.Parent != nil {
		var ids []int
		for _, x := range t.Path(start) {
			ids = append(ids, x.Idx)
		}
		plan = append(plan, mgrsim.Op{Kind: "add", Nodes: ids})
	}
	for _, c := range n.Rec.Log() {
		if c.Kind != "add" && c.Kind != "addv" {
			continue
		}
		var ids []int
		for _, id := range c.IDs {
			x, ok := t.ByID[id]
			if !ok {
				return false
			}
			ids = append(ids, x.Idx)
		}
		plan = append(plan, mgrsim.Op{Kind: c.Kind, Nodes: ids})
	}
	for _, op := range plan {
		if o := nd.Do(op); o.Panic {
			return false
		}
	}
	f, _ := storeobs.Judge(nd, storeobs.NewTwins(t))
	return f != nil && f.Kind == storeobs.KindF8
}

// AuditNode is Audit with attribution: a tip state that differs from the linear replay is reported as
// <prefix>-tip-state-differs-by-expiry-order (with the fixed detail) if and only if the judge attributes it to the
// known expiry-order finding; every other difference keeps its kind.
func AuditNode(prefix string, t *chaingen.Tree, start *chaingen.Node, n *Node) (string, string) {
	k, d := Audit(prefix, t, n.CM)
	if strings.HasSuffix(k, "-tip-state-differs") && ByExpiryOrder(t, start, n) {
		return k + "-by-expiry-order", ExpiryOrderDetail
	}
	return k, d
}
