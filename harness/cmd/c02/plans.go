package main

import (
	"sort"

	"verif/harness/internal/chaingen"
	"verif/harness/internal/mgrsim"
	"verif/harness/internal/rng"
)

// reorgPlan submits the valid branches of the tree in order of increasing
// total work, so that (nearly) every submission reorganises the chain down to
// the fork point; branches are cut into random batches (the manager then adopts
// a branch piecewise), and a few random segments of other branches are mixed in.
func reorgPlan(r *rng.R, t *chaingen.Tree) []mgrsim.Op {
	var leaves []*chaingen.Node
	for _, x := range t.Nodes {
		if x.Parent == nil || !x.ChainValid() {
			continue
		}
		leaf := true
		for _, c := range x.Children {
			if c.ChainValid() {
				leaf = false
			}
		}
		if leaf {
			leaves = append(leaves, x)
		}
	}
	sort.SliceStable(leaves, func(i, j int) bool {
		a, _ := leaves[i].Work()
		b, _ := leaves[j].Work()
		return a.Cmp(b) < 0
	})
	var plan []mgrsim.Op
	for _, leaf := range leaves {
		p := t.Path(leaf)
		// sometimes stop short of the leaf first (an interior node as intermediate tip)
		for i := 0; i < len(p); {
			n := 1 + r.Intn(len(p)-i)
			if r.Chance(2, 3) {
				n = len(p) - i
			}
			var ids []int
			for _, y := range p[i : i+n] {
				ids = append(ids, y.Idx)
			}
			plan = append(plan, mgrsim.Op{Kind: "add", Nodes: ids})
			i += n
		}
		if r.Chance(1, 4) && len(t.Nodes) > 1 {
			x := t.Nodes[1+r.Intn(len(t.Nodes)-1)]
			q := t.Path(x)
			from := r.Intn(len(q))
			var ids []int
			for _, y := range q[from:] {
				ids = append(ids, y.Idx)
			}
			plan = append(plan, mgrsim.Op{Kind: "add", Nodes: ids})
		}
	}
	return plan
}
