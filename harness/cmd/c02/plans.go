package main

import (
	"sort"

	"verif/harness/internal/chaingen"
	"verif/harness/internal/mgrsim"
	"verif/harness/internal/rng"
)

// reorgPlan submits the valid branches of the tree in order of increasing
// total work, so that (nearly) every submission reorganises the chain down to
// the fork point; branches are cut into random batches (the manager then adopts
// a branch piecewise), and a few random segments of other branches are mixed in.
func reorgPlan(r *rng.R, t *chaingen.Tree) []mgrsim.Op {
	var leaves []*chaingen.Node
	for _, x := range t.Nodes {
		if x.Parent == nil || !x.ChainValid() {
			continue
		}
		leaf := true
		for _, c := range x.Children {
			if c.ChainValid() {
				leaf = false
			}
		}
		if leaf {
			leaves = append(leaves, x)
		}
	}
	sort.SliceStable(leaves, func(i, j int) bool {
		a, _ := leaves[i].Work()
		b, _ := leaves[j].Work()
		return a.Cmp(b) < 0
	})
	var plan []mgrsim.Op
	for _, leaf := range leaves {
		p := t.Path(leaf)
		// sometimes stop short of the leaf first (an interior node as intermediate tip)
		for i := 0; i < len(p); {
			n := 1 + r.Intn(len(p)-i)
			if r.Chance(2, 3) {
				n = len(p) - i
			}
			var ids []int
			for _, y := range p[i : i+n] {
				ids = append(ids, y.Idx)
			}
			plan = append(plan, mgrsim.Op{Kind: "add", Nodes: ids})
			i += n
		}
		if r.Chance(1, 4) && len(t.Nodes) > 1 {
			x := t.Nodes[1+r.Intn(len(t.Nodes)-1)]
			q := t.Path(x)
			from := r.Intn(len(q))
			var ids []int
			for _, y := range q[from:] {
				ids = append(ids, y.Idx)
			}
			plan = append(plan, mgrsim.Op{Kind: "add", Nodes: ids})
		}
	}
	return plan
}

// flipFlopPlan first submits a short prefix of every valid branch (heaviest branches first, so
// that several of them become the tip for a moment or are at least stored), then the branches
// in full in order of increasing work: the node returns to branches it has left, re-applies
// their stored blocks and continues with blocks it has never applied.
func flipFlopPlan(r *rng.R, t *chaingen.Tree) []mgrsim.Op {
	var leaves []*chaingen.Node
	for _, x := range t.Nodes {
		if x.Parent == nil || !x.ChainValid() {
			continue
		}
		leaf := true
		for _, c := range x.Children {
			if c.ChainValid() {
				leaf = false
			}
		}
		if leaf {
			leaves = append(leaves, x)
		}
	}
	sort.SliceStable(leaves, func(i, j int) bool {
		a, _ := leaves[i].Work()
		b, _ := leaves[j].Work()
		return a.Cmp(b) < 0
	})
	ids := func(ns []*chaingen.Node) (out []int) {
		for _, y := range ns {
			out = append(out, y.Idx)
		}
		return
	}
	var plan []mgrsim.Op
	// prefixes, heaviest branch first, each one block longer than the one before so that it takes over
	n := 1
	for i := len(leaves) - 1; i >= 0; i-- {
		p := t.Path(leaves[i])
		if n >= len(p) {
			continue
		}
		plan = append(plan, mgrsim.Op{Kind: "add", Nodes: ids(p[:n])})
		n += 1 + r.Intn(2)
	}
	for _, leaf := range leaves {
		plan = append(plan, mgrsim.Op{Kind: "add", Nodes: ids(t.Path(leaf))})
	}
	return plan
}
