package main

// Model tie by regeneration (harness/internal/gotr): the integer code of
// DBStore.getElementProof and DBStore.treeKey (chain/db.go) is translated from the
// current source on every run into run/C02/C02Gen.v and compared inside Coq with the
// hand-written definitions the accumulator theorems are about:
//
//	plen_gen      bits.Len64(leafIndex^numLeaves)-1       vs  plen (Chain/Accum.v)
//	sib_gen       (leafIndex>>i)^1                        vs  sib  (Chain/Accum.v)
//	tree_key_gen  uint32(((1<<row)-1)<<(32-row)|col)      vs  tree_key (Chain/TreeKey.v, injective
//	                                                          on the nodes of < 2^31 leaves)
//
// encHeight is not translated: it is one call of binary.BigEndian.AppendUint64 and
// contains no integer code of the repository.
// The hand-written statements are idiomatic N (N.size, N.lxor, 2 ^ _), so the comparison is
// by evaluation on finite domains (every leaf < n <= 64, every live node of those
// accumulators, plus large and boundary values), not textual; in addition Coq proves on this
// run that each pair agrees for all arguments (tree_key: for row <= 31, col < 2^(31-row)); a
// script that no longer goes through after a refactoring is a note, never an alarm. A source outside the
// translated subset gives a note in the evidence; a difference gives a correspondence
// mismatch of the file gotr_C02_<name>.v.
//
// This file and the single call in run() are the whole addition to this command.

import (
	"fmt"
	"go/ast"

	"verif/harness/internal/gotr"
	"verif/harness/internal/hx"
)

func tieAccumulatorToSource(c *hx.Ctx) {
	if err := gotr.SelfCheck(); err != nil {
		c.Res.Notes = append(c.Res.Notes, "go/ast translator (gotr): "+err.Error()+"; nothing is regenerated on this run")
		return
	}
	tie := gotr.NewTie("C02", c.Res, c.Repo, "Chain.Accum", "Chain.TreeKey")
	u64 := func(names ...string) (ps []gotr.Param) {
		for _, n := range names {
			ps = append(ps, gotr.Param{Name: n, Type: gotr.U64})
		}
		return
	}
	r := c.R.Fork()
	big := []uint64{1, 2, 3, 255, 256, 257, 65535, 65536, 1<<31 - 1, 1 << 31, 1<<32 - 1, 1 << 32, 1<<32 + 1, 1<<63 - 1, 1 << 63, ^uint64(0)}
	for i := 0; i < 40; i++ {
		big = append(big, r.U64()>>uint(r.Intn(64)))
	}

	// proof length: every leaf of every accumulator up to 64 leaves, and large sizes
	pl := tie.Expr("chain/db.go", "DBStore.getElementProof", "plen_gen", gotr.MakeLen("proof"), "length of the proof slice", u64("leafIndex", "numLeaves"), gotr.Int)
	var dom [][]string
	for n := uint64(1); n <= 64; n++ {
		for leaf := uint64(0); leaf < n; leaf++ {
			dom = append(dom, []string{fmt.Sprint(leaf), fmt.Sprint(n)})
		}
	}
	for _, n := range big {
		for _, leaf := range append([]uint64{0, 1, n / 2, n - 1, n - 2}, r.U64(), r.U64()) {
			if n > 0 && leaf%n < n {
				dom = append(dom, []string{fmt.Sprint(leaf % n), fmt.Sprint(n)})
			}
		}
	}
	tie.Compare(pl, "N.of_nat (plen leafIndex numLeaves)", "plen (Chain/Accum.v)", dom)
	tie.Prove(pl, "plen_gen leafIndex numLeaves = N.of_nat (plen leafIndex numLeaves)", "  intros. unfold plen_gen, plen. rewrite N2Nat.id. reflexivity.")

	// sibling column at row i
	sb := tie.Expr("chain/db.go", "DBStore.getElementProof", "sib_gen", gotr.AssignedTo("col"), "column of the proof element", []gotr.Param{{Name: "leafIndex", Type: gotr.U64}, {Name: "i", Type: gotr.Int}}, gotr.U64)
	dom = gotr.Grid(gotr.Range(0, 300), gotr.Range(0, 10))
	dom = append(dom, gotr.Grid(big, gotr.Range(0, 63))...)
	tie.Compare(sb, "sib leafIndex (N.to_nat i)", "sib (Chain/Accum.v)", dom)
	tie.Prove(sb, "sib_gen leafIndex i = sib leafIndex (N.to_nat i)", "  intros. unfold sib_gen, sib, shr. rewrite N2Nat.id. reflexivity.")

	// the packed key: every live node of the accumulators up to 64 leaves, and the boundary columns of every row
	conv := func(body *ast.BlockStmt) (found ast.Expr) {
		ast.Inspect(body, func(n ast.Node) bool {
			if ce, ok := n.(*ast.CallExpr); ok && found == nil {
				if id, ok := ce.Fun.(*ast.Ident); ok && id.Name == "uint32" {
					found = ce
				}
			}
			return found == nil
		})
		return
	}
	tk := tie.Expr("chain/db.go", "DBStore.treeKey", "tree_key_gen", conv, "the uint32 key", u64("row", "col"), gotr.U32)
	dom = nil
	for row := uint64(0); row <= 6; row++ {
		for col := uint64(0); col < 64>>row; col++ {
			dom = append(dom, []string{fmt.Sprint(row), fmt.Sprint(col)})
		}
	}
	for row := uint64(0); row <= 31; row++ {
		lim := uint64(1) << (31 - row) // key_ok: col < 2^(31-row)
		for _, col := range []uint64{0, 1, 2, lim / 2, lim - 2, lim - 1, r.U64() % lim, r.U64() % lim} {
			if col < lim {
				dom = append(dom, []string{fmt.Sprint(row), fmt.Sprint(col)})
			}
		}
	}
	tie.Compare(tk, "tree_key row col", "tree_key (Chain/TreeKey.v)", dom)
	tie.Prove(tk, "row <= 31 -> col < 2 ^ (31 - row) -> tree_key_gen row col = tree_key row col", `  intros row col Hr Hc. unfold tree_key_gen. rewrite !N.shiftl_mul_pow2, N.mul_1_l.
  assert (Hp : 2 ^ row <= 2 ^ 31) by (apply N.pow_le_mono_r; lia).
  assert (Hp1 : 1 <= 2 ^ row) by (pose proof (N.pow_nonzero 2 row); lia).
  assert (E1 : (2 ^ row) mod 2 ^ 64 = 2 ^ row) by (apply N.mod_small; change (2 ^ 31) with 2147483648 in Hp; change (2 ^ 64) with 18446744073709551616; lia).
  rewrite E1.
  assert (E2 : (2 ^ row + 2 ^ 64 - 1) mod 2 ^ 64 = 2 ^ row - 1).
  { change (2 ^ 31) with 2147483648 in Hp. change (2 ^ 64) with 18446744073709551616. generalize dependent (2 ^ row). intros X _ ? ?. lia. }
  rewrite E2.
  assert (E3 : (32 + 2 ^ 64 - row) mod 2 ^ 64 = 32 - row) by (change (2 ^ 64) with 18446744073709551616; lia).
  rewrite E3.
  assert (E4 : ((2 ^ row - 1) * 2 ^ (32 - row)) mod 2 ^ 64 = (2 ^ row - 1) * 2 ^ (32 - row)).
  { apply N.mod_small. rewrite ones_block by exact Hr. change (2 ^ 32) with 4294967296. change (2 ^ 64) with 18446744073709551616. lia. }
  rewrite E4, (tree_key_packed row col (conj Hr Hc)).
  apply N.mod_small. apply tree_key_fits. split; assumption.`)
	tie.Finish()
}
