package main

import (
	"bytes"
	"fmt"
	"sync"

	"go.sia.tech/core/types"
	"go.sia.tech/coreutils/chain"
	"verif/harness/internal/chaingen"
	"verif/harness/internal/mgrsim"
	"verif/harness/internal/storeobs"
)

// firstReads are the serving functions a blind run calls first, one per run.
var firstReads = []string{"SupplementTipBlock", "SupplementTipTransaction", "ExpiringFileContractIDs", "BestIndex", "Block+State"}

// runBlind runs the plan on a node nobody looks at between the steps (the harness reads
// nothing of the store until the history is over), then asks ONE serving function first and
// only then takes the full view; both must be what the linear twin of the final tip serves.
func runBlind(t *chaingen.Tree, cs Case, first int, observedTip types.BlockID) (f *storeobs.Finding, ran bool) {
	var db chain.DB = chain.NewMemDB()
	if cs.Cache {
		db = chain.NewCacheDB(db)
	}
	nd, err := storeobs.NewNodeOpt(t, db, nil, true)
	if err != nil {
		return &storeobs.Finding{Kind: "c02-store-does-not-open", Detail: err.Error()}, true
	}
	for _, op := range cs.Plan {
		if obs := storeobs.DoOp(nd, op); obs.Panic {
			return &storeobs.Finding{Kind: "c02-manager-call-panics", Detail: fmt.Sprintf("unobserved run: %v panicked: %s", op, obs.ErrText)}, true
		}
	}
	// looking at the store must not change what the manager does: the node nobody looked at
	// ends on the tip the observed node of the same plan ended on
	if got := nd.Sim.CM.Tip().ID; got != observedTip {
		name := func(id types.BlockID) string {
			if x, ok := t.ByID[id]; ok {
				return fmt.Sprintf("block %d (height %d)", x.Idx, x.Height)
			}
			return id.String()
		}
		return &storeobs.Finding{Kind: "c02-unobserved-run-ends-on-another-tip", Detail: fmt.Sprintf("the same plan run on a node from whose store nothing is read between the calls ends on %s, the observed node on %s", name(got), name(observedTip))}, true
	}
	tw := storeobs.NewTwins(t)
	lf, stats := storeobs.Judge(nd, tw) // laws about the diffs, and whether a revert could reorder a list
	if lf != nil {
		return lf, true
	}
	tip, ok := t.ByID[nd.Sim.CM.Tip().ID]
	if !ok {
		return nil, false
	}
	lin, err := tw.Get(nil, tip)
	if err != nil {
		return &storeobs.Finding{Kind: "c02-twin-failed", Detail: err.Error()}, true
	}
	st, want := nd.Inner, lin.View
	var diff string
	func() {
		defer func() {
			if r := recover(); r != nil {
				diff = fmt.Sprint("it panicked: ", r)
			}
		}()
		switch firstReads[first%len(firstReads)] {
		case "SupplementTipBlock":
			if !stats.Trigger && !bytes.Equal(storeobs.Enc(st.SupplementTipBlock(types.Block{ParentID: tip.ID})), storeobs.Enc(want.SuppBlock)) {
				diff = "the supplement of an empty child block differs"
			}
		case "SupplementTipTransaction":
			ids := func(m map[types.Hash256][]byte) []types.Hash256 { return storeobs.SortedIDs(m) }
			got := st.SupplementTipTransaction(storeobs.ProbeTxn(ids(want.SC), ids(want.SF), ids(want.FC)))
			if !bytes.Equal(storeobs.Enc(got), storeobs.Enc(want.SuppTxn)) {
				diff = "the supplement of a transaction naming every element differs"
			}
		case "ExpiringFileContractIDs":
			for h := uint64(0); h <= nd.MaxH && !stats.Trigger; h++ {
				got := st.ExpiringFileContractIDs(h)
				w := want.ExpServed[h]
				if len(got) != len(w) {
					diff = fmt.Sprintf("height %d: %d ids, the twin serves %d", h, len(got), len(w))
					break
				}
				for i := range got {
					if types.Hash256(got[i]) != w[i] {
						diff = fmt.Sprintf("height %d: entry %d differs", h, i)
					}
				}
			}
		case "BestIndex":
			for h := uint64(0); h <= nd.MaxH; h++ {
				idx, ok := st.BestIndex(h)
				got := "-"
				if ok {
					got = idx.ID.String()
				}
				if int(h) < len(want.Best) && got != want.Best[h] {
					diff = fmt.Sprintf("height %d: %s, the twin serves %s", h, got, want.Best[h])
					break
				}
			}
		case "Block+State":
			b, bs, ok := st.Block(tip.ID)
			cs, sok := st.State(tip.ID)
			if !ok || bs == nil || !sok || !bytes.Equal(storeobs.Enc(types.V2Block(b)), storeobs.Enc(types.V2Block(tip.Block))) || !bytes.Equal(storeobs.Enc(cs), mgrsim.EncState(tip.FullState)) {
				diff = "block, supplement or state of the tip are not those of the chain"
			}
		}
	}()
	if diff != "" {
		return &storeobs.Finding{Kind: "c02-first-read-after-unobserved-history-differs", Detail: fmt.Sprintf("after a history during which nothing was read from the store, the first call, %s, does not answer what the linear twin of tip %d answers: %s", firstReads[first%len(firstReads)], tip.Idx, diff)}, true
	}
	view := storeobs.TakeView(db, st, nd.MaxH)
	if f, _ := storeobs.CompareWithTwin(view, lin, stats.Trigger, stats.Documented); f != nil {
		if f.Kind == storeobs.KindF8 {
			return nil, true // the known finding is reported by the observed run of the same case
		}
		f.Detail = "after a history during which nothing was read from the store: " + f.Detail
		return f, true
	}
	return nil, true
}

// runConcurrent submits the plan from two goroutines while a third one keeps polling the
// manager's read API; the steps are judged in the order in which the store performed them.
func runConcurrent(t *chaingen.Tree, cs Case) outcome {
	nd, err := storeobs.NewNode(t, chain.NewMemDB(), nil)
	if err != nil {
		return outcome{finding: &storeobs.Finding{Kind: "c02-store-does-not-open", Detail: err.Error()}}
	}
	o := outcome{nd: nd}
	var wg sync.WaitGroup
	var mu sync.Mutex
	done := make(chan struct{})
	for g := 0; g < 2; g++ {
		wg.Add(1)
		go func() {
			defer wg.Done()
			for i, op := range cs.Plan {
				if i%2 != g || (op.Kind != "add" && op.Kind != "addv") {
					continue
				}
				obs := nd.Sim.Call(op)
				mu.Lock()
				o.calls++
				if obs.Panic && o.finding == nil {
					o.finding = &storeobs.Finding{Kind: "c02-manager-call-panics", Detail: fmt.Sprintf("concurrent submitters: %v panicked: %s", op, obs.ErrText), Step: 1 << 30}
				}
				mu.Unlock()
			}
		}()
	}
	go func() {
		cm := nd.Sim.CM
		for {
			select {
			case <-done:
				return
			default:
			}
			tip := cm.Tip()
			cm.TipState()
			cm.BestIndex(tip.Height / 2)
			cm.Block(tip.ID)
		}
	}()
	wg.Wait()
	close(done)
	f, st := storeobs.Judge(nd, storeobs.NewTwins(t))
	o.stats = st
	if f != nil {
		f.Detail = "two goroutines submitting and one polling: " + f.Detail
		o.finding = f
	}
	return o
}
