// Command c02 checks C02 (chain state depends only on the best chain, not on
// the reorgs witnessed) on the real chain.DBStore: submission histories over
// generated fork trees run on a manager whose store reports every ApplyBlock /
// RevertBlock; at every block boundary everything the store serves is compared
// byte for byte with a twin node that saw only the current best chain
// linearly, and every served Merkle proof with the proof of the harness's
// independent ledger. The histories are also rendered as cases for the Coq
// store model (coq/Chain/Store.v).
package main

import (
	"encoding/json"
	"fmt"
	"os"
	"path/filepath"
	"strings"

	"go.sia.tech/core/types"
	"go.sia.tech/coreutils/chain"
	"verif/harness/internal/chaingen"
	"verif/harness/internal/hx"
	"verif/harness/internal/mgrsim"
	"verif/harness/internal/rng"
	"verif/harness/internal/storeobs"
)

func main() { hx.Main("C02", run) }

// A Case determines a tree (regenerated from the seed) and a plan.
type Case struct {
	Seed       uint64              `json:"seed"`
	Regime     int                 `json:"regime"`
	Opts       chaingen.GenOpts    `json:"opts"`
	Directed   string              `json:"directed,omitempty"`   // a hand-built scenario instead of a generated tree
	Checkpoint int                 `json:"checkpoint,omitempty"` // tree index of the v2 checkpoint block the store is opened at (0 = genesis)
	Plan       []mgrsim.Op         `json:"plan"`
	Net        *storeobs.NetParams `json:"net,omitempty"`         // network parameters other than the regime's
	Cache      bool                `json:"cache,omitempty"`       // the store runs on chain.NewCacheDB(MemDB)
	Concurrent bool                `json:"concurrent,omitempty"`  // two submitting goroutines and a polling one
	BlindFirst int                 `json:"blind_first,omitempty"` // > 0: also an unobserved run whose first read is firstReads[BlindFirst-1]
}

// Tree regenerates the case's tree.
func (c Case) Tree() *chaingen.Tree {
	r := rng.New(c.Seed)
	env := chaingen.NewEnv(r, c.Regime)
	c.Net.Apply(env)
	if c.Directed != "" {
		return directed(r, env, c.Directed)
	}
	return chaingen.Gen(r, env, c.Opts)
}

type outcome struct {
	nd      *storeobs.Node
	finding *storeobs.Finding
	stats   storeobs.Stats
	calls   int
	errs    int
}

// runCase runs the plan on an observed node and judges it.
func runCase(t *chaingen.Tree, cs Case) outcome {
	var base *chaingen.Node
	if cs.Checkpoint > 0 && cs.Checkpoint < len(t.Nodes) {
		base = t.Nodes[cs.Checkpoint]
	}
	if cs.Concurrent {
		return runConcurrent(t, cs)
	}
	var db chain.DB = chain.NewMemDB()
	if cs.Cache {
		db = chain.NewCacheDB(db)
	}
	nd, err := storeobs.NewNode(t, db, base)
	if err != nil {
		return outcome{finding: &storeobs.Finding{Kind: "c02-store-does-not-open", Detail: err.Error()}}
	}
	o := outcome{nd: nd}
	for _, op := range cs.Plan {
		obs := storeobs.DoOp(nd, op)
		o.calls++
		if obs.Err {
			o.errs++
		}
		if obs.Panic {
			o.finding = &storeobs.Finding{Kind: "c02-manager-call-panics", Detail: fmt.Sprintf("%v panicked: %s", op, obs.ErrText), Step: len(nd.Steps)}
			if p := nd.Rec.Pending; p != nil {
				if id, ok := p.Diffs.RevisedAndResolved(); ok && strings.Contains(obs.Stack, "(*DBStore).ApplyBlock") {
					// attributed by structure (the block being applied and where the panic was raised),
					// never by the wording of the panic message
					o.finding.Kind = storeobs.KindReviseResolve + "-panics"
					o.finding.Detail = fmt.Sprintf("%v: a consensus-valid block that revises (new window end) and resolves contract %v makes DBStore.ApplyBlock panic: %s", op, id, obs.ErrText)
				}
			}
			break
		}
	}
	f, st := storeobs.Judge(nd, storeobs.NewTwins(t))
	o.stats = st
	if f != nil && (o.finding == nil || f.Step < o.finding.Step) {
		o.finding = f
	}
	return o
}

func shrink(t *chaingen.Tree, cs Case, kind string) Case {
	fails := func(p []mgrsim.Op) bool {
		c := cs
		c.Plan = p
		o := runCase(t, c)
		return o.finding != nil && o.finding.Kind == kind
	}
	plan := cs.Plan
	for changed := true; changed; {
		changed = false
		for i := range plan {
			c := append(append([]mgrsim.Op(nil), plan[:i]...), plan[i+1:]...)
			if fails(c) {
				plan, changed = c, true
				break
			}
		}
		if changed {
			continue
		}
		for i := range plan {
			for j := range plan[i].Nodes {
				if len(plan[i].Nodes) <= 1 {
					break
				}
				if plan[i].Kind == "addv" && j != 0 && j != len(plan[i].Nodes)-1 {
					continue
				}
				c := append([]mgrsim.Op(nil), plan...)
				nodes := append(append([]int(nil), plan[i].Nodes[:j]...), plan[i].Nodes[j+1:]...)
				c[i] = mgrsim.Op{Kind: plan[i].Kind, Nodes: nodes}
				if fails(c) {
					plan, changed = c, true
					break
				}
			}
			if changed {
				break
			}
		}
	}
	cs.Plan = plan
	return cs
}

func describe(t *chaingen.Tree) []string {
	var out []string
	for _, n := range t.Nodes {
		p := -1
		if n.Parent != nil {
			p = n.Parent.Idx
		}
		out = append(out, fmt.Sprintf("block %d parent %d height %d valid=%v corrupt=%q kinds=%v", n.Idx, p, n.Height, n.ChainValid(), n.Corrupt, n.Kinds))
	}
	return out
}

func describeSteps(nd *storeobs.Node, upto int) []string {
	var out []string
	for i, s := range nd.Steps {
		if i > upto {
			break
		}
		k := "revert"
		if s.Apply {
			k = "apply"
		}
		out = append(out, fmt.Sprintf("call %d: %s block %d (height %d) -> tip %d", s.Call, k, s.Node, s.Height, s.Tip))
	}
	return out
}

func run(c *hx.Ctx) {
	res := c.Res
	res.Shard = 25
	res.Rule = "fork trees of real mined blocks (6 hardfork regimes, every transaction kind, single-field corruptions) x random submission plans, plus hand-built expiry scenarios and stores opened at a v2 checkpoint; every ApplyBlock/RevertBlock of the store is a comparison point; non-trivial := at least one reverted block carried a v1 contract diff; distinct by (tree seed, plan)"
	tieAccumulatorToSource(c) // gotr_tie.go: plen / sib / treeKey regenerated from chain/db.go and compared with Chain/Accum.v, Chain/TreeKey.v (extra cases files)
	var cases []string
	doCase := func(cs Case, toCoq bool) {
		var t *chaingen.Tree
		func() {
			// the generator's builders are linear nodes over the same store code: a panic there
			// is a linear node failing to apply or serve a valid chain
			defer func() {
				if r := recover(); r != nil {
					t = nil
					res.Fail("c02-linear-node-panics", fmt.Sprintf("building the tree of the case on linear nodes (chain.Manager over DBStore) panicked: %v", r), map[string]any{"case": cs})
				}
			}()
			t = cs.Tree()
		}()
		if t == nil {
			res.Count("trees-not-built")
			return
		}
		o := runCase(t, cs)
		js, _ := json.Marshal(cs)
		res.Eval(string(js), o.stats.RevertedContractBlock)
		res.Count("regime:" + chaingen.RegimeNames[cs.Regime])
		if cs.Directed != "" {
			res.Count("directed:" + cs.Directed)
		}
		if cs.Checkpoint > 0 {
			res.Count("stores-opened-at-checkpoint")
		}
		res.CountN("calls", o.calls)
		res.CountN("calls-returning-error", o.errs)
		res.CountN("block-steps", o.stats.Steps)
		res.CountN("revert-steps", o.stats.Reverts)
		res.CountN("boundaries-compared-with-twin", o.stats.Compared)
		res.CountN("proofs-compared-with-ledger", o.stats.ProofsChecked)
		if o.stats.RevertedContractBlock {
			res.Count("histories-reverting-a-contract-block")
		}
		if o.stats.Trigger {
			res.Count("stream:finding (a revert cannot restore the list order)")
		} else {
			res.Count("stream:exact")
		}
		if o.stats.ExpiryReverted {
			res.Count("histories-reverting-an-expiry-of>=2-contracts")
		}
		if o.stats.CrossRequire {
			res.Count("histories-reverting-across-require-height")
		}
		if o.stats.CrossAllow {
			res.Count("histories-reverting-across-allow-height")
		}
		for k, n := range o.stats.RevertedKinds {
			res.CountN("reverted-tx:"+k, n)
		}
		res.CountN("calls-whose-reorg-failed-half-way-and-was-rolled-back", o.stats.FailedReorgs)
		res.CountN("applied-blocks-mixing-v1-and-v2-transactions", o.stats.MixedBlocks)
		if o.stats.FinalCut {
			res.Count("histories-reaching-the-final-cut-height")
		}
		res.CountN("boundaries-after-a-checkpoint-node-reverted-its-own-checkpoint-block (chain-level sections only)", o.stats.BelowCheckpoint)
		if cs.Cache {
			res.Count("backend:CacheDB-over-MemDB")
		}
		if cs.Net != nil {
			res.Count(fmt.Sprintf("network:allow=%d,require=%d,final-cut=%d,maturity=%d", t.Env.Net.HardforkV2.AllowHeight, t.Env.Net.HardforkV2.RequireHeight, t.Env.Net.HardforkV2.FinalCutHeight, t.Env.Net.MaturityDelay))
		}
		if cs.Concurrent {
			res.Count("histories-with-two-submitting-goroutines-and-a-poller")
		}
		if len(cs.Opts.Shape) > 0 {
			res.Count("tree-shape:hub-and-comb")
		}
		if cs.Opts.Remine > 0 {
			res.Count("trees-with-re-mined-and-same-block-chained-transactions")
		}
		for _, op := range cs.Plan {
			switch op.Kind {
			case "reopen":
				res.Count("clean-reopens-in-the-middle-of-a-history")
			case "adds":
				res.Count("calls-with-arguments-overwritten-after-the-call")
			case "addn":
				res.Count("calls-with-a-second-call-started-from-the-reorg-callback")
			}
		}
		if o.finding == nil && cs.BlindFirst > 0 && o.nd != nil {
			if f, ran := runBlind(t, cs, cs.BlindFirst-1, o.nd.Sim.CM.Tip().ID); ran {
				res.Count("unobserved-runs (nothing read between the steps)")
				res.Count("first-read-after-unobserved-run:" + firstReads[(cs.BlindFirst-1)%len(firstReads)])
				if f != nil {
					o.finding = f
					res.Fail(f.Kind, f.Detail, map[string]any{"case": cs, "tree": describe(t)})
					o.finding = nil
				}
			}
		}
		if f := o.finding; f != nil {
			small := shrink(t, cs, f.Kind)
			o2 := runCase(t, small)
			if o2.finding == nil || o2.finding.Kind != f.Kind {
				o2, small = o, cs
			}
			res.Fail(o2.finding.Kind, o2.finding.Detail, map[string]any{"case": small, "tree": describe(t), "steps": describeSteps(o2.nd, o2.finding.Step)})
		}
		if toCoq && o.nd != nil {
			if cc := o.nd.CoqCase(); cc != "" {
				cases = append(cases, cc)
			}
		}
		if len(res.Samples) < 2 && o.nd != nil {
			var ops []string
			for _, op := range cs.Plan {
				ops = append(ops, op.String())
			}
			res.Sample(map[string]any{"regime": chaingen.RegimeNames[cs.Regime], "tree": describe(t), "plan": ops, "steps": describeSteps(o.nd, 1<<30)})
		}
	}
	if c.Replay != "" {
		var rp struct {
			Replay struct {
				Case Case `json:"case"`
			} `json:"replay"`
		}
		b, _ := os.ReadFile(c.Replay)
		json.Unmarshal(b, &rp)
		doCase(rp.Replay.Case, true)
		res.WriteCases("Run.Run_C02", cases)
		return
	}
	// corpus first: minimised earlier findings (replay files), then the hand-built scenarios
	if files, _ := filepath.Glob("corpus/C02/*.json"); len(files) > 0 {
		for _, f := range files {
			var rp struct {
				Replay struct {
					Case Case `json:"case"`
				} `json:"replay"`
			}
			if b, err := os.ReadFile(f); err == nil && json.Unmarshal(b, &rp) == nil && len(rp.Replay.Case.Plan) > 0 {
				doCase(rp.Replay.Case, true)
				res.Count("corpus-cases")
			}
		}
	}
	for _, cs := range directedCases() {
		doCase(cs, true)
	}
	n := c.Scale(130, 4000)
	for i := 0; i < n; i++ {
		r := c.R.Fork()
		cs := Case{Seed: r.U64(), Regime: i % 6, Opts: chaingen.GenOpts{Blocks: 6 + r.Intn(16), Branchiness: 2 + r.Intn(4), TxPerBlock: 1 + r.Intn(5), Corruptions: r.Intn(2), Jitter: r.Intn(4)}}
		if i%5 == 4 {
			// contract-heavy v1 traffic: many contracts share window ends
			cs.Regime = []int{0, 1, 3, 4}[r.Intn(4)]
			cs.Opts.Kinds = []string{"v1-form", "v1-form", "v1-revise", "v1-revise-window", "v1-proof", "v1-transfer"}
			cs.Opts.TxPerBlock = 2 + r.Intn(4)
		}
		if i%5 == 2 {
			// same-block contract shapes (formed and proved / revised in one block, a v2 contract
			// touched twice in one block) among the ordinary kinds
			cs.Opts.Kinds = append(append(append([]string(nil), chaingen.TxKinds...), chaingen.ShapeKinds...), chaingen.ShapeKinds...)
			cs.Opts.TxPerBlock = 2 + r.Intn(4)
			cs.Opts.Branchiness = 2 + r.Intn(2)
		}
		if i%5 == 1 {
			// the same transactions re-mined on sibling branches, and v1 transactions spending
			// outputs created in the same block (ephemeral siacoin and siafund elements)
			cs.Opts.Chained, cs.Opts.Remine = 1, 2
		}
		if i%10 == 9 {
			// a hub (six siblings on one block) whose spokes grow into a comb
			cs.Opts.Shape = []int{0, 1, 2, 3, 3, 3, 3, 3, 3, 4, 5, 10, 6, 11, 13, 12, 14}
		}
		if cs.Regime%3 == 1 && i%2 == 1 {
			cs.Net = &[]storeobs.NetParams{{Allow: 2, Require: 3, FinalCut: 4}, {Allow: 4, Require: 4, FinalCut: 6}, {Allow: 1, Require: 6, FinalCut: 6}, {Allow: 5, Require: 9, FinalCut: 9}}[(i/2)%4]
		}
		switch i % 7 {
		case 3:
			if cs.Net == nil {
				cs.Net = &storeobs.NetParams{}
			}
			cs.Net.Maturity = 1
		case 5:
			if cs.Net == nil {
				cs.Net = &storeobs.NetParams{}
			}
			cs.Net.Maturity = 5
		}
		cs.Cache = i%4 == 3
		var t *chaingen.Tree
		func() {
			defer func() { recover() }()
			t = cs.Tree()
		}()
		if t == nil {
			doCase(cs, false) // reports the panic
			continue
		}
		pr := rng.New(cs.Seed ^ 0x5bd1e995)
		if i%2 == 0 {
			cs.Plan = mgrsim.GenPlan(pr, t, false)
		} else {
			cs.Plan = reorgPlan(pr, t)
		}
		if i%6 == 5 || (cs.Regime%3 == 2 && i%2 == 1) {
			// open the store at a v2 checkpoint above the require height
			var cands []int
			for _, x := range t.Nodes {
				if x.ChainValid() && x.Block.V2 != nil && x.Height > t.Env.Net.HardforkV2.RequireHeight && len(x.Children) > 0 {
					cands = append(cands, x.Idx)
				}
			}
			if len(cands) > 0 {
				cs.Checkpoint = cands[pr.Intn(len(cands))]
			}
		}
		switch {
		case i%12 == 6 && cs.Checkpoint == 0:
			cs.Concurrent = true
		case i%3 == 1:
			cs.Plan = storeobs.Spice(rng.New(cs.Seed^0xabc), cs.Plan, cs.Checkpoint == 0 && i%2 == 0)
		}
		if i%3 == 0 && cs.Checkpoint == 0 && !cs.Concurrent {
			cs.BlindFirst = 1 + (i/3)%len(firstReads)
		}
		doCase(cs, true)
	}
	// flip-flop plans: the node leaves a branch after a few of its blocks and later returns to
	// it, re-applying blocks it has stored and then applying new ones (v1 spends of old outputs
	// need a store-supplied proof there); each is run observed and unobserved
	m := c.Scale(40, 800)
	for i := 0; i < m; i++ {
		r := c.R.Fork()
		cs := Case{Seed: r.U64(), Regime: []int{0, 1, 3, 4}[i%4], Opts: chaingen.GenOpts{Blocks: 8 + r.Intn(12), Branchiness: 2 + r.Intn(3), TxPerBlock: 1 + r.Intn(5)}}
		if i%2 == 1 {
			cs.Opts.Kinds = []string{"v1-transfer", "v1-transfer", "v1-siafund", "v1-form", "v1-proof", "v1-revise"}
		}
		var t *chaingen.Tree
		func() {
			defer func() { recover() }()
			t = cs.Tree()
		}()
		if t == nil {
			doCase(cs, false)
			continue
		}
		cs.Plan = flipFlopPlan(rng.New(cs.Seed^0x5bd1e995), t)
		cs.BlindFirst = 1 + i%len(firstReads)
		res.Count("flip-flop-plans (a branch is left and returned to)")
		doCase(cs, true)
	}
	res.WriteCases("Run.Run_C02", cases)
}

var _ = types.VoidAddress
