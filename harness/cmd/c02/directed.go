package main

import (
	"go.sia.tech/core/types"
	"verif/harness/internal/chaingen"
	"verif/harness/internal/mgrsim"
	"verif/harness/internal/rng"
	"verif/harness/internal/storeobs"
)

// Hand-built scenarios around the expiration lists. Each has a trunk
// g - b1 - b2 (b1 forms contracts that share a window end), a branch X that
// touches one of the contracts, and a heavier branch Y forking at b2, so that
// submitting X first and Y second reverts X's blocks.
//
//	exact-*: the documented list operations restore the order; everything must
//	         equal the linear twin byte for byte
//	f8-*:    they do not (the known expiry-order finding)
var directedNames = []string{
	"exact-expiry-revert", "exact-first-of-two", "exact-single", "exact-rewindow-single",
	"exact-rewindow-first-of-two", "exact-form-and-rewindow-into-shared-list",
	"exact-form-prove-in-one-block", "exact-form-revise-prove-in-one-block", "exact-form-revise-in-one-block",
	"f8-proof-first-of-three", "f8-proof-last-of-two", "f8-rewindow-first-of-three",
	"revise-and-prove-in-one-block", "revise-window-and-prove-in-one-block",
}

type scenario struct {
	t    *chaingen.Tree
	plan []mgrsim.Op
}

func buildDirected(r *rng.R, env *chaingen.Env, name string) scenario {
	s := chaingen.NewScript(r, env)
	g := s.T.Nodes[0]
	nContracts, ws, we := 3, uint64(3), uint64(6)
	switch name {
	case "exact-expiry-revert":
		we = 4
	case "exact-first-of-two", "f8-proof-last-of-two", "exact-rewindow-first-of-two", "exact-form-and-rewindow-into-shared-list":
		nContracts = 2
	case "exact-single", "exact-rewindow-single", "revise-and-prove-in-one-block", "revise-window-and-prove-in-one-block":
		nContracts = 1
	}
	b1 := s.Extend(g, func(b *chaingen.Builder) {
		for i := 0; i < nContracts; i++ {
			b.AddV1Form(r, ws, we)
		}
	})
	ids := chaingen.ContractsOf(b1.Block)
	b2 := s.Extend(b1, nil)
	pick := func(i int) types.FileContractID {
		if i < len(ids) {
			return ids[i]
		}
		return types.FileContractID{}
	}
	var xs []*chaingen.Node
	switch name {
	case "exact-expiry-revert":
		x3 := s.Extend(b2, nil)
		x4 := s.Extend(x3, nil) // height 4: the three contracts expire, in list order
		xs = []*chaingen.Node{x3, x4}
	case "exact-first-of-two", "exact-single", "f8-proof-first-of-three":
		xs = []*chaingen.Node{s.Extend(b2, func(b *chaingen.Builder) { b.AddV1ProofOf(pick(0)) })}
	case "f8-proof-last-of-two":
		xs = []*chaingen.Node{s.Extend(b2, func(b *chaingen.Builder) { b.AddV1ProofOf(pick(1)) })}
	case "exact-form-prove-in-one-block", "exact-form-revise-prove-in-one-block", "exact-form-revise-in-one-block":
		// the reverted block forms a contract and proves / revises it itself (the diff is Created
		// && Resolved, resp. Created with the revision written in place); other contracts share
		// the window ends involved
		kind := map[string]string{"exact-form-prove-in-one-block": "v1-form-prove", "exact-form-revise-prove-in-one-block": "v1-form-revise-prove", "exact-form-revise-in-one-block": "v1-form-revise"}[name]
		x3 := s.Extend(b2, func(b *chaingen.Builder) {
			b.AddContractShape(r, kind)
			b.AddV1Form(r, 5, we)
			b.AddContractShape(r, kind)
		})
		x4 := s.Extend(x3, func(b *chaingen.Builder) { b.AddContractShape(r, kind) })
		xs = []*chaingen.Node{x3, x4}
	case "exact-form-and-rewindow-into-shared-list":
		// append-then-delete: the reverted blocks form a contract into the shared list and move
		// another contract (first of two) into a list that is shared as well
		x3 := s.Extend(b2, func(b *chaingen.Builder) {
			b.AddV1Form(r, 5, we)
			b.AddV1Form(r, 6, we+1)
			b.AddV1ReviseOf(pick(0), we+1)
		})
		x4 := s.Extend(x3, func(b *chaingen.Builder) { b.AddV1Form(r, 6, we+1) })
		xs = []*chaingen.Node{x3, x4}
	case "exact-rewindow-single", "f8-rewindow-first-of-three", "exact-rewindow-first-of-two":
		xs = []*chaingen.Node{s.Extend(b2, func(b *chaingen.Builder) { b.AddV1ReviseOf(pick(0), we+1) })}
	case "revise-window-and-prove-in-one-block":
		// consensus accepts it; the store is expected to panic while applying it, so no builder may apply it
		xs = []*chaingen.Node{s.ExtendUnapplied(b2, func(b *chaingen.Builder) {
			b.AddV1ReviseOf(pick(0), we+1)
			b.AddV1ProofOf(pick(0))
		})}
	case "revise-and-prove-in-one-block":
		xs = []*chaingen.Node{s.Extend(b2, func(b *chaingen.Builder) {
			b.AddV1ReviseOf(pick(0), 0)
			b.AddV1ProofOf(pick(0))
		})}
	}
	// the competing branch: long enough to pass every window end
	y := b2
	var ys []*chaingen.Node
	for i := 0; i < 6; i++ {
		y = s.Extend(y, nil)
		ys = append(ys, y)
	}
	idx := func(ns ...*chaingen.Node) (out []int) {
		for _, n := range ns {
			out = append(out, n.Idx)
		}
		return
	}
	first := append([]*chaingen.Node{b1, b2}, xs...)
	cut := len(xs) + 1
	plan := []mgrsim.Op{
		{Kind: "add", Nodes: idx(first...)},
		{Kind: "add", Nodes: idx(ys[:cut]...)},
		{Kind: "add", Nodes: idx(ys[cut:]...)},
	}
	return scenario{t: s.T, plan: plan}
}

// buildCross builds a fork that crosses the v2 allow and require heights in both
// directions: a trunk below the require height, a branch X that ends above it and a
// heavier branch Y forking below it; every block carries random transactions.
func buildCross(r *rng.R, env *chaingen.Env) scenario {
	s := chaingen.NewScript(r, env)
	req := env.Net.HardforkV2.RequireHeight
	if req > 50 {
		req = 6
	}
	fill := func(b *chaingen.Builder) {
		for i := 0; i < 3; i++ {
			b.AddTx(r, chaingen.TxKinds[r.Intn(len(chaingen.TxKinds))])
		}
	}
	n := s.T.Nodes[0]
	var first []*chaingen.Node
	forkH := uint64(1)
	if req > 3 {
		forkH = req - 2 - uint64(r.Intn(2))
	}
	for n.Height < forkH {
		n = s.Extend(n, fill)
		first = append(first, n)
	}
	fork := n
	for n.Height < req+2+uint64(r.Intn(2)) {
		n = s.Extend(n, fill)
		first = append(first, n)
	}
	xTip := n
	var ys []*chaingen.Node
	y := fork
	for y.Height <= xTip.Height+1 {
		y = s.Extend(y, fill)
		ys = append(ys, y)
	}
	idx := func(ns []*chaingen.Node) (out []int) {
		for _, n := range ns {
			out = append(out, n.Idx)
		}
		return
	}
	cut := 1 + r.Intn(len(ys))
	plan := []mgrsim.Op{{Kind: "add", Nodes: idx(first)}, {Kind: "add", Nodes: idx(ys[:cut])}}
	if cut < len(ys) {
		plan = append(plan, mgrsim.Op{Kind: "add", Nodes: idx(ys[cut:])})
	}
	// and back again: X is extended past Y
	x := xTip
	var xs []*chaingen.Node
	for x.Height <= y.Height+1 {
		x = s.Extend(x, fill)
		xs = append(xs, x)
	}
	plan = append(plan, mgrsim.Op{Kind: "add", Nodes: idx(xs)})
	return scenario{t: s.T, plan: plan}
}

// checkpointNet is the network of the "checkpoint-revert" scenario.
var checkpointNet = storeobs.NetParams{Allow: 1, Require: 3, FinalCut: 3}

// buildCheckpointRevert: a store opened at a checkpoint block X at require height + 1 that
// spends siacoin and siafund elements; a heavier sibling branch Y makes the node revert its own
// checkpoint block (revertElements runs on buckets that never held X's inputs), then X's
// branch grows past Y again. Returns the scenario and X's tree index.
func buildCheckpointRevert(r *rng.R, env *chaingen.Env) (scenario, int) {
	s := chaingen.NewScript(r, env)
	req := env.Net.HardforkV2.RequireHeight
	fill := func(b *chaingen.Builder) {
		for _, k := range []string{"v2-transfer", "v2-siafund", "v2-transfer"} {
			b.AddTx(r, k)
		}
	}
	n := s.T.Nodes[0]
	for n.Height < req {
		n = s.Extend(n, fill)
	}
	idx := func(ns ...*chaingen.Node) (out []int) {
		for _, n := range ns {
			out = append(out, n.Idx)
		}
		return
	}
	x := s.Extend(n, fill)
	x2 := s.Extend(x, fill)
	y := s.Extend(n, fill)
	y2 := s.Extend(y, fill)
	y3 := s.Extend(y2, fill)
	x3 := s.Extend(x2, fill)
	x4 := s.Extend(x3, fill)
	plan := []mgrsim.Op{{Kind: "add", Nodes: idx(x2)}, {Kind: "add", Nodes: idx(y, y2, y3)}, {Kind: "add", Nodes: idx(x2, x3, x4)}}
	return scenario{t: s.T, plan: plan}, x.Idx
}

// buildFlipFlop: the node applies B1, is reorganised to A1-A2 and then back to B1-B2-B3. A1
// creates many elements and B1 none but its payout, so the accumulator has different sizes at
// the two tips of height 1; B1 is re-applied from what the store kept, B2 is new and spends
// old v1 outputs whose proofs the store has to supply.
func buildFlipFlop(r *rng.R, env *chaingen.Env) scenario {
	s := chaingen.NewScript(r, env)
	g := s.T.Nodes[0]
	many := func(b *chaingen.Builder) {
		for i := 0; i < 4; i++ {
			b.AddTx(r, "v1-transfer")
		}
		b.AddTx(r, "v1-siafund")
	}
	spend := func(b *chaingen.Builder) {
		b.AddTx(r, "v1-transfer")
		b.AddTx(r, "v1-siafund")
	}
	b1 := s.Extend(g, nil)
	a1 := s.Extend(g, many)
	a2 := s.Extend(a1, nil)
	b2 := s.Extend(b1, spend)
	b3 := s.Extend(b2, spend)
	idx := func(ns ...*chaingen.Node) (out []int) {
		for _, n := range ns {
			out = append(out, n.Idx)
		}
		return
	}
	return scenario{t: s.T, plan: []mgrsim.Op{{Kind: "add", Nodes: idx(b1)}, {Kind: "add", Nodes: idx(a1, a2)}, {Kind: "add", Nodes: idx(b1, b2, b3)}}}
}

func directed(r *rng.R, env *chaingen.Env, name string) *chaingen.Tree {
	if name == "flip-flop" {
		return buildFlipFlop(r, env).t
	}
	if name == "cross-require" {
		return buildCross(r, env).t
	}
	if name == "checkpoint-revert" {
		sc, _ := buildCheckpointRevert(r, env)
		return sc.t
	}
	return buildDirected(r, env, name).t
}

func directedCases() []Case {
	var out []Case
	for i := 0; i < 12; i++ {
		regime := []int{1, 4, 2, 5}[i%4]
		cs := Case{Seed: uint64(5000 + i), Regime: regime, Directed: "cross-require"}
		func() {
			defer func() { recover() }()
			r := rng.New(cs.Seed)
			env := chaingen.NewEnv(r, regime)
			cs.Plan = buildCross(r, env).plan
		}()
		out = append(out, cs)
	}
	for i := 0; i < 6; i++ {
		cs := Case{Seed: uint64(8000 + i), Regime: []int{0, 1, 3}[i%3], Directed: "flip-flop", BlindFirst: 1 + i%2}
		func() {
			defer func() { recover() }()
			r := rng.New(cs.Seed)
			cs.Plan = buildFlipFlop(r, chaingen.NewEnv(r, cs.Regime)).plan
		}()
		out = append(out, cs)
	}
	for i := 0; i < 4; i++ {
		net := checkpointNet
		cs := Case{Seed: uint64(7000 + i), Regime: []int{1, 4}[i%2], Directed: "checkpoint-revert", Net: &net}
		func() {
			defer func() { recover() }()
			r := rng.New(cs.Seed)
			env := chaingen.NewEnv(r, cs.Regime)
			cs.Net.Apply(env)
			var sc scenario
			sc, cs.Checkpoint = buildCheckpointRevert(r, env)
			cs.Plan = sc.plan
		}()
		out = append(out, cs)
	}
	for i, name := range directedNames {
		for _, regime := range []int{0, 1, 3} {
			cs := Case{Seed: uint64(1000 + 7*i + regime), Regime: regime, Directed: name}
			func() {
				defer func() { recover() }() // a panicking builder is reported when the case is run
				r := rng.New(cs.Seed)
				env := chaingen.NewEnv(r, regime)
				cs.Plan = buildDirected(r, env, name).plan
			}()
			out = append(out, cs)
		}
	}
	return out
}
