package main

// C17: all key-value backends behave identically, including before a flush.
//
// The real MemDB, CacheDB(MemDB), CacheDB(Bolt) and BoltChainDB are driven with
// the same operation sequences as a reference two-map specification kept by the
// harness (monitor), and the sequences together with the observed results are
// written as cases for the Coq models of KV/Model.v (correspondence).
//
// Sequences are run by a pool of workers (each with its own backends and Bolt files) and
// their outcomes are merged in generation order, so a run is reproducible.
// Dimensions beyond "mutation, then the whole read suite" (seeded/LESSONS.md; counters plan:*,
// mode:*, backend:* in the evidence): judgement only at the end of a write-only stretch, each
// read API as the first call after a change, the read suite twice, bucket handles held for a
// session (from CreateBucket's result or Bucket) and mixed with fresh ones, iteration cut short
// after j elements, deleting the current key while iterating (as chain/migrate.go does),
// close-and-reopen of the Bolt file, a CacheDB stacked on a CacheDB, and chain-store sized
// keys / values (c17extreme.go).

import (
	"encoding/json"
	"fmt"
	"os"
	"path/filepath"
	"runtime"
	"sort"
	"strings"
	"sync"

	"go.etcd.io/bbolt"
	coreutils "go.sia.tech/coreutils"
	"go.sia.tech/coreutils/chain"
	"verif/harness/internal/hx"
)

func main() { hx.Main("C17", runC17) }

type Ctx = hx.Ctx

type kvOp struct {
	Kind string `json:"op"` // create put del get iter has flush cancel | iterbrk (K = elements taken before the break) iterdel reopen
	B    int    `json:"b"`
	K    int    `json:"k,omitempty"`
	V    int    `json:"v,omitempty"`
}

func (o kvOp) coq() string {
	switch o.Kind {
	case "create":
		return fmt.Sprintf("Create %d", o.B)
	case "put":
		return fmt.Sprintf("Put %d %d %d", o.B, o.K, o.V)
	case "del":
		return fmt.Sprintf("Del %d %d", o.B, o.K)
	case "get":
		return fmt.Sprintf("Get %d %d", o.B, o.K)
	case "iter":
		return fmt.Sprintf("Iter %d", o.B)
	case "has":
		return fmt.Sprintf("Has %d", o.B)
	case "flush":
		return "Flush"
	}
	return "Cancel"
}

func (o kvOp) String() string {
	switch o.Kind {
	case "flush", "cancel", "reopen":
		return o.Kind
	case "iterbrk":
		return fmt.Sprintf("iter(%d) cut after %d", o.B, o.K)
	case "iterdel":
		return fmt.Sprintf("iter(%d) deleting each key it yields", o.B)
	case "create", "iter", "has":
		return fmt.Sprintf("%s(%d)", o.Kind, o.B)
	case "put":
		return fmt.Sprintf("put(%d,%d,%d)", o.B, o.K, o.V)
	}
	return fmt.Sprintf("%s(%d,%d)", o.Kind, o.B, o.K)
}

// kvRes is an observed result in the vocabulary of the model:
// "unit", "ok", "err", "true", "false", "nobucket", "none", "val:3", "list:0=1,1=2".
type kvRes string

func (r kvRes) coq() string {
	s := string(r)
	switch {
	case s == "unit":
		return "RUnit"
	case s == "ok", s == "true":
		return "RBool true"
	case s == "err", s == "false":
		return "RBool false"
	case s == "nobucket":
		return "RNoBucket"
	case s == "none":
		return "RVal None"
	case strings.HasPrefix(s, "val:"):
		return "RVal (Some " + s[4:] + ")"
	case strings.HasPrefix(s, "list:"):
		body := s[5:]
		if body == "" {
			return "RList []"
		}
		parts := strings.Split(body, ",")
		for i, p := range parts {
			kv := strings.Split(p, "=")
			parts[i] = "(" + kv[0] + "," + kv[1] + ")"
		}
		return "RList [" + strings.Join(parts, ";") + "]"
	}
	return "RErr"
}

func bname(b int) []byte { return []byte{'B', byte('0' + b)} }
func kname(k int) []byte { return []byte{'k', byte('0' + k)} }

// vname renders a value; value 0 is the empty (zero-length, non-nil) byte string, which the chain
// store does write (an expiration list whose last id was removed).
func vname(v int) []byte {
	if v == 0 {
		return []byte{}
	}
	return []byte{'v', byte('0' + v)}
}
func decodeK(k []byte) string {
	if len(k) == 2 && k[0] == 'k' {
		return string(k[1:])
	}
	return fmt.Sprintf("?%x", k)
}
func decodeV(v []byte) string {
	if len(v) == 0 {
		return "0"
	}
	if len(v) == 2 && v[0] == 'v' {
		return string(v[1:])
	}
	return fmt.Sprintf("?%x", v)
}

type runMode int

const (
	modeFresh runMode = iota // every operation fetches its bucket by name
	modeHeld                 // one handle per bucket and session: CreateBucket's result, else the first Bucket()
	modeMixed                // held and fresh handles alternate
)

var modeNames = []string{"fresh", "held", "mixed"}

// kvSess is one opened backend.
type kvSess struct {
	db     chain.DB
	reopen func() // close and reopen the file (nil: the backend lives in memory, reopening = losing the session)
	done   func()
}

type runState struct {
	mode    runMode
	handles map[int]chain.DBBucket
}

func (st *runState) bucket(db chain.DB, b, i int) chain.DBBucket {
	if st.mode == modeHeld || (st.mode == modeMixed && i%2 == 1) {
		if h, ok := st.handles[b]; ok {
			return h
		}
	}
	h := db.Bucket(bname(b))
	if h != nil && st.mode != modeFresh {
		if _, ok := st.handles[b]; !ok {
			st.handles[b] = h
		}
	}
	return h
}

func kvApply(s *kvSess, st *runState, o kvOp, i int) (res kvRes) {
	defer func() {
		if r := recover(); r != nil {
			res = kvRes(fmt.Sprintf("panic:%v", r))
		}
	}()
	db := s.db
	switch o.Kind {
	case "create":
		h, err := db.CreateBucket(bname(o.B))
		if err != nil {
			return "err"
		}
		if st.mode != modeFresh && h != nil {
			st.handles[o.B] = h // the handle the call returned is the one the session goes on using
		}
		return "ok"
	case "flush":
		st.handles = map[int]chain.DBBucket{} // a handle lives as long as its session
		if err := db.Flush(); err != nil {
			return "flusherr"
		}
		return "unit"
	case "cancel":
		st.handles = map[int]chain.DBBucket{}
		db.Cancel()
		return "unit"
	case "reopen":
		st.handles = map[int]chain.DBBucket{}
		if s.reopen != nil {
			s.reopen()
		} else {
			db.Cancel()
		}
		return "unit"
	case "has":
		if db.Bucket(bname(o.B)) == nil {
			return "false"
		}
		return "true"
	}
	bk := st.bucket(db, o.B, i)
	if bk == nil {
		return "nobucket"
	}
	switch o.Kind {
	case "put":
		if err := bk.Put(kname(o.K), vname(o.V)); err != nil {
			return "puterr"
		}
		return "ok"
	case "del":
		if err := bk.Delete(kname(o.K)); err != nil {
			return "delerr"
		}
		return "ok"
	case "get":
		v := bk.Get(kname(o.K))
		if v == nil {
			return "none"
		}
		return kvRes("val:" + decodeV(v))
	case "iter", "iterbrk", "iterdel":
		var kvs []string
		n := 0
		for k, v := range bk.Iter() {
			if o.Kind == "iterbrk" && n == o.K {
				break // the consumer has seen enough
			}
			n++
			kvs = append(kvs, decodeK(k)+"="+decodeV(v))
			if o.Kind == "iterdel" { // chain/migrate.go: for id := range bucket.Iter() { bucket.delete(id) }
				if err := st.bucket(db, o.B, i).Delete(append([]byte(nil), k...)); err != nil {
					return "delerr"
				}
			}
		}
		sort.Strings(kvs) // Go map order is not an observable
		return kvRes("list:" + strings.Join(kvs, ","))
	}
	return "badop"
}

// agree: does the observed result meet the specification's? Equal, except for a cut-short
// iteration: any j distinct pairs of the bucket (j = the cut, or everything if there is less).
func agree(o kvOp, got, want kvRes) bool {
	if o.Kind != "iterbrk" {
		return got == want
	}
	if !strings.HasPrefix(string(got), "list:") || !strings.HasPrefix(string(want), "list:") {
		return got == want
	}
	all := map[string]bool{}
	nall := 0
	for _, p := range strings.Split(string(want)[5:], ",") {
		if p != "" {
			all[p] = true
			nall++
		}
	}
	seen := map[string]bool{}
	ngot := 0
	for _, p := range strings.Split(string(got)[5:], ",") {
		if p == "" {
			continue
		}
		if !all[p] || seen[p] {
			return false
		}
		seen[p] = true
		ngot++
	}
	return ngot == min(o.K, nall)
}

// refDB is the specification: a committed image and the current session view.
type refDB struct{ com, cur map[int]map[int]int }

func newRef() *refDB { return &refDB{map[int]map[int]int{}, map[int]map[int]int{}} }
func cloneKV(m map[int]map[int]int) map[int]map[int]int {
	c := map[int]map[int]int{}
	for b, kv := range m {
		c[b] = map[int]int{}
		for k, v := range kv {
			c[b][k] = v
		}
	}
	return c
}
func (r *refDB) apply(o kvOp) kvRes {
	switch o.Kind {
	case "create":
		if r.cur[o.B] != nil {
			return "err"
		}
		r.cur[o.B] = map[int]int{}
		return "ok"
	case "flush":
		r.com = cloneKV(r.cur)
		return "unit"
	case "cancel", "reopen": // reopening the file shows exactly what was flushed
		r.cur = cloneKV(r.com)
		return "unit"
	case "has":
		if r.cur[o.B] == nil {
			return "false"
		}
		return "true"
	}
	bk := r.cur[o.B]
	if bk == nil {
		return "nobucket"
	}
	switch o.Kind {
	case "put":
		bk[o.K] = o.V
		return "ok"
	case "del":
		delete(bk, o.K)
		return "ok"
	case "get":
		if v, ok := bk[o.K]; ok {
			return kvRes(fmt.Sprintf("val:%d", v))
		}
		return "none"
	case "iter", "iterbrk", "iterdel": // iterbrk is judged by agree(); iterdel visits everything and leaves nothing
		if o.Kind == "iterdel" {
			defer func() { r.cur[o.B] = map[int]int{} }()
		}
		var kvs []string
		for k, v := range bk {
			kvs = append(kvs, fmt.Sprintf("%d=%d", k, v))
		}
		sort.Strings(kvs)
		return kvRes("list:" + strings.Join(kvs, ","))
	}
	return "badop"
}

type kvBackend struct {
	name string
	id   int // backend number in the Coq model
	bolt bool
	open func() *kvSess
}

// c17Backends: the four backends of the property and a CacheDB stacked on a CacheDB
// ("the write-caching wrapper (over any backend)"). dir must be private to the caller.
func c17Backends(dir string) []kvBackend {
	os.MkdirAll(dir, 0o755)
	n := 0
	bolt := func(wrap func(chain.DB) chain.DB) func() *kvSess {
		return func() *kvSess {
			n++
			p := filepath.Join(dir, fmt.Sprintf("bolt-%d.db", n))
			os.Remove(p)
			opts := &bbolt.Options{NoSync: true, NoFreelistSync: true}
			bdb, err := bbolt.Open(p, 0o600, opts)
			if err != nil {
				panic(err)
			}
			raw := coreutils.NewBoltChainDB(bdb)
			s := &kvSess{db: wrap(raw)}
			s.reopen = func() {
				s.db.Cancel() // what was not flushed is not to survive; Close would flush it
				raw.Cancel()  // (also when the wrapper under test forgets its backend: bbolt's Close waits for open transactions)
				raw.Close()
				bdb, err = bbolt.Open(p, 0o600, opts)
				if err != nil {
					panic(err)
				}
				raw = coreutils.NewBoltChainDB(bdb)
				s.db = wrap(raw)
			}
			s.done = func() { s.db.Cancel(); raw.Cancel(); bdb.Close(); os.Remove(p) }
			return s
		}
	}
	mem := func(mk func() chain.DB) func() *kvSess {
		return func() *kvSess { return &kvSess{db: mk(), done: func() {}} }
	}
	id := func(db chain.DB) chain.DB { return db }
	return []kvBackend{
		{"MemDB", 0, false, mem(func() chain.DB { return chain.NewMemDB() })},
		{"CacheDB(MemDB)", 1, false, mem(func() chain.DB { return chain.NewCacheDB(chain.NewMemDB()) })},
		{"BoltChainDB", 2, true, bolt(id)},
		{"CacheDB(Bolt)", 3, true, bolt(chain.NewCacheDB)},
		{"CacheDB(CacheDB(MemDB))", 4, false, mem(func() chain.DB { return chain.NewCacheDB(chain.NewCacheDB(chain.NewMemDB())) })},
	}
}

func kvReads() []kvOp {
	var rs []kvOp
	for b := 0; b < 2; b++ {
		rs = append(rs, kvOp{Kind: "has", B: b})
		for k := 0; k < 2; k++ {
			rs = append(rs, kvOp{Kind: "get", B: b, K: k})
		}
		rs = append(rs, kvOp{Kind: "iter", B: b})
	}
	return rs
}

func kvMutations() []kvOp {
	var ms []kvOp
	for b := 0; b < 2; b++ {
		ms = append(ms, kvOp{Kind: "create", B: b})
		for k := 0; k < 2; k++ {
			for v := 0; v <= 2; v++ {
				ms = append(ms, kvOp{Kind: "put", B: b, K: k, V: v})
			}
			ms = append(ms, kvOp{Kind: "del", B: b, K: k})
		}
	}
	ms = append(ms, kvOp{Kind: "flush"}, kvOp{Kind: "cancel"})
	return ms
}

// runKV runs ops on a fresh backend and on the reference; returns the observed
// results and the index of the first disagreement (-1 if none).
func runKV(be kvBackend, ops []kvOp, mode runMode) (obs []kvRes, want []kvRes, bad int) {
	s := be.open()
	defer func() { s.done() }()
	st := &runState{mode: mode, handles: map[int]chain.DBBucket{}}
	ref := newRef()
	bad = -1
	for i, o := range ops {
		g := kvApply(s, st, o, i)
		w := ref.apply(o)
		obs = append(obs, g)
		want = append(want, w)
		if !agree(o, g, w) && bad < 0 {
			bad = i
		}
	}
	return
}

// interleave puts the full read suite after every mutation.
func interleave(ms []kvOp) []kvOp {
	rs := kvReads()
	var ops []kvOp
	for _, m := range ms {
		ops = append(ops, m)
		ops = append(ops, rs...)
	}
	return ops
}

func shrinkKV(be kvBackend, ops []kvOp, mode runMode) []kvOp {
	fails := func(o []kvOp) bool { _, _, bad := runKV(be, o, mode); return bad >= 0 }
	// keep only up to the first failing op
	_, _, bad := runKV(be, ops, mode)
	ops = append([]kvOp(nil), ops[:bad+1]...)
	for changed := true; changed; {
		changed = false
		for i := 0; i < len(ops); i++ {
			c := append(append([]kvOp(nil), ops[:i]...), ops[i+1:]...)
			if len(c) > 0 && fails(c) {
				_, _, b := runKV(be, c, mode)
				ops = c[:b+1]
				changed = true
				break
			}
		}
	}
	return ops
}

// kvFailKind names a failure by the structure of the shrunk sequence (never by a message of the
// code under test; "panic" is the harness's own marker for a recovered panic).
func kvFailKind(be kvBackend, ops []kvOp, bad int, got, want kvRes, mode runMode) string {
	o := ops[bad]
	if strings.HasPrefix(string(got), "panic") {
		return "kv-panic"
	}
	if mode != modeFresh {
		if _, _, b := runKV(be, ops, modeFresh); b < 0 {
			return "kv-held-handle-differs" // the same calls through freshly fetched handles are right
		}
	}
	unflushedDel, unflushedPut, doubleCreate := false, false, false
	created := map[int]int{}
	for _, p := range ops[:bad] {
		switch p.Kind {
		case "del":
			unflushedDel = true
		case "put":
			unflushedPut = true
		case "create":
			created[p.B]++
			if created[p.B] > 1 {
				doubleCreate = true
			}
		case "flush", "cancel", "reopen":
			unflushedDel, unflushedPut, doubleCreate = false, false, false
			created = map[int]int{}
		}
	}
	switch {
	case o.Kind == "iterbrk":
		return "kv-iter-cut-short-misbehaves"
	case o.Kind == "iterdel":
		return "kv-iter-delete-misses-keys"
	case o.Kind == "create" && got == "ok" && want == "err":
		return "kv-double-create-accepted"
	case doubleCreate:
		return "kv-double-create-drops-writes"
	case o.Kind == "get" && unflushedDel && strings.HasPrefix(string(got), "val:") && want == "none":
		return "kv-stale-get-after-delete"
	case o.Kind == "iter" && unflushedPut:
		return "kv-iter-misses-unflushed"
	}
	for _, p := range ops[:bad] {
		if p.Kind == "reopen" {
			return "kv-reopen-differs"
		}
	}
	return "kv-" + o.Kind + "-differs"
}

func opsStrings(ops []kvOp) []string {
	s := make([]string, len(ops))
	for i, o := range ops {
		s[i] = o.String()
	}
	return s
}

func coqable(ops []kvOp) bool {
	for _, o := range ops {
		switch o.Kind {
		case "iterbrk", "iterdel", "reopen":
			return false // not operations of KV/Model.v: monitor only
		}
	}
	return true
}

// ---- jobs, workers, ordered merge ----

type kvJob struct {
	seq    int
	ops    []kvOp
	toCoq  bool
	mode   runMode
	tag    string // plan:<tag> counter
	noBolt bool   // Bolt transactions are ~50x slower
	only   int    // >= 0: only the backend with this id
}

type kvFailure struct {
	key, kind, detail string
	replay            any
}

type kvOutcome struct {
	seq   int
	job   kvJob
	evals []string // canonical renderings, one per backend run
	names []string
	fails []kvFailure
	cases []string
}

func nontrivialKV(ops []kvOp) bool {
	w, fc := false, false
	for _, o := range ops {
		switch o.Kind {
		case "put", "del", "create", "iterdel":
			w = true
		case "flush", "cancel", "reopen":
			if w {
				fc = true
			}
		case "get", "iter", "has", "iterbrk":
			if fc {
				return true
			}
		}
	}
	return false
}

func doJob(bes []kvBackend, j kvJob) kvOutcome {
	out := kvOutcome{seq: j.seq, job: j}
	for _, be := range bes {
		if (j.noBolt && be.bolt) || (j.only >= 0 && be.id != j.only) {
			continue
		}
		obs, _, bad := runKV(be, j.ops, j.mode)
		out.evals = append(out.evals, be.name+modeNames[j.mode]+fmt.Sprint(opsStrings(j.ops)))
		out.names = append(out.names, be.name)
		if bad >= 0 {
			small := shrinkKV(be, j.ops, j.mode)
			o2, w2, b2 := runKV(be, small, j.mode)
			kind := kvFailKind(be, small, b2, o2[b2], w2[b2], j.mode)
			how := ""
			if j.mode != modeFresh {
				how = " (bucket handles " + modeNames[j.mode] + " within the session)"
			}
			out.fails = append(out.fails, kvFailure{kind + "/" + be.name, kind,
				fmt.Sprintf("%s%s: after %v the operation %s returned %q, the two-map specification returns %q", be.name, how, opsStrings(small[:b2]), small[b2], o2[b2], w2[b2]),
				map[string]any{"backend": be.name, "mode": modeNames[j.mode], "ops": small, "observed": o2, "expected": w2}})
		}
		if j.toCoq && coqable(j.ops) {
			parts := make([]string, len(j.ops))
			for i, o := range j.ops {
				parts[i] = "(" + o.coq() + ", " + obs[i].coq() + ")"
			}
			out.cases = append(out.cases, fmt.Sprintf("mk_case %d [%s]", be.id, strings.Join(parts, "; ")))
		}
	}
	return out
}

func runC17(c *Ctx) {
	res := c.Res
	res.Rule = "operation sequences over 2 buckets x 2 keys x 3 values (one empty) on MemDB, CacheDB(MemDB), BoltChainDB, CacheDB(Bolt), CacheDB(CacheDB(MemDB)); exhaustive mutation sequences (full read suite after each mutation) up to the stated length, the same sequences judged only at the end (read suite twice), with each read as the first call after the last mutation, and with bucket handles held / mixed within a session; random longer sequences with explicit reads, cut-short iterations, delete-while-iterating over flushed keys and close-and-reopen; chain-store sized keys and values; non-trivial := the sequence contains a flush, cancel or reopen with at least one write before it and a read after it; distinct by sequence+backend+handle mode"
	muts := kvMutations()
	var cases []string
	reported := map[string]bool{}

	merge := func(o kvOutcome) {
		for i, canon := range o.evals {
			res.Eval(canon, nontrivialKV(o.job.ops))
			res.CountN("ops", len(o.job.ops))
			res.Count("backend:" + o.names[i])
		}
		for _, op := range o.job.ops {
			switch op.Kind {
			case "iterbrk", "iterdel", "reopen":
				res.CountN("op:"+op.Kind, len(o.evals)) // once per backend run
			}
		}
		res.Count("plan:" + o.job.tag)
		res.Count("mode:" + modeNames[o.job.mode])
		for _, f := range o.fails {
			if !reported[f.key] || len(res.Failures) < 12 {
				reported[f.key] = true
				res.Fail(f.kind, f.detail, f.replay)
			} else {
				res.Count("fail:" + f.kind)
			}
		}
		cases = append(cases, o.cases...)
	}

	if c.Replay != "" {
		var rp struct {
			Replay struct {
				Backend string `json:"backend"`
				Mode    string `json:"mode"`
				Ops     []kvOp `json:"ops"`
			} `json:"replay"`
		}
		b, _ := os.ReadFile(c.Replay)
		json.Unmarshal(b, &rp)
		bes := c17Backends(filepath.Join(res.Dir(), "w0"))
		for _, be := range bes {
			if be.name == rp.Replay.Backend {
				mode := modeFresh
				for i, n := range modeNames {
					if n == rp.Replay.Mode {
						mode = runMode(i)
					}
				}
				merge(doJob(bes, kvJob{ops: rp.Replay.Ops, toCoq: true, mode: mode, tag: "replay", only: be.id}))
			}
		}
		res.WriteCases("Run.Run_C17", cases)
		return
	}

	// workers: each owns its backends (and Bolt files); outcomes are merged in generation order
	W := min(8, max(2, runtime.NumCPU()/2))
	jobs := make(chan kvJob, 1024)
	outs := make(chan kvOutcome, 1024)
	var wg sync.WaitGroup
	for w := 0; w < W; w++ {
		wg.Add(1)
		go func(w int) {
			defer wg.Done()
			bes := c17Backends(filepath.Join(res.Dir(), fmt.Sprintf("w%d", w)))
			for j := range jobs {
				outs <- doJob(bes, j)
			}
		}(w)
	}
	merged := make(chan struct{})
	go func() {
		pending := map[int]kvOutcome{}
		next := 0
		for o := range outs {
			pending[o.seq] = o
			for {
				p, ok := pending[next]
				if !ok {
					break
				}
				delete(pending, next)
				merge(p)
				next++
			}
		}
		close(merged)
	}()
	seq := 0
	submit := func(ops []kvOp, toCoq bool, mode runMode, tag string, noBolt bool) {
		jobs <- kvJob{seq: seq, ops: append([]kvOp(nil), ops...), toCoq: toCoq, mode: mode, tag: tag, noBolt: noBolt, only: -1}
		seq++
	}

	// corpus first
	for _, ops := range c17Corpus() {
		submit(ops, true, modeFresh, "corpus", false)
		submit(ops, false, modeHeld, "corpus", false)
	}

	// exhaustive mutation sequences, up to renaming: the backends are symmetric in bucket, key and value
	// names, so only sequences that introduce buckets, keys and values in increasing order are run
	goLen, coqLen := c.Scale(5, 6), c.Scale(2, 3)
	reads := kvReads()
	twice := append(append([]kvOp(nil), reads...), reads...)
	var rec func(prefix []kvOp, depth, nb, nk, nv int)
	rec = func(prefix []kvOp, depth, nb, nk, nv int) {
		n := len(prefix)
		crosses := false // the sequence crosses a session boundary
		for _, m := range prefix {
			if m.Kind == "flush" || m.Kind == "cancel" {
				crosses = true
			}
		}
		// quick tier: at the last level only sequences that cross a session boundary
		// (a flush or a cancel) are run; the thorough tier runs all of them
		if n > 0 && (n < goLen || c.Thorough || crosses) {
			noBolt := n > goLen-1 // Bolt: one level less
			submit(interleave(prefix), n <= coqLen, modeFresh, "reads-after-every-mutation", noBolt)
			// judged only at the end: no read between the mutations, then the read suite twice
			// (a read must not change what the next read sees)
			if n >= 2 {
				submit(append(append([]kvOp(nil), prefix...), twice...), false, modeFresh, "judged-at-the-end-only", noBolt || n > goLen-2)
			}
			// handles held for the session / mixed with fresh ones
			if n >= 2 && n < goLen {
				submit(interleave(prefix), false, modeHeld, "held-handles", n > goLen-2)
				submit(interleave(prefix), false, modeMixed, "mixed-handles", true)
			}
			// every read API as the first call after the last mutation
			if n >= 2 && n <= 3 {
				for _, r := range reads[1:] { // the suite itself starts with reads[0]
					submit(append(append(append([]kvOp(nil), prefix...), r), reads...), false, modeFresh, "first-read-after-the-change", n > 2)
				}
			}
		}
		if depth == 0 {
			return
		}
		for _, m := range muts {
			if m.B > nb || m.K > nk || (m.Kind == "put" && m.V > nv+1 && m.V != 0) {
				continue
			}
			b2, k2, v2 := nb, nk, nv
			if m.Kind != "flush" && m.Kind != "cancel" && m.B == nb {
				b2 = nb + 1
			}
			if (m.Kind == "put" || m.Kind == "del") && m.K == nk {
				k2 = nk + 1
			}
			if m.Kind == "put" && m.V == nv+1 && m.V != 0 {
				v2 = nv + 1
			}
			rec(append(prefix, m), depth-1, b2, k2, v2)
		}
	}
	rec(nil, goLen, 0, 0, 0)
	res.Exhaustive = true
	res.Explored = map[string]any{"exhaustive_up_to_renaming_of_buckets_keys_values": true, "exhaustive_last_level_only_with_flush_or_cancel_in_quick": !c.Thorough, "exhaustive_len_go": goLen, "exhaustive_len_go_bolt": goLen - 1, "exhaustive_len_coq": coqLen, "alphabet": len(muts), "workers": W,
		"exhaustive_len_judged_at_the_end_only": goLen, "exhaustive_len_held_handles": goLen - 1, "exhaustive_len_first_read": 3}

	// directed: what the new operations are for
	for _, ops := range c17Directed() {
		for m := modeFresh; m <= modeMixed; m++ {
			submit(ops, false, m, "directed", false)
		}
	}

	// random longer sequences with explicit reads; a third of them also use the cut-short iteration,
	// delete-while-iterating (over flushed keys, as the chain store does) and close-and-reopen
	all := append(append([]kvOp(nil), muts...), reads...)
	nrand := c.Scale(400, 6000)
	for i := 0; i < nrand; i++ {
		r := c.R.Fork()
		n := 5 + r.Intn(30)
		var ops []kvOp
		for j := 0; j < n; j++ {
			o := all[r.Intn(len(all))]
			if i%3 == 2 && r.Chance(1, 6) {
				switch r.Intn(4) {
				case 0, 1:
					o = kvOp{Kind: "iterbrk", B: r.Intn(2), K: r.Intn(3)}
				case 2:
					ops = append(ops, kvOp{Kind: "flush"}) // the keys it walks over are flushed ones
					o = kvOp{Kind: "iterdel", B: r.Intn(2)}
				default:
					o = kvOp{Kind: "reopen"}
				}
			}
			ops = append(ops, o)
		}
		// mostly-valid stream: 80% of the sequences create their buckets first
		if r.Chance(4, 5) {
			ops[0] = kvOp{Kind: "create", B: 0}
			if r.Bool() {
				ops[1] = kvOp{Kind: "create", B: 1}
			}
		}
		submit(ops, true, runMode(i%3), "random", false)
		if i < 2 {
			res.Sample(map[string]any{"ops": opsStrings(ops)})
		}
	}
	close(jobs)
	wg.Wait()
	close(outs)
	<-merged

	extremesC17(c)
	chainReplayC17(c)
	res.WriteCases("Run.Run_C17", cases)
}

// c17Directed: short plans around the operations that are not in the exhaustive alphabet.
func c17Directed() [][]kvOp {
	p := func(b, k, v int) kvOp { return kvOp{Kind: "put", B: b, K: k, V: v} }
	d := func(b, k int) kvOp { return kvOp{Kind: "del", B: b, K: k} }
	cr := func(b int) kvOp { return kvOp{Kind: "create", B: b} }
	g := func(b, k int) kvOp { return kvOp{Kind: "get", B: b, K: k} }
	it := func(b int) kvOp { return kvOp{Kind: "iter", B: b} }
	fl, ca, re := kvOp{Kind: "flush"}, kvOp{Kind: "cancel"}, kvOp{Kind: "reopen"}
	brk := func(b, j int) kvOp { return kvOp{Kind: "iterbrk", B: b, K: j} }
	idel := func(b int) kvOp { return kvOp{Kind: "iterdel", B: b} }
	var hs [][]kvOp
	// iteration cut after 0, 1, 2 elements over flushed, unflushed and mixed content; everything still works afterwards
	for j := 0; j <= 2; j++ {
		hs = append(hs,
			[]kvOp{cr(0), p(0, 0, 1), p(0, 1, 2), brk(0, j), it(0), g(0, 0), fl, brk(0, j), it(0)},
			[]kvOp{cr(0), p(0, 0, 1), fl, p(0, 1, 2), brk(0, j), it(0), d(0, 0), brk(0, j), it(0), ca, brk(0, j), it(0)},
			[]kvOp{cr(0), brk(0, j), it(0), fl, brk(0, j)},
			[]kvOp{cr(0), p(0, 0, 1), p(0, 1, 2), fl, p(0, 0, 2), brk(0, j), brk(0, j), it(0), fl, it(0)},
		)
	}
	// delete-while-iterating over flushed keys (chain/migrate.go), then every way of ending the session
	for _, end := range [][]kvOp{{fl}, {ca}, {re}, {p(0, 0, 2), fl}, {fl, re}} {
		hs = append(hs,
			append([]kvOp{cr(0), p(0, 0, 1), p(0, 1, 2), fl, idel(0), it(0), g(0, 0)}, append(end, it(0), g(0, 0), g(0, 1))...),
			append([]kvOp{cr(0), cr(1), p(0, 0, 1), p(1, 0, 2), p(0, 1, 0), fl, idel(0), it(0), it(1)}, append(end, it(0), it(1))...),
			append([]kvOp{cr(0), p(0, 0, 1), fl, idel(0), idel(0), p(0, 1, 1), it(0)}, append(end, it(0))...),
		)
	}
	// close and reopen: exactly the flushed data
	hs = append(hs,
		[]kvOp{cr(0), p(0, 0, 1), fl, re, it(0), g(0, 0), p(0, 1, 2), re, it(0), g(0, 1)},
		[]kvOp{cr(0), p(0, 0, 1), re, kvOp{Kind: "has", B: 0}, cr(0), kvOp{Kind: "has", B: 0}, fl, re, kvOp{Kind: "has", B: 0}, it(0)},
		[]kvOp{cr(0), p(0, 0, 1), fl, d(0, 0), fl, re, g(0, 0), it(0)},
		[]kvOp{cr(0), p(0, 0, 1), fl, d(0, 0), re, g(0, 0), it(0)},
		[]kvOp{cr(0), p(0, 0, 1), fl, p(0, 0, 0), fl, re, g(0, 0), d(0, 0), fl, re, g(0, 0)},
		[]kvOp{cr(0), fl, re, cr(1), p(1, 0, 1), p(0, 0, 2), fl, re, it(0), it(1), re, re, it(1)},
	)
	return hs
}

// c17Corpus holds minimised earlier failures; they run first.
func c17Corpus() [][]kvOp {
	p := func(b, k, v int) kvOp { return kvOp{Kind: "put", B: b, K: k, V: v} }
	cr := func(b int) kvOp { return kvOp{Kind: "create", B: b} }
	fl := kvOp{Kind: "flush"}
	return [][]kvOp{
		// stale get after an unflushed delete (CacheDB)
		{cr(0), p(0, 0, 1), fl, {Kind: "del", B: 0, K: 0}, {Kind: "get", B: 0, K: 0}},
		// iteration must see unflushed puts
		{cr(0), fl, p(0, 0, 1), {Kind: "iter", B: 0}},
		{cr(0), p(0, 0, 1), {Kind: "iter", B: 0}},
		// second create before a flush must not drop pending writes
		{cr(0), p(0, 0, 1), cr(0), {Kind: "get", B: 0, K: 0}, fl, {Kind: "get", B: 0, K: 0}},
		// cancel discards exactly the pending window
		{cr(0), p(0, 0, 1), fl, p(0, 0, 2), p(0, 1, 1), {Kind: "cancel"}, {Kind: "get", B: 0, K: 0}, {Kind: "get", B: 0, K: 1}, {Kind: "iter", B: 0}},
		{cr(0), {Kind: "cancel"}, {Kind: "has", B: 0}, cr(0), {Kind: "has", B: 0}},
	}
}
