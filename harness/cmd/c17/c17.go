package main

// C17: all key-value backends behave identically, including before a flush.
//
// The real MemDB, CacheDB(MemDB), CacheDB(Bolt) and BoltChainDB are driven with
// the same operation sequences as a reference two-map specification kept by the
// harness (monitor), and the sequences together with the observed results are
// written as cases for the Coq models of KV/Model.v (correspondence).

import (
	"bytes"
	"encoding/json"
	"fmt"
	"os"
	"path/filepath"
	"sort"
	"strings"

	"go.etcd.io/bbolt"
	coreutils "go.sia.tech/coreutils"
	"go.sia.tech/coreutils/chain"
	"verif/harness/internal/hx"
	"verif/harness/internal/out"
	"verif/harness/internal/rng"
)

func main() { hx.Main("C17", runC17) }

type Ctx = hx.Ctx

type kvOp struct {
	Kind string `json:"op"` // create put del get iter has flush cancel
	B    int    `json:"b"`
	K    int    `json:"k,omitempty"`
	V    int    `json:"v,omitempty"`
}

func (o kvOp) coq() string {
	switch o.Kind {
	case "create":
		return fmt.Sprintf("Create %d", o.B)
	case "put":
		return fmt.Sprintf("Put %d %d %d", o.B, o.K, o.V)
	case "del":
		return fmt.Sprintf("Del %d %d", o.B, o.K)
	case "get":
		return fmt.Sprintf("Get %d %d", o.B, o.K)
	case "iter":
		return fmt.Sprintf("Iter %d", o.B)
	case "has":
		return fmt.Sprintf("Has %d", o.B)
	case "flush":
		return "Flush"
	}
	return "Cancel"
}

func (o kvOp) String() string {
	switch o.Kind {
	case "flush", "cancel":
		return o.Kind
	case "create", "iter", "has":
		return fmt.Sprintf("%s(%d)", o.Kind, o.B)
	case "put":
		return fmt.Sprintf("put(%d,%d,%d)", o.B, o.K, o.V)
	}
	return fmt.Sprintf("%s(%d,%d)", o.Kind, o.B, o.K)
}

// kvRes is an observed result in the vocabulary of the model:
// "unit", "ok", "err", "true", "false", "nobucket", "none", "val:3", "list:0=1,1=2".
type kvRes string

func (r kvRes) coq() string {
	s := string(r)
	switch {
	case s == "unit":
		return "RUnit"
	case s == "ok", s == "true":
		return "RBool true"
	case s == "err", s == "false":
		return "RBool false"
	case s == "nobucket":
		return "RNoBucket"
	case s == "none":
		return "RVal None"
	case strings.HasPrefix(s, "val:"):
		return "RVal (Some " + s[4:] + ")"
	case strings.HasPrefix(s, "list:"):
		body := s[5:]
		if body == "" {
			return "RList []"
		}
		parts := strings.Split(body, ",")
		for i, p := range parts {
			kv := strings.Split(p, "=")
			parts[i] = "(" + kv[0] + "," + kv[1] + ")"
		}
		return "RList [" + strings.Join(parts, ";") + "]"
	}
	return "RErr"
}

func bname(b int) []byte { return []byte{'B', byte('0' + b)} }
func kname(k int) []byte { return []byte{'k', byte('0' + k)} }
// vname renders a value; value 0 is the empty (zero-length, non-nil) byte string, which the chain
// store does write (an expiration list whose last id was removed).
func vname(v int) []byte {
	if v == 0 {
		return []byte{}
	}
	return []byte{'v', byte('0' + v)}
}
func decodeK(k []byte) string {
	if len(k) == 2 && k[0] == 'k' {
		return string(k[1:])
	}
	return fmt.Sprintf("?%x", k)
}
func decodeV(v []byte) string {
	if len(v) == 0 {
		return "0"
	}
	if len(v) == 2 && v[0] == 'v' {
		return string(v[1:])
	}
	return fmt.Sprintf("?%x", v)
}

func kvApply(db chain.DB, o kvOp) (res kvRes) {
	defer func() {
		if r := recover(); r != nil {
			res = kvRes(fmt.Sprintf("panic:%v", r))
		}
	}()
	switch o.Kind {
	case "create":
		if _, err := db.CreateBucket(bname(o.B)); err != nil {
			return "err"
		}
		return "ok"
	case "flush":
		if err := db.Flush(); err != nil {
			return "flusherr"
		}
		return "unit"
	case "cancel":
		db.Cancel()
		return "unit"
	case "has":
		if db.Bucket(bname(o.B)) == nil {
			return "false"
		}
		return "true"
	}
	bk := db.Bucket(bname(o.B))
	if bk == nil {
		return "nobucket"
	}
	switch o.Kind {
	case "put":
		if err := bk.Put(kname(o.K), vname(o.V)); err != nil {
			return "puterr"
		}
		return "ok"
	case "del":
		if err := bk.Delete(kname(o.K)); err != nil {
			return "delerr"
		}
		return "ok"
	case "get":
		v := bk.Get(kname(o.K))
		if v == nil {
			return "none"
		}
		return kvRes("val:" + decodeV(v))
	case "iter":
		var kvs []string
		for k, v := range bk.Iter() {
			kvs = append(kvs, decodeK(k)+"="+decodeV(v))
		}
		sort.Strings(kvs) // Go map order is not an observable
		return kvRes("list:" + strings.Join(kvs, ","))
	}
	return "badop"
}

// refDB is the specification: a committed image and the current session view.
type refDB struct{ com, cur map[int]map[int]int }

func newRef() *refDB { return &refDB{map[int]map[int]int{}, map[int]map[int]int{}} }
func cloneKV(m map[int]map[int]int) map[int]map[int]int {
	c := map[int]map[int]int{}
	for b, kv := range m {
		c[b] = map[int]int{}
		for k, v := range kv {
			c[b][k] = v
		}
	}
	return c
}
func (r *refDB) apply(o kvOp) kvRes {
	switch o.Kind {
	case "create":
		if r.cur[o.B] != nil {
			return "err"
		}
		r.cur[o.B] = map[int]int{}
		return "ok"
	case "flush":
		r.com = cloneKV(r.cur)
		return "unit"
	case "cancel":
		r.cur = cloneKV(r.com)
		return "unit"
	case "has":
		if r.cur[o.B] == nil {
			return "false"
		}
		return "true"
	}
	bk := r.cur[o.B]
	if bk == nil {
		return "nobucket"
	}
	switch o.Kind {
	case "put":
		bk[o.K] = o.V
		return "ok"
	case "del":
		delete(bk, o.K)
		return "ok"
	case "get":
		if v, ok := bk[o.K]; ok {
			return kvRes(fmt.Sprintf("val:%d", v))
		}
		return "none"
	case "iter":
		var kvs []string
		for k, v := range bk {
			kvs = append(kvs, fmt.Sprintf("%d=%d", k, v))
		}
		sort.Strings(kvs)
		return kvRes("list:" + strings.Join(kvs, ","))
	}
	return "badop"
}

type kvBackend struct {
	name string
	id   int // backend number in the Coq model
	open func() (chain.DB, func())
}

func c17Backends(dir string) []kvBackend {
	n := 0
	bolt := func() (chain.DB, func()) {
		n++
		p := filepath.Join(dir, fmt.Sprintf("bolt-%d.db", n))
		os.Remove(p)
		bdb, err := bbolt.Open(p, 0o600, &bbolt.Options{NoSync: true, NoFreelistSync: true})
		if err != nil {
			panic(err)
		}
		db := coreutils.NewBoltChainDB(bdb)
		return db, func() { db.Cancel(); bdb.Close(); os.Remove(p) }
	}
	return []kvBackend{
		{"MemDB", 0, func() (chain.DB, func()) { return chain.NewMemDB(), func() {} }},
		{"CacheDB(MemDB)", 1, func() (chain.DB, func()) { return chain.NewCacheDB(chain.NewMemDB()), func() {} }},
		{"BoltChainDB", 2, bolt},
		{"CacheDB(Bolt)", 3, func() (chain.DB, func()) {
			db, cl := bolt()
			return chain.NewCacheDB(db), cl
		}},
	}
}

// a reusable bolt handle: reopening a file per sequence would dominate the run
type kvSession struct {
	be   kvBackend
	db   chain.DB
	done func()
	// for bolt-backed sessions we reset by deleting all buckets instead of reopening
	raw *bbolt.DB
}

func kvReads() []kvOp {
	var rs []kvOp
	for b := 0; b < 2; b++ {
		rs = append(rs, kvOp{Kind: "has", B: b})
		for k := 0; k < 2; k++ {
			rs = append(rs, kvOp{Kind: "get", B: b, K: k})
		}
		rs = append(rs, kvOp{Kind: "iter", B: b})
	}
	return rs
}

func kvMutations() []kvOp {
	var ms []kvOp
	for b := 0; b < 2; b++ {
		ms = append(ms, kvOp{Kind: "create", B: b})
		for k := 0; k < 2; k++ {
			for v := 0; v <= 2; v++ {
				ms = append(ms, kvOp{Kind: "put", B: b, K: k, V: v})
			}
			ms = append(ms, kvOp{Kind: "del", B: b, K: k})
		}
	}
	ms = append(ms, kvOp{Kind: "flush"}, kvOp{Kind: "cancel"})
	return ms
}

// runKV runs ops on a fresh backend and on the reference; returns the observed
// results and the index of the first disagreement (-1 if none).
func runKV(be kvBackend, ops []kvOp) (obs []kvRes, want []kvRes, bad int) {
	db, done := be.open()
	defer done()
	ref := newRef()
	bad = -1
	for i, o := range ops {
		g := kvApply(db, o)
		w := ref.apply(o)
		obs = append(obs, g)
		want = append(want, w)
		if g != w && bad < 0 {
			bad = i
		}
	}
	return
}

// interleave puts the full read suite after every mutation.
func interleave(ms []kvOp) []kvOp {
	rs := kvReads()
	var ops []kvOp
	for _, m := range ms {
		ops = append(ops, m)
		ops = append(ops, rs...)
	}
	return ops
}

func shrinkKV(be kvBackend, ops []kvOp) []kvOp {
	fails := func(o []kvOp) bool { _, _, bad := runKV(be, o); return bad >= 0 }
	// keep only up to the first failing op
	_, _, bad := runKV(be, ops)
	ops = append([]kvOp(nil), ops[:bad+1]...)
	for changed := true; changed; {
		changed = false
		for i := 0; i < len(ops); i++ {
			c := append(append([]kvOp(nil), ops[:i]...), ops[i+1:]...)
			if len(c) > 0 && fails(c) {
				_, _, b := runKV(be, c)
				ops = c[:b+1]
				changed = true
				break
			}
		}
	}
	return ops
}

func kvFailKind(be kvBackend, ops []kvOp, bad int, got, want kvRes) string {
	o := ops[bad]
	if strings.HasPrefix(string(got), "panic") {
		return "kv-panic"
	}
	unflushedDel, unflushedPut, doubleCreate := false, false, false
	created := map[int]int{}
	for _, p := range ops[:bad] {
		switch p.Kind {
		case "del":
			unflushedDel = true
		case "put":
			unflushedPut = true
		case "create":
			created[p.B]++
			if created[p.B] > 1 {
				doubleCreate = true
			}
		case "flush", "cancel":
			unflushedDel, unflushedPut, doubleCreate = false, false, false
			created = map[int]int{}
		}
	}
	switch {
	case o.Kind == "create" && got == "ok" && want == "err":
		return "kv-double-create-accepted"
	case doubleCreate:
		return "kv-double-create-drops-writes"
	case o.Kind == "get" && unflushedDel && strings.HasPrefix(string(got), "val:") && want == "none":
		return "kv-stale-get-after-delete"
	case o.Kind == "iter" && unflushedPut:
		return "kv-iter-misses-unflushed"
	}
	return "kv-" + o.Kind + "-differs"
}

func opsStrings(ops []kvOp) []string {
	s := make([]string, len(ops))
	for i, o := range ops {
		s[i] = o.String()
	}
	return s
}

func runC17(c *Ctx) {
	res := c.Res
	res.Rule = "operation sequences over 2 buckets x 2 keys x 2 non-empty values on MemDB, CacheDB(MemDB), BoltChainDB, CacheDB(Bolt); exhaustive mutation sequences (16 mutations, full read suite after each) up to the stated length plus random longer sequences with explicit reads; non-trivial := the sequence contains a flush or cancel with at least one write before it and a read after it; distinct by sequence+backend"
	bes := c17Backends(res.Dir())
	muts := kvMutations()
	var cases []string
	reported := map[string]bool{}

	nontrivial := func(ops []kvOp) bool {
		w, fc := false, false
		for _, o := range ops {
			switch o.Kind {
			case "put", "del", "create":
				w = true
			case "flush", "cancel":
				if w {
					fc = true
				}
			case "get", "iter", "has":
				if fc {
					return true
				}
			}
		}
		return false
	}

	check := func(be kvBackend, ops []kvOp, toCoq bool) {
		obs, _, bad := runKV(be, ops)
		canon := be.name + fmt.Sprint(opsStrings(ops))
		res.Eval(canon, nontrivial(ops))
		res.CountN("ops", len(ops))
		res.Count("backend:" + be.name)
		if bad >= 0 {
			small := shrinkKV(be, ops)
			o2, w2, b2 := runKV(be, small)
			kind := kvFailKind(be, small, b2, o2[b2], w2[b2])
			key := kind + "/" + be.name
			if !reported[key] || len(res.Failures) < 12 {
				reported[key] = true
				res.Fail(kind, fmt.Sprintf("%s: after %v the operation %s returned %q, the two-map specification returns %q", be.name, opsStrings(small[:b2]), small[b2], o2[b2], w2[b2]),
					map[string]any{"backend": be.name, "ops": small, "observed": o2, "expected": w2})
			} else {
				res.Count("fail:" + kind)
			}
		}
		if toCoq {
			parts := make([]string, len(ops))
			for i, o := range ops {
				parts[i] = "(" + o.coq() + ", " + obs[i].coq() + ")"
			}
			cases = append(cases, fmt.Sprintf("mk_case %d [%s]", be.id, strings.Join(parts, "; ")))
		}
	}

	if c.Replay != "" {
		var rp struct {
			Replay struct {
				Backend string `json:"backend"`
				Ops     []kvOp `json:"ops"`
			} `json:"replay"`
		}
		b, _ := os.ReadFile(c.Replay)
		json.Unmarshal(b, &rp)
		for _, be := range bes {
			if be.name == rp.Replay.Backend {
				check(be, rp.Replay.Ops, true)
			}
		}
		res.WriteCases("Run.Run_C17", cases)
		return
	}

	// corpus first
	for _, ops := range c17Corpus() {
		for _, be := range bes {
			check(be, ops, true)
		}
	}

	// exhaustive mutation sequences, up to renaming: the backends are symmetric in bucket, key and value
	// names, so only sequences that introduce buckets, keys and values in increasing order are run
	goLen, coqLen := c.Scale(5, 6), c.Scale(2, 3)
	var rec func(prefix []kvOp, depth, nb, nk, nv int)
	rec = func(prefix []kvOp, depth, nb, nk, nv int) {
		run := len(prefix) > 0
		if len(prefix) == goLen && !c.Thorough {
			// quick tier: at the last level only sequences that cross a session boundary
			// (a flush or a cancel) are run; the thorough tier runs all of them
			run = false
			for _, m := range prefix {
				if m.Kind == "flush" || m.Kind == "cancel" {
					run = true
				}
			}
		}
		if run {
			ops := interleave(prefix)
			for _, be := range bes {
				if strings.Contains(be.name, "Bolt") && len(prefix) > goLen-1 {
					continue // bolt transactions are ~50x slower; one level less
				}
				check(be, ops, len(prefix) <= coqLen)
			}
		}
		if depth == 0 {
			return
		}
		for _, m := range muts {
			if m.B > nb || m.K > nk || (m.Kind == "put" && m.V > nv+1 && m.V != 0) {
				continue
			}
			b2, k2, v2 := nb, nk, nv
			if m.Kind != "flush" && m.Kind != "cancel" && m.B == nb {
				b2 = nb + 1
			}
			if (m.Kind == "put" || m.Kind == "del") && m.K == nk {
				k2 = nk + 1
			}
			if m.Kind == "put" && m.V == nv+1 && m.V != 0 {
				v2 = nv + 1
			}
			rec(append(prefix, m), depth-1, b2, k2, v2)
		}
	}
	rec(nil, goLen, 0, 0, 0)
	res.Exhaustive = true
	res.Explored = map[string]any{"exhaustive_up_to_renaming_of_buckets_keys_values": true, "exhaustive_last_level_only_with_flush_or_cancel_in_quick": !c.Thorough, "exhaustive_len_go": goLen, "exhaustive_len_go_bolt": goLen - 1, "exhaustive_len_coq": coqLen, "alphabet": len(muts)}

	// random longer sequences with explicit reads
	all := append(append([]kvOp(nil), muts...), kvReads()...)
	nrand := c.Scale(400, 6000)
	for i := 0; i < nrand; i++ {
		r := c.R.Fork()
		n := 5 + r.Intn(30)
		ops := make([]kvOp, n)
		for j := range ops {
			ops[j] = all[r.Intn(len(all))]
		}
		// mostly-valid stream: 80% of the sequences create their buckets first
		if r.Chance(4, 5) {
			ops[0] = kvOp{Kind: "create", B: 0}
			if r.Bool() {
				ops[1] = kvOp{Kind: "create", B: 1}
			}
		}
		for _, be := range bes {
			check(be, ops, true)
		}
		if i < 2 {
			res.Sample(map[string]any{"ops": opsStrings(ops)})
		}
	}
	chainReplayC17(c)
	res.WriteCases("Run.Run_C17", cases)
	_ = bytes.Equal
	_ = rng.New
	_ = out.N
}

// c17Corpus holds minimised earlier failures; they run first.
func c17Corpus() [][]kvOp {
	p := func(b, k, v int) kvOp { return kvOp{Kind: "put", B: b, K: k, V: v} }
	cr := func(b int) kvOp { return kvOp{Kind: "create", B: b} }
	fl := kvOp{Kind: "flush"}
	return [][]kvOp{
		// stale get after an unflushed delete (CacheDB)
		{cr(0), p(0, 0, 1), fl, {Kind: "del", B: 0, K: 0}, {Kind: "get", B: 0, K: 0}},
		// iteration must see unflushed puts
		{cr(0), fl, p(0, 0, 1), {Kind: "iter", B: 0}},
		{cr(0), p(0, 0, 1), {Kind: "iter", B: 0}},
		// second create before a flush must not drop pending writes
		{cr(0), p(0, 0, 1), cr(0), {Kind: "get", B: 0, K: 0}, fl, {Kind: "get", B: 0, K: 0}},
		// cancel discards exactly the pending window
		{cr(0), p(0, 0, 1), fl, p(0, 0, 2), p(0, 1, 1), {Kind: "cancel"}, {Kind: "get", B: 0, K: 0}, {Kind: "get", B: 0, K: 1}, {Kind: "iter", B: 0}},
		{cr(0), {Kind: "cancel"}, {Kind: "has", B: 0}, cr(0), {Kind: "has", B: 0}},
	}
}
