package main

// chainReplayC17 is filled in once the chain generator exists: chain histories
// replayed over every backend with bucket dumps compared.
func chainReplayC17(c *Ctx) {}
