package main

import (
	"bytes"
	"fmt"
	"sort"

	"go.sia.tech/coreutils/chain"
	"verif/harness/internal/chaingen"
	"verif/harness/internal/mgrsim"
	"verif/harness/internal/rng"
)

var c17ChainBuckets = []string{"Version", "Network", "MainChain", "States", "Blocks", "FileContractElements", "SiacoinElements", "SiafundElements", "Tree"}

// dumpDB renders every bucket of the chain store through the chain.DB interface, sorted.
func dumpDB(db chain.DB) string {
	var sb bytes.Buffer
	for _, name := range c17ChainBuckets {
		b := db.Bucket([]byte(name))
		if b == nil {
			fmt.Fprintf(&sb, "%s: <missing>\n", name)
			continue
		}
		var kvs []string
		for k, v := range b.Iter() {
			kvs = append(kvs, fmt.Sprintf("%x=%x", k, v))
		}
		sort.Strings(kvs)
		fmt.Fprintf(&sb, "%s: %d entries\n", name, len(kvs))
		for _, kv := range kvs {
			sb.WriteString(kv)
			sb.WriteByte('\n')
		}
	}
	return sb.String()
}

// chainReplayC17 replays chain histories (fork trees, reorgs, prunes) over every
// backend: "consequently the chain store behaves the same whichever backend it is given".
// Observations after every call and the complete bucket dumps must be identical.
func chainReplayC17(c *Ctx) {
	res := c.Res
	bes := c17Backends(res.Dir() + "/chain")
	n := c.Scale(12, 200)
	for i := 0; i < n; i++ {
		r := c.R.Fork()
		cs := mgrsim.Case{Seed: r.U64(), Regime: i % 6, Opts: chaingen.GenOpts{Blocks: 6 + r.Intn(14), Branchiness: 2 + r.Intn(4), TxPerBlock: 1 + r.Intn(3), Corruptions: r.Intn(3)}}
		t := cs.Tree()
		plan := mgrsim.GenPlan(rng.New(cs.Seed^0x2545f491), t, i%2 == 0)
		var ref []mgrsim.Obs
		var refDump, refName string
		for _, be := range bes {
			sess := be.open()
			db, done := sess.db, sess.done
			s := mgrsim.NewSim(t, db)
			var obs []mgrsim.Obs
			for _, op := range plan {
				obs = append(obs, s.Do(op))
			}
			s.Store.Flush()
			dump := dumpDB(db)
			done()
			res.Count("chain-replay:" + be.name)
			if ref == nil {
				ref, refDump, refName = obs, dump, be.name
				continue
			}
			for j := range obs {
				a, b := ref[j], obs[j]
				if a.Err != b.Err || a.Panic != b.Panic || fmt.Sprint(a.Best) != fmt.Sprint(b.Best) || fmt.Sprint(a.Known) != fmt.Sprint(b.Known) || !bytes.Equal(a.TipState, b.TipState) {
					res.Fail("kv-chain-store-differs-between-backends", fmt.Sprintf("chain history over %s and %s: after call %d (%v) the manager's observable state differs", refName, be.name, j, plan[j]),
						map[string]any{"case": cs, "plan": plan, "backend_a": refName, "backend_b": be.name, "call": j})
					break
				}
			}
			if dump != refDump {
				res.Fail("kv-chain-store-dump-differs-between-backends", fmt.Sprintf("chain history over %s and %s: the stored buckets differ after the same %d calls", refName, be.name, len(plan)),
					map[string]any{"case": cs, "plan": plan, "backend_a": refName, "backend_b": be.name})
			}
		}
		res.Eval(fmt.Sprintf("chain-replay %d %d", cs.Seed, cs.Regime), true)
	}
}
