package main

// Chain-store sized data and out-of-contract arguments (seeded/LESSONS.md class 4).
//
// Judged (kind kv-chain-sized-data-differs): what the chain store really stores - keys of 1, 4, 8
// and 32 bytes with arbitrary bytes, values from empty to block-sized, hundreds of keys in a
// bucket (several Bolt pages) - through the whole life cycle: unflushed reads and iteration,
// flush, overwrite with other sizes / delete half, cut-short iteration, cancel, flush, close and
// reopen, delete-while-iterating over the flushed keys. Every backend is compared with a Go map.
//
// Observed, never judged (counters observed:*): arguments the chain store never passes and for
// which the backends are known to differ or the DB interface promises nothing - an empty key, a
// nil value, an empty bucket name, a key longer than Bolt allows, deleting while iterating over
// keys that were not flushed yet. The outcome is recorded by its structure (accepted / error /
// panic / what reads back), never by an error text.

import (
	"bytes"
	"fmt"
	"sort"

	"go.sia.tech/coreutils/chain"
	"verif/harness/internal/rng"
)

type rawRef map[string][]byte

func cloneRaw(m rawRef) rawRef {
	c := rawRef{}
	for k, v := range m {
		c[k] = v
	}
	return c
}

// compareRaw checks Get of every key that ever existed and the iteration against the reference.
func compareRaw(db chain.DB, bucket []byte, ref rawRef, universe [][]byte) string {
	b := db.Bucket(bucket)
	if b == nil {
		return "the bucket is missing"
	}
	for _, k := range universe {
		got, want := b.Get(k), ref[string(k)]
		if _, ok := ref[string(k)]; !ok {
			if got != nil {
				return fmt.Sprintf("Get(%x) returns %d bytes for a key that is not there", k, len(got))
			}
		} else if got == nil || !bytes.Equal(got, want) {
			return fmt.Sprintf("Get(%x) returns %d bytes (nil: %v), %d bytes were stored", k, len(got), got == nil, len(want))
		}
	}
	seen := map[string]bool{}
	for k, v := range b.Iter() {
		want, ok := ref[string(k)]
		switch {
		case !ok:
			return fmt.Sprintf("iteration yields key %x, which is not there", k)
		case seen[string(k)]:
			return fmt.Sprintf("iteration yields key %x twice", k)
		case !bytes.Equal(v, want):
			return fmt.Sprintf("iteration yields %d bytes for key %x, %d bytes were stored", len(v), k, len(want))
		}
		seen[string(k)] = true
	}
	if len(seen) != len(ref) {
		return fmt.Sprintf("iteration yields %d keys, %d are there", len(seen), len(ref))
	}
	return ""
}

func extremesC17(c *Ctx) {
	res := c.Res
	r := c.R.Fork()
	bucket := []byte("SiacoinElements")
	// the key shapes of the chain store: version byte, tree keys, heights, ids
	var keys [][]byte
	seenKey := map[string]bool{}
	add := func(k []byte) {
		if !seenKey[string(k)] {
			seenKey[string(k)] = true
			keys = append(keys, k)
		}
	}
	for _, n := range []int{1, 4, 8, 32} {
		add(bytes.Repeat([]byte{0}, n))
		add(bytes.Repeat([]byte{0xff}, n))
		for i := 0; i < c.Scale(150, 2000) && (n > 1 || i < 50); i++ {
			k := make([]byte, n)
			r.Bytes(k)
			add(k)
		}
	}
	val := func(i int, gen int) []byte {
		sizes := []int{0, 1, 40, 100, 700, 5000}
		n := sizes[(i+gen)%len(sizes)]
		if i%97 == 3 {
			n = 150000 // a block
		}
		v := make([]byte, n)
		rng.New(uint64(i*7 + gen)).Bytes(v)
		return v
	}
	for _, be := range c17Backends(res.Dir() + "/extreme") {
		func() {
			s := be.open()
			defer func() { s.done() }()
			step := ""
			fail := func(what string) {
				res.Fail("kv-chain-sized-data-differs", fmt.Sprintf("%s with %d keys of 1/4/8/32 bytes and values up to 150000 bytes, %s: %s", be.name, len(keys), step, what),
					map[string]any{"scenario": "chain-sized", "backend": be.name, "step": step, "seed": c.Seed})
			}
			defer func() {
				if p := recover(); p != nil {
					fail(fmt.Sprintf("panic: %v", p))
				}
			}()
			ref, com := rawRef{}, rawRef{}
			check := func(st string) bool {
				step = st
				res.Count("extreme:judged-comparisons")
				if d := compareRaw(s.db, bucket, ref, keys); d != "" {
					fail(d)
					return false
				}
				return true
			}
			if _, err := s.db.CreateBucket(bucket); err != nil {
				step = "CreateBucket"
				fail("error")
				return
			}
			for i, k := range keys {
				v := val(i, 0)
				s.db.Bucket(bucket).Put(k, v)
				ref[string(k)] = v
			}
			if !check("after the puts, before any flush") {
				return
			}
			s.db.Flush()
			com = cloneRaw(ref)
			if !check("after the first flush") {
				return
			}
			change := func() {
				for i, k := range keys {
					switch i % 3 {
					case 0:
						s.db.Bucket(bucket).Delete(k)
						delete(ref, string(k))
					case 1:
						v := val(i, 1)
						s.db.Bucket(bucket).Put(k, v)
						ref[string(k)] = v
					}
				}
			}
			change()
			if !check("after deleting a third and overwriting a third with other sizes, unflushed") {
				return
			}
			for _, cut := range []int{0, 1, len(ref) / 2} { // iteration cut short, then everything again
				n := 0
				for range s.db.Bucket(bucket).Iter() {
					if n == cut {
						break
					}
					n++
				}
				res.Count("extreme:cut-short-iterations")
			}
			if !check("after cut-short iterations") {
				return
			}
			s.db.Cancel()
			ref = cloneRaw(com)
			if !check("after cancel") {
				return
			}
			change()
			s.db.Flush()
			com = cloneRaw(ref)
			if !check("after the second flush") {
				return
			}
			if s.reopen != nil {
				s.reopen()
				if !check("after closing and reopening the file") {
					return
				}
			}
			// chain/migrate.go: for id := range bucket.Iter() { bucket.delete(id) } over flushed keys
			visited := 0
			for k := range s.db.Bucket(bucket).Iter() {
				visited++
				s.db.Bucket(bucket).Delete(append([]byte(nil), k...))
			}
			step = "deleting every key while iterating over the flushed bucket"
			if visited != len(ref) {
				fail(fmt.Sprintf("the loop visited %d of %d keys", visited, len(ref)))
				return
			}
			ref = rawRef{}
			if !check("after deleting every key while iterating, unflushed") {
				return
			}
			s.db.Flush()
			if !check("after flushing the deletions") {
				return
			}
			res.Count("extreme:chain-sized-scenarios")
			res.CountN("extreme:keys", len(keys))
		}()
	}
	observeIllegalC17(c)
}

// observeIllegalC17 records, per backend, what out-of-contract arguments do. Not judged.
func observeIllegalC17(c *Ctx) {
	res := c.Res
	probe := func(be kvBackend, what string, f func(db chain.DB) string) {
		s := be.open()
		defer func() { s.done() }()
		outcome := "panic"
		func() {
			defer func() { recover() }()
			outcome = f(s.db)
		}()
		res.Count(fmt.Sprintf("observed:%s:%s:%s", what, be.name, outcome))
	}
	errOr := func(err error, ok string) string {
		if err != nil {
			return "error"
		}
		return ok
	}
	names := []string{}
	for _, be := range c17Backends(res.Dir() + "/illegal") {
		names = append(names, be.name)
		probe(be, "empty-key-put", func(db chain.DB) string {
			db.CreateBucket([]byte("B"))
			return errOr(db.Bucket([]byte("B")).Put([]byte{}, []byte("v")), "accepted")
		})
		probe(be, "nil-value-put", func(db chain.DB) string {
			db.CreateBucket([]byte("B"))
			if err := db.Bucket([]byte("B")).Put([]byte("k"), nil); err != nil {
				return "error"
			}
			if v := db.Bucket([]byte("B")).Get([]byte("k")); v == nil {
				return "reads-back-as-absent"
			}
			return "reads-back-as-empty"
		})
		probe(be, "empty-bucket-name", func(db chain.DB) string {
			_, err := db.CreateBucket([]byte{})
			return errOr(err, "accepted")
		})
		probe(be, "key-of-40000-bytes", func(db chain.DB) string {
			db.CreateBucket([]byte("B"))
			return errOr(db.Bucket([]byte("B")).Put(bytes.Repeat([]byte{7}, 40000), []byte("v")), "accepted")
		})
		probe(be, "delete-while-iterating-over-unflushed-keys", func(db chain.DB) string {
			db.CreateBucket([]byte("B"))
			for i := 0; i < 10; i++ {
				db.Bucket([]byte("B")).Put([]byte{byte(i)}, []byte("v"))
			}
			n := 0
			for k := range db.Bucket([]byte("B")).Iter() {
				n++
				db.Bucket([]byte("B")).Delete(append([]byte(nil), k...))
			}
			left := 0
			for range db.Bucket([]byte("B")).Iter() {
				left++
			}
			if n == 10 && left == 0 {
				return "all-visited"
			}
			return fmt.Sprintf("visited-%d-of-10-left-%d", n, left)
		})
	}
	sort.Strings(names)
	res.Count("extreme:out-of-contract-probes")
}
