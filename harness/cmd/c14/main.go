// Command c14 checks C14 (pool submission and lookup honour their documented
// contracts) on the real chain.Manager: pool states reached in histories of
// block submissions and pool submissions, every kind of submitted set, lookups
// with ids of both kinds and unknown ids, and the aliasing promises.
package main

import (
	"bytes"
	"encoding/json"
	"fmt"
	"go/ast"
	"go/parser"
	"go/printer"
	"go/token"
	"os"
	"path/filepath"
	"sort"
	"strings"

	"go.sia.tech/core/types"
	"verif/harness/internal/chaingen"
	"verif/harness/internal/hx"
	"verif/harness/internal/mgrsim"
	"verif/harness/internal/poolsim"
	"verif/harness/internal/rng"
)

func main() { hx.Main("C14", run) }

type failure struct{ kind, detail string }

// snapshot of caller-owned memory: the full encoding plus the backing arrays of every Merkle proof
func snapV2(ts []types.V2Transaction) [][]byte {
	var out [][]byte
	for _, t := range ts {
		out = append(out, poolsim.EncV2(t))
		each := func(se *types.StateElement) {
			p := se.MerkleProof[:cap(se.MerkleProof)]
			var b []byte
			for _, h := range p {
				b = append(b, h[:]...)
			}
			out = append(out, b)
		}
		for i := range t.SiacoinInputs {
			each(&t.SiacoinInputs[i].Parent.StateElement)
		}
		for i := range t.SiafundInputs {
			each(&t.SiafundInputs[i].Parent.StateElement)
		}
		for i := range t.FileContractRevisions {
			each(&t.FileContractRevisions[i].Parent.StateElement)
		}
		for i := range t.FileContractResolutions {
			each(&t.FileContractResolutions[i].Parent.StateElement)
			if sp, ok := t.FileContractResolutions[i].Resolution.(*types.V2StorageProof); ok {
				each(&sp.ProofIndex.StateElement)
			}
		}
	}
	return out
}

func sameSnap(a, b [][]byte) bool {
	if len(a) != len(b) {
		return false
	}
	for i := range a {
		if !bytes.Equal(a[i], b[i]) {
			return false
		}
	}
	return true
}

// scribble mutates everything reachable from a returned v2 transaction
func scribble(t *types.V2Transaction) {
	each := func(se *types.StateElement) {
		for i := range se.MerkleProof {
			se.MerkleProof[i][0] ^= 0xFF
		}
		se.LeafIndex++
	}
	for i := range t.SiacoinInputs {
		each(&t.SiacoinInputs[i].Parent.StateElement)
		for j := range t.SiacoinInputs[i].SatisfiedPolicy.Signatures {
			t.SiacoinInputs[i].SatisfiedPolicy.Signatures[j][0] ^= 0xFF
		}
	}
	for i := range t.SiafundInputs {
		each(&t.SiafundInputs[i].Parent.StateElement)
	}
	for i := range t.FileContractRevisions {
		each(&t.FileContractRevisions[i].Parent.StateElement)
		t.FileContractRevisions[i].Revision.RevisionNumber++
	}
	for i := range t.FileContractResolutions {
		each(&t.FileContractResolutions[i].Parent.StateElement)
		switch r := t.FileContractResolutions[i].Resolution.(type) {
		case *types.V2StorageProof:
			each(&r.ProofIndex.StateElement)
			r.Leaf[0] ^= 0xFF
		case *types.V2FileContractRenewal:
			r.NewContract.Filesize++
		}
	}
	for i := range t.SiacoinOutputs {
		t.SiacoinOutputs[i].Value = t.SiacoinOutputs[i].Value.Add(types.NewCurrency64(1))
	}
	for i := range t.ArbitraryData {
		t.ArbitraryData[i] ^= 0xFF
	}
}

// mutateCaller writes one byte (or one field) into every kind of memory reachable from a
// transaction the caller owns; returns the number of places written.
func mutateCaller(t *types.V2Transaction) (n int) {
	proof := func(se *types.StateElement) {
		if len(se.MerkleProof) > 0 {
			se.MerkleProof[0][0] ^= 0xFF
			n++
		}
	}
	for i := range t.SiacoinInputs {
		proof(&t.SiacoinInputs[i].Parent.StateElement)
		sp := &t.SiacoinInputs[i].SatisfiedPolicy
		if len(sp.Signatures) > 0 {
			sp.Signatures[0][0] ^= 0xFF
			n++
		}
		if len(sp.Preimages) > 0 {
			sp.Preimages[0][0] ^= 0xFF
			n++
		}
	}
	for i := range t.SiafundInputs {
		proof(&t.SiafundInputs[i].Parent.StateElement)
		sp := &t.SiafundInputs[i].SatisfiedPolicy
		if len(sp.Signatures) > 0 {
			sp.Signatures[0][0] ^= 0xFF
			n++
		}
	}
	if len(t.SiacoinOutputs) > 0 {
		t.SiacoinOutputs[0].Address[0] ^= 0xFF
		n++
	}
	if len(t.SiafundOutputs) > 0 {
		t.SiafundOutputs[0].Address[0] ^= 0xFF
		n++
	}
	if len(t.FileContracts) > 0 {
		t.FileContracts[0].Filesize++
		n++
	}
	for i := range t.FileContractRevisions {
		proof(&t.FileContractRevisions[i].Parent.StateElement)
	}
	for i := range t.FileContractResolutions {
		proof(&t.FileContractResolutions[i].Parent.StateElement)
		switch r := t.FileContractResolutions[i].Resolution.(type) {
		case *types.V2FileContractRenewal:
			r.NewContract.Filesize++
			n++
		case *types.V2StorageProof:
			proof(&r.ProofIndex.StateElement)
			r.Leaf[0] ^= 0xFF
			n++
		}
	}
	if len(t.Attestations) > 0 {
		t.Attestations[0].Signature[0] ^= 0xFF
		n++
	}
	if len(t.ArbitraryData) > 0 {
		t.ArbitraryData[0] ^= 0xFF
		n++
	}
	return
}

type held struct {
	txs  []types.V2Transaction
	snap [][]byte
	what string
}

type stats map[string]int

// runCase executes one history with the C14 monitors; returns the Coq case (or ""), the first failure and counts.
func runCase(cs poolsim.Case) (coqOut string, failOut *failure, stOut stats, rOut *poolsim.Runner) {
	var t *chaingen.Tree
	var w *poolsim.World
	var fail *failure
	defer func() {
		// a pool (or a mined block sharing its memory) corrupted through a returned value makes the
		// generator's own invariants fail: that is a failure of the property, with this history as replay
		if p := recover(); p != nil {
			coqOut, failOut = "", &failure{"c14-state-corrupted", fmt.Sprint("the history broke an invariant of the harness (memory shared with the pool was modified?): ", p)}
			if fail != nil {
				failOut = fail // the monitor that fired first names the violation
			}
			if stOut == nil {
				stOut = stats{}
			}
		}
	}()
	t = cs.Tree()
	w = poolsim.NewWorld(t)
	report := func(kind, detail string) {
		if fail == nil {
			fail = &failure{kind, detail}
		}
	}
	r := poolsim.NewRunner(w, report)
	st := stats{}
	var helds []held
	ids := func(ts []types.Transaction) (out []types.TransactionID) {
		for _, x := range ts {
			out = append(out, x.ID())
		}
		return
	}
	ids2 := func(ts []types.V2Transaction) (out []types.TransactionID) {
		for _, x := range ts {
			out = append(out, x.ID())
		}
		return
	}
	var rejected []types.TransactionID // ids of transactions that are not in the pool
	// the pool as last read (the reference for "first pool operation after a tip change")
	var prev1 []types.Transaction
	var prev2 []types.V2Transaction
	prevTip := w.Info(r.Tip).Index
	nsub := 0
	// a third of the histories read the pool from inside the reorg / pool-change notifications
	if cs.Seed%3 == 0 {
		r.Listen()
		st["histories-with-listener-reads"]++
	}
	// firstOp: after a tip change during which no pool method was called, one read API is the first
	// pool operation; its answer must agree with the listing read right after it
	firstOp := func(g *rng.R, api string) {
		switch api {
		case "v2-list", "txset", "mine":
			// (judged by the lists read right after, see poolsim.FirstRead)
			bad := r.FirstRead(api, prev1, prev2, prevTip)
			r.Quiet = false
			st["first-op:"+api]++
			if bad != "" {
				report("c14-first-read-differs", bad)
			}
			return
		}
		cand1, cand2 := prev1, prev2
		if lr := r.LastReverted(); lr != nil {
			// transactions of the last reverted block may have re-entered the pool
			cand1 = append(append([]types.Transaction(nil), cand1...), lr.Block.Transactions...)
			cand2 = append(append([]types.V2Transaction(nil), cand2...), lr.Block.V2Transactions()...)
		}
		type ans struct {
			id    types.TransactionID
			v2    bool
			found bool
			same  bool
		}
		var answers []ans
		var got1 []types.Transaction
		var got2 []types.V2Transaction
		var want []types.Hash256
		switch api {
		case "lookup":
			for _, x := range cand1 {
				t, ok, pan := r.Lookup1(x.ID())
				if pan {
					report("c14-lookup-panic", "PoolTransaction panicked as the first pool operation after a tip change")
					return
				}
				answers = append(answers, ans{x.ID(), false, ok, ok && t.ID() == x.ID()})
			}
			for _, x := range cand2 {
				t, ok, pan := r.Lookup2(x.ID())
				if pan {
					report("c14-lookup-panic", "V2PoolTransaction panicked as the first pool operation after a tip change")
					return
				}
				answers = append(answers, ans{x.ID(), true, ok, ok && t.ID() == x.ID()})
			}
		case "partial-block":
			for _, x := range cand1 {
				want = append(want, x.MerkleLeafHash())
			}
			for _, x := range cand2 {
				want = append(want, x.MerkleLeafHash())
			}
			if len(want) == 0 {
				return
			}
			func() {
				defer func() {
					if p := recover(); p != nil {
						report("c14-read-panic", fmt.Sprint("TransactionsForPartialBlock panicked as the first pool operation after a tip change: ", p))
					}
				}()
				got1, got2 = r.CM.TransactionsForPartialBlock(want)
			}()
		case "parents":
			func() {
				defer func() {
					if p := recover(); p != nil {
						report("c14-read-panic", fmt.Sprint("UnconfirmedParents / V2TransactionSet panicked as the first pool operation after a tip change: ", p))
					}
				}()
				if len(cand1) > 0 {
					got1 = r.CM.UnconfirmedParents(cand1[len(cand1)-1])
				} else if len(cand2) > 0 {
					if _, set, err := r.CM.V2TransactionSet(r.CM.Tip(), cand2[len(cand2)-1].DeepCopy()); err == nil && len(set) > 0 {
						got2 = set[:len(set)-1]
					}
				}
			}()
		}
		r.Quiet = false
		if fail != nil {
			return
		}
		// the listing, read right after
		v1, v2 := r.Pool()
		in1, in2 := map[types.TransactionID]bool{}, map[types.TransactionID]bool{}
		for _, x := range v1 {
			in1[x.ID()] = true
		}
		for _, x := range v2 {
			in2[x.ID()] = true
		}
		st["first-op:"+api]++
		for _, a := range answers {
			listed := in1[a.id]
			if a.v2 {
				listed = in2[a.id]
			}
			switch {
			case a.found && !listed:
				report("c14-lookup-phantom", fmt.Sprintf("as the first pool operation after a tip change the lookup (v2=%v) finds a transaction that the listing read right after does not contain (confirmed or invalidated by the new blocks)", a.v2))
			case !a.found && listed:
				report("c14-lookup-missed", fmt.Sprintf("as the first pool operation after a tip change the lookup (v2=%v) reports absence of a transaction that the listing read right after contains (re-added after the reorg)", a.v2))
			case a.found && !a.same:
				report("c14-lookup-wrong-transaction", "the lookup returned a different transaction")
			}
		}
		if api == "partial-block" {
			// (the leaf hash of a v2 transaction covers its proofs: a requested hash is only expected back
			// if the copy the pool lists now still has it)
			now := map[types.Hash256]bool{}
			for _, x := range v1 {
				now[x.MerkleLeafHash()] = true
			}
			for _, x := range v2 {
				now[x.MerkleLeafHash()] = true
			}
			n := 0
			asked := map[types.Hash256]bool{}
			for _, h := range want {
				if now[h] && !asked[h] {
					n++
				}
				asked[h] = true
			}
			ok := len(got1)+len(got2) == n
			for _, x := range got1 {
				ok = ok && in1[x.ID()] && asked[x.MerkleLeafHash()]
			}
			for _, x := range got2 {
				ok = ok && in2[x.ID()] && asked[x.MerkleLeafHash()]
			}
			if !ok {
				report("c14-partial-block-wrong-transactions", fmt.Sprintf("as the first pool operation after a tip change TransactionsForPartialBlock returned %d+%d transactions; %d of the requested hashes belong to transactions of the listing read right after", len(got1), len(got2), n))
			}
		}
		if api == "parents" {
			for _, x := range got1 {
				if !in1[x.ID()] {
					report("c14-parents-not-pooled", "as the first pool operation after a tip change UnconfirmedParents returned a transaction that the listing read right after does not contain")
				}
			}
			for _, x := range got2 {
				if !in2[x.ID()] {
					report("c14-parents-not-pooled", "as the first pool operation after a tip change V2TransactionSet returned a parent that the listing read right after does not contain")
				}
			}
		}
	}
	lookups := func(g *rng.R) {
		v1, v2 := r.Pool()
		prev1, prev2, prevTip = v1, v2, w.Info(r.Tip).Index
		in1, in2 := map[types.TransactionID]bool{}, map[types.TransactionID]bool{}
		for _, x := range v1 {
			in1[x.ID()] = true
		}
		for _, x := range v2 {
			in2[x.ID()] = true
		}
		var cand []types.TransactionID
		cand = append(cand, ids(v1)...)
		cand = append(cand, ids2(v2)...)
		var unk types.TransactionID
		g.Bytes(unk[:])
		cand = append(cand, unk)
		if len(rejected) > 0 {
			cand = append(cand, rejected[g.Intn(len(rejected))])
		}
		// ids that are no transaction ids at all: the zero id, the tip's block id, an output id of a pooled transaction
		special := []types.TransactionID{{}, types.TransactionID(r.CM.Tip().ID)}
		if len(v2) > 0 && len(v2[0].SiacoinOutputs) > 0 {
			special = append(special, types.TransactionID(v2[0].SiacoinOutputID(v2[0].ID(), 0)))
		} else if len(v1) > 0 && len(v1[0].SiacoinOutputs) > 0 {
			special = append(special, types.TransactionID(v1[0].SiacoinOutputID(0)))
		}
		sp := special[g.Intn(len(special))]
		st["lookup:special-id"]++
		// up to 5 ids per step, always some of each kind when available
		for len(cand) > 5 {
			i := g.Intn(len(cand))
			cand = append(cand[:i], cand[i+1:]...)
		}
		cand = append(cand, sp)
		for _, id := range cand {
			kind := "unknown"
			if in1[id] {
				kind = "v1"
			} else if in2[id] {
				kind = "v2"
			}
			tx, ok, pan := r.Lookup1(id)
			st["lookup1:"+kind]++
			switch {
			case pan:
				report("c14-lookup-panic", fmt.Sprintf("PoolTransaction(<%s id>) panicked (pool: %d v1, %d v2)", kind, len(v1), len(v2)))
			case ok && tx.ID() != id:
				report("c14-lookup-wrong-transaction", fmt.Sprintf("PoolTransaction(<%s id>) returned a different transaction", kind))
			case ok && !in1[id]:
				report("c14-lookup-phantom", fmt.Sprintf("PoolTransaction(<%s id>) found a transaction that PoolTransactions does not list", kind))
			case !ok && in1[id]:
				report("c14-lookup-missed", "PoolTransaction(<v1 id>) reports absence of a listed transaction")
			}
			tx2, ok, pan := r.Lookup2(id)
			st["lookup2:"+kind]++
			switch {
			case pan:
				report("c14-lookup-panic", fmt.Sprintf("V2PoolTransaction(<%s id>) panicked (pool: %d v1, %d v2)", kind, len(v1), len(v2)))
			case ok && tx2.ID() != id:
				report("c14-lookup-wrong-transaction", fmt.Sprintf("V2PoolTransaction(<%s id>) returned a different transaction", kind))
			case ok && !in2[id]:
				report("c14-lookup-phantom", fmt.Sprintf("V2PoolTransaction(<%s id>) found a transaction that V2PoolTransactions does not list", kind))
			case !ok && in2[id]:
				report("c14-lookup-missed", "V2PoolTransaction(<v2 id>) reports absence of a listed transaction")
			}
			if ok && g.Chance(1, 2) {
				// returned value is independent of the pool
				before := poolsim.EncV2(tx2)
				scribble(&tx2)
				again, ok2, _ := r.Lookup2(id)
				st["returned-value-mutations"]++
				if !ok2 || !bytes.Equal(poolsim.EncV2(again), before) {
					report("c14-returned-value-aliases-pool", "mutating the transaction returned by V2PoolTransaction changed what the pool returns next")
				}
			}
		}
	}
	aliasing := func() {
		// mutate and reorder every returned list, then ask again
		v1 := r.CM.PoolTransactions()
		v2 := r.CM.V2PoolTransactions()
		var e1, e2 [][]byte
		for _, x := range v1 {
			e1 = append(e1, poolsim.EncV1(x))
		}
		for _, x := range v2 {
			e2 = append(e2, poolsim.EncV2(x))
		}
		for i, j := 0, len(v1)-1; i < j; i, j = i+1, j-1 {
			v1[i], v1[j] = v1[j], v1[i]
		}
		for i := range v2 {
			scribble(&v2[i])
		}
		for i, j := 0, len(v2)-1; i < j; i, j = i+1, j-1 {
			v2[i], v2[j] = v2[j], v2[i]
		}
		a1 := r.CM.PoolTransactions()
		a2 := r.CM.V2PoolTransactions()
		st["list-mutations"]++
		same := len(a1) == len(e1) && len(a2) == len(e2)
		for i := 0; same && i < len(a1); i++ {
			same = bytes.Equal(poolsim.EncV1(a1[i]), e1[i])
		}
		for i := 0; same && i < len(a2); i++ {
			same = bytes.Equal(poolsim.EncV2(a2[i]), e2[i])
		}
		if !same {
			report("c14-returned-value-aliases-pool", "reordering the returned lists / mutating returned v2 transactions changed what the pool returns next")
		}
		if fail != nil {
			return
		}
		requery := func(api string) {
			b1 := r.CM.PoolTransactions()
			b2 := r.CM.V2PoolTransactions()
			ok := len(b1) == len(e1) && len(b2) == len(e2)
			for i := 0; ok && i < len(b1); i++ {
				ok = bytes.Equal(poolsim.EncV1(b1[i]), e1[i])
			}
			for i := 0; ok && i < len(b2); i++ {
				ok = bytes.Equal(poolsim.EncV2(b2[i]), e2[i])
			}
			if !ok {
				report("c14-returned-value-aliases-pool", "mutating / reordering what "+api+" returned changed what the pool returns next")
			}
		}
		// TransactionsForPartialBlock: every pooled transaction by its Merkle leaf hash
		var want []types.Hash256
		for _, x := range a1 {
			want = append(want, x.MerkleLeafHash())
		}
		for _, x := range a2 {
			want = append(want, x.MerkleLeafHash())
		}
		if len(want) > 0 {
			g1, g2 := r.CM.TransactionsForPartialBlock(want)
			st["partial-block-queries"]++
			if len(g1) != len(a1) || len(g2) != len(a2) {
				report("c14-partial-block-wrong-transactions", fmt.Sprintf("TransactionsForPartialBlock(<hashes of all %d+%d pooled transactions>) returned %d+%d", len(a1), len(a2), len(g1), len(g2)))
				return
			}
			for i := range g2 {
				scribble(&g2[i])
			}
			for i, j := 0, len(g1)-1; i < j; i, j = i+1, j-1 {
				g1[i], g1[j] = g1[j], g1[i]
			}
			for i, j := 0, len(g2)-1; i < j; i, j = i+1, j-1 {
				g2[i], g2[j] = g2[j], g2[i]
			}
			requery("TransactionsForPartialBlock")
		}
		// extreme requests: nothing, nil, every hash three times among thousands of unknown ones
		if fail == nil {
			func() {
				defer func() {
					if p := recover(); p != nil {
						report("c14-read-panic", fmt.Sprint("TransactionsForPartialBlock panicked on an empty / duplicated / huge request: ", p))
					}
				}()
				for _, req := range [][]types.Hash256{nil, {}} {
					g1, g2 := r.CM.TransactionsForPartialBlock(req)
					st["partial-block-extreme:empty"]++
					if len(g1)+len(g2) != 0 {
						// whatever an empty request returns, it must not be the pool's own memory
						for i := range g2 {
							scribble(&g2[i])
						}
						for i, j := 0, len(g1)-1; i < j; i, j = i+1, j-1 {
							g1[i], g1[j] = g1[j], g1[i]
						}
						for i, j := 0, len(g2)-1; i < j; i, j = i+1, j-1 {
							g2[i], g2[j] = g2[j], g2[i]
						}
						requery("TransactionsForPartialBlock(<empty request>)")
						if fail == nil {
							report("c14-partial-block-wrong-transactions", fmt.Sprintf("TransactionsForPartialBlock(<no hashes>) returned %d+%d transactions", len(g1), len(g2)))
						}
						return
					}
				}
				var big []types.Hash256
				for k := 0; k < 3; k++ {
					big = append(big, want...)
					for j := 0; j < 2000; j++ {
						var h types.Hash256
						h[0], h[1], h[2], h[31] = byte(j), byte(j>>8), byte(k), 0xee
						big = append(big, h)
					}
				}
				g1, g2 := r.CM.TransactionsForPartialBlock(big)
				st["partial-block-extreme:duplicates-among-unknown"]++
				if len(g1) != len(a1) || len(g2) != len(a2) {
					report("c14-partial-block-wrong-transactions", fmt.Sprintf("TransactionsForPartialBlock(<every pooled hash three times among 6000 unknown ones>) returned %d+%d transactions, the pool holds %d+%d", len(g1), len(g2), len(a1), len(a2)))
				}
			}()
		}
		// reads for transactions the pool has never seen: no inputs at all, a zero basis
		if fail == nil {
			func() {
				defer func() {
					if p := recover(); p != nil {
						report("c14-read-panic", fmt.Sprint("UnconfirmedParents / V2TransactionSet panicked on an empty transaction or a zero basis: ", p))
					}
				}()
				if ps := r.CM.UnconfirmedParents(types.Transaction{}); len(ps) != 0 {
					report("c14-parents-not-pooled", "UnconfirmedParents(<empty transaction>) returned parents")
				}
				if _, set, err := r.CM.V2TransactionSet(r.CM.Tip(), types.V2Transaction{}); err == nil && len(set) != 1 {
					report("c14-parents-not-pooled", "V2TransactionSet(<empty transaction>) returned parents")
				}
				r.CM.V2TransactionSet(types.ChainIndex{}, types.V2Transaction{})
				var unk types.BlockID
				unk[5] = 9
				if _, _, err := r.CM.V2TransactionSet(types.ChainIndex{Height: 3, ID: unk}, types.V2Transaction{}); err == nil {
					report("c14-verdict-wrong", "V2TransactionSet accepted a basis the manager has never seen")
				}
				st["reads-with-extreme-arguments"]++
				requery("UnconfirmedParents / V2TransactionSet with an empty transaction")
			}()
		}
		// V2TransactionSet / UnconfirmedParents for the last pooled transaction of each kind
		if len(a2) > 0 && fail == nil {
			if _, set, err := r.CM.V2TransactionSet(r.CM.Tip(), a2[len(a2)-1].DeepCopy()); err == nil {
				st["txset-queries"]++
				for i := range set {
					scribble(&set[i])
				}
				for i, j := 0, len(set)-1; i < j; i, j = i+1, j-1 {
					set[i], set[j] = set[j], set[i]
				}
				requery("V2TransactionSet")
			}
		}
		if len(a1) > 0 && fail == nil {
			ps := r.CM.UnconfirmedParents(a1[len(a1)-1])
			st["parents-queries"]++
			for i, j := 0, len(ps)-1; i < j; i, j = i+1, j-1 {
				ps[i], ps[j] = ps[j], ps[i]
			}
			requery("UnconfirmedParents")
		}
	}
	submit := func(s *poolsim.Submission) {
		b1, b2 := r.Pool()
		before1, before2 := ids(b1), ids2(b2)
		inPool := map[types.TransactionID]bool{}
		for _, id := range append(append([]types.TransactionID(nil), before1...), before2...) {
			inPool[id] = true
		}
		var setIDs []types.TransactionID
		if s.V2 {
			setIDs = ids2(s.V2s)
		} else {
			setIDs = ids(s.V1)
		}
		// expected verdict from core on the generator's own state (only when no rebasing is involved)
		expect := -1
		tipIdx := w.Info(r.Tip).Index
		if !s.V2 || s.Basis == tipIdx {
			v := w.NewValidator(r.Tip)
			valid := true
			for i := range setIDs {
				var err error
				if s.V2 {
					err = v.V2(s.V2s[i])
				} else {
					err = v.V1(s.V1[i])
				}
				if err != nil {
					valid = false
					break
				}
			}
			allKnown := true
			for _, id := range setIDs {
				allKnown = allKnown && inPool[id]
			}
			switch {
			case !valid:
				expect = 2
			case allKnown:
				expect = 1
			default:
				pv := w.NewValidator(r.Tip)
				ok := true
				for _, x := range b1 {
					ok = ok && pv.V1(x) == nil
				}
				for _, x := range b2 {
					ok = ok && pv.V2(x) == nil
				}
				if ok {
					expect = 0
					seen := map[types.TransactionID]bool{}
					for i, id := range setIDs {
						if inPool[id] || seen[id] {
							continue
						}
						seen[id] = true
						var err error
						if s.V2 {
							err = pv.V2(s.V2s[i])
						} else {
							err = pv.V1(s.V1[i])
						}
						if err != nil {
							expect = 2
							break
						}
					}
				}
			}
		}
		var snap [][]byte
		if s.V2 {
			snap = snapV2(s.V2s)
		}
		var known bool
		var err error
		var pan bool
		// every fourth submission (accepted or rolled back) is followed by another reading call than the
		// listing: the lookup of the members, the v2 list first, MineBlock, TransactionsForPartialBlock
		fr := ""
		if nsub++; nsub%4 == 3 {
			fr = []string{"lookup-v2", "lookup-v1", "v2-list", "mine", "partial-block"}[(nsub/4)%5]
			r.DeferNext = true
		}
		if s.V2 {
			known, err, pan = r.Submit2(s.Basis, s.V2s, s.Metas)
		} else {
			known, err, pan = r.Submit1(s.V1, s.Metas)
		}
		r.DeferNext = false
		st["submit:"+s.Flavor]++
		if pan {
			report("c14-submit-panic", fmt.Sprintf("submitting a %s set panicked", s.Flavor))
			return
		}
		if fr != "" {
			a1, a2 := append(append([]types.Transaction(nil), b1...), s.V1...), append(append([]types.V2Transaction(nil), b2...), s.V2s...)
			st["first-op-after-submission:"+fr]++
			if bad := r.FirstRead(fr, a1, a2, tipIdx); bad != "" {
				report("c14-first-read-differs", fmt.Sprintf("after a %s submission (error: %v): %s", s.Flavor, err, bad))
				return
			}
		}
		verdict := 0
		if err != nil {
			verdict = 2
		} else if known {
			verdict = 1
		}
		st[fmt.Sprintf("verdict:%d", verdict)]++
		if s.V2 {
			if !sameSnap(snap, snapV2(s.V2s)) {
				report("c14-caller-memory-modified", fmt.Sprintf("AddV2PoolTransactions modified the caller's transactions (%s set)", s.Flavor))
			}
		}
		a1, a2 := r.Pool()
		after1, after2 := ids(a1), ids2(a2)
		var news []types.TransactionID
		seen := map[types.TransactionID]bool{}
		// (rebasing a stale set removes the members that a block of the path confirmed)
		if s.V2 && s.Basis != tipIdx {
			for _, a := range poolsim.Ancestors(r.Tip) {
				for _, x := range a.Block.V2Transactions() {
					seen[x.ID()] = true
				}
			}
		}
		for _, id := range setIDs {
			if !inPool[id] && !seen[id] {
				seen[id] = true
				news = append(news, id)
			}
		}
		want1, want2 := before1, before2
		if verdict == 0 {
			if s.V2 {
				want2 = append(append([]types.TransactionID(nil), before2...), news...)
			} else {
				want1 = append(append([]types.TransactionID(nil), before1...), news...)
			}
		}
		// a refused set discards the pool's validation cache, and every revalidation offers the fee-paying
		// transactions of the last reverted block again: one of those that is neither a member of the set nor
		// was pooled before may enter now (e.g. a child whose parent was resubmitted in the meantime); that is
		// the re-offer, not the submission, and is set aside before the all-or-none comparison
		if lr := r.LastReverted(); lr != nil {
			reoffered := map[types.TransactionID]bool{}
			for _, x := range lr.Block.Transactions {
				reoffered[x.ID()] = true
			}
			for _, x := range lr.Block.V2Transactions() {
				reoffered[x.ID()] = true
			}
			isSet := map[types.TransactionID]bool{}
			for _, id := range setIDs {
				isSet[id] = true
			}
			strip := func(l []types.TransactionID) (out []types.TransactionID) {
				for _, id := range l {
					if reoffered[id] && !inPool[id] && !isSet[id] {
						st["re-offered-transactions-entering-at-a-submission"]++
						continue
					}
					out = append(out, id)
				}
				return
			}
			after1, after2 = strip(after1), strip(after2)
		}
		// (a full pool may evict at the next query; the generated pools of this check stay far below the limit)
		if fmt.Sprint(after1) != fmt.Sprint(want1) || fmt.Sprint(after2) != fmt.Sprint(want2) {
			if verdict != 0 {
				report("c14-failed-submission-changed-pool", fmt.Sprintf("a %s set of %d members was refused (known=%v err=%v) but the pool went from %d+%d to %d+%d transactions", s.Flavor, len(setIDs), known, err, len(before1), len(before2), len(after1), len(after2)))
			} else {
				report("c14-accepted-set-not-added-exactly", fmt.Sprintf("a %s set was accepted but the pool is not the old pool followed by its %d new members (%d+%d -> %d+%d)", s.Flavor, len(news), len(before1), len(before2), len(after1), len(after2)))
			}
		}
		if expect >= 0 && expect != verdict {
			report("c14-verdict-wrong", fmt.Sprintf("%s set of %d members: expected verdict %d (0 added, 1 known, 2 error) from validation by core, got %d (%v)", s.Flavor, len(setIDs), expect, verdict, err))
		}
		if s.V2 && fail == nil {
			// the caller goes on using its transactions: write one byte into every kind of memory
			// reachable from them, then observe the pool again (tip basis and stale basis alike)
			var e1, e2 [][]byte
			for _, x := range a1 {
				e1 = append(e1, poolsim.EncV1(x))
			}
			for _, x := range a2 {
				e2 = append(e2, poolsim.EncV2(x))
			}
			touched := 0
			for i := range s.V2s {
				touched += mutateCaller(&s.V2s[i])
			}
			st["caller-bytes-written-after-submission"] += touched
			if s.Basis == tipIdx {
				st["caller-mutations:tip-basis"]++
			} else {
				st["caller-mutations:stale-basis"]++
			}
			m1, m2 := r.Pool()
			same := len(m1) == len(e1) && len(m2) == len(e2)
			for i := 0; same && i < len(m1); i++ {
				same = bytes.Equal(poolsim.EncV1(m1[i]), e1[i])
			}
			for i := 0; same && i < len(m2); i++ {
				same = bytes.Equal(poolsim.EncV2(m2[i]), e2[i])
			}
			if !same {
				report("c14-caller-memory-retained", fmt.Sprintf("after a %s set was submitted (verdict %d, basis is tip: %v) the caller wrote into its own transactions and the pool's contents changed: the pool kept the caller's memory", s.Flavor, verdict, s.Basis == tipIdx))
			}
			if fail == nil && verdict == 0 {
				for _, id := range news {
					func() {
						defer func() {
							if p := recover(); p != nil {
								report("c14-lookup-panic", fmt.Sprint("V2PoolTransaction panicked after the caller modified its copy: ", p))
							}
						}()
						if tx, ok := r.CM.V2PoolTransaction(id); !ok || tx.ID() != id {
							report("c14-caller-memory-retained", fmt.Sprintf("after the caller wrote into its own copy of an accepted %s set, V2PoolTransaction(<original id>) no longer finds the transaction", s.Flavor))
						}
					}()
				}
				if _, verr := w.ValidatePool(r.Tip, m1, m2); verr != nil && fail == nil {
					report("c14-caller-memory-retained", fmt.Sprintf("after the caller wrote into its own copy of an accepted %s set the reported pool no longer validates: %v", s.Flavor, verr))
				}
			}
			helds = append(helds, held{s.V2s, snapV2(s.V2s), s.Flavor})
		}
		if verdict == 2 {
			for _, id := range news {
				rejected = append(rejected, id)
			}
		}
		if verdict == 0 && len(news) > 0 && len(news) < len(setIDs) {
			st["partly-known-accepted"]++
		}
		if verdict == 2 && expect == 2 && len(setIDs) > 1 {
			st["multi-member-set-refused"]++
		}
	}
	for i, stp := range cs.Plan {
		if fail != nil {
			break
		}
		_ = i
		g := rng.New(stp.Seed ^ cs.Seed)
		switch stp.Kind {
		case "chain":
			api := []string{"listing", "lookup", "partial-block", "parents", "lookup", "v2-list", "txset", "mine"}[g.Intn(8)]
			before := r.Tip
			r.Quiet = api != "listing"
			o := r.Chain(stp.Op)
			if o.Err {
				st["chain-op-errors"]++
			}
			if r.Quiet && r.Tip != before && fail == nil {
				firstOp(g, api)
			}
			r.Quiet = false
		case "mine":
			if b, ok := r.MineOnly(); ok {
				api := []string{"listing", "lookup", "partial-block", "parents", "lookup", "v2-list", "txset", "mine"}[g.Intn(8)]
				r.Quiet = api != "listing"
				if r.Adopt(b) {
					st["mined-blocks-adopted"]++
					if r.Quiet && fail == nil {
						firstOp(g, api)
					}
				}
				r.Quiet = false
			}
		case "submit":
			if s := r.Fabricate(g, stp.Flavor); s != nil {
				submit(s)
			} else {
				st["submit-skipped"]++
			}
		}
		if fail == nil {
			lookups(g)
		}
		if fail == nil && g.Chance(1, 3) {
			aliasing()
		}
	}
	// memory handed to AddV2PoolTransactions is not retained: later pool updates did not write to it
	for _, h := range helds {
		if fail == nil && !sameSnap(h.snap, snapV2(h.txs)) {
			report("c14-caller-memory-retained", fmt.Sprintf("transactions handed to AddV2PoolTransactions (%s set) changed after later pool updates: the pool kept their memory", h.what))
		}
	}
	for k, v := range r.Stats {
		st[k] += v
	}
	coq := ""
	if r.NoCoq == "" && fail == nil {
		coq = r.CoqCase()
	}
	return coq, fail, st, r
}

// readAPIs lists the exported Manager methods that return transactions, from the source.
func readAPIs(repo string) ([]string, error) {
	fset := token.NewFileSet()
	f, err := parser.ParseFile(fset, filepath.Join(repo, "chain", "manager.go"), nil, 0)
	if err != nil {
		return nil, err
	}
	var out []string
	for _, d := range f.Decls {
		fd, ok := d.(*ast.FuncDecl)
		if !ok || fd.Recv == nil || !fd.Name.IsExported() || fd.Type.Results == nil || len(fd.Recv.List) != 1 {
			continue
		}
		var recv bytes.Buffer
		printer.Fprint(&recv, fset, fd.Recv.List[0].Type)
		if recv.String() != "*Manager" {
			continue
		}
		for _, r := range fd.Type.Results.List {
			var buf bytes.Buffer
			printer.Fprint(&buf, fset, r.Type)
			if strings.Contains(buf.String(), "Transaction") {
				out = append(out, fd.Name.Name)
				break
			}
		}
	}
	sort.Strings(out)
	return out, nil
}

// covered: the transaction-returning methods of chain.Manager and how this check treats what
// they return
var covered = map[string]string{
	"PoolTransaction":             "lookup monitor (v1 values: identity only)",
	"PoolTransactions":            "reordered, then re-queried",
	"V2PoolTransaction":           "mutated, then re-queried",
	"V2PoolTransactions":          "mutated and reordered, then re-queried",
	"TransactionsForPartialBlock": "mutated and reordered, then re-queried",
	"UnconfirmedParents":          "reordered, then re-queried",
	"V2TransactionSet":            "mutated and reordered, then re-queried",
	"UpdateV2TransactionSet":      "not a pool read: returns the caller's (documented as modified) set, covered by C13",
}

func run(c *hx.Ctx) {
	res := c.Res
	if apis, err := readAPIs(c.Repo); err != nil {
		res.Notes = append(res.Notes, "read-API census not applicable on this tree: chain/manager.go could not be parsed: "+err.Error())
	} else {
		for _, a := range apis {
			if _, ok := covered[a]; !ok {
				res.BreakTie("c14-read-api-not-covered", "chain.Manager."+a+" returns transactions but the aliasing monitor does not exercise it")
			}
		}
		res.Notes = append(res.Notes, fmt.Sprintf("transaction-returning Manager methods found in the source: %v", apis))
	}
	res.Shard = 25
	res.Rule = "fork trees of real mined blocks (valid branches, 3 hardfork regimes) x histories interleaving block submissions (reorgs) with pool submissions of 22 flavours (fresh, parent/child, ephemeral, stale basis, conflicting / invalid at every position k <= 4, partly known, known, child without parent, every generator transaction kind, wrong basis, corrupted proof, empty) x lookups by v1 ids, v2 ids, rejected and random ids after every step; non-trivial := some multi-member set was refused and some set was accepted; distinct by (tree seed, plan)"
	var cases []string
	doCase := func(cs poolsim.Case) {
		coq, f, st, r := runCase(cs)
		js, _ := json.Marshal(cs)
		res.Eval(string(js), st["multi-member-set-refused"] > 0 && st["verdict:0"] > 0)
		for k, v := range st {
			res.CountN(k, v)
		}
		if r != nil {
			res.CountN("calls", r.Steps())
		}
		res.Count("regime:" + chaingen.RegimeNames[cs.Regime])
		if f != nil && res.Distribution["fail:"+f.kind] >= 3 {
			res.Count("fail:" + f.kind)
		} else if f != nil {
			small := poolsim.Shrink(cs, f.kind, func(d poolsim.Case) string {
				_, f2, _, _ := runCase(d)
				if f2 == nil {
					return ""
				}
				return f2.kind
			})
			_, f2, _, _ := runCase(small)
			if f2 == nil || f2.kind != f.kind {
				f2, small = f, cs
			}
			var plan []string
			for _, s := range small.Plan {
				plan = append(plan, s.String())
			}
			res.Fail(f2.kind, f2.detail, map[string]any{"case": small, "plan": plan})
		}
		if coq != "" {
			cases = append(cases, coq)
		}
		if len(res.Samples) < 2 {
			var plan []string
			for _, s := range cs.Plan {
				plan = append(plan, s.String())
			}
			res.Sample(map[string]any{"regime": chaingen.RegimeNames[cs.Regime], "plan": plan})
		}
	}
	if c.Replay != "" {
		var rp struct {
			Replay struct {
				Case poolsim.Case `json:"case"`
			} `json:"replay"`
		}
		b, _ := os.ReadFile(c.Replay)
		json.Unmarshal(b, &rp)
		doCase(rp.Replay.Case)
		res.WriteCases("Run.Run_C14", cases)
		return
	}
	for _, cs := range poolsim.Corpus("C14") {
		doCase(cs)
	}
	// directed: every kind of v2 transaction that carries memory behind a pointer or a nested slice
	// (renewals, storage proofs, revisions, expirations) is submitted and read back
	for k := uint64(0); k < 2; k++ {
		cs := poolsim.Case{Seed: c.Seed*733 + 50 + k, Regime: 2, Opts: chaingen.GenOpts{Blocks: 9, Branchiness: 0, TxPerBlock: 3, Kinds: []string{"v2-form", "v2-form", "v2-transfer"}}}
		var ids []int
		for i := 1; i <= 4; i++ {
			ids = append(ids, i)
		}
		cs.Plan = []poolsim.Step{{Kind: "chain", Op: mgrsim.Op{Kind: "add", Nodes: ids}}}
		for n := 5; n <= 9; n++ {
			for _, kind := range []string{"v2-renew", "v2-proof", "v2-revise", "v2-expire", "v2-siafund"} {
				cs.Plan = append(cs.Plan, poolsim.Step{Kind: "submit", Flavor: "builder:" + kind, Seed: uint64(n)*13 + k})
			}
			cs.Plan = append(cs.Plan, poolsim.Step{Kind: "chain", Op: mgrsim.Op{Kind: "add", Nodes: []int{n}}})
		}
		doCase(cs)
	}
	n := c.Scale(200, 3000)
	for i := 0; i < n; i++ {
		g := c.R.Fork()
		cs := poolsim.Case{Seed: g.U64(), Regime: []int{1, 2, 0, 1, 2, 1}[i%6], Opts: chaingen.GenOpts{Blocks: 4 + g.Intn(9), Branchiness: 2 + g.Intn(4), TxPerBlock: g.Intn(3), Jitter: g.Intn(3)}}
		var t *chaingen.Tree
		func() {
			defer func() {
				if p := recover(); p != nil {
					// blocks built from the lists the manager returned no longer replay: they share memory with the pool
					res.Fail("c14-generated-chain-corrupted", fmt.Sprint("building the fork tree with the chain generator (blocks mined from PoolTransactions/V2PoolTransactions on a linear node) failed: ", p), map[string]any{"case": cs})
					t = nil
				}
			}()
			t = cs.Tree()
		}()
		if t == nil {
			continue
		}
		cs.Plan = poolsim.GenPlan(rng.New(cs.Seed^0x1234abcd), t, poolsim.Flavors, 3)
		doCase(cs)
	}
	res.WriteCases("Run.Run_C14", cases)
}
