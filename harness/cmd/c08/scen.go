package main

// A scenario: one renter with its own keys, accounts and contracts playing a
// scripted sequence of RPCs on the raw stream, each well-formed or with one
// field corrupted or replayed.  The scenario keeps the ground truth (what the
// renter signed, which sectors exist, the ledger of its accounts) and renames
// ids to the small numbers of the Coq model.

import (
	"fmt"
	"math"
	"strings"
	"time"

	proto4 "go.sia.tech/core/rhp/v4"
	"go.sia.tech/core/types"
	"verif/harness/internal/rng"
)

const (
	absHost    = 1
	absForeign = 99
	absNow     = 1000
	absValid   = 2000
	absExpired = 500
)

type ctr struct {
	id        types.FileContractID
	abs       uint64
	key       types.PrivateKey
	rev       types.V2FileContract // latest revision the Contractor accepted
	formed    types.V2FileContract
	roots     []types.Hash256
	renewed   bool
	confirmed bool
}

// a stored exchange for replays
type replayRec struct {
	term string
	send func() error // replays the exchange byte for byte
	ct   *ctr
}

type stepLog struct {
	Kind    string `json:"kind"`
	Mut     string `json:"mut"`
	Verdict string `json:"verdict"`
	Detail  string `json:"detail,omitempty"`
}

type scen struct {
	w    *world
	seed uint64
	r    *rng.R

	keys    map[types.PublicKey]uint64
	rootIDs map[types.Hash256]uint64
	acctIDs map[proto4.Account]uint64
	accts   []proto4.Account
	bal     map[proto4.Account]types.Currency
	pbal    map[proto4.Account]types.Currency
	foreign types.PrivateKey
	rkey    types.PrivateKey

	cts    []*ctr
	cur    *ctr
	nextTx uint64

	trace  []string
	steps  []stepLog
	lastOK map[string]*replayRec

	accepted, rejectedCorrupt int
	late                      bool // new contracts are confirmed by a later block only
	unit                      types.Currency // one pricing unit of the RPC being played
	second, cutRefused        int
	fails                     []failure
}

type failure struct {
	kind, detail string
}

func (sc *scen) failf(kind, format string, a ...any) {
	sc.fails = append(sc.fails, failure{kind, fmt.Sprintf(format, a...)})
}

func newScen(w *world, seed uint64) *scen {
	sc := &scen{w: w, seed: seed, r: rng.New(seed),
		keys: map[types.PublicKey]uint64{}, rootIDs: map[types.Hash256]uint64{}, acctIDs: map[proto4.Account]uint64{},
		bal: map[proto4.Account]types.Currency{}, pbal: map[proto4.Account]types.Currency{}, lastOK: map[string]*replayRec{}}
	sc.keys[w.hostKey.PublicKey()] = absHost
	sc.rootIDs[types.Hash256{}] = 0
	sc.foreign = sc.newKey()
	sc.keys[sc.foreign.PublicKey()] = absForeign
	sc.rkey = sc.newKey()
	sc.keys[sc.rkey.PublicKey()] = 10
	for i := 0; i < 4; i++ {
		var a proto4.Account
		sc.r.Bytes(a[:])
		a[0] |= 1
		sc.acctIDs[a] = uint64(i + 1)
		sc.accts = append(sc.accts, a)
	}
	return sc
}

func (sc *scen) newKey() types.PrivateKey {
	seed := make([]byte, 32)
	sc.r.Bytes(seed)
	return types.NewPrivateKeyFromSeed(seed)
}

// ---- abstraction -------------------------------------------------------------

func z(c types.Currency) string { return c.ExactString() }

func (sc *scen) keyID(pk types.PublicKey) uint64 {
	if id, ok := sc.keys[pk]; ok {
		return id
	}
	id := uint64(50 + len(sc.keys))
	sc.keys[pk] = id
	return id
}

func (sc *scen) rootID(h types.Hash256) uint64 {
	if id, ok := sc.rootIDs[h]; ok {
		return id
	}
	id := uint64(len(sc.rootIDs))
	sc.rootIDs[h] = id
	return id
}

func (sc *scen) acctID(a proto4.Account) uint64 {
	if a == (proto4.Account{}) {
		return 0
	}
	if id, ok := sc.acctIDs[a]; ok {
		return id
	}
	id := uint64(len(sc.acctIDs) + 1)
	sc.acctIDs[a] = id
	return id
}

func (sc *scen) absContract(fc types.V2FileContract) string {
	return fmt.Sprintf("(mk_contract %d %s %s %s %s %d %d %d %d %d %d %d)",
		fc.RevisionNumber, z(fc.RenterOutput.Value), z(fc.HostOutput.Value), z(fc.MissedHostValue), z(fc.TotalCollateral),
		fc.Filesize, fc.Capacity, sc.rootID(fc.FileMerkleRoot), sc.keyID(fc.RenterPublicKey), sc.keyID(fc.HostPublicKey),
		fc.ProofHeight, fc.ExpirationHeight)
}

func absBody(hp proto4.HostPrices, vu int) string {
	return fmt.Sprintf("(mk_pbody %s %s %s %s %s %s %d %d)", z(hp.ContractPrice), z(hp.Collateral), z(hp.StoragePrice),
		z(hp.IngressPrice), z(hp.EgressPrice), z(hp.FreeSectorPrice), hp.TipHeight, vu)
}

func (sc *scen) sigRev(k uint64, fc types.V2FileContract) string {
	return fmt.Sprintf("(Sig %d (MRev %s))", k, sc.absContract(fc))
}

func optSig(s string) string {
	if s == "" {
		return "None"
	}
	return "(Some " + s + ")"
}

func zlist(xs []uint64) string {
	s := make([]string, len(xs))
	for i, x := range xs {
		s[i] = fmt.Sprintf("%d%%Z", x)
	}
	return "[" + strings.Join(s, "; ") + "]"
}

func flip(s types.Signature) types.Signature { s[5] ^= 0x40; return s }

const junk = "(SJunk 7)"

// ---- price tables ------------------------------------------------------------

var ptMuts = []string{"pt-expired", "pt-foreign", "pt-tampered", "pt-flip"}

// prices builds the price table presented with a request.  A well-formed table is
// one the host's key signed with an expiry in the future.
func (sc *scen) prices(mut string) (proto4.HostPrices, string) {
	w := sc.w
	hp := w.set.Prices
	hp.TipHeight = w.cm.Tip().Height
	hp.ValidUntil = time.Now().Add(time.Hour).Truncate(time.Second)
	vu := absValid
	switch mut {
	case "pt-expired":
		hp.ValidUntil = time.Now().Add(-time.Minute).Truncate(time.Second)
		vu = absExpired
	}
	signer, k := w.hostKey, uint64(absHost)
	if mut == "pt-foreign" {
		signer, k = sc.foreign, absForeign
	}
	hp.Signature = signer.SignHash(hp.SigHash())
	body := absBody(hp, vu)
	switch mut {
	case "pt-tampered":
		signed := body
		switch sc.r.Intn(3) {
		case 0:
			// cheaper than signed (a change under every settings variant, zero prices included)
			one := types.NewCurrency64(1)
			for _, c := range []*types.Currency{&hp.StoragePrice, &hp.FreeSectorPrice, &hp.EgressPrice} {
				if c.IsZero() {
					*c = one
				} else {
					*c = c.Div64(2)
					if c.IsZero() {
						*c = types.NewCurrency64(2)
					}
				}
			}
		case 1:
			hp.ValidUntil = hp.ValidUntil.Add(time.Hour)
			vu += 1000
		default:
			hp.TipHeight += 3
		}
		return hp, fmt.Sprintf("(PTT %d %s %s)", k, signed, absBody(hp, vu))
	case "pt-flip":
		hp.Signature = flip(hp.Signature)
		return hp, fmt.Sprintf("(PTJ %s 7)", body)
	}
	return hp, fmt.Sprintf("(PT %d %s)", k, body)
}

// ---- renter signatures ---------------------------------------------------------

var rsigMuts = []string{"rsig-flip", "rsig-otherkey", "rsig-rev-equal", "rsig-rev-plus2", "rsig-rev-max",
	"rsig-existing", "rsig-underpay", "rsig-underpay-unit", "rsig-steal", "rsig-wrongroot", "rsig-zero"}

// signRevision returns the signature the renter sends for the revision rev it
// computed, under mutation mut, together with its term.
func (sc *scen) signRevision(ct *ctr, key types.PrivateKey, rev types.V2FileContract, mut string) (types.Signature, string) {
	cs := sc.w.cm.TipState()
	k := sc.keyID(key.PublicKey())
	old := sc.revOf(ct)
	switch mut {
	case "rsig-zero":
		return types.Signature{}, "(SJunk 0)"
	case "rsig-otherkey":
		key, k = sc.foreign, absForeign
	case "rsig-rev-equal":
		rev.RevisionNumber = old.RevisionNumber
	case "rsig-rev-plus2":
		rev.RevisionNumber++
	case "rsig-rev-max":
		rev.RevisionNumber = math.MaxUint64
	case "rsig-existing":
		rev = old
	case "rsig-underpay", "rsig-underpay-unit":
		d := types.ZeroCurrency
		if old.RenterOutput.Value.Cmp(rev.RenterOutput.Value) > 0 {
			paid := old.RenterOutput.Value.Sub(rev.RenterOutput.Value)
			d = paid.Div64(2)
			// one pricing unit of the RPC less (one sector, one 4 KiB of roots)
			if mut == "rsig-underpay-unit" && !sc.unit.IsZero() && sc.unit.Cmp(paid) < 0 {
				d = sc.unit
			}
		}
		if d.IsZero() {
			d = types.NewCurrency64(1)
		}
		if rev.HostOutput.Value.Cmp(d) >= 0 {
			rev.RenterOutput.Value = rev.RenterOutput.Value.Add(d)
			rev.HostOutput.Value = rev.HostOutput.Value.Sub(d)
		} else {
			rev.RevisionNumber++
		}
	case "rsig-steal":
		d := types.NewCurrency64(1000)
		if rev.HostOutput.Value.Cmp(d) >= 0 {
			rev.RenterOutput.Value = old.RenterOutput.Value.Add(d)
			rev.HostOutput.Value = old.HostOutput.Value.Sub(d)
		} else {
			rev.RevisionNumber++
		}
	case "rsig-wrongroot":
		rev.FileMerkleRoot[7] ^= 0x11
	}
	sig := key.SignHash(cs.ContractSigHash(rev))
	if mut == "rsig-flip" {
		return flip(sig), junk
	}
	return sig, sc.sigRev(k, rev)
}

// revOf is the renter's view of the contract's latest revision (zero for unknown).
func (sc *scen) revOf(ct *ctr) types.V2FileContract {
	if ct == nil {
		return types.V2FileContract{}
	}
	return ct.rev
}

var chalMuts = []string{"chal-flip", "chal-stale", "chal-plus", "chal-otherkey", "chal-othercid", "chal-zero"}

// challenge signs the free/append/renew/refresh challenge (hash of contract id
// and a revision number) under mutation mut.  rn is the number a well-formed
// request signs.
func (sc *scen) challenge(key types.PrivateKey, id types.FileContractID, absID uint64, rn uint64, mut string) (types.Signature, string) {
	k := sc.keyID(key.PublicKey())
	switch mut {
	case "chal-zero":
		return types.Signature{}, "(SJunk 0)"
	case "chal-stale":
		rn--
	case "chal-plus":
		rn++
	case "chal-otherkey":
		key, k = sc.foreign, absForeign
	case "chal-othercid":
		id[3] ^= 0x55
		absID = 777
	}
	req := proto4.RPCFreeSectorsRequest{ContractID: id}
	sig := key.SignHash(req.ChallengeSigHash(rn))
	if mut == "chal-flip" {
		return flip(sig), junk
	}
	return sig, fmt.Sprintf("(Sig %d (MChal %d %d))", k, absID, rn)
}

// target picks the contract a request names: the current one, an id the host does
// not know, or a contract that has already been renewed.
func (sc *scen) target(mut *string) (*ctr, types.FileContractID, uint64, types.PrivateKey) {
	ct := sc.cur
	switch *mut {
	case "unknown-cid":
		var id types.FileContractID
		sc.r.Bytes(id[:])
		return nil, id, 888, sc.rkey
	case "renewed-cid":
		// a contract of this renter that has been renewed or refreshed (the newest such)
		for i := len(sc.cts) - 1; i >= 0; i-- {
			if sc.cts[i].renewed {
				c := sc.cts[i]
				return c, c.id, c.abs, c.key
			}
		}
		*mut = "none"
	}
	return ct, ct.id, ct.abs, ct.key
}

func swapRemove(roots []types.Hash256, idxs []uint64) []types.Hash256 {
	out := append([]types.Hash256(nil), roots...)
	for i, n := range idxs {
		if n >= uint64(len(out)) || len(out)-i-1 < 0 {
			return roots
		}
		out[n] = out[len(out)-i-1]
	}
	if len(idxs) > len(out) {
		return roots
	}
	return out[:len(out)-len(idxs)]
}

func sumDeposits(ds []proto4.AccountDeposit) (t types.Currency, overflow bool) {
	for _, d := range ds {
		var o bool
		t, o = t.AddWithOverflow(d.Amount)
		if o {
			return types.ZeroCurrency, true
		}
	}
	return t, false
}
