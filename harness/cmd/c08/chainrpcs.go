package main

// Form, renew and refresh on the raw stream (the funding side follows the honest
// client of rhp/v4/rpc.go; the corruptions are the renter's).

import (
	"fmt"

	proto4 "go.sia.tech/core/rhp/v4"
	"go.sia.tech/core/types"
)

var fee = types.Siacoins(1).Div64(100)

// fundRenter funds txn from the renter's wallet and returns what the request
// carries.  With drop set, the last selected input is withheld from the request,
// so the inputs the host sees sum to less than the renter's cost.
func (sc *scen) fundRenter(txn *types.V2Transaction, amount types.Currency, drop bool) (basis types.ChainIndex, inputs []types.SiacoinElement, parents []types.V2Transaction, toSign []int, sum types.Currency, dropped bool, err error) {
	w := sc.w
	basis, toSign, err = w.rentW.FundV2Transaction(txn, amount, true)
	if err != nil {
		return
	}
	var set []types.V2Transaction
	basis, set, err = w.cm.V2TransactionSet(basis, *txn)
	if err != nil {
		w.rentW.ReleaseInputs(nil, []types.V2Transaction{*txn})
		return
	}
	parents = set[:len(set)-1]
	n := len(txn.SiacoinInputs)
	total := func(k int) (t types.Currency) {
		for _, si := range txn.SiacoinInputs[:k] {
			t = t.Add(si.Parent.SiacoinOutput.Value)
		}
		return
	}
	if drop {
		// withhold inputs from the end until what is left no longer covers the cost
		k := n
		for k > 1 && total(k).Cmp(amount) >= 0 {
			k--
		}
		if total(k).Cmp(amount) < 0 {
			n, dropped = k, true
		}
	}
	for _, si := range txn.SiacoinInputs[:n] {
		inputs = append(inputs, si.Parent.Copy())
	}
	sum = total(n)
	return
}

var formMuts = join([]string{"cut-request-half", "cut-after-request", "cut-second-half", "form-allowance-zero", "form-allowance-low", "form-collateral-max", "form-too-soon",
	"form-too-long", "form-fee-zero", "underfunded", "fsig-flip", "fsig-otherkey", "fsig-other", "abort-close", "bad-input-sig"}, ptMuts)

// doForm forms a contract.  flavor: "rich" (payments never run out), "poor"
// (allowance and collateral cover a couple of sectors), "short" (minimal duration).
func (sc *scen) doForm(mut, flavor string) *outcome {
	w := sc.w
	cs := w.cm.TipState()
	hp, pterm := sc.prices(mut)
	tip := cs.Index.Height
	dur := uint64(40 + sc.r.Intn(40))
	if flavor == "short" {
		dur = uint64(proto4.MinContractDuration + 1 + sc.r.Intn(2))
	}
	allowance := types.Siacoins(uint32(20 + sc.r.Intn(80)))
	collateral := types.Siacoins(uint32(10 + sc.r.Intn(30)))
	if flavor == "poor" {
		allowance = types.NewCurrency64(300000000000 + uint64(sc.r.Intn(300000000000)))
		collateral = types.NewCurrency64(300000000000 + uint64(sc.r.Intn(200000000000)))
	}
	txFee := fee
	switch mut {
	case "form-allowance-zero":
		allowance = types.ZeroCurrency
	case "form-allowance-low":
		collateral = allowance.Mul64(3)
	case "form-collateral-max":
		collateral = w.set.MaxCollateral.Add(types.NewCurrency64(1))
		allowance = collateral
	case "form-too-soon":
		dur = 5
	case "form-too-long":
		dur = w.set.MaxContractDuration + 500
	case "form-fee-zero":
		txFee = types.ZeroCurrency
	case "underfunded":
		allowance = types.Siacoins(400000)
	}
	key := sc.rkey
	params := proto4.RPCFormContractParams{RenterPublicKey: key.PublicKey(), RenterAddress: w.rentW.Address(),
		Allowance: allowance, Collateral: collateral, ProofHeight: tip + dur}
	fc, _ := proto4.NewContract(hp, params, w.hostKey.PublicKey(), w.set.WalletAddress)
	txn := types.V2Transaction{MinerFee: txFee, FileContracts: []types.V2FileContract{fc}}
	renterCost, _ := proto4.ContractCost(cs, fc, txFee)
	basis, inputs, parents, toSign, sum, dropped, err := sc.fundRenter(&txn, renterCost, mut == "underfunded")
	must(err)
	if mut == "underfunded" && !dropped {
		mut = "none"
	}
	sc.nextTx++
	txid := sc.nextTx
	o := &outcome{kind: "form", mut: mut, mustReject: mut != "none"}
	req := proto4.RPCFormContractRequest{Prices: hp, Contract: params, Basis: basis, MinerFee: txFee, RenterInputs: inputs, RenterParents: parents}
	formTip := w.cm.Tip()
	o.validate = func() error {
		return req.Validate(w.hostKey.PublicKey(), formTip, w.set.MaxCollateral, w.set.MaxContractDuration)
	}
	csigTerm := ""
	chain2 := mut != "bad-input-sig"
	var second proto4.RPCFormContractSecondResponse
	var resp1 proto4.RPCFormContractResponse
	var resp3 proto4.RPCFormContractThirdResponse
	o.err = w.twoRound(proto4.RPCFormContractID, &req, &resp1, func() (proto4.Object, string) {
		if a := abortOf(mut); a != "" {
			return nil, a
		}
		var hostSum types.Currency
		for _, si := range resp1.HostInputs {
			hostSum = hostSum.Add(si.Parent.SiacoinOutput.Value)
			txn.SiacoinInputs = append(txn.SiacoinInputs, si)
		}
		if hostSum.Cmp(fc.TotalCollateral) > 0 {
			txn.SiacoinOutputs = append(txn.SiacoinOutputs, types.SiacoinOutput{Address: fc.HostOutput.Address, Value: hostSum.Sub(fc.TotalCollateral)})
		}
		w.rentW.SignV2Inputs(&txn, toSign)
		signed := fc
		k := sc.keyID(key.PublicKey())
		skey := key
		switch mut {
		case "fsig-otherkey":
			skey, k = sc.foreign, absForeign
		case "fsig-other":
			signed.RenterOutput.Value = signed.RenterOutput.Value.Add(types.NewCurrency64(1))
		}
		second.RenterContractSignature = skey.SignHash(cs.ContractSigHash(signed))
		csigTerm = sc.sigRev(k, signed)
		if mut == "fsig-flip" {
			second.RenterContractSignature, csigTerm = flip(second.RenterContractSignature), junk
		}
		for _, si := range txn.SiacoinInputs[:len(inputs)] {
			sp := si.SatisfiedPolicy
			if mut == "bad-input-sig" && len(sp.Signatures) > 0 {
				sp.Signatures = []types.Signature{flip(sp.Signatures[0])}
			}
			second.RenterSatisfiedPolicies = append(second.RenterSatisfiedPolicies, sp)
		}
		return &second, ""
	}, &resp3)
	if o.err != nil {
		w.rentW.ReleaseInputs(nil, []types.V2Transaction{txn})
	}
	o.term = fmt.Sprintf("(RForm %d %s %d %s %s %d %s %s true %v %s)", txid, pterm, sc.keyID(key.PublicKey()),
		z(allowance), z(collateral), params.ProofHeight, z(txFee), z(sum), chain2, optSig(csigTerm))
	o.newCtr = &ctr{abs: 2 * txid, key: key}
	return o
}

func (sc *scen) absRenewal(r types.V2FileContractRenewal) string {
	return fmt.Sprintf("(mk_renewal %s %s %s %s %s)", z(r.FinalRenterOutput.Value), z(r.FinalHostOutput.Value),
		z(r.RenterRollover), z(r.HostRollover), sc.absContract(r.NewContract))
}

var renewMuts = join([]string{"cut-request-half", "cut-after-request", "cut-second-half", "ren-height-low", "ren-too-long", "ren-allowance-zero", "ren-allowance-low", "ren-collateral-max", "coll-edge-below", "coll-edge", "coll-edge-above", "coll-max-exact",
	"ren-fee-zero", "underfunded", "rnsig-flip", "rnsig-other", "rcsig-flip", "rcsig-other", "abort-close", "bad-input-sig", "unknown-cid", "renewed-cid"}, ptMuts, chalMuts)

var refreshMuts = join([]string{"cut-request-half", "cut-after-request", "cut-second-half", "ren-allowance-zero", "ren-allowance-low", "ren-collateral-max", "coll-edge-below", "coll-edge", "coll-edge-above", "coll-max-exact",
	"ren-fee-zero", "underfunded", "rnsig-flip", "rnsig-other", "rcsig-flip", "rcsig-other", "abort-close", "bad-input-sig", "unknown-cid", "renewed-cid"}, ptMuts, chalMuts)

// doRenewal plays renew (kind "renew") or refresh ("refresh-full", "refresh-partial").
func (sc *scen) doRenewal(kind, mut string) *outcome {
	w := sc.w
	cs := w.cm.TipState()
	ct, id, absID, key := sc.target(&mut)
	existing := sc.revOf(ct)
	hp, pterm := sc.prices(mut)
	tip := cs.Index.Height
	allowance := types.Siacoins(uint32(20 + sc.r.Intn(80)))
	collateral := types.Siacoins(uint32(10 + sc.r.Intn(30)))
	ph := max(existing.ProofHeight, tip+proto4.MinContractDuration) + 1 + uint64(sc.r.Intn(30))
	txFee := fee
	mustReject, edge := false, false
	switch mut {
	case "ren-height-low":
		ph = existing.ProofHeight - uint64(sc.r.Intn(2))
	case "ren-too-long":
		ph = tip + w.set.MaxContractDuration + 500
	case "ren-allowance-zero":
		allowance = types.ZeroCurrency
	case "ren-allowance-low":
		collateral = allowance.Mul64(3)
	case "ren-collateral-max":
		collateral = w.set.MaxCollateral.Add(types.NewCurrency64(1))
		allowance = collateral
	case "ren-fee-zero":
		txFee = types.ZeroCurrency
	case "underfunded":
		allowance = types.Siacoins(700000)
	case "coll-edge-below", "coll-edge", "coll-edge-above", "coll-max-exact":
		// the collateral boundary of the host: what the *latest* revision already
		// commits (risked collateral of the stored data for the new duration on a
		// renewal, risked or total collateral on a refresh) plus the requested
		// collateral may reach MaxCollateral and not exceed it
		base := existing.TotalCollateral
		switch kind {
		case "renew":
			base = hp.Collateral.Mul64(existing.Filesize).Mul64(ph + proto4.ProofWindow - hp.TipHeight)
		case "refresh-partial":
			base = existing.RiskedCollateral()
		}
		if ct == nil || base.Cmp(w.set.MaxCollateral) >= 0 {
			mut = "none"
			break
		}
		collateral = w.set.MaxCollateral.Sub(base)
		switch mut {
		case "coll-edge-below":
			collateral = collateral.Sub(types.NewCurrency64(1))
		case "coll-edge-above":
			collateral = collateral.Add(types.NewCurrency64(1))
		case "coll-max-exact":
			collateral = w.set.MaxCollateral
		}
		allowance = proto4.MinRenterAllowance(hp, collateral).Add(types.Siacoins(uint32(10 + sc.r.Intn(20))))
		mustReject = collateral.Add(base).Cmp(w.set.MaxCollateral) > 0
		edge = true
	}
	var renewal types.V2FileContractRenewal
	var renterCost, hostCost types.Currency
	var rpcID types.Specifier
	var req proto4.Object
	partial := kind == "refresh-partial"
	if kind == "renew" {
		params := proto4.RPCRenewContractParams{ContractID: id, Allowance: allowance, Collateral: collateral, ProofHeight: ph}
		renewal, _ = proto4.RenewContract(existing, hp, w.set.WalletAddress, params)
		renterCost, hostCost = proto4.RenewalCost(cs, renewal, txFee)
		rpcID = proto4.RPCRenewContractID
		req = &proto4.RPCRenewContractRequest{Prices: hp, Renewal: params, MinerFee: txFee}
	} else {
		params := proto4.RPCRefreshContractParams{ContractID: id, Allowance: allowance, Collateral: collateral}
		if ct == nil {
			// the refresh arithmetic panics on the zero contract; any renewal will do for an unknown id
			renewal = types.V2FileContractRenewal{NewContract: existing}
		} else if partial {
			renewal, _ = proto4.RefreshContractPartialRollover(existing, hp, w.set.WalletAddress, params)
			renterCost, hostCost = proto4.RefreshCost(cs, hp, renewal, txFee)
		} else {
			renewal, _ = proto4.RefreshContractFullRollover(existing, hp, w.set.WalletAddress, params)
			renterCost, hostCost = proto4.RefreshCost(cs, hp, renewal, txFee)
		}
		if ct == nil {
			renterCost = txFee.Add(types.Siacoins(1))
		}
		rpcID = proto4.RPCRefreshContractID
		if partial {
			rpcID = proto4.RPCRefreshPartialID
		}
		req = &proto4.RPCRefreshContractRequest{Prices: hp, Refresh: params, MinerFee: txFee}
	}
	txn := types.V2Transaction{MinerFee: txFee}
	if renterCost.IsZero() {
		renterCost = types.NewCurrency64(1)
	}
	basis, inputs, parents, toSign, sum, dropped, err := sc.fundRenter(&txn, renterCost, mut == "underfunded")
	must(err)
	if mut == "underfunded" && !dropped {
		mut = "none"
	}
	chal, cterm := sc.challenge(key, id, absID, existing.RevisionNumber, mut)
	switch r := req.(type) {
	case *proto4.RPCRenewContractRequest:
		r.Basis, r.RenterInputs, r.RenterParents, r.ChallengeSignature = basis, inputs, parents, chal
	case *proto4.RPCRefreshContractRequest:
		r.Basis, r.RenterInputs, r.RenterParents, r.ChallengeSignature = basis, inputs, parents, chal
	}
	o := &outcome{kind: kind, mut: mut, ct: ct, mustReject: mut != "none"}
	if edge {
		o.mustReject = mustReject
	}
	// core's validation of this request against the latest revision and the host's settings
	hostTip := w.cm.Tip()
	switch r := req.(type) {
	case *proto4.RPCRenewContractRequest:
		o.validate = func() error {
			return r.Validate(w.hostKey.PublicKey(), hostTip, existing, w.set.MaxCollateral, w.set.MaxContractDuration)
		}
	case *proto4.RPCRefreshContractRequest:
		o.validate = func() error { return r.Validate(w.hostKey.PublicKey(), hostTip, existing, w.set.MaxCollateral, partial) }
	}
	chain2 := mut != "bad-input-sig"
	// the host needs the contract's element to build the renewal: it has to be on chain
	chain1 := ct == nil || ct.confirmed
	sigsTerm := "None"
	var hostInputs []types.V2SiacoinInput
	second := func() (proto4.Object, string) {
		w.runMid()
		if a := abortOf(mut); a != "" {
			return nil, a
		}
		var hostSum types.Currency
		for _, si := range hostInputs {
			hostSum = hostSum.Add(si.Parent.SiacoinOutput.Value)
			txn.SiacoinInputs = append(txn.SiacoinInputs, si)
		}
		if hostSum.Cmp(hostCost) > 0 {
			txn.SiacoinOutputs = append(txn.SiacoinOutputs, types.SiacoinOutput{Address: renewal.NewContract.HostOutput.Address, Value: hostSum.Sub(hostCost)})
		}
		txn.FileContractResolutions = []types.V2FileContractResolution{{Parent: types.V2FileContractElement{ID: id}, Resolution: &renewal}}
		w.rentW.SignV2Inputs(&txn, toSign)
		k := sc.keyID(key.PublicKey())
		sr, scn := renewal, renewal.NewContract
		switch mut {
		case "rnsig-other":
			sr.RenterRollover = sr.RenterRollover.Add(types.NewCurrency64(1))
		case "rcsig-other":
			scn.RenterOutput.Value = scn.RenterOutput.Value.Add(types.NewCurrency64(1))
		}
		rs := key.SignHash(cs.RenewalSigHash(sr))
		rterm := fmt.Sprintf("(Sig %d (MRenewal %s))", k, sc.absRenewal(sr))
		cg := key.SignHash(cs.ContractSigHash(scn))
		cterm2 := sc.sigRev(k, scn)
		switch mut {
		case "rnsig-flip":
			rs, rterm = flip(rs), junk
		case "rcsig-flip":
			cg, cterm2 = flip(cg), junk
		}
		sigsTerm = fmt.Sprintf("(Some (%s, %s))", rterm, cterm2)
		var pols []types.SatisfiedPolicy
		for _, si := range txn.SiacoinInputs[:len(inputs)] {
			sp := si.SatisfiedPolicy
			if mut == "bad-input-sig" && len(sp.Signatures) > 0 {
				sp.Signatures = []types.Signature{flip(sp.Signatures[0])}
			}
			pols = append(pols, sp)
		}
		if kind == "renew" {
			return &proto4.RPCRenewContractSecondResponse{RenterRenewalSignature: rs, RenterContractSignature: cg, RenterSatisfiedPolicies: pols}, ""
		}
		return &proto4.RPCRefreshContractSecondResponse{RenterRenewalSignature: rs, RenterContractSignature: cg, RenterSatisfiedPolicies: pols}, ""
	}
	if kind == "renew" {
		var r1 proto4.RPCRenewContractResponse
		var r3 proto4.RPCRenewContractThirdResponse
		o.err = w.twoRound(rpcID, req, &r1, func() (proto4.Object, string) { hostInputs = r1.HostInputs; return second() }, &r3)
	} else {
		var r1 proto4.RPCRefreshContractResponse
		var r3 proto4.RPCRefreshContractThirdResponse
		o.err = w.twoRound(rpcID, req, &r1, func() (proto4.Object, string) { hostInputs = r1.HostInputs; return second() }, &r3)
	}
	if o.err != nil {
		w.rentW.ReleaseInputs(nil, []types.V2Transaction{txn})
	}
	if kind == "renew" {
		o.term = fmt.Sprintf("(RRenew %d %s %s %s %d %s %s %s %v %v %s)", absID, pterm, z(allowance), z(collateral), ph, z(txFee), z(sum), cterm, chain1, chain2, sigsTerm)
	} else {
		o.term = fmt.Sprintf("(RRefresh %v %d %s %s %s %s %s %s %v %v %s)", partial, absID, pterm, z(allowance), z(collateral), z(txFee), z(sum), cterm, chain1, chain2, sigsTerm)
	}
	if ct != nil {
		o.newCtr = &ctr{abs: 2*ct.abs + 1, key: key, roots: append([]types.Hash256(nil), ct.roots...)}
	}
	return o
}
