package main

// The adversarial renter: every RPC spoken on the raw stream with core's
// Write/Read helpers, so that any single field can be corrupted.

import (
	"bytes"
	"errors"
	"net"
	"fmt"
	"strings"

	"go.sia.tech/core/consensus"
	proto4 "go.sia.tech/core/rhp/v4"
	"go.sia.tech/core/types"
)

// what one step did, before the monitors run
type outcome struct {
	kind, mut  string
	term       string
	err        error
	ct         *ctr // contract named by the request (nil: unknown to the host)
	mustReject bool
	expCost    *types.Currency  // amount due if accepted
	newRoots   []types.Hash256  // ground-truth root list if accepted
	setRoots   bool
	replay     *replayRec
	obsRev     string // latest-revision: the contract returned
	obsPrices  string // settings: the table returned
	newCtr     *ctr   // form/renew/refresh: the contract created if accepted
	deposits   []proto4.AccountDeposit
	pool       bool
	// core's own validation of the request against the latest revision and the
	// host's settings, evaluated when the server persisted something for it
	validate func() error
}

var errAbort = errors.New("renter aborted")

func cur(c types.Currency) *types.Currency { return &c }

// twoRound plays request, first response, the renter's second message, final response.
func (w *world) twoRound(id types.Specifier, req, resp1 proto4.Object, second func() (proto4.Object, string), resp3 proto4.Object) error {
	s := w.openStream()
	defer s.Close()
	if cut, err := w.sendRequest(s, id, req); cut || err != nil {
		if err == nil {
			err = errAbort
		}
		return err
	}
	if err := proto4.ReadResponse(s, resp1); err != nil {
		return err
	}
	obj, abort := second()
	switch abort {
	case "abort-close":
		return errAbort
	case "abort-error":
		proto4.WriteResponse(s, &proto4.RPCError{Code: proto4.ErrorCodeClientError, Description: "renter changed its mind"})
		return errAbort
	case "done":
		return nil
	}
	switch w.cut {
	case "cut-second-half": // the stream ends in the middle of the renter's second message
		var b bytes.Buffer
		proto4.WriteResponse(&b, obj)
		s.Write(b.Bytes()[:b.Len()/2])
		return errAbort
	case "cut-before-final": // the renter sends its second message and never reads the answer
		proto4.WriteResponse(s, obj)
		return errAbort
	}
	if err := proto4.WriteResponse(s, obj); err != nil {
		return fmt.Errorf("write second message: %w", err)
	}
	return proto4.ReadResponse(s, resp3)
}

// sendRequest writes the request, or only the part of it the cut point allows.
func (w *world) sendRequest(s net.Conn, id types.Specifier, req proto4.Object) (cut bool, err error) {
	if w.cut == "cut-request-half" {
		var b bytes.Buffer
		proto4.WriteRequest(&b, id, req)
		s.Write(b.Bytes()[:b.Len()/2])
		return true, nil
	}
	if err := proto4.WriteRequest(s, id, req); err != nil {
		return false, fmt.Errorf("write request: %w", err)
	}
	return w.cut == "cut-after-request", nil
}

func (w *world) oneRound(id types.Specifier, req, resp proto4.Object) error {
	s := w.openStream()
	defer s.Close()
	if cut, err := w.sendRequest(s, id, req); cut || err != nil {
		if err == nil {
			err = errAbort
		}
		return err
	}
	return proto4.ReadResponse(s, resp)
}

func abortOf(mut string) string {
	if mut == "abort-close" || mut == "abort-error" {
		return mut
	}
	return ""
}

// manualRev is what a renter signs when core refuses to compute the revision
// (insufficient funds): the old revision with the next number.
func manualRev(old types.V2FileContract, root types.Hash256) types.V2FileContract {
	old.RevisionNumber++
	old.FileMerkleRoot = root
	old.RenterSignature, old.HostSignature = types.Signature{}, types.Signature{}
	return old
}

func (sc *scen) replayOf(kind string) *replayRec {
	r := sc.lastOK[kind]
	if r == nil || r.ct != sc.cur {
		return nil
	}
	return r
}

// ---- free sectors ---------------------------------------------------------------

var freeMuts = join([]string{"cut-request-half", "cut-after-request", "cut-second-half", "cut-before-final", "idx-oor", "idx-huge", "idx-dup", "abort-close", "abort-error", "unknown-cid", "renewed-cid", "replay"}, chalMuts, ptMuts, rsigMuts)

func (sc *scen) doFree(mut string) *outcome {
	w := sc.w
	if mut == "replay" {
		if r := sc.replayOf("free"); r != nil {
			return &outcome{kind: "free", mut: mut, term: r.term, err: r.send(), ct: r.ct, mustReject: true}
		}
		mut = "none"
	}
	ct, id, absID, key := sc.target(&mut)
	old := sc.revOf(ct)
	var roots []types.Hash256
	if ct != nil {
		roots = ct.roots
	}
	n := len(roots)
	k := 0
	if n > 0 {
		k = sc.r.Intn(min(n, 3) + 1)
	}
	if mut == "rsig-underpay-unit" && n >= 2 {
		k = 2 + sc.r.Intn(min(n, 3)-1)
	}
	perm := sc.r.Perm(n)
	idxs := make([]uint64, 0, k+1)
	for _, p := range perm[:k] {
		idxs = append(idxs, uint64(p))
	}
	switch mut {
	case "idx-oor":
		idxs = append(idxs, uint64(n+sc.r.Intn(3)))
	case "idx-huge":
		idxs = append(idxs, 1<<63)
	case "idx-dup":
		if len(idxs) == 0 {
			if n == 0 {
				mut = "idx-oor"
				idxs = append(idxs, 0)
			} else {
				idxs = append(idxs, uint64(perm[0]), uint64(perm[0]))
			}
		} else {
			idxs = append(idxs, idxs[0])
		}
	}
	hp, pterm := sc.prices(mut)
	sc.unit = hp.FreeSectorPrice
	chal, cterm := sc.challenge(key, id, absID, old.RevisionNumber+1, mut)
	req := proto4.RPCFreeSectorsRequest{ContractID: id, Prices: hp, Indices: idxs, ChallengeSignature: chal}
	newRoots := swapRemove(roots, idxs)
	newRoot := proto4.MetaRoot(newRoots)
	var second proto4.RPCFreeSectorsSecondResponse
	rsigTerm := ""
	o := &outcome{kind: "free", mut: mut, ct: ct, mustReject: mut != "none", newRoots: newRoots, setRoots: true,
		expCost: cur(hp.RPCFreeSectorsCost(len(idxs)).RenterCost())}
	o.validate = func() error { return req.Validate(w.hostKey.PublicKey(), old) }
	var resp1 proto4.RPCFreeSectorsResponse
	var resp3 proto4.RPCFreeSectorsThirdResponse
	o.err = w.twoRound(proto4.RPCFreeSectorsID, &req, &resp1, func() (proto4.Object, string) {
		if resp1.NewMerkleRoot != newRoot {
			sc.failf("c08-host-root-differs", "free sectors %v of %d roots: host computed a different Merkle root", idxs, n)
		}
		w.runMid()
		if a := abortOf(mut); a != "" {
			return nil, a
		}
		rev, _, err := proto4.ReviseForFreeSectors(old, hp, newRoot, len(idxs))
		if err != nil {
			rev = manualRev(old, newRoot)
		}
		second.RenterSignature, rsigTerm = sc.signRevision(ct, key, rev, mut)
		return &second, ""
	}, &resp3)
	o.term = fmt.Sprintf("(RFree %d %s %s %s %d %s)", absID, pterm, zlist(idxs), cterm, sc.rootID(newRoot), optSig(rsigTerm))
	term := o.term
	o.replay = &replayRec{term: term, ct: ct, send: func() error {
		var r1 proto4.RPCFreeSectorsResponse
		var r3 proto4.RPCFreeSectorsThirdResponse
		return w.twoRound(proto4.RPCFreeSectorsID, &req, &r1, func() (proto4.Object, string) { return &second, "" }, &r3)
	}}
	return o
}

// ---- append sectors -------------------------------------------------------------

var appendMuts = join([]string{"cut-request-half", "cut-after-request", "cut-second-half", "cut-before-final", "empty", "abort-close", "abort-error", "unknown-cid", "renewed-cid", "replay"}, chalMuts, ptMuts, rsigMuts)

func (sc *scen) doAppend(mut string) *outcome {
	w := sc.w
	if mut == "replay" {
		if r := sc.replayOf("append"); r != nil {
			return &outcome{kind: "append", mut: mut, term: r.term, err: r.send(), ct: r.ct, mustReject: true}
		}
		mut = "none"
	}
	ct, id, absID, key := sc.target(&mut)
	old := sc.revOf(ct)
	var roots []types.Hash256
	if ct != nil {
		roots = ct.roots
	}
	nsec := 1 + sc.r.Intn(4)
	if mut == "empty" {
		nsec = 0
	}
	sectors := make([]types.Hash256, nsec)
	stored := make([]string, nsec)
	newRoots := append([]types.Hash256(nil), roots...)
	appended := uint64(0)
	for i := range sectors {
		if sc.r.Chance(3, 4) {
			sectors[i] = w.stored[sc.r.Intn(len(w.stored))]
			stored[i] = "true"
			newRoots = append(newRoots, sectors[i])
			appended++
		} else {
			sc.r.Bytes(sectors[i][:])
			stored[i] = "false"
		}
	}
	newRoot := proto4.MetaRoot(newRoots)
	hp, pterm := sc.prices(mut)
	chal, cterm := sc.challenge(key, id, absID, old.RevisionNumber+1, mut)
	req := proto4.RPCAppendSectorsRequest{Prices: hp, Sectors: sectors, ContractID: id, ChallengeSignature: chal}
	var rev types.V2FileContract
	var usage proto4.Usage
	rerr := errors.New("no contract")
	if ct != nil {
		// (on the zero contract of an unknown id core's arithmetic wraps and panics)
		rev, usage, rerr = proto4.ReviseForAppendSectors(old, hp, newRoot, appended)
	}
	if rerr != nil {
		rev = manualRev(old, newRoot)
	}
	sc.unit = types.ZeroCurrency
	if ct != nil && old.ExpirationHeight > hp.TipHeight {
		sc.unit = hp.RPCAppendSectorsCost(1, old.ExpirationHeight-hp.TipHeight).RenterCost()
	}
	o := &outcome{kind: "append", mut: mut, ct: ct, mustReject: mut != "none", newRoots: newRoots, setRoots: true,
		expCost: cur(usage.RenterCost())}
	o.validate = func() error { return req.Validate(w.hostKey.PublicKey()) }
	var second proto4.RPCAppendSectorsSecondResponse
	rsigTerm := ""
	var resp1 proto4.RPCAppendSectorsResponse
	var resp3 proto4.RPCAppendSectorsThirdResponse
	o.err = w.twoRound(proto4.RPCAppendSectorsID, &req, &resp1, func() (proto4.Object, string) {
		if resp1.NewMerkleRoot != newRoot {
			sc.failf("c08-host-root-differs", "append %d sectors (%d stored) to %d roots: host computed a different Merkle root", nsec, appended, len(roots))
		}
		if rerr == nil {
			// (when the contract cannot pay, the host has already given up: it computes the
			// revision before it reads the signature, and its handler is not waiting for us)
			w.runMid()
		}
		if a := abortOf(mut); a != "" {
			return nil, a
		}
		second.RenterSignature, rsigTerm = sc.signRevision(ct, key, rev, mut)
		return &second, ""
	}, &resp3)
	o.term = fmt.Sprintf("(RAppend %d %s [%s] %s %d %s)", absID, pterm, strings.Join(stored, "; "), cterm, sc.rootID(newRoot), optSig(rsigTerm))
	o.replay = &replayRec{term: o.term, ct: ct, send: func() error {
		var r1 proto4.RPCAppendSectorsResponse
		var r3 proto4.RPCAppendSectorsThirdResponse
		return w.twoRound(proto4.RPCAppendSectorsID, &req, &r1, func() (proto4.Object, string) { return &second, "" }, &r3)
	}}
	return o
}

// ---- fund accounts ----------------------------------------------------------------

var fundMuts = join([]string{"cut-request-half", "cut-after-request", "empty", "toolong", "zero-amount", "zero-account", "exceed", "overflow", "overflow-early", "overflow-early-2",
	"underpay-first", "underpay-last", "unknown-cid", "renewed-cid", "replay"}, rsigMuts)

func (sc *scen) depTerm(ds []proto4.AccountDeposit) string {
	s := make([]string, len(ds))
	for i, d := range ds {
		s[i] = fmt.Sprintf("mk_dep %d %s", sc.acctID(d.Account), z(d.Amount))
	}
	return "[" + strings.Join(s, "; ") + "]"
}

func (sc *scen) smallAmount() types.Currency {
	a := types.NewCurrency64(uint64(sc.r.Intn(1000000) + 1))
	if sc.r.Chance(1, 3) {
		a = a.Mul64(1000000000000)
	}
	return a
}

func (sc *scen) doFund(mut string) *outcome {
	w := sc.w
	if mut == "replay" {
		if r := sc.replayOf("fund"); r != nil {
			return &outcome{kind: "fund", mut: mut, term: r.term, err: r.send(), ct: r.ct, mustReject: true}
		}
		mut = "none"
	}
	ct, id, absID, key := sc.target(&mut)
	old := sc.revOf(ct)
	nd := 1 + sc.r.Intn(3)
	var deps []proto4.AccountDeposit
	for i := 0; i < nd; i++ {
		deps = append(deps, proto4.AccountDeposit{Account: sc.accts[sc.r.Intn(len(sc.accts))], Amount: sc.smallAmount()})
	}
	switch mut {
	case "empty":
		deps = nil
	case "toolong":
		deps = nil
		for i := 0; i < proto4.MaxAccountBatchSize+1; i++ {
			deps = append(deps, proto4.AccountDeposit{Account: sc.accts[0], Amount: types.NewCurrency64(1)})
		}
	case "zero-amount":
		deps[sc.r.Intn(len(deps))].Amount = types.ZeroCurrency
	case "zero-account":
		deps[sc.r.Intn(len(deps))].Account = proto4.Account{}
	case "exceed":
		deps[sc.r.Intn(len(deps))].Amount = old.RenterOutput.Value.Add(types.NewCurrency64(1))
	case "overflow": // the running total overflows 128 bits at the last element
		deps = []proto4.AccountDeposit{{Account: sc.accts[0], Amount: sc.smallAmount()}, {Account: sc.accts[1], Amount: types.MaxCurrency}}
		if sc.r.Bool() {
			deps[0].Amount = types.MaxCurrency
		}
	case "overflow-early": // ... before the last element: [max, x, y] wraps to x+y-1
		deps = []proto4.AccountDeposit{{Account: sc.accts[0], Amount: types.MaxCurrency}, {Account: sc.accts[1], Amount: sc.smallAmount().Add(types.NewCurrency64(1))},
			{Account: sc.accts[2], Amount: sc.smallAmount()}}
	case "overflow-early-2": // ... [x, max, y]
		deps = []proto4.AccountDeposit{{Account: sc.accts[0], Amount: sc.smallAmount().Add(types.NewCurrency64(1))}, {Account: sc.accts[1], Amount: types.MaxCurrency},
			{Account: sc.accts[2], Amount: sc.smallAmount()}}
	}
	total, overflow := sumDeposits(deps)
	signTotal := total
	if overflow {
		// what a host that adds modulo 2^128 would charge: the renter signs that revision
		for _, d := range deps {
			signTotal, _ = signTotal.AddWithOverflow(d.Amount)
		}
	}
	switch mut {
	case "underpay-first":
		signTotal = total.Sub(deps[0].Amount)
	case "underpay-last":
		signTotal = total.Sub(deps[len(deps)-1].Amount)
	}
	rev, _, rerr := proto4.ReviseForFundAccounts(old, signTotal)
	if rerr != nil {
		rev = manualRev(old, old.FileMerkleRoot)
	}
	sig, sterm := sc.signRevision(ct, key, rev, mut)
	req := proto4.RPCFundAccountsRequest{ContractID: id, Deposits: deps, RenterSignature: sig}
	o := &outcome{kind: "fund", mut: mut, ct: ct, mustReject: mut != "none", expCost: cur(total), deposits: deps}
	if overflow {
		o.expCost = nil
	}
	o.validate = func() error { return req.Validate() }
	var resp proto4.RPCFundAccountsResponse
	o.err = w.oneRound(proto4.RPCFundAccountsID, &req, &resp)
	o.term = fmt.Sprintf("(RFund %d %s %s)", absID, sc.depTerm(deps), sterm)
	o.replay = &replayRec{term: o.term, ct: ct, send: func() error {
		var r proto4.RPCFundAccountsResponse
		return w.oneRound(proto4.RPCFundAccountsID, &req, &r)
	}}
	return o
}

// ---- replenish accounts / pools ----------------------------------------------------

var replMuts = join([]string{"cut-request-half", "cut-after-request", "cut-second-half", "cut-before-final", "chal-other-target", "empty", "toolong", "zero-target", "zero-account", "exceed",
	"nothing-due", "duplicate", "overflow", "overflow-early", "abort-close", "abort-error", "unknown-cid", "renewed-cid", "replay"}, chalMuts, rsigMuts)

func (sc *scen) doReplenish(pool bool, mut string) *outcome {
	w := sc.w
	kind, rpcID, ledger := "replenish-accounts", proto4.RPCReplenishAccountsID, sc.bal
	if pool {
		kind, rpcID, ledger = "replenish-pools", proto4.RPCReplenishPoolsID, sc.pbal
	}
	if mut == "replay" {
		if r := sc.replayOf(kind); r != nil {
			return &outcome{kind: kind, mut: mut, term: r.term, err: r.send(), ct: r.ct, mustReject: true, pool: pool}
		}
		mut = "none"
	}
	ct, id, absID, key := sc.target(&mut)
	old := sc.revOf(ct)
	na := 1 + sc.r.Intn(3)
	perm := sc.r.Perm(len(sc.accts))
	var accts []proto4.Account
	for _, p := range perm[:na] {
		accts = append(accts, sc.accts[p])
	}
	maxBal, minBal := types.ZeroCurrency, types.MaxCurrency
	for _, a := range accts {
		if ledger[a].Cmp(maxBal) > 0 {
			maxBal = ledger[a]
		}
		if ledger[a].Cmp(minBal) < 0 {
			minBal = ledger[a]
		}
	}
	target := satAdd(maxBal, sc.smallAmount())
	if sc.r.Chance(1, 3) && !minBal.IsZero() && na > 1 {
		// between the balances: some accounts need nothing
		target = minBal.Add(types.NewCurrency64(1))
	}
	switch mut {
	case "empty":
		accts = nil
	case "toolong":
		accts = nil
		for i := 0; i < proto4.MaxAccountBatchSize+1; i++ {
			accts = append(accts, sc.accts[0])
		}
	case "zero-target":
		target = types.ZeroCurrency
	case "zero-account":
		accts[sc.r.Intn(len(accts))] = proto4.Account{}
	case "exceed":
		target = satAdd(satAdd(maxBal, old.RenterOutput.Value), types.NewCurrency64(1))
	case "nothing-due":
		if minBal.IsZero() {
			mut = "none"
		} else {
			target = minBal
		}
	case "duplicate":
		accts = append(accts, accts[0])
	case "overflow": // the deposits the host computes overflow 128 bits at the last account
		accts = []proto4.Account{sc.accts[perm[0]], sc.accts[perm[1]]}
		target = types.MaxCurrency
	case "overflow-early": // ... before the last account
		accts = []proto4.Account{sc.accts[perm[0]], sc.accts[perm[1]], sc.accts[perm[2]]}
		target = types.MaxCurrency
	}
	// ground truth: what is due; an account listed twice is topped up once
	due := types.ZeroCurrency
	dueOverflow := false
	planned := map[proto4.Account]types.Currency{}
	for _, a := range accts {
		if v, under := target.SubWithUnderflow(satAdd(ledger[a], planned[a])); !under {
			var o bool
			if due, o = due.AddWithOverflow(v); o {
				dueOverflow = true
			}
			planned[a] = satAdd(planned[a], v)
		}
	}
	mkReq := func(accts []proto4.Account, target types.Currency, id types.FileContractID) *proto4.RPCReplenishAccountsRequest {
		return &proto4.RPCReplenishAccountsRequest{Accounts: accts, Target: target, ContractID: id}
	}
	aids := make([]string, len(accts))
	for i, a := range accts {
		aids[i] = fmt.Sprint(sc.acctID(a))
	}
	alist := "[" + strings.Join(aids, "; ") + "]"
	// challenge (rhp.go:725-737): accounts, target, contract id, current revision number
	ck, k := key, sc.keyID(key.PublicKey())
	cAccts, cTarget, cID, cAbs, cRN := accts, target, id, absID, old.RevisionNumber
	switch mut {
	case "chal-stale":
		cRN--
	case "chal-plus":
		cRN++
	case "chal-otherkey":
		ck, k = sc.foreign, absForeign
	case "chal-othercid":
		cID[3] ^= 0x55
		cAbs = 777
	case "chal-other-target":
		cTarget = target.Add(types.NewCurrency64(1))
	}
	chal := ck.SignHash(mkReq(cAccts, cTarget, cID).ChallengeSigHash(cRN))
	cterm := fmt.Sprintf("(Sig %d (MChalRepl %s %s %d %d))", k, alist, z(cTarget), cAbs, cRN)
	switch mut {
	case "chal-flip":
		chal, cterm = flip(chal), junk
	case "chal-zero":
		chal, cterm = types.Signature{}, "(SJunk 0)"
	}
	req := mkReq(accts, target, id)
	req.ChallengeSignature = chal
	mustReject := mut != "none" && mut != "nothing-due" && mut != "duplicate"
	o := &outcome{kind: kind, mut: mut, ct: ct, mustReject: mustReject, expCost: cur(due), pool: pool}
	if dueOverflow {
		o.expCost = nil
	}
	o.validate = func() error { return req.Validate() }
	var second proto4.RPCReplenishAccountsSecondResponse
	rsigTerm := ""
	var resp1 proto4.RPCReplenishAccountsResponse
	var resp3 proto4.RPCReplenishAccountsThirdResponse
	o.err = w.twoRound(rpcID, req, &resp1, func() (proto4.Object, string) {
		total, tover := sumDeposits(resp1.Deposits)
		if tover || dueOverflow {
			sc.failf("c08-replenish-quote-differs", "host quotes deposits whose total overflows 128 bits (ground truth overflows: %v)", dueOverflow)
			return nil, "abort-close"
		}
		if !total.Equals(due) {
			sc.failf("c08-replenish-quote-differs", "host quotes deposits of %v, ground truth says %v are due", total, due)
		}
		o.deposits = resp1.Deposits
		if total.IsZero() {
			return nil, "done"
		}
		rev, _, err := proto4.ReviseForReplenish(old, total)
		if err == nil {
			w.runMid() // (see append: an unpayable replenish is over on the host's side)
		}
		if a := abortOf(mut); a != "" {
			return nil, a
		}
		if err != nil {
			rev = manualRev(old, old.FileMerkleRoot)
		}
		second.RenterSignature, rsigTerm = sc.signRevision(ct, key, rev, mut)
		return &second, ""
	}, &resp3)
	o.term = fmt.Sprintf("(RReplenish %v %d %s %s %s %s)", pool, absID, alist, z(target), cterm, optSig(rsigTerm))
	o.replay = &replayRec{term: o.term, ct: ct, send: func() error {
		var r1 proto4.RPCReplenishAccountsResponse
		var r3 proto4.RPCReplenishAccountsThirdResponse
		return w.twoRound(rpcID, req, &r1, func() (proto4.Object, string) {
			if r1.TotalCost().IsZero() {
				return nil, "done"
			}
			return &second, ""
		}, &r3)
	}}
	return o
}

// ---- sector roots --------------------------------------------------------------------

var rootsMuts = join([]string{"cut-request-half", "cut-after-request", "len0", "off-oor", "len-oor", "len-huge", "unknown-cid", "renewed-cid", "replay"}, ptMuts, rsigMuts)

func (sc *scen) doRoots(mut string) *outcome {
	w := sc.w
	if mut == "replay" {
		if r := sc.replayOf("roots"); r != nil {
			return &outcome{kind: "roots", mut: mut, term: r.term, err: r.send(), ct: r.ct, mustReject: true}
		}
		mut = "none"
	}
	ct, id, absID, key := sc.target(&mut)
	old := sc.revOf(ct)
	n := uint64(0)
	if ct != nil {
		n = uint64(len(ct.roots))
	}
	var off, length uint64
	if n == 0 {
		if mut == "none" {
			mut = "len-oor"
		}
		off, length = 0, 1
	} else {
		off = uint64(sc.r.Intn(int(n)))
		length = 1 + uint64(sc.r.Intn(int(n-off)))
	}
	switch mut {
	case "len0":
		length = 0
	case "off-oor":
		off = n + 1 + uint64(sc.r.Intn(2))
	case "len-oor":
		length = n - min(off, n) + 1
	case "len-huge":
		length = 1 << 40
	}
	hp, pterm := sc.prices(mut)
	sc.unit = hp.EgressPrice.Mul64(4096)
	rev, _, rerr := proto4.ReviseForSectorRoots(old, hp, length)
	if rerr != nil {
		rev = manualRev(old, old.FileMerkleRoot)
	}
	sig, sterm := sc.signRevision(ct, key, rev, mut)
	req := proto4.RPCSectorRootsRequest{Prices: hp, ContractID: id, RenterSignature: sig, Offset: off, Length: length}
	o := &outcome{kind: "roots", mut: mut, ct: ct, mustReject: mut != "none", expCost: cur(hp.RPCSectorRootsCost(length).RenterCost())}
	o.validate = func() error { return req.Validate(w.hostKey.PublicKey(), old) }
	var resp proto4.RPCSectorRootsResponse
	o.err = w.oneRound(proto4.RPCSectorRootsID, &req, &resp)
	if o.err == nil && ct != nil && off+length <= n {
		for i, r := range resp.Roots {
			if r != ct.roots[off+uint64(i)] {
				sc.failf("c08-roots-served-differ", "sector roots [%d,%d): root %d differs from the ground truth", off, off+length, i)
				break
			}
		}
	}
	o.term = fmt.Sprintf("(RRoots %d %s %d %d %s)", absID, pterm, off, length, sterm)
	o.replay = &replayRec{term: o.term, ct: ct, send: func() error {
		var r proto4.RPCSectorRootsResponse
		return w.oneRound(proto4.RPCSectorRootsID, &req, &r)
	}}
	return o
}

// ---- latest revision, settings ----------------------------------------------------------

var latestMuts = []string{"unknown-cid", "renewal-id"}

func (sc *scen) doLatest(mut string) *outcome {
	w := sc.w
	ct, id, absID, _ := sc.target(&mut)
	if mut == "renewal-id" {
		// the id the contract will have once renewed; the host does not know it yet
		if ct.renewed {
			mut = "none"
		} else {
			id, absID, ct = ct.id.V2RenewalID(), 2*ct.abs+1, nil
		}
	}
	o := &outcome{kind: "latest", mut: mut, ct: ct}
	var resp proto4.RPCLatestRevisionResponse
	o.err = w.oneRound(proto4.RPCLatestRevisionID, &proto4.RPCLatestRevisionRequest{ContractID: id}, &resp)
	o.term = fmt.Sprintf("(RLatest %d)", absID)
	if o.err == nil && ct != nil {
		o.obsRev = fmt.Sprintf("(Some (%d, %s, %d%%Z))", absID, sc.absContract(resp.Contract), len(ct.roots))
		cs := w.cm.TipState()
		h := cs.ContractSigHash(resp.Contract)
		if !ct.rev.RenterPublicKey.VerifyHash(h, resp.Contract.RenterSignature) || !ct.rev.HostPublicKey.VerifyHash(h, resp.Contract.HostSignature) {
			sc.failf("c08-latest-revision-unsigned", "RPCLatestRevision returned revision %d of contract %d without two valid signatures", resp.Contract.RevisionNumber, absID)
		}
		if resp.Contract != ct.rev {
			sc.failf("c08-latest-revision-stale", "RPCLatestRevision returned revision %d, the last persisted one is %d", resp.Contract.RevisionNumber, ct.rev.RevisionNumber)
		}
		sc.checkConsensus(ct, resp.Contract, "latest revision", false)
	}
	return o
}

func (sc *scen) doSettings() *outcome {
	w := sc.w
	o := &outcome{kind: "settings", mut: "none", term: "RSettings"}
	var resp proto4.RPCSettingsResponse
	o.err = w.oneRound(proto4.RPCSettingsID, nil, &resp)
	if o.err == nil {
		hp := resp.Settings.Prices
		o.obsPrices = "(Some " + absBody(hp, absNow+priceValiditySeconds) + ")"
		if !w.hostKey.PublicKey().VerifyHash(hp.SigHash(), hp.Signature) {
			sc.failf("c08-settings-prices-unsigned", "the price table of RPCSettings does not carry the host's signature")
		}
	}
	return o
}

// checkConsensus builds a revision transaction from rev and the confirmed
// contract element and asks core whether consensus accepts it (law L5).
func (sc *scen) checkConsensus(ct *ctr, rev types.V2FileContract, what string, fresh bool) {
	w := sc.w
	if !ct.confirmed {
		return
	}
	cs := w.cm.TipState()
	if !fresh && (ct.renewed || cs.Index.Height >= ct.rev.ProofHeight) {
		// an old latest revision of a closed contract: nothing new was signed
		return
	}
	_, fce, err := w.ec.V2FileContractElement(ct.id)
	if err != nil {
		if fresh {
			sc.failf("c08-consensus-rejects-revision", "%s: revision %d of contract %d was persisted but the contract is no longer an unresolved element of the chain state (%v)", what, rev.RevisionNumber, ct.abs, err)
		}
		return
	}
	if fce.V2FileContract.RevisionNumber >= rev.RevisionNumber {
		return // nothing to revise: the confirmed contract is the latest revision
	}
	// against the chain state as it is now: proof height reached, element resolved, ...
	txn := types.V2Transaction{FileContractRevisions: []types.V2FileContractRevision{{Parent: fce, Revision: rev}}}
	if err := consensus.ValidateV2Transaction(consensus.NewMidState(cs), txn); err != nil {
		sc.failf("c08-consensus-rejects-revision", "%s: revision %d of contract %d is not acceptable to consensus at height %d: %v", what, rev.RevisionNumber, ct.abs, cs.Index.Height, err)
	}
}

// satAdd is a + b, or the largest currency value if that does not fit: the harness
// must keep running when the code under test has created absurd balances.
func satAdd(a, b types.Currency) types.Currency {
	if c, over := a.AddWithOverflow(b); !over {
		return c
	}
	return types.MaxCurrency
}

func join(ls ...[]string) []string {
	var out []string
	for _, l := range ls {
		out = append(out, l...)
	}
	return out
}

