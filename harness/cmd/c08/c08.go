package main

// C08: the host commits only doubly-signed, monotone, value-conserving revisions.
//
// A real rhp4.Server (siamux over loopback TCP) is driven by a scripted
// adversarial renter on the raw stream.  Every call the server makes on the
// Contractor is recorded by a wrapper and judged by monitors that know nothing
// of the Coq model (signatures with core's VerifyHash, costs with core's proto4,
// acceptability with consensus.ValidateV2Transaction); the request sequences,
// renamed to the vocabulary of coq/RHP/Host.v, are written as cases together
// with the observed verdict class and persisted revision.

import (
	"context"
	"runtime/debug"
	"sync/atomic"
	"time"
	"math/big"
	"encoding/json"
	"fmt"
	"os"
	"strings"
	"sync"

	proto4 "go.sia.tech/core/rhp/v4"
	"go.sia.tech/core/types"
	"verif/harness/internal/hx"
	"verif/harness/internal/rng"
)

func main() { hx.Main("C08", runC08) }

type planStep struct {
	Kind string `json:"kind"`
	Mut  string `json:"mut"`
	// Inner, for an RPC with a renter-side second phase: a complete RPC played on
	// another stream against the same contract after the renter has read the host's
	// intermediate response and before it answers
	Inner *planStep `json:"inner,omitempty"`
}

type plan struct {
	Seed   uint64     `json:"seed"`
	Flavor string     `json:"flavor"`
	Steps  []planStep `json:"steps"`
	Mask   []bool     `json:"mask,omitempty"` // steps kept after shrinking (nil: all)
	// Late: new contracts are not confirmed at once, only by a later "mine" / "expire" step
	Late bool `json:"late,omitempty"`
	// Settings: the host settings variant of this scenario ("" = default)
	Settings string `json:"settings,omitempty"`
}

var kindMuts = map[string][]string{
	"append": appendMuts, "free": freeMuts, "fund": fundMuts, "replenish-accounts": replMuts, "replenish-pools": replMuts,
	"roots": rootsMuts, "latest": latestMuts, "settings": nil, "renew": renewMuts, "refresh-full": refreshMuts,
	"refresh-partial": refreshMuts, "form": formMuts, "expire": nil, "mine": nil, "switch": nil,
}

var revisingKinds = []string{"roots", "append", "free", "fund", "replenish-accounts", "replenish-pools", "refresh-full", "refresh-partial", "renew"}

// the RPCs in which the renter answers the host's intermediate response
var twoPhaseKinds = []string{"append", "free", "replenish-accounts", "replenish-pools", "refresh-partial", "refresh-full", "renew"}

// host settings variants (parameter spread): prices zero / 1 H / high, tight and zero limits
var settingsVariants = []string{"", "", "", "free", "one-hasting", "dear", "tight", "zero-collateral-limit"}

func applySettings(base proto4.HostSettings, variant string) proto4.HostSettings {
	s := base
	one := types.NewCurrency64(1)
	switch variant {
	case "free":
		s.Prices = proto4.HostPrices{}
	case "one-hasting":
		s.Prices = proto4.HostPrices{ContractPrice: one, StoragePrice: one, IngressPrice: one, EgressPrice: one, FreeSectorPrice: one, Collateral: one}
	case "dear":
		s.Prices = proto4.HostPrices{ContractPrice: types.Siacoins(5), StoragePrice: types.NewCurrency64(100000000000000), IngressPrice: types.NewCurrency64(100000000000000),
			EgressPrice: types.NewCurrency64(100000000000000), FreeSectorPrice: types.Siacoins(1), Collateral: types.NewCurrency64(200000000000000)}
	case "tight":
		s.MaxCollateral = types.Siacoins(40)
		s.MaxContractDuration = 250
	case "zero-collateral-limit":
		s.MaxCollateral = types.ZeroCurrency
	}
	return s
}

type weighted struct {
	kind string
	w    int
}

var stepWeights = []weighted{{"append", 22}, {"free", 14}, {"fund", 14}, {"replenish-accounts", 10}, {"replenish-pools", 8},
	{"roots", 12}, {"latest", 5}, {"settings", 2}, {"renew", 4}, {"refresh-full", 3}, {"refresh-partial", 3}, {"form", 3}, {"mine", 3}, {"switch", 3}}

func makePlan(seed uint64, nsteps int) plan {
	r := rng.New(seed ^ 0xC08C08)
	p := plan{Seed: seed}
	switch x := r.Intn(100); {
	case x < 55:
		p.Flavor = "rich"
	case x < 80:
		p.Flavor = "poor"
	case x < 96:
		p.Flavor = "short"
	default:
		p.Flavor = "closed"
	}
	r2 := rng.New(seed ^ 0x5E77)
	p.Late = r2.Chance(1, 4)
	p.Settings = settingsVariants[r2.Intn(len(settingsVariants))]
	if p.Settings == "zero-collateral-limit" && r2.Chance(1, 2) {
		p.Settings = "" // (no contract can be formed under it: keep it rare)
	}
	total := 0
	for _, sw := range stepWeights {
		total += sw.w
	}
	if r.Chance(1, 4) {
		p.Steps = append(p.Steps, planStep{Kind: "form", Mut: formMuts[r.Intn(len(formMuts))]})
	}
	p.Steps = append(p.Steps, planStep{Kind: "form", Mut: "none"})
	for i := 0; i < nsteps; i++ {
		kind := ""
		if i < 2 && r.Chance(3, 4) {
			kind = "append"
		} else {
			x := r.Intn(total)
			for _, sw := range stepWeights {
				if x < sw.w {
					kind = sw.kind
					break
				}
				x -= sw.w
			}
		}
		mut := "none"
		if kind == "form" && r.Chance(1, 2) {
			// a second live contract of the same renter (mix): later steps "switch" between them
		} else if ms := kindMuts[kind]; len(ms) > 0 && (r.Chance(9, 20) || kind == "form") && !(i < 2 && kind == "append") {
			mut = ms[r.Intn(len(ms))]
		}
		ps := planStep{Kind: kind, Mut: mut}
		if mut == "none" && contains(twoPhaseKinds, kind) && r.Chance(1, 5) {
			ps.Inner = &planStep{Kind: revisingKinds[r.Intn(len(revisingKinds))], Mut: "none"}
		}
		p.Steps = append(p.Steps, ps)
		if p.Flavor == "short" && i >= 3 && r.Chance(1, 6) {
			p.Steps = append(p.Steps, planStep{Kind: "expire", Mut: "none"})
			// two well-formed revising RPCs right after the proof height is reached
			for j := 0; j < 2; j++ {
				p.Steps = append(p.Steps, planStep{Kind: revisingKinds[r.Intn(len(revisingKinds))], Mut: "none"})
			}
		}
	}
	return p
}

// ---- running a scenario ---------------------------------------------------------

type scenResult struct {
	sc    *scen
	plan  plan
	cfg   string
	canon string
}

var runCounter uint64

func runPlan(w *world, p plan) *scenResult {
	runCounter++
	sc := newScen(w, p.Seed*1000003+runCounter)
	closed := p.Flavor == "closed"
	base := w.set
	w.set = applySettings(base, p.Settings)
	defer func() { w.set = base; w.sr.Update(base) }()
	{
		s := w.set
		s.AcceptingContracts = !closed
		w.sr.Update(s)
	}
	sc.late = p.Late
	for i, st := range p.Steps {
		if p.Mask != nil && !p.Mask[i] {
			continue
		}
		sc.r = rng.New(p.Seed*7919 + uint64(i)*104729 + 17)
		progress.Store(fmt.Sprintf("step %d (%s/%s)", i, st.Kind, st.Mut))
		sc.step(st, p.Flavor)
	}
	bp := w.set.Prices
	cfg := fmt.Sprintf("(mk_cfg %d %v %s %d %s %d)", absHost, !closed, z(w.set.MaxCollateral), w.set.MaxContractDuration, absBody(bp, 0), priceValiditySeconds)
	return &scenResult{sc: sc, plan: p, cfg: cfg}
}

func (sc *scen) step(st planStep, flavor string) { sc.stepX(st, flavor, false) }

// stepX plays one step.  inner: the step runs while another RPC of this renter on
// the same contract is waiting for the renter's second message, i.e. while that
// RPC's handler holds the contract lock: it has to be refused and to change nothing.
func (sc *scen) stepX(st planStep, flavor string, inner bool) {
	w := sc.w
	sc.unit = types.ZeroCurrency
	if st.Kind == "expire" {
		// mine until the tip is at the proof height of the current contract ("none"),
		// one below it ("ph-1") or one above it ("ph+1")
		if sc.cur != nil {
			tip := w.cm.Tip().Height
			goal := sc.cur.rev.ProofHeight
			switch st.Mut {
			case "ph-1":
				goal--
			case "ph+1":
				goal++
			}
			if goal > tip {
				w.mine(int(goal - tip))
				sc.afterMine("expire")
			}
			sc.steps = append(sc.steps, stepLog{Kind: "expire", Mut: st.Mut, Verdict: "-",
				Detail: fmt.Sprintf("tip %d, proof height %d", w.cm.Tip().Height, sc.cur.rev.ProofHeight)})
		}
		return
	}
	switch st.Kind {
	case "mine":
		w.mine(1)
		sc.afterMine("mine")
		sc.steps = append(sc.steps, stepLog{Kind: "mine", Mut: "none", Verdict: "-"})
		return
	case "switch":
		// continue on another live contract of this renter
		var live []*ctr
		for _, c := range sc.cts {
			if !c.renewed && c != sc.cur {
				live = append(live, c)
			}
		}
		if len(live) > 0 {
			sc.cur = live[sc.r.Intn(len(live))]
			sc.steps = append(sc.steps, stepLog{Kind: "switch", Mut: "none", Verdict: "-", Detail: fmt.Sprintf("to contract %d", sc.cur.abs)})
		}
		return
	}
	if sc.cur == nil && st.Kind != "form" && st.Kind != "settings" {
		// no contract (formation refused): everything else names an unknown contract
		if ms := kindMuts[st.Kind]; contains(ms, "unknown-cid") {
			st.Mut = "unknown-cid"
		} else {
			return
		}
	}
	n0 := w.rec.ncalls()
	sw0 := w.ss.nwrites()
	snap0 := ""
	if !inner {
		snap0 = sc.snapshot()
	}
	tip, _ := w.ec.Tip()
	height := tip.Height
	innerRan := false
	if st.Inner != nil && !inner {
		w.mid = func() {
			innerRan = true
			sc.stepX(*st.Inner, flavor, true)
			n0 = w.rec.ncalls() // what follows is the outer RPC's
		}
	}
	isCut := strings.HasPrefix(st.Mut, "cut-")
	if isCut {
		w.cut = st.Mut
	}
	var o *outcome
	switch st.Kind {
	case "form":
		o = sc.doForm(st.Mut, flavor)
	case "append":
		o = sc.doAppend(st.Mut)
	case "free":
		o = sc.doFree(st.Mut)
	case "fund":
		o = sc.doFund(st.Mut)
	case "replenish-accounts":
		o = sc.doReplenish(false, st.Mut)
	case "replenish-pools":
		o = sc.doReplenish(true, st.Mut)
	case "roots":
		o = sc.doRoots(st.Mut)
	case "latest":
		o = sc.doLatest(st.Mut)
	case "settings":
		o = sc.doSettings()
	case "renew", "refresh-full", "refresh-partial":
		o = sc.doRenewal(st.Kind, st.Mut)
	default:
		panic("unknown step kind " + st.Kind)
	}
	w.mid = nil
	w.cut = ""
	if innerRan && st.Inner.Kind == "expire" {
		// blocks arrived between the two phases: the request is exported with the tip the
		// host sees when it has the renter's signature (the model has one height per request)
		t2, _ := w.ec.Tip()
		height = t2.Height
	}
	if o.validate != nil && (strings.HasPrefix(st.Mut, "form-") || strings.HasPrefix(st.Mut, "ren-") || strings.HasPrefix(st.Mut, "coll-")) {
		// whether a parameter is out of range depends on the host's settings and prices
		// of this scenario: core's own validation of the request is the ground truth
		o.mustReject = o.validate() != nil
	}
	if isCut {
		// the host has everything it needs when only its last answer is not read: a
		// single-round request that was sent in full, or a second message that was
		oneRoundKind := st.Kind == "fund" || st.Kind == "roots" || st.Kind == "latest" || st.Kind == "settings"
		if st.Mut == "cut-before-final" || (st.Mut == "cut-after-request" && oneRoundKind) {
			o.mustReject = false
		}
	}
	if o.ct != nil && st.Kind != "latest" && st.Kind != "form" && height >= o.ct.rev.ProofHeight {
		o.mustReject = true // the proof window of the named contract is open
	}
	var diag string
	if inner {
		o.mustReject = true // the contract is locked by the RPC that is waiting for its second message
		diag = w.takeFinished()
	} else {
		diag = w.quiesce()
	}
	calls := w.rec.since(n0)
	var ok []call
	for _, c := range calls {
		if c.Err == nil {
			ok = append(ok, c)
		}
	}
	// the outcome, by structure: the Contractor stored something / the renter was
	// served without anything being stored / the renter was refused
	verdict := "VInvalid"
	switch {
	case len(ok) > 0:
		verdict = "VOk"
	case o.err == nil:
		verdict = "VOkNoRev"
	}
	where := fmt.Sprintf("%s/%s", o.kind, o.mut)
	if inner {
		where = "interleaved " + where
		if len(calls) > 0 || verdict == "VOk" {
			sc.failf("c08-rpc-on-locked-contract-accepted", "%s: played while another RPC on the same contract was waiting for the renter's second message (its handler holds the contract lock): the server did not refuse it (verdict %s, %d Contractor calls)",
				where, verdict, len(calls))
		}
	} else if st.Inner != nil && !innerRan {
		where += " (interleaving not reached)"
	}

	// ---- monitors on every revision the server signed and handed to the Contractor
	for _, c := range calls {
		sc.judgeCall(o, c, where)
		if o.validate != nil {
			if err := o.validate(); err != nil {
				sc.failf("c08-out-of-range-request-accepted", "%s: the server signed and submitted %s (revision %d), but core's validation of the request against the latest revision and the host's settings says: %v",
					where, c.Kind, c.Rev.RevisionNumber, err)
			}
		}
	}
	if len(calls) > 1 {
		sc.failf("c08-more-than-one-persist", "%s: the server made %d mutating Contractor calls in one RPC", where, len(calls))
	}
	if o.mustReject && len(calls) > 0 {
		sc.failf("c08-corrupted-request-accepted", "%s: the server signed and submitted revision %d (%s) for a request that must be rejected (Contractor said: %v)",
			where, calls[0].Rev.RevisionNumber, calls[0].Kind, calls[0].Err)
	}
	if verdict == "VOk" && o.mustReject {
		sc.failf("c08-corrupted-request-accepted", "%s: RPC succeeded", where)
	}

	// ---- ground truth update
	for _, c := range ok {
		switch c.Kind {
		case "add":
			nc := o.newCtr
			if nc == nil {
				sc.failf("c08-unexpected-contract", "%s: AddV2Contract", where)
				continue
			}
			nc.id, nc.rev, nc.formed = c.ID, c.Rev, c.Rev
			sc.cts = append(sc.cts, nc)
			sc.cur = nc
		case "renew":
			nc := o.newCtr
			if nc == nil || o.ct == nil {
				sc.failf("c08-unexpected-contract", "%s: RenewV2Contract", where)
				continue
			}
			o.ct.renewed = true
			nc.id, nc.rev, nc.formed = c.ID, c.Rev, c.Rev
			sc.cts = append(sc.cts, nc)
			sc.cur = nc
		default:
			ct := sc.byID(c.ID)
			if ct == nil {
				continue
			}
			ct.rev = c.Rev
			if o.setRoots {
				ct.roots = o.newRoots
			}
			ledger := sc.bal
			if c.Kind == "credit-pools" {
				ledger = sc.pbal
			}
			for _, d := range c.Deposits {
				ledger[d.Account] = satAdd(ledger[d.Account], d.Amount)
			}
		}
	}
	if len(ok) > 0 {
		sc.accepted++
		if o.replay != nil {
			sc.lastOK[o.kind] = o.replay
		}
	} else if o.mustReject {
		sc.rejectedCorrupt++
	}
	// a new contract is confirmed before anything else happens, unless the scenario
	// leaves that to a later block (RPCs on a contract that is not on chain yet)
	if len(ok) > 0 && (ok[0].Kind == "add" || ok[0].Kind == "renew") {
		if ok[0].Kind == "add" && len(sc.cts) > 1 {
			sc.second++
		}
		if !sc.late {
			w.mine(1)
			sc.afterMine(where)
		}
	}

	if inner {
		// the contract is locked: its state is read, against the ground truth, when the outer RPC is done
		if w.ss.nwrites() != sw0 {
			sc.failf("c08-rejected-request-changed-state", "%s (%s): the sector store was written", where, verdict)
		}
		sc.steps = append(sc.steps, stepLog{Kind: "interleaved:" + o.kind, Mut: o.mut, Verdict: verdict, Detail: diag})
		return
	}

	// ---- a request that was not accepted changes nothing
	snap1 := sc.snapshot()
	if len(ok) == 0 {
		if snap1 != snap0 {
			sc.failf("c08-rejected-request-changed-state", "%s (%s): contractor state before and after differ:\n%s\n---\n%s", where, verdict, snap0, snap1)
		}
		if w.ss.nwrites() != sw0 {
			sc.failf("c08-rejected-request-changed-state", "%s (%s): the sector store was written", where, verdict)
		}
	}
	if strings.Contains(snap1, "contract already locked") {
		// nothing holds a contract lock between RPCs (quiesce waited for every handler)
		sc.failf("c08-contract-lock-leaked", "%s (%s): a contract of this renter can no longer be locked although no handler is running:\n%s", where, verdict, snap1)
	} else if t := sc.truth(); t != snap1 {
		sc.failf("c08-contractor-state-differs", "%s (%s): contractor state differs from the ground truth:\n%s\n---\n%s", where, verdict, snap1, t)
	}

	// ---- the case
	obsRev := "None"
	if len(ok) == 1 {
		c := ok[0]
		ct := sc.byID(c.ID)
		nroots := 0
		if ct != nil {
			nroots = len(ct.roots)
		}
		if c.HasRoots {
			nroots = len(c.Roots)
		}
		abs := uint64(0)
		if ct != nil {
			abs = ct.abs
		}
		obsRev = fmt.Sprintf("(Some (%d, %s, %d%%Z))", abs, sc.absContract(c.Rev), nroots)
	} else if o.obsRev != "" {
		obsRev = o.obsRev
	}
	obsPrices := "None"
	if o.obsPrices != "" {
		obsPrices = o.obsPrices
	}
	if isCut && len(ok) == 0 {
		// a stream that ends inside a message has no request term: judged by the monitors only
		sc.cutRefused++
	} else {
		sc.trace = append(sc.trace, fmt.Sprintf("(mk_req %d %d %s, mk_obs %s %s %s)", absNow, height, o.term, verdict, obsRev, obsPrices))
	}
	sc.steps = append(sc.steps, stepLog{Kind: o.kind, Mut: o.mut, Verdict: verdict, Detail: diag})
}

func contains(l []string, s string) bool {
	for _, x := range l {
		if x == s {
			return true
		}
	}
	return false
}

func (sc *scen) byID(id types.FileContractID) *ctr {
	for _, c := range sc.cts {
		if c.id == id {
			return c
		}
	}
	return nil
}

// judgeCall evaluates the property's own predicates on one call the server made
// on the Contractor, whether or not the Contractor accepted it: the revision in
// it carries the host's signature.
func (sc *scen) judgeCall(o *outcome, c call, where string) {
	w := sc.w
	cs := w.cm.TipState()
	h := cs.ContractSigHash(c.Rev)
	switch c.Kind {
	case "add":
		if !c.Rev.RenterPublicKey.VerifyHash(h, c.Rev.RenterSignature) {
			sc.failf("c08-renter-signature-invalid", "%s: formation contract without a valid renter signature", where)
		}
		if c.Rev.HostPublicKey != w.hostKey.PublicKey() || !c.Rev.HostPublicKey.VerifyHash(h, c.Rev.HostSignature) {
			sc.failf("c08-host-signature-invalid", "%s: formation contract without a valid host signature", where)
		}
		if c.Rev.RevisionNumber != 0 {
			sc.failf("c08-revnum-not-increasing", "%s: formation contract with revision number %d", where, c.Rev.RevisionNumber)
		}
		return
	case "renew":
		old := o.ct
		if old == nil || c.Renewal == nil {
			sc.failf("c08-revision-for-unknown-contract", "%s: RenewV2Contract for a contract the renter does not have", where)
			return
		}
		r := *c.Renewal
		sc.judgeRevisable(old, c, where)
		if !old.rev.RenterPublicKey.VerifyHash(h, c.Rev.RenterSignature) {
			sc.failf("c08-renter-signature-invalid", "%s: renewed contract without a valid renter signature", where)
		}
		if !old.rev.HostPublicKey.VerifyHash(h, c.Rev.HostSignature) {
			sc.failf("c08-host-signature-invalid", "%s: renewed contract without a valid host signature", where)
		}
		rh := cs.RenewalSigHash(r)
		if !old.rev.RenterPublicKey.VerifyHash(rh, r.RenterSignature) {
			sc.failf("c08-renter-signature-invalid", "%s: renewal without a valid renter signature", where)
		}
		if !old.rev.HostPublicKey.VerifyHash(rh, r.HostSignature) {
			sc.failf("c08-host-signature-invalid", "%s: renewal without a valid host signature", where)
		}
		if c.Rev.RenterPublicKey != old.rev.RenterPublicKey || c.Rev.HostPublicKey != old.rev.HostPublicKey {
			sc.failf("c08-immutable-field-changed", "%s: renewal changes a key", where)
		}
		if !r.FinalRenterOutput.Value.Add(r.RenterRollover).Equals(old.rev.RenterOutput.Value) ||
			!r.FinalHostOutput.Value.Add(r.HostRollover).Equals(old.rev.HostOutput.Value) {
			sc.failf("c08-payout-sum-changed", "%s: renewal moves value between the parties: renter %v+%v vs %v, host %v+%v vs %v", where,
				r.FinalRenterOutput.Value, r.RenterRollover, old.rev.RenterOutput.Value, r.FinalHostOutput.Value, r.HostRollover, old.rev.HostOutput.Value)
		}
		if c.Rev.RevisionNumber != 0 {
			sc.failf("c08-revnum-not-increasing", "%s: renewed contract starts at revision number %d", where, c.Rev.RevisionNumber)
		}
		return
	}
	ct := sc.byID(c.ID)
	if ct == nil {
		sc.failf("c08-revision-for-unknown-contract", "%s: %s for a contract the renter does not have", where, c.Kind)
		return
	}
	prev, rev := ct.rev, c.Rev
	betweenPhases := sc.judgeRevisable(ct, c, where)
	if rev.RevisionNumber <= prev.RevisionNumber {
		sc.failf("c08-revnum-not-increasing", "%s: %s with revision number %d after %d", where, c.Kind, rev.RevisionNumber, prev.RevisionNumber)
	}
	if !prev.RenterPublicKey.VerifyHash(h, rev.RenterSignature) {
		sc.failf("c08-renter-signature-invalid", "%s: the renter signature of revision %d does not verify over that revision", where, rev.RevisionNumber)
	}
	if !prev.HostPublicKey.VerifyHash(h, rev.HostSignature) {
		sc.failf("c08-host-signature-invalid", "%s: the host signature of revision %d does not verify over that revision", where, rev.RevisionNumber)
	}
	if rev.RenterPublicKey != prev.RenterPublicKey || rev.HostPublicKey != prev.HostPublicKey || rev.ProofHeight != prev.ProofHeight ||
		rev.ExpirationHeight != prev.ExpirationHeight || !rev.TotalCollateral.Equals(prev.TotalCollateral) ||
		rev.RenterOutput.Address != prev.RenterOutput.Address || rev.HostOutput.Address != prev.HostOutput.Address {
		sc.failf("c08-immutable-field-changed", "%s: revision %d changes keys, heights, total collateral or an address", where, rev.RevisionNumber)
	}
	if !rev.RenterOutput.Value.Add(rev.HostOutput.Value).Equals(prev.RenterOutput.Value.Add(prev.HostOutput.Value)) {
		sc.failf("c08-payout-sum-changed", "%s: revision %d: %v+%v, before %v+%v", where, rev.RevisionNumber, rev.RenterOutput.Value, rev.HostOutput.Value, prev.RenterOutput.Value, prev.HostOutput.Value)
	}
	if rev.RenterOutput.Value.Cmp(prev.RenterOutput.Value) > 0 {
		sc.failf("c08-renter-payout-increased", "%s: revision %d raises the renter payout from %v to %v", where, rev.RevisionNumber, prev.RenterOutput.Value, rev.RenterOutput.Value)
	} else {
		paid := prev.RenterOutput.Value.Sub(rev.RenterOutput.Value)
		if o.expCost != nil && !paid.Equals(*o.expCost) {
			sc.failf("c08-cost-mismatch", "%s: revision %d lowers the renter payout by %v, the amount due is %v", where, rev.RevisionNumber, paid, *o.expCost)
		}
		if c.Kind != "revise" {
			// exact arithmetic: the amounts may not fit 128 bits together
			credited := new(big.Int)
			for _, d := range c.Deposits {
				credited.Add(credited, d.Amount.Big())
			}
			switch credited.Cmp(paid.Big()) {
			case 1:
				sc.failf("c08-credited-more-than-paid", "%s: revision %d lowers the renter payout by %v H but %s credits %v H to %d accounts",
					where, rev.RevisionNumber, paid.Big(), c.Kind, credited, len(c.Deposits))
			case -1:
				sc.failf("c08-deposit-total-mismatch", "%s: revision %d lowers the renter payout by %v H but credits only %v H", where, rev.RevisionNumber, paid.Big(), credited)
			}
		}
		if !c.Usage.RenterCost().Equals(paid) {
			sc.failf("c08-cost-mismatch", "%s: revision %d lowers the renter payout by %v, the usage handed to the Contractor says %v", where, rev.RevisionNumber, paid, c.Usage.RenterCost())
		}
	}
	if rev.MissedHostValue.Cmp(prev.MissedHostValue) > 0 || rev.MissedHostValue.Cmp(rev.HostOutput.Value) > 0 ||
		rev.Capacity < prev.Capacity || rev.Filesize > rev.Capacity {
		sc.failf("c08-storage-fields-wrong", "%s: revision %d: missed host value %v (before %v), capacity %d (before %d), filesize %d", where,
			rev.RevisionNumber, rev.MissedHostValue, prev.MissedHostValue, rev.Capacity, prev.Capacity, rev.Filesize)
	}
	roots := ct.roots
	if o.setRoots {
		roots = o.newRoots
	}
	if rev.Filesize != uint64(len(roots))*proto4.SectorSize || rev.FileMerkleRoot != proto4.MetaRoot(roots) {
		sc.failf("c08-storage-fields-wrong", "%s: revision %d: filesize %d / Merkle root do not match the %d ground-truth roots", where, rev.RevisionNumber, rev.Filesize, len(roots))
	}
	if c.HasRoots && !sameRoots(c.Roots, roots) {
		sc.failf("c08-storage-fields-wrong", "%s: revision %d: the root list handed to the Contractor differs from the ground truth", where, rev.RevisionNumber)
	}
	if c.Err == nil && !betweenPhases {
		sc.checkConsensus(ct, rev, where, true)
	}
}

// judgeRevisable: ground truth about the chain decides whether the host may still
// sign anything for this contract.  Once a renewal of it has been accepted (the
// harness confirms it in the next block) or the tip has reached its proof height,
// consensus accepts no further revision, so a revision (or renewal) the server
// hands to the Contractor can never be the host's "latest revision acceptable to
// consensus".
// afterMine: contracts of the scenario that a block has put on chain are confirmed.
func (sc *scen) afterMine(where string) {
	for _, ct := range sc.cts {
		if ct.confirmed {
			continue
		}
		_, fce, err := sc.w.ec.V2FileContractElement(ct.id)
		if err != nil {
			sc.failf("c08-new-contract-not-confirmed", "%s: contract %d is not on chain after a block: %v", where, ct.abs, err)
			continue
		}
		ct.confirmed = true
		if fce.V2FileContract != ct.formed {
			sc.failf("c08-new-contract-not-confirmed", "%s: the confirmed contract %d differs from the one the host stored", where, ct.abs)
		}
	}
}

func (sc *scen) judgeRevisable(ct *ctr, c call, where string) (betweenPhases bool) {
	tip := sc.w.cm.Tip().Height
	sc.w.rec.mu.Lock()
	lockTip, locked := sc.w.rec.lockTip[ct.id]
	sc.w.rec.mu.Unlock()
	switch {
	case !ct.renewed && tip >= ct.rev.ProofHeight && locked && lockTip < ct.rev.ProofHeight:
		// the proof height was reached while the handler held the lock (a renter that
		// stalls its second message until a block arrives)
		sc.failf("c08-revision-after-block-between-phases", "%s: the contract was revisable when it was locked (tip %d, proof height %d) but the tip was %d when the server signed and submitted %s (revision %d): consensus accepts no revision in a block of height %d (Contractor said: %v)",
			where, lockTip, ct.rev.ProofHeight, tip, c.Kind, c.Rev.RevisionNumber, tip+1, c.Err)
		return true
	case ct.renewed:
		sc.failf("c08-revision-of-unrevisable-contract", "%s: the server signed and submitted %s (revision %d) for contract %d, which has been renewed: the on-chain element is resolved (Contractor said: %v)",
			where, c.Kind, c.Rev.RevisionNumber, ct.abs, c.Err)
	case tip >= ct.rev.ProofHeight:
		sc.failf("c08-revision-of-unrevisable-contract", "%s: the server signed and submitted %s (revision %d) for contract %d at tip height %d, its proof height is %d: consensus accepts no revision in a block of height %d (Contractor said: %v)",
			where, c.Kind, c.Rev.RevisionNumber, ct.abs, tip, ct.rev.ProofHeight, tip+1, c.Err)
	}
	return false
}

func sameRoots(a, b []types.Hash256) bool {
	if len(a) != len(b) {
		return false
	}
	for i := range a {
		if a[i] != b[i] {
			return false
		}
	}
	return true
}

func renderState(rev types.V2FileContract, roots []types.Hash256) string {
	var sb strings.Builder
	fmt.Fprintf(&sb, "rev=%d renter=%v host=%v missed=%v coll=%v fs=%d cap=%d root=%x ph=%d eh=%d rsig=%x hsig=%x roots=", rev.RevisionNumber,
		rev.RenterOutput.Value.ExactString(), rev.HostOutput.Value.ExactString(), rev.MissedHostValue.ExactString(), rev.TotalCollateral.ExactString(),
		rev.Filesize, rev.Capacity, rev.FileMerkleRoot[:4], rev.ProofHeight, rev.ExpirationHeight, rev.RenterSignature[:4], rev.HostSignature[:4])
	for _, r := range roots {
		fmt.Fprintf(&sb, "%x,", r[:3])
	}
	return sb.String()
}

// snapshot reads the Contractor's state of this scenario's contracts and accounts.
func (sc *scen) snapshot() string {
	w := sc.w
	var sb strings.Builder
	for _, ct := range sc.cts {
		rs, unlock, err := w.ec.LockV2Contract(ct.id)
		if err != nil {
			fmt.Fprintf(&sb, "contract %d: %v\n", ct.abs, err)
			continue
		}
		fmt.Fprintf(&sb, "contract %d: %s renewed=%v\n", ct.abs, renderState(rs.Revision, rs.Roots), rs.Renewed)
		unlock()
	}
	ab, _ := w.ec.AccountBalances(sc.accts)
	pb, _ := w.ec.PoolBalances(sc.accts)
	for i := range sc.accts {
		fmt.Fprintf(&sb, "account %d: %v pool %v\n", i+1, ab[i].ExactString(), pb[i].ExactString())
	}
	return sb.String()
}

// truth renders the same from the scenario's ground truth.
func (sc *scen) truth() string {
	var sb strings.Builder
	for _, ct := range sc.cts {
		fmt.Fprintf(&sb, "contract %d: %s renewed=%v\n", ct.abs, renderState(ct.rev, ct.roots), ct.renewed)
	}
	for i, a := range sc.accts {
		fmt.Fprintf(&sb, "account %d: %v pool %v\n", i+1, sc.bal[a].ExactString(), sc.pbal[a].ExactString())
	}
	return sb.String()
}

// ---- concurrency: two RPCs on one contract from two goroutines -------------------------

func raceScenario(w *world, seed uint64) []failure {
	runCounter++
	sc := newScen(w, seed*1000003+runCounter)
	sc.r = rng.New(seed + 5)
	sc.step(planStep{Kind: "form", Mut: "none"}, "rich")
	if sc.cur == nil {
		return sc.fails
	}
	sc.step(planStep{Kind: "append", Mut: "none"}, "rich")
	for round := 0; round < 4; round++ {
		ct := sc.cur
		old := ct.rev
		n0 := w.rec.ncalls()
		snap0 := sc.snapshot()
		// both goroutines present a well-formed request built on the same revision
		var reqs [2]proto4.RPCFundAccountsRequest
		var deps [2][]proto4.AccountDeposit
		for i := range reqs {
			deps[i] = []proto4.AccountDeposit{{Account: sc.accts[i], Amount: sc.smallAmount()}}
			rev, _, err := proto4.ReviseForFundAccounts(old, deps[i][0].Amount)
			must(err)
			sig, _ := sc.signRevision(ct, ct.key, rev, "none")
			reqs[i] = proto4.RPCFundAccountsRequest{ContractID: ct.id, Deposits: deps[i], RenterSignature: sig}
		}
		var wg sync.WaitGroup
		var errs [2]error
		for i := range reqs {
			wg.Add(1)
			go func(i int) {
				defer wg.Done()
				s, err := w.tr.DialStream(context.Background())
				if err != nil {
					errs[i] = err
					return
				}
				defer s.Close()
				if err := proto4.WriteRequest(s, proto4.RPCFundAccountsID, &reqs[i]); err != nil {
					errs[i] = err
					return
				}
				var resp proto4.RPCFundAccountsResponse
				errs[i] = proto4.ReadResponse(s, &resp)
			}(i)
		}
		wg.Wait()
		w.started += 2
		w.quiesce()
		calls := w.rec.since(n0)
		nok := 0
		for _, c := range calls {
			o := &outcome{kind: "race-fund", mut: "none", ct: ct}
			for i := range deps {
				if len(c.Deposits) == 1 && c.Deposits[0] == deps[i][0] {
					o.expCost = cur(deps[i][0].Amount)
				}
			}
			sc.judgeCall(o, c, "race-fund")
			if c.Err == nil {
				nok++
				ct.rev = c.Rev
				for _, d := range c.Deposits {
					sc.bal[d.Account] = satAdd(sc.bal[d.Account], d.Amount)
				}
			}
		}
		nerr := 0
		for _, e := range errs {
			if e != nil {
				nerr++
			}
		}
		// both requests sign revision n+1 of the same contract: at most one can be persisted
		if nok > 1 {
			sc.failf("c08-concurrent-double-persist", "two concurrent fund-accounts RPCs on revision %d were both persisted", old.RevisionNumber)
		}
		if nok+nerr != 2 {
			sc.failf("c08-concurrent-outcome", "two concurrent RPCs: %d persisted, %d errors", nok, nerr)
		}
		if nok == 0 && sc.snapshot() != snap0 {
			sc.failf("c08-rejected-request-changed-state", "concurrent fund-accounts: nothing persisted but the state changed")
		}
		if t := sc.truth(); t != sc.snapshot() {
			sc.failf("c08-contractor-state-differs", "after concurrent fund-accounts the contractor state differs from the ground truth:\n%s\n---\n%s", sc.snapshot(), t)
		}
	}
	return sc.fails
}

// ---- driver --------------------------------------------------------------------------

func seedKeys(r *rng.R) func() types.PrivateKey {
	return func() types.PrivateKey {
		b := make([]byte, 32)
		r.Bytes(b)
		return types.NewPrivateKeyFromSeed(b)
	}
}

func hasKind(fs []failure, kind string) bool {
	for _, f := range fs {
		if f.kind == kind {
			return true
		}
	}
	return false
}

// env owns the world and runs scenarios so that one that cannot complete (a panic
// in the harness or the code under test, a host that never answers, a chain that can
// no longer be mined) is reported and the run goes on in a fresh world.
type env struct {
	w        *world
	mk       func() *world
	deadline time.Duration
}

var progress atomic.Value // where the running scenario is, for the did-not-complete report

// maxHeight: the test network's difficulty adjustment makes instant mining slow
// beyond a few thousand blocks (2500 blocks: 40 ms per 500, 4500: 27 s per 500)
const maxHeight = 1800

func (e *env) fresh() {
	if e.w != nil {
		old := e.w
		go func() { defer func() { recover() }(); old.close() }()
	}
	e.w = e.mk()
}

// run plays a plan; nil result and a failure if it did not complete.
func (e *env) run(p plan) (*scenResult, *failure) {
	return e.guard(func(w *world) *scenResult { return runPlan(w, p) })
}

func (e *env) guard(body func(w *world) *scenResult) (*scenResult, *failure) {
	if e.w == nil || e.w.cm.Tip().Height > maxHeight {
		e.fresh()
	}
	w := e.w
	type ret struct {
		res *scenResult
		err string
	}
	ch := make(chan ret, 1)
	progress.Store("start")
	go func() {
		defer func() {
			if r := recover(); r != nil {
				stack := string(debug.Stack())
				if len(stack) > 1500 {
					stack = stack[:1500]
				}
				ch <- ret{nil, fmt.Sprintf("panic: %v\n%s", r, stack)}
			}
		}()
		ch <- ret{body(w), ""}
	}()
	var why string
	select {
	case r := <-ch:
		if r.err == "" {
			return r.res, nil
		}
		why = r.err
	case <-time.After(e.deadline):
		why = fmt.Sprintf("no result within %v", e.deadline)
	}
	at, _ := progress.Load().(string)
	// the world may hold a stuck handler or a broken chain: abandon it
	e.w = nil
	go func() { defer func() { recover() }(); w.close() }()
	return nil, &failure{"c08-scenario-did-not-complete", fmt.Sprintf("the scenario stopped at %s: %s", at, why)}
}

// shrink drops steps while a failure of the same kind persists.
func (e *env) shrink(p plan, kind string) (plan, *scenResult) {
	mask := make([]bool, len(p.Steps))
	for i := range mask {
		mask[i] = p.Mask == nil || p.Mask[i]
	}
	best := p
	best.Mask = mask
	var bestRes *scenResult
	budget := 40
	for i := len(mask) - 1; i >= 0 && budget > 0; i-- {
		if !mask[i] || (p.Steps[i].Kind == "form" && p.Steps[i].Mut == "none") {
			continue
		}
		try := append([]bool(nil), mask...)
		try[i] = false
		q := p
		q.Mask = try
		budget--
		res, _ := e.run(q)
		if res != nil && hasKind(res.sc.fails, kind) {
			mask = try
			best, bestRes = q, res
		}
	}
	return best, bestRes
}

func runC08(c *hx.Ctx) {
	c.Res.Rule = "a scenario is non-trivial if the host persisted at least one revision in it and rejected at least one corrupted or replayed request"
	// rng.New(k) and rng.New(k+1) are the same stream shifted by one draw; hash the
	// seed once so that neighbouring VERIF_SEEDs give unrelated scenarios
	R := rng.New(rng.New(c.Seed).U64() ^ 0x5851F42D4C957F2D)
	e := &env{deadline: time.Duration(c.Scale(20, 40)) * time.Second}
	e.mk = func() *world {
		w := newWorld(seedKeys(R.Fork()))
		for i := 0; i < 24; i++ {
			var h types.Hash256
			R.Bytes(h[:])
			w.storeSector(h)
		}
		return w
	}
	e.fresh()
	defer func() {
		if e.w != nil {
			e.w.close()
		}
	}()

	reported := map[string]int{}
	report := func(res *scenResult) {
		seen := map[string]bool{}
		for _, f := range res.sc.fails {
			if seen[f.kind] || reported[f.kind] >= 3 {
				// out.Result keeps three replays per kind: count the rest without shrinking
				if !seen[f.kind] {
					c.Res.Fail(f.kind, f.detail, nil)
				} else {
					c.Res.Count("fail:" + f.kind)
				}
				seen[f.kind] = true
				continue
			}
			seen[f.kind] = true
			reported[f.kind]++
			p, sres := e.shrink(res.plan, f.kind)
			detail := f.detail
			steps := res.sc.steps
			if sres != nil {
				steps = sres.sc.steps
				for _, g := range sres.sc.fails {
					if g.kind == f.kind {
						detail = g.detail
						break
					}
				}
			}
			c.Res.Fail(f.kind, detail, map[string]any{"plan": p, "steps": steps})
		}
	}

	if c.Replay != "" {
		b, err := os.ReadFile(c.Replay)
		must(err)
		var rf struct {
			Replay struct {
				Plan plan `json:"plan"`
			} `json:"replay"`
		}
		must(json.Unmarshal(b, &rf))
		res, dnc := e.run(rf.Replay.Plan)
		if dnc != nil {
			c.Res.Fail(dnc.kind, dnc.detail, map[string]any{"plan": rf.Replay.Plan})
			return
		}
		for _, f := range res.sc.fails {
			c.Res.Fail(f.kind, f.detail, map[string]any{"plan": rf.Replay.Plan, "steps": res.sc.steps})
		}
		c.Res.Eval(fmt.Sprint(rf.Replay.Plan), true)
		return
	}

	nscen := c.Scale(200, 2400)
	nsteps := c.Scale(13, 16)
	var cases []string
	for i := 0; i < nscen; i++ {
		// the reference contractor and the wallets do work proportional to the
		// number of contracts and blocks: start over on a fresh chain now and then
		if i > 0 && i%120 == 0 {
			e.fresh()
		}
		p := makePlan(R.U64(), nsteps)
		// a scripted scenario first: the renewal id is asked for before the renewal exists
		if i == 0 {
			p.Flavor = "rich"
			p.Steps = []planStep{{Kind: "form", Mut: "none"}, {Kind: "append", Mut: "none"}, {Kind: "latest", Mut: "renewal-id"}, {Kind: "renew", Mut: "none"}, {Kind: "append", Mut: "none"},
				{Kind: "fund", Mut: "none"}, {Kind: "latest", Mut: "none"}, {Kind: "refresh-partial", Mut: "none"}, {Kind: "roots", Mut: "none"}, {Kind: "refresh-full", Mut: "none"}, {Kind: "free", Mut: "none"}}
		}
		switch i {
		case 1: // every revising RPC on a contract id that has been renewed / refreshed
			p.Flavor = "rich"
			p.Steps = []planStep{{Kind: "form", Mut: "none"}, {Kind: "append", Mut: "none"}, {Kind: "append", Mut: "none"}, {Kind: "fund", Mut: "none"}, {Kind: "renew", Mut: "none"}}
			for _, k := range revisingKinds {
				p.Steps = append(p.Steps, planStep{Kind: k, Mut: "renewed-cid"})
			}
			p.Steps = append(p.Steps, planStep{Kind: "append", Mut: "none"}, planStep{Kind: "refresh-partial", Mut: "none"}, planStep{Kind: "roots", Mut: "renewed-cid"},
				planStep{Kind: "fund", Mut: "renewed-cid"}, planStep{Kind: "free", Mut: "renewed-cid"}, planStep{Kind: "latest", Mut: "none"})
		case 3: // renew / refresh at the host's collateral limit on a contract grown in un-broadcast revisions
			p.Flavor = "rich"
			p.Steps = []planStep{{Kind: "form", Mut: "none"}, {Kind: "append", Mut: "none"}, {Kind: "append", Mut: "none"}, {Kind: "fund", Mut: "none"}, {Kind: "append", Mut: "none"}, {Kind: "append", Mut: "none"},
				{Kind: "renew", Mut: "coll-edge-above"}, {Kind: "renew", Mut: "coll-max-exact"}, {Kind: "refresh-partial", Mut: "coll-edge-above"}, {Kind: "refresh-full", Mut: "coll-edge-above"},
				{Kind: "refresh-partial", Mut: "coll-max-exact"}, {Kind: "renew", Mut: "coll-edge"}, {Kind: "append", Mut: "none"}, {Kind: "append", Mut: "none"},
				{Kind: "renew", Mut: "coll-edge-above"}, {Kind: "refresh-partial", Mut: "coll-edge-below"}, {Kind: "append", Mut: "none"}, {Kind: "fund", Mut: "overflow-early"},
				{Kind: "fund", Mut: "overflow-early-2"}, {Kind: "fund", Mut: "overflow"}, {Kind: "replenish-accounts", Mut: "overflow-early"}, {Kind: "replenish-pools", Mut: "overflow"},
				{Kind: "renew", Mut: "coll-edge-below"}, {Kind: "roots", Mut: "none"}}
		case 2, 4, 5:
			// the revisability boundary: tip exactly at the proof height (2), one below
			// it (4: the last height at which consensus still takes a revision), one
			// above it (5); then every revising RPC, well-formed (renewals last: one
			// that is accepted below the boundary closes the contract)
			p.Flavor = "short"
			at := map[int]string{2: "none", 4: "ph-1", 5: "ph+1"}[i]
			p.Steps = []planStep{{Kind: "form", Mut: "none"}, {Kind: "append", Mut: "none"}, {Kind: "append", Mut: "none"}, {Kind: "fund", Mut: "none"}, {Kind: "expire", Mut: at}}
			for _, k := range revisingKinds {
				p.Steps = append(p.Steps, planStep{Kind: k, Mut: "none"})
			}
			p.Steps = append(p.Steps, planStep{Kind: "latest", Mut: "none"})
		}
		switch i {
		case 6, 7:
			// interleaving: every RPC with a renter-side second phase is paused after the
			// host's intermediate response; a complete second RPC of every revising kind
			// is played against the same contract on another stream; then the first is
			// finished.  6: the revising RPCs as the paused one, 7: refresh / renew.
			p.Flavor = "rich"
			p.Steps = []planStep{{Kind: "form", Mut: "none"}, {Kind: "append", Mut: "none"}, {Kind: "append", Mut: "none"}, {Kind: "fund", Mut: "none"}}
			outers := twoPhaseKinds[:4]
			if i == 7 {
				outers = twoPhaseKinds[4:]
			}
			for _, outer := range outers {
				for _, in := range revisingKinds {
					p.Steps = append(p.Steps, planStep{Kind: outer, Mut: "none", Inner: &planStep{Kind: in, Mut: "none"}})
				}
				p.Steps = append(p.Steps, planStep{Kind: "append", Mut: "none"})
			}
			p.Steps = append(p.Steps, planStep{Kind: "latest", Mut: "none"})
		}
		switch {
		case i == 8:
			// RPCs on contracts that are not on chain yet: a renewal needs the element
			p.Flavor, p.Late, p.Settings = "rich", true, ""
			p.Steps = []planStep{{Kind: "form", Mut: "none"}, {Kind: "append", Mut: "none"}, {Kind: "fund", Mut: "none"}, {Kind: "renew", Mut: "none"},
				{Kind: "refresh-full", Mut: "none"}, {Kind: "roots", Mut: "none"}, {Kind: "latest", Mut: "none"}, {Kind: "mine", Mut: "none"}, {Kind: "latest", Mut: "none"},
				{Kind: "renew", Mut: "none"}, {Kind: "append", Mut: "none"}, {Kind: "refresh-partial", Mut: "none"}, {Kind: "free", Mut: "none"},
				{Kind: "mine", Mut: "none"}, {Kind: "refresh-partial", Mut: "none"}, {Kind: "mine", Mut: "none"}, {Kind: "latest", Mut: "none"}}
		case i == 9:
			// two live contracts of one renter, used alternately
			p.Flavor, p.Late, p.Settings = "rich", false, ""
			p.Steps = []planStep{{Kind: "form", Mut: "none"}, {Kind: "append", Mut: "none"}, {Kind: "form", Mut: "none"}, {Kind: "append", Mut: "none"}}
			for _, k := range revisingKinds {
				p.Steps = append(p.Steps, planStep{Kind: "switch", Mut: "none"}, planStep{Kind: k, Mut: "none"})
			}
			p.Steps = append(p.Steps, planStep{Kind: "switch", Mut: "none"}, planStep{Kind: "replenish-accounts", Mut: "none", Inner: &planStep{Kind: "fund", Mut: "none"}},
				planStep{Kind: "switch", Mut: "none"}, planStep{Kind: "latest", Mut: "none"})
		case i >= 10 && i <= 14:
			// every settings variant on every run
			p.Settings = []string{"free", "one-hasting", "dear", "tight", "zero-collateral-limit"}[i-10]
			if p.Flavor == "closed" {
				p.Flavor = "rich"
			}
		case i == 15:
			// every cut point of every RPC
			p.Flavor, p.Late, p.Settings = "rich", false, ""
			p.Steps = []planStep{{Kind: "form", Mut: "none"}, {Kind: "append", Mut: "none"}, {Kind: "append", Mut: "none"}, {Kind: "fund", Mut: "none"}}
			for _, k := range append([]string{"form"}, revisingKinds...) {
				for _, m := range kindMuts[k] {
					if strings.HasPrefix(m, "cut-") {
						p.Steps = append(p.Steps, planStep{Kind: k, Mut: m})
					}
				}
			}
			p.Steps = append(p.Steps, planStep{Kind: "append", Mut: "none"}, planStep{Kind: "latest", Mut: "none"})
		case i >= 20 && i < 20+len(revisingKinds):
			// the sweep: every corruption of every revising RPC on every run (the random
			// plans draw corruptions at random and may miss a rare pair in 200 scenarios)
			k := revisingKinds[i-20]
			p.Flavor, p.Late, p.Settings = "rich", false, ""
			p.Steps = []planStep{{Kind: "form", Mut: "none"}, {Kind: "append", Mut: "none"}, {Kind: "append", Mut: "none"}, {Kind: "append", Mut: "none"}, {Kind: "fund", Mut: "none"}}
			for j, m := range kindMuts[k] {
				if m == "toolong" && k != "fund" {
					continue // (a thousand-entry term; once is enough)
				}
				p.Steps = append(p.Steps, planStep{Kind: k, Mut: m})
				if j%6 == 5 {
					p.Steps = append(p.Steps, planStep{Kind: k, Mut: "none"}, planStep{Kind: "append", Mut: "none"})
				}
			}
			p.Steps = append(p.Steps, planStep{Kind: "latest", Mut: "none"})
			c.Res.CountN("sweep:corruptions-of-"+k, len(kindMuts[k]))
		case i >= 16 && i <= 19 && os.Getenv("VERIF_C08_BLOCK_BETWEEN_PHASES") != "0":
			// on by default since fix f324264 (see checks/C08.json): the tip reaches the proof height while a
			// two-phase revising RPC waits for the renter's signature
			p.Flavor, p.Late, p.Settings = "short", false, ""
			p.Steps = []planStep{{Kind: "form", Mut: "none"}, {Kind: "append", Mut: "none"}, {Kind: "append", Mut: "none"}, {Kind: "fund", Mut: "none"},
				{Kind: "expire", Mut: "ph-1"}, {Kind: twoPhaseKinds[i-16], Mut: "none", Inner: &planStep{Kind: "expire", Mut: "none"}}, {Kind: "latest", Mut: "none"}}
		}
		res, dnc := e.run(p)
		if dnc != nil {
			c.Res.Count("scenario-did-not-complete")
			c.Res.Fail(dnc.kind, dnc.detail, map[string]any{"plan": p})
			continue
		}
		sc := res.sc
		if len(sc.fails) > 0 {
			report(res)
		}
		cases = append(cases, fmt.Sprintf("mk_case %s [\n  %s]", res.cfg, strings.Join(sc.trace, ";\n  ")))
		c.Res.Eval(strings.Join(sc.trace, "|"), sc.accepted > 0 && sc.rejectedCorrupt > 0)
		c.Res.Count("flavor:" + p.Flavor)
		c.Res.Count("settings:" + map[bool]string{true: "default", false: p.Settings}[p.Settings == ""])
		if p.Late {
			c.Res.Count("late-confirmation-scenarios")
		}
		c.Res.CountN("mix:second-live-contract", sc.second)
		c.Res.CountN("cut:refused-monitor-only", sc.cutRefused)
		for _, st := range sc.steps {
			c.Res.Count("rpc:" + st.Kind)
			c.Res.Count("verdict:" + st.Verdict)
			if st.Mut != "none" {
				c.Res.Count("corruption:" + strings.SplitN(st.Mut, "-", 2)[0])
			}
		}
		if i < 2 {
			c.Res.Sample(map[string]any{"flavor": p.Flavor, "steps": sc.steps})
		}
	}
	// two goroutines on one contract
	for i := 0; i < c.Scale(6, 60); i++ {
		seed := R.U64()
		var fs []failure
		_, dnc := e.guard(func(w *world) *scenResult { fs = raceScenario(w, seed); return nil })
		if dnc != nil {
			fs = []failure{*dnc}
		}
		c.Res.Count("race-scenarios")
		for _, f := range fs {
			c.Res.Fail(f.kind, f.detail, map[string]any{"race": true, "seed": c.Seed})
		}
	}
	// several small files: bin/check evaluates them in parallel
	for i := 0; i < len(cases); i += 20 {
		c.Res.WriteCases("Run.Run_C08", cases[i:min(i+20, len(cases))])
	}
	c.Res.Notes = append(c.Res.Notes,
		"correspondence: per scenario, every request in model vocabulary with the observed verdict class (persisted / served without revising / refused; which refusal is not compared) and the revision handed to the Contractor (all 12 fields, root list length)",
		"monitors: revision number, both signatures (VerifyHash over ContractSigHash), immutable fields, payout sum, amount due (core proto4 / deposit total), consensus.ValidateV2Transaction, no-op on rejection, ground-truth state",
		"the harness binary is built without the race detector (CGO is disabled in bin/check); the two-goroutine scenarios run in both tiers")
}
