package main

// The world of the C08 harness: one in-process chain, a host (real rhp4.Server
// over siamux on loopback TCP) whose Contractor and sector store are wrapped by
// recorders, and separate wallets for host and renter.

import (
	"context"
	"crypto/ed25519"
	"fmt"
	"net"
	"sync"
	"time"

	"go.sia.tech/core/consensus"
	proto4 "go.sia.tech/core/rhp/v4"
	"go.sia.tech/core/types"
	"go.sia.tech/coreutils"
	"go.sia.tech/coreutils/chain"
	rhp4 "go.sia.tech/coreutils/rhp/v4"
	"go.sia.tech/coreutils/rhp/v4/siamux"
	"go.sia.tech/mux"
	"go.sia.tech/coreutils/testutil"
	"go.sia.tech/coreutils/wallet"
	"go.uber.org/zap"
	"go.uber.org/zap/zapcore"
)

// ---- recording Contractor -------------------------------------------------

// A call is one mutating call the server made on the Contractor.
type call struct {
	Kind     string // revise credit-accounts credit-pools add renew
	ID       types.FileContractID
	Rev      types.V2FileContract
	Roots    []types.Hash256 // revise only
	HasRoots bool
	Deposits []proto4.AccountDeposit
	Usage    proto4.Usage
	Set      rhp4.TransactionSet
	Renewal  *types.V2FileContractRenewal
	Err      error
}

type recContractor struct {
	*testutil.EphemeralContractor
	mu    sync.Mutex
	calls []call
	held  int // contract locks currently held by handlers
	// chain height at the moment a contract was last locked (set by the world)
	tipOf   func() uint64
	lockTip map[types.FileContractID]uint64
}

func (rc *recContractor) record(c call) {
	rc.mu.Lock()
	rc.calls = append(rc.calls, c)
	rc.mu.Unlock()
}

func (rc *recContractor) ncalls() int {
	rc.mu.Lock()
	defer rc.mu.Unlock()
	return len(rc.calls)
}

func (rc *recContractor) since(n int) []call {
	rc.mu.Lock()
	defer rc.mu.Unlock()
	return append([]call(nil), rc.calls[n:]...)
}

func (rc *recContractor) LockV2Contract(id types.FileContractID) (rhp4.RevisionState, func(), error) {
	rs, unlock, err := rc.EphemeralContractor.LockV2Contract(id)
	if err != nil {
		return rs, unlock, err
	}
	rc.mu.Lock()
	rc.held++
	if rc.tipOf != nil {
		rc.lockTip[id] = rc.tipOf()
	}
	rc.mu.Unlock()
	var once sync.Once
	return rs, func() {
		unlock()
		once.Do(func() {
			rc.mu.Lock()
			rc.held--
			rc.mu.Unlock()
		})
	}, nil
}

func (rc *recContractor) ReviseV2Contract(id types.FileContractID, rev types.V2FileContract, roots []types.Hash256, usage proto4.Usage) error {
	err := rc.EphemeralContractor.ReviseV2Contract(id, rev, roots, usage)
	rc.record(call{Kind: "revise", ID: id, Rev: rev, Roots: append([]types.Hash256(nil), roots...), HasRoots: true, Usage: usage, Err: err})
	return err
}

func (rc *recContractor) CreditAccountsWithContract(deps []proto4.AccountDeposit, id types.FileContractID, rev types.V2FileContract, usage proto4.Usage) ([]types.Currency, error) {
	b, err := rc.EphemeralContractor.CreditAccountsWithContract(deps, id, rev, usage)
	rc.record(call{Kind: "credit-accounts", ID: id, Rev: rev, Deposits: append([]proto4.AccountDeposit(nil), deps...), Usage: usage, Err: err})
	return b, err
}

func (rc *recContractor) CreditPoolsWithContract(deps []proto4.AccountDeposit, id types.FileContractID, rev types.V2FileContract, usage proto4.Usage) ([]types.Currency, error) {
	b, err := rc.EphemeralContractor.CreditPoolsWithContract(deps, id, rev, usage)
	rc.record(call{Kind: "credit-pools", ID: id, Rev: rev, Deposits: append([]proto4.AccountDeposit(nil), deps...), Usage: usage, Err: err})
	return b, err
}

func (rc *recContractor) AddV2Contract(set rhp4.TransactionSet, usage proto4.Usage) error {
	err := rc.EphemeralContractor.AddV2Contract(set, usage)
	c := call{Kind: "add", Usage: usage, Set: set, Err: err}
	if n := len(set.Transactions); n > 0 {
		txn := set.Transactions[n-1]
		if len(txn.FileContracts) == 1 {
			c.Rev = txn.FileContracts[0]
			c.ID = txn.V2FileContractID(txn.ID(), 0)
		}
	}
	rc.record(c)
	return err
}

func (rc *recContractor) RenewV2Contract(set rhp4.TransactionSet, usage proto4.Usage) error {
	err := rc.EphemeralContractor.RenewV2Contract(set, usage)
	c := call{Kind: "renew", Usage: usage, Set: set, Err: err}
	if n := len(set.Transactions); n > 0 {
		txn := set.Transactions[n-1]
		if len(txn.FileContractResolutions) == 1 {
			if r, ok := txn.FileContractResolutions[0].Resolution.(*types.V2FileContractRenewal); ok {
				cp := *r
				c.Renewal = &cp
				c.Rev = r.NewContract
				c.ID = types.FileContractID(txn.FileContractResolutions[0].Parent.ID).V2RenewalID()
			}
		}
	}
	rc.record(c)
	return err
}

// ---- recording sector store -------------------------------------------------

type recSectors struct {
	*testutil.EphemeralSectorStore
	mu     sync.Mutex
	writes int
}

func (rs *recSectors) StoreSector(root types.Hash256, data *[proto4.SectorSize]byte, sub []types.Hash256, exp uint64) error {
	rs.mu.Lock()
	rs.writes++
	rs.mu.Unlock()
	return rs.EphemeralSectorStore.StoreSector(root, data, sub, exp)
}

func (rs *recSectors) nwrites() int {
	rs.mu.Lock()
	defer rs.mu.Unlock()
	return rs.writes
}

// ---- server log tap ---------------------------------------------------------

// The server log is tapped for DIAGNOSIS ONLY (the detail shown next to a step in a
// replay).  No decision of the harness depends on a log or error message of the
// code under test: a handler is done when the server closes its end of the stream,
// and an outcome is "persisted" / "served" / "refused" by the Contractor calls made
// and by whether the renter was answered with an error.
type tapCore struct {
	w      *world
	fields []zapcore.Field
}

func (t *tapCore) Enabled(zapcore.Level) bool { return true }
func (t *tapCore) With(f []zapcore.Field) zapcore.Core {
	return &tapCore{w: t.w, fields: append(append([]zapcore.Field(nil), t.fields...), f...)}
}
func (t *tapCore) Check(e zapcore.Entry, ce *zapcore.CheckedEntry) *zapcore.CheckedEntry {
	return ce.AddCore(e, t)
}
func (t *tapCore) Sync() error { return nil }
func (t *tapCore) Write(e zapcore.Entry, fields []zapcore.Field) error {
	for _, f := range fields {
		if f.Key == "error" || f.Key == "panic" {
			txt := e.Message
			if err, ok := f.Interface.(error); ok && err != nil {
				txt += ": " + err.Error()
			} else if f.Interface != nil {
				txt += ": " + fmt.Sprint(f.Interface)
			}
			t.w.logMu.Lock()
			t.w.lastLog = txt
			t.w.logMu.Unlock()
		}
	}
	return nil
}

// doneMux / doneConn: the transport handed to Server.Serve; a stream's first Close
// on the server side is the end of its handler (handleHostStream defers it, after
// the handler has returned and released the contract lock).
type doneMux struct {
	m *mux.Mux
	w *world
}

func (d *doneMux) Close() error { return d.m.Close() }
func (d *doneMux) AcceptStream() (net.Conn, error) {
	s, err := d.m.AcceptStream()
	if err != nil {
		return nil, err
	}
	return &doneConn{Conn: s, w: d.w}, nil
}

type doneConn struct {
	net.Conn
	w    *world
	once sync.Once
}

func (c *doneConn) Close() error {
	c.once.Do(func() {
		c.w.logMu.Lock()
		c.w.done++
		c.w.logMu.Unlock()
	})
	return c.Conn.Close()
}

// ---- world -------------------------------------------------------------------

type world struct {
	n       *consensus.Network
	cm      *chain.Manager
	hostKey types.PrivateKey
	hostW   *wallet.SingleAddressWallet
	hostWS  *testutil.EphemeralWalletStore
	rentW   *wallet.SingleAddressWallet
	rentWS  *testutil.EphemeralWalletStore
	ec      *testutil.EphemeralContractor
	rec     *recContractor
	ss      *recSectors
	sr      *testutil.EphemeralSettingsReporter
	set     proto4.HostSettings
	srv     *rhp4.Server
	tr      rhp4.TransportClient
	l       net.Listener

	logMu    sync.Mutex
	done     int    // streams whose handler has ended since the last quiesce
	lastLog  string // diagnosis only
	started  int

	// mid, when set, is run once by the renter in the middle of a multi-round RPC:
	// after it has read the host's intermediate response and before it answers
	mid func()
	// cut, when set, is where the renter of the current step drops the stream
	cut string

	stored []types.Hash256 // sector roots the store holds
	dummy  [proto4.SectorSize]byte
}

func must(err error) {
	if err != nil {
		panic(err)
	}
}

const priceValiditySeconds = 600

func newWorld(seedKey func() types.PrivateKey) *world {
	w := &world{}
	n, genesis := testutil.V2Network()
	w.n = n
	db, tipstate, err := chain.NewDBStore(chain.NewMemDB(), n, genesis, nil)
	must(err)
	w.cm = chain.NewManager(db, tipstate)
	w.hostKey = seedKey()

	w.hostWS = testutil.NewEphemeralWalletStore()
	w.hostW, err = wallet.NewSingleAddressWallet(seedKey(), w.cm, w.hostWS, &testutil.MockSyncer{})
	must(err)
	w.rentWS = testutil.NewEphemeralWalletStore()
	w.rentW, err = wallet.NewSingleAddressWallet(seedKey(), w.cm, w.rentWS, &testutil.MockSyncer{})
	must(err)

	w.ec = testutil.NewEphemeralContractor(w.cm)
	w.rec = &recContractor{EphemeralContractor: w.ec, lockTip: map[types.FileContractID]uint64{}}
	w.rec.tipOf = func() uint64 { return w.cm.Tip().Height }
	w.ss = &recSectors{EphemeralSectorStore: testutil.NewEphemeralSectorStore()}
	w.sr = testutil.NewEphemeralSettingsReporter()
	w.set = proto4.HostSettings{
		Release:             "verif",
		AcceptingContracts:  true,
		WalletAddress:       w.hostW.Address(),
		MaxCollateral:       types.Siacoins(10000),
		MaxContractDuration: 1000,
		RemainingStorage:    1000 * proto4.SectorSize,
		TotalStorage:        1000 * proto4.SectorSize,
		Prices: proto4.HostPrices{
			ContractPrice:   types.Siacoins(1).Div64(5),
			StoragePrice:    types.NewCurrency64(100),
			IngressPrice:    types.NewCurrency64(100),
			EgressPrice:     types.NewCurrency64(100),
			FreeSectorPrice: types.NewCurrency64(1000000),
			Collateral:      types.NewCurrency64(200),
		},
	}
	w.sr.Update(w.set)

	// fund both wallets
	w.mineTo(w.hostW.Address(), int(n.MaturityDelay)+8)
	w.mineTo(w.rentW.Address(), int(n.MaturityDelay)+8)
	w.mineTo(types.VoidAddress, int(n.MaturityDelay)+1)

	log := zap.New(&tapCore{w: w})
	w.srv = rhp4.NewServer(w.hostKey, w.cm, w.rec, w.hostW, w.sr, w.ss,
		rhp4.WithPriceTableValidity(priceValiditySeconds*time.Second), rhp4.WithRPCTimeout(20*time.Second))
	w.l, err = net.Listen("tcp", "127.0.0.1:0")
	must(err)
	go func() {
		for {
			conn, err := w.l.Accept()
			if err != nil {
				return
			}
			go func() {
				defer conn.Close()
				m, err := mux.Accept(conn, ed25519.PrivateKey(w.srv.HostKey()))
				if err != nil {
					return
				}
				w.srv.Serve(&doneMux{m: m, w: w}, log)
			}()
		}
	}()
	w.tr, err = siamux.Dial(context.Background(), w.l.Addr().String(), w.hostKey.PublicKey())
	must(err)
	return w
}

func (w *world) close() {
	w.tr.Close()
	w.l.Close()
	w.srv.Close()
	w.ec.Close()
	w.hostW.Close()
	w.rentW.Close()
}

func syncWallet(cm *chain.Manager, ws *testutil.EphemeralWalletStore, sw *wallet.SingleAddressWallet) {
	for {
		tip, err := ws.Tip()
		must(err)
		reverted, applied, err := cm.UpdatesSince(tip, 1000)
		must(err)
		if len(reverted) == 0 && len(applied) == 0 {
			return
		}
		must(ws.UpdateChainState(func(tx wallet.UpdateTx) error {
			return sw.UpdateChainState(tx, reverted, applied)
		}))
	}
}

// mineTo mines n blocks and brings wallets and contractor to the new tip.
func (w *world) mineTo(addr types.Address, n int) {
	for ; n > 0; n-- {
		b, ok := coreutils.MineBlock(w.cm, addr, 10*time.Second)
		if !ok {
			panic("failed to mine a block")
		}
		must(w.cm.AddBlocks([]types.Block{b}))
	}
	syncWallet(w.cm, w.hostWS, w.hostW)
	syncWallet(w.cm, w.rentWS, w.rentW)
	deadline := time.Now().Add(12 * time.Second)
	for {
		tip, _ := w.ec.Tip()
		if tip == w.cm.Tip() {
			return
		}
		if time.Now().After(deadline) {
			panic("contractor did not reach the tip")
		}
		time.Sleep(200 * time.Microsecond)
	}
}

func (w *world) mine(n int) { w.mineTo(types.VoidAddress, n) }

// openStream dials a stream and counts it.
func (w *world) openStream() net.Conn {
	s, err := w.tr.DialStream(context.Background())
	must(err)
	s.SetDeadline(time.Now().Add(8 * time.Second))
	w.started++
	return s
}

// quiesce waits until every stream opened so far has been handled to the end (the
// server closed its end, after the handler released the contract lock) and returns
// the last error the server logged meanwhile (diagnosis only).
func (w *world) quiesce() string {
	deadline := time.Now().Add(12 * time.Second)
	for {
		w.logMu.Lock()
		n := w.done
		w.logMu.Unlock()
		w.rec.mu.Lock()
		held := w.rec.held
		w.rec.mu.Unlock()
		if n >= w.started && held == 0 {
			break
		}
		if time.Now().After(deadline) {
			panic(fmt.Sprintf("host did not finish: started=%d finished=%d locks=%d", w.started, n, held))
		}
		time.Sleep(50 * time.Microsecond)
	}
	w.logMu.Lock()
	out := w.lastLog
	w.lastLog = ""
	w.done = 0
	w.logMu.Unlock()
	w.started = 0
	return out
}

func (w *world) runMid() {
	if f := w.mid; f != nil {
		w.mid = nil
		f()
	}
}

// takeFinished waits for the next handler to end (while another one may still be
// running and holding a contract lock).
func (w *world) takeFinished() string {
	deadline := time.Now().Add(12 * time.Second)
	for {
		w.logMu.Lock()
		if w.done > 0 {
			w.done--
			out := w.lastLog
			w.lastLog = ""
			w.logMu.Unlock()
			w.started--
			return out
		}
		w.logMu.Unlock()
		if time.Now().After(deadline) {
			panic("host did not finish the interleaved RPC")
		}
		time.Sleep(50 * time.Microsecond)
	}
}

// storeSector registers a root in the sector store (the RPCs of C08 only ask
// HasSector, the sector bytes are never read).
func (w *world) storeSector(root types.Hash256) {
	must(w.ss.EphemeralSectorStore.StoreSector(root, &w.dummy, nil, 1<<40))
	w.stored = append(w.stored, root)
}

