package main

// C09: the host's sector-root state always matches the committed contract, even on aborts.
//
// A real rhp4.Server with testutil.EphemeralContractor / EphemeralSectorStore is driven
// by the real renter functions and, for aborts and lists the renter API would have
// normalised, on the raw stream. After every attempt the contractor's state is read
// directly and judged by monitors that do not use the Coq model; every attempt is also
// written as a case for Run/Run_C09.v.

import (
	"bytes"
	"context"
	"encoding/json"
	"fmt"
	"os"
	"runtime/debug"
	"slices"
	"sync/atomic"
	"time"

	rhp2 "go.sia.tech/core/rhp/v2"
	proto4 "go.sia.tech/core/rhp/v4"
	"go.sia.tech/core/types"
	rhp4 "go.sia.tech/coreutils/rhp/v4"
	"verif/harness/internal/hx"
	"verif/harness/internal/out"
	"verif/harness/internal/rng"
)

func main() { hx.Main("C09", runC09) }

type checker struct {
	c     *hx.Ctx
	e     *env
	cases []string
	last  *snap // state after the previous attempt
	// broken is set when the contract can no longer be brought to a chosen base state (a
	// violation reported at that point); the remaining enumeration would only pile up
	// consequences on a contract of unbounded size, so it is skipped.
	broken bool
	// the attempt in flight, for failures detected outside attempt()
	cur       *attempt
	curBefore snap
	retries   atomic.Int64 // blind stretches: RPCs repeated because the host was still busy
}

// name renders a root as a pool number (or an unknown number) for replay files.
func (k *checker) name(h types.Hash256) int {
	for i, p := range k.e.pool {
		if p == h {
			return i
		}
	}
	for n := unknownBase; n < unknownBase+256; n++ {
		if k.e.unknownRoot(n) == h {
			return n
		}
	}
	return -1
}

func (k *checker) names(hs []types.Hash256) []int {
	ns := make([]int, len(hs))
	for i, h := range hs {
		ns[i] = k.name(h)
	}
	return ns
}

func (k *checker) fail(kind, detail string, before snap, a attempt, extra map[string]any) {
	rp := map[string]any{"base": k.names(before.roots), "attempt": a, "attempt_text": a.String()}
	for key, v := range extra {
		rp[key] = v
	}
	k.c.Res.Fail(kind, detail, rp)
}

func sameSnap(a, b snap) (roots, rev, acct bool) {
	return slices.Equal(a.roots, b.roots), bytes.Equal(a.revBytes, b.revBytes), a.acct == b.acct && a.acct2 == b.acct2
}

// affordable: can the contract pay what core says the attempt costs under its price table
// (core's arithmetic is the oracle, not the code under test)
func (k *checker) affordable(a attempt, before snap) bool {
	hp := k.e.priceTables[a.Prices]
	var u proto4.Usage
	switch a.Kind {
	case kindFreeClient, kindFreeRaw:
		set := map[uint64]bool{}
		for _, i := range a.Idx {
			set[i] = true
		}
		n := len(a.Idx)
		if a.Kind == kindFreeClient {
			n = len(set)
		}
		u = hp.RPCFreeSectorsCost(n)
	case kindAppend:
		var appended uint64
		for _, n := range a.Sectors {
			if n < unknownBase {
				appended++
			}
		}
		growth := appended - min(appended, (before.rev.Capacity-before.rev.Filesize)/proto4.SectorSize)
		u = hp.RPCAppendSectorsCost(growth, before.rev.ExpirationHeight-hp.TipHeight)
	case kindRoots:
		u = hp.RPCSectorRootsCost(a.Len)
	case kindFund:
		u = proto4.Usage{AccountFunding: k.e.fundAmount(a, before)}
	}
	return before.rev.RenterOutput.Value.Cmp(u.RenterCost()) >= 0 && before.rev.MissedHostValue.Cmp(u.HostRiskedCollateral()) >= 0
}

// expectation of the harness, from the property text and the protocol rules alone
func (k *checker) mustCommit(a attempt, before snap) (must, mustNot bool) {
	size := uint64(len(before.roots))
	valid := false
	switch a.Kind {
	case kindFreeClient:
		valid = true
		for _, i := range a.Idx {
			valid = valid && i < size
		}
	case kindFreeRaw:
		valid = !hasDup(a.Idx)
		for _, i := range a.Idx {
			valid = valid && i < size
		}
	case kindAppend:
		valid = len(a.Sectors) > 0
	case kindRoots:
		valid = a.Len > 0 && a.Off <= size && a.Len <= size-a.Off
	case kindFund:
		valid = a.Len > 0
	}
	valid = valid && a.Pre == preNone && k.affordable(a, before)
	single := a.Kind == kindRoots || a.Kind == kindFund // one round: the request carries the signature
	if single && (a.Script == scriptCloseAfterResp || a.Script == scriptCloseAfterSig) {
		return valid, !valid // run() treats these as complete
	}
	switch a.Script {
	case scriptComplete:
		return valid, !valid
	case scriptCloseAfterSig:
		// the signature was written before the stream was closed and the mux delivers
		// frames in order: the host has everything it needs and commits
		return valid, !valid
	case scriptCloseAfterReq:
		if single {
			return valid, !valid
		}
		return false, true
	default:
		return false, true
	}
}

// attempt runs one RPC attempt with all monitors; returns the state afterwards.
func (k *checker) attempt(a attempt, toCoq bool, phase string) snap {
	e, res := k.e, k.c.Res
	before := e.snapshot()
	if k.broken || len(before.roots) > 96 {
		if !k.broken {
			k.broken = true
			res.Notes = append(res.Notes, fmt.Sprintf("contract grew to %d roots; remaining attempts skipped", len(before.roots)))
		}
		res.Count("skipped-after-broken-base-state")
		return before
	}
	if k.last != nil {
		if r, v, b := sameSnap(*k.last, before); !r || !v || !b {
			k.fail("state-changed-between-attempts", fmt.Sprintf("roots same=%v revision same=%v balance same=%v although no RPC ran", r, v, b), before, a, nil)
		}
	}
	k.cur, k.curBefore = &a, before
	ob := e.run(a, before)
	if err := e.quiesce(); err != nil {
		k.fail("host-handler-stuck", "the host handler had not returned 20s after the renter side finished: "+a.String(), before, a, nil)
	}
	after := e.snapshot()
	k.last = &after
	if ob.panicked != "" {
		k.fail("renter-call-panics", fmt.Sprintf("%s on roots %v against the honest host panicked on the renter side: %s", a, k.names(before.roots), ob.panicked), before, a, map[string]any{"roots_after": k.names(after.roots), "host_revision_advanced": after.rev.RevisionNumber != before.rev.RevisionNumber})
	}
	if a.Kind == kindAccount {
		k.judgeAccount(a, before, after, ob, toCoq, phase)
		return after
	}
	committed := after.rev.RevisionNumber != before.rev.RevisionNumber
	extra := map[string]any{"roots_after": k.names(after.roots), "committed": committed, "renter_error": ob.clientErr}

	for _, p := range e.rec.takeProblems() {
		k.fail(p.Kind, p.Detail+" during "+a.String(), before, a, extra)
	}

	// the state predicate of the property
	if proto4.MetaRoot(after.roots) != after.rev.FileMerkleRoot {
		k.fail("stored-roots-do-not-hash-to-committed-root",
			fmt.Sprintf("after %s on roots %v the contractor holds roots %v, which hash to %v, under revision %d with FileMerkleRoot %v",
				a, k.names(before.roots), k.names(after.roots), proto4.MetaRoot(after.roots), after.rev.RevisionNumber, after.rev.FileMerkleRoot), before, a, extra)
	}
	if uint64(len(after.roots))*proto4.SectorSize != after.rev.Filesize {
		k.fail("stored-root-count-differs-from-filesize",
			fmt.Sprintf("after %s the contractor holds %d roots under Filesize %d", a, len(after.roots), after.rev.Filesize), before, a, extra)
	}

	if a.Script == scriptInterleaved && a.Other != nil {
		k.judgeInterleaved(a, before, after, ob, toCoq, phase, extra)
		return after
	}
	must, mustNot := k.mustCommit(a, before)
	if must && !committed {
		k.fail("valid-rpc-not-committed", fmt.Sprintf("%s on %d roots should succeed; renter side saw %q and the revision did not advance", a, len(before.roots), ob.clientErr), before, a, extra)
	}
	if mustNot && committed {
		k.fail("failed-or-abandoned-rpc-committed", fmt.Sprintf("%s on %d roots must not commit, but the revision advanced to %d", a, len(before.roots), after.rev.RevisionNumber), before, a, extra)
	}
	if !committed {
		r, v, b := sameSnap(before, after)
		if !r {
			k.fail("failed-or-abandoned-rpc-changes-stored-roots", fmt.Sprintf("%s did not commit (renter side: %q) but the stored roots changed from %v to %v", a, ob.clientErr, k.names(before.roots), k.names(after.roots)), before, a, extra)
		}
		if !v {
			k.fail("failed-or-abandoned-rpc-changes-revision", fmt.Sprintf("%s did not advance the revision number but the stored revision differs", a), before, a, extra)
		}
		if !b {
			k.fail("failed-or-abandoned-rpc-changes-balance", fmt.Sprintf("%s did not commit but the account balance went from %v to %v", a, before.acct, after.acct), before, a, extra)
		}
	} else {
		if after.rev.RevisionNumber != before.rev.RevisionNumber+1 {
			k.fail("revision-number-jumps", fmt.Sprintf("%s moved the revision number from %d to %d", a, before.rev.RevisionNumber, after.rev.RevisionNumber), before, a, extra)
		}
		wantAcct := before.acct
		if a.Kind == kindFund {
			wantAcct = before.acct.Add(e.fundAmount(a, before))
		}
		if after.acct != wantAcct || after.acct2 != before.acct2 {
			k.fail("contract-rpc-changes-account-balance", fmt.Sprintf("%s took the account balance from %s H to %s H (expected %s H)", a, before.acct.ExactString(), after.acct.ExactString(), wantAcct.ExactString()), before, a, extra)
		}
		// the harness's own list model
		var want []types.Hash256
		have := true
		switch a.Kind {
		case kindFreeClient:
			want, _ = modelFree(before.roots, a.Idx)
		case kindFreeRaw:
			if normalised(a.Idx) {
				want, _ = modelFree(before.roots, a.Idx)
			} else {
				have = false // the raw handler is only required to agree on normalised input (DESIGN 4a)
				if len(after.roots) != len(before.roots)-len(a.Idx) {
					k.fail("raw-free-wrong-count", fmt.Sprintf("%s left %d roots of %d", a, len(after.roots), len(before.roots)), before, a, extra)
				}
			}
		case kindAppend:
			want = slices.Clone(before.roots)
			for _, n := range a.Sectors {
				if n < unknownBase {
					want = append(want, e.pool[n])
				}
			}
		case kindRoots, kindFund:
			want = before.roots
		}
		if have && !slices.Equal(want, after.roots) {
			k.fail("roots-differ-from-list-model", fmt.Sprintf("after %s on %v the host stores %v, the list model (append at the end, swap-remove from the end) gives %v", a, k.names(before.roots), k.names(after.roots), k.names(want)), before, a, extra)
		}
		if ob.result != nil && !bytes.Equal(encodeRev(*ob.result), after.revBytes) {
			k.fail("renter-and-host-hold-different-revisions", fmt.Sprintf("after %s the revision the renter ends with is not the one the host stored", a), before, a, extra)
		}
		if a.Script == scriptComplete && ob.clientErr != "" {
			k.fail("renter-rejects-committed-rpc", fmt.Sprintf("%s was committed by the host but the renter side failed with %q", a, ob.clientErr), before, a, extra)
		}
	}
	// the host's answers
	if a.Kind == kindAppend && ob.gotResp {
		wantAcc := make([]bool, len(a.Sectors))
		for i, n := range a.Sectors {
			wantAcc[i] = n < unknownBase
		}
		if !slices.Equal(wantAcc, ob.accepted) {
			k.fail("append-accepted-flags-wrong", fmt.Sprintf("%s: host accepted %v, the harness uploaded %v", a, ob.accepted, wantAcc), before, a, extra)
		}
	}
	if a.Kind == kindRoots && ob.gotResp && a.Script != scriptBadSignature {
		if a.Off+a.Len <= uint64(len(before.roots)) && !slices.Equal(ob.listed, before.roots[a.Off:a.Off+a.Len]) {
			k.fail("listing-differs-from-stored-range", fmt.Sprintf("%s on %v returned %v", a, k.names(before.roots), k.names(ob.listed)), before, a, extra)
		}
	}
	if a.Kind == kindRoots && a.Script == scriptComplete && must && ob.clientErr != "" {
		k.fail("listing-fails", fmt.Sprintf("%s on %d roots: the renter cannot list the roots with a verifying proof: %q", a, len(before.roots), ob.clientErr), before, a, extra)
	}

	// bookkeeping
	res.Count("kind:" + kindNames[a.Kind])
	res.Count("script:" + scriptNames[a.Script])
	if a.Pre != 0 {
		res.Count("precondition:" + preNames[a.Pre])
	}
	if a.Prices != 0 {
		res.Count("prices:" + priceNames[a.Prices])
		if !k.affordable(a, before) {
			res.Count("prices:payment-fails")
		}
	}
	res.Count(fmt.Sprintf("size:%02d", len(before.roots)))
	res.Count("phase:" + phase)
	if committed {
		res.Count("outcome:committed")
	} else if ob.clientErr != "" {
		res.Count("outcome:rejected")
	} else {
		res.Count("outcome:abandoned")
	}
	nontrivial := max(len(before.roots), len(after.roots)) >= 2 && (len(a.Idx)+len(a.Sectors) > 0 || a.Len > 0)
	res.Eval(fmt.Sprint(k.names(before.roots), a), nontrivial)
	if toCoq {
		k.cases = append(k.cases, k.coqCase(a, before, after, committed, ob))
	}
	return after
}

// judgeAccount: an account-paid RPC changes nothing but the account balance, by exactly
// its cost, and only when it is served.
func (k *checker) judgeAccount(a attempt, before, after snap, ob observed, toCoq bool, phase string) {
	e, res := k.e, k.c.Res
	cost := e.accountCost(a)
	extra := map[string]any{"served": ob.served, "renter_error": ob.clientErr, "balance_before": before.acct.ExactString(), "balance_after": after.acct.ExactString(), "cost_if_served": cost.ExactString()}
	for _, p := range e.rec.takeProblems() {
		k.fail(p.Kind, p.Detail+" during "+a.String(), before, a, extra)
	}
	if r, v, _ := sameSnap(before, after); !r || !v {
		k.fail("account-rpc-changes-roots-or-revision", fmt.Sprintf("%s: roots same=%v revision same=%v", a, r, v), before, a, extra)
	}
	if after.acct2 != before.acct2 {
		k.fail("account-rpc-changes-another-account", fmt.Sprintf("%s moved the unfunded account from %v to %v", a, before.acct2, after.acct2), before, a, extra)
	}
	wantServed := a.Variant == acctValid
	switch {
	case wantServed && !ob.served:
		k.fail("valid-account-rpc-fails", fmt.Sprintf("%s should be served; the renter side saw %q", a, ob.clientErr), before, a, extra)
	case !wantServed && ob.served:
		k.fail("invalid-account-rpc-served", fmt.Sprintf("%s must be refused but was served", a), before, a, extra)
	}
	if !ob.served && after.acct != before.acct {
		charged := "more"
		if after.acct.Cmp(before.acct) < 0 {
			charged = before.acct.Sub(after.acct).ExactString() + " H less"
		}
		k.fail("failed-account-rpc-changes-balance", fmt.Sprintf("%s failed on the renter side (%q) but the account balance went from %s H to %s H (%s)", a, ob.clientErr, before.acct.ExactString(), after.acct.ExactString(), charged), before, a, extra)
	}
	if ob.served {
		if before.acct.Cmp(cost) < 0 || before.acct.Sub(cost) != after.acct {
			k.fail("account-rpc-charges-wrong-amount", fmt.Sprintf("%s was served; cost %s H, balance %s H -> %s H", a, cost.ExactString(), before.acct.ExactString(), after.acct.ExactString()), before, a, extra)
		}
		if a.Op == "read" {
			if want, ok := e.poolData[e.sectorRoot(a.Root)]; ok && a.Off+a.Len <= uint64(len(want)) && !bytes.Equal(ob.data, want[a.Off:a.Off+a.Len]) {
				k.fail("listed-sector-has-wrong-data", fmt.Sprintf("%s returned different bytes than were uploaded", a), before, a, extra)
			}
		}
	}
	res.Count("kind:account")
	res.Count("account:" + a.Op + "/" + acctVariantNames[a.Variant])
	res.Count("phase:" + phase)
	if ob.served {
		res.Count("outcome:served")
	} else {
		res.Count("outcome:refused")
	}
	res.Eval(fmt.Sprint(k.names(before.roots), a), !wantServed)
	if toCoq {
		// valid: the request passes validation; has: the harness knows whether it uploaded the sector
		valid := a.Variant == acctValid || a.Variant == acctUnknownRoot || a.Variant == acctUnfunded
		has := a.Op == "write" || a.Root < unknownBase
		bal, balAfter := before.acct, after.acct
		if a.Variant == acctUnfunded {
			bal, balAfter = before.acct2, after.acct2
		}
		ids := map[types.Hash256]uint64{}
		xs := make([]uint64, len(before.roots))
		for i, h := range before.roots {
			if _, ok := ids[h]; !ok {
				ids[h] = uint64(len(ids) + 1)
			}
			xs[i] = ids[h]
		}
		ys := make([]uint64, len(after.roots))
		for i, h := range after.roots {
			if _, ok := ids[h]; !ok {
				ids[h] = uint64(len(ids) + 1)
			}
			ys[i] = ids[h]
		}
		k.cases = append(k.cases, fmt.Sprintf("mk_case 5 %s [%s; %s] [%s; %s] 0 %s %s [%s] [] [] 0", out.NList(xs), bal.ExactString(), cost.ExactString(), out.Bool(valid), out.Bool(has), out.Bool(ob.served), out.NList(ys), balAfter.ExactString()))
	}
}

// accountAttempts enumerates the account-paid RPCs: every operation under every way of
// failing before the service is delivered, and the served ones for comparison.
func (k *checker) accountAttempts(r *rng.R, phase string) {
	e := k.e
	for _, op := range []string{"read", "verify", "write"} {
		for v := acctValid; v <= acctTruncatedData; v++ {
			if (v == acctUnknownRoot && op == "write") || (v == acctTruncatedData && op != "write") {
				continue // a write names no root; only a write carries data
			}
			for rep := 0; rep < 4; rep++ {
				a := attempt{Kind: kindAccount, Op: op, Variant: v, Root: r.Intn(len(e.pool)), Off: 0, Len: 64}
				switch op {
				case "read":
					a.Off, a.Len = []uint64{0, 64, 0, 4096}[rep], []uint64{64, 128, 4096, 64}[rep]
				case "verify":
					a.Off = uint64(r.Intn(int(proto4.LeavesPerSector)))
				case "write":
					a.Len = []uint64{64, 128, 4096, 1 << 16}[rep]
					if v == acctTruncatedData { // bytes that do arrive: none, one leaf, three quarters, all but one
						a.Len = []uint64{128, 128, 4096, 1 << 16}[rep]
						a.Off = []uint64{0, 64, 3072, 1<<16 - 1}[rep]
					}
				}
				switch v {
				case acctUnknownRoot:
					a.Root = unknownBase + rep
				case acctBadRange:
					switch op {
					case "read":
						a.Off, a.Len = []uint64{32, 0, proto4.SectorSize, proto4.SectorSize - 64}[rep], []uint64{64, 0, 64, 128}[rep]
					case "verify":
						a.Off = proto4.LeavesPerSector + uint64(rep)
					case "write":
						a.Len = []uint64{100, 0, 65, 32}[rep]
					}
				}
				k.attempt(a, true, phase)
			}
		}
	}
}

// generalised: the dimensions added in the generalisation pass (seeded/LESSONS.md): requests
// that are refused before the handler looks at their content, price tables at the extremes
// (revisions that move nothing, usage the contract cannot pay), funding as the other RPC
// that revises the contract, a second RPC while the first handler waits, extreme arguments.
func (k *checker) generalised(r *rng.R) {
	// refused on entry: unknown contract, invalid challenge signature, tampered price table;
	// each is followed by an ordinary RPC on the same contract (the lock must be free again)
	for _, base := range []int{0, 3} {
		for pre := preUnknownContract; pre <= preTamperedPrices; pre++ {
			for _, a := range []attempt{
				{Kind: kindFreeRaw, Idx: []uint64{0}},
				{Kind: kindFreeRaw, Idx: []uint64{}},
				{Kind: kindAppend, Sectors: []int{1}},
				{Kind: kindRoots, Off: 0, Len: 1},
				{Kind: kindFund, Len: 1000},
			} {
				if base == 0 && (len(a.Idx) > 0 || a.Kind == kindRoots) {
					continue
				}
				if pre == preBadChallenge && (a.Kind == kindRoots || a.Kind == kindFund) || pre == preTamperedPrices && a.Kind == kindFund {
					continue // these requests carry no challenge / no price table
				}
				a.Pre, a.BadSig = pre, r.Intn(200)
				for _, script := range []int{scriptComplete, scriptCloseAfterSig, scriptCloseAfterReq} {
					a.Script = script
					k.ensure(seqInts(base))
					k.attempt(a, true, "refused-on-entry")
				}
				k.attempt(attempt{Kind: kindAppend, Sectors: []int{2}}, true, "refused-on-entry")
			}
		}
	}
	// price tables: all zero (revisions that move no funds) and unaffordable (the payment
	// fails after the first response of free and append; stored capacity makes an append free)
	for _, table := range []int{pricesZero, pricesUnaffordable} {
		for _, script := range []int{scriptComplete, scriptBadSignature, scriptCloseAfterResp, scriptCloseAfterSig} {
			for _, a := range []attempt{
				{Kind: kindFreeClient, Idx: []uint64{0, 0, 2}},
				{Kind: kindFreeRaw, Idx: []uint64{1}},
				{Kind: kindFreeRaw, Idx: []uint64{}},
				{Kind: kindAppend, Sectors: []int{0, unknownBase}},
				{Kind: kindRoots, Off: 1, Len: 2},
			} {
				if a.Kind == kindFreeClient && script != scriptComplete {
					a.Kind, a.Idx = kindFreeRaw, []uint64{2, 0}
				}
				a.Prices, a.Script, a.BadSig = table, script, r.Intn(4)
				k.ensure(seqInts(3))
				k.attempt(a, true, "price-tables")
			}
			// an append that has to grow the contract beyond everything it ever stored
			k.ensure(seqInts(8))
			st := k.e.snapshot()
			grow := int((st.rev.Capacity-st.rev.Filesize)/proto4.SectorSize) + 2
			var sectors []int
			for i := 0; i < grow && i < 40; i++ {
				sectors = append(sectors, i%len(k.e.pool))
			}
			k.attempt(attempt{Kind: kindAppend, Sectors: sectors, Prices: table, Script: script, BadSig: r.Intn(4)}, true, "price-tables")
		}
	}
	// funding: the other RPC that revises the contract; the roots must stay
	for _, base := range []int{0, 4} {
		for _, a := range []attempt{
			{Kind: kindFund, Len: 1},
			{Kind: kindFund, Len: 123456789},
			{Kind: kindFund, Len: 0},
			{Kind: kindFund, Len: 7, Raw: true},
			{Kind: kindFund, Len: 0, Script: scriptCloseAfterReq},
			{Kind: kindFund, Len: 5, Prices: pricesUnaffordable},
			{Kind: kindFund, Len: 5, Prices: pricesUnaffordable, Script: scriptCloseAfterReq},
			{Kind: kindFund, Len: 1000, Script: scriptBadSignature, BadSig: r.Intn(4)},
			{Kind: kindFund, Len: 1000, Script: scriptCloseAfterReq},
			{Kind: kindFund, Len: 1000, Script: scriptHalfRequest},
		} {
			k.ensure(seqInts(base))
			k.attempt(a, true, "funding")
		}
	}
	// a second RPC on another stream while the handler of the first waits for the signature
	for _, first := range []attempt{
		{Kind: kindFreeRaw, Idx: []uint64{2, 0}},
		{Kind: kindAppend, Sectors: []int{0, 5}},
	} {
		for _, other := range []attempt{
			{Kind: kindFreeRaw, Idx: []uint64{1}},
			{Kind: kindFreeClient, Idx: []uint64{3, 3}},
			{Kind: kindAppend, Sectors: []int{6}},
			{Kind: kindRoots, Off: 1, Len: 2},
			{Kind: kindFund, Len: 4242},
			{Kind: kindAccount, Op: "read", Variant: acctValid, Root: 1, Len: 64},
			{Kind: kindAccount, Op: "read", Variant: acctUnknownRoot, Root: unknownBase, Len: 64},
			{Kind: kindAccount, Op: "write", Variant: acctValid, Len: 64},
		} {
			o := other
			first.Script, first.Other = scriptInterleaved, &o
			k.ensure(seqInts(4))
			k.attempt(first, true, "interleaved")
		}
	}
	// extreme arguments on the raw wire
	k.ensure(seqInts(3))
	many := make([]uint64, proto4.MaxSectorBatchSize+1)
	for i := range many {
		many[i] = uint64(i)
	}
	for _, a := range []attempt{
		{Kind: kindFreeRaw, Idx: []uint64{1 << 63}},
		{Kind: kindFreeRaw, Idx: []uint64{^uint64(0), 0}},
		{Kind: kindFreeRaw, Idx: []uint64{^uint64(0) - 1, ^uint64(0)}, Script: scriptCloseAfterSig},
		{Kind: kindRoots, Off: ^uint64(0), Len: 2, Raw: true},
		{Kind: kindRoots, Off: 1, Len: ^uint64(0), Raw: true},
		{Kind: kindRoots, Off: 0, Len: proto4.MaxSectorBatchSize + 1, Raw: true},
		{Kind: kindRoots, Off: ^uint64(0) - 1, Len: 3, Script: scriptCloseAfterReq},
	} {
		k.attempt(a, true, "extreme-arguments")
	}
	k.attempt(attempt{Kind: kindFreeRaw, Idx: many}, false, "extreme-arguments")
}

// chainConfirms: the chain confirms an OLDER revision of the live contract (the renter or host
// broadcast revision N, the contract moved on to N+1 with different roots, then a block with
// revision N is mined). The chain step must not touch what the host holds as the latest
// revision, its roots or the balances; afterwards the contract keeps working. Monitor-only.
func (k *checker) chainConfirms(r *rng.R) {
	e, res := k.e, k.c.Res
	for round, base := range []int{2, 5} {
		if k.broken {
			return
		}
		k.ensure(seqInts(base))
		k.attempt(attempt{Kind: kindAppend, Sectors: []int{6, 7}}, true, "chain-confirmation") // revision N
		stN := e.snapshot()
		basis, fce, err := e.ec.V2FileContractElement(e.cid)
		if err == nil {
			_, err = e.cm.AddV2PoolTransactions(basis, []types.V2Transaction{{FileContractRevisions: []types.V2FileContractRevision{{Parent: fce.Copy(), Revision: stN.rev}}}})
		}
		if err != nil {
			res.Notes = append(res.Notes, "chain-confirmation: the revision transaction was not accepted by the pool: "+errText(err))
			res.Count("chain-confirmation:pool-refused")
			return
		}
		// the contract moves on while revision N waits in the pool
		var later []attempt
		if round == 0 {
			later = []attempt{{Kind: kindFreeClient, Idx: []uint64{0}}}
		} else {
			later = []attempt{{Kind: kindFreeRaw, Idx: []uint64{3, 1}}, {Kind: kindAppend, Sectors: []int{0}}, {Kind: kindRoots, Off: 1, Len: 2}}
		}
		for _, a := range later {
			k.attempt(a, true, "chain-confirmation")
		}
		before := e.snapshot()
		e.mine(types.VoidAddress, 1) // confirms revision N; the contractor follows the chain
		e.quiesce()
		after := e.snapshot()
		res.Count("chain-confirmation:older-revision-mined")
		res.Eval(fmt.Sprint("confirm-older", round, k.names(before.roots)), true)
		rp := map[string]any{"base": seqInts(base), "steps": append([]string{"append[6 7] (revision N)", "broadcast revision N"}, func() (x []string) {
			for _, a := range later {
				x = append(x, a.String())
			}
			return append(x, "mine one block")
		}()...), "revision_confirmed": stN.rev.RevisionNumber, "latest_before_block": before.rev.RevisionNumber, "latest_after_block": after.rev.RevisionNumber, "roots_after": k.names(after.roots)}
		if proto4.MetaRoot(after.roots) != after.rev.FileMerkleRoot || uint64(len(after.roots))*proto4.SectorSize != after.rev.Filesize {
			res.Fail("stored-roots-do-not-hash-to-committed-root", fmt.Sprintf("after a block confirmed revision %d of the contract (latest was %d) the host holds revision %d with FileMerkleRoot %v, Filesize %d over %d roots hashing to %v", stN.rev.RevisionNumber, before.rev.RevisionNumber, after.rev.RevisionNumber, after.rev.FileMerkleRoot, after.rev.Filesize, len(after.roots), proto4.MetaRoot(after.roots)), rp)
		}
		if rt, rv, b := sameSnap(before, after); !rt || !rv || !b {
			res.Fail("chain-confirmation-changes-contract-state", fmt.Sprintf("mining a block that confirms revision %d changed the host's record of the contract: roots same=%v, latest revision same=%v (number %d -> %d), balances same=%v", stN.rev.RevisionNumber, rt, rv, before.rev.RevisionNumber, after.rev.RevisionNumber, b), rp)
		}
		k.last = nil
		// the contract keeps working from the renter's latest revision
		for _, a := range []attempt{{Kind: kindRoots, Off: 0, Len: 1}, {Kind: kindAppend, Sectors: []int{1}}, {Kind: kindFreeClient, Idx: []uint64{0, 0}}} {
			k.attempt(a, true, "chain-confirmation")
		}
	}
	// confirming the LATEST revision is a no-op too
	st := e.snapshot()
	if basis, fce, err := e.ec.V2FileContractElement(e.cid); err == nil {
		if _, err := e.cm.AddV2PoolTransactions(basis, []types.V2Transaction{{FileContractRevisions: []types.V2FileContractRevision{{Parent: fce.Copy(), Revision: st.rev}}}}); err == nil {
			e.mine(types.VoidAddress, 1)
			after := e.snapshot()
			res.Count("chain-confirmation:latest-revision-mined")
			if rt, rv, b := sameSnap(st, after); !rt || !rv || !b {
				res.Fail("chain-confirmation-changes-contract-state", fmt.Sprintf("mining a block that confirms the latest revision %d changed the host's record: roots same=%v revision same=%v balances same=%v", st.rev.RevisionNumber, rt, rv, b), map[string]any{"steps": []string{"broadcast latest revision", "mine one block"}})
			}
		}
	}
	k.last = nil
}

// blindWorker is a renter working on one contract with nothing but what the RPCs return: its
// own record of the revision and its own list model; the harness does not look at the host
// while it runs.
type blindWorker struct {
	cid    types.FileContractID
	rev    types.V2FileContract
	model  []types.Hash256
	funded types.Currency
	ops    []string
	err    string
}

func (k *checker) blindRun(w *blindWorker, r *rng.R, steps int) {
	e := k.e
	ctx := context.Background()
	for i := 0; i < steps && w.err == ""; i++ {
		p := r.Intn(10)
		if len(w.model) > 40 {
			p = r.Intn(5) // shrink or list
		}
		// choose the operation; op performs it from the renter's current revision
		var op func() error
		switch {
		case len(w.model) > 0 && p < 3:
			idx := randomIndices(r, len(w.model), min(len(w.model)+1, 6+len(w.model)/4))
			w.ops = append(w.ops, fmt.Sprintf("free%v", idx))
			op = func() error {
				res, err := rhp4.RPCFreeSectors(ctx, e.tc, e.renterKey, e.cs, e.prices, rhp4.ContractRevision{ID: w.cid, Revision: w.rev}, idx)
				if err != nil {
					return err
				}
				w.rev = res.Revision
				w.model, _ = modelFree(w.model, idx)
				return nil
			}
		case len(w.model) > 0 && p < 5: // a read API as the first call after a change
			off := uint64(r.Intn(len(w.model)))
			n := 1 + uint64(r.Intn(len(w.model)-int(off)))
			w.ops = append(w.ops, fmt.Sprintf("list[%d,+%d]", off, n))
			op = func() error {
				res, err := rhp4.RPCSectorRoots(ctx, e.tc, e.cs, e.prices, e.renterKey, rhp4.ContractRevision{ID: w.cid, Revision: w.rev}, off, n)
				if err != nil {
					return err
				}
				w.rev = res.Revision
				if !slices.Equal(res.Roots, w.model[off:off+n]) {
					w.err = fmt.Sprintf("step %d: listing [%d,+%d) returned %v, the renter's own model has %v", i, off, n, k.names(res.Roots), k.names(w.model[off:off+n]))
				}
				return nil
			}
		case p == 5:
			w.ops = append(w.ops, "fund")
			amt := types.NewCurrency64(uint64(1 + r.Intn(1000)))
			op = func() error {
				res, err := rhp4.RPCFundAccounts(ctx, e.tc, e.cs, e.renterKey, rhp4.ContractRevision{ID: w.cid, Revision: w.rev}, []proto4.AccountDeposit{{Account: e.account, Amount: amt}})
				if err != nil {
					return err
				}
				w.rev, w.funded = res.Revision, w.funded.Add(amt)
				return nil
			}
		default:
			n := 1 + r.Intn(5)
			roots := make([]types.Hash256, n)
			var names []int
			for j := range roots {
				s := r.Intn(len(e.pool))
				if r.Intn(6) == 0 {
					s = unknownBase + r.Intn(3)
				}
				roots[j], names = e.sectorRoot(s), append(names, s)
			}
			w.ops = append(w.ops, fmt.Sprintf("append%v", names))
			op = func() error {
				res, err := rhp4.RPCAppendSectors(ctx, e.tc, e.renterKey, e.cs, e.prices, rhp4.ContractRevision{ID: w.cid, Revision: w.rev}, roots)
				if err != nil {
					return err
				}
				w.rev = res.Revision
				for _, s := range names {
					if s < unknownBase {
						w.model = append(w.model, e.pool[s])
					}
				}
				return nil
			}
		}
		// A refusal is not a defect by itself: the host releases the contract only after it has
		// written its last response, so a renter that is faster than that is told the contract
		// is busy. Like a real renter it asks for the latest revision: if nothing was committed
		// it tries again; only persistent refusal, or a commit the renter was not told of, counts.
		for try := 0; ; try++ {
			err := safely(op)
			if err == nil {
				break
			}
			var latest proto4.RPCLatestRevisionResponse
			var lerr error
			for n := 0; n < 200; n++ {
				lerr = safely(func() (err error) {
					latest, err = rhp4.RPCLatestRevision(ctx, e.tc, w.cid)
					return err
				})
				if lerr == nil {
					break
				}
				time.Sleep(100 * time.Microsecond)
			}
			switch {
			case lerr != nil:
				w.err = fmt.Sprintf("step %d (%s): %v; and the latest revision cannot be fetched: %v", i, w.ops[len(w.ops)-1], err, lerr)
			case latest.Contract.RevisionNumber != w.rev.RevisionNumber:
				w.err = fmt.Sprintf("step %d (%s) failed on the renter side (%v) but the host moved to revision %d", i, w.ops[len(w.ops)-1], err, latest.Contract.RevisionNumber)
			case try >= 3:
				w.err = fmt.Sprintf("step %d (%s) refused %d times in a row: %v", i, w.ops[len(w.ops)-1], try+1, err)
			default:
				k.retries.Add(1)
				continue
			}
			break
		}
	}
}

// blindStretch runs renters on the two contracts — one after the other or at the same time —
// without any look at the host in between, and judges only at the end.
func (k *checker) blindStretch(r *rng.R, parallel bool, steps int) {
	if k.broken {
		return
	}
	e, res := k.e, k.c.Res
	e.quiesce()
	before := [2]snap{e.snapshotOf(e.cid), e.snapshotOf(e.cid2)}
	ws := [2]*blindWorker{{cid: e.cid, rev: before[0].rev, model: slices.Clone(before[0].roots)}, {cid: e.cid2, rev: before[1].rev, model: slices.Clone(before[1].roots)}}
	rs := [2]*rng.R{r.Fork(), r.Fork()}
	if parallel {
		done := make(chan struct{}, 2)
		for i := range ws {
			go func() { k.blindRun(ws[i], rs[i], steps); done <- struct{}{} }()
		}
		<-done
		<-done
	} else {
		for i := range ws {
			k.blindRun(ws[i], rs[i], steps)
		}
	}
	stuck := e.quiesce()
	mode := "sequential"
	if parallel {
		mode = "parallel"
	}
	res.Count("blind-stretch:" + mode)
	res.CountN("blind-stretch:repeated-after-busy-refusal", int(k.retries.Swap(0)))
	funded := types.ZeroCurrency
	for i, w := range ws {
		after := e.snapshotOf(w.cid)
		rp := map[string]any{"mode": mode, "contract": i, "base": k.names(before[i].roots), "operations": w.ops, "other_contract_operations": ws[1-i].ops, "roots_after": k.names(after.roots), "renter_model": k.names(w.model)}
		fail := func(kind, detail string) { res.Fail(kind, detail, rp) }
		res.CountN("blind-stretch:rpcs", len(w.ops))
		res.Eval(fmt.Sprint(mode, i, k.names(before[i].roots), w.ops), true)
		if stuck != nil {
			fail("host-handler-stuck", "handlers still running 20 s after a blind stretch")
		}
		if w.err != "" {
			fail("blind-stretch-rpc-fails", fmt.Sprintf("%s renter on contract %d, working only from what the RPCs returned, failed at %s after %v", mode, i, w.err, w.ops))
		}
		if proto4.MetaRoot(after.roots) != after.rev.FileMerkleRoot || uint64(len(after.roots))*proto4.SectorSize != after.rev.Filesize {
			fail("stored-roots-do-not-hash-to-committed-root", fmt.Sprintf("after a %s blind stretch %v contract %d holds %d roots hashing to %v under FileMerkleRoot %v, Filesize %d", mode, w.ops, i, len(after.roots), proto4.MetaRoot(after.roots), after.rev.FileMerkleRoot, after.rev.Filesize))
		}
		if w.err == "" {
			if !slices.Equal(after.roots, w.model) {
				fail("roots-differ-from-list-model", fmt.Sprintf("after the %s blind stretch %v on %v the host stores %v, the renter's list model gives %v", mode, w.ops, k.names(before[i].roots), k.names(after.roots), k.names(w.model)))
			}
			if !bytes.Equal(encodeRev(w.rev), after.revBytes) {
				fail("renter-and-host-hold-different-revisions", fmt.Sprintf("after the %s blind stretch %v the renter's last revision (%d) is not the host's (%d)", mode, w.ops, w.rev.RevisionNumber, after.rev.RevisionNumber))
			}
		}
		funded = funded.Add(w.funded)
		if i == 1 && ws[0].err == "" && ws[1].err == "" && after.acct != before[0].acct.Add(funded) {
			fail("contract-rpc-changes-account-balance", fmt.Sprintf("blind stretch: account %s H -> %s H although %s H were deposited", before[0].acct.ExactString(), after.acct.ExactString(), funded.ExactString()))
		}
	}
	for _, p := range e.rec.takeProblems() {
		res.Fail(p.Kind, p.Detail+" during a "+mode+" blind stretch", map[string]any{"mode": mode, "operations_0": ws[0].ops, "operations_1": ws[1].ops})
	}
	k.last = nil
}

// renewal: the renewed contract inherits the roots; the old one is finished.
func (k *checker) renewal(r *rng.R) {
	if k.broken {
		return
	}
	e, res := k.e, k.c.Res
	k.ensure([]int{0, 1, 2, 1, 4})
	before := e.snapshot()
	old, err := e.renew(before.rev)
	e.quiesce()
	rp := map[string]any{"base": k.names(before.roots), "operation": "RPCRenewContract"}
	res.Count("renewal")
	res.Eval(fmt.Sprint("renew", k.names(before.roots)), true)
	if err != nil {
		res.Fail("valid-rpc-not-committed", fmt.Sprintf("renewing the contract holding %v failed: %v", k.names(before.roots), err), rp)
		return
	}
	oldAfter, neu := e.snapshotOf(old), e.snapshot()
	rp["roots_of_renewal"], rp["roots_of_renewed"] = k.names(neu.roots), k.names(oldAfter.roots)
	for name, s := range map[string]snap{"the renewal": neu, "the renewed contract": oldAfter} {
		if proto4.MetaRoot(s.roots) != s.rev.FileMerkleRoot || uint64(len(s.roots))*proto4.SectorSize != s.rev.Filesize {
			res.Fail("stored-roots-do-not-hash-to-committed-root", fmt.Sprintf("after RPCRenewContract %s holds %v (%d roots) under FileMerkleRoot %v, Filesize %d", name, k.names(s.roots), len(s.roots), s.rev.FileMerkleRoot, s.rev.Filesize), rp)
		}
	}
	if !slices.Equal(neu.roots, before.roots) {
		res.Fail("roots-differ-from-list-model", fmt.Sprintf("the renewal of a contract holding %v holds %v", k.names(before.roots), k.names(neu.roots)), rp)
	}
	if neu.acct != before.acct {
		res.Fail("contract-rpc-changes-account-balance", fmt.Sprintf("renewal changed the account balance from %v to %v", before.acct, neu.acct), rp)
	}
	ids := map[types.Hash256]uint64{}
	num := func(hs []types.Hash256) string {
		xs := make([]uint64, len(hs))
		for i, h := range hs {
			if _, ok := ids[h]; !ok {
				ids[h] = uint64(len(ids) + 1)
			}
			xs[i] = ids[h]
		}
		return out.NList(xs)
	}
	k.cases = append(k.cases, fmt.Sprintf("mk_case 7 %s [] [] 0 true %s [] [] [] 0", num(before.roots), num(neu.roots)))
	k.last = nil
	// the renewal is an ordinary contract …
	for i := 0; i < 24; i++ {
		st := e.snapshot()
		k.attempt(randomAttempt(r, len(st.roots), len(e.pool), 8), true, "on-renewal")
	}
	k.readBack("on the renewal")
	// … and the renewed contract is closed: whatever is tried on it changes nothing
	cur := e.cid
	e.cid = old
	k.last = nil
	for _, a := range []attempt{
		{Kind: kindFreeClient, Idx: []uint64{0}},
		{Kind: kindFreeRaw, Idx: []uint64{1, 0}, Script: scriptCloseAfterResp},
		{Kind: kindAppend, Sectors: []int{3}},
		{Kind: kindAppend, Sectors: []int{3}, Script: scriptCloseAfterSig},
		{Kind: kindRoots, Off: 0, Len: 2},
		{Kind: kindFund, Len: 99},
	} {
		a.Pre = preUnknownContract // not revisable: refused on entry like an unknown contract
		a.BadSig = -1
		k.attempt(a, false, "on-renewed-contract")
	}
	e.cid = cur
	k.last = nil
}

// coqCase renames roots to small numbers in order of first appearance.
func (k *checker) coqCase(a attempt, before, after snap, committed bool, ob observed) string {
	ids := map[types.Hash256]uint64{}
	id := func(h types.Hash256) uint64 {
		if v, ok := ids[h]; ok {
			return v
		}
		v := uint64(len(ids) + 1)
		ids[h] = v
		return v
	}
	list := func(hs []types.Hash256) string {
		xs := make([]uint64, len(hs))
		for i, h := range hs {
			xs[i] = id(h)
		}
		return out.NList(xs)
	}
	rootsB := list(before.roots)
	args, has, outs := "[]", "[]", "[]"
	switch a.Kind {
	case kindFreeClient, kindFreeRaw:
		args = out.NList(a.Idx)
	case kindAppend:
		hs := make([]types.Hash256, len(a.Sectors))
		bs := make([]string, len(a.Sectors))
		for i, n := range a.Sectors {
			hs[i] = k.e.sectorRoot(n)
			bs[i] = out.Bool(n < unknownBase)
		}
		args, has = list(hs), out.List(bs)
		if ob.gotResp {
			fl := make([]uint64, len(ob.accepted))
			for i, b := range ob.accepted {
				if b {
					fl[i] = 1
				}
			}
			outs = out.NList(fl)
		}
	case kindRoots:
		args = out.NList([]uint64{a.Off, a.Len})
		if ob.gotResp {
			outs = list(ob.listed)
		}
	case kindFund:
		args = fmt.Sprintf("[%s; %s]", k.e.fundAmount(a, before).ExactString(), before.acct.ExactString())
		outs = "[" + after.acct.ExactString() + "]"
	}
	aux := 0
	if a.Kind == kindRoots && ob.gotResp && ob.proofLen >= 0 {
		aux = 1 + ob.proofLen
	}
	flags := out.List([]string{out.Bool(a.Pre != preUnknownContract), out.Bool(a.Pre != preBadChallenge), out.Bool(a.Pre != preTamperedPrices), out.Bool(k.affordable(a, before))})
	other := "[]"
	if o := a.Other; o != nil {
		switch o.Kind {
		case kindFreeRaw:
			other = out.NList(append([]uint64{1}, o.Idx...))
		case kindAppend:
			xs := []uint64{2}
			for _, n := range o.Sectors {
				xs = append(xs, id(k.e.sectorRoot(n)))
			}
			other = out.NList(xs)
		case kindRoots:
			other = out.NList([]uint64{3, o.Off, o.Len})
		case kindFund:
			other = out.NList([]uint64{6, o.Len})
		}
	}
	return fmt.Sprintf("mk_case %d %s %s %s %d %s %s %s %s %s %d", a.Kind, rootsB, args, has, a.Script, out.Bool(committed), list(after.roots), outs, flags, other, aux)
}

// judgeInterleaved: attempt a ran to completion and, while its handler waited for the
// signature, a.Other ran on another stream. The final state must be explained by the RPCs
// that reported success to the renter, applied in some order; whatever failed left no trace.
func (k *checker) judgeInterleaved(a attempt, before, after snap, ob observed, toCoq bool, phase string, extra map[string]any) {
	e, res := k.e, k.c.Res
	o := a.Other
	firstOK := ob.result != nil
	otherOK := ob.other != nil && (ob.other.result != nil || ob.other.served)
	extra["first_succeeded"], extra["other_succeeded"] = firstOK, otherOK
	apply := func(roots []types.Hash256, x attempt) []types.Hash256 {
		switch x.Kind {
		case kindFreeClient, kindFreeRaw:
			r, _ := modelFree(roots, x.Idx)
			return r
		case kindAppend:
			r := slices.Clone(roots)
			for _, n := range x.Sectors {
				if n < unknownBase {
					r = append(r, e.pool[n])
				}
			}
			return r
		}
		return roots
	}
	var wants [][]types.Hash256
	contractRPCs := 0
	wantAcct := before.acct
	switch {
	case firstOK && otherOK && o.Kind != kindAccount:
		wants = [][]types.Hash256{apply(apply(before.roots, a), *o), apply(apply(before.roots, *o), a)}
		contractRPCs = 2
	case firstOK:
		wants, contractRPCs = [][]types.Hash256{apply(before.roots, a)}, 1
	case otherOK && o.Kind != kindAccount:
		wants, contractRPCs = [][]types.Hash256{apply(before.roots, *o)}, 1
	default:
		wants = [][]types.Hash256{before.roots}
	}
	if otherOK && o.Kind == kindAccount {
		wantAcct = wantAcct.Sub(e.accountCost(*o))
	}
	if otherOK && o.Kind == kindFund {
		wantAcct = wantAcct.Add(types.NewCurrency64(o.Len))
	}
	if a.Kind == kindFund && firstOK {
		wantAcct = wantAcct.Add(types.NewCurrency64(a.Len))
	}
	okRoots := false
	for _, w := range wants {
		okRoots = okRoots || slices.Equal(w, after.roots)
	}
	if !okRoots {
		k.fail("interleaved-rpcs-not-serialisable", fmt.Sprintf("%s on %v: first succeeded=%v, other succeeded=%v, but the host stores %v, which no order of the successful RPCs explains", a, k.names(before.roots), firstOK, otherOK, k.names(after.roots)), before, a, extra)
	}
	if after.rev.RevisionNumber != before.rev.RevisionNumber+uint64(contractRPCs) {
		k.fail("interleaved-rpcs-revision-count", fmt.Sprintf("%s: %d contract RPCs succeeded but the revision number went from %d to %d", a, contractRPCs, before.rev.RevisionNumber, after.rev.RevisionNumber), before, a, extra)
	}
	if after.acct != wantAcct || after.acct2 != before.acct2 {
		k.fail("interleaved-rpcs-balance", fmt.Sprintf("%s: account balance %s H -> %s H, expected %s H", a, before.acct.ExactString(), after.acct.ExactString(), wantAcct.ExactString()), before, a, extra)
	}
	if contractRPCs == 0 {
		if _, v, _ := sameSnap(before, after); !v {
			k.fail("failed-or-abandoned-rpc-changes-revision", fmt.Sprintf("%s: no contract RPC succeeded but the stored revision differs", a), before, a, extra)
		}
	}
	res.Count("kind:" + kindNames[a.Kind])
	res.Count("script:" + scriptNames[a.Script])
	res.Count("phase:" + phase)
	res.Count("interleaved-with:" + kindNames[o.Kind])
	switch {
	case firstOK && !otherOK:
		res.Count("interleaved:other-refused-first-committed")
	case firstOK && otherOK:
		res.Count("interleaved:both-succeeded")
	case otherOK:
		res.Count("interleaved:only-other-succeeded")
	default:
		res.Count("interleaved:neither-succeeded")
	}
	res.Eval(fmt.Sprint(k.names(before.roots), a), len(before.roots) >= 2)
	// the model describes the lock: while the first handler waits every contract RPC on another
	// stream is refused. Where the implementation admits the other RPC (a narrower lock is
	// permitted by the property) only the monitors above judge.
	if toCoq && o.Kind != kindAccount && firstOK && !otherOK && o.Kind != kindFreeClient {
		k.cases = append(k.cases, k.coqCase(a, before, after, true, ob))
	}
}

// ensure brings the contract to the given roots (pool numbers) with complete RPCs
// through the real renter functions; these attempts are monitored too.
func (k *checker) ensure(target []int) {
	if k.broken {
		return
	}
	want := make([]types.Hash256, len(target))
	for i, n := range target {
		want[i] = k.e.pool[n]
	}
	for try := 0; try < 2; try++ {
		cur := k.e.snapshot()
		if slices.Equal(cur.roots, want) {
			return
		}
		// keep the longest common prefix, free the rest from the end, append what is missing
		p := 0
		for p < len(cur.roots) && p < len(want) && cur.roots[p] == want[p] {
			p++
		}
		kind := kindFreeClient
		if try == 1 { // a corrupted state cannot be freed through the renter API (its proof check fails)
			p, kind = 0, kindFreeRaw
		}
		if p < len(cur.roots) {
			idx := make([]uint64, 0, len(cur.roots)-p)
			for i := len(cur.roots) - 1; i >= p; i-- {
				idx = append(idx, uint64(i))
			}
			k.attempt(attempt{Kind: kind, Idx: idx}, false, "setup")
		}
		if p < len(target) {
			k.attempt(attempt{Kind: kindAppend, Sectors: target[p:]}, false, "setup")
		}
	}
	if got := k.e.snapshot(); !slices.Equal(got.roots, want) && !k.broken {
		k.broken = true
		k.c.Res.Fail("cannot-establish-base-state", fmt.Sprintf("free-all then append (renter API, then raw wire) did not produce %v but %v; remaining attempts skipped", target, k.names(got.roots)), map[string]any{"base": target})
	}
}

// readBack lists the whole contract and reads every distinct listed sector.
func (k *checker) readBack(tag string) {
	e := k.e
	st := e.snapshot()
	if len(st.roots) == 0 || k.broken {
		return
	}
	a := attempt{Kind: kindRoots, Off: 0, Len: uint64(len(st.roots))}
	after := k.attempt(a, false, "readback")
	seen := map[types.Hash256]bool{}
	for i, root := range after.roots {
		if seen[root] {
			continue
		}
		seen[root] = true
		var buf bytes.Buffer
		err := safely(func() error {
			_, err := rhp4.RPCReadSector(context.Background(), e.tc, e.prices, e.token(), &buf, root, 0, 64)
			return err
		})
		k.c.Res.Count("readback:sectors")
		if err != nil {
			k.fail("listed-sector-unreadable", fmt.Sprintf("%s: root at position %d of %v cannot be read back: %v", tag, i, k.names(after.roots), err), after, a, nil)
		} else if want, ok := e.poolData[root]; !ok || !bytes.Equal(buf.Bytes(), want) {
			k.fail("listed-sector-has-wrong-data", fmt.Sprintf("%s: root at position %d of %v reads back different data than was uploaded", tag, i, k.names(after.roots)), after, a, nil)
		}
	}
	e.quiesce()
	k.last = nil // reads debit the account
}

// safely runs a call into the code under test; a panic becomes an error.
func safely(f func() error) (err error) {
	defer func() {
		if r := recover(); r != nil {
			err = fmt.Errorf("panic: %v", r)
		}
	}()
	return f()
}

func seqInts(n int) []int {
	s := make([]int, n)
	for i := range s {
		s[i] = i
	}
	return s
}

// allLists calls f with every list over [0,n) of length <= maxLen.
func allLists(n, maxLen int, f func([]uint64)) {
	var rec func(prefix []uint64)
	rec = func(prefix []uint64) {
		f(slices.Clone(prefix))
		if len(prefix) == maxLen {
			return
		}
		for i := 0; i < n; i++ {
			rec(append(prefix, uint64(i)))
		}
	}
	rec(nil)
}

func runC09(c *hx.Ctx) {
	res := c.Res
	maxSize := c.Scale(5, 6)
	res.Rule = "one RPC attempt (free through the renter API, free on the raw wire, append, sector-roots listing; complete or stopped at a message boundary / with an invalid renter signature) against the real rhp4.Server + EphemeralContractor + EphemeralSectorStore from a known stored root list; exhaustive over contract sizes 0..N and all index lists of length <= size, plus random append/free/list sequences up to 64 sectors; non-trivial := the contract holds >= 2 roots before or after and the attempt names at least one index, sector or range; distinct by (stored roots, attempt)"
	// nothing the code under test does may kill the harness: a panic during setup or in a
	// helper is reported as a monitor failure
	var k *checker
	defer func() {
		if r := recover(); r != nil {
			if l, ok := r.(contractLocked); ok && k != nil && k.cur != nil {
				// every handler has returned (quiesce) and the contract is still locked
				k.fail("contract-left-locked-after-rpc", fmt.Sprintf("2 s after %s returned, LockV2Contract still fails (%v): no further RPC can touch the contract", k.cur, l.err), k.curBefore, *k.cur, nil)
				res.WriteCases("Run.Run_C09", k.cases)
				return
			}
			res.Fail("host-renter-setup-or-helper-panics", fmt.Sprintf("%v\n%s", r, debug.Stack()), map[string]any{"panic": fmt.Sprint(r)})
		}
	}()
	e := newEnv(c.R.Fork(), 8)
	defer e.close()
	k = &checker{c: c, e: e}

	if c.Replay != "" {
		var rp struct {
			Replay struct {
				Base    []int   `json:"base"`
				Attempt attempt `json:"attempt"`
			} `json:"replay"`
		}
		b, err := os.ReadFile(c.Replay)
		if err == nil {
			err = json.Unmarshal(b, &rp)
		}
		if err != nil {
			res.Notes = append(res.Notes, "cannot read replay file: "+err.Error())
			return
		}
		for _, n := range rp.Replay.Base {
			if n < 0 || n >= len(e.pool) {
				res.Notes = append(res.Notes, "replay base names a root outside the pool")
				return
			}
		}
		k.ensure(rp.Replay.Base)
		k.attempt(rp.Replay.Attempt, true, "replay")
		res.WriteCases("Run.Run_C09", k.cases)
		return
	}

	// corpus: minimised earlier failures first
	for _, cs := range c09Corpus() {
		k.ensure(cs.base)
		k.attempt(cs.a, true, "corpus")
	}

	r := c.R.Fork()
	coqBudget := c.Scale(12000, 60000)

	// (1) every contract size, every index list (any order, duplicates) through the renter API
	for n := 0; n <= maxSize; n++ {
		count := 0
		allLists(n, n, func(idx []uint64) {
			count++
			toCoq := n <= 5 || (n == 6 && count%40 == 0)
			k.ensure(seqInts(n))
			k.attempt(attempt{Kind: kindFreeClient, Idx: idx}, toCoq, "exhaustive-client-free")
		})
	}
	// out-of-range indices through the renter API
	for n := 0; n <= 3; n++ {
		for _, idx := range [][]uint64{{uint64(n)}, {0, uint64(n)}, {uint64(n) + 7, 0}, {^uint64(0)}} {
			k.ensure(seqInts(n))
			k.attempt(attempt{Kind: kindFreeClient, Idx: idx}, true, "out-of-range")
		}
	}

	// (2) every abort point of free, on every normalised index set
	for n := 0; n <= maxSize; n++ {
		for mask := 0; mask < 1<<n; mask++ {
			var idx []uint64
			for i := n - 1; i >= 0; i-- {
				if mask&(1<<i) != 0 {
					idx = append(idx, uint64(i))
				}
			}
			for script := scriptCloseAfterReq; script <= scriptHalfSignature; script++ {
				k.ensure(seqInts(n))
				k.attempt(attempt{Kind: kindFreeRaw, Idx: idx, Script: script, BadSig: r.Intn(4)}, n <= 4 || mask%3 == 0, "free-aborts")
			}
		}
	}

	// (3) the raw wire with lists that are not normalised: every arrangement without
	// repetition (any order), complete and aborted; lists with duplicates are refused
	rawSize := maxSize - 1
	for n := 0; n <= rawSize; n++ {
		allLists(n, n, func(idx []uint64) {
			if hasDup(idx) {
				if len(idx) > 3 && r.Intn(8) != 0 {
					return
				}
				k.ensure(seqInts(n))
				k.attempt(attempt{Kind: kindFreeRaw, Idx: idx}, true, "raw-duplicates")
				return
			}
			k.ensure(seqInts(n))
			k.attempt(attempt{Kind: kindFreeRaw, Idx: idx}, true, "raw-any-order")
			if !normalised(idx) && r.Intn(4) == 0 {
				k.ensure(seqInts(n))
				k.attempt(attempt{Kind: kindFreeRaw, Idx: idx, Script: scriptCloseAfterResp + r.Intn(2), BadSig: r.Intn(4)}, true, "raw-any-order")
			}
		})
	}

	// (4) append: every sector list of length 1..3 over {stored, stored, unknown}, every script
	alphabet := []int{0, 1, unknownBase}
	for base := 0; base <= 3; base++ {
		var lists [][]int
		var rec func(p []int)
		rec = func(p []int) {
			if len(p) > 0 {
				lists = append(lists, slices.Clone(p))
			}
			if len(p) == 3 {
				return
			}
			for _, s := range alphabet {
				rec(append(p, s))
			}
		}
		rec(nil)
		for _, l := range lists {
			for script := scriptComplete; script <= scriptHalfSignature; script++ {
				if base >= 2 && len(l) == 3 && script != scriptComplete && r.Intn(3) != 0 {
					continue
				}
				k.ensure(seqInts(base))
				k.attempt(attempt{Kind: kindAppend, Sectors: l, Script: script, BadSig: r.Intn(4)}, true, "append")
			}
		}
		// an empty append is refused
		k.ensure(seqInts(base))
		k.attempt(attempt{Kind: kindAppend, Sectors: nil}, false, "append")
	}

	// (5) listing: every range of every size, in range and just out of range
	for n := 0; n <= maxSize; n++ {
		k.ensure(seqInts(n))
		for off := 0; off <= n+1; off++ {
			for l := 0; l <= n+1-off+1 && l <= n+1; l++ {
				script := scriptComplete
				if (off+l)%5 == 4 {
					script = []int{scriptBadSignature, scriptCloseAfterReq, scriptHalfRequest}[(off+l)%3]
				}
				k.attempt(attempt{Kind: kindRoots, Off: uint64(off), Len: uint64(l), Script: script, BadSig: r.Intn(4), Raw: (off+l)%2 == 0}, true, "listing")
			}
		}
	}
	// law check for the symbolic range proofs of RHP/Roots.v: as many digests as core's
	// RangeProofSize says the real proof has hashes, for every range of every size to 20
	for n := uint64(1); n <= 20; n++ {
		for off := uint64(0); off < n; off++ {
			for l := uint64(1); off+l <= n; l++ {
				k.cases = append(k.cases, fmt.Sprintf("mk_case 4 [] %s [] 0 false [] [] [] [] %d", out.NList([]uint64{n, off, l}), 1+rhp2.RangeProofSize(n, off, off+l)))
				res.Count("law:range-proof-size")
			}
		}
	}
	// (5b) the account-paid RPCs, on an empty and on a populated contract
	k.ensure(nil)
	k.accountAttempts(r, "account")
	k.ensure(seqInts(3))
	k.accountAttempts(r, "account")
	k.generalised(r)
	k.chainConfirms(r)
	k.readBack("after the exhaustive phases")
	res.Exhaustive = true
	res.Explored = map[string]any{"max_contract_size_client_free": maxSize, "max_contract_size_raw_any_order": rawSize, "pool_sectors": len(e.pool)}

	// (6) random sequences up to 64 sectors
	nseq := c.Scale(60, 600)
	for s := 0; s < nseq; s++ {
		sr := c.R.Fork()
		k.ensure(nil)
		steps := 20 + sr.Intn(30)
		target := []int{6, 16, 40, 64}[sr.Intn(4)]
		var trace []string
		for i := 0; i < steps; i++ {
			st := e.snapshot()
			a := randomAttempt(sr, len(st.roots), len(e.pool), target)
			if sr.Intn(8) == 0 {
				a = randomAccountAttempt(sr, len(e.pool))
			} else if sr.Intn(12) == 0 { // the other RPC that revises the contract, in the mix
				a = attempt{Kind: kindFund, Len: uint64(sr.Intn(5000)), Script: []int{scriptComplete, scriptComplete, scriptBadSignature, scriptCloseAfterReq, scriptHalfRequest}[sr.Intn(5)], BadSig: sr.Intn(4), Raw: sr.Bool()}
			}
			trace = append(trace, a.String())
			k.attempt(a, len(k.cases) < coqBudget, "random")
		}
		if s < 2 {
			res.Sample(map[string]any{"sequence": trace})
		}
		if s%4 == 0 {
			k.readBack(fmt.Sprintf("after random sequence %d", s))
		}
	}
	// (7) blind stretches: renters on two contracts that work only from what the RPCs return,
	// one after the other and at the same time; judged at the end
	for i := 0; i < c.Scale(6, 60); i++ {
		k.blindStretch(c.R.Fork(), i%2 == 1, 8+i%3*4)
	}
	// (8) renewal
	k.renewal(c.R.Fork())
	k.readBack("at the end")
	res.CountN("host:revise-calls", e.rec.revises)
	res.WriteCases("Run.Run_C09", k.cases)
}

// randomAttempt draws the next attempt of a random sequence; target is the contract size the
// sequence hovers around.
func randomAttempt(r *rng.R, size, pool, target int) attempt {
	a := attempt{BadSig: r.Intn(4)}
	if r.Intn(10) < 3 {
		a.Script = 1 + r.Intn(5)
	}
	p := r.Intn(100)
	freeBias := 45
	if size < target {
		freeBias = 15
	}
	switch {
	case size >= 60 || (size > 0 && p < freeBias):
		a.Kind = kindFreeClient
		maxLen := min(size+1, 9)
		if size >= 60 {
			maxLen = 24
		}
		a.Idx = randomIndices(r, size, maxLen)
		if r.Intn(25) == 0 {
			a.Idx = append(a.Idx, uint64(size+r.Intn(3))) // out of range
		}
		if a.Script != scriptComplete || r.Intn(4) == 0 {
			a.Kind = kindFreeRaw
			if r.Intn(3) != 0 { // mostly what the renter API would send
				slices.SortFunc(a.Idx, func(x, y uint64) int {
					if x > y {
						return -1
					} else if x < y {
						return 1
					}
					return 0
				})
				a.Idx = slices.Compact(a.Idx)
			}
		}
	case p < 80 || size == 0:
		a.Kind = kindAppend
		n := 1 + r.Intn(6)
		if size < target && r.Intn(2) == 0 {
			n += r.Intn(14)
		}
		n = min(n, 64-size)
		if n <= 0 {
			n = 1
		}
		for i := 0; i < n; i++ {
			if r.Intn(5) == 0 {
				a.Sectors = append(a.Sectors, unknownBase+r.Intn(4))
			} else {
				a.Sectors = append(a.Sectors, r.Intn(pool))
			}
		}
	default:
		a.Kind = kindRoots
		a.Off = uint64(r.Intn(size + 1))
		a.Len = uint64(r.Intn(size - int(a.Off) + 2))
		if a.Script == scriptCloseAfterResp || a.Script == scriptCloseAfterSig {
			a.Script = scriptComplete
		}
		a.Raw = r.Bool()
	}
	return a
}

func randomAccountAttempt(r *rng.R, pool int) attempt {
	a := attempt{Kind: kindAccount, Op: []string{"read", "read", "verify", "write"}[r.Intn(4)], Root: r.Intn(pool), Len: 64 * uint64(1+r.Intn(8))}
	a.Variant = []int{acctValid, acctValid, acctUnknownRoot, acctUnknownRoot, acctBadRange, acctExpiredToken, acctForgedToken, acctWrongHostToken, acctUnfunded}[r.Intn(9)]
	if a.Op == "verify" {
		a.Off, a.Len = uint64(r.Intn(int(proto4.LeavesPerSector))), 64
	} else if a.Op == "read" {
		a.Off = 64 * uint64(r.Intn(16))
	}
	switch {
	case a.Variant == acctUnknownRoot && a.Op == "write":
		a.Variant = acctTruncatedData
	case a.Variant == acctUnknownRoot:
		a.Root = unknownBase + r.Intn(4)
	case a.Variant == acctBadRange && a.Op == "verify":
		a.Off = proto4.LeavesPerSector + uint64(r.Intn(5))
	case a.Variant == acctBadRange:
		a.Len += 1 + uint64(r.Intn(63))
	}
	return a
}

type corpusCase struct {
	base []int
	a    attempt
}

// c09Corpus holds minimised earlier failures; they run first.
func c09Corpus() []corpusCase {
	return []corpusCase{
		// F6: free [0] of [a;b;c], the renter never signs: stored roots became [c;b;c]
		{[]int{0, 1, 2}, attempt{Kind: kindFreeRaw, Idx: []uint64{0}, Script: scriptCloseAfterResp}},
		{[]int{0, 1, 2}, attempt{Kind: kindFreeRaw, Idx: []uint64{0}, Script: scriptBadSignature, BadSig: 2}},
		{[]int{0, 1, 2, 3}, attempt{Kind: kindFreeRaw, Idx: []uint64{1, 0}, Script: scriptCloseAfterSig}},
		// the raw wire in ascending order keeps the wrong root (documented, consistent)
		{[]int{0, 1, 2}, attempt{Kind: kindFreeRaw, Idx: []uint64{0, 2}}},
		{[]int{0, 1}, attempt{Kind: kindAppend, Sectors: []int{2, unknownBase, 2}, Script: scriptCloseAfterResp}},
		// a read of a sector the host does not store must not be charged
		{[]int{0, 1}, attempt{Kind: kindAccount, Op: "read", Variant: acctUnknownRoot, Root: unknownBase, Len: 64}},
		// a listing that does not start at 0 (the renter-side proof check once panicked)
		{[]int{0, 1, 2, 3}, attempt{Kind: kindRoots, Off: 1, Len: 2}},
	}
}
