package main

// The host and renter of the C09 harness: a real rhp4.Server with the in-repo
// reference contractor (testutil.EphemeralContractor) and sector store, reached
// over siamux on loopback TCP; a renter with its own wallet and key. The
// contractor is wrapped by a recorder that judges every ReviseV2Contract call,
// and every server-side stream is wrapped so that the harness knows when the
// handler of an abandoned RPC has returned.

import (
	"bytes"
	"context"
	"crypto/ed25519"
	"errors"
	"fmt"
	"net"
	"sync"
	"sync/atomic"
	"time"

	"go.sia.tech/core/consensus"
	proto4 "go.sia.tech/core/rhp/v4"
	"go.sia.tech/core/types"
	coreutils "go.sia.tech/coreutils"
	"go.sia.tech/coreutils/chain"
	rhp4 "go.sia.tech/coreutils/rhp/v4"
	"go.sia.tech/coreutils/rhp/v4/siamux"
	"go.sia.tech/coreutils/testutil"
	"go.sia.tech/coreutils/wallet"
	"go.sia.tech/mux"
	"go.uber.org/zap"
	"verif/harness/internal/rng"
)

// recContractor passes every call through to the reference contractor and
// records what the server asks it to commit.
type recContractor struct {
	rhp4.Contractor
	cm        *chain.Manager
	renterKey types.PublicKey
	hostKey   types.PublicKey

	mu       sync.Mutex
	revises  int
	problems []commitProblem
}

type commitProblem struct {
	Kind   string `json:"kind"`
	Detail string `json:"detail"`
}

func (rc *recContractor) ReviseV2Contract(id types.FileContractID, revision types.V2FileContract, roots []types.Hash256, usage proto4.Usage) error {
	sigHash := rc.cm.TipState().ContractSigHash(revision)
	var ps []commitProblem
	if !rc.renterKey.VerifyHash(sigHash, revision.RenterSignature) {
		ps = append(ps, commitProblem{"host-commits-without-valid-renter-signature", fmt.Sprintf("ReviseV2Contract called with revision %d whose renter signature does not verify", revision.RevisionNumber)})
	}
	if !rc.hostKey.VerifyHash(sigHash, revision.HostSignature) {
		ps = append(ps, commitProblem{"host-commits-without-valid-host-signature", fmt.Sprintf("ReviseV2Contract called with revision %d whose host signature does not verify", revision.RevisionNumber)})
	}
	if proto4.MetaRoot(roots) != revision.FileMerkleRoot {
		ps = append(ps, commitProblem{"host-commits-roots-that-do-not-hash-to-revision", fmt.Sprintf("ReviseV2Contract called with %d roots hashing to %v but FileMerkleRoot %v", len(roots), proto4.MetaRoot(roots), revision.FileMerkleRoot)})
	}
	if uint64(len(roots))*proto4.SectorSize != revision.Filesize {
		ps = append(ps, commitProblem{"host-commits-root-count-differing-from-filesize", fmt.Sprintf("ReviseV2Contract called with %d roots but Filesize %d", len(roots), revision.Filesize)})
	}
	rc.mu.Lock()
	rc.revises++
	rc.problems = append(rc.problems, ps...)
	rc.mu.Unlock()
	return rc.Contractor.ReviseV2Contract(id, revision, roots, usage)
}

func (rc *recContractor) takeProblems() []commitProblem {
	rc.mu.Lock()
	defer rc.mu.Unlock()
	ps := rc.problems
	rc.problems = nil
	return ps
}

// countingMux wraps the server side of the mux: every accepted stream is counted
// and reports when the server closed it (the handler returned).
type countingMux struct {
	m *mux.Mux
	e *env
}

func (t *countingMux) AcceptStream() (net.Conn, error) {
	s, err := t.m.AcceptStream()
	if err != nil {
		return nil, err
	}
	t.e.accepted.Add(1)
	return &doneConn{Conn: s, e: t.e}, nil
}
func (t *countingMux) Close() error { return t.m.Close() }

type doneConn struct {
	net.Conn
	e    *env
	once sync.Once
}

func (c *doneConn) Close() error {
	err := c.Conn.Close()
	c.once.Do(func() { c.e.closed.Add(1) })
	return err
}

// countingClient wraps the renter's transport: a stream counts as established
// once something was written on it (only then does the host see it).
type countingClient struct {
	rhp4.TransportClient
	e *env
}

func (c *countingClient) DialStream(ctx context.Context) (net.Conn, error) {
	s, err := c.TransportClient.DialStream(ctx)
	if err != nil {
		return nil, err
	}
	return &estConn{Conn: s, e: c.e}, nil
}

type estConn struct {
	net.Conn
	e    *env
	once sync.Once
}

func (c *estConn) Write(p []byte) (int, error) {
	c.once.Do(func() { c.e.established.Add(1) })
	return c.Conn.Write(p)
}

type renterSigner struct {
	w  *wallet.SingleAddressWallet
	pk types.PrivateKey
}

func (fs *renterSigner) FundV2Transaction(txn *types.V2Transaction, amount types.Currency) (types.ChainIndex, []int, error) {
	return fs.w.FundV2Transaction(txn, amount, true)
}
func (fs *renterSigner) RecommendedFee() types.Currency           { return fs.w.RecommendedFee() }
func (fs *renterSigner) ReleaseInputs(txns []types.V2Transaction) { fs.w.ReleaseInputs(nil, txns) }
func (fs *renterSigner) SignV2Inputs(txn *types.V2Transaction, toSign []int) {
	fs.w.SignV2Inputs(txn, toSign)
}
func (fs *renterSigner) SignHash(h types.Hash256) types.Signature { return fs.pk.SignHash(h) }

type env struct {
	cm                 *chain.Manager
	hostKey, renterKey types.PrivateKey
	poorKey            types.PrivateKey // owner of an account that is never funded
	hw, rw             *wallet.SingleAddressWallet
	hws, rws           *testutil.EphemeralWalletStore
	ec                 *testutil.EphemeralContractor
	rec                *recContractor
	ss                 *testutil.EphemeralSectorStore
	srv                *rhp4.Server
	tc                 rhp4.TransportClient
	signer             *renterSigner
	prices             proto4.HostPrices
	priceTables        []proto4.HostPrices // host-signed: normal, all zero, unaffordable
	cs                 consensus.State
	cid                types.FileContractID // the contract the attempts work on
	cid2               types.FileContractID // a second contract of the same renter on the same host
	hostAddr           types.Address
	account            proto4.Account

	pool     []types.Hash256          // sectors the host stores
	poolData map[types.Hash256][]byte // their first bytes, for the read-back monitor

	accepted, closed, established atomic.Int64
	cleanup                       []func()
}

func must(err error, what string) {
	if err != nil {
		panic(fmt.Sprintf("c09 setup: %s: %v", what, err))
	}
}

func (e *env) syncWallets() {
	for _, p := range []struct {
		w  *wallet.SingleAddressWallet
		ws *testutil.EphemeralWalletStore
	}{{e.hw, e.hws}, {e.rw, e.rws}} {
		for {
			tip, err := p.ws.Tip()
			must(err, "wallet tip")
			reverted, applied, err := e.cm.UpdatesSince(tip, 1000)
			must(err, "updates since")
			if len(reverted) == 0 && len(applied) == 0 {
				break
			}
			must(p.ws.UpdateChainState(func(tx wallet.UpdateTx) error {
				return p.w.UpdateChainState(tx, reverted, applied)
			}), "wallet update")
		}
	}
	if e.ec != nil {
		for i := 0; ; i++ {
			tip, _ := e.ec.Tip()
			if tip == e.cm.Tip() {
				break
			}
			if i > 5000 {
				panic("c09 setup: contractor does not catch up with the chain")
			}
			time.Sleep(time.Millisecond)
		}
	}
}

func (e *env) mine(addr types.Address, n int) {
	for ; n > 0; n-- {
		b, ok := coreutils.MineBlock(e.cm, addr, 5*time.Second)
		if !ok {
			panic("c09 setup: failed to mine a block")
		}
		must(e.cm.AddBlocks([]types.Block{b}), "add block")
	}
	e.syncWallets()
}

func keyFrom(r *rng.R) types.PrivateKey {
	seed := make([]byte, ed25519.SeedSize)
	r.Bytes(seed)
	return types.NewPrivateKeyFromSeed(seed)
}

// newEnv builds the node, the two wallets, the host, forms and confirms one
// contract, funds the renter's account and uploads the sector pool.
func newEnv(r *rng.R, poolSize int) *env {
	e := &env{poolData: map[types.Hash256][]byte{}}
	n, genesis := testutil.V2Network()
	db, tipstate, err := chain.NewDBStore(chain.NewMemDB(), n, genesis, nil)
	must(err, "dbstore")
	e.cm = chain.NewManager(db, tipstate)
	e.hostKey, e.renterKey = keyFrom(r), keyFrom(r)
	e.poorKey = keyFrom(r)

	e.hws, e.rws = testutil.NewEphemeralWalletStore(), testutil.NewEphemeralWalletStore()
	e.hw, err = wallet.NewSingleAddressWallet(keyFrom(r), e.cm, e.hws, &testutil.MockSyncer{})
	must(err, "host wallet")
	e.rw, err = wallet.NewSingleAddressWallet(keyFrom(r), e.cm, e.rws, &testutil.MockSyncer{})
	must(err, "renter wallet")
	e.cleanup = append(e.cleanup, func() { e.hw.Close(); e.rw.Close() })

	e.mine(e.rw.Address(), 10)
	e.mine(e.hw.Address(), int(n.MaturityDelay)+10)

	sr := testutil.NewEphemeralSettingsReporter()
	sr.Update(proto4.HostSettings{
		Release:             "verif-c09",
		AcceptingContracts:  true,
		WalletAddress:       e.hw.Address(),
		MaxCollateral:       types.Siacoins(10000),
		MaxContractDuration: 2000,
		RemainingStorage:    1000 * proto4.SectorSize,
		TotalStorage:        1000 * proto4.SectorSize,
		Prices: proto4.HostPrices{
			ContractPrice:   types.Siacoins(1).Div64(5),
			StoragePrice:    types.NewCurrency64(100),
			IngressPrice:    types.NewCurrency64(100),
			EgressPrice:     types.NewCurrency64(100),
			Collateral:      types.NewCurrency64(200),
			FreeSectorPrice: types.NewCurrency64(1000),
		},
	})
	e.ss = testutil.NewEphemeralSectorStore()
	e.ec = testutil.NewEphemeralContractor(e.cm)
	e.cleanup = append(e.cleanup, func() { e.ec.Close() })
	e.rec = &recContractor{Contractor: e.ec, cm: e.cm, renterKey: e.renterKey.PublicKey(), hostKey: e.hostKey.PublicKey()}
	e.srv = rhp4.NewServer(e.hostKey, e.cm, e.rec, e.hw, sr, e.ss, rhp4.WithPriceTableValidity(24*time.Hour))

	// serve siamux on loopback; like siamux.Serve, with the mux wrapped
	l, err := net.Listen("tcp", "127.0.0.1:0")
	must(err, "listen")
	e.cleanup = append(e.cleanup, func() { l.Close() })
	go func() {
		for {
			conn, err := l.Accept()
			if err != nil {
				return
			}
			go func() {
				defer conn.Close()
				m, err := mux.Accept(conn, ed25519.PrivateKey(e.hostKey))
				if err != nil {
					return
				}
				e.srv.Serve(&countingMux{m: m, e: e}, zap.NewNop())
			}()
		}
	}()
	tc, err := siamux.Dial(context.Background(), l.Addr().String(), e.hostKey.PublicKey())
	must(err, "dial")
	e.tc = &countingClient{TransportClient: tc, e: e}
	e.cleanup = append(e.cleanup, func() { tc.Close() })

	settings, err := rhp4.RPCSettings(context.Background(), e.tc)
	must(err, "settings")
	e.prices = settings.Prices
	// two more host-signed price tables: the host honours every table it signed
	e.priceTables = []proto4.HostPrices{e.prices}
	normal := sr.RHP4Settings()
	for _, hp := range []proto4.HostPrices{
		{}, // every price zero
		{ContractPrice: types.Siacoins(1), StoragePrice: types.Siacoins(1), IngressPrice: types.Siacoins(1), EgressPrice: types.Siacoins(1), Collateral: types.NewCurrency64(200), FreeSectorPrice: types.Siacoins(5000)},
	} {
		alt := normal
		alt.Prices = hp
		sr.Update(alt)
		st, err := rhp4.RPCSettings(context.Background(), e.tc)
		must(err, "settings")
		e.priceTables = append(e.priceTables, st.Prices)
	}
	sr.Update(normal)
	e.signer = &renterSigner{e.rw, e.renterKey}

	e.hostAddr = settings.WalletAddress
	e.cid = e.formContract()
	e.cid2 = e.formContract()
	e.mine(types.VoidAddress, 1)
	e.cs = e.cm.TipState()
	e.account = proto4.Account(e.renterKey.PublicKey())
	e.quiesce()

	st := e.snapshot()
	_, err = rhp4.RPCFundAccounts(context.Background(), e.tc, e.cs, e.renterKey, rhp4.ContractRevision{ID: e.cid, Revision: st.rev}, []proto4.AccountDeposit{{Account: e.account, Amount: types.Siacoins(100)}})
	must(err, "fund account")
	e.quiesce()

	for i := 0; i < poolSize; i++ {
		data := make([]byte, 64)
		r.Bytes(data)
		data[0] = byte(i) // distinct sectors
		res, err := rhp4.RPCWriteSector(context.Background(), e.tc, e.prices, e.token(), bytes.NewReader(data), uint64(len(data)))
		must(err, "write sector")
		e.pool = append(e.pool, res.Root)
		e.poolData[res.Root] = data
	}
	e.quiesce()
	e.rec.takeProblems()
	return e
}

func (e *env) formContract() types.FileContractID {
	form, err := rhp4.RPCFormContract(context.Background(), e.tc, e.cm, e.signer, e.cm.TipState(), e.prices, e.hostKey.PublicKey(), e.hostAddr, proto4.RPCFormContractParams{
		RenterPublicKey: e.renterKey.PublicKey(),
		RenterAddress:   e.rw.Address(),
		Allowance:       types.Siacoins(1000),
		Collateral:      types.Siacoins(2000),
		ProofHeight:     e.cm.Tip().Height + 1000,
	})
	must(err, "form contract")
	return form.Contract.ID
}

// renew renews the current contract through the real renter function and makes the renewal
// the current contract; returns the old id.
func (e *env) renew(existing types.V2FileContract) (old types.FileContractID, err error) {
	old = e.cid
	err = func() (err error) {
		defer func() {
			if r := recover(); r != nil {
				err = fmt.Errorf("panic: %v", r)
			}
		}()
		_, err = rhp4.RPCRenewContract(context.Background(), e.tc, e.cm, e.signer, e.cm.TipState(), e.prices, e.hostAddr, existing, proto4.RPCRenewContractParams{
			ContractID:  old,
			Allowance:   types.Siacoins(500),
			Collateral:  types.Siacoins(1000),
			ProofHeight: existing.ProofHeight + 200,
		})
		return err
	}()
	if err == nil {
		e.cid = old.V2RenewalID()
	}
	return old, err
}

func (e *env) close() {
	for i := len(e.cleanup) - 1; i >= 0; i-- {
		e.cleanup[i]()
	}
}

func (e *env) token() proto4.AccountToken {
	return proto4.NewAccountToken(e.renterKey, e.hostKey.PublicKey())
}

var errHandlerStuck = errors.New("host handler did not return")

// quiesce waits until every stream the renter established has been accepted by
// the host and its handler has returned.
func (e *env) quiesce() error {
	deadline := time.Now().Add(20 * time.Second)
	for i := 0; ; i++ {
		est := e.established.Load()
		if e.accepted.Load() >= est && e.closed.Load() >= e.accepted.Load() && e.accepted.Load() == est {
			return nil
		}
		if time.Now().After(deadline) {
			return errHandlerStuck
		}
		if i < 200 {
			time.Sleep(20 * time.Microsecond)
		} else {
			time.Sleep(time.Millisecond)
		}
	}
}

// snap is the contractor's state for the contract plus the renter's account balance.
type snap struct {
	rev      types.V2FileContract
	revBytes []byte
	roots    []types.Hash256
	acct     types.Currency
	acct2    types.Currency // the unfunded second account
}

func encodeRev(rev types.V2FileContract) []byte {
	var buf bytes.Buffer
	enc := types.NewEncoder(&buf)
	rev.EncodeTo(enc)
	enc.Flush()
	return buf.Bytes()
}

// contractLocked is the panic value of snapshot when the contract stays locked although
// every handler has returned (recognised by type in runC09).
type contractLocked struct{ err error }

// snapshot reads the reference contractor directly (not through the server).
func (e *env) snapshot() snap { return e.snapshotOf(e.cid) }

func (e *env) snapshotOf(cid types.FileContractID) snap {
	var st rhp4.RevisionState
	var unlock func()
	var err error
	for i := 0; ; i++ {
		st, unlock, err = e.ec.LockV2Contract(cid)
		if err == nil {
			break
		}
		if i > 20000 {
			panic(contractLocked{err})
		}
		time.Sleep(100 * time.Microsecond)
	}
	s := snap{rev: st.Revision, revBytes: encodeRev(st.Revision), roots: append([]types.Hash256(nil), st.Roots...)}
	unlock()
	s.acct, _ = e.ec.AccountBalance(e.account)
	s.acct2, _ = e.ec.AccountBalance(proto4.Account(e.poorKey.PublicKey()))
	return s
}
