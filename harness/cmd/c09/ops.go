package main

// One RPC attempt against the real host: through the real renter functions of
// rhp/v4/rpc.go (complete scripts) or on the raw stream (aborts, invalid
// signatures, lists the renter API would have normalised).

import (
	"bytes"
	"context"
	"fmt"
	"io"
	"slices"
	"sort"
	"time"

	proto4 "go.sia.tech/core/rhp/v4"
	"go.sia.tech/core/types"
	rhp4 "go.sia.tech/coreutils/rhp/v4"
	"verif/harness/internal/rng"
)

const (
	kindFreeClient = 0 // rhp4.RPCFreeSectors with the caller's indices
	kindFreeRaw    = 1 // the indices exactly as given, on the raw stream
	kindAppend     = 2
	kindRoots      = 3
	kindAccount    = 5 // account-paid RPCs: read, verify, write a sector (4 is the law check of the runner)
	kindFund       = 6 // RPCFundAccounts: the other RPC that revises the contract (roots must stay)

	scriptComplete       = 0
	scriptCloseAfterReq  = 1 // request written, stream closed, response never read
	scriptCloseAfterResp = 2 // first response read, stream closed
	scriptBadSignature   = 3
	scriptCloseAfterSig  = 4 // valid signature written, stream closed, host signature never read
	scriptHalfRequest    = 5 // RPC id and half of the request written, stream closed
	scriptHalfSignature  = 6 // half of the signature message written, stream closed
	scriptInterleaved    = 7 // complete; between first response and signature attempt Other runs on its own stream

	// what is wrong with the request before the handler looks at its content
	preNone            = 0
	preUnknownContract = 1
	preBadChallenge    = 2
	preTamperedPrices  = 3

	// price tables (all signed by the host)
	pricesNormal       = 0
	pricesZero         = 1 // every price 0: revisions that move no funds
	pricesUnaffordable = 2 // one freed sector / one stored sector / one listed root costs more than the contract holds
)

var kindNames = []string{"free-client", "free-raw", "append", "roots", "law", "account", "fund"}
var preNames = []string{"", "unknown-contract", "bad-challenge", "tampered-prices"}
var priceNames = []string{"", "zero-prices", "unaffordable-prices"}

// variants of an account-paid attempt
const (
	acctValid          = 0 // must be served and charged exactly the cost
	acctUnknownRoot    = 1 // read / verify of a root the host does not store
	acctBadRange       = 2 // misaligned or out-of-bounds range, leaf index, data length (raw stream)
	acctExpiredToken   = 3 // (raw stream: the renter functions refuse to send these)
	acctForgedToken    = 4 // token signed by another key
	acctWrongHostToken = 5 // token issued for another host
	acctUnfunded       = 6 // valid request on an account without funds
	acctTruncatedData  = 7 // write: the announced data never arrives
)

var acctVariantNames = []string{"valid", "unknown-root", "bad-range", "expired-token", "forged-token", "wrong-host-token", "unfunded-account", "truncated-data"}
var scriptNames = []string{"complete", "close-after-request", "close-after-first-response", "bad-signature", "close-after-signature", "half-request", "half-signature", "interleaved"}

// attempt is the abstract description of one RPC attempt (also the replay format).
// Sector roots are pool numbers; numbers >= unknownBase name roots the host does not store.
type attempt struct {
	Kind    int      `json:"kind"`
	Script  int      `json:"script"`
	Idx     []uint64 `json:"indices,omitempty"`
	Sectors []int    `json:"sectors,omitempty"`
	Off     uint64   `json:"offset,omitempty"`
	Len     uint64   `json:"length,omitempty"`
	BadSig  int      `json:"bad_signature_variant,omitempty"`
	Raw     bool     `json:"raw,omitempty"` // listing: complete script on the raw stream (the proof is observed)
	Op      string   `json:"op,omitempty"`  // account: read | verify | write
	Variant int      `json:"variant,omitempty"`
	Root    int      `json:"root,omitempty"` // account: pool number or unknown number
	Pre     int      `json:"precondition,omitempty"`
	Prices  int      `json:"prices,omitempty"`
	Other   *attempt `json:"other,omitempty"` // script interleaved: runs on another stream while this handler waits
}

const unknownBase = 1000

func (a attempt) String() string {
	if a.Kind == kindAccount {
		return fmt.Sprintf("account/%s/%s(root %d, offset %d, length %d)", a.Op, acctVariantNames[a.Variant], a.Root, a.Off, a.Len)
	}
	s := kindNames[a.Kind] + "/" + scriptNames[a.Script]
	switch a.Kind {
	case kindFreeClient, kindFreeRaw:
		s += fmt.Sprint(a.Idx)
	case kindAppend:
		s += fmt.Sprint(a.Sectors)
	case kindRoots:
		s += fmt.Sprintf("[%d,+%d]", a.Off, a.Len)
		if a.Raw {
			s += "raw"
		}
	case kindFund:
		s += fmt.Sprintf("[%d H]", a.Len)
	}
	if a.Pre != 0 {
		s += "/" + preNames[a.Pre]
	}
	if a.Prices != 0 {
		s += "/" + priceNames[a.Prices]
	}
	if a.Other != nil {
		s += "/while-waiting:" + a.Other.String()
	}
	return s
}

// observed is what the renter side saw.
type observed struct {
	clientErr string          // error returned to the renter side ("" if none)
	accepted  []bool          // append: the host's accepted flags (nil if the response was not read)
	listed    []types.Hash256 // roots: the returned roots
	gotResp   bool            // the first response was read
	proofLen  int             // roots on the raw stream: number of hashes in the proof (-1: not observed)
	result    *types.V2FileContract
	panicked  string    // a call into the code under test panicked on the renter side
	served    bool      // account: the renter got the service it paid for
	data      []byte    // account read: the bytes returned
	other     *observed // script interleaved: what the attempt on the other stream saw
}

func (e *env) unknownRoot(n int) types.Hash256 {
	var h types.Hash256
	copy(h[:], fmt.Sprintf("unknown sector root %d ............", n))
	h[31] = byte(n)
	return h
}

func (e *env) sectorRoot(n int) types.Hash256 {
	if n >= unknownBase {
		return e.unknownRoot(n)
	}
	return e.pool[n]
}

// badSignature returns a signature the host must reject.
func (e *env) badSignature(variant int, good types.Signature, sigHash types.Hash256, before types.V2FileContract) types.Signature {
	switch variant % 4 {
	case 0:
		return types.Signature{}
	case 1:
		s := good
		s[7] ^= 0x40
		return s
	case 2: // a valid signature of the renter, over the revision the host already has
		return before.RenterSignature
	default: // a valid signature over the right revision by the wrong key
		return types.NewPrivateKeyFromSeed(bytes.Repeat([]byte{0x5a}, 32)).SignHash(sigHash)
	}
}

func closeAndForget(s io.Closer) { s.Close() }

// run performs the attempt with every call into the code under test under recover: a
// panic of a renter function against an honest host is an observation, not the end of
// the harness.
func (e *env) run(a attempt, before snap) (ob observed) {
	defer func() {
		if r := recover(); r != nil {
			ob.panicked = fmt.Sprint(r)
			ob.clientErr = "panic: " + ob.panicked
			ob.served = false
		}
	}()
	if a.Kind == kindAccount {
		return e.runAccount(a)
	}
	return e.runContract(a, before)
}

// fundAmount: the deposit of a funding attempt (under the unaffordable "price table" it is
// one hasting more than the renter output holds).
func (e *env) fundAmount(a attempt, before snap) types.Currency {
	if a.Prices == pricesUnaffordable {
		return before.rev.RenterOutput.Value.Add(types.NewCurrency64(1))
	}
	return types.NewCurrency64(a.Len)
}

// accountCost is what the attempt must cost when it is served.
func (e *env) accountCost(a attempt) types.Currency {
	switch a.Op {
	case "read":
		return e.prices.RPCReadSectorCost(a.Len).RenterCost()
	case "verify":
		return e.prices.RPCVerifySectorCost().RenterCost()
	default:
		return e.prices.RPCWriteSectorCost(a.Len).RenterCost()
	}
}

// runAccount performs a read / verify / write attempt: through the renter functions when
// they would send the request, on the raw stream when they refuse to.
func (e *env) runAccount(a attempt) (ob observed) {
	ctx := context.Background()
	ob.proofLen = -1
	key := e.renterKey
	if a.Variant == acctUnfunded {
		key = e.poorKey
	}
	token := proto4.NewAccountToken(key, e.hostKey.PublicKey())
	switch a.Variant {
	case acctExpiredToken:
		token.ValidUntil = time.Now().Add(-time.Minute)
		token.Signature = key.SignHash(token.SigHash())
	case acctForgedToken:
		token.Signature = e.poorKey.SignHash(token.SigHash())
	case acctWrongHostToken:
		token = proto4.NewAccountToken(key, e.renterKey.PublicKey())
	}
	root := e.sectorRoot(a.Root)
	fail := func(err error) observed {
		if err != nil {
			ob.clientErr = errText(err)
		}
		return ob
	}
	data := make([]byte, a.Len)
	for i := range data {
		data[i] = byte(a.Root*31 + i + int(a.Off))
	}
	if a.Variant == acctValid || a.Variant == acctUnknownRoot || a.Variant == acctUnfunded {
		switch a.Op {
		case "read":
			var buf bytes.Buffer
			_, err := rhp4.RPCReadSector(ctx, e.tc, e.prices, token, &buf, root, a.Off, a.Len)
			ob.served, ob.data = err == nil, buf.Bytes()
			return fail(err)
		case "verify":
			_, err := rhp4.RPCVerifySector(ctx, e.tc, e.prices, token, root)
			ob.served = err == nil
			return fail(err)
		default:
			_, err := rhp4.RPCWriteSector(ctx, e.tc, e.prices, token, bytes.NewReader(data), a.Len)
			ob.served = err == nil
			return fail(err)
		}
	}
	s, err := e.tc.DialStream(ctx)
	if err != nil {
		return fail(err)
	}
	defer s.Close()
	switch a.Op {
	case "read":
		req := proto4.RPCReadSectorRequest{Prices: e.prices, Token: token, Root: root, Offset: a.Off, Length: a.Len}
		if err := proto4.WriteRequest(s, proto4.RPCReadSectorID, &req); err != nil {
			return fail(err)
		}
		var resp proto4.RPCReadSectorResponse
		if err := proto4.ReadResponse(s, &resp); err != nil {
			return fail(err)
		}
		ob.data = make([]byte, resp.DataLength)
		_, err := io.ReadFull(s, ob.data)
		ob.served = err == nil
		return fail(err)
	case "verify":
		req := proto4.RPCVerifySectorRequest{Prices: e.prices, Token: token, Root: root, LeafIndex: a.Off}
		if err := proto4.WriteRequest(s, proto4.RPCVerifySectorID, &req); err != nil {
			return fail(err)
		}
		var resp proto4.RPCVerifySectorResponse
		err := proto4.ReadResponse(s, &resp)
		ob.served = err == nil
		return fail(err)
	default:
		req := proto4.RPCWriteSectorRequest{Prices: e.prices, Token: token, DataLength: a.Len}
		if err := proto4.WriteRequest(s, proto4.RPCWriteSectorID, &req); err != nil {
			return fail(err)
		}
		if a.Variant == acctTruncatedData {
			n := int(a.Off) // bytes of the announced data that do arrive
			if n >= len(data) {
				n = len(data) / 2
			}
			s.Write(data[:n])
			closeAndForget(s)
			return ob
		}
		if _, err := s.Write(data); err != nil {
			return fail(err)
		}
		var resp proto4.RPCWriteSectorResponse
		err := proto4.ReadResponse(s, &resp)
		ob.served = err == nil
		return fail(err)
	}
}

// runContract performs a free / append / listing / funding attempt; the renter's view of the
// contract is the revision in view (the host's current one, or the renter's own record in a
// blind stretch).
func (e *env) runContract(a attempt, before snap) (ob observed) {
	ctx := context.Background()
	ob.proofLen = -1
	prices := e.priceTables[a.Prices]
	cid := e.cid
	switch a.Pre {
	case preTamperedPrices: // the host's signature no longer covers the table
		prices.FreeSectorPrice = prices.FreeSectorPrice.Add(types.NewCurrency64(1))
		prices.StoragePrice = prices.StoragePrice.Add(types.NewCurrency64(1))
		prices.EgressPrice = prices.EgressPrice.Add(types.NewCurrency64(1))
	case preUnknownContract:
		if a.BadSig >= 0 { // BadSig < 0: the current contract is itself not revisable
			cid = types.FileContractID{0xde, 0xad, byte(a.BadSig)}
		}
	}
	rev := rhp4.ContractRevision{ID: cid, Revision: before.rev}
	challenge := func(h types.Hash256) types.Signature {
		if a.Pre == preBadChallenge {
			h[3] ^= 0x10
		}
		return e.renterKey.SignHash(h)
	}
	fail := func(err error) observed {
		if err != nil {
			ob.clientErr = errText(err)
		}
		return ob
	}
	viaClient := a.Script == scriptComplete && a.Pre == preNone
	switch {
	case a.Kind == kindFreeClient && viaClient:
		res, err := rhp4.RPCFreeSectors(ctx, e.tc, e.renterKey, e.cs, prices, rev, a.Idx)
		if err == nil {
			ob.result = &res.Revision
		}
		return fail(err)
	case a.Kind == kindAppend && viaClient:
		roots := make([]types.Hash256, len(a.Sectors))
		for i, n := range a.Sectors {
			roots[i] = e.sectorRoot(n)
		}
		res, err := rhp4.RPCAppendSectors(ctx, e.tc, e.renterKey, e.cs, prices, rev, roots)
		if err == nil {
			ob.result = &res.Revision
			// reconstruct the accepted flags from the accepted roots (in order)
			ob.gotResp = true
			ob.accepted = make([]bool, len(roots))
			j := 0
			for i := range roots {
				if j < len(res.Sectors) && res.Sectors[j] == roots[i] {
					ob.accepted[i] = true
					j++
				}
			}
		}
		return fail(err)
	case a.Kind == kindRoots && viaClient && !a.Raw:
		res, err := rhp4.RPCSectorRoots(ctx, e.tc, e.cs, prices, e.renterKey, rev, a.Off, a.Len)
		if err == nil {
			ob.result = &res.Revision
			ob.listed = res.Roots
			ob.gotResp = true
		}
		return fail(err)
	case a.Kind == kindFund && viaClient && !a.Raw:
		res, err := rhp4.RPCFundAccounts(ctx, e.tc, e.cs, e.renterKey, rev, []proto4.AccountDeposit{{Account: e.account, Amount: e.fundAmount(a, before)}})
		if err == nil {
			ob.result = &res.Revision
			ob.gotResp = true
		}
		return fail(err)
	}

	// raw stream
	s, err := e.tc.DialStream(ctx)
	if err != nil {
		return fail(err)
	}
	defer s.Close()
	writeReq := func(id types.Specifier, req proto4.Object) (done bool) {
		if a.Script == scriptHalfRequest {
			var buf bytes.Buffer
			proto4.WriteRequest(&buf, id, req)
			b := buf.Bytes()
			s.Write(b[:16+(len(b)-16)/2])
			closeAndForget(s)
			return true
		}
		if err := proto4.WriteRequest(s, id, req); err != nil {
			ob.clientErr = errText(err)
			return true
		}
		if a.Script == scriptCloseAfterReq {
			closeAndForget(s)
			return true
		}
		return false
	}
	// second round of free and append: what the renter does once it has the new root.
	// revise returns the revision the renter would sign (error: the contract cannot pay).
	finish := func(revise func() (types.V2FileContract, error), second func(types.Signature) proto4.Object, third interface {
		proto4.Object
	}, hostSig func() types.Signature) {
		if a.Script == scriptCloseAfterResp {
			closeAndForget(s)
			return
		}
		if a.Script == scriptInterleaved && a.Other != nil {
			o := e.run(*a.Other, before) // on its own stream, while this handler waits
			ob.other = &o
		}
		revision, err := revise()
		if err != nil {
			// the renter cannot sign; a zero signature drives the host into its own payment check
			proto4.WriteResponse(s, second(types.Signature{}))
			if err2 := proto4.ReadResponse(s, third); err2 != nil {
				err = err2
			}
			ob.clientErr = errText(err)
			return
		}
		sigHash := e.cs.ContractSigHash(revision)
		sig := e.renterKey.SignHash(sigHash)
		if a.Script == scriptBadSignature {
			sig = e.badSignature(a.BadSig, sig, sigHash, before.rev)
		}
		if a.Script == scriptHalfSignature {
			var buf bytes.Buffer
			proto4.WriteResponse(&buf, second(sig))
			s.Write(buf.Bytes()[:buf.Len()/2])
			closeAndForget(s)
			return
		}
		if err := proto4.WriteResponse(s, second(sig)); err != nil {
			ob.clientErr = errText(err)
			return
		}
		if a.Script == scriptCloseAfterSig {
			closeAndForget(s)
			return
		}
		if err := proto4.ReadResponse(s, third); err != nil {
			ob.clientErr = errText(err)
			return
		}
		revision.RenterSignature, revision.HostSignature = sig, hostSig()
		ob.result = &revision
	}
	switch a.Kind {
	case kindFreeClient, kindFreeRaw:
		idx := slices.Clone(a.Idx)
		if a.Kind == kindFreeClient { // what rpc.go does: sort descending, drop duplicates
			sort.Slice(idx, func(i, j int) bool { return idx[i] > idx[j] })
			idx = slices.Compact(idx)
		}
		req := proto4.RPCFreeSectorsRequest{ContractID: cid, Prices: prices, Indices: idx}
		req.ChallengeSignature = challenge(req.ChallengeSigHash(before.rev.RevisionNumber + 1))
		if writeReq(proto4.RPCFreeSectorsID, &req) {
			return
		}
		var resp proto4.RPCFreeSectorsResponse
		if err := proto4.ReadResponse(s, &resp); err != nil {
			return fail(err)
		}
		ob.gotResp = true
		var third proto4.RPCFreeSectorsThirdResponse
		finish(func() (types.V2FileContract, error) {
			r, _, err := proto4.ReviseForFreeSectors(before.rev, prices, resp.NewMerkleRoot, len(idx))
			return r, err
		}, func(sig types.Signature) proto4.Object {
			return &proto4.RPCFreeSectorsSecondResponse{RenterSignature: sig}
		}, &third, func() types.Signature { return third.HostSignature })
	case kindAppend:
		roots := make([]types.Hash256, len(a.Sectors))
		for i, n := range a.Sectors {
			roots[i] = e.sectorRoot(n)
		}
		req := proto4.RPCAppendSectorsRequest{Prices: prices, Sectors: roots, ContractID: cid}
		req.ChallengeSignature = challenge(req.ChallengeSigHash(before.rev.RevisionNumber + 1))
		if writeReq(proto4.RPCAppendSectorsID, &req) {
			return
		}
		var resp proto4.RPCAppendSectorsResponse
		if err := proto4.ReadResponse(s, &resp); err != nil {
			return fail(err)
		}
		ob.gotResp, ob.accepted = true, resp.Accepted
		var n uint64
		for _, ok := range resp.Accepted {
			if ok {
				n++
			}
		}
		var third proto4.RPCAppendSectorsThirdResponse
		finish(func() (types.V2FileContract, error) {
			r, _, err := proto4.ReviseForAppendSectors(before.rev, prices, resp.NewMerkleRoot, n)
			return r, err
		}, func(sig types.Signature) proto4.Object {
			return &proto4.RPCAppendSectorsSecondResponse{RenterSignature: sig}
		}, &third, func() types.Signature { return third.HostSignature })
	case kindRoots: // single round: only the invalid and truncated variants differ from the client
		revision, _, err := proto4.ReviseForSectorRoots(before.rev, prices, a.Len)
		var sigHash types.Hash256
		var sig types.Signature
		if err == nil {
			sigHash = e.cs.ContractSigHash(revision)
			sig = e.renterKey.SignHash(sigHash)
			if a.Script == scriptBadSignature {
				sig = e.badSignature(a.BadSig, sig, sigHash, before.rev)
			}
		}
		req := proto4.RPCSectorRootsRequest{Prices: prices, ContractID: cid, Offset: a.Off, Length: a.Len, RenterSignature: sig}
		if writeReq(proto4.RPCSectorRootsID, &req) {
			return
		}
		var resp proto4.RPCSectorRootsResponse
		if err := proto4.ReadResponse(s, &resp); err != nil {
			return fail(err)
		}
		ob.gotResp, ob.listed, ob.proofLen = true, resp.Roots, len(resp.Proof)
		if a.Script != scriptBadSignature && a.Off+a.Len <= uint64(len(before.roots)) && a.Off+a.Len >= a.Off && a.Len > 0 && uint64(len(resp.Roots)) == a.Len &&
			!proto4.VerifySectorRootsProof(resp.Proof, resp.Roots, uint64(len(before.roots)), a.Off, a.Off+a.Len, before.rev.FileMerkleRoot) {
			ob.clientErr = "sector roots proof does not verify"
		}
		revision.RenterSignature, revision.HostSignature = sig, resp.HostSignature
		ob.result = &revision
	case kindFund: // single round
		amount := e.fundAmount(a, before)
		revision, _, err := proto4.ReviseForFundAccounts(before.rev, amount)
		var sig types.Signature
		if err == nil {
			sigHash := e.cs.ContractSigHash(revision)
			sig = e.renterKey.SignHash(sigHash)
			if a.Script == scriptBadSignature {
				sig = e.badSignature(a.BadSig, sig, sigHash, before.rev)
			}
		}
		req := proto4.RPCFundAccountsRequest{ContractID: cid, Deposits: []proto4.AccountDeposit{{Account: e.account, Amount: amount}}, RenterSignature: sig}
		if writeReq(proto4.RPCFundAccountsID, &req) {
			return
		}
		var resp proto4.RPCFundAccountsResponse
		if err := proto4.ReadResponse(s, &resp); err != nil {
			return fail(err)
		}
		ob.gotResp = true
		revision.RenterSignature, revision.HostSignature = sig, resp.HostSignature
		ob.result = &revision
	}
	return
}

// --- the harness's own list model (independent of the Coq model and of the code under test)

// modelFree removes the distinct positions named by idx, highest first, each by
// overwriting it with the last root and dropping the last.
func modelFree(roots []types.Hash256, idx []uint64) ([]types.Hash256, bool) {
	set := map[uint64]bool{}
	for _, i := range idx {
		if i >= uint64(len(roots)) {
			return nil, false
		}
		set[i] = true
	}
	out := slices.Clone(roots)
	for p := len(roots) - 1; p >= 0; p-- {
		if set[uint64(p)] {
			out[p] = out[len(out)-1]
			out = out[:len(out)-1]
		}
	}
	return out, true
}

func normalised(idx []uint64) bool {
	for i := 1; i < len(idx); i++ {
		if idx[i] >= idx[i-1] {
			return false
		}
	}
	return true
}

func hasDup(idx []uint64) bool {
	seen := map[uint64]bool{}
	for _, i := range idx {
		if seen[i] {
			return true
		}
		seen[i] = true
	}
	return false
}

// --- generators

func randomIndices(r *rng.R, size int, maxLen int) []uint64 {
	n := r.Intn(maxLen + 1)
	idx := make([]uint64, n)
	for i := range idx {
		idx[i] = uint64(r.Intn(max(size, 1)))
	}
	return idx
}

// errText: the text is only ever quoted in reports; verdicts test for the presence of an
// error, so an error must never render as the empty string.
func errText(err error) string {
	if s := err.Error(); s != "" {
		return s
	}
	return "(error with empty text)"
}
