package main

// The part of C07 that a theorem about sequences of atomic calls cannot reach:
//   - lintWallet: every exported method of SingleAddressWallet that touches the
//     reservation map holds sw.mu for the rest of the call (go/ast, on the
//     source under c.Repo) - this is what makes "one call = one step" true;
//   - soak: goroutines issuing Fund*/Redistribute/SplitUTXO/ReleaseInputs while
//     blocks are mined; everything returned must be pairwise disjoint while held.

import (
	"encoding/json"
	"fmt"
	"os"
	"os/exec"
	"path/filepath"
	"strings"
	"sync"
	"sync/atomic"
	"time"

	"go.sia.tech/core/types"
	"verif/harness/internal/hx"
)

type held struct {
	ids      []types.SiacoinOutputID
	from, to int64 // sequence numbers: returned at from, handed to ReleaseInputs at to (0: never)
	what     string
}

// soak runs the concurrent part in a child process: an unsynchronised map
// access is a fatal error of the Go runtime that cannot be recovered, and has
// to be reported as a failure rather than lose the whole run.
func soak(c *hx.Ctx) {
	if os.Getenv("C07_SOAK_ONLY") != "" {
		soakHere(c)
		return
	}
	if c.Thorough {
		raceSoak(c)
	}
	tier := "quick"
	if c.Thorough {
		tier = "thorough"
	}
	if len(c.Res.TieBroken) == 0 {
		soakRound(c, tier, c.Seed, "soak")
		return
	}
	// the source-level locking discipline could not be re-established: search for a
	// concrete interleaving with the large soak, several rounds, before the tie is reported
	os.Setenv("C07_SOAK_DEEP", "1")
	defer os.Unsetenv("C07_SOAK_DEEP")
	for round := 0; round < 2; round++ {
		c.Res.Count("soak:deep-rounds-after-broken-tie")
		if soakRound(c, "quick", c.Seed+uint64(round)*7919, fmt.Sprintf("soak-deep-%d", round)) {
			return
		}
	}
}

// soakRound runs one soak in a child process; it reports whether it found a failure.
func soakRound(c *hx.Ctx, tier string, seed uint64, name string) bool {
	sub := filepath.Join(c.Res.Dir(), name)
	run := exec.Command(os.Args[0], "-seed", fmt.Sprint(seed), "-tier", tier, "-out", sub)
	run.Env = append(os.Environ(), "C07_SOAK_ONLY=1")
	out, err := run.CombinedOutput()
	var child struct {
		Failures []struct {
			Kind, Detail string
			Replay       string
		} `json:"failures"`
		Distribution map[string]int `json:"distribution"`
		Notes        []string       `json:"notes"`
	}
	b, rerr := os.ReadFile(filepath.Join(sub, "result.json"))
	if rerr == nil {
		rerr = json.Unmarshal(b, &child)
	}
	if err != nil || rerr != nil {
		s := string(out)
		if i := strings.Index(s, "fatal error"); i >= 0 {
			s = s[i:]
		}
		if len(s) > 1500 {
			s = s[:1500]
		}
		c.Res.Fail("concurrent-calls-crash", fmt.Sprintf("the process running concurrent Fund*/Redistribute/SplitUTXO/ReleaseInputs calls died (%v): %s", err, s), map[string]any{"soak": true, "seed": seed, "tier": tier})
		return true
	}
	for _, f := range child.Failures {
		c.Res.Fail(f.Kind, f.Detail, map[string]any{"soak": true, "seed": seed, "tier": tier, "child_replay": f.Replay})
	}
	for k, v := range child.Distribution {
		if strings.HasPrefix(k, "soak:") {
			c.Res.CountN(k, v)
		}
	}
	c.Res.Notes = append(c.Res.Notes, child.Notes...)
	return len(child.Failures) > 0
}

func soakHere(c *hx.Ctx) {
	G, per := c.Scale(8, 32), c.Scale(120, 1500)
	if os.Getenv("C07_SOAK_DEEP") != "" {
		G, per = 32, 500
	}
	r := c.R.Fork()
	spec := caseSpec{Name: "soak", Cfg: cfgSpec{Thresh: 3, MaxIn: 10, MaxDefrag: 3}}
	used := map[int]bool{}
	for len(spec.Setup.Values) < 48 {
		k := 5 + r.Intn(2000)
		if !used[k] {
			used[k] = true
			spec.Setup.Values = append(spec.Setup.Values, fmt.Sprint(k)+unit)
		}
	}
	spec.Setup.Seed = r.U64()
	e, err := newEnv(spec)
	if err != nil {
		c.Res.Notes = append(c.Res.Notes, "soak: "+err.Error())
		return
	}
	defer e.close()
	if err := e.setup(); err != nil {
		c.Res.Notes = append(c.Res.Notes, "soak: "+err.Error())
		return
	}
	var seq int64
	var mu sync.Mutex
	var all []*held
	var calls, fails int64
	done := make(chan struct{})
	var wg sync.WaitGroup
	for g := 0; g < G; g++ {
		gr := r.Fork()
		wg.Add(1)
		go func() {
			defer wg.Done()
			defer func() {
				if p := recover(); p != nil {
					mu.Lock()
					c.Res.Fail("wallet-panic", fmt.Sprint(p), map[string]any{"soak": true})
					mu.Unlock()
				}
			}()
			type mine struct {
				h  *held
				v1 *types.Transaction
				v2 *types.V2Transaction
			}
			var my []mine
			rec := func(what string, ids []types.SiacoinOutputID, v1 *types.Transaction, v2 *types.V2Transaction) {
				h := &held{ids: ids, from: atomic.AddInt64(&seq, 1), what: what}
				mu.Lock()
				all = append(all, h)
				mu.Unlock()
				my = append(my, mine{h, v1, v2})
			}
			for i := 0; i < per; i++ {
				atomic.AddInt64(&calls, 1)
				x := gr.Intn(100)
				switch {
				case len(my) > 3 || (x < 30 && len(my) > 0):
					k := gr.Intn(len(my))
					m := my[k]
					my = append(my[:k], my[k+1:]...)
					m.h.to = atomic.AddInt64(&seq, 1)
					if m.v1 != nil {
						e.w.ReleaseInputs([]types.Transaction{*m.v1}, nil)
					} else {
						e.w.ReleaseInputs(nil, []types.V2Transaction{*m.v2})
					}
				case x < 36:
					// the reporting calls run concurrently with everything else
					if gr.Bool() {
						e.w.Balance()
					} else {
						e.w.SpendableOutputs()
					}
				case x < 60:
					amt := parseCur(fmt.Sprint(1+gr.Intn(3000)) + unit)
					txn := types.V2Transaction{SiacoinOutputs: []types.SiacoinOutput{{Address: types.VoidAddress, Value: amt}}}
					if _, _, err := e.w.FundV2Transaction(&txn, amt, gr.Chance(1, 4)); err != nil {
						atomic.AddInt64(&fails, 1)
						continue
					}
					var ids []types.SiacoinOutputID
					for _, in := range txn.SiacoinInputs {
						ids = append(ids, in.Parent.ID)
					}
					rec("FundV2Transaction", ids, nil, &txn)
				case x < 85:
					amt := parseCur(fmt.Sprint(1+gr.Intn(3000)) + unit)
					txn := types.Transaction{SiacoinOutputs: []types.SiacoinOutput{{Address: types.VoidAddress, Value: amt}}}
					if _, err := e.w.FundTransaction(&txn, amt, false); err != nil {
						atomic.AddInt64(&fails, 1)
						continue
					}
					var ids []types.SiacoinOutputID
					for _, in := range txn.SiacoinInputs {
						ids = append(ids, in.ParentID)
					}
					rec("FundTransaction", ids, &txn, nil)
				case x < 94:
					_, txns, _, err := e.w.Redistribute(1+gr.Intn(4), parseCur(fmt.Sprint(1+gr.Intn(50))+unit), types.ZeroCurrency)
					if err != nil {
						atomic.AddInt64(&fails, 1)
						continue
					}
					for i := range txns {
						var ids []types.SiacoinOutputID
						for _, in := range txns[i].SiacoinInputs {
							ids = append(ids, in.Parent.ID)
						}
						rec("Redistribute", ids, nil, &txns[i])
					}
				default:
					txn, err := e.w.SplitUTXO(2+gr.Intn(2), parseCur(fmt.Sprint(2500+gr.Intn(500))+unit))
					if err != nil || len(txn.SiacoinInputs) == 0 {
						continue
					}
					h := &held{ids: []types.SiacoinOutputID{txn.SiacoinInputs[0].Parent.ID}, from: atomic.AddInt64(&seq, 1), what: "SplitUTXO"}
					mu.Lock()
					all = append(all, h)
					mu.Unlock()
				}
			}
		}()
	}
	go func() { wg.Wait(); close(done) }()
	blocks := 0
mining:
	for {
		select {
		case <-done:
			break mining
		default:
		}
		to := types.VoidAddress
		if blocks%3 == 0 {
			to = e.addr
		}
		if _, err := e.mineRaw(to, 1); err != nil {
			c.Res.Notes = append(c.Res.Notes, "soak: mining: "+err.Error())
			<-done
			break
		}
		blocks++
		time.Sleep(time.Millisecond)
	}
	// every two transactions held at the same time must have disjoint inputs
	owner := map[types.SiacoinOutputID][]*held{}
	for _, h := range all {
		seen := map[types.SiacoinOutputID]bool{}
		for _, id := range h.ids {
			if seen[id] {
				c.Res.Fail("fund-duplicate-input", fmt.Sprintf("concurrent %s returned an input twice", h.what), map[string]any{"soak": true, "goroutines": G})
			}
			if !seen[id] {
				owner[id] = append(owner[id], h)
			}
			seen[id] = true
		}
	}
	overlaps := 0
	for _, hs := range owner {
		for i := 0; i < len(hs); i++ {
			for j := i + 1; j < len(hs); j++ {
				a, b := hs[i], hs[j]
				aTo, bTo := a.to, b.to
				if aTo == 0 {
					aTo = 1 << 62
				}
				if bTo == 0 {
					bTo = 1 << 62
				}
				if a.from < bTo && b.from < aTo {
					overlaps++
					if overlaps <= 2 {
						c.Res.Fail("concurrent-double-allocation", fmt.Sprintf("%s (returned at step %d, released at %d) and %s (returned at %d, released at %d) share an input while both are held; %d goroutines", a.what, a.from, a.to, b.what, b.from, b.to, G),
							map[string]any{"soak": true, "goroutines": G, "calls_per_goroutine": per})
					}
				}
			}
		}
	}
	c.Res.CountN("soak:goroutines", G)
	c.Res.CountN("soak:calls", int(calls))
	c.Res.CountN("soak:failed-calls", int(fails))
	c.Res.CountN("soak:transactions-returned", len(all))
	c.Res.CountN("soak:blocks-mined", blocks)
}

// raceSoak rebuilds this harness with the race detector and runs only the soak
// (thorough tier; needs cgo).
func raceSoak(c *hx.Ctx) {
	dir := c.Res.Dir()
	bin := filepath.Join(dir, "vh-C07-race")
	args := []string{"build", "-race", "-tags", "verif"}
	if mf := filepath.Join(filepath.Dir(dir), "go.mod"); c.Repo != "/repo" {
		if _, err := os.Stat(mf); err == nil {
			args = append(args, "-modfile", mf)
		}
	}
	args = append(args, "-o", bin, "./cmd/c07")
	cmd := exec.Command("go", args...)
	cmd.Dir = "/verif/harness"
	cmd.Env = append(os.Environ(), "CGO_ENABLED=1")
	if out, err := cmd.CombinedOutput(); err != nil {
		c.Res.Notes = append(c.Res.Notes, "race build not feasible here: "+strings.TrimSpace(string(out)))
		c.Res.Count("soak:race-build-failed")
		return
	}
	defer os.Remove(bin)
	sub := filepath.Join(dir, "race")
	run := exec.Command(bin, "-seed", fmt.Sprint(c.Seed), "-tier", "quick", "-out", sub)
	run.Env = append(os.Environ(), "C07_SOAK_ONLY=1", "GORACE=halt_on_error=0 exitcode=66")
	out, err := run.CombinedOutput()
	c.Res.Count("soak:race-detector-runs")
	if strings.Contains(string(out), "DATA RACE") {
		s := string(out)
		if len(s) > 3000 {
			s = s[:3000]
		}
		c.Res.Fail("data-race", "the race detector reports a data race during the concurrent soak: "+s, map[string]any{"soak": true, "race": true})
	} else if err != nil {
		c.Res.Notes = append(c.Res.Notes, "race soak: "+err.Error())
	}
	os.RemoveAll(sub)
}
