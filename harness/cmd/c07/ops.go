package main

// Executors of the abstract operations against the real wallet, with the
// monitors (the property's own observable predicates, judged against the
// harness' ledger / the manager's pool / the reservations callers hold).

import (
	"errors"
	"fmt"
	"math/big"
	"sort"
	"strconv"
	"strings"
	"time"

	"go.sia.tech/core/types"
	"go.sia.tech/coreutils/chain"
	"go.sia.tech/coreutils/wallet"
)

type opSpec struct {
	Kind        string  `json:"op"` // fund release broadcast mine restart sleep redist split
	V2          bool    `json:"v2,omitempty"`
	Amount      string  `json:"amount,omitempty"` // decimal hastings, or symbolic: bal, bal+1, pK, pK-1, pK+1 (prefix sums of the spendable values, descending)
	Unc         bool    `json:"useUnconfirmed,omitempty"`
	Existing    int     `json:"existingInputs,omitempty"`
	Ref         int     `json:"ref,omitempty"` // number of the funded transaction (in order of creation); negative: counted from the latest
	ViaWallet   bool    `json:"viaWallet,omitempty"`
	Outputs     int     `json:"outputs,omitempty"`
	FeePerB     string  `json:"feePerByte,omitempty"`
	N           int     `json:"n,omitempty"`
	Min         string  `json:"minAmount,omitempty"`
	ToWallet    bool    `json:"toWallet,omitempty"`
	NewCM       bool    `json:"newManager,omitempty"`
	Blocks      int     `json:"blocks,omitempty"`      // lag: blocks that reach the manager but not the wallet store
	ThenRelease bool    `json:"thenRelease,omitempty"` // fund: hand the transaction straight back to ReleaseInputs
	Into        int     `json:"into,omitempty"`        // fund: add to the transaction object of an earlier funded transaction (negative: from the latest)
	At          string  `json:"at,omitempty"`          // window / fault: the interface call of the wallet at which the event happens
	Sub         *opSpec `json:"sub,omitempty"`         // window / fault: the wallet call during which it happens
	Inner       *opSpec `json:"inner,omitempty"`       // window: the call another goroutine makes at that moment
	First       string  `json:"first,omitempty"`       // unblind: which read API is called first after the stretch without reads
	Ms          int     `json:"ms,omitempty"`          // pause
	Partial     bool    `json:"partial,omitempty"`     // sleep: only until the oldest reservation has run out
	probe       bool    // a fund of everything spendable issued by the runner after a failed call
}

// zlit renders a currency as a Z term; large literals are written k*1e20+r
// (zu in Run_C07.v) because Coq parses long decimal literals slowly.
func zlit(c types.Currency) string {
	b := c.Big()
	if b.BitLen() < 40 {
		return "(" + b.String() + ")%Z"
	}
	u := new(big.Int).Exp(big.NewInt(10), big.NewInt(20), nil)
	half := new(big.Int).Rsh(u, 1)
	k := new(big.Int).Div(new(big.Int).Add(b, half), u)
	r := new(big.Int).Sub(b, new(big.Int).Mul(k, u))
	return "(zu " + k.String() + " (" + r.String() + "))"
}
func zint(v int) string { return "(" + strconv.Itoa(v) + ")%Z" }
func nlist(xs []uint64) string {
	s := make([]string, len(xs))
	for i, x := range xs {
		s[i] = strconv.FormatUint(x, 10)
	}
	return "[" + strings.Join(s, "; ") + "]"
}
func coqBool(b bool) string {
	if b {
		return "true"
	}
	return "false"
}

func (e *env) us(d time.Duration) uint64 { return uint64(d / time.Microsecond) }

// begin waits for an unambiguous instant, and tells the model what time it is.
func (e *env) begin() time.Duration {
	e.justRestarted, e.afterRestart = false, e.justRestarted
	t := e.settle()
	// the model's clock runs in whole microseconds
	t = t / time.Microsecond * time.Microsecond
	d := t - e.lastB
	e.lastB = t
	e.trace = append(e.trace, fmt.Sprintf("(Tick %d, None)", e.us(d)))
	return t
}

func (e *env) aids(ids []types.SiacoinOutputID) []uint64 {
	out := make([]uint64, len(ids))
	for i, id := range ids {
		out[i] = e.aid(id)
	}
	return out
}

// resolve turns a symbolic amount into hastings using the oracle's view.
func (e *env) resolve(a string, t time.Duration) types.Currency {
	if e.blind {
		// no read of the manager inside a stretch without reads: amounts refer to the
		// spendable values as they were when the stretch began
		return e.resolveWith(a, e.blindExp, e.blindSum)
	}
	exp, sum := e.expected(t)
	return e.resolveWith(a, exp, sum)
}

var maxCurrency = types.NewCurrency(^uint64(0), ^uint64(0))

func (e *env) resolveWith(a string, exp map[types.SiacoinOutputID]types.Currency, sum types.Currency) types.Currency {
	switch {
	case a == "max":
		return maxCurrency
	case a == "half":
		return maxCurrency.Div64(2)
	case a == "" || a == "0":
		return types.ZeroCurrency
	case a == "bal":
		return sum
	case a == "bal+1":
		return sum.Add(types.NewCurrency64(1))
	case strings.HasPrefix(a, "U") && !e.blind: // the largest unconfirmed wallet output (held or not) divided by k
		k, _ := strconv.Atoi(a[1:])
		_, created := e.poolView()
		var mx types.Currency
		for _, v := range created {
			if v.Cmp(mx) > 0 {
				mx = v
			}
		}
		return mx.Div64(uint64(max(k, 1)))
	case strings.HasPrefix(a, "d"): // the largest spendable value divided by k
		k, _ := strconv.Atoi(a[1:])
		var mx types.Currency
		for _, v := range exp {
			if v.Cmp(mx) > 0 {
				mx = v
			}
		}
		if k <= 0 {
			k = 1
		}
		return mx.Div64(uint64(k))
	case strings.HasPrefix(a, "p"):
		body := a[1:]
		delta := 0
		if strings.HasSuffix(body, "-1") {
			delta, body = -1, body[:len(body)-2]
		} else if strings.HasSuffix(body, "+1") {
			delta, body = 1, body[:len(body)-2]
		}
		k, _ := strconv.Atoi(body)
		vals := make([]types.Currency, 0, len(exp))
		for _, v := range exp {
			vals = append(vals, v)
		}
		sort.Slice(vals, func(i, j int) bool { return vals[i].Cmp(vals[j]) > 0 })
		var p types.Currency
		for i := 0; i < k && i < len(vals); i++ {
			p = p.Add(vals[i])
		}
		if delta < 0 {
			if p.IsZero() {
				return p
			}
			return p.Sub(types.NewCurrency64(1))
		} else if delta > 0 {
			return p.Add(types.NewCurrency64(1))
		}
		return p
	}
	return parseCur(a)
}

// observe reads Balance() and SpendableOutputs(), judges them against the
// oracle, and returns the observation for the model.
func (e *env) observe(res string, t time.Duration, afterFailure bool) {
	if e.blind || e.noViews {
		// a stretch of operations without any read call (or the first of two calls that
		// overlapped in time): only the result goes to the model
		if e.blind {
			e.stats["blind:ops-without-read"]++
		}
		ob := fmt.Sprintf("mk_obs (%s) (mk_bal 0 0 0 0) [] false", res)
		last := e.trace[len(e.trace)-1]
		e.trace[len(e.trace)-1] = strings.Replace(last, ", None)", ", Some ("+ob+"))", 1)
		return
	}
	var bal wallet.Balance
	var outs []types.SiacoinElement
	var err error
	readBal := func() {
		if bal, err = e.w.Balance(); err != nil {
			e.fail("balance-error", "%v", err)
		}
	}
	readOuts := func() {
		if outs, err = e.w.SpendableOutputs(); err != nil {
			e.fail("spendable-outputs-error", "%v", err)
		}
	}
	if e.outsFirst {
		e.outsFirst = false
		readOuts()
		readBal()
	} else {
		readBal()
		readOuts()
	}
	e.checkWindow(t)
	exp, expSum := e.expected(t)
	spent, created := e.poolView()
	var outSum types.Currency
	listed := map[types.SiacoinOutputID]bool{}
	var ids []uint64
	for _, o := range outs {
		if listed[o.ID] {
			e.fail("spendable-outputs-duplicate", "output %d listed twice", e.aid(o.ID))
		}
		listed[o.ID] = true
		outSum = outSum.Add(o.SiacoinOutput.Value)
		ids = append(ids, e.aid(o.ID))
	}
	sort.Slice(ids, func(i, j int) bool { return ids[i] < ids[j] })
	if !e.tainted {
		h := e.height()
		for _, o := range outs {
			if _, ok := exp[o.ID]; ok {
				continue
			}
			le, inLedger := e.ledger[o.ID]
			switch {
			case !inLedger:
				e.fail("spendable-outputs-lists-unknown-output", "output %d is not a confirmed unspent output of the wallet", e.aid(o.ID))
			case le.mat > h:
				e.fail("spendable-outputs-lists-immature", "output %d matures at %d, height is %d", e.aid(o.ID), le.mat, h)
			case spent[o.ID]:
				kind := "spendable-outputs-lists-pool-spent"
				for _, txn := range e.cm.V2PoolTransactions() {
					for _, in := range txn.SiacoinInputs {
						if in.Parent.ID == o.ID {
							kind = "spendable-outputs-ignore-v2-pool-spend"
						}
					}
				}
				e.fail(kind, "SpendableOutputs lists output %d (value %s) although a pool transaction spends it; Balance().Spendable=%s, sum of SpendableOutputs=%s", e.aid(o.ID), curStr(o.SiacoinOutput.Value), curStr(bal.Spendable), curStr(outSum))
			case e.isReserved(o.ID, t):
				e.fail("spendable-outputs-lists-reserved", "output %d is reserved by an outstanding funded transaction", e.aid(o.ID))
			}
		}
		for id := range exp {
			if listed[id] {
				continue
			}
			kind := "spendable-outputs-misses-output"
			r, had := e.reserved[id]
			switch {
			case afterFailure:
				kind = "failed-call-reserved"
			case e.releasedIDs[id]:
				kind = "release-not-effective"
			case had && t >= r.lo+e.spec.Cfg.resv():
				kind = "expiry-not-effective"
			}
			e.fail(kind, "output %d (value %s) is confirmed, mature, not spent by the pool and not reserved, but SpendableOutputs omits it", e.aid(id), curStr(exp[id]))
		}
		if !bal.Spendable.Equals(outSum) {
			e.fail("views-balance-vs-spendable-outputs", "Balance().Spendable=%s but SpendableOutputs sum to %s", curStr(bal.Spendable), curStr(outSum))
		}
		if !bal.Spendable.Equals(expSum) {
			kind := "views-balance-vs-ledger"
			if afterFailure && bal.Spendable.Cmp(expSum) < 0 {
				kind = "failed-call-reserved"
			}
			e.fail(kind, "Balance().Spendable=%s, the ledger says %s is spendable", curStr(bal.Spendable), curStr(expSum))
		}
		var conf, imm, unc types.Currency
		for _, le := range e.ledger {
			if le.mat > h {
				imm = imm.Add(le.val)
			} else {
				conf = conf.Add(le.val)
			}
		}
		for _, v := range created {
			unc = unc.Add(v)
		}
		if !bal.Confirmed.Equals(conf) || !bal.Immature.Equals(imm) || !bal.Unconfirmed.Equals(unc) {
			e.fail("balance-totals", "Balance()=%+v, ledger: confirmed %s immature %s unconfirmed %s", bal, curStr(conf), curStr(imm), curStr(unc))
		}
	}
	e.stats["observations"]++
	if !e.tainted {
		// boundary shapes met at this observation
		h := e.height()
		for _, le := range e.ledger {
			if le.mat == h && h > 0 {
				e.stats["boundary:output-exactly-at-maturity-height"]++
				break
			}
		}
		live, dead := false, false
		for _, r := range e.reserved {
			if t < r.lo+e.spec.Cfg.resv() {
				live = true
			} else {
				dead = true
			}
		}
		if live && dead {
			e.stats["boundary:some-reservations-expired-some-not"]++
		}
	}
	ob := fmt.Sprintf("mk_obs (%s) (mk_bal %s %s %s %s) %s true", res, zlit(bal.Spendable), zlit(bal.Confirmed), zlit(bal.Unconfirmed), zlit(bal.Immature), nlist(ids))
	// attach to the last traced op
	last := e.trace[len(e.trace)-1]
	e.trace[len(e.trace)-1] = strings.Replace(last, ", None)", ", Some ("+ob+"))", 1)
}

func (e *env) refTx(ref int) *fundedTx {
	if ref < 0 {
		ref = len(e.funded) + ref
	}
	if ref < 0 || ref >= len(e.funded) {
		return nil
	}
	return e.funded[ref]
}

// checkSelected runs the per-transaction monitors on what a funding call selected.
func (e *env) checkSelected(what string, v2 bool, sel []types.SiacoinOutputID, unc bool, t time.Duration, exp map[types.SiacoinOutputID]types.Currency, created map[types.SiacoinOutputID]types.Currency, spent map[types.SiacoinOutputID]bool, outstanding []*fundedTx) types.Currency {
	seen := map[types.SiacoinOutputID]int{}
	var sum types.Currency
	h := e.height()
	for _, id := range sel {
		seen[id]++
		sum = sum.Add(e.known[id])
		if _, ok := exp[id]; ok {
			continue
		}
		if _, ok := created[id]; ok && unc && !e.isReservedBefore(id, t) {
			// the pool accepts a transaction only together with unconfirmed parents of its own version
			if pv2, ok := e.creatorV2(id); ok && pv2 != v2 {
				e.fail("fund-unconfirmed-parent-of-other-version", "%s selected the unconfirmed output %d created by a pool transaction of the other version (v2=%v): no pool call accepts the funded transaction before that parent is confirmed", what, e.aid(id), pv2)
			}
			continue
		}
		le, inLedger := e.ledger[id]
		switch {
		case e.isReservedBefore(id, t):
			e.fail("fund-selects-reserved", "%s selected output %d, which is reserved by an outstanding funded transaction", what, e.aid(id))
		case spent[id]:
			if _, isChild := e.creatorV2(id); isChild {
				e.stats["fund:selected-pool-created-output-spent-by-a-later-pool-transaction"]++
			}
			e.fail("fund-selects-pool-spent", "%s selected output %d, which a pool transaction already spends", what, e.aid(id))
		case !inLedger:
			e.fail("fund-selects-unknown-output", "%s selected output %d, which is not a confirmed unspent output of the wallet (useUnconfirmed=%v)", what, e.aid(id), unc)
		case le.mat > h:
			e.fail("fund-selects-immature", "%s selected output %d maturing at %d, height is %d", what, e.aid(id), le.mat, h)
		}
	}
	dups := 0
	for _, n := range seen {
		if n > 1 {
			dups += n - 1
		}
	}
	if dups > 0 {
		e.fail("fund-duplicate-input", "%s returned %d inputs of which only %d are distinct: %v", what, len(sel), len(seen), e.aids(sel))
	}
	for _, f := range outstanding {
		for _, id := range f.inputs {
			if seen[id] > 0 {
				e.fail("fund-double-allocation", "%s selected output %d, which is an input of an un-released, unexpired funded transaction", what, e.aid(id))
			}
		}
	}
	return sum
}

// isReservedBefore: reserved by a call that returned before t.
func (e *env) isReservedBefore(id types.SiacoinOutputID, t time.Duration) bool {
	r, ok := e.reserved[id]
	return ok && r.hi <= t && t < r.lo+e.spec.Cfg.resv()
}

// oracle is what the harness knows about the wallet's state at the start of a call.
type oracle struct {
	t           time.Duration
	exp         map[types.SiacoinOutputID]types.Currency
	expSum      types.Currency
	spent       map[types.SiacoinOutputID]bool
	created     map[types.SiacoinOutputID]types.Currency
	outstanding []*fundedTx
}

// takeOracle reads the manager's pool. Inside a stretch without reads it is
// taken only after the wallet call (a funding call changes neither the ledger
// nor the pool, and its reservations are recorded after the monitors ran).
func (e *env) takeOracle(t time.Duration) *oracle {
	or := &oracle{t: t, outstanding: e.outstanding(t)}
	or.exp, or.expSum = e.expected(t)
	or.spent, or.created = e.poolView()
	return or
}

// fundRaw is what one FundTransaction / FundV2Transaction call returned; callFund
// touches no bookkeeping of the harness, so it may run on another goroutine.
type fundRaw struct {
	f        *fundedTx
	sel      []types.SiacoinOutputID
	change   types.Currency
	err      error
	panicked any
	existing int
	notes    []failure
}

func (e *env) callFund(o opSpec, amount types.Currency, tag int, into *fundedTx) (raw fundRaw) {
	defer func() {
		if p := recover(); p != nil {
			raw.panicked = p
		}
	}()
	f := &fundedTx{v2: o.V2, unc: o.Unc, lo: e.clock()}
	raw.f = f
	note := func(kind, format string, a ...any) {
		raw.notes = append(raw.notes, failure{kind, fmt.Sprintf(format, a...)})
	}
	if o.V2 {
		txn := types.V2Transaction{SiacoinOutputs: []types.SiacoinOutput{{Address: types.VoidAddress, Value: amount}}}
		if into != nil {
			// the caller adds more funds to the transaction object it already holds
			txn = into.v2txn
			txn.MinerFee = txn.MinerFee.Add(amount)
		}
		for i := 0; i < o.Existing && into == nil; i++ {
			txn.SiacoinInputs = append(txn.SiacoinInputs, types.V2SiacoinInput{Parent: types.SiacoinElement{ID: types.SiacoinOutputID{0xEE, byte(i), byte(i >> 8), byte(tag)}}})
		}
		raw.existing = len(txn.SiacoinInputs)
		nOut := len(txn.SiacoinOutputs)
		f.basis, f.toSignV2, raw.err = e.w.FundV2Transaction(&txn, amount, o.Unc)
		f.v2txn = txn
		if raw.err == nil {
			for _, in := range txn.SiacoinInputs[min(raw.existing, len(txn.SiacoinInputs)):] {
				raw.sel = append(raw.sel, in.Parent.ID)
			}
			if len(f.toSignV2) != len(raw.sel) {
				note("fund-tosign", "FundV2Transaction added %d inputs but asks for %d signatures", len(raw.sel), len(f.toSignV2))
			}
			for i, idx := range f.toSignV2 {
				if idx != raw.existing+i {
					note("fund-tosign", "FundV2Transaction appended its inputs at positions %d.. but asks for a signature of input %d", raw.existing, idx)
					break
				}
			}
			for _, so := range txn.SiacoinOutputs[min(nOut, len(txn.SiacoinOutputs)):] {
				raw.change = raw.change.Add(so.Value)
				if so.Address != e.addr {
					note("fund-conservation", "change output is not paid to the wallet")
				}
			}
		}
	} else {
		txn := types.Transaction{SiacoinOutputs: []types.SiacoinOutput{{Address: types.VoidAddress, Value: amount}}}
		if into != nil {
			txn = into.v1txn
			txn.MinerFees = append(append([]types.Currency(nil), txn.MinerFees...), amount)
		}
		for i := 0; i < o.Existing && into == nil; i++ {
			txn.SiacoinInputs = append(txn.SiacoinInputs, types.SiacoinInput{ParentID: types.SiacoinOutputID{0xEE, byte(i), byte(i >> 8), byte(tag)}})
		}
		raw.existing = len(txn.SiacoinInputs)
		nOut := len(txn.SiacoinOutputs)
		f.toSignV1, raw.err = e.w.FundTransaction(&txn, amount, o.Unc)
		f.v1txn = txn
		if raw.err == nil {
			for _, in := range txn.SiacoinInputs[min(raw.existing, len(txn.SiacoinInputs)):] {
				raw.sel = append(raw.sel, in.ParentID)
			}
			if len(f.toSignV1) != len(raw.sel) {
				note("fund-tosign", "FundTransaction added %d inputs but asks for %d signatures", len(raw.sel), len(f.toSignV1))
			}
			for i, h := range f.toSignV1 {
				if i < len(raw.sel) && h != types.Hash256(raw.sel[i]) {
					note("fund-tosign", "FundTransaction asks for a signature of an input it did not add")
					break
				}
			}
			for _, so := range txn.SiacoinOutputs[min(nOut, len(txn.SiacoinOutputs)):] {
				raw.change = raw.change.Add(so.Value)
				if so.Address != e.addr {
					note("fund-conservation", "change output is not paid to the wallet")
				}
			}
		}
	}
	f.existing = raw.existing
	f.hi = e.clock()
	return raw
}

// intoTarget: the funded transaction a re-funding call adds to (the same object is
// handed to the wallet a second time), or nil.
func (e *env) intoTarget(o opSpec) *fundedTx {
	if o.Into == 0 {
		return nil
	}
	f := e.refTx(o.Into)
	if f == nil || f.released || f.inPool || f.superseded || f.v2 != o.V2 || f.existing != 0 || len(f.txInputs) != f.nInputs() || e.clock() >= f.lo+e.spec.Cfg.resv()-10*margin {
		return nil
	}
	return f
}

func (f *fundedTx) nInputs() int {
	if f.v2 {
		return len(f.v2txn.SiacoinInputs)
	}
	return len(f.v1txn.SiacoinInputs)
}

// finishFund judges one funding call against the oracle and records it.
func (e *env) finishFund(o opSpec, amount types.Currency, or *oracle, raw fundRaw, into *fundedTx) (failed bool) {
	t, f, sel, change, err := or.t, raw.f, raw.sel, raw.change, raw.err
	f.lo = t
	for _, n := range raw.notes {
		e.fail(n.kind, "%s", n.detail)
	}
	var uncSum types.Currency
	for id, v := range or.created {
		// unconfirmed outputs a transaction of this version can spend
		if pv2, ok := e.creatorV2(id); ok && pv2 == o.V2 && !e.isReservedBefore(id, t) {
			uncSum = uncSum.Add(v)
		}
	}
	if o.Unc {
		// a pool-created wallet output that a later pool transaction spends and that nobody
		// reserves any more: only the deletion in tpoolUtxos keeps it from being selected
		for id := range or.spent {
			if pv2, ok := e.creatorV2(id); ok && pv2 == o.V2 && !e.isReservedBefore(id, t) {
				if _, confirmed := e.ledger[id]; !confirmed {
					e.stats["fund:useUnconfirmed-with-unreserved-pool-spent-unconfirmed-output"]++
					break
				}
			}
		}
		// the branch "unconfirmed candidates must be unreserved" is exercised when a
		// same-version unconfirmed output is held by an outstanding request at this call
		for id := range or.created {
			if pv2, ok := e.creatorV2(id); ok && pv2 == o.V2 && e.isReservedBefore(id, t) {
				e.stats["fund:useUnconfirmed-with-reserved-unconfirmed-candidate"]++
				break
			}
		}
	}
	e.checkWindow(t)
	storeTip, _ := e.ws.Tip()
	basisH := storeTip.Height
	if o.V2 {
		basisH = f.basis.Height
		// the inputs and their proofs come from the store's snapshot: that is the basis they are valid for
		if err == nil && (f.basis != storeTip || f.basis != e.ledgerTip) {
			e.fail("fund-basis-not-store-tip", "FundV2Transaction returned basis %v, the selected elements and their Merkle proofs belong to the wallet store's tip %v (manager tip %v)", f.basis, storeTip, e.cm.Tip())
		}
	} else {
		f.basis = storeTip
	}
	what := fmt.Sprintf("Fund(v2=%v, amount=%s, existing=%d, useUnconfirmed=%v)", o.V2, curStr(amount), raw.existing, o.Unc)
	e.trace = append(e.trace, fmt.Sprintf("(Fund %s %s %d %s, None)", coqBool(o.V2), zlit(amount), raw.existing, coqBool(o.Unc)))
	e.stats["fund"]++
	if amount.Equals(maxCurrency) || amount.Equals(maxCurrency.Div64(2)) {
		e.stats["extreme:fund-amount-near-2^128"]++
	}
	if raw.existing >= 50 && into == nil {
		e.stats["extreme:fund-with-many-existing-inputs"]++
	}
	var res string
	switch {
	case raw.panicked != nil:
		failed = true
		res = "RErr"
		e.fail("wallet-panic", "%s panicked: %v", what, raw.panicked)
	case err != nil:
		failed = true
		res = "RErr"
		e.stats["fund:err"]++
		if !errors.Is(err, wallet.ErrNotEnoughFunds) {
			e.fail("fund-unexpected-error", "%s: %v", what, err)
		} else if !e.tainted {
			avail := or.expSum
			if o.Unc {
				avail = avail.Add(uncSum)
			}
			if amount.Cmp(avail) <= 0 && o.probe {
				e.fail("failed-call-reserved", "after a failed call, %s failed (%v) although %s was spendable before the failed call and nothing else happened", what, err, curStr(avail))
			} else if amount.Cmp(avail) <= 0 {
				e.fail("fund-refuses-available-funds", "%s failed (%v) although %s is spendable according to the ledger, the pool and the reservations held", what, err, curStr(avail))
			}
		}
	default:
		f.inputs = sel
		f.txInputs = sel
		if into != nil {
			f.txInputs = append(append([]types.SiacoinOutputID(nil), into.txInputs...), sel...)
			if f.v2 {
				f.toSignV2 = append(append([]int(nil), into.toSignV2...), f.toSignV2...)
			} else {
				f.toSignV1 = append(append([]types.Hash256(nil), into.toSignV1...), f.toSignV1...)
			}
			f.existing = into.existing
			f.unc = f.unc || into.unc
			into.superseded = true
			f.mergedFrom = append(append([]*fundedTx(nil), into.mergedFrom...), into)
			e.stats["history:fund-into-an-already-funded-transaction"]++
		}
		if !e.tainted {
			for _, in := range f.v2txn.SiacoinInputs[min(raw.existing, len(f.v2txn.SiacoinInputs)):] {
				if v, ok := e.known[in.Parent.ID]; ok && !v.Equals(in.Parent.SiacoinOutput.Value) {
					e.fail("fund-conservation", "input %d carries value %s, the output is worth %s", e.aid(in.Parent.ID), curStr(in.Parent.SiacoinOutput.Value), curStr(v))
				}
			}
			sum := e.checkSelected(what, o.V2, sel, o.Unc, t, or.exp, or.created, or.spent, or.outstanding)
			if !sum.Equals(amount.Add(change)) {
				e.fail("fund-conservation", "%s: inputs are worth %s, amount + change = %s + %s", what, curStr(sum), curStr(amount), curStr(change))
			}
			if amount.IsZero() && len(sel) > 0 {
				e.fail("fund-conservation", "%s selected inputs for a zero amount", what)
			}
		}
		for _, id := range sel {
			e.reserved[id] = reservation{t, f.hi}
			delete(e.releasedIDs, id)
		}
		e.funded = append(e.funded, f)
		res = fmt.Sprintf("RFund %s %s %d", nlist(e.aids(sel)), zlit(change), basisH)
		for _, id := range sel {
			if _, ok := or.created[id]; ok {
				e.stats["fund:unconfirmed-input-selected"]++
			}
		}
		if e.lagging() {
			e.stats["fund:ok-while-store-behind"]++
		}
		if len(sel) > 0 {
			e.stats["fund:ok"]++
		}
		if len(sel) > 1 {
			e.stats["fund:multi-input"]++
		}
	}
	e.observe(res, t, failed)
	return failed
}

func (e *env) doFund(o opSpec) (failed bool) {
	t := e.begin()
	amount := e.resolve(o.Amount, t)
	into := e.intoTarget(o)
	var or *oracle
	if !e.blind {
		or = e.takeOracle(t)
	}
	raw := e.callFund(o, amount, len(e.funded), into)
	if or == nil {
		or = e.takeOracle(t)
	}
	return e.finishFund(o, amount, or, raw, into)
}

func (e *env) doRelease(o opSpec) {
	f := e.refTx(o.Ref)
	if f == nil || f.inPool {
		// "It should only be called on transactions that are invalid or will never be broadcast"
		e.stats["skip:release"]++
		return
	}
	t := e.begin()
	if f.v2 {
		e.w.ReleaseInputs(nil, []types.V2Transaction{f.v2txn})
	} else {
		e.w.ReleaseInputs([]types.Transaction{f.v1txn}, nil)
	}
	rel := map[types.SiacoinOutputID]bool{}
	for _, id := range f.txInputs {
		rel[id] = true
		delete(e.reserved, id)
		e.releasedIDs[id] = true
	}
	for _, g := range e.funded {
		for _, id := range g.inputs {
			if rel[id] {
				g.released = true
			}
		}
	}
	f.released = true
	e.trace = append(e.trace, fmt.Sprintf("(Release %s, None)", nlist(e.aids(f.txInputs))))
	e.stats["release"]++
	e.observe("RUnit", t, false)
}

func (e *env) ptxCoq(r *poolRec) string {
	outs := make([]string, len(r.outs))
	for i, o := range r.outs {
		outs[i] = fmt.Sprintf("mk_pout %d %s %s", e.aid(o.ID), zlit(o.SiacoinOutput.Value), coqBool(o.SiacoinOutput.Address == e.addr))
	}
	return fmt.Sprintf("mk_ptx %d %s %s [%s]", r.id, coqBool(r.v2), nlist(e.aids(r.ins)), strings.Join(outs, "; "))
}

func (e *env) recordV2(txn types.V2Transaction) *poolRec {
	r := &poolRec{id: e.atx(txn.ID()), v2: true}
	for _, in := range txn.SiacoinInputs {
		r.ins = append(r.ins, in.Parent.ID)
	}
	for i := range txn.SiacoinOutputs {
		el := txn.EphemeralSiacoinOutput(i)
		r.outs = append(r.outs, el)
		e.known[el.ID] = el.SiacoinOutput.Value
	}
	e.poolRecs[txn.ID()] = r
	return r
}

func (e *env) recordV1(txn types.Transaction) *poolRec {
	r := &poolRec{id: e.atx(txn.ID()), v2: false}
	for _, in := range txn.SiacoinInputs {
		r.ins = append(r.ins, in.ParentID)
	}
	for i, so := range txn.SiacoinOutputs {
		id := txn.SiacoinOutputID(i)
		r.outs = append(r.outs, types.SiacoinElement{ID: id, SiacoinOutput: so})
		e.known[id] = so.Value
	}
	e.poolRecs[txn.ID()] = r
	return r
}

// creatorV2 tells whether the pool transaction that created id is a v2 transaction.
func (e *env) creatorV2(id types.SiacoinOutputID) (v2, ok bool) {
	for _, r := range e.poolRecs {
		for _, out := range r.outs {
			if out.ID == id {
				return r.v2, true
			}
		}
	}
	return false, false
}

func (e *env) inPool(id types.TransactionID) bool {
	for _, txn := range e.cm.PoolTransactions() {
		if txn.ID() == id {
			return true
		}
	}
	for _, txn := range e.cm.V2PoolTransactions() {
		if txn.ID() == id {
			return true
		}
	}
	return false
}

// doBroadcast signs an outstanding funded transaction and submits it: the
// property says the pool accepts it.
func (e *env) doBroadcast(o opSpec) {
	f := e.refTx(o.Ref)
	t0 := e.clock()
	if f == nil || f.existing != 0 || f.inPool || f.released || f.superseded || len(f.inputs) == 0 || t0 >= f.lo+e.spec.Cfg.resv()-10*margin ||
		(f.unc && f.basis != e.cm.Tip()) {
		e.stats["skip:broadcast"]++
		return
	}
	t := e.begin()
	var err error
	var rec *poolRec
	if f.v2 {
		if !f.signed {
			e.w.SignV2Inputs(&f.v2txn, f.toSignV2)
			f.signed = true
		}
		var basis types.ChainIndex
		var set []types.V2Transaction
		func() {
			defer func() {
				if p := recover(); p != nil {
					err = fmt.Errorf("chain.Manager.V2TransactionSet panicked: %v", p)
				}
			}()
			basis, set, err = e.cm.V2TransactionSet(f.basis, f.v2txn)
		}()
		if err == nil {
			if o.ViaWallet {
				err = e.w.BroadcastV2TransactionSet(basis, set)
				if err == nil {
					var ids []types.TransactionID
					for _, txn := range set {
						ids = append(ids, txn.ID())
					}
					e.bsets = append(e.bsets, ids)
				}
			} else {
				_, err = e.cm.AddV2PoolTransactions(basis, set)
			}
		}
		if err == nil {
			rec = e.recordV2(f.v2txn)
		}
	} else {
		if !f.signed {
			e.w.SignTransaction(&f.v1txn, f.toSignV1, types.CoveredFields{WholeTransaction: true})
			f.signed = true
		}
		set := append(e.cm.UnconfirmedParents(f.v1txn), f.v1txn)
		_, err = e.cm.AddPoolTransactions(set)
		if err == nil {
			rec = e.recordV1(f.v1txn)
		}
	}
	if err != nil {
		e.stats["broadcast:rejected"]++
		e.fail("signed-transaction-rejected", "the funded and signed transaction (v2=%v, inputs %v, useUnconfirmed=%v) was rejected by the pool: %v", f.v2, e.aids(f.txInputs), f.unc, err)
		return
	}
	f.inPool = true
	for _, g := range f.mergedFrom {
		g.inPool = true
	}
	if len(f.mergedFrom) > 0 {
		e.stats["history:broadcast-of-a-twice-funded-transaction"]++
	}
	e.stats["broadcast"]++
	if len(e.cm.PoolTransactions()) > 0 && len(e.cm.V2PoolTransactions()) > 0 {
		e.stats["mix:v1-and-v2-transactions-in-the-pool"]++
	}
	for _, out := range rec.outs {
		if out.SiacoinOutput.Address != e.addr {
			e.stats["mix:pool-output-not-owned-by-the-wallet"]++
		}
	}
	if e.lagging() {
		e.stats["broadcast:while-store-behind"]++
	}
	if f.v2 {
		e.stats["broadcast:v2"]++
	} else {
		e.stats["broadcast:v1"]++
	}
	e.trace = append(e.trace, fmt.Sprintf("(PoolAdd (%s), None)", e.ptxCoq(rec)))
	e.observe("RUnit", t, false)
}

func (e *env) poolIDs() map[types.TransactionID]bool {
	m := map[types.TransactionID]bool{}
	for _, txn := range e.cm.PoolTransactions() {
		m[txn.ID()] = true
	}
	for _, txn := range e.cm.V2PoolTransactions() {
		m[txn.ID()] = true
	}
	return m
}

func (e *env) doMine(o opSpec) error {
	t := e.begin()
	before := e.poolIDs()
	to := types.VoidAddress
	if o.ToWallet {
		to = e.addr
	}
	diffs, err := e.mineRaw(to, 1)
	if err != nil {
		return err
	}
	// boundary shapes: a pool transaction and the pool transaction that created its input
	// confirmed by the same block; the first block after a restart
	after := e.poolIDs()
	createdBy := map[types.SiacoinOutputID]bool{}
	for id := range before {
		if r := e.poolRecs[id]; r != nil && !after[id] {
			for _, o := range r.outs {
				createdBy[o.ID] = true
			}
		}
	}
	for id := range before {
		if r := e.poolRecs[id]; r != nil && !after[id] {
			for _, in := range r.ins {
				if createdBy[in] {
					e.stats["boundary:parent-and-child-confirmed-in-one-block"]++
				}
			}
		}
	}
	if e.afterRestart {
		e.stats["boundary:first-block-after-restart"]++
	}
	e.tracePoolRemoved(before)
	e.traceDiffs(diffs)
	e.stats["mine"]++
	e.observe("RUnit", t, false)
	return nil
}

func (e *env) tracePoolRemoved(before map[types.TransactionID]bool) {
	after := e.poolIDs()
	var removed []uint64
	for id := range before {
		if !after[id] {
			if r := e.poolRecs[id]; r != nil {
				removed = append(removed, r.id)
			}
		}
	}
	sort.Slice(removed, func(i, j int) bool { return removed[i] < removed[j] })
	for _, id := range removed {
		e.trace = append(e.trace, fmt.Sprintf("(PoolRemove %d, None)", id))
	}
}

func (e *env) traceDiffs(diffs []blockDiff) {
	for _, d := range diffs {
		var cr []string
		for _, el := range d.created {
			cr = append(cr, fmt.Sprintf("mk_utxo %d %s %d", e.aid(el.ID), zlit(el.SiacoinOutput.Value), el.MaturityHeight))
		}
		e.trace = append(e.trace, fmt.Sprintf("(Mine %s [%s], None)", nlist(e.aids(d.spent)), strings.Join(cr, "; ")))
	}
}

// doLag lets k blocks reach the manager but not the wallet store (the window
// between AddBlocks and UpdateChainState). The wallet sees them only as pool
// changes; every wallet call in the window must still behave.
func (e *env) doLag(o opSpec) error {
	if e.spec.Cfg.Short {
		// a reservation running out while its transaction is confirmed in a block the
		// store has not seen frees inputs that are spent on chain: out of the wallet's reach
		e.stats["skip:lag"]++
		return nil
	}
	// Inside the window the wallet knows the chain through its store only: a
	// transaction confirmed by a block the store has not applied protects its
	// inputs by its reservation alone. Only enter the window when every wallet
	// output spent by the pool is still reserved (not after a restart).
	spent, _ := e.poolView()
	for id := range spent {
		if _, mine := e.ledger[id]; mine && !e.isReserved(id, e.clock()) {
			e.stats["skip:lag"]++
			return nil
		}
	}
	t := e.begin()
	before := e.poolIDs()
	to := types.VoidAddress
	if o.ToWallet {
		to = e.addr
	}
	if err := e.mineNoSync(to, max(o.Blocks, 1)); err != nil {
		return err
	}
	e.tracePoolRemoved(before)
	e.trace = append(e.trace, "(Tick 0, None)")
	e.stats["lag"]++
	e.stats[fmt.Sprintf("lag:blocks=%d", max(o.Blocks, 1))]++
	e.observe("RUnit", t, false)
	return nil
}

func (e *env) doSyncIfLagging() error {
	if e.lagging() {
		return e.doSync()
	}
	return nil
}

// doSync lets the wallet store catch up (UpdateChainState).
func (e *env) doSync() error {
	if !e.lagging() {
		e.stats["skip:sync"]++
		return nil
	}
	t := e.begin()
	diffs, err := e.sync()
	if err != nil {
		return err
	}
	e.traceDiffs(diffs)
	e.trace = append(e.trace, "(Tick 0, None)")
	e.stats["sync"]++
	e.observe("RUnit", t, false)
	return nil
}

func (e *env) doRestart(o opSpec) error {
	if err := e.doSyncIfLagging(); err != nil { // a reservation must not end while the store is behind (see doLag)
		return err
	}
	t := e.begin()
	before := e.poolIDs()
	e.w.Close()
	if o.NewCM {
		dbs, tipState, err := chain.NewDBStore(e.db, e.n, e.genesis, nil)
		if err != nil {
			return err
		}
		e.dbs = dbs
		e.cm = chain.NewManager(dbs, tipState)
	}
	var err error
	e.w, err = e.newWallet()
	if err != nil {
		return err
	}
	after := e.poolIDs()
	// the persisted broadcast sets that were in the pool must be back in it
	for _, set := range e.bsets {
		all := true
		for _, id := range set {
			all = all && before[id]
		}
		if !all {
			continue
		}
		for _, id := range set {
			if !after[id] {
				e.fail("restart-broadcast-set-not-reloaded", "transaction %d of a persisted broadcast set was in the pool before the restart and is missing after it", e.atx(id))
			}
		}
	}
	if !o.NewCM {
		for id := range before {
			if !after[id] {
				e.fail("restart-pool-changed", "transaction %d left the pool over a wallet restart", e.atx(id))
			}
		}
	}
	e.reserved = map[types.SiacoinOutputID]reservation{}
	for _, f := range e.funded {
		f.released = true
	}
	var ptxs []string
	for _, txn := range e.cm.PoolTransactions() {
		if r := e.poolRecs[txn.ID()]; r != nil {
			ptxs = append(ptxs, e.ptxCoq(r))
		}
	}
	for _, txn := range e.cm.V2PoolTransactions() {
		if r := e.poolRecs[txn.ID()]; r != nil {
			ptxs = append(ptxs, e.ptxCoq(r))
		} else {
			ptxs = append(ptxs, e.ptxCoq(e.recordV2(txn)))
		}
	}
	e.trace = append(e.trace, fmt.Sprintf("(Restart [%s], None)", strings.Join(ptxs, "; ")))
	e.stats["restart"]++
	e.justRestarted = true
	if len(after) > 0 {
		e.stats["restart:pool-nonempty"]++
	}
	e.observe("RUnit", t, false)
	return nil
}

// doSleep lets every reservation held run out (short reservation period only).
func (e *env) doSleep(o opSpec) {
	e.doSyncIfLagging()
	if o.Partial {
		e.doSleepPartial()
		return
	}
	if !e.spec.Cfg.Short {
		e.stats["skip:sleep"]++
		return
	}
	var until time.Duration
	for _, r := range e.reserved {
		if u := r.hi + shortResv + 2*margin; u > until {
			until = u
		}
	}
	if d := until - e.clock(); d > 0 {
		time.Sleep(d)
	}
	t := e.begin()
	e.trace = append(e.trace, "(Tick 0, None)")
	e.stats["sleep"]++
	e.observe("RUnit", t, false)
}

// resolveRedist computes the amount for a Redistribute request "R:<j>:<c>" such
// that the first transaction takes the j largest usable outputs (0: all of them)
// and is left with the change c (0, 1, fpi-1, fpi, fpi+1, big; fpi = fee of one
// input = feePerByte*241) after o.Outputs outputs and the fee.
func (e *env) resolveRedist(o opSpec, fpb types.Currency, t time.Duration) types.Currency {
	parts := strings.Split(o.Amount, ":")
	fallback := parseCur("3" + "00000000000000000000")
	if len(parts) != 3 {
		return fallback
	}
	j, _ := strconv.Atoi(parts[1])
	exp, _ := e.expected(t)
	vals := make([]types.Currency, 0, len(exp))
	for _, v := range exp {
		vals = append(vals, v)
	}
	sort.Slice(vals, func(a, b int) bool { return vals[a].Cmp(vals[b]) > 0 })
	if j <= 0 || j > len(vals) {
		j = len(vals)
	}
	if j == 0 {
		return fallback
	}
	var sum types.Currency
	for _, v := range vals[:j] {
		sum = sum.Add(v)
	}
	k := min(max(o.Outputs, 1), 10)
	var txn types.V2Transaction
	for i := 0; i < k; i++ {
		txn.SiacoinOutputs = append(txn.SiacoinOutputs, types.SiacoinOutput{Address: e.addr})
	}
	fpi := fpb.Mul64(241)
	fee := fpi.Mul64(uint64(j)).Add(fpb.Mul64(e.cm.TipState().V2TransactionWeight(txn)))
	one := types.NewCurrency64(1)
	var c types.Currency
	switch parts[2] {
	case "0":
	case "1":
		c = one
	case "fpi-1":
		if !fpi.IsZero() {
			c = fpi.Sub(one)
		}
	case "fpi":
		c = fpi
	case "fpi+1":
		c = fpi.Add(one)
	default:
		c = fpi.Mul64(3).Add(parseCur("1" + "00000000000000000000"))
	}
	if sum.Cmp(fee.Add(c)) <= 0 {
		return fallback
	}
	rest := sum.Sub(fee).Sub(c)
	amount := rest.Div64(uint64(k))
	// the remainder of the division would be added to the change: only exact targets are of use
	if !amount.Mul64(uint64(k)).Equals(rest) || amount.IsZero() {
		return fallback
	}
	return amount
}

type redRaw struct {
	basis    types.ChainIndex
	txns     []types.V2Transaction
	toSign   [][]int
	err      error
	panicked any
	hi       time.Duration
}

func (e *env) callRedist(outputs int, amount, fpb types.Currency) (raw redRaw) {
	defer func() {
		if p := recover(); p != nil {
			raw.panicked = p
		}
		raw.hi = e.clock()
	}()
	raw.basis, raw.txns, raw.toSign, raw.err = e.w.Redistribute(outputs, amount, fpb)
	return
}

func (e *env) redistAmount(o opSpec, t time.Duration) (amount, fpb types.Currency) {
	fpb = parseCur(o.FeePerB)
	if o.FeePerB == "max" {
		fpb = maxCurrency
	}
	if strings.HasPrefix(o.Amount, "R:") && !e.blind {
		return e.resolveRedist(o, fpb, t), fpb
	}
	return e.resolve(o.Amount, t), fpb
}

func (e *env) doRedist(o opSpec) (failed bool) {
	t := e.begin()
	amount, fpb := e.redistAmount(o, t)
	var or *oracle
	if !e.blind {
		or = e.takeOracle(t)
	}
	raw := e.callRedist(o.Outputs, amount, fpb)
	if or == nil {
		or = e.takeOracle(t)
	}
	return e.finishRedist(o, amount, fpb, or, raw)
}

func (e *env) finishRedist(o opSpec, amount, fpb types.Currency, or *oracle, raw redRaw) (failed bool) {
	t, exp, spent, created, outstanding := or.t, or.exp, or.spent, or.created, or.outstanding
	basis, txns, toSign, err, hi := raw.basis, raw.txns, raw.toSign, raw.err, raw.hi
	cs := e.cm.TipState()
	feeOut := make([]string, 11)
	for k := 0; k <= 10; k++ {
		var txn types.V2Transaction
		for i := 0; i < k; i++ {
			txn.SiacoinOutputs = append(txn.SiacoinOutputs, types.SiacoinOutput{Value: amount, Address: e.addr})
		}
		w, over := fpb.Mul64WithOverflow(cs.V2TransactionWeight(txn))
		if over {
			w = maxCurrency
		}
		feeOut[k] = zlit(w)
	}
	fpi, over := fpb.Mul64WithOverflow(241)
	if over {
		fpi = maxCurrency
	}
	e.checkWindow(t)
	what := fmt.Sprintf("Redistribute(outputs=%d, amount=%s, feePerByte=%s)", o.Outputs, curStr(amount), curStr(fpb))
	if amount.IsZero() && err != nil && raw.panicked == nil {
		// an illegal argument, refused: outside the model (which describes amount > 0);
		// what matters is that the refusal left nothing behind
		e.stats["extreme:redistribute-zero-amount-refused"]++
		e.trace = append(e.trace, "(Tick 0, None)")
		e.observe("RUnit", t, true)
		return true
	}
	if amount.Equals(maxCurrency) || amount.Equals(maxCurrency.Div64(2)) || fpb.Equals(maxCurrency) {
		e.stats["extreme:redistribute-amount-or-fee-near-2^128"]++
	}
	e.trace = append(e.trace, fmt.Sprintf("(Redistribute %s %s %s [%s], None)", zint(o.Outputs), zlit(amount), zlit(fpi), strings.Join(feeOut, "; ")))
	e.stats["redist"]++
	if storeTip, _ := e.ws.Tip(); err == nil && len(txns) > 0 && basis != storeTip {
		e.fail("redistribute-basis-not-store-tip", "Redistribute returned basis %v, the inputs and their Merkle proofs belong to the wallet store's tip %v (manager tip %v)", basis, storeTip, e.cm.Tip())
	}
	for _, v := range exp {
		if v.Equals(amount) {
			e.stats["boundary:redistribute-when-an-output-already-has-the-amount"]++
			break
		}
	}
	switch {
	case o.Outputs <= 0:
		e.stats["extreme:redistribute-outputs<=0"]++
	case o.Outputs >= 1000:
		e.stats["extreme:redistribute-outputs-huge"]++
	case o.Outputs%10 <= 1 && o.Outputs >= 10:
		e.stats["boundary:redistribute-outputs-at-batch-limit"]++
	}
	var res string
	if raw.panicked != nil {
		failed = true
		res = "RErr"
		e.fail("wallet-panic", "%s panicked: %v", what, raw.panicked)
	} else if err != nil {
		failed = true
		res = "RErr"
		e.stats["redist:err"]++
		if !errors.Is(err, wallet.ErrNotEnoughFunds) {
			e.fail("redistribute-unexpected-error", "%s: %v", what, err)
		}
	} else {
		var rs []string
		var all []types.SiacoinOutputID
		for i, txn := range txns {
			var sel []types.SiacoinOutputID
			for _, in := range txn.SiacoinInputs {
				sel = append(sel, in.Parent.ID)
			}
			all = append(all, sel...)
			var outSum types.Currency
			for _, so := range txn.SiacoinOutputs {
				outSum = outSum.Add(so.Value)
				if so.Address != e.addr {
					e.fail("redistribute-conservation", "%s: an output is not paid to the wallet", what)
				}
			}
			if !e.tainted {
				sum := e.checkSelected(what, true, sel, false, t, exp, created, spent, outstanding)
				if !sum.Equals(outSum.Add(txn.MinerFee)) {
					e.fail("redistribute-conservation", "%s: transaction %d has inputs worth %s, outputs %s + fee %s", what, i, curStr(sum), curStr(outSum), curStr(txn.MinerFee))
				}
			}
			// where the change (inputs - outputs*amount - fee, what conservation demands) lies
			// relative to the fee of one input
			var inSum types.Currency
			for _, id := range sel {
				inSum = inSum.Add(e.known[id])
			}
			nAmt := 0
			for _, so := range txn.SiacoinOutputs {
				if so.Value.Equals(amount) && nAmt < 10 {
					nAmt++
				}
			}
			if len(txn.SiacoinOutputs) > 0 && nAmt == len(txn.SiacoinOutputs) && nAmt > min(o.Outputs, 10) {
				nAmt-- // a change output that happens to equal the amount
			}
			if need := amount.Mul64(uint64(nAmt)).Add(txn.MinerFee); inSum.Cmp(need) >= 0 {
				ch := inSum.Sub(need)
				one := types.NewCurrency64(1)
				switch {
				case ch.IsZero():
					e.stats["redist:change=0"]++
				case ch.Equals(one):
					e.stats["redist:change=1H"]++
				case !fpi.IsZero() && ch.Add(one).Equals(fpi):
					e.stats["redist:change=feePerInput-1"]++
				case !fpi.IsZero() && ch.Equals(fpi):
					e.stats["redist:change=feePerInput"]++
				case ch.Equals(fpi.Add(one)):
					e.stats["redist:change=feePerInput+1"]++
				case ch.Cmp(fpi) < 0:
					e.stats["redist:change<feePerInput"]++
				default:
					e.stats["redist:change>feePerInput"]++
				}
			}
			e.stats["redist:tx:feePerByte="+curStr(fpb)]++
			f := &fundedTx{v2: true, v2txn: txn, toSignV2: toSign[i], basis: basis, inputs: sel, txInputs: sel, lo: t, hi: hi}
			e.funded = append(e.funded, f)
			rs = append(rs, fmt.Sprintf("mk_rtx %s %s %s %s", nlist(e.aids(sel)), zint(len(txn.SiacoinOutputs)), zlit(outSum), zlit(txn.MinerFee)))
		}
		if !e.tainted {
			seen := map[types.SiacoinOutputID]bool{}
			for _, id := range all {
				if seen[id] {
					e.fail("fund-duplicate-input", "%s used output %d in two of the transactions it returned", what, e.aid(id))
				}
				seen[id] = true
			}
		}
		for _, id := range all {
			e.reserved[id] = reservation{t, hi}
			delete(e.releasedIDs, id)
		}
		if len(txns) > 0 {
			e.stats["redist:ok"]++
		}
		res = "RRedist [" + strings.Join(rs, "; ") + "]"
	}
	e.observe(res, t, failed)
	return failed
}

type splRaw struct {
	txn      types.V2Transaction
	err      error
	panicked any
	hi       time.Duration
}

func (e *env) callSplit(n int, minAmt types.Currency) (raw splRaw) {
	defer func() {
		if p := recover(); p != nil {
			raw.panicked = p
		}
		raw.hi = e.clock()
	}()
	raw.txn, raw.err = e.w.SplitUTXO(n, minAmt)
	return
}

func (e *env) doSplit(o opSpec) (failed bool) {
	t := e.begin()
	minAmt := e.resolve(o.Min, t)
	var or *oracle
	if !e.blind {
		or = e.takeOracle(t)
	}
	fee := e.w.RecommendedFee().Mul64(2000)
	raw := e.callSplit(o.N, minAmt)
	if or == nil {
		or = e.takeOracle(t)
		// taken after the call: what the split transaction itself did to the pool is not part of the state before
		for _, in := range raw.txn.SiacoinInputs {
			delete(or.spent, in.Parent.ID)
		}
		for i := range raw.txn.SiacoinOutputs {
			delete(or.created, raw.txn.EphemeralSiacoinOutput(i).ID)
		}
	}
	return e.finishSplit(o, minAmt, fee, or, raw)
}

func (e *env) finishSplit(o opSpec, minAmt, fee types.Currency, or *oracle, raw splRaw) (failed bool) {
	t, exp, spent, created, outstanding := or.t, or.exp, or.spent, or.created, or.outstanding
	txn, err, hi := raw.txn, raw.err, raw.hi
	for id := range created {
		if pv2, ok := e.creatorV2(id); ok && pv2 && e.isReservedBefore(id, t) {
			e.stats["split:with-reserved-unconfirmed-candidate"]++
			break
		}
	}
	e.checkWindow(t)
	what := fmt.Sprintf("SplitUTXO(n=%d, minAmount=%s)", o.N, curStr(minAmt))
	e.stats["split"]++
	var res, opc string
	switch {
	case raw.panicked != nil:
		failed = true
		res = "RErr"
		opc = fmt.Sprintf("(Split %s %s %s 0 [], None)", zint(o.N), zlit(minAmt), zlit(fee))
		e.fail("wallet-panic", "%s panicked: %v", what, raw.panicked)
	case err != nil:
		failed = true
		res = "RErr"
		opc = fmt.Sprintf("(Split %s %s %s 0 [], None)", zint(o.N), zlit(minAmt), zlit(fee))
		e.stats["split:err"]++
		// why, judged from the arguments (never from the wording of the error)
		switch {
		case e.spec.Cfg.Thresh < o.N:
			e.stats["split:err:n-exceeds-defrag-threshold"]++
		case minAmt.IsZero():
			e.stats["split:err:min-amount-zero"]++
		case o.N <= 1:
			e.stats["split:err:n<=1"]++
		default:
			e.stats["split:err:nothing-large-enough-to-split"]++
		}
		if o.N < 0 || o.N >= 1000 || minAmt.Equals(maxCurrency) {
			e.stats["extreme:split-arguments"]++
		}
	case len(txn.SiacoinInputs) == 0:
		res = "RSplit None"
		opc = fmt.Sprintf("(Split %s %s %s 0 [], None)", zint(o.N), zlit(minAmt), zlit(fee))
		e.stats["split:noop"]++
	default:
		e.stats["split:ok"]++
		if _, ok := created[txn.SiacoinInputs[0].Parent.ID]; ok {
			e.stats["split:unconfirmed-input"]++
		}
		in := txn.SiacoinInputs[0].Parent.ID
		var outSum types.Currency
		var vals []string
		for _, so := range txn.SiacoinOutputs {
			outSum = outSum.Add(so.Value)
			vals = append(vals, zlit(so.Value))
			if so.Address != e.addr || so.Value.Cmp(minAmt) < 0 {
				e.fail("split-outputs", "%s created an output of %s to %v", what, curStr(so.Value), so.Address)
			}
		}
		if !e.tainted {
			sum := e.checkSelected(what, true, []types.SiacoinOutputID{in}, true, t, exp, created, spent, outstanding)
			if len(txn.SiacoinInputs) != 1 || !sum.Equals(outSum.Add(txn.MinerFee)) {
				e.fail("split-conservation", "%s: input worth %s, outputs %s + fee %s", what, curStr(sum), curStr(outSum), curStr(txn.MinerFee))
			}
		}
		if !e.inPool(txn.ID()) {
			e.fail("signed-transaction-rejected", "%s returned a transaction that is not in the pool", what)
		}
		rec := e.recordV2(txn)
		var newIDs []uint64
		for _, el := range rec.outs {
			newIDs = append(newIDs, e.aid(el.ID))
		}
		e.bsets = append(e.bsets, []types.TransactionID{txn.ID()})
		e.funded = append(e.funded, &fundedTx{v2: true, v2txn: txn, inputs: []types.SiacoinOutputID{in}, txInputs: []types.SiacoinOutputID{in}, lo: t, hi: hi, inPool: true, signed: true, basis: e.cm.Tip()})
		e.reserved[in] = reservation{t, hi}
		delete(e.releasedIDs, in)
		res = fmt.Sprintf("RSplit (Some (%d, [%s]))", e.aid(in), strings.Join(vals, "; "))
		opc = fmt.Sprintf("(Split %s %s %s %d %s, None)", zint(o.N), zlit(minAmt), zlit(txn.MinerFee), rec.id, nlist(newIDs))
		if !txn.MinerFee.Equals(fee) {
			e.fail("split-fee", "%s paid fee %s, RecommendedFee*2000 = %s", what, curStr(txn.MinerFee), curStr(fee))
		}
	}
	e.trace = append(e.trace, opc)
	e.observe(res, t, failed)
	return failed
}
