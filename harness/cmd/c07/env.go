package main

// The environment of one C07 case: a real chain.Manager over a MemDB-backed
// DBStore, a real wallet.SingleAddressWallet over testutil.EphemeralWalletStore,
// and the harness' own bookkeeping that the monitors judge the wallet against:
//   - a ledger of the wallet address' confirmed outputs built from the chain
//     updates (never from the wallet store),
//   - what the manager's pool spends and creates (the manager is an oracle here),
//   - which outputs callers currently hold a reservation for (what Fund* etc.
//     returned, minus what was handed to ReleaseInputs, minus what is older than
//     the reservation period, emptied by a restart).

import (
	"errors"
	"fmt"
	"math/big"
	"sort"
	"time"

	"go.sia.tech/core/consensus"
	"go.sia.tech/core/types"
	"go.sia.tech/coreutils"
	"go.sia.tech/coreutils/chain"
	"go.sia.tech/coreutils/testutil"
	"go.sia.tech/coreutils/wallet"
)

const (
	longResv  = 3 * time.Hour
	shortResv = 80 * time.Millisecond
	margin    = 4 * time.Millisecond
	matDelay  = 3
)

type cfgSpec struct {
	Thresh    int  `json:"defragThreshold"`
	MaxIn     int  `json:"maxInputsForDefrag"`
	MaxDefrag int  `json:"maxDefragUTXOs"`
	Short     bool `json:"shortReservation"`
}

func (c cfgSpec) resv() time.Duration {
	if c.Short {
		return shortResv
	}
	return longResv
}

func (c cfgSpec) opts() []wallet.Option {
	return []wallet.Option{
		wallet.WithDefragThreshold(c.Thresh), wallet.WithMaxInputsForDefrag(c.MaxIn),
		wallet.WithMaxDefragUTXOs(c.MaxDefrag), wallet.WithReservationDuration(c.resv()),
	}
}

type ledgerEntry struct {
	val types.Currency
	mat uint64
}

// a transaction handed out by the wallet
type fundedTx struct {
	v2         bool
	v1txn      types.Transaction
	v2txn      types.V2Transaction
	toSignV1   []types.Hash256
	toSignV2   []int
	basis      types.ChainIndex
	inputs     []types.SiacoinOutputID // selected by the wallet in this call, in order
	txInputs   []types.SiacoinOutputID // every wallet input of the transaction object (= inputs unless a call added to an already funded transaction)
	superseded bool                    // a later call added to the same transaction object
	mergedFrom []*fundedTx             // the earlier records of the same transaction object
	existing   int
	unc        bool
	lo, hi     time.Duration // the call happened within [lo, hi]
	released   bool          // an input was handed to ReleaseInputs, or the wallet restarted
	inPool     bool
	signed     bool
}

type reservation struct{ lo, hi time.Duration }

type poolRec struct {
	id   uint64 // abstract id
	v2   bool
	ins  []types.SiacoinOutputID
	outs []types.SiacoinElement // with real ids
}

type env struct {
	spec    caseSpec
	n       *consensus.Network
	genesis types.Block
	db      chain.DB
	dbs     *chain.DBStore
	cm      *chain.Manager
	ws      *testutil.EphemeralWalletStore
	w       *wallet.SingleAddressWallet
	pk      types.PrivateKey
	addr    types.Address
	syncer  *testutil.MockSyncer

	ledger    map[types.SiacoinOutputID]ledgerEntry
	ledgerTip types.ChainIndex
	known     map[types.SiacoinOutputID]types.Currency // value of every output ever seen (confirmed or created by a pool transaction)
	ids       map[types.SiacoinOutputID]uint64
	txids     map[types.TransactionID]uint64
	poolRecs  map[types.TransactionID]*poolRec
	bsets     [][]types.TransactionID // sets broadcast through the wallet (persisted)

	funded      []*fundedTx
	reserved    map[types.SiacoinOutputID]reservation
	releasedIDs map[types.SiacoinOutputID]bool // handed to ReleaseInputs and not reserved again since

	start   time.Time
	lastB   time.Duration
	tainted bool // a reservation expired while a call was in flight: the case is not compared

	blind                       bool // a stretch of operations without any read call of the wallet or of the manager's pool
	blindExp                    map[types.SiacoinOutputID]types.Currency
	blindSum                    types.Currency
	outsFirst                   bool // the next observation calls SpendableOutputs before Balance
	hk                          *hooks
	dropCoq                     bool // the case is judged by the monitors only
	justRestarted, afterRestart bool
	noViews                     bool // the next observation must not read the wallet (a second, overlapping call is still to be recorded)

	trace []string // Coq (op, obs) pairs
	fails []failure
	stats map[string]int
}

type failure struct {
	kind, detail string
}

func (e *env) fail(kind, format string, a ...any) {
	e.fails = append(e.fails, failure{kind, fmt.Sprintf(format, a...)})
}

func (e *env) clock() time.Duration { return time.Since(e.start) }

func (e *env) aid(id types.SiacoinOutputID) uint64 {
	if v, ok := e.ids[id]; ok {
		return v
	}
	v := uint64(len(e.ids) + 1)
	e.ids[id] = v
	return v
}

func (e *env) atx(id types.TransactionID) uint64 {
	if v, ok := e.txids[id]; ok {
		return v
	}
	v := uint64(len(e.txids) + 1)
	e.txids[id] = v
	return v
}

func newEnv(spec caseSpec) (*env, error) {
	n, genesis := testutil.Network()
	n.MaturityDelay = matDelay
	n.HardforkV2.AllowHeight = 2 // v1 and v2 transactions are both valid from height 2 on
	n.HardforkV2.RequireHeight = 1 << 30
	n.HardforkV2.FinalCutHeight = 1 << 31
	e := &env{spec: spec, n: n, genesis: genesis, db: chain.NewMemDB(),
		ledger: map[types.SiacoinOutputID]ledgerEntry{}, known: map[types.SiacoinOutputID]types.Currency{},
		ids: map[types.SiacoinOutputID]uint64{}, txids: map[types.TransactionID]uint64{},
		poolRecs: map[types.TransactionID]*poolRec{}, reserved: map[types.SiacoinOutputID]reservation{}, releasedIDs: map[types.SiacoinOutputID]bool{},
		stats: map[string]int{}, syncer: &testutil.MockSyncer{}}
	dbs, tipState, err := chain.NewDBStore(e.db, n, genesis, nil)
	if err != nil {
		return nil, err
	}
	e.dbs = dbs
	e.cm = chain.NewManager(dbs, tipState)
	var seed [32]byte
	for i := range seed {
		seed[i] = byte(spec.Setup.Seed >> (8 * (i % 8)))
		if i >= 8 {
			seed[i] ^= byte(i * 37)
		}
	}
	e.pk = types.NewPrivateKeyFromSeed(seed[:])
	e.addr = types.StandardUnlockHash(e.pk.PublicKey())
	e.ws = testutil.NewEphemeralWalletStore()
	e.w, err = e.newWallet()
	if err != nil {
		return nil, err
	}
	return e, nil
}

func (e *env) close() {
	if e.w != nil {
		e.w.Close()
	}
}

// blockDiff is what one block did to the wallet address, from the chain update.
type blockDiff struct {
	spent   []types.SiacoinOutputID
	created []types.SiacoinElement
}

// sync feeds the chain updates to the wallet store (through the wallet's own
// UpdateChainState) and, independently, to the harness ledger.
func (e *env) sync() ([]blockDiff, error) {
	var diffs []blockDiff
	for e.ledgerTip != e.cm.Tip() {
		rus, aus, err := e.cm.UpdatesSince(e.ledgerTip, 100)
		if err != nil {
			return nil, err
		}
		if len(rus) > 0 {
			return nil, errors.New("unexpected reorg in a C07 case")
		}
		for _, au := range aus {
			var d blockDiff
			for _, sd := range au.SiacoinElementDiffs() {
				if sd.SiacoinElement.SiacoinOutput.Address != e.addr || (sd.Created && sd.Spent) {
					continue
				}
				if sd.Created {
					e.ledger[sd.SiacoinElement.ID] = ledgerEntry{sd.SiacoinElement.SiacoinOutput.Value, sd.SiacoinElement.MaturityHeight}
					e.known[sd.SiacoinElement.ID] = sd.SiacoinElement.SiacoinOutput.Value
					d.created = append(d.created, sd.SiacoinElement.Copy())
				} else if sd.Spent {
					delete(e.ledger, sd.SiacoinElement.ID)
					d.spent = append(d.spent, sd.SiacoinElement.ID)
				}
			}
			diffs = append(diffs, d)
			e.ledgerTip = au.State.Index
		}
	}
	for {
		tip, _ := e.ws.Tip()
		if tip == e.cm.Tip() {
			break
		}
		rus, aus, err := e.cm.UpdatesSince(tip, 100)
		if err != nil {
			return nil, err
		}
		if err := e.ws.UpdateChainState(func(tx wallet.UpdateTx) error { return e.w.UpdateChainState(tx, rus, aus) }); err != nil {
			return nil, err
		}
	}
	return diffs, nil
}

func (e *env) mineRaw(to types.Address, k int) ([]blockDiff, error) {
	var all []blockDiff
	for ; k > 0; k-- {
		b, ok := coreutils.MineBlock(e.cm, to, 5*time.Second)
		if !ok {
			return nil, errors.New("mining failed")
		}
		if err := e.cm.AddBlocks([]types.Block{b}); err != nil {
			return nil, err
		}
		d, err := e.sync()
		if err != nil {
			return nil, err
		}
		all = append(all, d...)
	}
	return all, nil
}

func parseCur(s string) types.Currency {
	b, ok := new(big.Int).SetString(s, 10)
	if !ok || b.Sign() < 0 {
		return types.ZeroCurrency
	}
	lo := new(big.Int).And(b, new(big.Int).SetUint64(^uint64(0))).Uint64()
	hi := new(big.Int).Rsh(b, 64).Uint64()
	return types.NewCurrency(lo, hi)
}

func curStr(c types.Currency) string { return c.Big().String() }

func (e *env) policy() types.SpendPolicy {
	return types.SpendPolicy{Type: types.PolicyTypeUnlockConditions(types.StandardUnlockConditions(e.pk.PublicKey()))}
}

// setup builds the initial state without going through the wallet's funding
// code: a block reward is split by a hand-built v2 transaction into the wanted
// outputs, then blocks are mined to the wallet to leave immature outputs.
func (e *env) setup() error {
	if _, err := e.mineRaw(e.addr, 1); err != nil {
		return err
	}
	if _, err := e.mineRaw(types.VoidAddress, matDelay); err != nil {
		return err
	}
	_, utxos, _ := e.ws.UnspentSiacoinElements()
	if len(utxos) != 1 {
		return fmt.Errorf("setup: expected one output, got %d", len(utxos))
	}
	txn := types.V2Transaction{SiacoinInputs: []types.V2SiacoinInput{{Parent: utxos[0].Copy()}}}
	left := utxos[0].SiacoinOutput.Value
	for _, v := range e.spec.Setup.Values {
		c := parseCur(v)
		txn.SiacoinOutputs = append(txn.SiacoinOutputs, types.SiacoinOutput{Address: e.addr, Value: c})
		left = left.Sub(c)
	}
	txn.SiacoinOutputs = append(txn.SiacoinOutputs, types.SiacoinOutput{Address: types.VoidAddress, Value: left})
	txn.SiacoinInputs[0].SatisfiedPolicy = types.SatisfiedPolicy{Policy: e.policy(),
		Signatures: []types.Signature{e.pk.SignHash(e.cm.TipState().InputSigHash(txn))}}
	if _, err := e.cm.AddV2PoolTransactions(e.cm.Tip(), []types.V2Transaction{txn}); err != nil {
		return fmt.Errorf("setup transaction: %w", err)
	}
	if _, err := e.mineRaw(types.VoidAddress, 1); err != nil {
		return err
	}
	if _, err := e.mineRaw(e.addr, e.spec.Setup.Immature); err != nil {
		return err
	}
	if len(e.cm.V2PoolTransactions())+len(e.cm.PoolTransactions()) != 0 {
		return errors.New("setup: pool not empty")
	}
	// abstract ids in a deterministic order
	type kv struct {
		id types.SiacoinOutputID
		le ledgerEntry
	}
	var all []kv
	for id, le := range e.ledger {
		all = append(all, kv{id, le})
	}
	sort.Slice(all, func(i, j int) bool {
		if c := all[i].le.val.Cmp(all[j].le.val); c != 0 {
			return c < 0
		}
		if all[i].le.mat != all[j].le.mat {
			return all[i].le.mat < all[j].le.mat
		}
		return string(all[i].id[:]) < string(all[j].id[:])
	})
	for _, x := range all {
		e.aid(x.id)
	}
	e.start = time.Now()
	return nil
}

// ---- oracle views ----

// height is the height of the wallet store's tip (= the harness ledger's): the
// snapshot the wallet's outputs come from. The manager may be ahead of it.
func (e *env) height() uint64 { return e.ledgerTip.Height }

// lagging: blocks have reached the manager that the wallet store has not applied.
func (e *env) lagging() bool { return e.ledgerTip != e.cm.Tip() }

// mineNoSync adds k blocks to the manager only.
func (e *env) mineNoSync(to types.Address, k int) error {
	for ; k > 0; k-- {
		b, ok := coreutils.MineBlock(e.cm, to, 5*time.Second)
		if !ok {
			return errors.New("mining failed")
		}
		if err := e.cm.AddBlocks([]types.Block{b}); err != nil {
			return err
		}
	}
	return nil
}

// poolView returns the ids spent by pool transactions and the wallet-owned
// outputs created and not spent by them (read from the manager's pool).
func (e *env) poolView() (spent map[types.SiacoinOutputID]bool, created map[types.SiacoinOutputID]types.Currency) {
	spent = map[types.SiacoinOutputID]bool{}
	created = map[types.SiacoinOutputID]types.Currency{}
	for _, txn := range e.cm.PoolTransactions() {
		for _, in := range txn.SiacoinInputs {
			spent[in.ParentID] = true
		}
		for i, o := range txn.SiacoinOutputs {
			if o.Address == e.addr {
				created[txn.SiacoinOutputID(i)] = o.Value
			}
		}
	}
	for _, txn := range e.cm.V2PoolTransactions() {
		for _, in := range txn.SiacoinInputs {
			spent[in.Parent.ID] = true
		}
		for i, o := range txn.SiacoinOutputs {
			if o.Address == e.addr {
				created[txn.EphemeralSiacoinOutput(i).ID] = o.Value
			}
		}
	}
	for id := range spent {
		delete(created, id)
	}
	return
}

// isReserved: a caller holds a reservation for id at time t (the harness' own
// statement of "reservations end on release or after the reservation period").
func (e *env) isReserved(id types.SiacoinOutputID, t time.Duration) bool {
	r, ok := e.reserved[id]
	return ok && t < r.lo+e.spec.Cfg.resv()
}

// expected is the set of outputs the property says are spendable now.
func (e *env) expected(t time.Duration) (map[types.SiacoinOutputID]types.Currency, types.Currency) {
	spent, _ := e.poolView()
	out := map[types.SiacoinOutputID]types.Currency{}
	var sum types.Currency
	h := e.height()
	for id, le := range e.ledger {
		if le.mat > h || spent[id] || e.isReserved(id, t) {
			continue
		}
		out[id] = le.val
		sum = sum.Add(le.val)
	}
	return out, sum
}

// settle waits until no reservation can expire during the next call, so that
// "reserved" is unambiguous for the oracle and for the model.
func (e *env) settle() time.Duration {
	d := e.spec.Cfg.resv()
	for {
		t := e.clock()
		var wait time.Duration
		for _, r := range e.reserved {
			if t >= r.lo+d-3*margin && t <= r.hi+d+margin {
				if w := r.hi + d + margin - t + time.Millisecond; w > wait {
					wait = w
				}
			}
		}
		if wait == 0 {
			return t
		}
		time.Sleep(wait)
	}
}

// checkWindow marks the case as not comparable if a reservation may have
// expired between b and now.
func (e *env) checkWindow(b time.Duration) {
	a := e.clock()
	d := e.spec.Cfg.resv()
	for _, r := range e.reserved {
		if r.lo >= b {
			continue // made by this call
		}
		if a >= r.lo+d-margin/2 && b <= r.hi+d+margin/2 {
			e.tainted = true
		}
	}
}

func (e *env) outstanding(t time.Duration) []*fundedTx {
	var out []*fundedTx
	for _, f := range e.funded {
		if !f.released && t < f.lo+e.spec.Cfg.resv() {
			out = append(out, f)
		}
	}
	return out
}
