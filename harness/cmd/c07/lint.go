package main

// lintWallet: the source-level half of "one exported wallet call = one atomic
// step" (DESIGN 3.4). It does not look for a particular spelling of the code
// but computes, for every function of package wallet, its EFFECT on the
// reservation state (none / reads / writes), following calls to other methods
// of the wallet and to methods of a helper type that holds the reservations,
// to a fixed point; then it asks of every entry point whose effect is not
// "none" that the effect happens under the wallet's mutex held to the end of
// the call:
//   - sw.mu.Lock(); defer sw.mu.Unlock()   for readers and writers,
//   - sw.mu.RLock(); defer sw.mu.RUnlock() for methods that only read
//     (a write - also through a helper such as cleanLockedUTXOs - under the
//     read lock is a finding),
//   - nothing that touches the state before the lock is taken, no second
//     Unlock (a window in the middle of the call),
//   - a method without any effect on the reservations needs no lock.
// All non-test files of the package are parsed, so the reservation code may
// live in any file. Findings are source-level ties (Res.BreakTie): they start
// the deep concurrent soak and are reported only if that finds nothing either.

import (
	"fmt"
	"go/ast"
	"go/parser"
	"go/token"
	"os"
	"path/filepath"
	"sort"
	"strings"

	"verif/harness/internal/hx"
)

const (
	effNone  = 0
	effRead  = 1
	effWrite = 2
)

type lintFunc struct {
	decl    *ast.FuncDecl
	recvTyp string          // receiver type name ("" for plain functions)
	wallets map[string]bool // identifiers of type (*)SingleAddressWallet in scope (receiver, parameters)
	helpers map[string]bool // identifiers of the helper type
	eff     int             // effect of the whole body
	locks   bool            // takes the wallet mutex itself
	pos     token.Position
}

type linter struct {
	fset    *token.FileSet
	funcs   map[string]*lintFunc // "Type.method" or "func"
	guarded string               // field of SingleAddressWallet holding the reservations
	mutex   string               // field of SingleAddressWallet that is the mutex
	helper  string               // named type of the guarded field ("" if it is a map)
}

func typeName(e ast.Expr) string {
	switch t := e.(type) {
	case *ast.StarExpr:
		return typeName(t.X)
	case *ast.Ident:
		return t.Name
	case *ast.SelectorExpr:
		return typeName(t.X) + "." + t.Sel.Name
	}
	return ""
}

// root strips index, selector, star and paren expressions and reports whether
// the expression is rooted at <wallet>.<guarded> or at <helper>.<field>.
func (l *linter) rooted(f *lintFunc, e ast.Expr) bool {
	for {
		switch t := e.(type) {
		case *ast.ParenExpr:
			e = t.X
		case *ast.StarExpr:
			e = t.X
		case *ast.IndexExpr:
			e = t.X
		case *ast.SliceExpr:
			e = t.X
		case *ast.SelectorExpr:
			if id, ok := t.X.(*ast.Ident); ok {
				if f.wallets[id.Name] && t.Sel.Name == l.guarded {
					return true
				}
				if f.helpers[id.Name] {
					return true // any field of the helper type is reservation state
				}
			}
			e = t.X
		default:
			return false
		}
	}
}

// container: the expression denotes the reservation container itself (not an
// element read out of it), so handing it to a function may let that function write it.
func (l *linter) container(f *lintFunc, e ast.Expr) bool {
	for {
		switch t := e.(type) {
		case *ast.ParenExpr:
			e = t.X
		case *ast.StarExpr:
			e = t.X
		case *ast.UnaryExpr:
			e = t.X
		case *ast.SelectorExpr:
			return l.rooted(f, t)
		default:
			return false
		}
	}
}

// isMuCall: <wallet>.<mutex>.<method>()
func (l *linter) isMuCall(f *lintFunc, e ast.Expr, methods ...string) bool {
	call, ok := e.(*ast.CallExpr)
	if !ok {
		return false
	}
	sel, ok := call.Fun.(*ast.SelectorExpr)
	if !ok {
		return false
	}
	okm := false
	for _, m := range methods {
		okm = okm || sel.Sel.Name == m
	}
	mu, ok := sel.X.(*ast.SelectorExpr)
	if !okm || !ok || mu.Sel.Name != l.mutex {
		return false
	}
	id, ok := mu.X.(*ast.Ident)
	return ok && f.wallets[id.Name]
}

// effect of a node inside function f, given the current effects of all functions.
func (l *linter) effect(f *lintFunc, n ast.Node) int {
	eff := effNone
	up := func(e int) {
		if e > eff {
			eff = e
		}
	}
	ast.Inspect(n, func(x ast.Node) bool {
		switch t := x.(type) {
		case *ast.AssignStmt:
			for _, lhs := range t.Lhs {
				if l.rooted(f, lhs) {
					up(effWrite)
				}
			}
		case *ast.IncDecStmt:
			if l.rooted(f, t.X) {
				up(effWrite)
			}
		case *ast.UnaryExpr:
			if t.Op == token.AND && l.rooted(f, t.X) {
				up(effWrite)
			}
		case *ast.CallExpr:
			switch fun := t.Fun.(type) {
			case *ast.Ident:
				switch fun.Name {
				case "delete", "clear":
					if len(t.Args) > 0 && l.rooted(f, t.Args[0]) {
						up(effWrite)
					}
				case "len", "cap":
				default:
					// the reservation state handed to some other function: assume the worst
					for _, a := range t.Args {
						if l.container(f, a) {
							up(effWrite)
						}
					}
					if g := l.funcs[fun.Name]; g != nil && !g.locks {
						for _, a := range t.Args {
							if id, ok := a.(*ast.Ident); ok && (f.wallets[id.Name] || f.helpers[id.Name]) {
								up(g.eff)
							}
						}
					}
				}
			case *ast.SelectorExpr:
				// <wallet>.<guarded>.m(...)  or  <helper>.m(...)
				if l.helper != "" {
					viaField := l.rooted(f, fun.X)
					viaIdent := false
					if id, ok := fun.X.(*ast.Ident); ok && f.helpers[id.Name] {
						viaIdent = true
					}
					if viaField || viaIdent {
						if g := l.funcs[l.helper+"."+fun.Sel.Name]; g != nil {
							up(g.eff)
						} else if viaField {
							up(effWrite) // unknown method on the reservation state
						}
					}
				}
				// <wallet>.m(...)
				if id, ok := fun.X.(*ast.Ident); ok && f.wallets[id.Name] {
					if g := l.funcs["SingleAddressWallet."+fun.Sel.Name]; g != nil && !g.locks {
						up(g.eff)
					}
				}
				for _, a := range t.Args {
					if l.container(f, a) {
						up(effWrite)
					}
				}
			}
		case *ast.SelectorExpr:
			if l.rooted(f, t) {
				up(effRead)
			}
		}
		return true
	})
	return eff
}

func lintWallet(c *hx.Ctx) {
	dir := filepath.Join(c.Repo, "wallet")
	ents, err := os.ReadDir(dir)
	if err != nil {
		c.Res.Notes = append(c.Res.Notes, "lint not applicable on this tree: "+err.Error())
		return
	}
	l := &linter{fset: token.NewFileSet(), funcs: map[string]*lintFunc{}}
	var files []*ast.File
	for _, ent := range ents {
		name := ent.Name()
		if ent.IsDir() || !strings.HasSuffix(name, ".go") || strings.HasSuffix(name, "_test.go") {
			continue
		}
		file, err := parser.ParseFile(l.fset, filepath.Join(dir, name), nil, parser.ParseComments)
		if err != nil {
			c.Res.Notes = append(c.Res.Notes, "lint: "+name+" cannot be parsed: "+err.Error())
			continue
		}
		if file.Name.Name != "wallet" {
			continue
		}
		files = append(files, file)
		c.Res.Count("lint:files-parsed")
	}
	// the wallet struct: its mutex and the field holding the reservations
	for _, file := range files {
		ast.Inspect(file, func(x ast.Node) bool {
			ts, ok := x.(*ast.TypeSpec)
			if !ok || ts.Name.Name != "SingleAddressWallet" {
				return true
			}
			st, ok := ts.Type.(*ast.StructType)
			if !ok {
				return true
			}
			for _, fld := range st.Fields.List {
				tn := typeName(fld.Type)
				for _, nm := range fld.Names {
					if (tn == "sync.Mutex" || tn == "sync.RWMutex") && (l.mutex == "" || nm.Name == "mu") {
						l.mutex = nm.Name
					}
					if nm.Name == "locked" {
						l.guarded = nm.Name
						if _, isMap := fld.Type.(*ast.MapType); !isMap {
							l.helper = tn
						}
					}
				}
			}
			return false
		})
	}
	if l.guarded == "" || l.mutex == "" {
		c.Res.Notes = append(c.Res.Notes, fmt.Sprintf("lint not applicable on this tree: SingleAddressWallet has reservation field %q and mutex field %q; relying on the concurrent soak", l.guarded, l.mutex))
		c.Res.Count("lint:not-applicable")
		return
	}
	// all functions of the package
	for _, file := range files {
		for _, d := range file.Decls {
			fd, ok := d.(*ast.FuncDecl)
			if !ok || fd.Body == nil {
				continue
			}
			f := &lintFunc{decl: fd, wallets: map[string]bool{}, helpers: map[string]bool{}, pos: l.fset.Position(fd.Pos())}
			bind := func(fl *ast.FieldList) {
				if fl == nil {
					return
				}
				for _, p := range fl.List {
					tn := typeName(p.Type)
					for _, nm := range p.Names {
						if tn == "SingleAddressWallet" {
							f.wallets[nm.Name] = true
						} else if l.helper != "" && tn == l.helper {
							f.helpers[nm.Name] = true
						}
					}
				}
			}
			key := fd.Name.Name
			if fd.Recv != nil && len(fd.Recv.List) == 1 {
				f.recvTyp = typeName(fd.Recv.List[0].Type)
				key = f.recvTyp + "." + fd.Name.Name
			}
			bind(fd.Recv)
			bind(fd.Type.Params)
			ast.Inspect(fd.Body, func(x ast.Node) bool {
				if e, ok := x.(ast.Expr); ok && l.isMuCall(f, e, "Lock", "RLock") {
					f.locks = true
				}
				return true
			})
			l.funcs[key] = f
		}
	}
	// effects to a fixed point (helper extraction of any depth)
	for changed, rounds := true, 0; changed && rounds < 20; rounds++ {
		changed = false
		for _, f := range l.funcs {
			if e := l.effect(f, f.decl.Body); e != f.eff {
				f.eff, changed = e, true
			}
		}
	}
	keys := make([]string, 0, len(l.funcs))
	for k := range l.funcs {
		keys = append(keys, k)
	}
	sort.Strings(keys)
	var touching []string
	for _, k := range keys {
		f := l.funcs[k]
		c.Res.Count("lint:functions-analysed")
		if f.recvTyp == l.helper && l.helper != "" {
			c.Res.Count("lint:helper-type-methods")
		}
		if f.eff == effNone {
			continue
		}
		c.Res.Count("lint:functions-touching-reservations")
		touching = append(touching, fmt.Sprintf("%s(%s)", k, []string{"", "r", "w"}[f.eff]))
		if len(f.wallets) == 0 {
			continue // methods of the helper type run under the wallet's lock of their callers
		}
		tie := func(kind, why string) {
			c.Res.BreakTie(kind, fmt.Sprintf("%s %s (%s)", k, why, f.pos))
		}
		body := f.decl.Body.List
		if !f.locks {
			if f.decl.Name.IsExported() || f.recvTyp == "" {
				tie("lint-unlocked-access", fmt.Sprintf("%s the reservation state without taking the wallet mutex", []string{"", "reads", "writes"}[f.eff]))
			} else {
				c.Res.Count("lint:helpers-under-callers-lock")
			}
			continue
		}
		c.Res.Count("lint:locking-methods-checked")
		at, read := -1, false
		for i, st := range body {
			es, ok := st.(*ast.ExprStmt)
			if !ok || i+1 >= len(body) {
				continue
			}
			ds, ok := body[i+1].(*ast.DeferStmt)
			if !ok {
				continue
			}
			if l.isMuCall(f, es.X, "Lock") && l.isMuCall(f, ds.Call, "Unlock") {
				at = i
				break
			}
			if l.isMuCall(f, es.X, "RLock") && l.isMuCall(f, ds.Call, "RUnlock") {
				at, read = i, true
				break
			}
		}
		if at < 0 {
			tie("lint-unlocked-access", "does not take the wallet mutex with a deferred unlock at the top level of its body")
			continue
		}
		for _, st := range body[:at] {
			if l.effect(f, st) != effNone {
				tie("lint-unlocked-access", "touches the reservation state before taking the wallet mutex")
			}
		}
		unlocks := 0
		ast.Inspect(f.decl.Body, func(x ast.Node) bool {
			if e, ok := x.(ast.Expr); ok && l.isMuCall(f, e, "Unlock", "RUnlock") {
				unlocks++
			}
			return true
		})
		if unlocks != 1 {
			tie("lint-unlocked-access", "releases the wallet mutex in the middle of the call")
		}
		if read {
			c.Res.Count("lint:read-locked-methods")
			if f.eff == effWrite {
				tie("lint-write-under-read-lock", "writes the reservation state (directly or through a helper) while holding only the read lock")
			}
		} else {
			c.Res.Count("lint:write-locked-methods")
		}
	}
	c.Res.Notes = append(c.Res.Notes, fmt.Sprintf("lint: reservation field %q (helper type %q), mutex %q; functions with an effect on it: %s", l.guarded, l.helper, l.mutex, strings.Join(touching, " ")))
}
