package main

// Dimensions added by the generalisation pass (seeded/LESSONS.md):
//   - wrappers around the interfaces the wallet already takes (ChainManager,
//     SingleAddressStore, Syncer): at a chosen call made by the wallet *inside* an
//     exported method, either another goroutine starts a wallet call (a pinned
//     interleaving, class 2) or the call fails (an abort point, class 3);
//   - stretches of operations without any read call, and each read API in turn
//     as the first call after such a stretch (class 1);
//   - illegal and extreme arguments (class 4), re-use of an already funded
//     transaction object (class 5), partial expiry (class 7).

import (
	"errors"
	"fmt"
	"sync"
	"time"

	"go.sia.tech/core/types"
	"go.sia.tech/coreutils/chain"
	"go.sia.tech/coreutils/testutil"
	"go.sia.tech/coreutils/wallet"
)

// hooks: one armed event on one named interface call.
type hooks struct {
	mu    sync.Mutex
	at    string
	fn    func() error
	fired bool
}

func (h *hooks) arm(at string, fn func() error) {
	h.mu.Lock()
	h.at, h.fn, h.fired = at, fn, false
	h.mu.Unlock()
}

func (h *hooks) disarm() (fired bool) {
	h.mu.Lock()
	defer h.mu.Unlock()
	h.fn = nil
	return h.fired
}

func (h *hooks) hit(name string) error {
	h.mu.Lock()
	if h.fn == nil || h.at != name {
		h.mu.Unlock()
		return nil
	}
	fn := h.fn
	h.fn, h.fired = nil, true
	h.mu.Unlock()
	return fn()
}

var errInjected = errors.New("injected failure")

type hookCM struct {
	*chain.Manager
	h *hooks
}

func (c hookCM) PoolTransactions() []types.Transaction {
	c.h.hit("PoolTransactions")
	return c.Manager.PoolTransactions()
}
func (c hookCM) V2PoolTransactions() []types.V2Transaction {
	c.h.hit("V2PoolTransactions")
	return c.Manager.V2PoolTransactions()
}
func (c hookCM) V2TransactionSet(basis types.ChainIndex, txn types.V2Transaction) (types.ChainIndex, []types.V2Transaction, error) {
	if err := c.h.hit("V2TransactionSet"); err != nil {
		return types.ChainIndex{}, nil, err
	}
	return c.Manager.V2TransactionSet(basis, txn)
}
func (c hookCM) AddV2PoolTransactions(basis types.ChainIndex, txns []types.V2Transaction) (bool, error) {
	if err := c.h.hit("AddV2PoolTransactions"); err != nil {
		return false, err
	}
	return c.Manager.AddV2PoolTransactions(basis, txns)
}

type hookStore struct {
	*testutil.EphemeralWalletStore
	h *hooks
}

func (s hookStore) UnspentSiacoinElements() (types.ChainIndex, []types.SiacoinElement, error) {
	if err := s.h.hit("UnspentSiacoinElements"); err != nil {
		return types.ChainIndex{}, nil, err
	}
	return s.EphemeralWalletStore.UnspentSiacoinElements()
}
func (s hookStore) AddBroadcastedSet(set wallet.BroadcastedSet) error {
	if err := s.h.hit("AddBroadcastedSet"); err != nil {
		return err
	}
	return s.EphemeralWalletStore.AddBroadcastedSet(set)
}

type hookSyncer struct {
	*testutil.MockSyncer
	h *hooks
}

func (s hookSyncer) BroadcastV2TransactionSet(index types.ChainIndex, txns []types.V2Transaction) error {
	if err := s.h.hit("BroadcastV2TransactionSet"); err != nil {
		return err
	}
	return s.MockSyncer.BroadcastV2TransactionSet(index, txns)
}

// newWallet builds the wallet over the hooked interfaces.
func (e *env) newWallet() (*wallet.SingleAddressWallet, error) {
	if e.hk == nil {
		e.hk = &hooks{}
	}
	return wallet.NewSingleAddressWallet(e.pk, hookCM{e.cm, e.hk}, hookStore{e.ws, e.hk}, hookSyncer{e.syncer, e.hk}, e.spec.Cfg.opts()...)
}

// ---- class 1: stretches without reads ----

func (e *env) doBlind() {
	if e.lagging() {
		return
	}
	// the last look before the stretch; symbolic amounts inside refer to it
	e.blindExp, e.blindSum = e.expected(e.clock())
	e.blind = true
	e.stats["blind:stretches"]++
}

// doUnblind ends the stretch: the first read call after it is the one named.
func (e *env) doUnblind(o opSpec) {
	if !e.blind {
		return
	}
	first := o.First
	e.stats["blind:first-read="+first]++
	switch first {
	case "fund":
		e.doFund(opSpec{Kind: "fund", V2: true, Amount: "p1"})
	case "fund-v1":
		e.doFund(opSpec{Kind: "fund", V2: false, Amount: "p2"})
	case "redist":
		e.doRedist(opSpec{Kind: "redist", Outputs: 2, Amount: "3" + unit, FeePerB: "0"})
	case "split":
		e.doSplit(opSpec{Kind: "split", N: 3, Min: "7" + unit})
	case "outputs":
		e.outsFirst = true
	}
	e.blind = false
	t := e.begin()
	e.trace = append(e.trace, "(Tick 0, None)")
	e.observe("RUnit", t, false)
}

// ---- class 7: partial expiry ----

func (e *env) doPause(o opSpec) {
	time.Sleep(time.Duration(o.Ms) * time.Millisecond)
}

// doSleepPartial waits until the oldest reservation has run out while a newer one
// is still in force (short reservation period only).
func (e *env) doSleepPartial() {
	if !e.spec.Cfg.Short || len(e.reserved) < 2 {
		e.stats["skip:sleep-partial"]++
		return
	}
	now := e.clock()
	var oldest, newest time.Duration = 1 << 62, 0
	for _, r := range e.reserved {
		if now < r.lo+shortResv {
			oldest, newest = min(oldest, r.hi), max(newest, r.lo)
		}
	}
	if newest-oldest < 6*margin {
		e.stats["skip:sleep-partial"]++
		return
	}
	if d := oldest + shortResv + 2*margin - e.clock(); d > 0 {
		time.Sleep(d)
	}
	t := e.begin()
	e.trace = append(e.trace, "(Tick 0, None)")
	e.stats["sleep:partial"]++
	e.observe("RUnit", t, false)
}

// ---- class 4: calls about transactions the wallet never funded ----

func (e *env) doReleaseForeign(o opSpec) {
	t := e.begin()
	var ids []types.SiacoinOutputID
	for i := 0; i < o.N; i++ {
		ids = append(ids, types.SiacoinOutputID{0xF0, byte(i), byte(len(e.trace)), byte(len(e.trace) >> 8)})
	}
	v1 := types.Transaction{}
	v2 := types.V2Transaction{}
	for i, id := range ids {
		if i%2 == 0 {
			v1.SiacoinInputs = append(v1.SiacoinInputs, types.SiacoinInput{ParentID: id})
		} else {
			v2.SiacoinInputs = append(v2.SiacoinInputs, types.V2SiacoinInput{Parent: types.SiacoinElement{ID: id}})
		}
	}
	switch {
	case o.N == 0 && o.V2:
		e.w.ReleaseInputs(nil, nil)
	case o.N == 0:
		e.w.ReleaseInputs([]types.Transaction{{}}, []types.V2Transaction{{}})
	default:
		e.w.ReleaseInputs([]types.Transaction{v1}, []types.V2Transaction{v2})
	}
	e.trace = append(e.trace, fmt.Sprintf("(Release %s, None)", nlist(e.aids(ids))))
	e.stats["extreme:release-of-unknown-or-empty-transactions"]++
	e.observe("RUnit", t, false)
}

// ---- class 3: an interface call of the wallet fails in the middle of a call ----

func (e *env) doFault(o opSpec) {
	if o.Sub == nil || e.blind {
		return
	}
	sub := *o.Sub
	t := e.begin()
	before := e.poolIDs()
	or := e.takeOracle(t)
	e.hk.arm(o.At, func() error { return errInjected })
	var failed, panicked bool
	var finish func()
	switch sub.Kind {
	case "fund":
		amount := e.resolve(sub.Amount, t)
		raw := e.callFund(sub, amount, len(e.funded), nil)
		failed, panicked = raw.err != nil, raw.panicked != nil
		finish = func() { e.finishFund(sub, amount, or, raw, nil) }
	case "redist":
		amount, fpb := e.redistAmount(sub, t)
		raw := e.callRedist(sub.Outputs, amount, fpb)
		failed, panicked = raw.err != nil, raw.panicked != nil
		finish = func() { e.finishRedist(sub, amount, fpb, or, raw) }
	case "split":
		minAmt := e.resolve(sub.Min, t)
		fee := e.w.RecommendedFee().Mul64(2000)
		raw := e.callSplit(sub.N, minAmt)
		failed, panicked = raw.err != nil, raw.panicked != nil
		finish = func() { e.finishSplit(sub, minAmt, fee, or, raw) }
	default:
		e.hk.disarm()
		return
	}
	fired := e.hk.disarm()
	e.stats["fault"]++
	if !fired {
		// the wallet never made that call in this state: an ordinary call
		e.stats["fault:call-not-reached"]++
		finish()
		return
	}
	e.stats["fault:at="+o.At]++
	if panicked {
		e.fail("wallet-panic", "%s panicked when %s failed", sub.Kind, o.At)
	}
	if !failed {
		// the wallet treats this failure as not fatal (the broadcast set could not be persisted)
		e.stats["fault:call-succeeded-anyway"]++
		finish()
		return
	}
	// the call failed: whatever it did to the pool stays (the transaction was already
	// submitted), but it must not hold any reservation
	e.stats["fault:call-failed"]++
	for _, txn := range e.cm.V2PoolTransactions() {
		if !before[txn.ID()] {
			rec := e.recordV2(txn)
			e.trace = append(e.trace, fmt.Sprintf("(PoolAdd (%s), None)", e.ptxCoq(rec)))
			e.stats["fault:transaction-already-in-pool"]++
		}
	}
	e.trace = append(e.trace, "(Tick 0, None)")
	e.observe("RUnit", t, true)
}

// ---- class 2: another goroutine calls the wallet in the middle of a call ----

// doWindow runs o.Sub; when the wallet, inside it, reaches the interface call o.At,
// another goroutine starts o.Inner and is given a moment to run. Afterwards both
// calls are judged in the order in which they took effect, and everything held
// must be pairwise disjoint.
func (e *env) doWindow(o opSpec) {
	if o.Sub == nil || o.Inner == nil || e.blind || e.spec.Cfg.Short {
		return
	}
	sub, inner := *o.Sub, *o.Inner
	t := e.begin()
	or := e.takeOracle(t)
	var innerAmount types.Currency
	var innerTarget *fundedTx
	switch inner.Kind {
	case "fund":
		innerAmount = e.resolve(inner.Amount, t)
	case "release":
		innerTarget = e.refTx(inner.Ref)
		if innerTarget == nil || innerTarget.inPool || innerTarget.released {
			return
		}
	default:
		return
	}
	tag := len(e.funded)
	done := make(chan struct{})
	var innerRaw fundRaw
	insideWindow := false
	e.hk.arm(o.At, func() error {
		go func() {
			defer close(done)
			if inner.Kind == "fund" {
				innerRaw = e.callFund(inner, innerAmount, tag+100, nil)
			} else if innerTarget.v2 {
				e.w.ReleaseInputs(nil, []types.V2Transaction{innerTarget.v2txn})
			} else {
				e.w.ReleaseInputs([]types.Transaction{innerTarget.v1txn}, nil)
			}
		}()
		select { // the moment the other goroutine gets
		case <-done:
			insideWindow = true
		case <-time.After(3 * time.Millisecond):
		}
		return nil
	})
	var finishOuter func(or *oracle)
	switch sub.Kind {
	case "fund":
		amount := e.resolve(sub.Amount, t)
		raw := e.callFund(sub, amount, tag, nil)
		finishOuter = func(or *oracle) { e.finishFund(sub, amount, or, raw, nil) }
	case "redist":
		amount, fpb := e.redistAmount(sub, t)
		raw := e.callRedist(sub.Outputs, amount, fpb)
		finishOuter = func(or *oracle) { e.finishRedist(sub, amount, fpb, or, raw) }
	case "split":
		minAmt := e.resolve(sub.Min, t)
		fee := e.w.RecommendedFee().Mul64(2000)
		raw := e.callSplit(sub.N, minAmt)
		finishOuter = func(or *oracle) {
			for _, in := range raw.txn.SiacoinInputs {
				delete(or.spent, in.Parent.ID)
			}
			for i := range raw.txn.SiacoinOutputs {
				delete(or.created, raw.txn.EphemeralSiacoinOutput(i).ID)
			}
			e.finishSplit(sub, minAmt, fee, or, raw)
		}
	default:
		e.hk.disarm()
		return
	}
	fired := e.hk.disarm()
	e.stats["window"]++
	if !fired {
		e.stats["window:call-not-reached"]++
		finishOuter(or)
		return
	}
	select {
	case <-done:
	case <-time.After(5 * time.Second):
		e.fail("wallet-deadlock", "a %s started while %s was inside %s did not return within 5 s", inner.Kind, sub.Kind, o.At)
		finishOuter(or)
		return
	}
	e.stats["window:at="+o.At]++
	e.stats["window:"+sub.Kind+"+"+inner.Kind]++
	finishInner := func(or *oracle) {
		if inner.Kind == "fund" {
			e.finishFund(inner, innerAmount, or, innerRaw, nil)
			return
		}
		rel := map[types.SiacoinOutputID]bool{}
		for _, id := range innerTarget.txInputs {
			rel[id] = true
			delete(e.reserved, id)
			e.releasedIDs[id] = true
		}
		for _, g := range e.funded {
			for _, id := range g.inputs {
				if rel[id] {
					g.released = true
				}
			}
		}
		innerTarget.released = true
		e.trace = append(e.trace, fmt.Sprintf("(Release %s, None)", nlist(e.aids(innerTarget.txInputs))))
		e.stats["release"]++
		e.observe("RUnit", or.t, false)
	}
	if insideWindow {
		// the inner call returned while the outer call was still inside the interface call:
		// it did not have to wait. That alone is no violation; it is judged first and the
		// case is not given to the model (which knows whole calls only).
		e.stats["window:inner-returned-inside-the-window"]++
		e.dropCoq = true
		e.noViews = true
		finishInner(or)
		e.noViews = false
		finishOuter(e.takeOracle(e.begin()))
	} else {
		e.stats["window:inner-waited-for-the-outer-call"]++
		e.noViews = true
		finishOuter(or)
		e.noViews = false
		finishInner(e.takeOracle(e.begin()))
	}
	// whatever the order: nothing may be held twice now
	now := e.clock()
	out := e.outstanding(now)
	holder := map[types.SiacoinOutputID]*fundedTx{}
	for _, f := range out {
		for _, id := range f.inputs {
			if g, ok := holder[id]; ok && g != f {
				e.fail("outstanding-overlap", "after %s with a concurrent %s at %s, output %d is an input of two un-released funded transactions", sub.Kind, inner.Kind, o.At, e.aid(id))
			}
			holder[id] = f
		}
	}
}
