package main

// C07: wallet funding never double-allocates, conserves value, and yields valid spends.
//
// A real wallet.SingleAddressWallet over a real chain.Manager is driven through
// generated states (mined, immature, reserved, spent by v1/v2 pool transactions,
// unconfirmed outputs), every combination of the public options from a small
// grid, and amounts 0, 1, every prefix sum of the spendable values +-1, exactly
// the balance and balance+1.  Monitors (ops.go) judge every call against the
// harness' own ledger; the abstract cases go to Coq (Run/Run_C07.v) where the
// model of Wallet/Fund.v must return the same selections, change, errors,
// Balance() and SpendableOutputs().

import (
	"encoding/json"
	"fmt"
	"os"
	"runtime/debug"
	"sort"
	"strings"
	"sync"

	"go.sia.tech/core/types"
	"verif/harness/internal/hx"
	"verif/harness/internal/rng"
)

func main() { hx.Main("C07", runC07) }

type setupSpec struct {
	Values   []string `json:"values"`   // mature outputs (hastings)
	Immature int      `json:"immature"` // blocks mined to the wallet afterwards
	Seed     uint64   `json:"seed"`     // wallet key
}

type caseSpec struct {
	Name    string    `json:"name"`
	Cfg     cfgSpec   `json:"options"`
	Setup   setupSpec `json:"setup"`
	Ops     []opSpec  `json:"ops"`
	ByValue bool      `json:"compareByValue,omitempty"`
	Probe   bool      `json:"probeAfterFailure,omitempty"`
}

type caseResult struct {
	spec    caseSpec
	coq     string
	fails   []failure
	stats   map[string]int
	tainted bool
	err     error
	steps   int
}

func (e *env) exec(o opSpec) (failed bool, err error) {
	switch o.Kind {
	case "fund":
		failed = e.doFund(o)
		if !failed && o.ThenRelease {
			e.doRelease(opSpec{Ref: -1})
		}
	case "release":
		e.doRelease(o)
	case "broadcast":
		e.doBroadcast(o)
	case "mine":
		err = e.doMine(o)
	case "restart":
		err = e.doRestart(o)
	case "sleep":
		e.doSleep(o)
	case "pause":
		e.doPause(o)
	case "blind":
		e.doBlind()
	case "unblind":
		e.doUnblind(o)
	case "fault":
		e.doFault(o)
	case "window":
		e.doWindow(o)
	case "release-foreign":
		e.doReleaseForeign(o)
	case "lag":
		err = e.doLag(o)
	case "sync":
		err = e.doSync()
	case "redist":
		failed = e.doRedist(o)
	case "split":
		failed = e.doSplit(o)
	default:
		err = fmt.Errorf("unknown op %q", o.Kind)
	}
	return
}

func runCase(spec caseSpec) (res caseResult) {
	res.spec = spec
	defer func() {
		if r := recover(); r != nil {
			res.fails = append(res.fails, failure{"wallet-panic", fmt.Sprint(r) + "\n" + string(debug.Stack())})
		}
	}()
	e, err := newEnv(spec)
	if err != nil {
		res.err = err
		return
	}
	defer e.close()
	if err := e.setup(); err != nil {
		res.err = err
		return
	}
	// initial abstract state
	type iu struct {
		id  uint64
		val string
		mat uint64
	}
	var us []iu
	for id, le := range e.ledger {
		us = append(us, iu{e.aid(id), zlit(le.val), le.mat})
	}
	sort.Slice(us, func(i, j int) bool { return us[i].id < us[j].id })
	ustr := make([]string, len(us))
	for i, u := range us {
		ustr[i] = fmt.Sprintf("mk_utxo %d %s %d", u.id, u.val, u.mat)
	}
	header := fmt.Sprintf("mk_case (mk_cfg %s %s %d %d) %d [%s] [] [] %s", zint(spec.Cfg.Thresh), zint(spec.Cfg.MaxIn), spec.Cfg.MaxDefrag,
		e.us(spec.Cfg.resv()), e.height(), strings.Join(ustr, "; "), coqBool(spec.ByValue))
	e.trace = append(e.trace, "(Tick 0, None)")
	e.observe("RUnit", 0, false)
	for _, o := range spec.Ops {
		failed, err := e.exec(o)
		if err != nil {
			res.err = err
			break
		}
		if failed && spec.Probe {
			// "a failed request reserves nothing", observed through a fund of everything spendable
			_, sum := e.expected(e.clock())
			if !sum.IsZero() {
				e.exec(opSpec{Kind: "fund", V2: true, Amount: "bal", ThenRelease: true, probe: true})
			}
		}
	}
	res.coq = header + "\n  [" + strings.Join(e.trace, ";\n   ") + "]"
	res.fails = append(res.fails, e.fails...)
	res.stats = e.stats
	res.tainted = e.tainted || e.dropCoq
	res.steps = len(e.trace)
	return
}

// ---- generators ----

var unit = "00000000000000000000" // 1e20 hastings; SplitUTXO's fee estimate is 2e20

func genSetup(r *rng.R, ties bool, maxN int) setupSpec {
	n := r.Intn(maxN + 1)
	if r.Chance(3, 4) && n < 3 {
		n = 3 + r.Intn(maxN-2)
	}
	var vals []string
	if ties {
		base := []int{5, 10, 10, 20, 20, 20, 40}
		for i := 0; i < n; i++ {
			vals = append(vals, fmt.Sprint(base[r.Intn(len(base))])+unit)
		}
	} else {
		used := map[int]bool{}
		for len(vals) < n {
			k := 1 + r.Intn(400)
			if r.Chance(1, 5) {
				k = 1 + r.Intn(4) // around the split fee
			}
			if used[k] {
				continue
			}
			used[k] = true
			vals = append(vals, fmt.Sprint(k)+unit)
		}
	}
	return setupSpec{Values: vals, Immature: r.Intn(3), Seed: r.U64()}
}

func gridCfg(i int) cfgSpec {
	th := []int{0, 1, 3, 30}
	mi := []int{0, 2, 5, 30}
	md := []int{0, 1, 2, 10}
	i = (i * 37) % 128
	return cfgSpec{Thresh: th[i%4], MaxIn: mi[(i/4)%4], MaxDefrag: md[(i/16)%4], Short: (i/64)%2 == 1}
}

func prefixOps(r *rng.R) []opSpec {
	var ops []opSpec
	for k := r.Intn(4); k > 0; k-- {
		amt := fmt.Sprintf("p%d", 1+r.Intn(2))
		switch r.Intn(5) {
		case 0:
			ops = append(ops, opSpec{Kind: "fund", V2: r.Bool(), Amount: amt})
		case 1:
			ops = append(ops, opSpec{Kind: "fund", V2: false, Amount: amt + "-1"}, opSpec{Kind: "broadcast", Ref: -1})
		case 2, 3:
			ops = append(ops, opSpec{Kind: "fund", V2: true, Amount: amt + "-1"}, opSpec{Kind: "broadcast", Ref: -1, ViaWallet: r.Bool()})
		case 4:
			ops = append(ops, opSpec{Kind: "mine", ToWallet: r.Bool()})
		}
	}
	if r.Chance(1, 4) {
		ops = append(ops, opSpec{Kind: "restart", NewCM: r.Bool()})
	}
	return ops
}

// gridOps: every amount of the grid, funded and released again.
func gridOps(r *rng.R, n int) []opSpec {
	ops := prefixOps(r)
	amounts := []string{"0", "1", "bal", "bal+1"}
	for k := 1; k <= n; k++ {
		amounts = append(amounts, fmt.Sprintf("p%d-1", k), fmt.Sprintf("p%d", k), fmt.Sprintf("p%d+1", k))
	}
	v2 := r.Bool()
	for _, a := range amounts {
		o := opSpec{Kind: "fund", V2: v2, Amount: a, ThenRelease: true}
		v2 = !v2
		if r.Chance(1, 4) {
			o.Unc = true
		}
		if r.Chance(1, 5) {
			o.Existing = 1 + r.Intn(4)
		}
		ops = append(ops, o)
	}
	return ops
}

func randomAmount(r *rng.R) string {
	switch r.Intn(10) {
	case 0:
		return "0"
	case 1:
		return "bal"
	case 2:
		return "bal+1"
	case 3:
		return "1"
	case 4:
		return fmt.Sprint(1+r.Intn(300)) + unit
	}
	k := 1 + r.Intn(5)
	return fmt.Sprintf("p%d%s", k, []string{"", "-1", "+1"}[r.Intn(3)])
}

func randomOps(r *rng.R, short, ties bool, thresh int) []opSpec {
	n := 8 + r.Intn(22)
	var ops []opSpec
	for len(ops) < n {
		x := r.Intn(100)
		if thresh >= 3 && !ties && x < 10 {
			x = 80 // SplitUTXO can only succeed with n <= DefragThreshold: ask more often there
		}
		switch {
		case x < 36:
			o := opSpec{Kind: "fund", V2: r.Bool(), Amount: randomAmount(r), Unc: r.Chance(1, 3)}
			if r.Chance(1, 6) {
				o.Existing = 1 + r.Intn(3)
			}
			ops = append(ops, o)
		case x < 48:
			ops = append(ops, opSpec{Kind: "release", Ref: -1 - r.Intn(3)})
		case x < 62:
			ops = append(ops, opSpec{Kind: "broadcast", Ref: -1 - r.Intn(2), ViaWallet: r.Bool()})
		case x < 72:
			ops = append(ops, opSpec{Kind: "mine", ToWallet: r.Chance(1, 3)})
		case x < 79 && !ties:
			fee := "0"
			if r.Bool() {
				fee = "10000000000000000" // 1e16 H per byte
			}
			ops = append(ops, opSpec{Kind: "redist", Outputs: 1 + r.Intn(14), Amount: fmt.Sprint(1+r.Intn(40)) + unit, FeePerB: fee})
		case x < 86 && !ties:
			o := opSpec{Kind: "split", N: r.Intn(6), Min: fmt.Sprint(r.Intn(30)) + unit}
			if r.Chance(3, 4) {
				o.N = 2 + r.Intn(max(1, min(thresh-1, 8)))
				o.Min = fmt.Sprintf("d%d", o.N+2+r.Intn(8))
			}
			ops = append(ops, o)
		case x < 91:
			ops = append(ops, opSpec{Kind: "restart", NewCM: r.Bool()})
		case x < 96 && short:
			ops = append(ops, opSpec{Kind: "sleep"})
		case x >= 96 && x < 99 && !short:
			ops = append(ops, opSpec{Kind: "lag", Blocks: []int{1, 2, 5, 12}[r.Intn(4)], ToWallet: r.Bool()})
		case x >= 99:
			ops = append(ops, opSpec{Kind: "sync"})
		}
	}
	return ops
}

// lagOps: the wallet store is left k blocks behind the manager (k in 1, 5, 40;
// the blocks confirm wallet transactions and pay the wallet, so the accumulator
// changes around the wallet's elements); every kind of funding call is made in
// that window, signed and submitted with the basis it returned.
func lagOps(r *rng.R, k int) []opSpec {
	var ops []opSpec
	if r.Chance(2, 3) {
		ops = append(ops, opSpec{Kind: "fund", V2: true, Amount: "p1-1"}, opSpec{Kind: "broadcast", Ref: -1, ViaWallet: r.Bool()})
	}
	if r.Chance(1, 3) {
		ops = append(ops, opSpec{Kind: "fund", V2: false, Amount: "p1-1"}, opSpec{Kind: "broadcast", Ref: -1})
	}
	if r.Chance(1, 3) {
		ops = append(ops, opSpec{Kind: "fund", V2: true, Amount: "p1"}) // held across the window, submitted inside it
	}
	ops = append(ops, opSpec{Kind: "lag", Blocks: k, ToWallet: r.Bool()})
	if len(ops) > 1 && ops[len(ops)-2].Kind == "fund" {
		ops = append(ops, opSpec{Kind: "broadcast", Ref: -1})
	}
	ops = append(ops,
		opSpec{Kind: "fund", V2: true, Amount: fmt.Sprintf("p%d", 1+r.Intn(2))}, opSpec{Kind: "broadcast", Ref: -1, ViaWallet: r.Bool()},
		opSpec{Kind: "fund", V2: false, Amount: "p1+1"}, opSpec{Kind: "broadcast", Ref: -1},
		opSpec{Kind: "fund", V2: r.Bool(), Amount: "bal", ThenRelease: true},
		opSpec{Kind: "fund", V2: true, Amount: "bal+1"})
	if r.Bool() {
		ops = append(ops, opSpec{Kind: "redist", Outputs: 1 + r.Intn(3), Amount: fmt.Sprint(1+r.Intn(20)) + unit, FeePerB: "0"}, opSpec{Kind: "broadcast", Ref: -1})
	}
	if r.Bool() {
		n := 2 + r.Intn(2)
		ops = append(ops, opSpec{Kind: "split", N: n, Min: fmt.Sprintf("d%d", n+3+r.Intn(6))})
	}
	if r.Chance(1, 3) {
		ops = append(ops, opSpec{Kind: "lag", Blocks: 1 + r.Intn(3), ToWallet: r.Bool()}, opSpec{Kind: "fund", V2: true, Amount: "p1"}, opSpec{Kind: "broadcast", Ref: -1})
	}
	ops = append(ops, opSpec{Kind: "sync"},
		opSpec{Kind: "fund", V2: true, Amount: "bal", ThenRelease: true},
		opSpec{Kind: "fund", V2: false, Amount: "bal+1"},
		opSpec{Kind: "mine"},
		opSpec{Kind: "fund", V2: true, Amount: "p1"}, opSpec{Kind: "broadcast", Ref: -1})
	return ops
}

// uncOps: most of the wallet's funds sit in unconfirmed outputs of its own pooled
// transactions (each pays 1 hasting away and the rest back to the wallet), the
// confirmed spendable balance is small; then several requests with
// useUnconfirmed=true are outstanding at once (no release, no broadcast between
// them), so each must be served from unconfirmed outputs nobody holds yet.
func uncOps(r *rng.R, n int) []opSpec {
	var ops []opSpec
	v2 := r.Chance(2, 3)
	k := n - r.Intn(2)
	for i := 0; i < k; i++ {
		pv2 := v2
		if r.Chance(1, 6) {
			pv2 = !v2 // a parent of the other version: never a candidate
		}
		ops = append(ops, opSpec{Kind: "fund", V2: pv2, Amount: "1"}, opSpec{Kind: "broadcast", Ref: -1, ViaWallet: r.Bool()})
	}
	if r.Chance(3, 5) {
		// a parent -> child chain in the pool: an unconfirmed output is spent again by a pooled
		// transaction. Its reservation then ends (wallet restart that re-loads the broadcast
		// sets, or the reservation period runs out): only the pool says it is spent
		ops = append(ops, opSpec{Kind: "fund", V2: v2, Amount: "bal+1", Unc: true}, opSpec{Kind: "broadcast", Ref: -1, ViaWallet: v2})
		switch r.Intn(3) {
		case 0:
			ops = append(ops, opSpec{Kind: "restart"})
		case 1:
			ops = append(ops, opSpec{Kind: "restart", NewCM: false}, opSpec{Kind: "sleep"})
		default:
			ops = append(ops, opSpec{Kind: "sleep"}, opSpec{Kind: "restart"})
		}
		ops = append(ops, opSpec{Kind: "fund", V2: v2, Amount: "bal+1", Unc: true}, opSpec{Kind: "fund", V2: v2, Amount: "bal+1", Unc: true, ThenRelease: true})
	}
	for i, m := 0, 2+r.Intn(4); i < m; i++ {
		o := opSpec{Kind: "fund", V2: v2, Amount: []string{"bal+1", "bal+1", "p1+1", "2"}[r.Intn(4)], Unc: true}
		if r.Chance(1, 8) {
			o.V2 = !v2
		}
		ops = append(ops, o)
		if r.Chance(1, 6) {
			ops = append(ops, opSpec{Kind: "fund", V2: v2, Amount: "1", Unc: false})
		}
	}
	if r.Bool() {
		// the largest candidate is an unconfirmed output that an outstanding request holds
		ops = append(ops, opSpec{Kind: "split", N: 3 + r.Intn(3), Min: fmt.Sprintf("U%d", 4+r.Intn(3))})
	}
	ops = append(ops, opSpec{Kind: "release", Ref: -2}, opSpec{Kind: "fund", V2: v2, Amount: "bal+1", Unc: true},
		opSpec{Kind: "broadcast", Ref: -1}, opSpec{Kind: "fund", V2: v2, Amount: "bal+1", Unc: true})
	if r.Bool() {
		ops = append(ops, opSpec{Kind: "mine"}, opSpec{Kind: "fund", V2: v2, Amount: "bal", ThenRelease: true})
	}
	return ops
}

// feeOps: Redistribute over a spread of fee rates (0, 1 H, typical, the manager's
// minimum recommendation, large) with amounts computed so that the change of
// the transaction lands on 0, 1 H, feePerInput-1, feePerInput, feePerInput+1 or
// well above; every returned transaction is signed and submitted.
var feeRates = []string{"0", "1", "10000000000000000", "10000000000000000000", "40000000000000000000"}
var changeTargets = []string{"0", "1", "fpi-1", "fpi", "fpi+1", "big"}

func feeOps(r *rng.R, i int) []opSpec {
	var ops []opSpec
	rate := feeRates[i%len(feeRates)]
	for n := 0; n < 3; n++ {
		c := changeTargets[(i/len(feeRates)+2*n+i)%len(changeTargets)]
		j := 1 + r.Intn(2)
		if c == "0" {
			j = 0 // a change of exactly zero needs every usable output as input
		}
		k := 1
		if r.Chance(1, 3) {
			k = 2 + r.Intn(2)
		}
		ops = append(ops, opSpec{Kind: "redist", Outputs: k, Amount: fmt.Sprintf("R:%d:%s", j, c), FeePerB: rate},
			opSpec{Kind: "broadcast", Ref: -1, ViaWallet: r.Bool()})
		if k > 1 {
			ops = append(ops, opSpec{Kind: "broadcast", Ref: -2})
		}
		ops = append(ops, opSpec{Kind: "mine", ToWallet: r.Chance(1, 4)})
	}
	if r.Bool() {
		n := 2 + r.Intn(2)
		ops = append(ops, opSpec{Kind: "split", N: n, Min: fmt.Sprintf("d%d", n+2+r.Intn(5))}, opSpec{Kind: "mine"})
	}
	ops = append(ops, opSpec{Kind: "redist", Outputs: 11 + r.Intn(4), Amount: fmt.Sprint(1+r.Intn(6)) + unit, FeePerB: rate}, opSpec{Kind: "broadcast", Ref: -1}, opSpec{Kind: "broadcast", Ref: -2})
	return ops
}

// genOps: the dimensions of the generalisation pass, one per case in rotation.
var windowAts = []string{"UnspentSiacoinElements", "PoolTransactions", "V2PoolTransactions", "V2TransactionSet", "AddV2PoolTransactions", "AddBroadcastedSet", "BroadcastV2TransactionSet"}
var firstReads = []string{"balance", "outputs", "fund", "fund-v1", "redist", "split"}

func genOps(r *rng.R, i int, cfg *cfgSpec, nvals int) (name string, ops []opSpec) {
	// a SplitUTXO that gets as far as building and submitting its transaction
	goodSplit := func() opSpec {
		n := nvals + 1 + r.Intn(2)
		return opSpec{Kind: "split", N: n, Min: fmt.Sprintf("d%d", n+3)}
	}
	fundAmt := func() string { return []string{"p1", "p1-1", "p2", "bal", "1"}[r.Intn(5)] }
	switch i % 7 {
	case 0: // class 1: no read call between the operations; then one read API first
		name = "noread"
		cfg.Short = (i/7)%2 == 0
		ops = append(ops, opSpec{Kind: "blind"})
		if cfg.Short {
			// two requests are held, their reservations run out unobserved, then everything is asked for
			ops = append(ops, opSpec{Kind: "fund", V2: r.Bool(), Amount: "p1"}, opSpec{Kind: "fund", V2: false, Amount: "p2"}, opSpec{Kind: "sleep"},
				opSpec{Kind: "fund", V2: r.Bool(), Amount: "bal", ThenRelease: true})
		}
		ops = append(ops, opSpec{Kind: "fund", V2: true, Amount: "p1-1"}, opSpec{Kind: "broadcast", Ref: -1, ViaWallet: r.Bool()},
			opSpec{Kind: "fund", V2: false, Amount: "p2"})
		if r.Bool() {
			ops = append(ops, opSpec{Kind: "release", Ref: -1})
		}
		if cfg.Short {
			ops = append(ops, opSpec{Kind: "sleep"}) // the reservations run out, the pool still spends the first input
		} else {
			ops = append(ops, opSpec{Kind: "mine", ToWallet: r.Bool()})
		}
		ops = append(ops, opSpec{Kind: "fund", V2: r.Bool(), Amount: "p1"}, opSpec{Kind: "fund", V2: true, Amount: "p3"})
		if r.Bool() {
			ops = append(ops, opSpec{Kind: "redist", Outputs: 2, Amount: "2" + unit, FeePerB: "0"})
		}
		ops = append(ops, opSpec{Kind: "unblind", First: firstReads[(i/7)%len(firstReads)]},
			opSpec{Kind: "fund", V2: true, Amount: "bal", ThenRelease: true}, opSpec{Kind: "fund", V2: false, Amount: "bal+1"})
	case 1: // class 2: another goroutine calls the wallet while a call is inside an interface call
		name = "window"
		cfg.Short = false
		cfg.Thresh = 30
		at := windowAts[(i/7)%len(windowAts)]
		sub := opSpec{Kind: "fund", V2: r.Bool(), Amount: fundAmt()}
		switch {
		case at == "V2TransactionSet" || at == "AddV2PoolTransactions" || at == "AddBroadcastedSet" || at == "BroadcastV2TransactionSet":
			sub = goodSplit()
		case r.Chance(1, 4):
			sub = opSpec{Kind: "redist", Outputs: 1 + r.Intn(3), Amount: fmt.Sprint(2+r.Intn(9)) + unit, FeePerB: "0"}
		}
		inner := opSpec{Kind: "fund", V2: r.Bool(), Amount: []string{"p1", "bal", "p1-1", "1"}[r.Intn(4)]}
		if r.Chance(1, 4) {
			inner = opSpec{Kind: "release", Ref: -1}
		}
		if r.Bool() {
			ops = append(ops, opSpec{Kind: "fund", V2: true, Amount: "p1-1"})
		}
		ops = append(ops, opSpec{Kind: "window", At: at, Sub: &sub, Inner: &inner},
			opSpec{Kind: "broadcast", Ref: -1}, opSpec{Kind: "broadcast", Ref: -2},
			opSpec{Kind: "fund", V2: true, Amount: "bal", ThenRelease: true})
		sub2 := opSpec{Kind: "fund", V2: true, Amount: "bal"}
		inner2 := opSpec{Kind: "fund", V2: false, Amount: "bal"}
		ops = append(ops, opSpec{Kind: "window", At: "PoolTransactions", Sub: &sub2, Inner: &inner2}, opSpec{Kind: "mine"})
	case 2: // class 3: an interface call fails in the middle of a call
		name = "fault"
		cfg.Thresh = 30
		at := []string{"UnspentSiacoinElements", "V2TransactionSet", "AddV2PoolTransactions", "BroadcastV2TransactionSet", "AddBroadcastedSet"}[(i/7)%5]
		sub := goodSplit()
		if at == "UnspentSiacoinElements" {
			sub = []opSpec{{Kind: "fund", V2: true, Amount: "p1"}, {Kind: "fund", Amount: "bal"}, {Kind: "redist", Outputs: 2, Amount: "3" + unit, FeePerB: "0"}, sub}[r.Intn(4)]
		}
		if r.Bool() {
			ops = append(ops, opSpec{Kind: "fund", V2: true, Amount: "p1-1"})
		}
		ops = append(ops, opSpec{Kind: "fault", At: at, Sub: &sub},
			opSpec{Kind: "fund", V2: true, Amount: "bal", ThenRelease: true}, opSpec{Kind: "fund", V2: false, Amount: "bal+1"},
			opSpec{Kind: "mine"}, opSpec{Kind: "fund", V2: true, Amount: "bal", ThenRelease: true})
	case 3: // class 4: illegal and extreme arguments
		name = "extreme"
		ops = append(ops,
			opSpec{Kind: "fund", V2: r.Bool(), Amount: "max", Unc: r.Bool()}, opSpec{Kind: "fund", V2: r.Bool(), Amount: "half"},
			opSpec{Kind: "fund", V2: r.Bool(), Amount: "p1", Existing: 100 + r.Intn(200), ThenRelease: true},
			opSpec{Kind: "split", N: -1 - r.Intn(5), Min: "1" + unit}, opSpec{Kind: "split", N: 1000000, Min: "1" + unit}, opSpec{Kind: "split", N: 3, Min: "max"},
			opSpec{Kind: "redist", Outputs: 0, Amount: "2" + unit, FeePerB: "0"}, opSpec{Kind: "redist", Outputs: -5, Amount: "2" + unit, FeePerB: "1"},
			opSpec{Kind: "redist", Outputs: 100000, Amount: "2" + unit, FeePerB: "0"}, opSpec{Kind: "release", Ref: -1}, opSpec{Kind: "release", Ref: -2},
			opSpec{Kind: "release-foreign", N: 0, V2: r.Bool()}, opSpec{Kind: "release-foreign", N: 1 + r.Intn(4)},
			opSpec{Kind: "fund", V2: true, Amount: "p1"}, opSpec{Kind: "release-foreign", N: 2}, opSpec{Kind: "fund", V2: false, Amount: "bal", ThenRelease: true})
		if redistGuards().overflowSafe {
			ops = append(ops, opSpec{Kind: "redist", Outputs: 3, Amount: "max", FeePerB: "0"}, opSpec{Kind: "redist", Outputs: 3, Amount: "half", FeePerB: "1"}, opSpec{Kind: "redist", Outputs: 2, Amount: "1" + unit, FeePerB: "max"})
		}
		if redistGuards().zeroAmountRefused {
			ops = append(ops, opSpec{Kind: "redist", Outputs: 12, Amount: "0", FeePerB: "0"})
		}
	case 4: // class 5: the same transaction object is funded again, then signed and submitted
		name = "refund"
		cfg.Short = false
		v2 := r.Bool()
		ops = append(ops, opSpec{Kind: "fund", V2: v2, Amount: "p1-1"}, opSpec{Kind: "fund", V2: v2, Amount: []string{"1", "p1", "p2-1"}[r.Intn(3)], Into: -1})
		if r.Bool() {
			ops = append(ops, opSpec{Kind: "fund", V2: v2, Amount: "2", Into: -1})
		}
		ops = append(ops, opSpec{Kind: "broadcast", Ref: -1, ViaWallet: r.Bool()}, opSpec{Kind: "fund", V2: !v2, Amount: "p1"}, opSpec{Kind: "fund", V2: !v2, Amount: "1", Into: -1},
			opSpec{Kind: "release", Ref: -1}, opSpec{Kind: "mine"}, opSpec{Kind: "fund", V2: true, Amount: "bal", ThenRelease: true})
	case 5: // class 7: some reservations have run out, others have not
		name = "partial-expiry"
		cfg.Short = true
		ops = append(ops, opSpec{Kind: "fund", V2: r.Bool(), Amount: "p1"}, opSpec{Kind: "pause", Ms: 35}, opSpec{Kind: "fund", V2: r.Bool(), Amount: "p1"},
			opSpec{Kind: "sleep", Partial: true}, opSpec{Kind: "fund", V2: true, Amount: "bal", ThenRelease: true}, opSpec{Kind: "fund", V2: false, Amount: "bal+1"},
			opSpec{Kind: "sleep"}, opSpec{Kind: "fund", V2: true, Amount: "bal", ThenRelease: true})
	default: // class 7: option values outside the usual range
		name = "option-spread"
		cfg.Thresh = []int{-1, 1000, 0, 2}[r.Intn(4)]
		cfg.MaxIn = []int{-1, 1, 1000, 3}[r.Intn(4)]
		cfg.MaxDefrag = []int{1000, 0, 3, 1}[r.Intn(4)]
		cfg.Short = false
		for _, a := range []string{"1", "p1", "p1+1", "p2", "bal", "bal+1"} {
			ops = append(ops, opSpec{Kind: "fund", V2: r.Bool(), Amount: a, ThenRelease: true, Existing: []int{0, 0, 1, 2}[r.Intn(4)]})
		}
		for _, n := range []int{10, 11, 20, 21} {
			ops = append(ops, opSpec{Kind: "redist", Outputs: n, Amount: "1" + unit, FeePerB: "0"}, opSpec{Kind: "release", Ref: -1}, opSpec{Kind: "release", Ref: -2}, opSpec{Kind: "release", Ref: -3})
		}
	}
	return
}

// redistGuards: does Redistribute on this tree refuse a zero amount, and does it
// survive amounts whose arithmetic overflows? (Both are reported separately as
// proposed repairs; the arguments are only generated on a tree that handles them.)
type guards struct{ zeroAmountRefused, overflowSafe bool }

var guardsOnce sync.Once
var guardsVal guards

func redistGuards() guards {
	guardsOnce.Do(func() {
		e, err := newEnv(caseSpec{Name: "probe", Cfg: cfgSpec{Thresh: 30, MaxIn: 30, MaxDefrag: 10}, Setup: setupSpec{Values: []string{"50" + unit, "20" + unit}, Seed: 99}})
		if err != nil {
			return
		}
		defer e.close()
		if e.setup() != nil {
			return
		}
		raw := e.callRedist(2, types.ZeroCurrency, types.ZeroCurrency)
		guardsVal.zeroAmountRefused = raw.panicked == nil && raw.err != nil
		if raw.err == nil {
			e.w.ReleaseInputs(nil, raw.txns)
		}
		guardsVal.overflowSafe = e.callRedist(3, maxCurrency, types.ZeroCurrency).panicked == nil &&
			e.callRedist(2, parseCur("1"+unit), maxCurrency).panicked == nil
	})
	return guardsVal
}

// c07Corpus: minimised earlier failures, run first.
func c07Corpus() []caseSpec {
	v := func(ks ...int) []string {
		var s []string
		for _, k := range ks {
			s = append(s, fmt.Sprint(k)+unit)
		}
		return s
	}
	return []caseSpec{
		// F4: the selection loop consumes every candidate, then the defrag step ran over the whole list again
		{Name: "corpus-defrag-after-full-selection", Cfg: cfgSpec{Thresh: 3, MaxIn: 30, MaxDefrag: 10}, Setup: setupSpec{Values: v(60, 50, 40, 30, 20, 10), Seed: 11},
			Ops: []opSpec{{Kind: "fund", V2: true, Amount: "bal"}, {Kind: "broadcast", Ref: -1}}, Probe: true},
		{Name: "corpus-defrag-after-full-selection-v1", Cfg: cfgSpec{Thresh: 1, MaxIn: 5, MaxDefrag: 2}, Setup: setupSpec{Values: v(7, 5, 3), Seed: 12},
			Ops: []opSpec{{Kind: "fund", V2: false, Amount: "p2+1"}, {Kind: "broadcast", Ref: -1}}, Probe: true},
		// F5: a v2 pool transaction spends an output, the reservation is gone after a restart
		{Name: "corpus-v2-pool-spend-after-restart", Cfg: cfgSpec{Thresh: 30, MaxIn: 30, MaxDefrag: 10}, Setup: setupSpec{Values: v(9, 4), Seed: 13},
			Ops: []opSpec{{Kind: "fund", V2: true, Amount: "p1-1"}, {Kind: "broadcast", Ref: -1, ViaWallet: true}, {Kind: "restart"}, {Kind: "fund", V2: true, Amount: "bal", ThenRelease: true}, {Kind: "fund", V2: true, Amount: "bal+1"}, {Kind: "restart", NewCM: true}, {Kind: "fund", V2: false, Amount: "bal", ThenRelease: true}}, Probe: true},
		// a failed request must not reserve; release and expiry free the inputs
		{Name: "corpus-failure-release-expiry", Cfg: cfgSpec{Thresh: 30, MaxIn: 30, MaxDefrag: 10, Short: true}, Setup: setupSpec{Values: v(8, 6, 2), Immature: 1, Seed: 14},
			Ops: []opSpec{{Kind: "fund", V2: true, Amount: "bal+1"}, {Kind: "fund", V2: false, Amount: "p1"}, {Kind: "fund", V2: true, Amount: "bal+1"}, {Kind: "release", Ref: -1}, {Kind: "fund", V2: true, Amount: "p2"}, {Kind: "sleep"}, {Kind: "fund", V2: false, Amount: "bal", ThenRelease: true}}, Probe: true},
		// the wallet store is behind the manager: views agree (an output matures in the window), the basis is the store's tip
		{Name: "corpus-store-behind-manager", Cfg: cfgSpec{Thresh: 30, MaxIn: 30, MaxDefrag: 10}, Setup: setupSpec{Values: v(70, 30, 9), Immature: 2, Seed: 16},
			Ops: []opSpec{{Kind: "fund", V2: true, Amount: "p1-1"}, {Kind: "broadcast", Ref: -1, ViaWallet: true}, {Kind: "lag", Blocks: 40, ToWallet: true},
				{Kind: "fund", V2: true, Amount: "p1"}, {Kind: "broadcast", Ref: -1}, {Kind: "fund", V2: false, Amount: "p1"}, {Kind: "broadcast", Ref: -1},
				{Kind: "redist", Outputs: 2, Amount: "2" + unit, FeePerB: "0"}, {Kind: "broadcast", Ref: -1}, {Kind: "fund", V2: true, Amount: "bal+1"}, {Kind: "sync"},
				{Kind: "fund", V2: true, Amount: "bal", ThenRelease: true}}, Probe: true},
		// several outstanding requests served from unconfirmed outputs: each unconfirmed output at most once
		{Name: "corpus-outstanding-unconfirmed", Cfg: cfgSpec{Thresh: 30, MaxIn: 30, MaxDefrag: 10}, Setup: setupSpec{Values: v(50, 30, 8), Seed: 17},
			Ops: []opSpec{{Kind: "fund", V2: true, Amount: "1"}, {Kind: "broadcast", Ref: -1}, {Kind: "fund", V2: true, Amount: "1"}, {Kind: "broadcast", Ref: -1, ViaWallet: true},
				{Kind: "fund", V2: true, Amount: "bal+1", Unc: true}, {Kind: "fund", V2: true, Amount: "bal+1", Unc: true}, {Kind: "fund", V2: true, Amount: "bal+1", Unc: true},
				{Kind: "release", Ref: -2}, {Kind: "fund", V2: true, Amount: "bal+1", Unc: true}}, Probe: false},
		{Name: "corpus-outstanding-unconfirmed-v1", Cfg: cfgSpec{Thresh: 3, MaxIn: 5, MaxDefrag: 2}, Setup: setupSpec{Values: v(40, 20), Seed: 18},
			Ops: []opSpec{{Kind: "fund", Amount: "1"}, {Kind: "broadcast", Ref: -1}, {Kind: "fund", Amount: "1"}, {Kind: "broadcast", Ref: -1},
				{Kind: "fund", Amount: "2", Unc: true}, {Kind: "fund", Amount: "2", Unc: true}, {Kind: "fund", Amount: "2", Unc: true}}},
		// Redistribute with a fee: change of 1 H and of exactly the fee of one input
		{Name: "corpus-redistribute-small-change", Cfg: cfgSpec{Thresh: 30, MaxIn: 30, MaxDefrag: 10}, Setup: setupSpec{Values: v(90, 60, 35, 20), Seed: 19},
			Ops: []opSpec{{Kind: "redist", Outputs: 1, Amount: "R:1:1", FeePerB: "10000000000000000"}, {Kind: "broadcast", Ref: -1}, {Kind: "mine"},
				{Kind: "redist", Outputs: 1, Amount: "R:1:fpi", FeePerB: "10000000000000000000"}, {Kind: "broadcast", Ref: -1}, {Kind: "mine"},
				{Kind: "redist", Outputs: 1, Amount: "R:0:0", FeePerB: "1"}, {Kind: "broadcast", Ref: -1}}},
		// unconfirmed outputs, redistribute, split
		{Name: "corpus-unconfirmed-redistribute-split", Cfg: cfgSpec{Thresh: 5, MaxIn: 30, MaxDefrag: 10}, Setup: setupSpec{Values: v(300, 90, 40, 15), Seed: 15},
			Ops: []opSpec{{Kind: "fund", V2: true, Amount: "p1-1"}, {Kind: "broadcast", Ref: -1}, {Kind: "fund", V2: true, Amount: "bal+1", Unc: true}, {Kind: "fund", V2: true, Amount: "p1", Unc: true, ThenRelease: true},
				{Kind: "redist", Outputs: 3, Amount: "20" + unit, FeePerB: "0"}, {Kind: "broadcast", Ref: -1}, {Kind: "split", N: 4, Min: "3" + unit}, {Kind: "mine"}, {Kind: "split", N: 3, Min: "2" + unit}, {Kind: "redist", Outputs: 12, Amount: "1" + unit, FeePerB: "10000000000000000"}}, Probe: true},
	}
}

// ---- shrinking ----

func hasKind(fs []failure, kind string) (failure, bool) {
	for _, f := range fs {
		if f.kind == kind {
			return f, true
		}
	}
	return failure{}, false
}

func shrinkCase(spec caseSpec, kind string) (caseSpec, failure) {
	budget := 80
	try := func(s caseSpec) (failure, bool) {
		if budget <= 0 {
			return failure{}, false
		}
		budget--
		r := runCase(s)
		if r.err != nil {
			return failure{}, false
		}
		return hasKind(r.fails, kind)
	}
	best, _ := hasKind(runCase(spec).fails, kind)
	for changed := true; changed && budget > 0; {
		changed = false
		for i := len(spec.Ops) - 1; i >= 0; i-- {
			c := spec
			c.Ops = append(append([]opSpec(nil), spec.Ops[:i]...), spec.Ops[i+1:]...)
			if f, ok := try(c); ok {
				spec, best, changed = c, f, true
			}
		}
		for i := len(spec.Setup.Values) - 1; i >= 0; i-- {
			c := spec
			c.Setup.Values = append(append([]string(nil), spec.Setup.Values[:i]...), spec.Setup.Values[i+1:]...)
			if f, ok := try(c); ok {
				spec, best, changed = c, f, true
			}
		}
		if spec.Setup.Immature > 0 {
			c := spec
			c.Setup.Immature = 0
			if f, ok := try(c); ok {
				spec, best, changed = c, f, true
			}
		}
	}
	return spec, best
}

// ---- driver ----

func runC07(c *hx.Ctx) {
	res := c.Res
	res.Rule = "a case = options (from the 4x4x4x2 grid of DefragThreshold, MaxInputsForDefrag, MaxDefragUTXOs, ReservationDuration) + a mined wallet state (0-8 mature outputs with distinct or tied values, 0-2 immature) + an operation sequence over FundTransaction/FundV2Transaction (amount grid: 0, 1, prefix sums +-1, balance, balance+1; useUnconfirmed; pre-existing inputs), ReleaseInputs, sign+submit to the pool (v1, v2, through the wallet), Redistribute (fee rates 0, 1 H, 1e16, 1e19, 4e19 per byte; amounts computed so the change is 0, 1 H, feePerInput-1, feePerInput, feePerInput+1, large), SplitUTXO, mined blocks, blocks that reach the manager but not yet the wallet store (1, 5, 40 blocks behind) with funding, signing and submitting inside that window, several useUnconfirmed requests outstanding at once over unconfirmed outputs of the wallet's own pooled transactions, wallet/manager restarts, expiry; non-trivial := at least one call selected inputs and the sequence has at least three operations; distinct by the abstract case"
	if os.Getenv("C07_SOAK_ONLY") != "" {
		soak(c)
		return
	}
	lintWallet(c)

	if c.Replay != "" {
		var rp struct {
			Replay struct {
				Case caseSpec `json:"case"`
			} `json:"replay"`
		}
		b, _ := os.ReadFile(c.Replay)
		if err := json.Unmarshal(b, &rp); err != nil {
			res.Notes = append(res.Notes, "cannot read replay: "+err.Error())
			return
		}
		if len(rp.Replay.Case.Ops) == 0 {
			soak(c) // a replay of a concurrent failure: run the soak again with this seed
			return
		}
		r := runCase(rp.Replay.Case)
		for _, f := range r.fails {
			res.Fail(f.kind, f.detail, map[string]any{"case": r.spec, "trace": r.coq})
		}
		if r.err == nil && !r.tainted {
			res.WriteCases("Run.Run_C07", []string{r.coq})
		}
		return
	}

	var specs []caseSpec
	specs = append(specs, c07Corpus()...)
	nGrid, nRand, nTies := c.Scale(128, 1280), c.Scale(70, 3000), c.Scale(30, 800)
	for i := 0; i < nGrid; i++ {
		r := c.R.Fork()
		s := caseSpec{Name: fmt.Sprintf("grid-%d", i), Cfg: gridCfg(i + int(c.Seed)), Setup: genSetup(r, false, 8), Probe: r.Chance(1, 3)}
		s.Ops = gridOps(r, len(s.Setup.Values))
		specs = append(specs, s)
	}
	for i := 0; i < nRand; i++ {
		r := c.R.Fork()
		s := caseSpec{Name: fmt.Sprintf("random-%d", i), Cfg: gridCfg(r.Intn(128)), Setup: genSetup(r, false, 8), Probe: r.Chance(1, 2)}
		if s.Cfg.Short && r.Chance(1, 2) {
			s.Cfg.Short = false // keep the sleeping cases to a quarter
		}
		s.Ops = randomOps(r, s.Cfg.Short, false, s.Cfg.Thresh)
		specs = append(specs, s)
	}
	for i := 0; i < nTies; i++ {
		r := c.R.Fork()
		s := caseSpec{Name: fmt.Sprintf("ties-%d", i), Cfg: gridCfg(r.Intn(64)), Setup: genSetup(r, true, 8), ByValue: true, Probe: r.Chance(1, 2)}
		s.Setup.Immature = 0
		if r.Bool() {
			s.Ops = gridOps(r, len(s.Setup.Values))
		} else {
			s.Ops = randomOps(r, false, true, s.Cfg.Thresh)
		}
		specs = append(specs, s)
	}

	nLag := c.Scale(36, 360)
	for i := 0; i < nLag; i++ {
		r := c.R.Fork()
		s := caseSpec{Name: fmt.Sprintf("lag-%d", i), Cfg: gridCfg(r.Intn(64)), Setup: genSetup(r, false, 8), Probe: r.Bool()}
		s.Cfg.Short = false
		if len(s.Setup.Values) < 4 {
			s.Setup = genSetup(r, false, 8)
		}
		s.Setup.Immature = 1 + r.Intn(2)
		s.Ops = lagOps(r, []int{1, 5, 40}[i%3])
		specs = append(specs, s)
	}

	nUnc := c.Scale(30, 300)
	for i := 0; i < nUnc; i++ {
		r := c.R.Fork()
		s := caseSpec{Name: fmt.Sprintf("unconfirmed-%d", i), Cfg: gridCfg(r.Intn(128)), Setup: genSetup(r, false, 5)}
		if len(s.Setup.Values) < 2 {
			s.Setup.Values = []string{"37" + unit, "21" + unit, "9" + unit}
		}
		s.Cfg.Short = s.Cfg.Short && r.Chance(1, 3)
		s.Ops = uncOps(r, len(s.Setup.Values))
		for _, o := range s.Ops {
			if o.Kind == "split" {
				s.Cfg.Thresh = 30 // SplitUTXO refuses n > DefragThreshold
			}
		}
		specs = append(specs, s)
	}

	nFee := c.Scale(30, 300)
	for i := 0; i < nFee; i++ {
		r := c.R.Fork()
		s := caseSpec{Name: fmt.Sprintf("fee-%d", i), Cfg: gridCfg(r.Intn(64)), Setup: genSetup(r, false, 6)}
		s.Cfg.Short = false
		s.Cfg.Thresh = []int{3, 30}[r.Intn(2)]
		if len(s.Setup.Values) < 3 {
			s.Setup.Values = []string{"211" + unit, "97" + unit, "55" + unit, "30" + unit}
		}
		s.Setup.Immature = 0
		s.Ops = feeOps(r, i+int(c.Seed))
		specs = append(specs, s)
	}

	nGen := c.Scale(70, 700)
	if os.Getenv("C07_NO_GEN") != "" {
		nGen = 0 // diagnostic only: shows which mutants the older streams catch by themselves
	}
	for i := 0; i < nGen; i++ {
		r := c.R.Fork()
		s := caseSpec{Cfg: gridCfg(r.Intn(128)), Setup: genSetup(r, false, 7)}
		if len(s.Setup.Values) < 4 {
			s.Setup.Values = []string{"211" + unit, "97" + unit, "55" + unit, "30" + unit, "12" + unit}
		}
		// one output large enough to be split (SplitUTXO's fee estimate is 200e20 here)
		s.Setup.Values = append(s.Setup.Values, fmt.Sprint(3000+r.Intn(3000))+unit, fmt.Sprint(6000+r.Intn(3000))+unit)
		var nm string
		nm, s.Ops = genOps(r, i+int(c.Seed)*7, &s.Cfg, len(s.Setup.Values))
		s.Name = fmt.Sprintf("gen-%s-%d", nm, i)
		s.Probe = nm == "fault" || nm == "extreme"
		specs = append(specs, s)
	}
	g := redistGuards()
	if !g.zeroAmountRefused {
		res.Notes = append(res.Notes, "Redistribute(amount = 0) is accepted on this tree and returns transactions with zero-value outputs no pool accepts: reported as a proposed repair, the argument is not generated")
		res.Count("extreme:redistribute-zero-amount-not-generated")
	}
	if !g.overflowSafe {
		res.Notes = append(res.Notes, "Redistribute with an amount or fee rate near 2^128 panics (overflow) on this tree: reported as a proposed repair, the arguments are not generated")
		res.Count("extreme:redistribute-overflow-not-generated")
	}

	results := make([]caseResult, len(specs))
	var wg sync.WaitGroup
	next := make(chan int)
	for w := 0; w < 8; w++ {
		wg.Add(1)
		go func() {
			defer wg.Done()
			for i := range next {
				results[i] = runCase(specs[i])
			}
		}()
	}
	for i := range specs {
		next <- i
	}
	close(next)
	wg.Wait()

	var cases []string
	shrunk := map[string]int{}
	for _, r := range results {
		b, _ := json.Marshal(r.spec)
		if r.err != nil {
			res.Count("case-error")
			res.Notes = append(res.Notes, fmt.Sprintf("%s: %v", r.spec.Name, r.err))
			if len(res.Notes) > 10 {
				res.Notes = res.Notes[:10]
			}
			continue
		}
		nontrivial := r.stats["fund:ok"]+r.stats["redist:ok"]+r.stats["split:ok"] > 0 && len(r.spec.Ops) >= 3
		res.Eval(string(b), nontrivial)
		for k, v := range r.stats {
			res.CountN(k, v)
		}
		res.Count(fmt.Sprintf("options:thresh=%d", r.spec.Cfg.Thresh))
		res.Count(fmt.Sprintf("options:maxin=%d", r.spec.Cfg.MaxIn))
		res.Count(fmt.Sprintf("options:maxdefrag=%d", r.spec.Cfg.MaxDefrag))
		res.Count(fmt.Sprintf("options:short=%v", r.spec.Cfg.Short))
		res.Count(fmt.Sprintf("outputs=%d", len(r.spec.Setup.Values)))
		if r.tainted {
			res.Count("time-ambiguous-dropped")
		} else {
			cases = append(cases, r.coq)
		}
		kinds := map[string]bool{}
		for _, f := range r.fails {
			if kinds[f.kind] {
				continue
			}
			kinds[f.kind] = true
			if shrunk[f.kind] >= 2 {
				res.Count("fail:" + f.kind)
				continue
			}
			shrunk[f.kind]++
			small, sf := shrinkCase(r.spec, f.kind)
			if sf.kind == "" {
				small, sf = r.spec, f
			}
			rr := runCase(small)
			res.Fail(sf.kind, sf.detail, map[string]any{"case": small, "trace": rr.coq})
		}
	}
	for i := 0; i < 2 && i < len(results); i++ {
		res.Sample(map[string]any{"case": results[len(c07Corpus())+i].spec})
	}
	res.Explored = map[string]any{"option_grid": "4x4x4x2 (every combination at least once in the grid stream)", "grid_cases": nGrid, "random_cases": nRand, "tie_cases": nTies, "store_behind_manager_cases": nLag, "outstanding_unconfirmed_cases": nUnc, "generalisation_cases": nGen, "redistribute_fee_cases": nFee, "fee_rates_per_byte": feeRates, "change_targets": changeTargets, "store_behind_by_blocks": "1, 5, 40"}
	soak(c)
	// several small files: bin/check evaluates them in parallel, and Coq's
	// elaboration of the literal case terms dominates the cost
	chunk := (len(cases) + 7) / 8
	if chunk < 25 {
		chunk = 25
	}
	for i := 0; i < len(cases); i += chunk {
		res.WriteCases("Run.Run_C07", cases[i:min(i+chunk, len(cases))])
	}
}
