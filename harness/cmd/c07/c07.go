package main

// C07: wallet funding never double-allocates, conserves value, and yields valid spends.
//
// A real wallet.SingleAddressWallet over a real chain.Manager is driven through
// generated states (mined, immature, reserved, spent by v1/v2 pool transactions,
// unconfirmed outputs), every combination of the public options from a small
// grid, and amounts 0, 1, every prefix sum of the spendable values +-1, exactly
// the balance and balance+1.  Monitors (ops.go) judge every call against the
// harness' own ledger; the abstract cases go to Coq (Run/Run_C07.v) where the
// model of Wallet/Fund.v must return the same selections, change, errors,
// Balance() and SpendableOutputs().

import (
	"encoding/json"
	"fmt"
	"os"
	"runtime/debug"
	"sort"
	"strings"
	"sync"

	"verif/harness/internal/hx"
	"verif/harness/internal/rng"
)

func main() { hx.Main("C07", runC07) }

type setupSpec struct {
	Values   []string `json:"values"`   // mature outputs (hastings)
	Immature int      `json:"immature"` // blocks mined to the wallet afterwards
	Seed     uint64   `json:"seed"`     // wallet key
}

type caseSpec struct {
	Name    string    `json:"name"`
	Cfg     cfgSpec   `json:"options"`
	Setup   setupSpec `json:"setup"`
	Ops     []opSpec  `json:"ops"`
	ByValue bool      `json:"compareByValue,omitempty"`
	Probe   bool      `json:"probeAfterFailure,omitempty"`
}

type caseResult struct {
	spec    caseSpec
	coq     string
	fails   []failure
	stats   map[string]int
	tainted bool
	err     error
	steps   int
}

func (e *env) exec(o opSpec) (failed bool, err error) {
	switch o.Kind {
	case "fund":
		failed = e.doFund(o)
		if !failed && o.ThenRelease {
			e.doRelease(opSpec{Ref: -1})
		}
	case "release":
		e.doRelease(o)
	case "broadcast":
		e.doBroadcast(o)
	case "mine":
		err = e.doMine(o)
	case "restart":
		err = e.doRestart(o)
	case "sleep":
		e.doSleep()
	case "lag":
		err = e.doLag(o)
	case "sync":
		err = e.doSync()
	case "redist":
		failed = e.doRedist(o)
	case "split":
		failed = e.doSplit(o)
	default:
		err = fmt.Errorf("unknown op %q", o.Kind)
	}
	return
}

func runCase(spec caseSpec) (res caseResult) {
	res.spec = spec
	defer func() {
		if r := recover(); r != nil {
			res.fails = append(res.fails, failure{"wallet-panic", fmt.Sprint(r) + "\n" + string(debug.Stack())})
		}
	}()
	e, err := newEnv(spec)
	if err != nil {
		res.err = err
		return
	}
	defer e.close()
	if err := e.setup(); err != nil {
		res.err = err
		return
	}
	// initial abstract state
	type iu struct {
		id  uint64
		val string
		mat uint64
	}
	var us []iu
	for id, le := range e.ledger {
		us = append(us, iu{e.aid(id), zlit(le.val), le.mat})
	}
	sort.Slice(us, func(i, j int) bool { return us[i].id < us[j].id })
	ustr := make([]string, len(us))
	for i, u := range us {
		ustr[i] = fmt.Sprintf("mk_utxo %d %s %d", u.id, u.val, u.mat)
	}
	header := fmt.Sprintf("mk_case (mk_cfg %s %s %d %d) %d [%s] [] [] %s", zint(spec.Cfg.Thresh), zint(spec.Cfg.MaxIn), spec.Cfg.MaxDefrag,
		e.us(spec.Cfg.resv()), e.height(), strings.Join(ustr, "; "), coqBool(spec.ByValue))
	e.trace = append(e.trace, "(Tick 0, None)")
	e.observe("RUnit", 0, false)
	for _, o := range spec.Ops {
		failed, err := e.exec(o)
		if err != nil {
			res.err = err
			break
		}
		if failed && spec.Probe {
			// "a failed request reserves nothing", observed through a fund of everything spendable
			_, sum := e.expected(e.clock())
			if !sum.IsZero() {
				e.exec(opSpec{Kind: "fund", V2: true, Amount: "bal", ThenRelease: true, probe: true})
			}
		}
	}
	res.coq = header + "\n  [" + strings.Join(e.trace, ";\n   ") + "]"
	res.fails = append(res.fails, e.fails...)
	res.stats = e.stats
	res.tainted = e.tainted
	res.steps = len(e.trace)
	return
}

// ---- generators ----

var unit = "00000000000000000000" // 1e20 hastings; SplitUTXO's fee estimate is 2e20

func genSetup(r *rng.R, ties bool, maxN int) setupSpec {
	n := r.Intn(maxN + 1)
	if r.Chance(3, 4) && n < 3 {
		n = 3 + r.Intn(maxN-2)
	}
	var vals []string
	if ties {
		base := []int{5, 10, 10, 20, 20, 20, 40}
		for i := 0; i < n; i++ {
			vals = append(vals, fmt.Sprint(base[r.Intn(len(base))])+unit)
		}
	} else {
		used := map[int]bool{}
		for len(vals) < n {
			k := 1 + r.Intn(400)
			if r.Chance(1, 5) {
				k = 1 + r.Intn(4) // around the split fee
			}
			if used[k] {
				continue
			}
			used[k] = true
			vals = append(vals, fmt.Sprint(k)+unit)
		}
	}
	return setupSpec{Values: vals, Immature: r.Intn(3), Seed: r.U64()}
}

func gridCfg(i int) cfgSpec {
	th := []int{0, 1, 3, 30}
	mi := []int{0, 2, 5, 30}
	md := []int{0, 1, 2, 10}
	i = (i * 37) % 128
	return cfgSpec{Thresh: th[i%4], MaxIn: mi[(i/4)%4], MaxDefrag: md[(i/16)%4], Short: (i/64)%2 == 1}
}

func prefixOps(r *rng.R) []opSpec {
	var ops []opSpec
	for k := r.Intn(4); k > 0; k-- {
		amt := fmt.Sprintf("p%d", 1+r.Intn(2))
		switch r.Intn(5) {
		case 0:
			ops = append(ops, opSpec{Kind: "fund", V2: r.Bool(), Amount: amt})
		case 1:
			ops = append(ops, opSpec{Kind: "fund", V2: false, Amount: amt + "-1"}, opSpec{Kind: "broadcast", Ref: -1})
		case 2, 3:
			ops = append(ops, opSpec{Kind: "fund", V2: true, Amount: amt + "-1"}, opSpec{Kind: "broadcast", Ref: -1, ViaWallet: r.Bool()})
		case 4:
			ops = append(ops, opSpec{Kind: "mine", ToWallet: r.Bool()})
		}
	}
	if r.Chance(1, 4) {
		ops = append(ops, opSpec{Kind: "restart", NewCM: r.Bool()})
	}
	return ops
}

// gridOps: every amount of the grid, funded and released again.
func gridOps(r *rng.R, n int) []opSpec {
	ops := prefixOps(r)
	amounts := []string{"0", "1", "bal", "bal+1"}
	for k := 1; k <= n; k++ {
		amounts = append(amounts, fmt.Sprintf("p%d-1", k), fmt.Sprintf("p%d", k), fmt.Sprintf("p%d+1", k))
	}
	v2 := r.Bool()
	for _, a := range amounts {
		o := opSpec{Kind: "fund", V2: v2, Amount: a, ThenRelease: true}
		v2 = !v2
		if r.Chance(1, 4) {
			o.Unc = true
		}
		if r.Chance(1, 5) {
			o.Existing = 1 + r.Intn(4)
		}
		ops = append(ops, o)
	}
	return ops
}

func randomAmount(r *rng.R) string {
	switch r.Intn(10) {
	case 0:
		return "0"
	case 1:
		return "bal"
	case 2:
		return "bal+1"
	case 3:
		return "1"
	case 4:
		return fmt.Sprint(1+r.Intn(300)) + unit
	}
	k := 1 + r.Intn(5)
	return fmt.Sprintf("p%d%s", k, []string{"", "-1", "+1"}[r.Intn(3)])
}

func randomOps(r *rng.R, short, ties bool, thresh int) []opSpec {
	n := 8 + r.Intn(22)
	var ops []opSpec
	for len(ops) < n {
		x := r.Intn(100)
		if thresh >= 3 && !ties && x < 10 {
			x = 80 // SplitUTXO can only succeed with n <= DefragThreshold: ask more often there
		}
		switch {
		case x < 36:
			o := opSpec{Kind: "fund", V2: r.Bool(), Amount: randomAmount(r), Unc: r.Chance(1, 3)}
			if r.Chance(1, 6) {
				o.Existing = 1 + r.Intn(3)
			}
			ops = append(ops, o)
		case x < 48:
			ops = append(ops, opSpec{Kind: "release", Ref: -1 - r.Intn(3)})
		case x < 62:
			ops = append(ops, opSpec{Kind: "broadcast", Ref: -1 - r.Intn(2), ViaWallet: r.Bool()})
		case x < 72:
			ops = append(ops, opSpec{Kind: "mine", ToWallet: r.Chance(1, 3)})
		case x < 79 && !ties:
			fee := "0"
			if r.Bool() {
				fee = "10000000000000000" // 1e16 H per byte
			}
			ops = append(ops, opSpec{Kind: "redist", Outputs: 1 + r.Intn(14), Amount: fmt.Sprint(1+r.Intn(40)) + unit, FeePerB: fee})
		case x < 86 && !ties:
			o := opSpec{Kind: "split", N: r.Intn(6), Min: fmt.Sprint(r.Intn(30)) + unit}
			if r.Chance(3, 4) {
				o.N = 2 + r.Intn(max(1, min(thresh-1, 8)))
				o.Min = fmt.Sprintf("d%d", o.N+2+r.Intn(8))
			}
			ops = append(ops, o)
		case x < 91:
			ops = append(ops, opSpec{Kind: "restart", NewCM: r.Bool()})
		case x < 96 && short:
			ops = append(ops, opSpec{Kind: "sleep"})
		case x >= 96 && x < 99 && !short:
			ops = append(ops, opSpec{Kind: "lag", Blocks: []int{1, 2, 5, 12}[r.Intn(4)], ToWallet: r.Bool()})
		case x >= 99:
			ops = append(ops, opSpec{Kind: "sync"})
		}
	}
	return ops
}

// lagOps: the wallet store is left k blocks behind the manager (k in 1, 5, 40;
// the blocks confirm wallet transactions and pay the wallet, so the accumulator
// changes around the wallet's elements); every kind of funding call is made in
// that window, signed and submitted with the basis it returned.
func lagOps(r *rng.R, k int) []opSpec {
	var ops []opSpec
	if r.Chance(2, 3) {
		ops = append(ops, opSpec{Kind: "fund", V2: true, Amount: "p1-1"}, opSpec{Kind: "broadcast", Ref: -1, ViaWallet: r.Bool()})
	}
	if r.Chance(1, 3) {
		ops = append(ops, opSpec{Kind: "fund", V2: false, Amount: "p1-1"}, opSpec{Kind: "broadcast", Ref: -1})
	}
	if r.Chance(1, 3) {
		ops = append(ops, opSpec{Kind: "fund", V2: true, Amount: "p1"}) // held across the window, submitted inside it
	}
	ops = append(ops, opSpec{Kind: "lag", Blocks: k, ToWallet: r.Bool()})
	if len(ops) > 1 && ops[len(ops)-2].Kind == "fund" {
		ops = append(ops, opSpec{Kind: "broadcast", Ref: -1})
	}
	ops = append(ops,
		opSpec{Kind: "fund", V2: true, Amount: fmt.Sprintf("p%d", 1+r.Intn(2))}, opSpec{Kind: "broadcast", Ref: -1, ViaWallet: r.Bool()},
		opSpec{Kind: "fund", V2: false, Amount: "p1+1"}, opSpec{Kind: "broadcast", Ref: -1},
		opSpec{Kind: "fund", V2: r.Bool(), Amount: "bal", ThenRelease: true},
		opSpec{Kind: "fund", V2: true, Amount: "bal+1"})
	if r.Bool() {
		ops = append(ops, opSpec{Kind: "redist", Outputs: 1 + r.Intn(3), Amount: fmt.Sprint(1+r.Intn(20)) + unit, FeePerB: "0"}, opSpec{Kind: "broadcast", Ref: -1})
	}
	if r.Bool() {
		n := 2 + r.Intn(2)
		ops = append(ops, opSpec{Kind: "split", N: n, Min: fmt.Sprintf("d%d", n+3+r.Intn(6))})
	}
	if r.Chance(1, 3) {
		ops = append(ops, opSpec{Kind: "lag", Blocks: 1 + r.Intn(3), ToWallet: r.Bool()}, opSpec{Kind: "fund", V2: true, Amount: "p1"}, opSpec{Kind: "broadcast", Ref: -1})
	}
	ops = append(ops, opSpec{Kind: "sync"},
		opSpec{Kind: "fund", V2: true, Amount: "bal", ThenRelease: true},
		opSpec{Kind: "fund", V2: false, Amount: "bal+1"},
		opSpec{Kind: "mine"},
		opSpec{Kind: "fund", V2: true, Amount: "p1"}, opSpec{Kind: "broadcast", Ref: -1})
	return ops
}

// uncOps: most of the wallet's funds sit in unconfirmed outputs of its own pooled
// transactions (each pays 1 hasting away and the rest back to the wallet), the
// confirmed spendable balance is small; then several requests with
// useUnconfirmed=true are outstanding at once (no release, no broadcast between
// them), so each must be served from unconfirmed outputs nobody holds yet.
func uncOps(r *rng.R, n int) []opSpec {
	var ops []opSpec
	v2 := r.Chance(2, 3)
	k := n - r.Intn(2)
	for i := 0; i < k; i++ {
		pv2 := v2
		if r.Chance(1, 6) {
			pv2 = !v2 // a parent of the other version: never a candidate
		}
		ops = append(ops, opSpec{Kind: "fund", V2: pv2, Amount: "1"}, opSpec{Kind: "broadcast", Ref: -1, ViaWallet: r.Bool()})
	}
	if r.Chance(1, 4) {
		// spend an unconfirmed output again, still in the pool: children of children
		ops = append(ops, opSpec{Kind: "fund", V2: v2, Amount: "bal+1", Unc: true}, opSpec{Kind: "broadcast", Ref: -1})
	}
	for i, m := 0, 2+r.Intn(4); i < m; i++ {
		o := opSpec{Kind: "fund", V2: v2, Amount: []string{"bal+1", "bal+1", "p1+1", "2"}[r.Intn(4)], Unc: true}
		if r.Chance(1, 8) {
			o.V2 = !v2
		}
		ops = append(ops, o)
		if r.Chance(1, 6) {
			ops = append(ops, opSpec{Kind: "fund", V2: v2, Amount: "1", Unc: false})
		}
	}
	if r.Bool() {
		// the largest candidate is an unconfirmed output that an outstanding request holds
		ops = append(ops, opSpec{Kind: "split", N: 3 + r.Intn(3), Min: fmt.Sprintf("U%d", 4+r.Intn(3))})
	}
	ops = append(ops, opSpec{Kind: "release", Ref: -2}, opSpec{Kind: "fund", V2: v2, Amount: "bal+1", Unc: true},
		opSpec{Kind: "broadcast", Ref: -1}, opSpec{Kind: "fund", V2: v2, Amount: "bal+1", Unc: true})
	if r.Bool() {
		ops = append(ops, opSpec{Kind: "mine"}, opSpec{Kind: "fund", V2: v2, Amount: "bal", ThenRelease: true})
	}
	return ops
}

// feeOps: Redistribute over a spread of fee rates (0, 1 H, typical, the manager's
// minimum recommendation, large) with amounts computed so that the change of
// the transaction lands on 0, 1 H, feePerInput-1, feePerInput, feePerInput+1 or
// well above; every returned transaction is signed and submitted.
var feeRates = []string{"0", "1", "10000000000000000", "10000000000000000000", "40000000000000000000"}
var changeTargets = []string{"0", "1", "fpi-1", "fpi", "fpi+1", "big"}

func feeOps(r *rng.R, i int) []opSpec {
	var ops []opSpec
	rate := feeRates[i%len(feeRates)]
	for n := 0; n < 3; n++ {
		c := changeTargets[(i/len(feeRates)+2*n+i)%len(changeTargets)]
		j := 1 + r.Intn(2)
		if c == "0" {
			j = 0 // a change of exactly zero needs every usable output as input
		}
		k := 1
		if r.Chance(1, 3) {
			k = 2 + r.Intn(2)
		}
		ops = append(ops, opSpec{Kind: "redist", Outputs: k, Amount: fmt.Sprintf("R:%d:%s", j, c), FeePerB: rate},
			opSpec{Kind: "broadcast", Ref: -1, ViaWallet: r.Bool()})
		if k > 1 {
			ops = append(ops, opSpec{Kind: "broadcast", Ref: -2})
		}
		ops = append(ops, opSpec{Kind: "mine", ToWallet: r.Chance(1, 4)})
	}
	if r.Bool() {
		n := 2 + r.Intn(2)
		ops = append(ops, opSpec{Kind: "split", N: n, Min: fmt.Sprintf("d%d", n+2+r.Intn(5))}, opSpec{Kind: "mine"})
	}
	ops = append(ops, opSpec{Kind: "redist", Outputs: 11 + r.Intn(4), Amount: fmt.Sprint(1+r.Intn(6)) + unit, FeePerB: rate}, opSpec{Kind: "broadcast", Ref: -1}, opSpec{Kind: "broadcast", Ref: -2})
	return ops
}

// c07Corpus: minimised earlier failures, run first.
func c07Corpus() []caseSpec {
	v := func(ks ...int) []string {
		var s []string
		for _, k := range ks {
			s = append(s, fmt.Sprint(k)+unit)
		}
		return s
	}
	return []caseSpec{
		// F4: the selection loop consumes every candidate, then the defrag step ran over the whole list again
		{Name: "corpus-defrag-after-full-selection", Cfg: cfgSpec{Thresh: 3, MaxIn: 30, MaxDefrag: 10}, Setup: setupSpec{Values: v(60, 50, 40, 30, 20, 10), Seed: 11},
			Ops: []opSpec{{Kind: "fund", V2: true, Amount: "bal"}, {Kind: "broadcast", Ref: -1}}, Probe: true},
		{Name: "corpus-defrag-after-full-selection-v1", Cfg: cfgSpec{Thresh: 1, MaxIn: 5, MaxDefrag: 2}, Setup: setupSpec{Values: v(7, 5, 3), Seed: 12},
			Ops: []opSpec{{Kind: "fund", V2: false, Amount: "p2+1"}, {Kind: "broadcast", Ref: -1}}, Probe: true},
		// F5: a v2 pool transaction spends an output, the reservation is gone after a restart
		{Name: "corpus-v2-pool-spend-after-restart", Cfg: cfgSpec{Thresh: 30, MaxIn: 30, MaxDefrag: 10}, Setup: setupSpec{Values: v(9, 4), Seed: 13},
			Ops: []opSpec{{Kind: "fund", V2: true, Amount: "p1-1"}, {Kind: "broadcast", Ref: -1, ViaWallet: true}, {Kind: "restart"}, {Kind: "fund", V2: true, Amount: "bal", ThenRelease: true}, {Kind: "fund", V2: true, Amount: "bal+1"}, {Kind: "restart", NewCM: true}, {Kind: "fund", V2: false, Amount: "bal", ThenRelease: true}}, Probe: true},
		// a failed request must not reserve; release and expiry free the inputs
		{Name: "corpus-failure-release-expiry", Cfg: cfgSpec{Thresh: 30, MaxIn: 30, MaxDefrag: 10, Short: true}, Setup: setupSpec{Values: v(8, 6, 2), Immature: 1, Seed: 14},
			Ops: []opSpec{{Kind: "fund", V2: true, Amount: "bal+1"}, {Kind: "fund", V2: false, Amount: "p1"}, {Kind: "fund", V2: true, Amount: "bal+1"}, {Kind: "release", Ref: -1}, {Kind: "fund", V2: true, Amount: "p2"}, {Kind: "sleep"}, {Kind: "fund", V2: false, Amount: "bal", ThenRelease: true}}, Probe: true},
		// the wallet store is behind the manager: views agree (an output matures in the window), the basis is the store's tip
		{Name: "corpus-store-behind-manager", Cfg: cfgSpec{Thresh: 30, MaxIn: 30, MaxDefrag: 10}, Setup: setupSpec{Values: v(70, 30, 9), Immature: 2, Seed: 16},
			Ops: []opSpec{{Kind: "fund", V2: true, Amount: "p1-1"}, {Kind: "broadcast", Ref: -1, ViaWallet: true}, {Kind: "lag", Blocks: 40, ToWallet: true},
				{Kind: "fund", V2: true, Amount: "p1"}, {Kind: "broadcast", Ref: -1}, {Kind: "fund", V2: false, Amount: "p1"}, {Kind: "broadcast", Ref: -1},
				{Kind: "redist", Outputs: 2, Amount: "2" + unit, FeePerB: "0"}, {Kind: "broadcast", Ref: -1}, {Kind: "fund", V2: true, Amount: "bal+1"}, {Kind: "sync"},
				{Kind: "fund", V2: true, Amount: "bal", ThenRelease: true}}, Probe: true},
		// several outstanding requests served from unconfirmed outputs: each unconfirmed output at most once
		{Name: "corpus-outstanding-unconfirmed", Cfg: cfgSpec{Thresh: 30, MaxIn: 30, MaxDefrag: 10}, Setup: setupSpec{Values: v(50, 30, 8), Seed: 17},
			Ops: []opSpec{{Kind: "fund", V2: true, Amount: "1"}, {Kind: "broadcast", Ref: -1}, {Kind: "fund", V2: true, Amount: "1"}, {Kind: "broadcast", Ref: -1, ViaWallet: true},
				{Kind: "fund", V2: true, Amount: "bal+1", Unc: true}, {Kind: "fund", V2: true, Amount: "bal+1", Unc: true}, {Kind: "fund", V2: true, Amount: "bal+1", Unc: true},
				{Kind: "release", Ref: -2}, {Kind: "fund", V2: true, Amount: "bal+1", Unc: true}}, Probe: false},
		{Name: "corpus-outstanding-unconfirmed-v1", Cfg: cfgSpec{Thresh: 3, MaxIn: 5, MaxDefrag: 2}, Setup: setupSpec{Values: v(40, 20), Seed: 18},
			Ops: []opSpec{{Kind: "fund", Amount: "1"}, {Kind: "broadcast", Ref: -1}, {Kind: "fund", Amount: "1"}, {Kind: "broadcast", Ref: -1},
				{Kind: "fund", Amount: "2", Unc: true}, {Kind: "fund", Amount: "2", Unc: true}, {Kind: "fund", Amount: "2", Unc: true}}},
		// Redistribute with a fee: change of 1 H and of exactly the fee of one input
		{Name: "corpus-redistribute-small-change", Cfg: cfgSpec{Thresh: 30, MaxIn: 30, MaxDefrag: 10}, Setup: setupSpec{Values: v(90, 60, 35, 20), Seed: 19},
			Ops: []opSpec{{Kind: "redist", Outputs: 1, Amount: "R:1:1", FeePerB: "10000000000000000"}, {Kind: "broadcast", Ref: -1}, {Kind: "mine"},
				{Kind: "redist", Outputs: 1, Amount: "R:1:fpi", FeePerB: "10000000000000000000"}, {Kind: "broadcast", Ref: -1}, {Kind: "mine"},
				{Kind: "redist", Outputs: 1, Amount: "R:0:0", FeePerB: "1"}, {Kind: "broadcast", Ref: -1}}},
		// unconfirmed outputs, redistribute, split
		{Name: "corpus-unconfirmed-redistribute-split", Cfg: cfgSpec{Thresh: 5, MaxIn: 30, MaxDefrag: 10}, Setup: setupSpec{Values: v(300, 90, 40, 15), Seed: 15},
			Ops: []opSpec{{Kind: "fund", V2: true, Amount: "p1-1"}, {Kind: "broadcast", Ref: -1}, {Kind: "fund", V2: true, Amount: "bal+1", Unc: true}, {Kind: "fund", V2: true, Amount: "p1", Unc: true, ThenRelease: true},
				{Kind: "redist", Outputs: 3, Amount: "20" + unit, FeePerB: "0"}, {Kind: "broadcast", Ref: -1}, {Kind: "split", N: 4, Min: "3" + unit}, {Kind: "mine"}, {Kind: "split", N: 3, Min: "2" + unit}, {Kind: "redist", Outputs: 12, Amount: "1" + unit, FeePerB: "10000000000000000"}}, Probe: true},
	}
}

// ---- shrinking ----

func hasKind(fs []failure, kind string) (failure, bool) {
	for _, f := range fs {
		if f.kind == kind {
			return f, true
		}
	}
	return failure{}, false
}

func shrinkCase(spec caseSpec, kind string) (caseSpec, failure) {
	budget := 80
	try := func(s caseSpec) (failure, bool) {
		if budget <= 0 {
			return failure{}, false
		}
		budget--
		r := runCase(s)
		if r.err != nil {
			return failure{}, false
		}
		return hasKind(r.fails, kind)
	}
	best, _ := hasKind(runCase(spec).fails, kind)
	for changed := true; changed && budget > 0; {
		changed = false
		for i := len(spec.Ops) - 1; i >= 0; i-- {
			c := spec
			c.Ops = append(append([]opSpec(nil), spec.Ops[:i]...), spec.Ops[i+1:]...)
			if f, ok := try(c); ok {
				spec, best, changed = c, f, true
			}
		}
		for i := len(spec.Setup.Values) - 1; i >= 0; i-- {
			c := spec
			c.Setup.Values = append(append([]string(nil), spec.Setup.Values[:i]...), spec.Setup.Values[i+1:]...)
			if f, ok := try(c); ok {
				spec, best, changed = c, f, true
			}
		}
		if spec.Setup.Immature > 0 {
			c := spec
			c.Setup.Immature = 0
			if f, ok := try(c); ok {
				spec, best, changed = c, f, true
			}
		}
	}
	return spec, best
}

// ---- driver ----

func runC07(c *hx.Ctx) {
	res := c.Res
	res.Rule = "a case = options (from the 4x4x4x2 grid of DefragThreshold, MaxInputsForDefrag, MaxDefragUTXOs, ReservationDuration) + a mined wallet state (0-8 mature outputs with distinct or tied values, 0-2 immature) + an operation sequence over FundTransaction/FundV2Transaction (amount grid: 0, 1, prefix sums +-1, balance, balance+1; useUnconfirmed; pre-existing inputs), ReleaseInputs, sign+submit to the pool (v1, v2, through the wallet), Redistribute (fee rates 0, 1 H, 1e16, 1e19, 4e19 per byte; amounts computed so the change is 0, 1 H, feePerInput-1, feePerInput, feePerInput+1, large), SplitUTXO, mined blocks, blocks that reach the manager but not yet the wallet store (1, 5, 40 blocks behind) with funding, signing and submitting inside that window, several useUnconfirmed requests outstanding at once over unconfirmed outputs of the wallet's own pooled transactions, wallet/manager restarts, expiry; non-trivial := at least one call selected inputs and the sequence has at least three operations; distinct by the abstract case"
	if os.Getenv("C07_SOAK_ONLY") != "" {
		soak(c)
		return
	}
	lintWallet(c)

	if c.Replay != "" {
		var rp struct {
			Replay struct {
				Case caseSpec `json:"case"`
			} `json:"replay"`
		}
		b, _ := os.ReadFile(c.Replay)
		if err := json.Unmarshal(b, &rp); err != nil {
			res.Notes = append(res.Notes, "cannot read replay: "+err.Error())
			return
		}
		if len(rp.Replay.Case.Ops) == 0 {
			soak(c) // a replay of a concurrent failure: run the soak again with this seed
			return
		}
		r := runCase(rp.Replay.Case)
		for _, f := range r.fails {
			res.Fail(f.kind, f.detail, map[string]any{"case": r.spec, "trace": r.coq})
		}
		if r.err == nil && !r.tainted {
			res.WriteCases("Run.Run_C07", []string{r.coq})
		}
		return
	}

	var specs []caseSpec
	specs = append(specs, c07Corpus()...)
	nGrid, nRand, nTies := c.Scale(128, 1280), c.Scale(95, 3000), c.Scale(35, 800)
	for i := 0; i < nGrid; i++ {
		r := c.R.Fork()
		s := caseSpec{Name: fmt.Sprintf("grid-%d", i), Cfg: gridCfg(i + int(c.Seed)), Setup: genSetup(r, false, 8), Probe: r.Chance(1, 3)}
		s.Ops = gridOps(r, len(s.Setup.Values))
		specs = append(specs, s)
	}
	for i := 0; i < nRand; i++ {
		r := c.R.Fork()
		s := caseSpec{Name: fmt.Sprintf("random-%d", i), Cfg: gridCfg(r.Intn(128)), Setup: genSetup(r, false, 8), Probe: r.Chance(1, 2)}
		if s.Cfg.Short && r.Chance(1, 2) {
			s.Cfg.Short = false // keep the sleeping cases to a quarter
		}
		s.Ops = randomOps(r, s.Cfg.Short, false, s.Cfg.Thresh)
		specs = append(specs, s)
	}
	for i := 0; i < nTies; i++ {
		r := c.R.Fork()
		s := caseSpec{Name: fmt.Sprintf("ties-%d", i), Cfg: gridCfg(r.Intn(64)), Setup: genSetup(r, true, 8), ByValue: true, Probe: r.Chance(1, 2)}
		s.Setup.Immature = 0
		if r.Bool() {
			s.Ops = gridOps(r, len(s.Setup.Values))
		} else {
			s.Ops = randomOps(r, false, true, s.Cfg.Thresh)
		}
		specs = append(specs, s)
	}

	nLag := c.Scale(36, 360)
	for i := 0; i < nLag; i++ {
		r := c.R.Fork()
		s := caseSpec{Name: fmt.Sprintf("lag-%d", i), Cfg: gridCfg(r.Intn(64)), Setup: genSetup(r, false, 8), Probe: r.Bool()}
		s.Cfg.Short = false
		if len(s.Setup.Values) < 4 {
			s.Setup = genSetup(r, false, 8)
		}
		s.Setup.Immature = 1 + r.Intn(2)
		s.Ops = lagOps(r, []int{1, 5, 40}[i%3])
		specs = append(specs, s)
	}

	nUnc := c.Scale(30, 300)
	for i := 0; i < nUnc; i++ {
		r := c.R.Fork()
		s := caseSpec{Name: fmt.Sprintf("unconfirmed-%d", i), Cfg: gridCfg(r.Intn(128)), Setup: genSetup(r, false, 5)}
		if len(s.Setup.Values) < 2 {
			s.Setup.Values = []string{"37" + unit, "21" + unit, "9" + unit}
		}
		s.Cfg.Short = s.Cfg.Short && r.Chance(1, 3)
		s.Ops = uncOps(r, len(s.Setup.Values))
		for _, o := range s.Ops {
			if o.Kind == "split" {
				s.Cfg.Thresh = 30 // SplitUTXO refuses n > DefragThreshold
			}
		}
		specs = append(specs, s)
	}

	nFee := c.Scale(30, 300)
	for i := 0; i < nFee; i++ {
		r := c.R.Fork()
		s := caseSpec{Name: fmt.Sprintf("fee-%d", i), Cfg: gridCfg(r.Intn(64)), Setup: genSetup(r, false, 6)}
		s.Cfg.Short = false
		s.Cfg.Thresh = []int{3, 30}[r.Intn(2)]
		if len(s.Setup.Values) < 3 {
			s.Setup.Values = []string{"211" + unit, "97" + unit, "55" + unit, "30" + unit}
		}
		s.Setup.Immature = 0
		s.Ops = feeOps(r, i+int(c.Seed))
		specs = append(specs, s)
	}

	results := make([]caseResult, len(specs))
	var wg sync.WaitGroup
	next := make(chan int)
	for w := 0; w < 8; w++ {
		wg.Add(1)
		go func() {
			defer wg.Done()
			for i := range next {
				results[i] = runCase(specs[i])
			}
		}()
	}
	for i := range specs {
		next <- i
	}
	close(next)
	wg.Wait()

	var cases []string
	shrunk := map[string]int{}
	for _, r := range results {
		b, _ := json.Marshal(r.spec)
		if r.err != nil {
			res.Count("case-error")
			res.Notes = append(res.Notes, fmt.Sprintf("%s: %v", r.spec.Name, r.err))
			if len(res.Notes) > 10 {
				res.Notes = res.Notes[:10]
			}
			continue
		}
		nontrivial := r.stats["fund:ok"]+r.stats["redist:ok"]+r.stats["split:ok"] > 0 && len(r.spec.Ops) >= 3
		res.Eval(string(b), nontrivial)
		for k, v := range r.stats {
			res.CountN(k, v)
		}
		res.Count(fmt.Sprintf("options:thresh=%d", r.spec.Cfg.Thresh))
		res.Count(fmt.Sprintf("options:maxin=%d", r.spec.Cfg.MaxIn))
		res.Count(fmt.Sprintf("options:maxdefrag=%d", r.spec.Cfg.MaxDefrag))
		res.Count(fmt.Sprintf("options:short=%v", r.spec.Cfg.Short))
		res.Count(fmt.Sprintf("outputs=%d", len(r.spec.Setup.Values)))
		if r.tainted {
			res.Count("time-ambiguous-dropped")
		} else {
			cases = append(cases, r.coq)
		}
		kinds := map[string]bool{}
		for _, f := range r.fails {
			if kinds[f.kind] {
				continue
			}
			kinds[f.kind] = true
			if shrunk[f.kind] >= 2 {
				res.Count("fail:" + f.kind)
				continue
			}
			shrunk[f.kind]++
			small, sf := shrinkCase(r.spec, f.kind)
			if sf.kind == "" {
				small, sf = r.spec, f
			}
			rr := runCase(small)
			res.Fail(sf.kind, sf.detail, map[string]any{"case": small, "trace": rr.coq})
		}
	}
	for i := 0; i < 2 && i < len(results); i++ {
		res.Sample(map[string]any{"case": results[len(c07Corpus())+i].spec})
	}
	res.Explored = map[string]any{"option_grid": "4x4x4x2 (every combination at least once in the grid stream)", "grid_cases": nGrid, "random_cases": nRand, "tie_cases": nTies, "store_behind_manager_cases": nLag, "outstanding_unconfirmed_cases": nUnc, "redistribute_fee_cases": nFee, "fee_rates_per_byte": feeRates, "change_targets": changeTargets, "store_behind_by_blocks": "1, 5, 40"}
	soak(c)
	// several small files: bin/check evaluates them in parallel, and Coq's
	// elaboration of the literal case terms dominates the cost
	chunk := (len(cases) + 7) / 8
	if chunk < 25 {
		chunk = 25
	}
	for i := 0; i < len(cases); i += chunk {
		res.WriteCases("Run.Run_C07", cases[i:min(i+chunk, len(cases))])
	}
}
