// Command c13 checks C13 (rebasing a v2 transaction set yields proofs valid at
// the target index) on the real chain.Manager: UpdateV2TransactionSet for pairs
// of indices of generated fork trees (and at the 144-block boundary on a long
// line) with sets valid at the source index, V2TransactionSet and
// UnconfirmedParents over pools with dependent transactions, corrupted proofs and
// bases; results are compared with an independent element ledger of the target.
package main

import (
	"bytes"
	"encoding/json"
	"fmt"
	"os"

	"go.sia.tech/core/types"
	"verif/harness/internal/chaingen"
	"verif/harness/internal/hx"
	"verif/harness/internal/mgrsim"
	"verif/harness/internal/poolsim"
	"verif/harness/internal/rng"
)

func main() { hx.Main("C13", run) }

type failure struct{ kind, detail string }
type stats map[string]int

// elems lists the state elements of a transaction with their ledger keys (by element id).
type elemRef struct {
	key string
	se  *types.StateElement
	sc  bool // siacoin or siafund input (the kinds whose ephemeral parents are replaced)
}

func elems(t *types.V2Transaction) []elemRef {
	var out []elemRef
	hx8 := func(b []byte) string { return fmt.Sprintf("%x", b[:8]) }
	for i := range t.SiacoinInputs {
		out = append(out, elemRef{poolsim.ScKey(t.SiacoinInputs[i].Parent.ID), &t.SiacoinInputs[i].Parent.StateElement, true})
	}
	for i := range t.SiafundInputs {
		out = append(out, elemRef{poolsim.SfKey(t.SiafundInputs[i].Parent.ID), &t.SiafundInputs[i].Parent.StateElement, true})
	}
	for i := range t.FileContractRevisions {
		out = append(out, elemRef{"v2fcid:" + hx8(t.FileContractRevisions[i].Parent.ID[:]), &t.FileContractRevisions[i].Parent.StateElement, false})
	}
	for i := range t.FileContractResolutions {
		out = append(out, elemRef{"v2fcid:" + hx8(t.FileContractResolutions[i].Parent.ID[:]), &t.FileContractResolutions[i].Parent.StateElement, false})
		if sp, ok := t.FileContractResolutions[i].Resolution.(*types.V2StorageProof); ok {
			out = append(out, elemRef{poolsim.CiKey(sp.ProofIndex.ChainIndex), &sp.ProofIndex.StateElement, false})
		}
	}
	return out
}

func sameProof(a, b []types.Hash256) bool {
	if len(a) != len(b) {
		return false
	}
	for i := range a {
		if a[i] != b[i] {
			return false
		}
	}
	return true
}

func deepCopy(ts []types.V2Transaction) []types.V2Transaction {
	out := make([]types.V2Transaction, len(ts))
	for i := range ts {
		out[i] = ts[i].DeepCopy()
	}
	return out
}

func encAll(ts []types.V2Transaction) []byte {
	var b []byte
	for _, t := range ts {
		b = append(b, poolsim.EncV2(t)...)
	}
	return b
}

type env struct {
	w      *poolsim.World
	r      *poolsim.Runner
	st     stats
	report func(kind, detail string)
	// skipValid: the set is not meant to validate as a sequence (a duplicated member)
	skipValid bool
}

// buildSet makes a set valid at node `at` (proofs of that node).
func (e *env) buildSet(g *rng.R, at, toN *chaingen.Node, kind string) ([]types.V2Transaction, []poolsim.Meta) {
	w := e.w
	if at.Height+1 < w.Env.Net.HardforkV2.AllowHeight {
		return nil, nil
	}
	in := w.Info(at)
	free := w.Spendable(in, types.Siacoins(40))
	m := poolsim.Meta{SignedAt: at.Height, POK: true}
	one := types.Siacoins(1)
	var set []types.V2Transaction
	switch kind {
	case "fresh":
		if len(free) == 0 {
			return nil, nil
		}
		for i := 0; i < 1+g.Intn(2) && i < len(free); i++ {
			set = append(set, w.Env.V2Spend(at.FullState, free[(g.Intn(len(free))+i)%len(free)], one, one, w.Env.Payees[0], 0, byte(i)))
		}
		if len(set) == 2 && set[0].ID() == set[1].ID() {
			set = set[:1]
		}
	case "eph-chain":
		if len(free) == 0 {
			return nil, nil
		}
		p := w.Env.V2Spend(at.FullState, free[g.Intn(len(free))], one, one, w.Env.Payees[0], 0, 1)
		set = append(set, p)
		for i := 0; i < 1+g.Intn(2); i++ {
			c := w.Env.V2Spend(at.FullState, p.EphemeralSiacoinOutput(len(p.SiacoinOutputs)-1), one, one, w.Env.Payees[1], 0, 2)
			set = append(set, c)
			p = c
		}
	case "mixed":
		if len(free) < 2 {
			return nil, nil
		}
		i := g.Intn(len(free))
		j := (i + 1 + g.Intn(len(free)-1)) % len(free)
		p := w.Env.V2Spend(at.FullState, free[i], one, one, w.Env.Payees[0], 0, 1)
		c := w.Env.V2SpendMulti(at.FullState, []types.SiacoinElement{free[j], p.EphemeralSiacoinOutput(len(p.SiacoinOutputs) - 1)}, one)
		set = []types.V2Transaction{p, c}
	case "block-child":
		// the transactions a child block of `at` carries (every kind the generator produces:
		// contract formations, revisions, renewals, storage proofs, expirations, siafunds)
		var kids []*chaingen.Node
		for _, c := range at.Children {
			if c.ChainValid() && len(c.Block.V2Transactions()) > 0 {
				kids = append(kids, c)
			}
		}
		if len(kids) == 0 {
			return nil, nil
		}
		c := kids[g.Intn(len(kids))]
		for _, t := range c.Block.V2Transactions() {
			if len(t.SiacoinInputs)+len(t.SiafundInputs)+len(t.FileContractRevisions)+len(t.FileContractResolutions) > 0 {
				set = append(set, t.DeepCopy())
			}
		}
		if len(set) == 0 {
			return nil, nil
		}
		for _, k := range c.Kinds {
			e.st["set-kind:"+k]++
		}
	case "block-parent", "block-parent-child-only":
		// a transaction P of a child block of `at` together with a new child spending one of
		// P's outputs (siacoin or siafund) ephemerally: rebasing past that block confirms P and
		// must give the child's input the created element
		var kids []*chaingen.Node
		for _, c := range at.Children {
			if c.ChainValid() && len(c.Block.V2Transactions()) > 0 {
				kids = append(kids, c)
			}
		}
		if len(kids) == 0 {
			return nil, nil
		}
		c := kids[g.Intn(len(kids))]
		var cands []types.V2Transaction
		for _, t := range c.Block.V2Transactions() {
			for _, o := range t.SiacoinOutputs {
				if o.Address == w.Env.Addr && o.Value.Cmp(types.Siacoins(10)) > 0 {
					cands = append(cands, t)
					break
				}
			}
			for _, o := range t.SiafundOutputs {
				if o.Address == w.Env.Addr {
					cands = append(cands, t)
					break
				}
			}
		}
		if len(cands) == 0 {
			return nil, nil
		}
		p := cands[g.Intn(len(cands))].DeepCopy()
		var child types.V2Transaction
		done := false
		if len(p.SiafundOutputs) > 0 && (g.Bool() || len(p.SiacoinOutputs) == 0) {
			for i, o := range p.SiafundOutputs {
				if o.Address == w.Env.Addr && !done {
					child = types.V2Transaction{
						SiafundInputs:  []types.V2SiafundInput{{Parent: p.EphemeralSiafundOutput(i), ClaimAddress: w.Env.Addr}},
						SiafundOutputs: []types.SiafundOutput{{Address: w.Env.Payees[0], Value: o.Value}},
					}
					w.Env.SignV2(at.FullState, &child)
					done = true
					e.st["set-kind:ephemeral-siafund-child"]++
				}
			}
		}
		if !done {
			for i, o := range p.SiacoinOutputs {
				if o.Address == w.Env.Addr && o.Value.Cmp(types.Siacoins(10)) > 0 && !done {
					child = w.Env.V2Spend(at.FullState, p.EphemeralSiacoinOutput(i), one, one, w.Env.Payees[0], 0, 3)
					done = true
					e.st["set-kind:ephemeral-siacoin-child"]++
				}
			}
		}
		if !done {
			return nil, nil
		}
		set = []types.V2Transaction{p, child}
		if kind == "block-parent-child-only" {
			// the creator of the ephemeral input is not part of the set that is rebased
			set = []types.V2Transaction{child}
		}
	case "multi-confirm":
		// members that different blocks of the path confirm (taken from those blocks, their proofs
		// moved back to `at` with the independent ledger), plus one that is never confirmed; any order
		var path []*chaingen.Node
		if _, app := poolsim.TreePath(at, toN); len(app) >= 2 && app[0].Parent == at {
			path = app
		} else {
			// any chain of descendants of `at`
			for x := at; len(x.Children) > 0 && len(path) < 4; {
				var next *chaingen.Node
				for _, c := range x.Children {
					if c.ChainValid() {
						next = c
					}
				}
				if next == nil {
					break
				}
				path = append(path, next)
				x = next
			}
		}
		all := in.All
		usedIn := map[types.SiacoinOutputID]bool{}
		for _, blk := range path {
			var cands []types.V2Transaction
			for _, t := range blk.Block.V2Transactions() {
				c := t.DeepCopy()
				ok := len(c.SiacoinInputs)+len(c.SiafundInputs)+len(c.FileContractRevisions)+len(c.FileContractResolutions) > 0
				for _, el := range elems(&c) {
					se, known := all[el.key]
					if !known || el.se.LeafIndex == types.UnassignedLeafIndex {
						ok = false
						break
					}
					*el.se = se.Copy()
				}
				// the elements must still be the unspent ones of `at`
				if ok && in.N.FullState.Elements.ValidateTransactionElements(c) == nil {
					cands = append(cands, c)
				}
			}
			if len(cands) > 0 && (len(set) < 3) {
				c := cands[g.Intn(len(cands))]
				set = append(set, c)
				for _, sci := range c.SiacoinInputs {
					usedIn[sci.Parent.ID] = true
				}
			}
		}
		if len(set) < 2 {
			return nil, nil
		}
		e.st["multi-confirm-sets"]++
		for _, f := range free {
			if !usedIn[f.ID] {
				set = append(set, w.Env.V2Spend(at.FullState, f, one, one, w.Env.Payees[0], 0, 5))
				break
			}
		}
		// any order
		for i := len(set) - 1; i > 0; i-- {
			j := g.Intn(i + 1)
			set[i], set[j] = set[j], set[i]
		}
	case "builder":
		b := w.Env.NewBuilder(chaingen.Blocks(w.T.Path(at)))
		for i := 0; i < 3; i++ {
			b.AddTx(g, []string{"v2-transfer", "v2-ephemeral", "v2-siafund", "v2-form", "v2-revise", "v2-renew", "v2-proof", "v2-expire"}[g.Intn(8)])
		}
		_, set = b.PoolOf()
		if len(set) == 0 {
			return nil, nil
		}
		for _, k := range b.Kinds {
			e.st["set-kind:"+k]++
		}
	}
	ms := make([]poolsim.Meta, len(set))
	for i := range ms {
		ms[i] = m
	}
	return set, ms
}

// expectation for a rebase, computed from the tree and the generator's ledgers
type expect struct {
	mustErr   string // "" or the reason an error is required
	mayErr    string // reasons an error is acceptable
	keepIDs   []types.TransactionID
	confirmed map[string]bool // element keys created on the applied blocks
}

func (e *env) expectation(txs []types.V2Transaction, fromN, toN *chaingen.Node, fromOK bool, pok bool) expect {
	var ex expect
	r := e.r
	if !fromOK {
		ex.mustErr = "unknown or inconsistent basis"
		return ex
	}
	if !pok {
		ex.mustErr = "a proof does not verify against the basis"
		return ex
	}
	rev, app := poolsim.TreePath(fromN, toN)
	if poolsim.TooFar(len(rev) + len(app)) {
		ex.mustErr = fmt.Sprintf("path longer than the supported distance (%d blocks)", poolsim.MaxDist)
		return ex
	}
	for _, x := range append(append([]*chaingen.Node(nil), rev...), app...) {
		if !r.Applied[x] {
			ex.mayErr = "a block of the path was never applied by the node (no supplement)"
		}
	}
	// elements must exist at the common ancestor
	anc := fromN
	if len(rev) > 0 {
		anc = rev[len(rev)-1].Parent
	}
	ancNum := e.w.Info(anc).Num
	for i := range txs {
		for _, el := range elems(&txs[i]) {
			if el.se.LeafIndex != types.UnassignedLeafIndex && el.se.LeafIndex >= ancNum {
				ex.mayErr = "an element was created in a reverted block"
			}
		}
	}
	conf := map[types.TransactionID]bool{}
	ex.confirmed = map[string]bool{}
	for _, x := range app {
		for _, t := range x.Block.V2Transactions() {
			conf[t.ID()] = true
		}
		for _, c := range e.w.Info(x).Created {
			ex.confirmed[c.Key] = true
		}
	}
	for _, t := range txs {
		if !conf[t.ID()] {
			ex.keepIDs = append(ex.keepIDs, t.ID())
		}
	}
	return ex
}

// judge compares the outcome of a rebase with the expectation and the ledger of the target.
func (e *env) judge(what string, orig, out []types.V2Transaction, err error, ex expect, toN *chaingen.Node) {
	if err != nil {
		if ex.mustErr == "" && ex.mayErr == "" {
			e.report("c13-rebase-unexpected-error", fmt.Sprintf("%s: every precondition holds (known applied basis and path, valid proofs, elements older than the fork point) but the call failed: %v", what, err))
		}
		e.st["rebase-errors"]++
		return
	}
	if ex.mustErr != "" {
		e.report("c13-rebase-missing-error", fmt.Sprintf("%s: %s, yet the call succeeded", what, ex.mustErr))
		return
	}
	if ex.mayErr != "" {
		// e.g. an element created in a reverted block but re-created... the model decides; only shape checks below
	}
	var got []types.TransactionID
	for _, t := range out {
		got = append(got, t.ID())
	}
	if fmt.Sprint(got) != fmt.Sprint(ex.keepIDs) {
		e.report("c13-rebase-wrong-set", fmt.Sprintf("%s: expected the %d transactions not confirmed on the path in their order, got %d (ids differ or are reordered)", what, len(ex.keepIDs), len(got)))
		return
	}
	e.st["rebase-ok"]++
	if !e.skipValid {
		e.validAtTarget(what, orig, out, toN)
	}
	if len(got) < len(orig) {
		e.st["rebase-dropped-confirmed"]++
	}
	all := e.w.Info(toN).All
	oi := map[types.TransactionID]*types.V2Transaction{}
	for i := range orig {
		oi[orig[i].ID()] = &orig[i]
	}
	for i := range out {
		oe := elems(oi[out[i].ID()])
		for j, el := range elems(&out[i]) {
			wasEph := oe[j].se.LeafIndex == types.UnassignedLeafIndex
			want, inLedger := all[el.key]
			switch {
			case wasEph && !(el.sc && ex.confirmed[el.key]):
				if el.se.LeafIndex != types.UnassignedLeafIndex {
					e.report("c13-rebase-wrong-element", fmt.Sprintf("%s: an ephemeral input that is not created on the path came back with leaf %d", what, el.se.LeafIndex))
					return
				}
				e.st["inputs-still-ephemeral"]++
			case wasEph:
				if !inLedger || el.se.LeafIndex != want.LeafIndex || !sameProof(el.se.MerkleProof, want.MerkleProof) {
					e.report("c13-rebase-wrong-element", fmt.Sprintf("%s: ephemeral input %s was confirmed on the path but its StateElement (leaf %d) is not the ledger's at the target (leaf %d, known %v)", what, el.key, el.se.LeafIndex, want.LeafIndex, inLedger))
					return
				}
				e.st["ephemeral-inputs-assigned"]++
			default:
				if !inLedger {
					e.report("c13-rebase-wrong-element", fmt.Sprintf("%s: input %s is not a leaf of the target's accumulator", what, el.key))
					return
				}
				if el.se.LeafIndex != want.LeafIndex || !sameProof(el.se.MerkleProof, want.MerkleProof) {
					e.report("c13-rebase-wrong-element", fmt.Sprintf("%s: input %s has leaf %d / a proof of %d hashes, the ledger at the target has leaf %d / %d hashes%s", what, el.key, el.se.LeafIndex, len(el.se.MerkleProof), want.LeafIndex, len(want.MerkleProof), map[bool]string{false: "", true: " (same lengths, different hashes)"}[len(el.se.MerkleProof) == len(want.MerkleProof)]))
					return
				}
				e.st["inputs-equal-to-ledger"]++
			}
		}
	}
}

// ledgerCheck: every input of a set that is claimed valid for node n equals the independent
// ledger's element at n (leaf index and proof); an input still marked ephemeral must not be an
// element of n's chain unless an earlier member of the set creates it.
func (e *env) ledgerCheck(what string, set []types.V2Transaction, n *chaingen.Node) bool {
	all := e.w.Info(n).All
	made := map[string]bool{}
	for i := range set {
		for _, el := range elems(&set[i]) {
			want, known := all[el.key]
			if el.se.LeafIndex == types.UnassignedLeafIndex {
				if known && !made[el.key] && el.sc {
					e.report("c13-rebase-left-confirmed-input-ephemeral", fmt.Sprintf("%s: input %s is returned as ephemeral although it is leaf %d of the target's accumulator and no earlier member creates it", what, el.key, want.LeafIndex))
					return false
				}
				continue
			}
			if !known || el.se.LeafIndex != want.LeafIndex || !sameProof(el.se.MerkleProof, want.MerkleProof) {
				e.report("c13-rebase-wrong-element", fmt.Sprintf("%s: input %s (leaf %d) is not the ledger's element at the target (known %v, leaf %d)", what, el.key, el.se.LeafIndex, known, want.LeafIndex))
				return false
			}
			e.st["inputs-equal-to-ledger"]++
		}
		a := e.w.AbsV2(set[i], poolsim.Meta{POK: true})
		for _, o := range a.Outs {
			made[o.Key] = true
		}
	}
	return true
}

// validAtTarget: the rebased set must validate in order on the generator's state of the target,
// unless the tree itself explains why it cannot (an input spent or never created on the target's
// branch, a creator that is neither in the set nor confirmed, a height window that ended).
func (e *env) validAtTarget(what string, orig, out []types.V2Transaction, toN *chaingen.Node) {
	if len(out) == 0 {
		return
	}
	pos, err := e.w.ValidatePool(toN, nil, out)
	if err == nil {
		e.st["rebased-sets-validated-at-target"]++
		return
	}
	// a siafund element also carries ClaimStart, which the caller of an ephemeral siafund input
	// cannot know and the rebase does not fill in: such a set is judged by the ledger comparison only
	for i := range orig {
		for _, in := range orig[i].SiafundInputs {
			if in.Parent.StateElement.LeafIndex == types.UnassignedLeafIndex {
				e.st["rebased-set-invalid:ephemeral-siafund-claimstart"]++
				return
			}
		}
	}
	in := e.w.Info(toN)
	unspent := map[string]bool{}
	for _, le := range in.LedgerEntries() {
		unspent[le.Key] = true
	}
	made := map[string]bool{}
	for i := range out {
		a := e.w.AbsV2(out[i], poolsim.Meta{POK: true})
		if toN.Height+1 < a.Lo || toN.Height+1 > a.Hi {
			e.st["rebased-set-invalid:height-window"]++
			return
		}
		for _, ai := range a.Ins {
			if ai.Leaf == types.UnassignedLeafIndex {
				if !made[ai.Key] {
					// ephemeral and not created by an earlier member: legitimate only if nothing on the
					// target's chain created it either (then the caller's set was incomplete)
					if _, known := in.All[ai.Key]; !known {
						e.st["rebased-set-invalid:creator-missing"]++
						return
					}
					e.report("c13-rebase-left-confirmed-input-ephemeral", fmt.Sprintf("%s: input %s is still marked ephemeral although the target's chain contains the element (leaf %d); the set does not validate at the target: %v", what, ai.Key, in.All[ai.Key].LeafIndex, err))
					return
				}
				continue
			}
			if ai.Role != 2 && !unspent[ai.Key] {
				e.st["rebased-set-invalid:input-spent-at-target"]++
				return
			}
		}
		for _, o := range a.Outs {
			made[o.Key] = true
		}
	}
	// a set that revises or resolves contracts depends on contract state that differs between
	// branches (revision numbers, proof windows): decided by core, not judged here
	for i := range out {
		if len(out[i].FileContractRevisions)+len(out[i].FileContractResolutions) > 0 {
			e.st["rebased-set-invalid:contract-state"]++
			return
		}
	}
	e.report("c13-rebased-set-not-valid-at-target", fmt.Sprintf("%s: every input is unspent at the target and inside its height window, yet the returned set does not validate in order at the target (position %d): %v", what, pos, err))
}

func runCase(cs poolsim.Case, coqWanted bool) (coqOut string, failOut *failure, stOut stats, rOut *poolsim.Runner) {
	var t *chaingen.Tree
	var w *poolsim.World
	var fail *failure
	defer func() {
		if p := recover(); p != nil {
			coqOut, failOut = "", &failure{"c13-state-corrupted", fmt.Sprint("the history broke an invariant of the harness (memory shared with the manager was modified?): ", p)}
			if fail != nil {
				failOut = fail // the monitor that fired first names the violation
			}
			if stOut == nil {
				stOut = stats{}
			}
		}
	}()
	t = cs.Tree()
	w = poolsim.NewWorld(t)
	report := func(kind, detail string) {
		if fail == nil {
			fail = &failure{kind, detail}
		}
	}
	r := poolsim.NewRunner(w, report)
	st := stats{}
	e := &env{w: w, r: r, st: st, report: report}
	// a third of the histories read the pool from inside the reorg / pool-change notifications
	if cs.Seed%3 == 0 {
		r.Listen()
		st["histories-with-listener-reads"]++
	}
	nodeByIdx := func(i int) *chaingen.Node {
		if i < 0 || i >= len(t.Nodes) {
			return nil
		}
		return t.Nodes[i]
	}
	// doUpdate: one UpdateV2TransactionSet call with its expectation, monitors and counters
	doUpdate := func(g *rng.R, set []types.V2Transaction, metas []poolsim.Meta, fromN, toN *chaingen.Node, kind, corrupt string) ([]types.V2Transaction, bool) {
		from, to := w.Info(fromN).Index, w.Info(toN).Index
		fromOK, heightOff, toBad := true, false, ""
		switch corrupt {
		case "unknown-target":
			g.Bytes(to.ID[:])
			toBad = "the target index is unknown"
		case "zero-target":
			to = types.ChainIndex{}
			toBad = "the target is the zero index"
		case "target-height":
			// a known block under a wrong height
			to.Height += 1 + uint64(g.Intn(3))
			heightOff = true
		case "proof":
			done := false
			for i := range set {
				for _, el := range elems(&set[i]) {
					if !done && len(el.se.MerkleProof) > 0 {
						*el.se = el.se.Copy()
						el.se.MerkleProof[g.Intn(len(el.se.MerkleProof))][3] ^= 4
						done = true
					}
				}
			}
			if !done {
				return nil, false
			}
		case "leaf":
			done := false
			for i := range set {
				for _, el := range elems(&set[i]) {
					if !done && el.se.LeafIndex != types.UnassignedLeafIndex {
						*el.se = el.se.Copy()
						el.se.LeafIndex ^= 1
						done = true
					}
				}
			}
		case "unknown-basis":
			g.Bytes(from.ID[:])
			fromOK = false
		case "basis-height":
			// a known block under a wrong height: the code looks the basis up by id, so it may
			// still find a path; whatever it returns must agree with the ledger at the target
			from.Height += 1 + uint64(g.Intn(3))
			heightOff = true
		}
		// the accumulator the manager holds for the basis decides whether the proofs verify
		pok := true
		if corrupt != "unknown-basis" {
			els := r.StoredElements(fromN).FullState.Elements
			for i := range set {
				ok := els.ValidateTransactionElements(set[i]) == nil
				metas[i].POK = ok
				pok = pok && ok
			}
		}
		ex := e.expectation(set, fromN, toN, fromOK, pok)
		if heightOff && ex.mustErr == "" {
			ex.mayErr = "the height of an index does not match its block"
		}
		if toBad != "" && ex.mustErr == "" {
			ex.mustErr = toBad
		}
		if corrupt != "" {
			st["corruption:"+corrupt]++
		}
		st["set-shape:"+kind]++
		orig := deepCopy(set)
		r.CorruptIndex = heightOff
		out, err, pan := r.Update(set, metas, from, to)
		st["updates"]++
		d := len(func() []*chaingen.Node { a, b := poolsim.TreePath(fromN, toN); return append(a, b...) }())
		st[fmt.Sprintf("distance:%d", min(d, 7))]++
		rv, _ := poolsim.TreePath(fromN, toN)
		if len(rv) > 0 && d > len(rv) {
			st["updates-across-forks"]++
		}
		what := fmt.Sprintf("UpdateV2TransactionSet(%s set of %d%s, block %d -> block %d)", kind, len(set), map[bool]string{true: ", corruption " + corrupt, false: ""}[corrupt != ""], fromN.Idx, toN.Idx)
		if pan {
			report("c13-panic", what+" panicked")
			return nil, false
		}
		if from == to {
			return nil, false
		}
		e.skipValid = kind == "dup"
		e.judge(what, orig, out, err, ex, toN)
		return out, err == nil && fail == nil
	}
	for _, stp := range cs.Plan {
		if fail != nil {
			break
		}
		g := rng.New(stp.Seed ^ cs.Seed)
		switch stp.Kind {
		case "chain":
			r.Chain(stp.Op)
		case "update", "update2":
			// stp.Op.Nodes = [from, to] (update2: [from, via, to]); Flavor = set kind [+ "/" + corruption]
			fromN, toN := nodeByIdx(stp.Op.Nodes[0]), nodeByIdx(stp.Op.Nodes[1])
			if fromN == nil || toN == nil || !fromN.ChainValid() || !toN.ChainValid() || !r.Known[fromN] || !r.Known[toN] {
				continue
			}
			kind, corrupt := stp.Flavor, ""
			if i := bytes.IndexByte([]byte(kind), '/'); i >= 0 {
				kind, corrupt = stp.Flavor[:i], stp.Flavor[i+1:]
			}
			var set []types.V2Transaction
			var metas []poolsim.Meta
			switch kind {
			case "empty":
				// no transactions at all (nil and empty alternate): the indices are still judged
				if g.Bool() {
					set = []types.V2Transaction{}
				}
			case "dup":
				// the same transaction twice
				set, metas = e.buildSet(g, fromN, toN, "fresh")
				if len(set) == 0 {
					st["update-skipped"]++
					continue
				}
				set, metas = append(set[:1:1], poolsim.CopyV2(set[0])), append(metas[:1:1], metas[0])
			default:
				set, metas = e.buildSet(g, fromN, toN, kind)
				if len(set) == 0 {
					st["update-skipped"]++
					continue
				}
			}
			out, ok := doUpdate(g, set, metas, fromN, toN, kind, corrupt)
			if stp.Kind == "update2" && ok && len(out) > 0 && len(stp.Op.Nodes) > 2 {
				// history dependence: what the first call returned (the very same objects) is the input of a
				// second rebase from the first target to a third block
				if cN := nodeByIdx(stp.Op.Nodes[2]); cN != nil && cN.ChainValid() && r.Known[cN] {
					m2 := make([]poolsim.Meta, len(out))
					for i := range out {
						m2[i] = poolsim.Meta{SignedAt: fromN.Height, POK: true}
					}
					st["chained-rebases"]++
					doUpdate(g, out, m2, toN, cN, kind+" (output of a previous rebase)", "")
				}
			}
		case "reopen":
			// a new manager over the same store (the pool is in memory only: done while it is empty)
			if p1, p2 := r.Pool(); len(p1)+len(p2) == 0 {
				if r.LastReverted() != nil {
					r.NoCoq = "reopened (the re-offered transactions of the last reverted block are forgotten)"
				}
				if o := r.Sim.Do(mgrsim.Op{Kind: "reopen"}); o.Err || o.Panic {
					report("c13-panic", "reopening the manager over its store failed: "+o.ErrText)
					continue
				}
				r.CM = r.Sim.CM
				st["reopens"]++
			}
		case "submit":
			if s := r.Fabricate(g, stp.Flavor); s != nil {
				var snap []byte
				if s.V2 {
					snap = encAll(s.V2s)
					_, _, pan := r.Submit2(s.Basis, s.V2s, s.Metas)
					if pan {
						report("c13-panic", "AddV2PoolTransactions("+s.Flavor+") panicked")
					} else if !bytes.Equal(snap, encAll(s.V2s)) {
						report("c13-input-modified", "AddV2PoolTransactions modified the caller's transactions ("+s.Flavor+" set)")
					}
				} else {
					r.Submit1(s.V1, s.Metas)
				}
				st["submit:"+s.Flavor]++
			}
		case "submit-at":
			// AddV2PoolTransactions with a fresh transaction built at another block as basis
			bn := nodeByIdx(stp.Op.Nodes[0])
			tip := r.Tip
			if bn == nil || !r.Known[bn] || !bn.ChainValid() || tip.Height+1 < w.Env.Net.HardforkV2.AllowHeight {
				continue
			}
			_, p2 := r.Pool()
			used := map[types.SiacoinOutputID]bool{}
			for _, x := range p2 {
				for _, in := range x.SiacoinInputs {
					used[in.Parent.ID] = true
				}
			}
			tipL := w.Info(tip).L
			var cand []types.SiacoinElement
			for _, el := range w.Spendable(w.Info(bn), types.Siacoins(40)) {
				if _, ok := tipL.SC[el.ID]; ok && !used[el.ID] {
					cand = append(cand, el)
				}
			}
			if len(cand) == 0 {
				continue
			}
			one := types.Siacoins(1)
			txn := w.Env.V2Spend(bn.FullState, cand[g.Intn(len(cand))], one, one, w.Env.Payees[0], 0, 6)
			m := poolsim.Meta{SignedAt: bn.Height, POK: r.StoredElements(bn).FullState.Elements.ValidateTransactionElements(txn) == nil}
			rv, ap := poolsim.TreePath(bn, tip)
			unavailable := false
			for _, x := range append(rv, ap...) {
				if !r.Applied[x] {
					unavailable = true
				}
			}
			_, err, pan := r.Submit2(w.Info(bn).Index, []types.V2Transaction{txn}, []poolsim.Meta{m})
			st[fmt.Sprintf("submit-at:-%d+%d", len(rv), len(ap))]++
			what := fmt.Sprintf("AddV2PoolTransactions(fresh transaction, basis block %d, tip block %d: %d reverted + %d applied)", bn.Idx, tip.Idx, len(rv), len(ap))
			switch {
			case pan:
				report("c13-panic", what+" panicked")
			case err == nil && poolsim.TooFar(len(rv)+len(ap)):
				report("c13-rebase-missing-error", fmt.Sprintf("%s: the basis is more than the supported distance (%d blocks) away, yet the set was accepted", what, poolsim.MaxDist))
			case err != nil && !poolsim.TooFar(len(rv)+len(ap)) && m.POK && !unavailable:
				report("c13-rebase-unexpected-error", fmt.Sprintf("%s failed: %v", what, err))
			}
		case "txset":
			// V2TransactionSet for a transaction with pooled ancestors
			_, p2 := r.Pool()
			p1, _ := r.Pool()
			tip := r.Tip
			if tip.Height+1 < w.Env.Net.HardforkV2.AllowHeight {
				continue
			}
			var txn types.V2Transaction
			firstCall := false // the call is made before the pool is read again
			pathTooLong, pathUnavailable := false, false
			m := poolsim.Meta{SignedAt: tip.Height, POK: true}
			basis := w.Info(tip).Index
			one := types.Siacoins(1)
			mine := func(o types.SiacoinOutput) bool {
				return o.Address == w.Env.Addr && o.Value.Cmp(types.Siacoins(10)) > 0
			}
			switch stp.Flavor {
			case "pooled":
				if len(p2) == 0 {
					continue
				}
				txn = p2[g.Intn(len(p2))]
			case "new-child":
				var cands []types.V2Transaction
				for _, p := range p2 {
					if n := len(p.SiacoinOutputs); n > 0 && mine(p.SiacoinOutputs[n-1]) {
						cands = append(cands, p)
					}
				}
				if len(cands) == 0 {
					continue
				}
				p := cands[g.Intn(len(cands))]
				txn = w.Env.V2Spend(tip.FullState, p.EphemeralSiacoinOutput(len(p.SiacoinOutputs)-1), one, one, w.Env.Payees[0], 0, 9)
			case "child-of-v1":
				var cands []types.Transaction
				for _, p := range p1 {
					if n := len(p.SiacoinOutputs); n > 0 && mine(p.SiacoinOutputs[n-1]) {
						cands = append(cands, p)
					}
				}
				if len(cands) == 0 {
					continue
				}
				p := cands[g.Intn(len(cands))]
				n := len(p.SiacoinOutputs) - 1
				eph := types.SiacoinElement{ID: p.SiacoinOutputID(n), SiacoinOutput: p.SiacoinOutputs[n], StateElement: types.StateElement{LeafIndex: types.UnassignedLeafIndex}}
				txn = w.Env.V2Spend(tip.FullState, eph, one, one, w.Env.Payees[0], 0, 9)
			case "diamond":
				// a transaction spending outputs of two pooled transactions, one an ancestor of the other
				free := w.Spendable(w.Info(tip), types.Siacoins(200))
				used := map[types.SiacoinOutputID]bool{}
				for _, x := range p2 {
					for _, in := range x.SiacoinInputs {
						used[in.Parent.ID] = true
					}
				}
				for _, x := range p1 {
					for _, in := range x.SiacoinInputs {
						used[in.ParentID] = true
					}
				}
				var in0 *types.SiacoinElement
				for i := range free {
					if !used[free[i].ID] {
						in0 = &free[i]
						break
					}
				}
				if in0 == nil {
					continue
				}
				b := w.Env.V2Spend(tip.FullState, *in0, one, types.Siacoins(50), w.Env.Addr, 0, 1)
				a := w.Env.V2Spend(tip.FullState, b.EphemeralSiacoinOutput(1), one, one, w.Env.Payees[0], 0, 2)
				if _, err, _ := r.Submit2(basis, []types.V2Transaction{b, a}, []poolsim.Meta{m, m}); err != nil {
					continue
				}
				_, p2 = r.Pool()
				ins := []types.SiacoinElement{b.EphemeralSiacoinOutput(0), a.EphemeralSiacoinOutput(1)}
				if g.Bool() {
					ins[0], ins[1] = ins[1], ins[0]
				}
				txn = w.Env.V2SpendMulti(tip.FullState, ins, one)
			case "basis-node":
				// a fresh transaction built at another block (Op.Nodes[0]), with that block as basis
				bn := nodeByIdx(stp.Op.Nodes[0])
				if bn == nil || !r.Known[bn] || !bn.ChainValid() {
					continue
				}
				used := map[types.SiacoinOutputID]bool{}
				for _, x := range p2 {
					for _, in := range x.SiacoinInputs {
						used[in.Parent.ID] = true
					}
				}
				tipL := w.Info(tip).L
				var cand []types.SiacoinElement
				for _, el := range w.Spendable(w.Info(bn), types.Siacoins(40)) {
					if _, ok := tipL.SC[el.ID]; ok && !used[el.ID] {
						cand = append(cand, el)
					}
				}
				if len(cand) == 0 {
					continue
				}
				txn = w.Env.V2Spend(bn.FullState, cand[g.Intn(len(cand))], one, one, w.Env.Payees[0], 0, 6)
				basis = w.Info(bn).Index
				m.SignedAt = bn.Height
				m.POK = r.StoredElements(bn).FullState.Elements.ValidateTransactionElements(txn) == nil
				rv, ap := poolsim.TreePath(bn, tip)
				pathTooLong = poolsim.TooFar(len(rv) + len(ap))
				for _, x := range append(rv, ap...) {
					if !r.Applied[x] {
						pathUnavailable = true
					}
				}
				st[fmt.Sprintf("txset-basis-node:-%d+%d", len(rv), len(ap))]++
			case "corrupt-at-tip":
				// a proof that does not verify (a flipped byte, or the proof of an older block) while the
				// claimed basis is exactly the tip
				free := w.Spendable(w.Info(tip), types.Siacoins(40))
				if len(free) == 0 {
					continue
				}
				el := free[g.Intn(len(free))]
				if g.Bool() && tip.Parent != nil {
					// the same element with its proof as of an ancestor
					anc := tip.Parent
					for k := g.Intn(3); k > 0 && anc.Parent != nil; k-- {
						anc = anc.Parent
					}
					if old, ok := w.Info(anc).L.SC[el.ID]; ok {
						el = old.Copy()
					}
				} else {
					el = el.Copy()
					if len(el.StateElement.MerkleProof) == 0 {
						continue
					}
					el.StateElement.MerkleProof[g.Intn(len(el.StateElement.MerkleProof))][5] ^= 8
				}
				txn = w.Env.V2Spend(tip.FullState, el, one, one, w.Env.Payees[0], 0, 4)
				m.POK = tip.FullState.Elements.ValidateTransactionElements(txn) == nil
				if m.POK {
					continue // the old proof still verifies: nothing to test
				}
				st["txset-corrupt-at-tip"]++
			case "after-block":
				// pool [parent, child]; a block confirms only the parent; V2TransactionSet(tip, child) is the
				// very next call that touches the pool (no query in between)
				free := w.Spendable(w.Info(tip), types.Siacoins(200))
				used := map[types.SiacoinOutputID]bool{}
				for _, x := range p2 {
					for _, in := range x.SiacoinInputs {
						used[in.Parent.ID] = true
					}
				}
				for _, x := range p1 {
					for _, in := range x.SiacoinInputs {
						used[in.ParentID] = true
					}
				}
				var in0 *types.SiacoinElement
				for i := range free {
					if !used[free[i].ID] {
						in0 = &free[i]
						break
					}
				}
				if in0 == nil {
					continue
				}
				par := w.Env.V2Spend(tip.FullState, *in0, one, types.Siacoins(50), w.Env.Addr, 0, 7)
				kid := w.Env.V2Spend(tip.FullState, par.EphemeralSiacoinOutput(1), one, one, w.Env.Payees[0], 0, 8)
				if _, err, _ := r.Submit2(basis, []types.V2Transaction{par, kid}, []poolsim.Meta{m, m}); err != nil {
					continue
				}
				// the pooled copy of the child is what a wallet would rebroadcast
				_, cur := r.Pool()
				found := false
				for _, x := range cur {
					if x.ID() == kid.ID() {
						txn, found = x, true
					}
				}
				if !found {
					continue
				}
				blk := poolsim.AssembleBlock(tip, nil, []types.V2Transaction{par})
				r.DeferNext = true
				if !r.Adopt(blk) {
					r.DeferNext = false
					continue
				}
				// (the caller's copy is valid for the old tip, which stays the basis)
				tip = r.Tip
				firstCall = true
				st["txset-first-call-after-block"]++
			case "parent-mined":
				// parent pooled at the basis, child built on its ephemeral output, parent mined, then the
				// set for the child alone is requested with the old basis
				free := w.Spendable(w.Info(tip), types.Siacoins(200))
				used := map[types.SiacoinOutputID]bool{}
				for _, x := range p2 {
					for _, in := range x.SiacoinInputs {
						used[in.Parent.ID] = true
					}
				}
				for _, x := range p1 {
					for _, in := range x.SiacoinInputs {
						used[in.ParentID] = true
					}
				}
				var in0 *types.SiacoinElement
				for i := range free {
					if !used[free[i].ID] {
						in0 = &free[i]
						break
					}
				}
				if in0 == nil {
					continue
				}
				par := w.Env.V2Spend(tip.FullState, *in0, one, types.Siacoins(50), w.Env.Addr, 0, 7)
				if _, err, _ := r.Submit2(basis, []types.V2Transaction{par}, []poolsim.Meta{m}); err != nil {
					continue
				}
				txn = w.Env.V2Spend(tip.FullState, par.EphemeralSiacoinOutput(g.Intn(2)), one, one, w.Env.Payees[0], 0, 8)
				mined := 0
				for k := 0; k < 1+g.Intn(2); k++ {
					if b, ok := r.MineOnly(); ok && r.Adopt(b) {
						mined++
					}
				}
				if mined == 0 {
					continue
				}
				p1, p2 = r.Pool()
				tip = r.Tip
				st["txset-parent-mined-blocks"] += mined
			case "stale-child":
				// a transaction built at an earlier block with a confirmed and a pooled parent
				anc := tip.Parent
				if anc == nil || anc.Height+1 < w.Env.Net.HardforkV2.AllowHeight || len(p2) == 0 {
					continue
				}
				p := p2[g.Intn(len(p2))]
				n := len(p.SiacoinOutputs)
				if n == 0 || !mine(p.SiacoinOutputs[n-1]) {
					continue
				}
				var free []types.SiacoinElement
				used := map[types.SiacoinOutputID]bool{}
				for _, x := range p2 {
					for _, in := range x.SiacoinInputs {
						used[in.Parent.ID] = true
					}
				}
				for _, x := range p1 {
					for _, in := range x.SiacoinInputs {
						used[in.ParentID] = true
					}
				}
				tipL := w.Info(tip).L
				for _, el := range w.Spendable(w.Info(anc), types.Siacoins(40)) {
					if _, ok := tipL.SC[el.ID]; ok && !used[el.ID] {
						free = append(free, el)
					}
				}
				if len(free) == 0 {
					continue
				}
				txn = w.Env.V2SpendMulti(anc.FullState, []types.SiacoinElement{free[g.Intn(len(free))], p.EphemeralSiacoinOutput(n - 1)}, one)
				basis = w.Info(anc).Index
				m.SignedAt = anc.Height
				m.POK = r.StoredElements(anc).FullState.Elements.ValidateTransactionElements(txn) == nil
			default:
				continue
			}
			// expected parents: the closure over pooled v2 transactions through created outputs
			anc := map[int]bool{}
			closure := func() {
				made := map[types.SiacoinOutputID]int{}
				for i, p := range p2 {
					for j := range p.SiacoinOutputs {
						made[p.SiacoinOutputID(p.ID(), j)] = i
					}
				}
				var walk func(t types.V2Transaction)
				walk = func(t types.V2Transaction) {
					for _, in := range t.SiacoinInputs {
						if i, ok := made[in.Parent.ID]; ok && !anc[i] {
							anc[i] = true
							walk(p2[i])
						}
					}
				}
				walk(txn)
			}
			if !firstCall {
				closure()
			}
			snap := poolsim.EncV2(txn)
			idx, set, err, pan := r.TxSet(basis, txn, m)
			if firstCall {
				// the pool is read only now: what it reports after the call is what the call had to use
				p1, p2 = r.Pool()
				closure()
			}
			st["txset:"+stp.Flavor]++
			what := fmt.Sprintf("V2TransactionSet(%s, pool of %d v1 + %d v2, %d pooled ancestors)", stp.Flavor, len(p1), len(p2), len(anc))
			if pan {
				report("c13-panic", what+" panicked")
				continue
			}
			if !bytes.Equal(snap, poolsim.EncV2(txn)) {
				report("c13-input-modified", what+" modified the caller's transaction")
				continue
			}
			if err != nil {
				if m.POK && stp.Flavor != "child-of-v1" && !pathTooLong && !pathUnavailable {
					report("c13-set-unexpected-error", fmt.Sprintf("%s failed: %v", what, err))
				}
				continue
			}
			if !m.POK {
				report("c13-set-missing-error", what+": a proof of the transaction does not verify against the claimed basis, yet the call succeeded")
				continue
			}
			if pathTooLong {
				report("c13-set-missing-error", fmt.Sprintf("%s: the basis is more than the supported distance (%d blocks, reverted plus applied) away from the tip, yet the call succeeded", what, poolsim.MaxDist))
				continue
			}
			if idx != w.Info(tip).Index {
				report("c13-set-basis-not-tip", fmt.Sprintf("%s returned basis %v, the tip is %v", what, idx, w.Info(tip).Index))
				continue
			}
			if len(set) == 0 || set[len(set)-1].ID() != txn.ID() {
				report("c13-set-wrong-members", what+": the transaction itself is not the last member")
				continue
			}
			gotAnc := map[types.TransactionID]bool{}
			for _, x := range set[:len(set)-1] {
				gotAnc[x.ID()] = true
			}
			okMembers := len(gotAnc) == len(anc) && len(set)-1 == len(anc)
			for i := range anc {
				okMembers = okMembers && gotAnc[p2[i].ID()]
			}
			if !okMembers {
				report("c13-set-wrong-members", fmt.Sprintf("%s returned %d parents; the pooled ancestors are %d (an unrelated or missing transaction)", what, len(set)-1, len(anc)))
				continue
			}
			if !e.ledgerCheck(what, set, tip) {
				continue
			}
			if stp.Flavor != "child-of-v1" {
				// parents first and proofs at the tip: the set validates in order on the generator's state of the tip
				if pos, verr := w.ValidatePool(tip, nil, set); verr != nil {
					report("c13-set-not-valid-at-tip", fmt.Sprintf("%s: the returned set does not validate in order at the tip (position %d): %v", what, pos, verr))
					continue
				}
				st["txsets-validated-at-tip"]++
			}
			if len(anc) > 0 {
				st["txsets-with-parents"]++
			}
		case "parents":
			p1, p2 := r.Pool()
			tip := r.Tip
			if tip.Height+1 >= w.Env.Net.HardforkV2.RequireHeight {
				continue
			}
			one := types.Siacoins(1)
			var txn types.Transaction
			firstCall := false
			m := poolsim.Meta{SignedAt: tip.Height, POK: true}
			switch stp.Flavor {
			case "after-block":
				// pool [parent, child] (v1); a block confirms only the parent; UnconfirmedParents(child) is
				// the next call that touches the pool
				if tip.Height+2 >= w.Env.Net.HardforkV2.RequireHeight {
					continue
				}
				free := w.Spendable(w.Info(tip), types.Siacoins(200))
				used := map[types.SiacoinOutputID]bool{}
				for _, x := range p2 {
					for _, in := range x.SiacoinInputs {
						used[in.Parent.ID] = true
					}
				}
				for _, x := range p1 {
					for _, in := range x.SiacoinInputs {
						used[in.ParentID] = true
					}
				}
				var in0 *types.SiacoinElement
				for i := range free {
					if !used[free[i].ID] {
						in0 = &free[i]
						break
					}
				}
				if in0 == nil {
					continue
				}
				par := w.Env.V1Spend(tip.FullState, in0.ID, in0.SiacoinOutput.Value, one, types.Siacoins(50), w.Env.Addr, 0, 1)
				kid := w.Env.V1Spend(tip.FullState, par.SiacoinOutputID(1), par.SiacoinOutputs[1].Value, one, one, w.Env.Payees[0], 0, 2)
				if _, err, _ := r.Submit1([]types.Transaction{par, kid}, []poolsim.Meta{m, m}); err != nil {
					continue
				}
				// the replay prefix of v1 signatures changes at the hardfork heights: stay inside one window
				if a := w.AbsV1(kid, m); tip.Height+2 < a.Lo || tip.Height+2 > a.Hi {
					continue
				}
				txn = kid
				blk := poolsim.AssembleBlock(tip, []types.Transaction{par}, nil)
				r.DeferNext = true
				if !r.Adopt(blk) {
					r.DeferNext = false
					continue
				}
				tip = r.Tip
				firstCall = true
				st["parents-first-call-after-block"]++
			case "pooled":
				if len(p1) == 0 {
					continue
				}
				txn = p1[g.Intn(len(p1))]
			case "new-child":
				if len(p1) == 0 {
					continue
				}
				p := p1[g.Intn(len(p1))]
				n := len(p.SiacoinOutputs) - 1
				if n < 0 || p.SiacoinOutputs[n].Address != w.Env.Addr || p.SiacoinOutputs[n].Value.Cmp(types.Siacoins(10)) < 0 {
					continue
				}
				txn = w.Env.V1Spend(tip.FullState, p.SiacoinOutputID(n), p.SiacoinOutputs[n].Value, one, one, w.Env.Payees[0], 0, 0)
			case "diamond":
				free := w.Spendable(w.Info(tip), types.Siacoins(200))
				used := map[types.SiacoinOutputID]bool{}
				for _, x := range p2 {
					for _, in := range x.SiacoinInputs {
						used[in.Parent.ID] = true
					}
				}
				for _, x := range p1 {
					for _, in := range x.SiacoinInputs {
						used[in.ParentID] = true
					}
				}
				var in0 *types.SiacoinElement
				for i := range free {
					if !used[free[i].ID] {
						in0 = &free[i]
						break
					}
				}
				if in0 == nil {
					continue
				}
				b := w.Env.V1Spend(tip.FullState, in0.ID, in0.SiacoinOutput.Value, one, types.Siacoins(50), w.Env.Addr, 0, 1)
				a := w.Env.V1Spend(tip.FullState, b.SiacoinOutputID(1), b.SiacoinOutputs[1].Value, one, one, w.Env.Payees[0], 0, 2)
				if _, err, _ := r.Submit1([]types.Transaction{b, a}, []poolsim.Meta{m, m}); err != nil {
					continue
				}
				p1, _ = r.Pool()
				txn = types.Transaction{SiacoinInputs: []types.SiacoinInput{{ParentID: b.SiacoinOutputID(0), UnlockConditions: w.Env.UC}, {ParentID: a.SiacoinOutputID(1), UnlockConditions: w.Env.UC}}}
				if g.Bool() {
					txn.SiacoinInputs[0], txn.SiacoinInputs[1] = txn.SiacoinInputs[1], txn.SiacoinInputs[0]
				}
				txn.SiacoinOutputs = []types.SiacoinOutput{{Address: w.Env.Addr, Value: b.SiacoinOutputs[0].Value.Add(a.SiacoinOutputs[1].Value)}}
				w.Env.SignV1(tip.FullState, &txn)
			case "child-of-v2":
				if len(p2) == 0 {
					continue
				}
				p := p2[g.Intn(len(p2))]
				n := len(p.SiacoinOutputs) - 1
				if n < 0 || p.SiacoinOutputs[n].Address != w.Env.Addr || p.SiacoinOutputs[n].Value.Cmp(types.Siacoins(10)) < 0 {
					continue
				}
				txn = w.Env.V1Spend(tip.FullState, p.SiacoinOutputID(p.ID(), n), p.SiacoinOutputs[n].Value, one, one, w.Env.Payees[0], 0, 0)
			default:
				continue
			}
			made := map[types.SiacoinOutputID]int{}
			anc := map[int]bool{}
			closure := func() {
				for i, p := range p1 {
					for j := range p.SiacoinOutputs {
						made[p.SiacoinOutputID(j)] = i
					}
				}
				var walk func(t types.Transaction)
				walk = func(t types.Transaction) {
					for _, in := range t.SiacoinInputs {
						if i, ok := made[in.ParentID]; ok && !anc[i] {
							anc[i] = true
							walk(p1[i])
						}
					}
				}
				walk(txn)
			}
			if !firstCall {
				closure()
			}
			ps, pan := r.Parents(txn, m)
			if firstCall {
				p1, p2 = r.Pool()
				closure()
			}
			st["parents:"+stp.Flavor]++
			what := fmt.Sprintf("UnconfirmedParents(%s, pool of %d v1 + %d v2)", stp.Flavor, len(p1), len(p2))
			if pan {
				report("c13-panic", what+" panicked")
				continue
			}
			got := map[types.TransactionID]bool{}
			for _, x := range ps {
				got[x.ID()] = true
			}
			ok := len(got) == len(anc) && len(ps) == len(anc)
			for i := range anc {
				ok = ok && got[p1[i].ID()]
			}
			if !ok {
				report("c13-parents-wrong-members", fmt.Sprintf("%s returned %d transactions; the pooled v1 ancestors are %d", what, len(ps), len(anc)))
				continue
			}
			// parents before children
			pos := map[types.TransactionID]int{}
			for i, x := range ps {
				pos[x.ID()] = i
			}
			for i, x := range ps {
				for _, in := range x.SiacoinInputs {
					if j, ok := made[in.ParentID]; ok {
						if pj, ok := pos[p1[j].ID()]; ok && pj > i {
							report("c13-parents-order", what+": a child comes before its parent")
						}
					}
				}
			}
		}
	}
	for k, v := range r.Stats {
		st[k] += v
	}
	coq := ""
	if coqWanted && r.NoCoq == "" && fail == nil {
		coq = r.CoqCase()
	}
	return coq, fail, st, r
}

var setKinds = []string{"fresh", "eph-chain", "eph-chain", "mixed", "block-child", "block-child", "block-parent", "block-parent-child-only", "block-parent-child-only", "multi-confirm", "builder", "empty", "dup"}
var corruptions = []string{"proof", "leaf", "unknown-basis", "basis-height", "unknown-target", "zero-target", "target-height"}

// genPlan: submit the whole tree (every branch), rebase sets between every pair of known
// blocks within distance 6, then pool scenarios.
func genPlan(g *rng.R, t *chaingen.Tree, pairsBudget int) []poolsim.Step {
	var plan []poolsim.Step
	for _, op := range mgrsim.FinalFlush(t) {
		plan = append(plan, poolsim.Step{Kind: "chain", Op: op})
	}
	var pairs [][2]int
	for _, a := range t.Nodes {
		for _, b := range t.Nodes {
			if a == b || !a.ChainValid() || !b.ChainValid() {
				continue
			}
			rv, ap := poolsim.TreePath(a, b)
			if len(rv)+len(ap) <= 6 {
				pairs = append(pairs, [2]int{a.Idx, b.Idx})
			}
		}
	}
	perm := g.Perm(len(pairs))
	for k, pi := range perm {
		if k >= pairsBudget {
			break
		}
		p := pairs[pi]
		fl := setKinds[g.Intn(len(setKinds))]
		if g.Chance(1, 6) {
			fl += "/" + corruptions[g.Intn(len(corruptions))]
		}
		plan = append(plan, poolsim.Step{Kind: "update", Op: mgrsim.Op{Nodes: []int{p[0], p[1]}}, Flavor: fl, Seed: g.U64()})
		if k == pairsBudget/2 && len(t.Nodes)%4 == 0 {
			// a quarter of the trees: the second half of the rebases runs on a manager reopened over the store
			plan = append(plan, poolsim.Step{Kind: "reopen"})
		}
	}
	// members confirmed by different blocks: from a block to its descendants 2..4 below
	var deep [][2]int
	for _, b := range t.Nodes {
		if !b.ChainValid() {
			continue
		}
		a := b
		for d := 0; d < 4 && a.Parent != nil; d++ {
			a = a.Parent
			if d >= 1 {
				deep = append(deep, [2]int{a.Idx, b.Idx})
			}
		}
	}
	for k, pi := range g.Perm(len(deep)) {
		if k >= 8 {
			break
		}
		plan = append(plan, poolsim.Step{Kind: "update", Op: mgrsim.Op{Nodes: []int{deep[pi][0], deep[pi][1]}}, Flavor: "multi-confirm", Seed: g.U64()})
	}
	// chained rebases a -> b -> c: the second call is given the objects the first returned
	for k, pi := range g.Perm(len(pairs)) {
		if k >= 6 {
			break
		}
		p := pairs[pi]
		c := pairs[g.Intn(len(pairs))][1]
		plan = append(plan, poolsim.Step{Kind: "update2", Op: mgrsim.Op{Nodes: []int{p[0], p[1], c}}, Flavor: []string{"fresh", "eph-chain", "mixed", "block-child"}[g.Intn(4)], Seed: g.U64()})
	}
	// every set shape with a proper target and with every defective one, on the first pairs
	for k, pi := range g.Perm(len(pairs)) {
		if k >= 4 {
			break
		}
		p := pairs[pi]
		fl := []string{"empty", "dup", "empty/unknown-basis", "fresh/unknown-target", "fresh/zero-target", "eph-chain/target-height", "empty/unknown-target"}[(k+int(g.U64()%7))%7]
		plan = append(plan, poolsim.Step{Kind: "update", Op: mgrsim.Op{Nodes: []int{p[0], p[1]}}, Flavor: fl, Seed: g.U64()})
	}
	// equal indices
	plan = append(plan, poolsim.Step{Kind: "update", Op: mgrsim.Op{Nodes: []int{1, 1}}, Flavor: "fresh", Seed: g.U64()})
	// pool scenarios at the final tip
	subs := []string{"chain-v2", "chain-v2", "fresh-v2", "chain-v1", "fresh-v1", "stale-v2", "builder"}
	for i := 0; i < 4+g.Intn(4); i++ {
		plan = append(plan, poolsim.Step{Kind: "submit", Flavor: subs[g.Intn(len(subs))], Seed: g.U64()})
		switch g.Intn(3) {
		case 0:
			plan = append(plan, poolsim.Step{Kind: "txset", Flavor: []string{"pooled", "new-child", "child-of-v1", "stale-child", "diamond", "parent-mined", "after-block", "corrupt-at-tip"}[g.Intn(8)], Seed: g.U64()})
		case 1:
			plan = append(plan, poolsim.Step{Kind: "parents", Flavor: []string{"pooled", "new-child", "child-of-v2", "diamond", "after-block"}[g.Intn(5)], Seed: g.U64()})
		}
	}
	for _, f := range []string{"pooled", "new-child", "child-of-v1", "stale-child", "diamond", "parent-mined", "parent-mined", "after-block", "after-block", "corrupt-at-tip", "corrupt-at-tip"} {
		plan = append(plan, poolsim.Step{Kind: "txset", Flavor: f, Seed: g.U64()})
	}
	for _, f := range []string{"pooled", "new-child", "child-of-v2", "diamond", "after-block"} {
		plan = append(plan, poolsim.Step{Kind: "parents", Flavor: f, Seed: g.U64()})
	}
	return plan
}

// the long line: sets built at block 2 rebased over D-1..D+2 blocks (D: the supported distance)
func longLine(seed uint64) poolsim.Case {
	D := poolsim.MaxDist
	n := D + 6
	cs := poolsim.Case{Seed: seed*131 + 7, Regime: 2, Opts: chaingen.GenOpts{Blocks: n, Branchiness: 0, TxPerBlock: 0}}
	var ids []int
	for i := 1; i <= n; i++ {
		ids = append(ids, i)
	}
	cs.Plan = []poolsim.Step{{Kind: "chain", Op: mgrsim.Op{Kind: "add", Nodes: ids}}}
	for _, d := range []int{D - 1, D, D + 1, D + 2} {
		if d < 1 {
			continue
		}
		for _, k := range []string{"fresh", "eph-chain"} {
			cs.Plan = append(cs.Plan, poolsim.Step{Kind: "update", Op: mgrsim.Op{Nodes: []int{2, 2 + d}}, Flavor: k, Seed: uint64(d)})
			cs.Plan = append(cs.Plan, poolsim.Step{Kind: "update", Op: mgrsim.Op{Nodes: []int{2 + d, 2}}, Flavor: k, Seed: uint64(d)})
		}
	}
	return cs
}

// the long fork: a trunk of 2 blocks, branch A of D+1 and branch B of D+2 empty blocks (D: the
// supported distance); rebases between the branches with leg pairs on the boundary of D
func longFork(seed uint64) poolsim.Case {
	D := poolsim.MaxDist
	shape := []int{0, 1}
	A := func(k int) int { return 2 + k }     // k = 1..D+1
	B := func(j int) int { return D + 3 + j } // j = 1..D+2
	for k := 1; k <= D+1; k++ {
		shape = append(shape, A(k)-1)
	}
	shape = append(shape, 2)
	for j := 2; j <= D+2; j++ {
		shape = append(shape, B(j)-1)
	}
	cs := poolsim.Case{Seed: seed*151 + 11, Regime: 2, Opts: chaingen.GenOpts{Shape: shape, TxPerBlock: 0}}
	seq := func(f func(int) int, a, b int) []int {
		var ids []int
		for i := a; i <= b; i++ {
			ids = append(ids, f(i))
		}
		return ids
	}
	add := func(ids []int) poolsim.Step {
		return poolsim.Step{Kind: "chain", Op: mgrsim.Op{Kind: "add", Nodes: ids}}
	}
	// tip A(h-1), then B(h): bases on A for the tip-based entry points, at D+7, D+1, D and D-23 blocks
	h := D/2 + 9
	cs.Plan = []poolsim.Step{add(append([]int{1, 2}, seq(A, 1, h-1)...)), add(seq(B, 1, h))}
	seen := map[int]bool{}
	for _, k := range []int{D - h + 7, D - h + 1, D - h, D - h - 23} {
		if k < 1 || k > h-1 || seen[k] {
			continue
		}
		seen[k] = true
		cs.Plan = append(cs.Plan, poolsim.Step{Kind: "txset", Flavor: "basis-node", Op: mgrsim.Op{Nodes: []int{A(k)}}, Seed: uint64(k)})
		cs.Plan = append(cs.Plan, poolsim.Step{Kind: "submit-at", Op: mgrsim.Op{Nodes: []int{A(k)}}, Seed: uint64(k) + 1000})
	}
	cs.Plan = append(cs.Plan, add(seq(A, h, D+1)), add(seq(B, h+1, D+2)))
	// UpdateV2TransactionSet: (reverted, applied) leg pairs
	a1, a2 := D*5/9, D*25/36
	for _, p := range [][2]int{{D, 0}, {D / 2, D - D/2}, {D / 2, D - D/2 + 1}, {a1, D - a1 + 6}, {D, D}, {1, D}, {D + 1, 0}, {0, D}, {0, D + 1}, {a2, D - a2 + 1}, {D, 1}} {
		from, to := 2, 2
		if p[0] > 0 {
			from = A(p[0])
		}
		if p[1] > 0 {
			to = B(p[1])
		}
		for _, kind := range []string{"fresh", "eph-chain"} {
			cs.Plan = append(cs.Plan, poolsim.Step{Kind: "update", Op: mgrsim.Op{Nodes: []int{from, to}}, Flavor: kind, Seed: uint64(p[0]*1000 + p[1])})
			cs.Plan = append(cs.Plan, poolsim.Step{Kind: "update", Op: mgrsim.Op{Nodes: []int{to, from}}, Flavor: kind, Seed: uint64(p[0]*1000 + p[1] + 7)})
		}
	}
	return cs
}

func run(c *hx.Ctx) {
	res := c.Res
	res.Shard = 12
	res.Rule = "fork trees of real mined blocks (v2 regimes, every v2 transaction kind in the blocks) with every branch submitted; UpdateV2TransactionSet for pairs of blocks within distance 6 (same branch forwards/backwards, across forks, never-applied fork blocks) and at 143..146 blocks on a long line, with sets valid at the source (fresh, ephemeral chains, mixed confirmed+ephemeral parents, the transactions of a child block: formations, revisions, renewals, storage proofs, expirations, siafunds), corrupted proofs, leaf indices and bases; V2TransactionSet / UnconfirmedParents over pools with dependent transactions (pooled, new child, child of the other kind, stale basis); non-trivial := a rebase across a fork succeeded and one was refused; distinct by (tree seed, plan)"
	var cases []string
	// the supported distance is a parameter of the implementation: measured, not assumed
	if note := poolsim.ProbeDistance(1); note != "" {
		res.Notes = append(res.Notes, note)
	}
	res.CountN("supported-distance", poolsim.MaxDist)
	doCase := func(cs poolsim.Case) {
		coq, f, st, r := runCase(cs, true)
		js, _ := json.Marshal(cs)
		res.Eval(string(js), st["updates-across-forks"] > 0 && st["rebase-errors"] > 0 && st["rebase-ok"] > 0)
		for k, v := range st {
			res.CountN(k, v)
		}
		if r != nil {
			res.CountN("calls", r.Steps())
		}
		res.Count("regime:" + chaingen.RegimeNames[cs.Regime])
		if f != nil && res.Distribution["fail:"+f.kind] >= 3 {
			res.Count("fail:" + f.kind)
		} else if f != nil {
			small := poolsim.Shrink(cs, f.kind, func(d poolsim.Case) string {
				_, f2, _, _ := runCase(d, false)
				if f2 == nil {
					return ""
				}
				return f2.kind
			})
			_, f2, _, _ := runCase(small, false)
			if f2 == nil || f2.kind != f.kind {
				f2, small = f, cs
			}
			var plan []string
			for _, s := range small.Plan {
				p := s.String()
				if s.Kind == "update" || s.Kind == "txset" || s.Kind == "parents" {
					p = fmt.Sprintf("%s(%s %v)", s.Kind, s.Flavor, s.Op.Nodes)
				}
				plan = append(plan, p)
			}
			res.Fail(f2.kind, f2.detail, map[string]any{"case": small, "plan": plan})
		}
		if coq != "" {
			cases = append(cases, coq)
		}
		if len(res.Samples) < 2 {
			res.Sample(map[string]any{"regime": chaingen.RegimeNames[cs.Regime], "steps": len(cs.Plan), "blocks": cs.Opts.Blocks})
		}
	}
	if c.Replay != "" {
		var rp struct {
			Replay struct {
				Case poolsim.Case `json:"case"`
			} `json:"replay"`
		}
		b, _ := os.ReadFile(c.Replay)
		json.Unmarshal(b, &rp)
		doCase(rp.Replay.Case)
		res.WriteCases("Run.Run_C13", cases)
		return
	}
	for _, cs := range poolsim.Corpus("C13") {
		doCase(cs)
	}
	if poolsim.DistBounded && poolsim.MaxDist >= 8 {
		doCase(longLine(c.Seed))
		doCase(longFork(c.Seed))
	}
	n := c.Scale(90, 2000)
	for i := 0; i < n; i++ {
		g := c.R.Fork()
		cs := poolsim.Case{Seed: g.U64(), Regime: []int{2, 1, 2, 5}[i%4], Opts: chaingen.GenOpts{Blocks: 7 + g.Intn(9), Branchiness: 2 + g.Intn(3), TxPerBlock: 1 + g.Intn(3), Jitter: g.Intn(3)}}
		var t *chaingen.Tree
		func() {
			defer func() {
				if p := recover(); p != nil {
					// blocks built from the lists the manager returned no longer replay: they share memory with the pool
					res.Fail("c13-generated-chain-corrupted", fmt.Sprint("building the fork tree with the chain generator (blocks mined from PoolTransactions/V2PoolTransactions on a linear node) failed: ", p), map[string]any{"case": cs})
					t = nil
				}
			}()
			t = cs.Tree()
		}()
		if t == nil {
			continue
		}
		cs.Plan = genPlan(rng.New(cs.Seed^0xfeedbeef), t, c.Scale(40, 400))
		doCase(cs)
	}
	res.WriteCases("Run.Run_C13", cases)
}
