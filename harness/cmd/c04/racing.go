package main

import (
	"fmt"
	"math"
	"runtime"
	"sync"
	"sync/atomic"
	"time"

	"go.sia.tech/core/consensus"
	"go.sia.tech/core/types"
	"go.sia.tech/coreutils/chain"
	"verif/harness/internal/chaingen"
	"verif/harness/internal/rng"
	"verif/harness/internal/subs"
)

// The quick tier's concurrent section: polls racing a submission that reorgs below the poll's
// cursor. No hook in the repository: the manager is given a chain.Store that wraps the real DBStore
// and, while a round is armed, wakes the submitter when the poll fetches a chosen block and then
// dawdles for a few milliseconds on every fetch until the submission is through, so that the
// submitter is queued on the manager's lock while the poll is in the middle of its work. Whatever
// the interleaving, a single poll must be evaluated against ONE tip: its batch, judged on its own,
// starts at the subscriber's index, is parent-linked, respects the quota and is a prefix of the
// path from the index to a tip the manager had during the call (the tip before or after the
// submission).

type racingStore struct {
	*chain.DBStore
	armed   atomic.Bool
	fired   atomic.Bool
	done    atomic.Bool
	trigger types.BlockID
	wake    chan struct{}
}

func (s *racingStore) dawdle(id types.BlockID) {
	if !s.armed.Load() {
		return
	}
	if id == s.trigger && s.fired.CompareAndSwap(false, true) {
		close(s.wake)
		time.Sleep(3 * time.Millisecond) // the submitter is now waiting for the manager's lock
	} else if s.fired.Load() && !s.done.Load() {
		time.Sleep(time.Millisecond)
		runtime.Gosched()
	}
}

func (s *racingStore) Block(id types.BlockID) (types.Block, *consensus.V1BlockSupplement, bool) {
	s.dawdle(id)
	return s.DBStore.Block(id)
}

type racingChains struct {
	env    *chaingen.Env
	a, b   []types.Block     // a[i] at height i+1; b forks off a[forkAt-1] and is longer
	bs     []consensus.State // states of b (for AddValidatedV2Blocks)
	forkAt int               // number of shared blocks
	v2     bool
}

func mineChains(regime int) *racingChains {
	env := chaingen.NewEnv(rng.New(4242+uint64(regime)), regime)
	mine := func(cm *chain.Manager, salt uint64) (types.Block, consensus.State) {
		cs := cm.TipState()
		var miner types.Address
		miner[0], miner[1] = byte(salt), byte(salt>>8)
		blk := types.Block{ParentID: cs.Index.ID, Timestamp: cs.PrevTimestamps[0].Add(time.Second), MinerPayouts: []types.SiacoinOutput{{Value: cs.BlockReward(), Address: miner}}}
		if cs.Index.Height+1 >= cs.Network.HardforkV2.AllowHeight {
			blk.V2 = &types.V2BlockData{Height: cs.Index.Height + 1}
			blk.V2.Commitment = cs.Commitment(miner, nil, nil)
		}
		chaingen.FindNonceFrom(cs, &blk, salt)
		if err := cm.AddBlocks([]types.Block{blk}); err != nil {
			panic(fmt.Sprintf("racing: mined block rejected: %v", err))
		}
		return blk, cm.TipState()
	}
	rc := &racingChains{env: env, forkAt: 3, v2: regime%3 == 2}
	_, ma := env.NewManager()
	for i := 0; i < 10; i++ {
		blk, _ := mine(ma, uint64(100+i))
		rc.a = append(rc.a, blk)
	}
	_, mb := env.NewManager()
	if err := mb.AddBlocks(rc.a[:rc.forkAt]); err != nil {
		panic(err)
	}
	for i := 0; i < 12; i++ {
		blk, cs := mine(mb, uint64(200+i))
		rc.b = append(rc.b, blk)
		rc.bs = append(rc.bs, cs)
	}
	return rc
}

// path returns the prescribed batch from index `from` (a height on chain A, 0 = the genesis
// index, -1 = nothing) to the tip of A (toB false) or of B, as block ids with sign.
func (rc *racingChains) path(from int, toB bool) (revs, apps []types.BlockID) {
	if !toB {
		if from < 0 {
			apps = append(apps, rc.env.Genesis.ID())
			from = 0
		}
		for h := from + 1; h <= len(rc.a); h++ {
			apps = append(apps, rc.a[h-1].ID())
		}
		return
	}
	if from < 0 {
		apps = append(apps, rc.env.Genesis.ID())
		from = 0
	}
	for h := from; h > rc.forkAt; h-- {
		revs = append(revs, rc.a[h-1].ID())
	}
	start := from
	if start > rc.forkAt {
		start = rc.forkAt
	}
	for h := start + 1; h <= rc.forkAt; h++ {
		apps = append(apps, rc.a[h-1].ID())
	}
	for _, b := range rc.b {
		apps = append(apps, b.ID())
	}
	return
}

func isPrefix(rus []chain.RevertUpdate, aus []chain.ApplyUpdate, revs, apps []types.BlockID, max int) bool {
	want := len(revs) + len(apps)
	if max < want {
		want = max
	}
	if len(rus)+len(aus) != want || len(rus) > len(revs) || (len(aus) > 0 && len(rus) != len(revs)) || len(aus) > len(apps) {
		return false
	}
	for i, ru := range rus {
		if ru.Block.ID() != revs[i] {
			return false
		}
	}
	for i, au := range aus {
		if au.Block.ID() != apps[i] {
			return false
		}
	}
	return true
}

// racing runs the rounds; it returns the first failure and statistics.
func racing(seed uint64, rounds int, stats map[string]int) *failure {
	if runtime.GOMAXPROCS(0) < 2 {
		runtime.GOMAXPROCS(2)
	}
	r := rng.New(seed ^ 0xacce55)
	chains := []*racingChains{mineChains(0), mineChains(2)}
	maxes := []int{2, 3, 7, 100, math.MaxInt}
	for round := 0; round < rounds; round++ {
		rc := chains[round%len(chains)]
		dbs, ts, err := chain.NewDBStore(chain.NewMemDB(), rc.env.Net, rc.env.Genesis, nil)
		if err != nil {
			panic(err)
		}
		store := &racingStore{DBStore: dbs, wake: make(chan struct{})}
		cm := chain.NewManager(store, ts)
		if err := cm.AddBlocks(rc.a); err != nil {
			panic(err)
		}
		// the subscriber stands on A at height `from` (or has nothing); the poll needs at least two
		// updates; the submission is triggered when the poll fetches a block at least one step in
		from := -1 + r.Intn(len(rc.a)-2) // -1 .. len-4
		max := maxes[r.Intn(len(maxes))]
		var idx types.ChainIndex
		if from == 0 {
			idx = types.ChainIndex{Height: 0, ID: rc.env.Genesis.ID()}
		} else if from > 0 {
			idx = types.ChainIndex{Height: uint64(from), ID: rc.a[from-1].ID()}
		}
		first := from + 1
		if first < 1 {
			first = 1
		}
		trigH := first + 1 + r.Intn(len(rc.a)-first-1) // a block the poll fetches after its first update
		if max < 100 && trigH > first+max-1 {
			trigH = first + 1
		}
		store.trigger = rc.a[trigH-1].ID()
		viaValidated := rc.v2 && r.Bool()
		// the call that is queued during the poll: a reorging submission (2 in 4), PruneBlocks at or
		// above the poll's cursor, or a pool submission
		mode := r.Intn(4)
		pruneH := uint64(first + r.Intn(len(rc.a)-first+1))
		var wg sync.WaitGroup
		var subErr error
		wg.Add(1)
		go func() {
			defer wg.Done()
			defer store.done.Store(true)
			select {
			case <-store.wake:
			case <-time.After(2 * time.Second):
				return
			}
			switch {
			case mode == 2:
				cm.PruneBlocks(pruneH)
			case mode == 3 && rc.v2:
				_, subErr = cm.AddV2PoolTransactions(cm.Tip(), []types.V2Transaction{{ArbitraryData: []byte(fmt.Sprint("racing ", round))}})
			case mode == 3:
				_, subErr = cm.AddPoolTransactions([]types.Transaction{{ArbitraryData: [][]byte{[]byte(fmt.Sprint("racing ", round))}}})
			case viaValidated:
				subErr = cm.AddValidatedV2Blocks(rc.b, rc.bs)
			default:
				subErr = cm.AddBlocks(rc.b)
			}
		}()
		store.armed.Store(true)
		var rus []chain.RevertUpdate
		var aus []chain.ApplyUpdate
		var perr error
		var panicked any
		pollDone := make(chan struct{})
		go func() {
			defer close(pollDone)
			defer func() { panicked = recover() }()
			rus, aus, perr = cm.UpdatesSince(idx, max)
		}()
		select {
		case <-pollDone:
		case <-time.After(5 * time.Second):
			return &failure{"c04-manager-deadlock", fmt.Sprintf("racing round %d: UpdatesSince(%v, %d) racing a submission did not return", round, idx, max)}
		}
		wg.Wait()
		store.armed.Store(false)
		what := fmt.Sprintf("racing round %d (regime %s, subscriber at A%d, max %d, fork B%d..B%d submitted through %s while the poll fetched A%d)", round, chaingen.RegimeNames[rc.env.Regime], from, max, rc.forkAt+1, rc.forkAt+len(rc.b), map[bool]string{false: "AddBlocks", true: "AddValidatedV2Blocks"}[viaValidated], trigH)
		if mode == 2 {
			what = fmt.Sprintf("racing round %d (regime %s, subscriber at A%d, max %d, PruneBlocks(%d) called while the poll fetched A%d)", round, chaingen.RegimeNames[rc.env.Regime], from, max, pruneH, trigH)
		} else if mode == 3 {
			what = fmt.Sprintf("racing round %d (regime %s, subscriber at A%d, max %d, a pool submission made while the poll fetched A%d)", round, chaingen.RegimeNames[rc.env.Regime], from, max, trigH)
		}
		if panicked != nil {
			return &failure{"c04-panic-concurrent", fmt.Sprintf("%s: UpdatesSince panicked: %v", what, panicked)}
		}
		if mode == 2 {
			stats["racing-rounds-with-PruneBlocks-during-the-poll"]++
		} else if mode == 3 {
			stats["racing-rounds-with-a-pool-submission-during-the-poll"]++
		}
		if perr != nil && mode == 2 {
			continue // a poll that lost the race against PruneBlocks may fail; it must not hand out a broken batch
		}
		if perr != nil {
			return &failure{"c04-concurrent-error", fmt.Sprintf("%s: UpdatesSince failed: %v", what, perr)}
		}
		if subErr != nil {
			return &failure{"c04-concurrent-error", fmt.Sprintf("%s: the submission failed: %v", what, subErr)}
		}
		stats["racing-rounds"]++
		if store.fired.Load() {
			stats["racing-rounds-with-submission-during-the-poll"]++
		}
		if _, kind, detail := subs.CheckChunk(idx, max, rus, aus); kind != "" {
			return &failure{kind + "-concurrent", fmt.Sprintf("%s: the batch (%d reverts, %d applies) is not a contiguous path from the subscriber's index: %s", what, len(rus), len(aus), detail)}
		}
		ra, aa := rc.path(from, false)
		rb, ab := rc.path(from, true)
		switch {
		case isPrefix(rus, aus, ra, aa, max):
			stats["racing-batches-on-the-old-tip"]++
		case isPrefix(rus, aus, rb, ab, max):
			stats["racing-batches-on-the-new-tip"]++
		default:
			return &failure{"c04-concurrent-path-not-a-best-chain", fmt.Sprintf("%s: the batch (%d reverts, %d applies) is a prefix neither of the path to the tip before the submission nor of the path to the tip after it", what, len(rus), len(aus))}
		}
	}
	return nil
}
