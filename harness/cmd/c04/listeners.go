package main

import (
	"fmt"
	"strings"
	"time"

	"go.sia.tech/core/types"
	"go.sia.tech/coreutils/chain"
	"verif/harness/internal/subs"
)

// watchdog bounds every call into the manager: a call that does not return (a listener
// called with the manager's lock held and calling back into the manager) is a deadlock.
const watchdog = 2 * time.Second

// guarded runs f (a call into the code under test) under recover() and the watchdog. It
// returns false if the call panicked or did not return; after a deadlock the node is abandoned.
func (w *world) guarded(what string, f func()) bool {
	if w.dead {
		return false
	}
	done := make(chan any, 1)
	go func() {
		defer func() { done <- recover() }()
		f()
	}()
	select {
	case r := <-done:
		if r != nil {
			w.report("c04-panic", "%s panicked: %v", what, r)
			return false
		}
		return true
	case <-time.After(watchdog):
		w.dead = true
		w.report("c04-manager-deadlock", "%s did not return within %v: the manager is deadlocked (a listener that calls back into the manager - Tip, UpdatesSince, PoolTransactions - was invoked while the manager's lock was held)", what, watchdog)
		return false
	}
}

// A lst is one registered listener.
type lst struct {
	id      int
	pool    bool // OnPoolChange (else OnReorg)
	reenter bool // calls back into the manager from inside the callback
	active  bool
	cancel  func()
	tips    []types.ChainIndex // OnReorg: what it was called with
	n       int                // OnPoolChange: how often it was called
	seen    int
	// a re-entering reorg listener is a subscriber that polls from inside its callback
	idx     types.ChainIndex
	problem string
	pending []string
}

func (w *world) register(ev Ev) {
	if w.lsts[ev.L] != nil {
		return
	}
	l := &lst{id: ev.L, pool: ev.Pool, reenter: ev.Reenter, active: true}
	ok := w.guarded(fmt.Sprintf("registering listener %d", ev.L), func() {
		if l.pool {
			l.cancel = w.s.CM.OnPoolChange(func() {
				l.n++
				if l.reenter && !w.blindNow {
					w.s.CM.Tip()
					w.s.CM.PoolTransactions()
				}
			})
		} else {
			l.cancel = w.s.CM.OnReorg(func(ci types.ChainIndex) {
				l.tips = append(l.tips, ci)
				if l.reenter && !w.blindNow {
					w.reenter(l)
				}
			})
		}
	})
	if !ok {
		return
	}
	w.lsts[ev.L] = l
	w.lorder = append(w.lorder, ev.L)
	w.stats["listeners-registered"]++
	if l.reenter {
		w.stats["listeners-calling-back-into-the-manager"]++
	}
}

func (w *world) cancelListener(ev Ev) {
	l := w.lsts[ev.L]
	if l == nil || !l.active {
		return
	}
	if w.guarded(fmt.Sprintf("cancelling listener %d", ev.L), l.cancel) {
		l.active = false
		w.stats["listeners-cancelled"]++
	}
}

// reenter runs inside a reorg callback: the listener reads the tip and the pool and polls the
// update stream from its own index, as a subscriber that syncs from its callback does.
func (w *world) reenter(l *lst) {
	cm := w.s.CM
	tip := cm.Tip()
	cm.PoolTransactions()
	var rus []chain.RevertUpdate
	var aus []chain.ApplyUpdate
	var err error
	rus, aus, err = cm.UpdatesSince(l.idx, 1000)
	before := l.idx
	if err != nil {
		if !w.pruned && l.problem == "" {
			l.problem = fmt.Sprintf("UpdatesSince(%v, 1000) from inside the reorg callback failed: %v", l.idx, err)
		}
		l.pending = append(l.pending, fmt.Sprintf("EPoll %s 1000 None", w.coqIdx(before, 0)))
		return
	}
	after, kind, detail := subs.CheckChunk(l.idx, 1000, rus, aus)
	if kind != "" {
		if l.problem == "" {
			l.problem = kind + ": " + detail
		}
		return
	}
	var rids, aids []string
	for _, ru := range rus {
		rids = append(rids, fmt.Sprint(w.nodeOf(types.ChainIndex{ID: ru.Block.ID()})))
	}
	for _, au := range aus {
		aids = append(aids, fmt.Sprint(w.nodeOf(au.State.Index)))
	}
	l.pending = append(l.pending, fmt.Sprintf("EPoll %s 1000 (Some ([%s], [%s], %s))", w.coqIdx(before, 0), strings.Join(rids, "; "), strings.Join(aids, "; "), w.coqIdx(after, 0)))
	l.idx = after
	if after != tip && l.problem == "" {
		l.problem = fmt.Sprintf("polling from inside the reorg callback ended at %v, the tip read in the same callback is %v", after, tip)
	}
	w.stats["polls-from-inside-a-reorg-callback"]++
}

// judgeListeners: every listener that is registered and not cancelled receives exactly one
// notification per tip change, with the new tip, and none otherwise; a cancelled one none at all.
// (Pool listeners are only required not to lose a notification: an accepted pool submission or a
// tip change reaches every registered pool listener.)
func (w *world) judgeListeners(what string, tipChanged bool, newTip types.ChainIndex, poolAccepted bool) {
	for _, id := range w.lorder {
		l := w.lsts[id]
		if l.pool {
			got := l.n - l.seen
			l.seen = l.n
			switch {
			case !l.active && got > 0:
				w.report("c04-cancelled-listener-notified", "%s: the cancelled pool listener %d was invoked %d time(s)", what, id, got)
			case l.active && (tipChanged || poolAccepted) && got == 0:
				w.report("c04-pool-listener-lost-notification", "%s (tip changed=%v, pool set accepted=%v): the registered pool listener %d was not invoked (listeners alive: %s)", what, tipChanged, poolAccepted, id, w.alive())
			}
			continue
		}
		got := len(l.tips) - l.seen
		l.seen = len(l.tips)
		for _, p := range l.pending {
			w.coq = append(w.coq, p)
		}
		l.pending = nil
		switch {
		case !l.active && got > 0:
			w.report("c04-cancelled-listener-notified", "%s: the cancelled reorg listener %d was invoked %d time(s)", what, id, got)
		case l.active && tipChanged && got == 0:
			w.report("c04-listener-lost-notification", "%s changed the tip to %v but the registered reorg listener %d was not invoked (listeners alive: %s)", what, newTip, id, w.alive())
		case l.active && got > 1, l.active && !tipChanged && got > 0:
			w.report("c04-notify-without-tip-change", "%s (tip changed=%v): reorg listener %d was invoked %d time(s)", what, tipChanged, id, got)
		case l.active && got == 1 && l.tips[len(l.tips)-1] != newTip:
			w.report("c04-notify-wrong-tip", "%s: reorg listener %d got %v, the tip is %v", what, id, l.tips[len(l.tips)-1], newTip)
		case l.problem != "":
			w.report("c04-callback-poll-failed", "%s: listener %d: %s", what, id, l.problem)
		}
	}
}

func (w *world) alive() string {
	var out []string
	for _, id := range w.lorder {
		if l := w.lsts[id]; l.active {
			k := "reorg"
			if l.pool {
				k = "pool"
			}
			out = append(out, fmt.Sprintf("%d(%s)", id, k))
		}
	}
	return strings.Join(out, " ")
}
