package main

import (
	"fmt"
	"math"
	"time"

	"go.sia.tech/core/consensus"
	"go.sia.tech/core/types"
	"go.sia.tech/coreutils/chain"
	"verif/harness/internal/chaingen"
	"verif/harness/internal/rng"
	"verif/harness/internal/subs"
)

// preflight is a directed history on hand-mined empty blocks (no Builder, whose own
// ledger follows the manager through UpdatesSince and would hang or panic on a broken
// stream): chain a1-a2-a3, a subscriber from nothing polls with max 2; the longer fork
// a1-b2-b3-b4 takes over; the subscriber, now two blocks deep on the stale branch, polls
// with max 1 and another one with max 3. Every chunk must be exactly the prescribed one.
func preflight(regime int) *failure {
	env := chaingen.NewEnv(rng.New(77+uint64(regime)), regime)
	mine := func(cm *chain.Manager, salt uint64) types.Block {
		cs := cm.TipState()
		var miner types.Address
		miner[0] = byte(salt)
		blk := types.Block{ParentID: cs.Index.ID, Timestamp: cs.PrevTimestamps[0].Add(time.Second), MinerPayouts: []types.SiacoinOutput{{Value: cs.BlockReward(), Address: miner}}}
		if cs.Index.Height+1 >= cs.Network.HardforkV2.AllowHeight {
			blk.V2 = &types.V2BlockData{Height: cs.Index.Height + 1}
			blk.V2.Commitment = cs.Commitment(miner, nil, nil)
		}
		chaingen.FindNonceFrom(cs, &blk, salt)
		if err := cm.AddBlocks([]types.Block{blk}); err != nil {
			panic(fmt.Sprintf("preflight: mined block rejected: %v", err))
		}
		return blk
	}
	_, sa := env.NewManager()
	a := []types.Block{mine(sa, 1), mine(sa, 2), mine(sa, 3)}
	_, sb := env.NewManager()
	if err := sb.AddBlocks(a[:1]); err != nil {
		panic(err)
	}
	b := []types.Block{mine(sb, 11), mine(sb, 12), mine(sb, 13)}
	name := map[types.BlockID]string{env.Genesis.ID(): "g", a[0].ID(): "a1", a[1].ID(): "a2", a[2].ID(): "a3", b[0].ID(): "b2", b[1].ID(): "b3", b[2].ID(): "b4"}

	_, cm := env.NewManager()
	var fail *failure
	lostKind := false // polls from an index that was reached and is still held
	// poll runs one UpdatesSince and compares it with the prescribed chunk ("-x" revert, "+x" apply)
	poll := func(idx *types.ChainIndex, max int, want ...string) {
		if fail != nil {
			return
		}
		var rus []chain.RevertUpdate
		var aus []chain.ApplyUpdate
		var err error
		func() {
			defer func() {
				if r := recover(); r != nil {
					fail = &failure{"c04-panic", fmt.Sprintf("preflight (regime %d): UpdatesSince(%s, %d) panicked: %v", regime, name[idx.ID], max, r)}
				}
			}()
			rus, aus, err = cm.UpdatesSince(*idx, max)
		}()
		if fail != nil {
			return
		}
		if err != nil {
			kind := "c04-error-for-reached-index"
			if lostKind {
				kind = "c04-held-index-lost"
			}
			fail = &failure{kind, fmt.Sprintf("preflight (regime %d): UpdatesSince(%s, %d) failed: %v", regime, name[idx.ID], max, err)}
			return
		}
		after, kind, detail := subs.CheckChunk(*idx, max, rus, aus)
		if kind != "" {
			fail = &failure{kind, fmt.Sprintf("preflight (regime %d): %s", regime, detail)}
			return
		}
		var got []string
		for _, ru := range rus {
			got = append(got, "-"+name[ru.Block.ID()])
		}
		for _, au := range aus {
			got = append(got, "+"+name[au.Block.ID()])
		}
		if fmt.Sprint(got) != fmt.Sprint(want) {
			fail = &failure{"c04-wrong-chunk", fmt.Sprintf("preflight (regime %d): UpdatesSince(%s, %d) returned %v, the path prescribes %v", regime, name[idx.ID], max, got, want)}
			return
		}
		*idx = after
	}
	if err := cm.AddBlocks(a); err != nil {
		panic(err)
	}
	var s1 types.ChainIndex
	poll(&s1, 2, "+g", "+a1")
	poll(&s1, 2, "+a2", "+a3")
	poll(&s1, 2)
	s2, s3, parked := s1, s1, s1
	if err := cm.AddBlocks(b); err != nil {
		panic(err)
	}
	if cm.Tip().ID != b[2].ID() {
		return fail // the longer fork did not take over (difficulty): nothing to check here
	}
	poll(&s1, 1, "-a3")
	poll(&s1, 1, "-a2")
	poll(&s1, 1, "+b2")
	poll(&s1, 1, "+b3")
	poll(&s1, 1, "+b4")
	poll(&s1, 1)
	poll(&s2, 3, "-a3", "-a2", "+b2")
	poll(&s2, 1000, "+b3", "+b4")
	poll(&s3, 1000, "-a3", "-a2", "+b2", "+b3", "+b4")
	var s4 types.ChainIndex
	poll(&s4, 1000, "+g", "+a1", "+b2", "+b3", "+b4")
	// every chunk size >= 1: sizes no slice can have (the sizes that cannot be allocated lazily first)
	var s5, s6 types.ChainIndex
	s7 := parked
	poll(&s5, math.MaxInt, "+g", "+a1", "+b2", "+b3", "+b4")
	poll(&s6, 1<<40, "+g", "+a1", "+b2", "+b3", "+b4")
	poll(&s7, math.MaxInt, "-a3", "-a2", "+b2", "+b3", "+b4")
	// subscribers parked on the stale branch; its already applied blocks are submitted again
	// (only the first above the fork point, then the whole branch): nothing may change for them
	p1, p2, p3, p4 := parked, parked, parked, parked
	if err := cm.AddBlocks(a[1:2]); err != nil {
		panic(err)
	}
	lostKind = true
	poll(&p1, 2, "-a3", "-a2")
	poll(&p1, 100, "+b2", "+b3", "+b4")
	if err := cm.AddBlocks(a[1:]); err != nil {
		panic(err)
	}
	poll(&p2, 1, "-a3")
	poll(&p2, 1, "-a2")
	poll(&p3, 2, "-a3", "-a2")
	poll(&p4, 100, "-a3", "-a2", "+b2", "+b3", "+b4")
	lostKind = false
	// an id the store never held
	var bogus types.ChainIndex
	bogus.Height = 2
	bogus.ID[0] = 0xEE
	if fail == nil {
		if _, _, err := cm.UpdatesSince(bogus, 3); err == nil {
			fail = &failure{"c04-bogus-index-no-error", fmt.Sprintf("preflight (regime %d): UpdatesSince for an id the store never held returned no error", regime)}
		}
	}
	var _ consensus.State
	return fail
}
