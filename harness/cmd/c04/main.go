// Command c04 checks C04 (subscribers can always follow the chain through
// reorgs via the update stream) on the real chain.Manager: submission plans
// over generated fork trees interleaved with polls of subscribers that start
// from nothing, from indices on every branch the store still holds, and from
// indices the store never held; monitors on every chunk and on the shadow
// ledger folded from the chunks; cases for the Coq model of UpdatesSince.
package main

import (
	"encoding/json"
	"fmt"
	"math"
	"os"
	"path/filepath"
	"sort"
	"strings"
	"sync"
	"sync/atomic"
	"time"

	"go.sia.tech/core/types"
	"go.sia.tech/coreutils/chain"
	"verif/harness/internal/chaingen"
	"verif/harness/internal/hx"
	"verif/harness/internal/mgrsim"
	"verif/harness/internal/rng"
	"verif/harness/internal/storeobs"
	"verif/harness/internal/subs"
)

func main() { hx.Main("C04", run) }

// An Ev is one step of a history.
type Ev struct {
	K   string     `json:"k"` // op | spawn | poll | pool | reg | cancel | blind
	Op  *mgrsim.Op `json:"op,omitempty"`
	Sub int        `json:"sub"`
	Max int        `json:"max,omitempty"`
	// spawn: At >= 0: the index of tree node At (only if that block was on the best chain at some
	// point and the store still holds its supplement; otherwise the spawn is skipped);
	// -1: nothing (the zero index); -2: an id the generator never made, at height H;
	// <= -1000: the id of tree node -(At+1000), which the store does not hold, at its height
	At int    `json:"at,omitempty"`
	H  uint64 `json:"h,omitempty"`
	// pool: a pool submission between manager calls: an arbitrary-data transaction (v1 or v2, made
	// unique by Salt), or with Bad a transaction the pool must reject
	V2   bool `json:"v2,omitempty"`
	Bad  bool `json:"bad,omitempty"`
	Salt int  `json:"salt,omitempty"`
	// reg / cancel: listener life cycle. reg registers listener L with OnReorg (or OnPoolChange if
	// Pool); with Reenter the callback calls back into the manager (Tip, PoolTransactions, and for a
	// reorg listener UpdatesSince from its own index); cancel calls L's cancel function
	// blind: Ops are called one after the other with no read in between, then subscriber Sub polls
	// with Max as the first read
	Ops     []mgrsim.Op `json:"ops,omitempty"`
	L       int  `json:"l,omitempty"`
	Pool    bool `json:"pool,omitempty"`
	Reenter bool `json:"reenter,omitempty"`
}

// A Case is a tree (regenerated from the seed) and a history.
type Case struct {
	Seed   uint64           `json:"seed"`
	Regime int              `json:"regime"`
	Opts   chaingen.GenOpts `json:"opts"`
	Evs    []Ev             `json:"evs"`
	Order  bool             `json:"order,omitempty"` // the manager is configured (chain.WithExpiringContractOrder) with the REVERSED linear order for every block in which several v1 contracts expire
	Final  bool             `json:"final"` // afterwards: a subscriber from every held index, everyone polls to the tip
}

func (c Case) tree() *chaingen.Tree {
	return mgrsim.Case{Seed: c.Seed, Regime: c.Regime, Opts: c.Opts}.Tree()
}

// safeTree returns nil if the generator gives up on this seed (two sibling blocks with the same id).
func (c Case) safeTree() (t *chaingen.Tree) {
	defer func() {
		if r := recover(); r != nil {
			t = nil
		}
	}()
	return c.tree()
}

type failure struct{ kind, detail string }

type sub struct {
	idx   types.ChainIndex
	l     *chaingen.Ledger
	bogus bool
	coqID int // for bogus ids
	chunk int // chunk size used in the final phase
	forged bool // the id of a held block with a height that is not the block's
	rec   bool // the recorder: follows the node block by block and keeps the ledger it held at every index
}

const recorderID = -7

// every chunk size >= 1, including sizes no slice can have
var chunkSizes = []int{1, 2, 3, 7, 100, 1000, math.MaxInt32 + 1, 1 << 40, math.MaxInt}

// coqMax renders a chunk size for the model: its budget is a unary number, and beyond the size of
// the universe (< 100 blocks) a larger budget cannot change the result.
func coqMax(max int) int {
	if max > 4096 {
		return 4096
	}
	return max
}

// world is one run of a history.
type world struct {
	t        *chaingen.Tree
	s        *mgrsim.Sim
	tw       *subs.Twin
	prev     mgrsim.Obs
	everBest map[int]bool
	subs     map[int]*sub
	notes    []types.ChainIndex
	coq      []string
	fail     *failure
	stats    map[string]int
	pruned   bool
	poolNotes int
	lsts      map[int]*lst
	lorder    []int
	dead      bool // the manager deadlocked: the node is abandoned
	order     bool // the manager prescribes its own expiring-contract order: its states legitimately differ from the linear replay's
	blindNow  bool // inside an unobserved stretch: listeners do not read either
	snap     map[int]*chaingen.Ledger // the ledger a subscriber of this node held when it stood on block x
	ops      []mgrsim.Op
	f8At     int  // number of ops the expiry-order classification below was made for
	f8       bool // the C02 judge attributes the node's deviation from the linear replay to the expiry order
}

// reversedOrder prescribes, for every block of the tree in which at least two v1 contracts expire,
// the reverse of the order a linear node uses.
func reversedOrder(t *chaingen.Tree) map[types.BlockID][]types.FileContractID {
	tbl := map[types.BlockID][]types.FileContractID{}
	for _, op := range mgrsim.FinalFlush(t) {
		store, cm := t.Env.NewManager()
		var path []types.Block
		for _, id := range op.Nodes {
			path = append(path, t.Nodes[id].Block)
		}
		if cm.AddBlocks(path) != nil {
			continue
		}
		for _, id := range op.Nodes {
			if _, bs, ok := store.Block(t.Nodes[id].ID); ok && bs != nil && len(bs.ExpiringFileContracts) > 1 {
				var ids []types.FileContractID
				for i := len(bs.ExpiringFileContracts) - 1; i >= 0; i-- {
					ids = append(ids, bs.ExpiringFileContracts[i].ID)
				}
				tbl[t.Nodes[id].ID] = ids
			}
		}
	}
	return tbl
}

func newWorldOrdered(t *chaingen.Tree, order bool) *world {
	w := newWorldWith(t, func(s *mgrsim.Sim) {
		if order {
			s.WithManagerOptions(chain.WithExpiringContractOrder(reversedOrder(t)))
		}
	})
	w.order = order
	return w
}

func newWorld(t *chaingen.Tree) *world { return newWorldWith(t, nil) }

func newWorldWith(t *chaingen.Tree, prep func(*mgrsim.Sim)) *world {
	sim := mgrsim.NewSim(t, nil)
	if prep != nil {
		prep(sim)
	}
	w := &world{t: t, s: sim, tw: subs.NewTwin(t), everBest: map[int]bool{0: true}, subs: map[int]*sub{}, stats: map[string]int{}}
	w.s.CM.OnReorg(func(ci types.ChainIndex) { w.notes = append(w.notes, ci) })
	w.s.CM.OnPoolChange(func() { w.poolNotes++ })
	w.s.Observe(&w.prev)
	w.snap = map[int]*chaingen.Ledger{}
	w.lsts = map[int]*lst{}
	w.f8At = -1
	w.subs[recorderID] = &sub{l: chaingen.NewLedger(), rec: true}
	w.follow()
	return w
}

func (w *world) report(kind, format string, a ...any) {
	if w.fail == nil {
		w.fail = &failure{kind, fmt.Sprintf(format, a...)}
	}
}

func (w *world) coqIdx(ci types.ChainIndex, bogusID int) string {
	if ci == (types.ChainIndex{}) {
		return "None"
	}
	if n, ok := w.t.ByID[ci.ID]; ok {
		return fmt.Sprintf("(Some (%d, %d))", ci.Height, n.Idx)
	}
	return fmt.Sprintf("(Some (%d, %d))", ci.Height, bogusID)
}

func (w *world) doOp(op mgrsim.Op) {
	before := len(w.notes)
	var o mgrsim.Obs
	if !w.guarded(op.String(), func() { o = w.s.Do(op) }) {
		return
	}
	if op.Kind == "prune" {
		w.pruned = true
	}
	w.ops = append(w.ops, op)
	// mgrsim reports a stored state that differs from the linear replay's as kind 1, like a
	// header-derived one. A full state that differs (same number of accumulator leaves: the
	// expiry-order situation, classified in differsByExpiryOrder) is a full state for the model.
	ro := o
	ro.Known = append([]mgrsim.KnownEntry(nil), o.Known...)
	for i, k := range ro.Known {
		if k.State == 1 && w.fullButDifferent(w.t.Nodes[k.ID]) {
			ro.Known[i].State = 2
			w.stats["full-states-that-differ-from-the-linear-replay"]++
		}
	}
	w.coq = append(w.coq, "EOp ("+mgrsim.CoqOp(w.t, op)+") ("+mgrsim.CoqObs(ro)+")")
	if o.Panic {
		w.report("c04-panic", "%v panicked: %s", op, o.ErrText)
		return
	}
	for _, id := range o.Best {
		if id >= 0 {
			w.everBest[id] = true
		}
	}
	// reorg notifications are delivered whenever, and only when, the tip has changed
	delta := len(w.notes) - before
	changed := len(o.Best) > 0 && len(w.prev.Best) > 0 && o.Best[0] != w.prev.Best[0]
	if changed {
		w.stats["tip-changes"]++
		if op.Kind == "addv" {
			w.stats["tip-changes-through-AddValidatedV2Blocks"]++
		}
	}
	w.judgeListeners(op.String(), changed, w.s.CM.Tip(), false)
	if w.fail != nil {
		return
	}
	if (delta >= 1) != changed || delta > 1 {
		w.report("c04-notify-mismatch", "%v: OnReorg callback invoked %d time(s), tip changed=%v (%d -> %d), err=%v", op, delta, changed, w.prev.Best[0], o.Best[0], o.Err)
	} else if delta == 1 && w.notes[len(w.notes)-1] != w.s.CM.Tip() {
		w.report("c04-notify-wrong-tip", "%v: OnReorg callback got %v, the tip is %v", op, w.notes[len(w.notes)-1], w.s.CM.Tip())
	}
	w.prev = o
	w.follow()
}

// fullButDifferent: the node stores a state for n that is not the linear replay's but has the same
// number of accumulator leaves (a header-derived state has its parent's).
func (w *world) fullButDifferent(n *chaingen.Node) bool {
	cs, ok := w.s.Store.State(n.ID)
	return ok && n.ChainValid() && cs.Elements.NumLeaves == n.FullState.Elements.NumLeaves && string(mgrsim.EncState(cs)) != string(mgrsim.EncState(n.FullState))
}

// differsByExpiryOrder lets the C02 judge decide, for the history so far, whether the node's
// deviation from the linear replay is the known expiry-order finding (only expiration lists differ
// from a linear twin, as permutations explained by a reverted resolution/re-windowing).
func (w *world) differsByExpiryOrder() bool {
	if w.f8At == len(w.ops) {
		return w.f8
	}
	w.f8At, w.f8 = len(w.ops), false
	nd, err := storeobs.NewNode(w.t, chain.NewMemDB(), nil)
	if err != nil {
		return false
	}
	for _, op := range w.ops {
		if o := nd.Do(op); o.Panic {
			return false
		}
	}
	f, _ := storeobs.Judge(nd, storeobs.NewTwins(w.t))
	w.f8 = f != nil && f.Kind == storeobs.KindF8
	return w.f8
}

// follow: the recorder polls block by block up to the tip and keeps the ledger it holds at each index.
func (w *world) follow() {
	rec := w.subs[recorderID]
	for i := 0; rec.idx != w.s.CM.Tip() && w.fail == nil && i < 10000; i++ {
		before := rec.idx
		w.poll(recorderID, 1)
		if rec.idx == before {
			return // stranded (pruned below it): nothing more to record
		}
	}
}

// doPool submits a transaction set to the pool. Reorg notifications are delivered only when the
// tip has changed: a pool submission, accepted or not, must not invoke the OnReorg listeners.
func (w *world) doPool(ev Ev) {
	before, pbefore, tip := len(w.notes), w.poolNotes, w.s.CM.Tip()
	data := []byte(fmt.Sprintf("verif c04 pool submission %d", ev.Salt))
	var known bool
	var err error
	w.guarded(fmt.Sprintf("pool submission (v2=%v bad=%v)", ev.V2, ev.Bad), func() {
		if ev.V2 {
			txn := types.V2Transaction{ArbitraryData: data}
			if ev.Bad {
				txn.SiacoinOutputs = []types.SiacoinOutput{{Address: w.t.Env.Addr, Value: types.Siacoins(1)}} // no input pays for it
			}
			known, err = w.s.CM.AddV2PoolTransactions(tip, []types.V2Transaction{txn})
		} else {
			txn := types.Transaction{ArbitraryData: [][]byte{data}}
			if ev.Bad {
				var id types.SiacoinOutputID
				copy(id[:], data)
				txn.SiacoinInputs = []types.SiacoinInput{{ParentID: id, UnlockConditions: w.t.Env.UC}} // spends nothing that exists
			}
			known, err = w.s.CM.AddPoolTransactions([]types.Transaction{txn})
		}
	})
	if w.fail != nil {
		return
	}
	accepted := err == nil && !known
	delta := len(w.notes) - before
	kind := "v1"
	if ev.V2 {
		kind = "v2"
	}
	if accepted {
		w.stats["pool-submissions-accepted-"+kind]++
		if w.poolNotes > pbefore {
			w.stats["pool-listener-invocations"]++
		}
	} else {
		w.stats["pool-submissions-rejected-"+kind]++
	}
	w.coq = append(w.coq, fmt.Sprintf("EPool %v %v", accepted, delta > 0))
	w.judgeListeners(fmt.Sprintf("a %s pool submission", kind), false, tip, accepted)
	if w.fail != nil {
		return
	}
	if w.s.CM.Tip() != tip {
		w.report("c04-pool-submission-moved-tip", "a %s pool submission moved the tip %v -> %v", kind, tip, w.s.CM.Tip())
	} else if delta > 0 {
		w.report("c04-notify-without-tip-change", "a %s pool submission (accepted=%v, err=%v) invoked the OnReorg listeners %d time(s) with %v although no block was added and the tip is still %v", kind, accepted, err, delta, w.notes[len(w.notes)-1], tip)
	}
}

func (w *world) spawn(ev Ev) {
	switch {
	case ev.At == -1:
		w.subs[ev.Sub] = &sub{l: chaingen.NewLedger()}
		w.stats["subscribers-from-nothing"]++
	case ev.At == -3:
		// the id of a block the store holds (H names the tree block), with a height that is not its own
		x := int(ev.H)
		if x <= 0 || x >= len(w.t.Nodes) || !w.everBest[x] || !w.prev.Known[x].Body {
			return
		}
		n := w.t.Nodes[x]
		h := n.Height + 1 + uint64(ev.Sub%3)
		if ev.Sub%2 == 0 && n.Height > 0 {
			h = n.Height - 1
		}
		w.subs[ev.Sub] = &sub{idx: types.ChainIndex{Height: h, ID: n.ID}, forged: true}
		w.stats["subscribers-forged-height"]++
	case ev.At == -2:
		var id types.BlockID
		rng.New(uint64(ev.Sub)*7919 + 13).Bytes(id[:])
		w.subs[ev.Sub] = &sub{idx: types.ChainIndex{Height: ev.H, ID: id}, bogus: true, coqID: 900000 + ev.Sub}
		w.stats["subscribers-bogus-id"]++
	case ev.At <= -1000:
		// the index of a tree block that was never on the best chain (not submitted, or stored but
		// never applied): no subscriber can have reached it
		x := -(ev.At + 1000)
		if x >= len(w.t.Nodes) || w.everBest[x] {
			return
		}
		n := w.t.Nodes[x]
		w.subs[ev.Sub] = &sub{idx: types.ChainIndex{Height: n.Height, ID: n.ID}, bogus: true}
		w.stats["subscribers-unreached-index"]++
	default:
		if ev.At >= len(w.t.Nodes) || !w.everBest[ev.At] || !w.prev.Known[ev.At].Body {
			return // not an index a subscriber can have reached and the store still holds (unpruned)
		}
		n := w.t.Nodes[ev.At]
		held := w.snap[ev.At] // what a subscriber of this node held when it reached that index
		if held == nil {
			return
		}
		w.subs[ev.Sub] = &sub{idx: types.ChainIndex{Height: n.Height, ID: n.ID}, l: held.Clone()}
		w.stats["subscribers-from-held-index"]++
		if !contains(w.prev.Best, ev.At) {
			w.stats["subscribers-from-stale-branch"]++
		}
	}
}

func contains(xs []int, x int) bool {
	for _, y := range xs {
		if y == x {
			return true
		}
	}
	return false
}

// needed returns the blocks the path from the subscriber's node to the tip touches, in order
// (reverts first), computed from the tree and the reported best chain: the property's own
// description of the path.
func (w *world) needed(sb *sub) (revs, apps []int) {
	onBest := map[int]bool{}
	for _, id := range w.prev.Best {
		onBest[id] = true
	}
	forkH := -1
	if sb.idx != (types.ChainIndex{}) {
		n := w.t.ByID[sb.idx.ID]
		for ; !onBest[n.Idx]; n = n.Parent {
			revs = append(revs, n.Idx)
		}
		forkH = int(n.Height)
	}
	for h := forkH + 1; h < len(w.prev.Best); h++ {
		apps = append(apps, w.prev.Best[len(w.prev.Best)-1-h])
	}
	return
}

func (w *world) poll(id int, max int) {
	sb := w.subs[id]
	if sb == nil {
		return
	}
	var rus []chain.RevertUpdate
	var aus []chain.ApplyUpdate
	var err error
	if !w.guarded(fmt.Sprintf("UpdatesSince(%v, %d)", sb.idx, max), func() { rus, aus, err = w.s.CM.UpdatesSince(sb.idx, max) }) {
		return
	}
	w.judge(sb, max, rus, aus, err)
}

// judge evaluates the monitors on one UpdatesSince result (the store view w.prev is the one
// observed after the last state change).
func (w *world) judge(sb *sub, max int, rus []chain.RevertUpdate, aus []chain.ApplyUpdate, err error) {
	w.stats["polls"]++
	switch {
	case max >= 1<<31:
		w.stats["polls-with-a-chunk-size-no-slice-can-have"]++
	case max <= 0:
		w.stats["polls-with-a-chunk-size-below-one"]++
	}
	before := sb.idx
	if max <= 0 {
		// outside the property's quantifier (chunk size >= 1): the call must still not panic (guarded)
		// and must not hand out anything
		if err == nil && len(rus)+len(aus) > 0 {
			w.report("c04-updates-for-a-nonpositive-quota", "UpdatesSince(%v, %d) returned %d reverts and %d applies", sb.idx, max, len(rus), len(aus))
		}
		if err == nil && !sb.rec {
			w.coq = append(w.coq, fmt.Sprintf("EPoll %s 0 (Some ([], [], %s))", w.coqIdx(before, sb.coqID), w.coqIdx(before, sb.coqID)))
		}
		return
	}
	if sb.forged {
		// an index with the id of a held block and a height that is not the block's: nothing is
		// promised for it beyond "no panic, no deadlock"; the model computes the same thing
		w.stats["polls-forged-height"]++
		if err != nil {
			w.coq = append(w.coq, fmt.Sprintf("EPoll %s %d None", w.coqIdx(before, 0), coqMax(max)))
			return
		}
		after := before
		var rids, aids []string
		for _, ru := range rus {
			rids = append(rids, fmt.Sprint(w.nodeOf(types.ChainIndex{ID: ru.Block.ID()})))
			after = ru.State.Index
		}
		for _, au := range aus {
			aids = append(aids, fmt.Sprint(w.nodeOf(au.State.Index)))
			after = au.State.Index
		}
		w.coq = append(w.coq, fmt.Sprintf("EPoll %s %d (Some ([%s], [%s], %s))", w.coqIdx(before, 0), coqMax(max), strings.Join(rids, "; "), strings.Join(aids, "; "), w.coqIdx(after, 0)))
		return
	}
	if sb.bogus {
		_, held := w.s.Store.Header(sb.idx.ID)
		applied := false // has the block been applied by now (then it is a reachable index after all)
		if n, ok := w.t.ByID[sb.idx.ID]; ok {
			applied = w.everBest[n.Idx] || w.prev.Known[n.Idx].Supp
		}
		if err == nil && !held && max >= 1 {
			w.report("c04-bogus-index-no-error", "UpdatesSince(%v, %d) for an id the store never held returned %d reverts and %d applies instead of an error", sb.idx, max, len(rus), len(aus))
		} else if err == nil && !applied && max >= 1 {
			w.report("c04-unreached-index-no-error", "UpdatesSince(%v [block %d], %d) for a block that was stored but never applied (no supplement) returned %d reverts and %d applies instead of an error", sb.idx, w.nodeOf(sb.idx), max, len(rus), len(aus))
		}
		if err != nil {
			w.stats["polls-bogus-error"]++
			w.coq = append(w.coq, fmt.Sprintf("EPoll %s %d None", w.coqIdx(before, sb.coqID), coqMax(max)))
		} else {
			// rendered for the model as well (never folded)
			after, _, _ := subs.CheckChunk(sb.idx, 1<<30, rus, aus)
			var rids, aids []string
			for _, ru := range rus {
				rids = append(rids, fmt.Sprint(w.nodeOf(types.ChainIndex{ID: ru.Block.ID()})))
			}
			for _, au := range aus {
				aids = append(aids, fmt.Sprint(w.nodeOf(au.State.Index)))
			}
			w.coq = append(w.coq, fmt.Sprintf("EPoll %s %d (Some ([%s], [%s], %s))", w.coqIdx(before, sb.coqID), coqMax(max), strings.Join(rids, "; "), strings.Join(aids, "; "), w.coqIdx(after, sb.coqID)))
		}
		return
	}
	revs, apps := w.needed(sb)
	dist := len(revs) + len(apps)
	want := dist
	if max < want {
		want = max
	}
	// an error is legitimate only if a body on the requested stretch was pruned (PruneBlocks removes
	// body and supplement together). Every block of the stretch was applied at some point, so a body
	// without supplement (or with a header-derived state) means the store lost what it held.
	expectErr := false
	lost := -1
	for i, x := range append(append([]int(nil), revs...), apps...) {
		if i >= want {
			break
		}
		if !w.prev.Known[x].Body {
			expectErr = true
		} else if !w.prev.Known[x].Supp && lost < 0 {
			lost = x
		}
	}
	if err != nil {
		w.stats["polls-error"]++
		if !sb.rec {
			w.coq = append(w.coq, fmt.Sprintf("EPoll %s %d None", w.coqIdx(before, 0), coqMax(max)))
		}
		if lost >= 0 && !expectErr {
			w.report("c04-held-index-lost", "UpdatesSince(%v [block %d], %d) failed (%v): block %d on the subscriber's path (reverts %v, applies %v) was applied earlier and never pruned, its body is still stored, but its supplement is gone (a later submission re-stored it)", sb.idx, w.nodeOf(sb.idx), max, err, lost, revs, apps)
		} else if !expectErr {
			w.report("c04-error-for-reached-index", "UpdatesSince(%v [block %d], %d) failed (%v) although every block on the requested stretch (reverts %v, applies %v) is held with its supplement", sb.idx, w.nodeOf(sb.idx), max, err, revs, apps)
		}
		return
	}
	after, kind, detail := subs.CheckChunk(sb.idx, max, rus, aus)
	if kind != "" {
		w.report(kind, "%s", detail)
		return
	}
	var rids, aids []string
	for _, ru := range rus {
		rids = append(rids, fmt.Sprint(w.nodeOf(types.ChainIndex{ID: ru.Block.ID()})))
	}
	for _, au := range aus {
		aids = append(aids, fmt.Sprint(w.nodeOf(au.State.Index)))
		// the state an update carries is the state the manager itself holds for that block
		if cs, ok := w.s.Store.State(au.State.Index.ID); ok && string(mgrsim.EncState(cs)) != string(mgrsim.EncState(au.State)) {
			w.report("c04-update-state-differs-from-the-managers", "the apply update for block %d (chunk from %v, max %d) carries a state whose encoding differs from the state the manager stores for that block (elements: %d leaves vs %d): the update was not computed from what the manager applied", w.nodeOf(au.State.Index), before, max, au.State.Elements.NumLeaves, cs.Elements.NumLeaves)
			return
		}
	}
	if !sb.rec {
		w.coq = append(w.coq, fmt.Sprintf("EPoll %s %d (Some ([%s], [%s], %s))", w.coqIdx(before, 0), coqMax(max), strings.Join(rids, "; "), strings.Join(aids, "; "), w.coqIdx(after, 0)))
	}
	if len(rus) > 0 {
		w.stats["chunks-with-reverts"]++
	}
	if len(rus) > 0 && len(aus) == 0 {
		w.stats["chunks-ending-on-a-revert"]++
	}
	if len(rus)+len(aus) == max && max < dist {
		w.stats["chunks-cut-by-max"]++
	}
	switch {
	case dist == 0:
		w.stats["polls-at-the-tip"]++
	case max == dist:
		w.stats["chunks-with-max-equal-to-the-distance"]++
	case max == dist-1 || max == dist+1:
		w.stats["chunks-with-max-one-off-the-distance"]++
	}
	if len(revs) > 0 && len(rus) == len(revs) && len(aus) == 0 {
		w.stats["chunks-ending-exactly-at-the-fork-point"]++
	}
	if !expectErr && len(rus)+len(aus) != want {
		w.report("c04-chunk-stops-early", "UpdatesSince(%v [block %d], %d) returned %d updates; the path to the tip has %d (reverts %v, applies %v)", sb.idx, w.nodeOf(sb.idx), max, len(rus)+len(aus), dist, revs, apps)
		return
	}
	// the updates are exactly the path the tree prescribes
	for i, ru := range rus {
		if i < len(revs) && w.nodeOf(types.ChainIndex{ID: ru.Block.ID()}) != revs[i] {
			w.report("c04-wrong-revert", "chunk from block %d: revert %d is block %d, the path prescribes %d", w.nodeOf(before), i, w.nodeOf(types.ChainIndex{ID: ru.Block.ID()}), revs[i])
			return
		}
	}
	if len(rus) == len(revs) || len(aus) > 0 {
		if len(rus) != len(revs) {
			w.report("c04-apply-before-fork-point", "chunk from block %d: %d reverts then applies, but %d blocks are off the best chain", w.nodeOf(before), len(rus), len(revs))
			return
		}
		for i, au := range aus {
			if i < len(apps) && w.nodeOf(au.State.Index) != apps[i] {
				w.report("c04-wrong-apply", "chunk from block %d: apply %d is block %d, the best chain prescribes %d", w.nodeOf(before), i, w.nodeOf(au.State.Index), apps[i])
				return
			}
		}
	}
	func() {
		defer func() {
			if r := recover(); r != nil {
				w.report("c04-panic", "folding the chunk %v -> %v (max %d, reverts %v, applies %v) into the shadow ledger panicked in the update's own UpdateElementProof/diffs: %v", before, after, max, rids, aids, r)
			}
		}()
		subs.Fold(sb.l, rus, aus)
	}()
	if w.fail != nil {
		return
	}
	sb.idx = after
	if sb.rec {
		if n, ok := w.t.ByID[after.ID]; ok {
			w.snap[n.Idx] = sb.l.Clone()
		}
		return // the other subscribers' ledgers are the ones compared
	}
	// the shadow ledger equals the linear twin's ledger at the index reached (elements, leaf
	// indices, byte-equal Merkle proofs)
	if after != (types.ChainIndex{}) {
		n := w.t.ByID[after.ID]
		// every carried proof verifies against the accumulator of the state at that index
		if cs, ok := w.s.CM.State(after.ID); ok {
			if d := subs.VerifyAt(cs, sb.l); d != "" {
				w.report("c04-carried-proof-invalid", "after the chunk %v -> %v (max %d, %d reverts, %d applies) a proof folded from the updates does not verify against the accumulator at block %d: %s", before, after, max, len(rus), len(aus), n.Idx, d)
				return
			}
			w.stats["proof-verifications"]++
		}
		cmp := subs.Compare
		if cs, ok := w.s.Store.State(n.ID); ok && cs.Elements.NumLeaves != n.FullState.Elements.NumLeaves {
			// (a full state that merely orders expirations differently has the same number of leaves)
			w.report("c04-held-index-lost", "after the chunk %v -> %v the subscriber stands on block %d, which was applied earlier, but the store now holds only a header-derived state for it (a later submission re-stored it)", before, after, n.Idx)
			return
		}
		if w.prev.Known[n.Idx].State != 2 {
			// the node's own state at this block is not the linear replay's (expiring-contract order
			// after a reverted revision: C02's finding): leaf positions are not comparable
			if !w.order && !w.differsByExpiryOrder() {
				w.report("c04-state-differs-from-linear-replay", "the node's state at block %d differs from the linear replay of the same chain and the C02 judge does not attribute it to the expiration-list order", n.Idx)
				return
			}
			cmp = subs.CompareLoose
			w.stats["indices-whose-state-differs-from-the-linear-replay-by-expiry-order"]++
		}
		if d := cmp(sb.l, w.tw.At(n)); d != "" {
			k := "c04-shadow-ledger-differs"
			if strings.Contains(d, "Merkle proof") {
				k = "c04-carried-proof-differs"
			}
			w.report(k, "after the chunk %v -> %v (max %d, %d reverts, %d applies) the ledger folded from the updates differs from the linear replay of block %d: %s", before, after, max, len(rus), len(aus), n.Idx, d)
			return
		}
		w.stats["ledger-comparisons"]++
		if after == w.s.CM.Tip() {
			w.stats["ledger-comparisons-at-tip"]++
		}
	}
	// history dependence: what one subscriber does with the objects it was handed must not show in
	// what the next caller gets. The chunk is digested, scribbled over, and asked for again.
	if len(rus)+len(aus) > 0 && w.stats["polls"]%3 == 0 && w.fail == nil {
		want := subs.DigestChunk(rus, aus)
		subs.Scribble(rus, aus)
		var r2 []chain.RevertUpdate
		var a2 []chain.ApplyUpdate
		var e2 error
		if !w.guarded(fmt.Sprintf("UpdatesSince(%v, %d) again", before, max), func() { r2, a2, e2 = w.s.CM.UpdatesSince(before, max) }) {
			return
		}
		w.stats["re-polls-after-scribbling-over-the-returned-updates"]++
		if e2 != nil {
			w.report("c04-repeated-poll-differs", "UpdatesSince(%v, %d) succeeded, the same call repeated at once failed: %v", before, max, e2)
		} else if got := subs.DigestChunk(r2, a2); got != want {
			w.report("c04-returned-updates-alias-manager-state", "UpdatesSince(%v [block %d], %d) was asked twice with no submission in between; after the first result (%d reverts, %d applies) was overwritten by its receiver, the second result differs from what the first one was: the manager hands out memory it keeps using", before, w.nodeOf(before), max, len(rus), len(aus))
		}
	}
}

// blind runs a stretch of manager calls with no read in between (lazily maintained state must not
// depend on being looked at); the first read afterwards is the subscriber's UpdatesSince, and only
// then is the store observed and the result judged.
func (w *world) blind(ev Ev) {
	sb := w.subs[ev.Sub]
	if sb == nil || sb.bogus || sb.forged || sb.rec {
		return
	}
	w.blindNow = true
	for _, op := range ev.Ops {
		var o mgrsim.Obs
		if !w.guarded(op.String()+" (unobserved)", func() { o = w.s.Call(op) }) {
			w.blindNow = false
			return
		}
		if o.Panic {
			w.blindNow = false
			w.report("c04-panic", "%v panicked: %s", op, o.ErrText)
			return
		}
		if op.Kind == "prune" {
			w.pruned = true
		}
		w.ops = append(w.ops, op)
		w.coq = append(w.coq, "EOpBlind ("+mgrsim.CoqOp(w.t, op)+")")
		w.stats["calls-without-any-read-afterwards"]++
	}
	var rus []chain.RevertUpdate
	var aus []chain.ApplyUpdate
	var err error
	ok := w.guarded(fmt.Sprintf("UpdatesSince(%v, %d) as the first read after %d calls", sb.idx, ev.Max, len(ev.Ops)), func() { rus, aus, err = w.s.CM.UpdatesSince(sb.idx, ev.Max) })
	w.blindNow = false
	if !ok {
		return
	}
	w.stats["polls-as-the-first-read-after-unobserved-calls"]++
	var o mgrsim.Obs
	if !w.guarded("observing the store", func() { w.s.Observe(&o) }) {
		return
	}
	for _, id := range o.Best {
		if id >= 0 {
			w.everBest[id] = true
		}
	}
	ro := o
	ro.Known = append([]mgrsim.KnownEntry(nil), o.Known...)
	for i, k := range ro.Known {
		if k.State == 1 && w.fullButDifferent(w.t.Nodes[k.ID]) {
			ro.Known[i].State = 2
		}
	}
	w.coq = append(w.coq, "ESee ("+mgrsim.CoqObs(ro)+")")
	w.prev = o
	for _, id := range w.lorder { // notifications inside the stretch are not judged one by one
		l := w.lsts[id]
		l.seen, l.pending = len(l.tips), nil
		if l.pool {
			l.seen = l.n
		}
	}
	w.judge(sb, ev.Max, rus, aus, err)
	if w.fail == nil {
		w.follow()
	}
}

func (w *world) nodeOf(ci types.ChainIndex) int {
	if n, ok := w.t.ByID[ci.ID]; ok {
		return n.Idx
	}
	if ci == (types.ChainIndex{}) {
		return -1
	}
	return 999999
}

// finish: a subscriber from every index the store still holds, then everybody polls to the tip.
func (w *world) finish(r *rng.R) {
	next := 10000
	for i, k := range w.prev.Known {
		if w.everBest[i] && k.Body {
			w.spawn(Ev{K: "spawn", Sub: next, At: i})
			if sb := w.subs[next]; sb != nil {
				sb.chunk = chunkSizes[r.Intn(len(chunkSizes))]
			}
			next++
		}
	}
	tip := w.s.CM.Tip()
	ids := make([]int, 0, len(w.subs))
	for id := range w.subs {
		ids = append(ids, id)
	}
	sortInts(ids)
	for _, id := range ids {
		sb := w.subs[id]
		if sb.bogus || sb.rec || sb.forged {
			continue
		}
		if sb.chunk == 0 {
			sb.chunk = chunkSizes[r.Intn(len(chunkSizes))]
		}
		revs, apps := w.needed(sb)
		dist := len(revs) + len(apps)
		// boundary sizes: exactly the reverts (the chunk ends on the fork point), exactly the distance, one off
		if dist > 1 && r.Chance(1, 3) {
			c := []int{dist, dist - 1, dist + 1, len(revs)}[r.Intn(4)]
			if c >= 1 {
				sb.chunk = c
			}
		}
		polls := 0
		for sb.idx != tip && w.fail == nil && polls <= dist {
			w.poll(id, sb.chunk)
			polls++
		}
		if w.fail != nil {
			return
		}
		if sb.idx != tip {
			if w.pruned {
				continue // stranded below a pruned height: outside the property (PruneBlocks' contract)
			}
			w.report("c04-did-not-catch-up", "subscriber %d polling with max %d is at %v after %d polls, the tip is %v (distance was %d)", id, sb.chunk, sb.idx, polls, tip, dist)
			return
		}
		want := 0
		if dist > 0 {
			want = 1 + (dist-1)/sb.chunk
		}
		if polls != want && !w.pruned {
			w.report("c04-wrong-number-of-polls", "subscriber %d at distance %d needed %d polls with max %d, expected %d", id, dist, polls, sb.chunk, want)
			return
		}
		w.stats["subscribers-caught-up"]++
	}
}

func sortInts(xs []int) {
	for i := 1; i < len(xs); i++ {
		for j := i; j > 0 && xs[j-1] > xs[j]; j-- {
			xs[j-1], xs[j] = xs[j], xs[j-1]
		}
	}
}

func runCase(cs Case, t *chaingen.Tree) *world {
	w := newWorldOrdered(t, cs.Order)
	for _, ev := range cs.Evs {
		switch ev.K {
		case "op":
			w.doOp(*ev.Op)
		case "spawn":
			w.spawn(ev)
		case "poll":
			w.poll(ev.Sub, ev.Max)
		case "pool":
			w.doPool(ev)
		case "reg":
			w.register(ev)
		case "cancel":
			w.cancelListener(ev)
		case "blind":
			w.blind(ev)
		}
		if w.fail != nil {
			return w
		}
	}
	if cs.Final && w.fail == nil {
		w.finish(rng.New(cs.Seed ^ 0xfeed))
	}
	return w
}

// validatedSegment picks the still unknown part of the path to a random valid block if it
// satisfies the precondition of AddValidatedV2Blocks (v2 blocks at or above the require height).
func validatedSegment(r *rng.R, t *chaingen.Tree, w *world) (mgrsim.Op, bool) {
	x := t.Nodes[1+r.Intn(len(t.Nodes)-1)]
	if !x.ChainValid() {
		return mgrsim.Op{}, false
	}
	path := t.Path(x)
	from := len(path) - 1
	for j, y := range path {
		if w.prev.Known[y.Idx].State == 0 {
			from = j
			break
		}
	}
	var ids []int
	for _, y := range path[from:] {
		if y.Block.V2 == nil || y.Height < t.Env.Net.HardforkV2.RequireHeight || y.TwinOf != nil {
			return mgrsim.Op{}, false
		}
		ids = append(ids, y.Idx)
	}
	return mgrsim.Op{Kind: "addv", Nodes: ids}, true
}

// genCase generates a history: it runs the plan on a scratch manager to know which indices
// a subscriber can hold at each point.
func genCase(r *rng.R, regime int, prunes bool) Case {
	cs := Case{Seed: r.U64(), Regime: regime, Final: true, Opts: chaingen.GenOpts{Blocks: 5 + r.Intn(16), Branchiness: 2 + r.Intn(4), TxPerBlock: r.Intn(4), Corruptions: r.Intn(3), Jitter: r.Intn(4), OnInvalid: r.Intn(2)}}
	if regime >= 3 && r.Bool() {
		cs.Opts.Jitter = 4000
	}
	if r.Chance(1, 4) {
		cs.Opts.Remine = 2 // sibling branches confirm the same transactions (same ids, other proofs)
	}
	if regime%3 == 0 && !prunes && r.Chance(1, 2) {
		// v1-only network, many short-lived contracts: blocks in which several contracts expire, and a
		// manager that prescribes its own (reversed) order for them
		cs.Order = true
		cs.Opts.Kinds = []string{"v1-form", "v1-form", "v1-form", "v1-transfer", "v1-proof", "v1-revise", "v1-siafund"}
		cs.Opts.TxPerBlock = 3 + r.Intn(2)
		cs.Opts.Corruptions, cs.Opts.OnInvalid = 0, 0
	}
	t := cs.safeTree()
	for t == nil {
		cs.Seed = r.U64()
		t = cs.safeTree()
	}
	plan := mgrsim.GenPlan(rng.New(cs.Seed^0x5bd1e995), t, prunes)
	w := newWorldOrdered(t, cs.Order)
	nsub, salt, nl := 0, 0, 0
	add := func(ev Ev) {
		cs.Evs = append(cs.Evs, ev)
		switch ev.K {
		case "op":
			w.doOp(*ev.Op)
		case "spawn":
			w.spawn(ev)
		case "poll":
			w.poll(ev.Sub, ev.Max)
		case "pool":
			w.doPool(ev)
		case "reg":
			w.register(ev)
		case "cancel":
			w.cancelListener(ev)
		case "blind":
			w.blind(ev)
		}
	}
	if r.Bool() { // a subscriber that syncs from inside its reorg callback
		nl++
		add(Ev{K: "reg", L: nl, Reenter: true})
	}
	add(Ev{K: "spawn", Sub: nsub, At: -1})
	nsub++
	var live []int
	live = append(live, 0)
	for i := 0; i < len(plan); i++ {
		// a stretch of calls with no read in between, then a subscriber's poll as the first read
		if r.Chance(1, 6) && i+1 < len(plan) {
			k := 1 + r.Intn(3)
			if i+k > len(plan) {
				k = len(plan) - i
			}
			ops := append([]mgrsim.Op(nil), plan[i:i+k]...)
			// often the stretch ends with a pre-validated segment, so that the last tip change comes
			// through AddValidatedV2Blocks with nobody looking
			if av, ok := validatedSegment(r, t, w); ok && r.Bool() {
				ops = append(ops, av)
			}
			add(Ev{K: "blind", Ops: ops, Sub: live[r.Intn(len(live))], Max: chunkSizes[r.Intn(len(chunkSizes))]})
			i += k - 1
			if w.fail != nil {
				break
			}
			continue
		}
		op := plan[i]
		bestBefore := append([]int(nil), w.prev.Best...)
		add(Ev{K: "op", Op: &op})
		if w.fail != nil {
			break
		}
		// a reorg left a stale branch behind: a subscriber is parked on it, then blocks of the stale
		// branch that were applied before (the whole branch, or only the first one above the fork
		// point) are submitted again — a peer still on the losing branch relays them — and the
		// subscriber polls with small and large chunks
		var stale []int // tip first
		for _, x := range bestBefore {
			if !contains(w.prev.Best, x) {
				stale = append(stale, x)
			}
		}
		if len(stale) > 0 && op.Kind != "prune" && r.Chance(1, 2) {
			parked := nsub
			add(Ev{K: "spawn", Sub: parked, At: stale[r.Intn(len(stale))]})
			live = append(live, parked)
			nsub++
			var nodes []int
			switch r.Intn(3) {
			case 0: // only the first block above the fork point
				nodes = []int{stale[len(stale)-1]}
			case 1: // only the old tip
				nodes = []int{stale[0]}
			default: // the whole branch, in order
				for j := len(stale) - 1; j >= 0; j-- {
					nodes = append(nodes, stale[j])
				}
			}
			re := mgrsim.Op{Kind: "add", Nodes: nodes}
			add(Ev{K: "op", Op: &re})
			for k := 1 + r.Intn(3); k > 0 && w.fail == nil; k-- {
				add(Ev{K: "poll", Sub: parked, Max: []int{1, 2, 100}[r.Intn(3)]})
			}
			if w.fail != nil {
				break
			}
		}
		// listener life cycle: registrations and cancellations in random order, several alive at once
		if r.Chance(1, 3) {
			var aliveL []int
			for _, id := range w.lorder {
				if w.lsts[id].active {
					aliveL = append(aliveL, id)
				}
			}
			if len(aliveL) > 0 && (len(aliveL) >= 4 || r.Bool()) {
				add(Ev{K: "cancel", L: aliveL[r.Intn(len(aliveL))]})
			} else {
				nl++
				add(Ev{K: "reg", L: nl, Pool: r.Chance(1, 3), Reenter: r.Chance(1, 3)})
			}
		}
		// tip changes must also arrive through AddValidatedV2Blocks: the unknown part of the path to a
		// valid block, if it consists of v2 blocks at or above the require height (its precondition)
		if r.Chance(1, 4) {
			if av, ok := validatedSegment(r, t, w); ok {
				add(Ev{K: "op", Op: &av})
				if w.fail != nil {
					break
				}
			}
		}
		// a pool submission between the manager calls (v1 / v2, now and then one that must be rejected)
		if r.Chance(1, 3) {
			salt++
			add(Ev{K: "pool", V2: r.Bool(), Bad: r.Chance(1, 4), Salt: salt})
			if w.fail != nil {
				break
			}
		}
		// polls of existing subscribers
		for k := r.Intn(3); k > 0; k-- {
			max := chunkSizes[r.Intn(len(chunkSizes))]
			if r.Chance(1, 12) {
				max = -r.Intn(2) * (1 + r.Intn(5)) // 0 or negative: outside the quantifier, must be harmless
			}
			add(Ev{K: "poll", Sub: live[r.Intn(len(live))], Max: max})
		}
		switch r.Intn(9) {
		case 0, 1: // a subscriber at an index the store still holds (often on a stale branch)
			var cands, stale []int
			for x, k := range w.prev.Known {
				if w.everBest[x] && k.Body {
					cands = append(cands, x)
					if !contains(w.prev.Best, x) {
						stale = append(stale, x)
					}
				}
			}
			if len(stale) > 0 && r.Chance(2, 3) {
				cands = stale
			}
			if len(cands) == 0 {
				break
			}
			add(Ev{K: "spawn", Sub: nsub, At: cands[r.Intn(len(cands))]})
			live = append(live, nsub)
			nsub++
		case 2: // another subscriber from nothing
			add(Ev{K: "spawn", Sub: nsub, At: -1})
			live = append(live, nsub)
			nsub++
		case 5: // the id of a held block with a height that is not its own
			var cands []int
			for x, k := range w.prev.Known {
				if x > 0 && w.everBest[x] && k.Body {
					cands = append(cands, x)
				}
			}
			if len(cands) > 0 {
				add(Ev{K: "spawn", Sub: nsub, At: -3, H: uint64(cands[r.Intn(len(cands))])})
				add(Ev{K: "poll", Sub: nsub, Max: chunkSizes[r.Intn(len(chunkSizes))]})
				nsub++
			}
		case 3, 4: // an id the store never held, or a block no subscriber can have reached
			if r.Chance(1, 3) {
				add(Ev{K: "spawn", Sub: nsub, At: -2, H: uint64(r.Intn(len(w.prev.Best) + 2))})
			} else {
				// prefer blocks that are stored but were never applied (header-valid, body never validated)
				var cands []int
				for x, k := range w.prev.Known {
					if k.Body && !k.Supp && !w.everBest[x] {
						cands = append(cands, x)
					}
				}
				x := 1 + r.Intn(len(t.Nodes)-1)
				if len(cands) > 0 && r.Chance(3, 4) {
					x = cands[r.Intn(len(cands))]
				}
				add(Ev{K: "spawn", Sub: nsub, At: -(x + 1000)})
			}
			add(Ev{K: "poll", Sub: nsub, Max: chunkSizes[r.Intn(len(chunkSizes))]})
			if r.Bool() {
				live = append(live, nsub) // polled again later, after further submissions
			}
			nsub++
		}
	}
	return cs
}

func shrink(cs Case, t *chaingen.Tree, kind string) Case {
	deadline := time.Now().Add(20 * time.Second) // (every candidate that still deadlocks costs a watchdog period)
	fails := func(c Case) bool {
		if time.Now().After(deadline) {
			return false
		}
		w := runCase(c, t)
		return w.fail != nil && w.fail.kind == kind
	}
	// everything after the failing step is irrelevant: cut it off first
	if kind == "c04-manager-deadlock" || kind == "c04-listener-lost-notification" {
		for n := 1; n < len(cs.Evs); n++ {
			c := cs
			c.Evs, c.Final = cs.Evs[:n], false
			if w := runCase(c, t); w.fail != nil && w.fail.kind == kind {
				cs = c
				break
			}
		}
	}
	for changed := true; changed; {
		changed = false
		for i := range cs.Evs {
			c := cs
			c.Evs = append(append([]Ev(nil), cs.Evs[:i]...), cs.Evs[i+1:]...)
			if fails(c) {
				cs, changed = c, true
				break
			}
		}
		if changed {
			continue
		}
		if cs.Final {
			c := cs
			c.Final = false
			if fails(c) {
				cs, changed = c, true
				continue
			}
		}
		for i := range cs.Evs {
			if cs.Evs[i].K != "op" || cs.Evs[i].Op.Kind == "addv" || len(cs.Evs[i].Op.Nodes) <= 1 {
				continue
			}
			for j := range cs.Evs[i].Op.Nodes {
				c := cs
				c.Evs = append([]Ev(nil), cs.Evs...)
				op := *cs.Evs[i].Op
				op.Nodes = append(append([]int(nil), op.Nodes[:j]...), op.Nodes[j+1:]...)
				c.Evs[i].Op = &op
				if fails(c) {
					cs, changed = c, true
					break
				}
			}
			if changed {
				break
			}
		}
	}
	return cs
}

func describe(t *chaingen.Tree) []string {
	var out []string
	for _, n := range t.Nodes {
		p := -1
		if n.Parent != nil {
			p = n.Parent.Idx
		}
		out = append(out, fmt.Sprintf("block %d parent %d height %d hdr_ok=%v body_ok=%v corrupt=%q kinds=%v", n.Idx, p, n.Height, n.HdrOK, n.BodyOK, n.Corrupt, n.Kinds))
	}
	return out
}

func evString(ev Ev) string {
	switch ev.K {
	case "op":
		return ev.Op.String()
	case "spawn":
		return fmt.Sprintf("spawn(sub %d at %d)", ev.Sub, ev.At)
	case "pool":
		return fmt.Sprintf("pool(v2=%v bad=%v #%d)", ev.V2, ev.Bad, ev.Salt)
	case "reg":
		return fmt.Sprintf("register(listener %d pool=%v reenter=%v)", ev.L, ev.Pool, ev.Reenter)
	case "cancel":
		return fmt.Sprintf("cancel(listener %d)", ev.L)
	case "blind":
		var ops []string
		for _, op := range ev.Ops {
			ops = append(ops, op.String())
		}
		return fmt.Sprintf("unobserved(%s) then poll(sub %d, max %d)", strings.Join(ops, ", "), ev.Sub, ev.Max)
	}
	return fmt.Sprintf("poll(sub %d, max %d)", ev.Sub, ev.Max)
}

// concurrent: pollers racing the submissions (thorough tier). Each result must be a contiguous
// chunk whose blocks lie on a best chain the manager had between the poll's start and end.
func concurrent(c *hx.Ctx, cs Case) *failure {
	t := cs.tree()
	var plan []mgrsim.Op
	for _, ev := range cs.Evs {
		if ev.K == "op" && ev.Op.Kind != "prune" {
			plan = append(plan, *ev.Op)
		}
	}
	s := mgrsim.NewSim(t, nil)
	tw := subs.NewTwin(t)
	var mu sync.Mutex
	var fail *failure
	report := func(kind, format string, a ...any) {
		mu.Lock()
		if fail == nil {
			fail = &failure{kind, fmt.Sprintf(format, a...)}
		}
		mu.Unlock()
	}
	// bests[i] = best chain (set of node ids) after i ops
	var bmu sync.Mutex
	bests := []map[int]bool{{0: true}}
	var done atomic.Int64
	var wg sync.WaitGroup
	stop := make(chan struct{})
	for p := 0; p < 4; p++ {
		wg.Add(1)
		seed := cs.Seed + uint64(p)
		go func() {
			defer wg.Done()
			defer func() {
				if r := recover(); r != nil {
					report("c04-panic-concurrent", "a poller racing the submissions panicked: %v", r)
				}
			}()
			r := rng.New(seed)
			idx := types.ChainIndex{}
			l := chaingen.NewLedger()
			for {
				stopping := false
				select {
				case <-stop:
					stopping = true
				default:
				}
				max := chunkSizes[r.Intn(len(chunkSizes))]
				lo := int(done.Load())
				rus, aus, err := s.CM.UpdatesSince(idx, max)
				hi := int(done.Load()) + 1
				if err != nil {
					report("c04-concurrent-error", "UpdatesSince(%v, %d) failed while racing submissions: %v", idx, max, err)
					return
				}
				after, kind, detail := subs.CheckChunk(idx, max, rus, aus)
				if kind != "" {
					report(kind+"-concurrent", "%s", detail)
					return
				}
				// the applied blocks lie on one best chain of the window
				if len(aus) > 0 {
					bmu.Lock()
					ok := false
					for i := lo; i <= hi && i < len(bests); i++ {
						all := true
						for _, au := range aus {
							if n, k := t.ByID[au.State.Index.ID]; !k || !bests[i][n.Idx] {
								all = false
							}
						}
						ok = ok || all
					}
					settled := hi < len(bests)
					bmu.Unlock()
					if !ok && settled {
						report("c04-concurrent-path-not-a-best-chain", "the blocks applied by a chunk from %v lie on none of the best chains the manager had during the call", idx)
						return
					}
				}
				subs.Fold(l, rus, aus)
				idx = after
				if stopping && idx == s.CM.Tip() {
					bmu.Lock()
					want := tw.At(t.ByID[idx.ID])
					bmu.Unlock()
					if d := subs.VerifyAt(s.CM.TipState(), l); d != "" {
						report("c04-carried-proof-invalid-concurrent", "after racing polls a folded proof does not verify at the tip: %s", d)
					} else if d := subs.CompareLoose(l, want); d != "" {
						report("c04-shadow-ledger-differs-concurrent", "after racing polls the folded ledger differs from the linear replay: %s", d)
					}
					return
				}
			}
		}()
	}
	for _, op := range plan {
		o := s.Do(op)
		set := map[int]bool{}
		for _, id := range o.Best {
			set[id] = true
		}
		bmu.Lock()
		bests = append(bests, set)
		bmu.Unlock()
		done.Add(1)
	}
	close(stop)
	wg.Wait()
	return fail
}

func run(c *hx.Ctx) {
	res := c.Res
	res.Shard = 40
	res.Rule = "fork trees of real mined blocks (6 regimes, every tx kind, corruptions) x mgrsim submission plans interleaved with polls (max 1,2,3,7,1000) of subscribers started from nothing, from held indices (preferably on stale branches) and from ids the store never held; afterwards one subscriber per index the store still holds, all polled to the tip; non-trivial := some chunk contained a revert and some chunk was cut short by max; distinct by (tree seed, events)"
	var cases []string
	failed := map[string]int{}
	doCase := func(cs Case) {
		t := cs.tree()
		w := runCase(cs, t)
		js, _ := json.Marshal(cs)
		res.Eval(string(js), w.stats["chunks-with-reverts"] > 0 && w.stats["chunks-cut-by-max"] > 0)
		res.Count("regime:" + chaingen.RegimeNames[cs.Regime])
		if cs.Order {
			res.Count("histories-with-a-prescribed-expiring-contract-order")
			res.CountN("blocks-with-a-prescribed-reversed-order", len(reversedOrder(t)))
		}
		if cs.Opts.Remine > 0 {
			res.Count("histories-over-trees-with-re-mined-transactions")
		}
		for k, v := range w.stats {
			res.CountN(k, v)
		}
		if w.fail != nil {
			small := cs
			if failed[w.fail.kind] < 3 { // only the first replays of a kind are kept: shrink those
				small = shrink(cs, t, w.fail.kind)
			}
			failed[w.fail.kind]++
			w2 := runCase(small, t)
			f := w2.fail
			if f == nil {
				f, small = w.fail, cs
			}
			var evs []string
			for _, ev := range small.Evs {
				evs = append(evs, evString(ev))
			}
			res.Fail(f.kind, f.detail, map[string]any{"case": small, "events": evs, "tree": describe(t)})
		}
		if !mgrsim.HasTwin(t, nil) {
			cases = append(cases, "mk_case "+mgrsim.CoqUniverse(t)+"\n  ["+strings.Join(w.coq, "; \n   ")+"]")
		}
		if len(res.Samples) < 2 {
			var evs []string
			for _, ev := range cs.Evs {
				evs = append(evs, evString(ev))
			}
			res.Sample(map[string]any{"regime": chaingen.RegimeNames[cs.Regime], "blocks": len(t.Nodes) - 1, "events": evs, "stats": w.stats})
		}
	}
	doRacing := func() {
		if f := racing(c.Seed, c.Scale(24, 400), res.Distribution); f != nil {
			res.Fail(f.kind, f.detail, map[string]any{"racing": true, "seed": c.Seed})
		}
	}
	pre := func() bool {
		bad := false
		for regime := 0; regime < 3; regime++ {
			if f := preflight(regime); f != nil {
				res.Fail(f.kind, f.detail, map[string]any{"preflight": true, "regime": regime})
				if f.kind != "c04-held-index-lost" { // (that one does not affect the generator's own builder)
					bad = true
				}
				res.Count("preflight-histories")
				break // one directed replay is enough; the generated histories supply the others
			}
			res.Count("preflight-histories")
		}
		return bad
	}
	if c.Replay != "" {
		var rp struct {
			Replay struct {
				Case      Case `json:"case"`
				Preflight bool `json:"preflight"`
				Racing    bool `json:"racing"`
			} `json:"replay"`
		}
		b, _ := os.ReadFile(c.Replay)
		json.Unmarshal(b, &rp)
		if rp.Replay.Preflight {
			pre()
			return
		}
		if rp.Replay.Racing {
			doRacing()
			return
		}
		doCase(rp.Replay.Case)
		res.WriteCases("Run.Run_C04", cases)
		return
	}
	if pre() {
		// the generator's own builder follows its manager through UpdatesSince: with a broken
		// stream it cannot be trusted to terminate, so the generated histories are skipped
		res.Notes = append(res.Notes, "the directed preflight history failed; generated histories were skipped")
		return
	}
	doRacing()
	// corpus: minimised earlier failures and false alarms (/verif/corpus/C04/*.json), run first
	files, _ := filepath.Glob("/verif/corpus/C04/*.json")
	sort.Strings(files)
	for _, f := range files {
		var cc struct {
			Replay struct {
				Case Case `json:"case"`
			} `json:"replay"`
		}
		if b, err := os.ReadFile(f); err == nil && json.Unmarshal(b, &cc) == nil && cc.Replay.Case.safeTree() != nil {
			doCase(cc.Replay.Case)
			res.Count("corpus-histories")
		}
	}
	n := c.Scale(220, 4000)
	for i := 0; i < n; i++ {
		r := c.R.Fork()
		doCase(genCase(r, i%6, i%10 == 9))
		if failed["c04-manager-deadlock"] >= 3 {
			// every deadlocked history costs a watchdog period and leaves a blocked node behind
			res.Notes = append(res.Notes, fmt.Sprintf("stopped after %d generated histories: three manager deadlocks with replays", i+1))
			break
		}
	}
	if c.Thorough {
		for i := 0; i < 300; i++ {
			r := c.R.Fork()
			cs := genCase(r, i%6, false)
			if f := concurrent(c, cs); f != nil {
				res.Fail(f.kind, f.detail, map[string]any{"case": cs, "concurrent": true})
			}
			res.Count("concurrent-histories")
		}
	} else {
		res.Notes = append(res.Notes, "concurrent pollers racing AddBlocks run in the thorough tier only")
	}
	res.WriteCases("Run.Run_C04", cases)
}
