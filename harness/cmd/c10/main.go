package main

// C10: a successful renter RPC is cryptographically bound, whatever the host does.
//
// For every client function of rhp/v4/rpc.go, every response message of its
// exchange and every corruption of the catalogue, a Byzantine host implemented
// here on the raw siamux stream answers the real rhp4.RPC* function with an
// honest response (computed from real data) that has been corrupted. Monitors
// compare every success with the ground truth kept by the harness; the
// (check bits, numeric fields, observed outcome) of every exchange are written
// as cases for the decision functions of coq/RHP/Renter.v.

import (
	"context"
	"encoding/json"
	"fmt"
	"math/big"
	"net"
	"os"
	"strings"
	"time"

	"go.sia.tech/core/types"
	rhp4 "go.sia.tech/coreutils/rhp/v4"
	"verif/harness/internal/hx"
	"verif/harness/internal/rng"
)

type big2 = big.Int

func main() { hx.Main("C10", runC10) }

type failure struct{ kind, detail string }

type result struct {
	rpc, scen, corr string
	peer            types.PrivateKey // transport identity of the host side; nil: the contract's host key
	observe         bool             // a panic is recorded as an observation, the case is not sent to the model
	panicked        bool
	ok              bool
	errStr          string
	coq             string
	nontrivial      bool
	fails           []failure
	x               *xchg
	extra           map[string]any
	rev             *types.V2FileContract // revising RPCs: the revision returned on success
	secs            []types.Hash256       // append: the sectors returned on success
}

func (r *result) name() string { return r.rpc + "/" + r.scen + "/" + r.corr }

func (r *result) fail(kind, f string, a ...any) {
	r.fails = append(r.fails, failure{kind, fmt.Sprintf(f, a...)})
}

func (r *result) setErr(err error) {
	r.ok = err == nil && !r.panicked
	if err != nil {
		r.errStr = err.Error()
	}
}

// do runs one exchange and turns a panic or a hang of the renter into a failure.
func (w *world) do(r *result, handler func(net.Conn, *xchg), call func(context.Context, rhp4.TransportClient)) *xchg {
	peer := r.peer
	if peer == nil {
		peer = w.hk
	}
	x, p, hung := w.exchange(peer, handler, call)
	r.x = x
	if w.sess != nil {
		w.last[r.rpc] = x.Sent
	}
	if p != nil || hung {
		r.panicked = true
	}
	if p != nil && r.observe {
		r.extra = map[string]any{"observed-panic": fmt.Sprint(p)}
	} else if p != nil {
		r.fail("renter-panics-on-"+r.rpc+"-response", "the RPC function panicked instead of returning an error: %v", p)
	}
	if hung {
		r.fail("renter-hangs-on-"+r.rpc+"-response", "the RPC function did not return within 12 s although the host closed the stream")
	}
	return x
}

type tcase struct {
	rpc, scen, corr string
	run             func() *result
}

func (w *world) catalogue(thorough bool) []tcase {
	var cs []tcase
	add := func(rpc, scen string, c corr, run func() *result) {
		cs = append(cs, tcase{rpc, scen, c.name, run})
	}
	for _, sc := range w.readScenarios() {
		sc := sc
		if thorough {
			sc.full = true
		}
		for _, c := range readCorrs(&sc) {
			c := c
			add("read", sc.name, c, func() *result { return w.runRead(&sc, c) })
		}
	}
	for _, sc := range w.writeScenarios() {
		sc := sc
		for _, c := range writeCorrs(&sc) {
			c := c
			add("write", sc.name, c, func() *result { return w.runWrite(&sc, c) })
		}
	}
	for _, sc := range w.verifyScenarios() {
		sc := sc
		for _, c := range verifyCorrs(&sc) {
			c := c
			add("verify", sc.name, c, func() *result { return w.runVerify(&sc, c) })
		}
	}
	for _, sc := range w.rootsScenarios() {
		sc := sc
		if thorough {
			sc.full = true
		}
		for _, c := range w.rootsCorrs(&sc) {
			c := c
			add("roots", sc.name, c, func() *result { return w.runRoots(&sc, c) })
		}
	}
	for _, sc := range w.appendScenarios() {
		sc := sc
		if thorough {
			sc.full = true
		}
		for _, c := range w.appendCorrs(&sc) {
			c := c
			add("append", sc.name, c, func() *result { return w.runAppend(&sc, c) })
		}
	}
	for _, sc := range w.freeScenarios() {
		sc := sc
		if thorough {
			sc.full = true
		}
		for _, c := range w.freeCorrs(&sc) {
			c := c
			add("free", sc.name, c, func() *result { return w.runFree(&sc, c) })
		}
	}
	for _, sc := range w.fundScenarios() {
		sc := sc
		if thorough {
			sc.full = true
		}
		for _, c := range w.fundCorrs(&sc) {
			c := c
			add("fund", sc.name, c, func() *result { return w.runFund(&sc, c) })
		}
	}
	for _, sc := range w.replenishScenarios() {
		sc := sc
		if thorough {
			sc.full = true
		}
		for _, c := range w.replenishCorrs(&sc) {
			c := c
			rpc := "replenish"
			if sc.pools {
				rpc = "replenish-pools"
			}
			add(rpc, sc.name, c, func() *result { return w.runReplenish(&sc, c) })
		}
	}
	for _, sc := range w.formScenarios() {
		sc := sc
		if thorough {
			sc.full = sc.fgn == "" && sc.funds.Cmp(types.Siacoins(1)) > 0
		}
		for _, c := range w.formCorrs(&sc) {
			c := c
			add(sc.kind, sc.name, c, func() *result { return w.runForm(&sc, c) })
		}
	}
	for _, c := range passCorrs() {
		c := c
		add("latest", "contract-a", c, func() *result { return w.runLatest(c) })
		add("settings", "host", c, func() *result { return w.runSettings(c) })
	}
	return cs
}

func runC10(c *hx.Ctx) {
	res := c.Res
	res.Rule = "every (RPC, scenario, response message, corruption) of the enumerated catalogue is executed once against the real rhp4.RPC* client function over siamux/loopback with a Byzantine host built on the raw stream; non-trivial := the host was contacted and its response differs from the honest one; distinct by (rpc, scenario, corruption)"
	seed := c.Seed
	var only string
	if c.Replay != "" {
		var rp struct {
			Replay struct {
				Case string `json:"case"`
				Seed uint64 `json:"seed"`
			} `json:"replay"`
		}
		b, _ := os.ReadFile(c.Replay)
		json.Unmarshal(b, &rp)
		only, seed = rp.Replay.Case, rp.Replay.Seed
	}
	thoroughTier = c.Thorough
	var cases []string
	okBy := map[string]int{}
	spent := map[string]time.Duration{}
	total := 0
	// the thorough tier plays the whole catalogue in three worlds (other keys, other
	// sector bytes, other leaf indices drawn by RPCVerifySector)
	for wi := 0; wi < c.Scale(1, 3); wi++ {
		w := newWorld(rng.New(seed + uint64(wi)*1000003))
		cat := w.catalogue(c.Thorough)
		total += len(cat)
		record := func(name, rpc, scen, corrName string, r *result, d time.Duration) {
			spent[rpc] += d
			if d > time.Second {
				res.Notes = append(res.Notes, fmt.Sprintf("slow case %s: %v (client ok=%v err=%q) host notes %v", name, d, r.ok, r.errStr, r.x.Notes))
			}
			if r.panicked { // neither Ok nor Err: no outcome of the model matches
				r.coq = strings.Replace(r.coq, " OErr", " OPanic", 1)
			}
			if !r.observe {
				cases = append(cases, "("+r.coq+")")
			}
			res.Eval(name, r.nontrivial)
			res.Count("rpc:" + rpc)
			res.Count("corruption-class:" + corrClass(corrName))
			for _, d := range dims(scen, corrName) {
				res.Count("dim:" + d)
			}
			if strings.Contains(scen, "history/") || strings.Contains(scen, "concurrent/") {
				switch {
				case corrName == "honest" && r.ok:
					res.Count("dim:history+interleaving:honest-step-succeeded")
				case corrName == "honest":
					res.Count("dim:history+interleaving:honest-step-FAILED")
					res.Notes = append(res.Notes, "honest step failed: "+name+": "+r.errStr)
				case r.ok:
					res.Count("dim:history+interleaving:corrupted-step-accepted-binding-holds")
				default:
					res.Count("dim:history+interleaving:corrupted-step-refused")
				}
			}
			if r.ok {
				res.Count("outcome:ok")
				okBy[rpc]++
				if !strings.HasSuffix(corrName, "honest") {
					res.Count("outcome:ok-on-corrupted-response-binding-holds")
					if os.Getenv("C10_LIST_OK") != "" {
						res.Notes = append(res.Notes, "ok: "+name)
					}
				}
			} else {
				res.Count("outcome:err")
			}
			if _, ok := r.extra["observation2"]; ok {
				res.Count("observe:renewal-set-with-foreign-renewal-returned")
			}
			if _, ok := r.extra["observation"]; ok {
				res.Count("observe:latest-revision-with-invalid-host-signature-returned")
			}
			if _, ok := r.extra["observed-panic"]; ok {
				res.Count("observe:renter-panics-on-overflowing-price-table")
			}
			for _, f := range r.fails {
				res.Fail(f.kind, name+": "+f.detail, map[string]any{
					"case": name, "seed": seed, "rpc": rpc, "scenario": scen, "corruption": corrName,
					"client_error": r.errStr, "client_ok": r.ok, "exchange": r.x, "extra": r.extra, "coq_case": r.coq,
				})
			}
			if len(res.Samples) < 5 && r.nontrivial && (len(cases)%97 == 1) {
				res.Sample(map[string]any{"case": name, "client_ok": r.ok, "client_error": r.errStr, "coq_case": r.coq})
			}
		}
		prefix := ""
		if wi > 0 {
			prefix = fmt.Sprintf("world%d:", wi)
		}
		for _, tc := range cat {
			name := prefix + tc.rpc + "/" + tc.scen + "/" + tc.corr
			if only != "" && name != only {
				continue
			}
			t0 := time.Now()
			r := tc.run()
			record(name, tc.rpc, tc.scen, tc.corr, r, time.Since(t0))
		}
		// history: many calls on one long-lived transport, objects reused, revisions threaded,
		// the host replaying its previous answers (a replay re-runs the whole session)
		if only == "" || strings.Contains(only, "/history/") {
			w.sess = w.openSession(w.hk)
			hc := w.historyCases()
			total += len(hc)
			for _, tc := range hc {
				t0 := time.Now()
				r := tc.run()
				record(prefix+tc.rpc+"/"+tc.scen+"/"+tc.corr, tc.rpc, tc.scen, tc.corr, r, time.Since(t0))
			}
			w.sess.close()
			w.sess = nil
		}
		// interleaving: two calls in flight on one transport, answered in either order
		if only == "" || strings.Contains(only, "/concurrent/") {
			for _, hf := range []bool{true, false} {
				t0 := time.Now()
				rs := w.concurrentReads(hf)
				total += len(rs)
				for _, r := range rs {
					record(prefix+r.rpc+"/"+r.scen+"/"+r.corr, r.rpc, r.scen, r.corr, r, time.Since(t0)/2)
				}
			}
		}
		w.l.Close()
	}
	for k, v := range spent {
		res.CountN("ms-by-rpc:"+k, int(v.Milliseconds()))
	}
	for k, v := range okBy {
		res.CountN("ok-by-rpc:"+k, v)
	}
	res.Exhaustive = only == ""
	res.Explored = map[string]any{"catalogue_size": total, "executed": len(cases)}
	res.Notes = append(res.Notes,
		"RPCLatestRevision and RPCSettings return what the host sent without any verification (the client has neither the consensus state nor a price-table check there); the property text does not list them, they are modelled as pass-through and counted under corruption-class/observe",
		"proof_ok / sig_ok bits of the Coq cases are computed by the harness with core's verifiers on its own decoding of the bytes the host sent")
	res.WriteCases("Run.Run_C10", cases)
}

func corrClass(name string) string {
	switch {
	case name == "honest":
		return "honest"
	case strings.HasPrefix(name, "host-answers/"):
		return "illegal-request-answered"
	case strings.Contains(name, "stream-ends-after"):
		return "truncated"
	case strings.Contains(name, "/signature/"):
		return "signature"
	case strings.Contains(name, "truncated"):
		return "truncated"
	case strings.Contains(name, "extended"):
		return "extended"
	case strings.Contains(name, "another"):
		return "swapped-from-another-exchange"
	case strings.Contains(name, "flip"):
		return "flipped"
	case strings.Contains(name, "error"):
		return "error-framing"
	}
	return "lengths-counts-values"
}

// dims names the generator dimensions a case belongs to (evidence counters dim:*).
func dims(scen, corrName string) (d []string) {
	has := func(sub string) bool { return strings.Contains(scen, sub) }
	switch {
	case has("history/"):
		d = append(d, "history:calls-on-one-transport")
		if corrName == "replay-of-previous-exchange" {
			d = append(d, "history:previous-exchange-replayed")
		}
		if has("chain-") {
			d = append(d, "history:revision-threaded-through-calls")
		}
	case has("concurrent/"):
		d = append(d, "interleaving:two-calls-in-flight/"+strings.TrimPrefix(scen, "concurrent/"))
	case has("illegal-answered/"):
		d = append(d, "illegal-request-answered")
	case has("invalid-"):
		d = append(d, "illegal-request-rejected-or-local")
	case has("truncation/"):
		d = append(d, "stream-truncation-point")
	case has("prices-"):
		d = append(d, "price-spread:"+scen[strings.Index(scen, "prices-"):])
	case has("funds-") || has("insufficient-funds") || has("exactly-all-funds"):
		d = append(d, "funds-at-boundary")
	case has("batch-"):
		d = append(d, "batch-limit:"+scen)
	case has("sectors-1"):
		d = append(d, "contract-size-around-full-subtree")
	case has("foreign-peer"):
		d = append(d, "transport-key-differs-from-contract-key")
	}
	if strings.HasPrefix(corrName, "upload-abort/") {
		d = append(d, "abort-inside-renter-upload")
	}
	if strings.Contains(corrName, "truncated") {
		d = append(d, "abort-inside-response-message")
	}
	return
}
