package main

// The world of C10: one renter (the real rhp4.RPC* client functions of
// go.sia.tech/coreutils/rhp/v4) talking over siamux/loopback to a Byzantine host
// that lives entirely in this harness. The host speaks the protocol with the
// message types of go.sia.tech/core/rhp/v4 on the raw stream; there is no
// rhp4.Server anywhere in this binary.

import (
	"bytes"
	"context"
	"crypto/ed25519"
	"encoding/hex"
	"fmt"
	"io"
	"net"
	"sync"
	"sync/atomic"
	"time"

	"go.sia.tech/core/consensus"
	proto4 "go.sia.tech/core/rhp/v4"
	"go.sia.tech/core/types"
	rhp4 "go.sia.tech/coreutils/rhp/v4"
	"go.sia.tech/coreutils/rhp/v4/siamux"
	"go.sia.tech/coreutils/testutil"
	"go.sia.tech/mux"
	"verif/harness/internal/rng"
)

const (
	sectorSize = proto4.SectorSize
	leafSize   = proto4.LeafSize
)

type sector = [sectorSize]byte

type world struct {
	hk, rk, ak, xk types.PrivateKey  // host (the contract's HostPublicKey), renter, account, a stranger
	pk2            types.PrivateKey  // a foreign transport peer: authenticated by siamux, but not the contract's host
	peerPrices     proto4.HostPrices // the price table of that peer, signed with pk2
	hpk            types.PublicKey
	cs             consensus.State
	prices         proto4.HostPrices
	badPrices      proto4.HostPrices // expired
	token          proto4.AccountToken
	secs           []*sector // ground-truth sectors
	secRoots       []types.Hash256
	byRoot         map[types.Hash256]*sector
	l              net.Listener

	ids map[types.Hash256]uint64 // hash -> small id for the Coq cases

	sess *session            // non-nil: exchanges run on this long-lived transport
	last map[string][][]byte // per RPC: what the host sent in the previous exchange of the session
}

func newWorld(r *rng.R) *world {
	key := func() types.PrivateKey {
		seed := make([]byte, 32)
		r.Bytes(seed)
		return types.NewPrivateKeyFromSeed(seed)
	}
	w := &world{hk: key(), rk: key(), ak: key(), xk: key(), pk2: key(), byRoot: map[types.Hash256]*sector{}, ids: map[types.Hash256]uint64{}, last: map[string][][]byte{}}
	w.hpk = w.hk.PublicKey()
	n, genesis := testutil.V2Network()
	_ = genesis
	w.cs = n.GenesisState()
	w.cs.Index.Height = 50 // past every hardfork height of the test network

	sc := types.Siacoins(1)
	_ = sc
	w.prices = proto4.HostPrices{
		ContractPrice:   types.Siacoins(1).Div64(5),
		Collateral:      types.NewCurrency64(200),
		StoragePrice:    types.NewCurrency64(100),
		IngressPrice:    types.NewCurrency64(1000),
		EgressPrice:     types.NewCurrency64(2000),
		FreeSectorPrice: types.NewCurrency64(1_000_000_000_000),
		TipHeight:       100,
		ValidUntil:      time.Now().Add(time.Hour),
	}
	w.prices.Signature = w.hk.SignHash(w.prices.SigHash())
	w.peerPrices = w.prices
	w.peerPrices.Signature = w.pk2.SignHash(w.peerPrices.SigHash())
	w.badPrices = w.prices
	w.badPrices.ValidUntil = time.Now().Add(-time.Hour)
	w.badPrices.Signature = w.hk.SignHash(w.badPrices.SigHash())
	w.token = proto4.AccountToken{HostKey: w.hpk, Account: proto4.Account(w.ak.PublicKey()), ValidUntil: time.Now().Add(time.Hour)}
	w.token.Signature = w.ak.SignHash(w.token.SigHash())

	for i := 0; i < 2; i++ {
		s := new(sector)
		r.Bytes(s[:])
		w.secs = append(w.secs, s)
		root := proto4.SectorRoot(s)
		w.secRoots = append(w.secRoots, root)
		w.byRoot[root] = s
	}
	// a sector whose leaves 0 and 1 are equal to leaves 2 and 3: repeated content must not confuse indices
	copy(w.secs[1][2*leafSize:4*leafSize], w.secs[1][0:2*leafSize])
	delete(w.byRoot, w.secRoots[1])
	w.secRoots[1] = proto4.SectorRoot(w.secs[1])
	w.byRoot[w.secRoots[1]] = w.secs[1]
	// secs[2]: 1024 bytes of data, the rest zeros (what a short RPCWriteSector stores);
	// secs[3]: all zeros. A stream that ends early must not pass for their zero tails.
	z := new(sector)
	copy(z[:1024], w.secs[0][5000:])
	for _, s := range []*sector{z, new(sector)} {
		w.secs = append(w.secs, s)
		root := proto4.SectorRoot(s)
		w.secRoots = append(w.secRoots, root)
		w.byRoot[root] = s
	}

	l, err := net.Listen("tcp", "127.0.0.1:0")
	if err != nil {
		panic(err)
	}
	w.l = l
	return w
}

func (w *world) id(h types.Hash256) uint64 {
	if v, ok := w.ids[h]; ok {
		return v
	}
	v := uint64(len(w.ids) + 1)
	w.ids[h] = v
	return v
}

// contract builds the renter's view of a contract with n sectors (roots are
// derived from tag) and the ground-truth root list.
func (w *world) contract(tag byte, n int, spare uint64, renterFunds types.Currency) (rhp4.ContractRevision, []types.Hash256) {
	roots := make([]types.Hash256, n)
	for i := range roots {
		roots[i] = types.HashBytes([]byte{'r', tag, byte(i), byte(i >> 8)})
	}
	fc := types.V2FileContract{
		Capacity:         uint64(n)*sectorSize + spare*sectorSize,
		Filesize:         uint64(n) * sectorSize,
		FileMerkleRoot:   proto4.MetaRoot(roots),
		ProofHeight:      1000,
		ExpirationHeight: 1144,
		RenterOutput:     types.SiacoinOutput{Address: types.StandardUnlockHash(w.rk.PublicKey()), Value: renterFunds},
		HostOutput:       types.SiacoinOutput{Address: types.StandardUnlockHash(w.hpk), Value: types.Siacoins(300)},
		MissedHostValue:  types.Siacoins(250),
		TotalCollateral:  types.Siacoins(280),
		RenterPublicKey:  w.rk.PublicKey(),
		HostPublicKey:    w.hpk,
		RevisionNumber:   7 + uint64(tag),
	}
	w.sign(&fc)
	return rhp4.ContractRevision{ID: types.FileContractID(types.HashBytes([]byte{'c', tag})), Revision: fc}, roots
}

func (w *world) sign(fc *types.V2FileContract) {
	h := w.cs.ContractSigHash(*fc)
	fc.RenterSignature = w.rk.SignHash(h)
	fc.HostSignature = w.hk.SignHash(h)
}

// An xchg records one exchange as the host saw it.
type xchg struct {
	mu       sync.Mutex
	ID       string   `json:"rpcID"`
	Request  any      `json:"request,omitempty"`
	Sent     [][]byte `json:"-"` // every write of the host, in order
	SentHex  []string `json:"sent"`
	Notes    []string `json:"notes,omitempty"`
	Streams  int      `json:"streams"`
	reqRaw   any      // typed request
	renterSg *types.Signature
}

func (x *xchg) note(f string, a ...any) {
	x.mu.Lock()
	x.Notes = append(x.Notes, fmt.Sprintf(f, a...))
	x.mu.Unlock()
}

// send writes b to the stream and records it.
func (x *xchg) send(s net.Conn, b []byte) {
	x.mu.Lock()
	x.Sent = append(x.Sent, append([]byte(nil), b...))
	x.mu.Unlock()
	if len(b) > 0 {
		s.Write(b)
	}
}

func (x *xchg) all() []byte {
	x.mu.Lock()
	defer x.mu.Unlock()
	return bytes.Join(x.Sent, nil)
}

func (x *xchg) finish() {
	x.SentHex = nil
	for _, b := range x.Sent {
		if len(b) > 600 {
			x.SentHex = append(x.SentHex, fmt.Sprintf("%s...(%d bytes, blake2b %v)", hex.EncodeToString(b[:300]), len(b), types.HashBytes(b)))
		} else {
			x.SentHex = append(x.SentHex, hex.EncodeToString(b))
		}
	}
}

// encode renders a response object exactly as proto4.WriteResponse would.
func encode(o proto4.Object) []byte {
	var buf bytes.Buffer
	if err := proto4.WriteResponse(&buf, o); err != nil {
		panic(err)
	}
	return buf.Bytes()
}

// exchange runs call against a host that serves every stream of one fresh
// siamux connection with handler. It reports a panic or a hang of the renter.
func (w *world) exchange(peer types.PrivateKey, handler func(s net.Conn, x *xchg), call func(ctx context.Context, t rhp4.TransportClient)) (x *xchg, panicked any, hung bool) {
	if w.sess != nil {
		return w.sess.exchange(handler, call)
	}
	x = &xchg{}
	var wg sync.WaitGroup
	wg.Add(1)
	go func() {
		defer wg.Done()
		conn, err := w.l.Accept()
		if err != nil {
			return
		}
		defer conn.Close()
		m, err := mux.Accept(conn, ed25519.PrivateKey(peer))
		if err != nil {
			return
		}
		defer m.Close()
		for {
			s, err := m.AcceptStream()
			if err != nil {
				return
			}
			x.mu.Lock()
			x.Streams++
			x.mu.Unlock()
			s.SetDeadline(time.Now().Add(8 * time.Second))
			func() {
				defer func() {
					if r := recover(); r != nil {
						x.note("host handler panic: %v", r)
					}
				}()
				handler(s, x)
			}()
			s.Close()
		}
	}()
	ctx, cancel := context.WithTimeout(context.Background(), 10*time.Second)
	defer cancel()
	t, err := siamux.Dial(ctx, w.l.Addr().String(), peer.PublicKey())
	if err != nil {
		panic(fmt.Sprintf("dial: %v", err))
	}
	done := make(chan struct{})
	go func() {
		defer close(done)
		defer func() {
			if r := recover(); r != nil {
				panicked = r
			}
		}()
		call(ctx, t)
	}()
	select {
	case <-done:
	case <-time.After(12 * time.Second):
		hung = true
	}
	t.Close()
	wg.Wait()
	x.finish()
	return
}

// readReq reads the RPC id and the request object.
func readReq(s net.Conn, x *xchg, want types.Specifier, req proto4.Object) bool {
	id, err := proto4.ReadID(s)
	if err != nil {
		x.note("read id: %v", err)
		return false
	}
	x.ID = id.String()
	if id != want {
		x.note("unexpected rpc id %v", id)
		return false
	}
	if req != nil {
		if err := proto4.ReadRequest(s, req); err != nil {
			x.note("read request: %v", err)
			return false
		}
	}
	x.Request = req
	return true
}

// readRenterSig reads the renter's second message (a bare signature response).
func readRenterSig(s net.Conn, x *xchg, o proto4.Object) bool {
	// the renter answers within microseconds on loopback or not at all
	s.SetReadDeadline(time.Now().Add(400 * time.Millisecond))
	if err := proto4.ReadResponse(s, o); err != nil {
		x.note("renter did not send its signature: %v", err)
		return false
	}
	return true
}

// honest helpers -----------------------------------------------------------

var (
	subtreeMu    sync.Mutex
	subtreeCache = map[*sector][]types.Hash256{}
)

func honestRead(sec *sector, offset, length uint64) (data []byte, proof []types.Hash256) {
	start, end := offset/leafSize, (offset+length+leafSize-1)/leafSize
	ss, se := proto4.SectorSubtreeRange(start, end)
	subtreeMu.Lock()
	cache, ok := subtreeCache[sec]
	if !ok {
		cache = proto4.CachedSectorSubtrees(sec)
		subtreeCache[sec] = cache
	}
	subtreeMu.Unlock()
	proof = proto4.BuildSectorProof(sec[ss*leafSize:se*leafSize], start, end, cache)
	return append([]byte(nil), sec[offset:offset+length]...), proof
}

func flipHash(h types.Hash256, bit int) types.Hash256 {
	h[(bit/8)%32] ^= 1 << (bit % 8)
	return h
}

func flipSig(s types.Signature, bit int) types.Signature {
	s[(bit/8)%64] ^= 1 << (bit % 8)
	return s
}

func cloneHashes(h []types.Hash256) []types.Hash256 { return append([]types.Hash256(nil), h...) }

// swapRemove is the reference semantics of RPCFreeSectors on a root list: for
// strictly descending in-range indices, move the last element into the freed
// slot and shrink.
func swapRemove(roots []types.Hash256, idxDesc []uint64) []types.Hash256 {
	out := cloneHashes(roots)
	for _, i := range idxDesc {
		out[i] = out[len(out)-1]
		out = out[:len(out)-1]
	}
	return out
}

// A foreign describes who sits on the other end of the transport in a scenario
// and what it signs with. "" is the normal case: the transport peer is the
// contract's host. Otherwise the transport peer is pk2 (PeerKey() differs from
// contract.Revision.HostPublicKey) and
//
//	a: the price table is signed by the peer, the revision is signed by the peer
//	b: the price table is the genuine host's (relayed), the revision is signed by the peer
//	c: the price table is signed by the peer, the revision carries a genuine host signature
//	d: genuine price table and genuine host signature through the foreign peer (a relay)
type foreign string

var foreignNames = map[foreign]string{
	"a": "foreign-peer/peer-prices+peer-signature",
	"b": "foreign-peer/host-prices+peer-signature",
	"c": "foreign-peer/peer-prices+host-signature",
	"d": "foreign-peer/host-prices+host-signature",
}

func (w *world) fPeer(f foreign) types.PrivateKey {
	if f == "" {
		return w.hk
	}
	return w.pk2
}

func (w *world) fPrices(f foreign) proto4.HostPrices {
	if f == "a" || f == "c" {
		return w.peerPrices
	}
	return w.prices
}

// fSigner is the key the host side signs revisions with.
func (w *world) fSigner(f foreign) types.PrivateKey {
	if f == "a" || f == "b" {
		return w.pk2
	}
	return w.hk
}

// pricesByContractHost reports whether the price table verifies under the
// contract's host key (what RPCSectorRoots must check).
func (w *world) pricesByContractHost(p proto4.HostPrices) bool {
	return p.Validate(w.hpk) == nil
}

// A session is one long-lived siamux connection to the Byzantine host over which
// many renter calls are made one after the other (history dimension): the host
// serves every stream with the handler of the exchange that is current when the
// stream arrives. A sync stream after each call makes the association exact.
type session struct {
	w    *world
	t    rhp4.TransportClient
	mu   sync.Mutex
	h    func(net.Conn, *xchg)
	x    *xchg
	ack  chan struct{}
	done chan struct{}
}

var syncID = types.NewSpecifier("C10HarnessSync")

type prefixConn struct {
	net.Conn
	r io.Reader
}

func (p *prefixConn) Read(b []byte) (int, error) { return p.r.Read(b) }

func (w *world) openSession(peer types.PrivateKey) *session {
	s := &session{w: w, ack: make(chan struct{}, 1), done: make(chan struct{})}
	go func() {
		defer close(s.done)
		conn, err := w.l.Accept()
		if err != nil {
			return
		}
		defer conn.Close()
		m, err := mux.Accept(conn, ed25519.PrivateKey(peer))
		if err != nil {
			return
		}
		defer m.Close()
		for {
			st, err := m.AcceptStream()
			if err != nil {
				return
			}
			st.SetDeadline(time.Now().Add(8 * time.Second))
			var id [16]byte
			if _, err := io.ReadFull(st, id[:]); err != nil {
				st.Close()
				continue
			}
			if types.Specifier(id) == syncID {
				st.Write([]byte{1})
				st.Close()
				s.ack <- struct{}{}
				continue
			}
			s.mu.Lock()
			h, x := s.h, s.x
			s.mu.Unlock()
			x.mu.Lock()
			x.Streams++
			x.mu.Unlock()
			func() {
				defer func() {
					if r := recover(); r != nil {
						x.note("host handler panic: %v", r)
					}
				}()
				h(&prefixConn{Conn: st, r: io.MultiReader(bytes.NewReader(id[:]), st)}, x)
			}()
			st.Close()
		}
	}()
	ctx, cancel := context.WithTimeout(context.Background(), 10*time.Second)
	defer cancel()
	t, err := siamux.Dial(ctx, w.l.Addr().String(), peer.PublicKey())
	if err != nil {
		panic(fmt.Sprintf("dial: %v", err))
	}
	s.t = t
	return s
}

func (s *session) exchange(handler func(net.Conn, *xchg), call func(ctx context.Context, t rhp4.TransportClient)) (x *xchg, panicked any, hung bool) {
	x = &xchg{}
	s.mu.Lock()
	s.h, s.x = handler, x
	s.mu.Unlock()
	ctx, cancel := context.WithTimeout(context.Background(), 10*time.Second)
	defer cancel()
	done := make(chan struct{})
	go func() {
		defer close(done)
		defer func() {
			if r := recover(); r != nil {
				panicked = r
			}
		}()
		call(ctx, s.t)
	}()
	select {
	case <-done:
	case <-time.After(12 * time.Second):
		hung = true
	}
	// every stream of this call is served before the sync stream is
	st, err := s.t.DialStream(ctx)
	if err == nil {
		st.SetDeadline(time.Now().Add(5 * time.Second))
		st.Write(syncID[:])
		var b [1]byte
		io.ReadFull(st, b[:])
		st.Close()
		select {
		case <-s.ack:
		case <-time.After(5 * time.Second):
		}
	}
	x.finish()
	return
}

func (s *session) close() {
	s.t.Close()
	<-s.done
}

// A rawSession is a long-lived transport whose streams are all served concurrently by one
// handler (interleaving dimension: the handler decides the order of the answers).
type rawSession struct {
	t    rhp4.TransportClient
	done chan struct{}
}

var orderDone atomic.Bool

func (w *world) openRawSession(handler func(net.Conn)) *rawSession {
	s := &rawSession{done: make(chan struct{})}
	go func() {
		defer close(s.done)
		conn, err := w.l.Accept()
		if err != nil {
			return
		}
		defer conn.Close()
		m, err := mux.Accept(conn, ed25519.PrivateKey(w.hk))
		if err != nil {
			return
		}
		defer m.Close()
		var wg sync.WaitGroup
		for {
			st, err := m.AcceptStream()
			if err != nil {
				break
			}
			st.SetDeadline(time.Now().Add(8 * time.Second))
			wg.Add(1)
			go func() {
				defer wg.Done()
				defer st.Close()
				defer func() { recover() }()
				handler(st)
			}()
		}
		wg.Wait()
	}()
	ctx, cancel := context.WithTimeout(context.Background(), 10*time.Second)
	defer cancel()
	t, err := siamux.Dial(ctx, w.l.Addr().String(), w.hpk)
	if err != nil {
		panic(fmt.Sprintf("dial: %v", err))
	}
	s.t = t
	return s
}

func (s *rawSession) close() {
	s.t.Close()
	<-s.done
}

// pricesWith returns a price table with every price set to v, signed by the host.
func (w *world) pricesWith(v types.Currency) proto4.HostPrices {
	p := w.prices
	p.ContractPrice, p.Collateral, p.StoragePrice, p.IngressPrice, p.EgressPrice, p.FreeSectorPrice = v, v, v, v, v, v
	p.Signature = w.hk.SignHash(p.SigHash())
	return p
}

var priceSpread = []struct {
	name string
	v    types.Currency
}{
	{"prices-zero", types.ZeroCurrency},
	{"prices-one-hasting", types.NewCurrency64(1)},
	{"prices-large", types.NewCurrency64(1_000_000_000_000_000)},
}
