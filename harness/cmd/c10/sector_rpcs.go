package main

// RPCReadSector, RPCWriteSector, RPCVerifySector against the Byzantine host.

import (
	"bytes"
	"context"
	"fmt"
	"io"
	"math/big"
	"net"

	proto4 "go.sia.tech/core/rhp/v4"
	"go.sia.tech/core/types"
	rhp4 "go.sia.tech/coreutils/rhp/v4"
)

// ---------------------------------------------------------------- read ----

type readScen struct {
	name           string
	root           types.Hash256
	truth          *sector // nil: the harness knows no sector with this root
	standIn        *sector // what the lying host serves
	other          *sector // "another exchange"
	offset, length uint64
	prices         proto4.HostPrices
	auth           bool  // prices and token are valid
	full           bool  // run the whole catalogue (else the short list)
	sweep          []int // stream truncation points (bytes kept) swept in addition
	answers        bool  // illegal request: the host answers it as if it were fine
	observe        bool  // outcome recorded, not judged, not sent to the model
}

type readSt struct {
	sc   *readScen
	req  *proto4.RPCReadSectorRequest
	resp *proto4.RPCReadSectorResponse
	data *[]byte
}

func (w *world) readScenarios() []readScen {
	a, b := w.secs[0], w.secs[1]
	ra, rb := w.secRoots[0], w.secRoots[1]
	unknown := types.HashBytes([]byte("no such sector"))
	mk := func(name string, root types.Hash256, truth, stand, other *sector, off, l uint64, full bool) readScen {
		return readScen{name: name, root: root, truth: truth, standIn: stand, other: other, offset: off, length: l, prices: w.prices, auth: true, full: full}
	}
	s := []readScen{
		mk("first-leaf", ra, a, a, b, 0, 64, true),
		mk("three-leaves-at-5", ra, a, a, b, 5*64, 3*64, true),
		mk("one-4k-subtree", ra, a, a, b, 4096, 4096, false),
		mk("last-leaf", ra, a, a, b, sectorSize-64, 64, false),
		mk("whole-sector", ra, a, a, b, 0, sectorSize, false),
		mk("repeated-leaves", rb, b, b, a, 0, 128, true),
		mk("unknown-root", unknown, nil, a, b, 128, 128, false),
		mk("unaligned-offset-32+32", ra, a, a, b, 32, 32, true),
		mk("unaligned-offset-100+92", ra, a, a, b, 100, 92, false),
		mk("invalid-zero-length", ra, a, a, b, 64, 0, false),
		mk("invalid-beyond-sector", ra, a, a, b, sectorSize-64, 128, false),
		mk("invalid-unaligned-end", ra, a, a, b, 0, 100, false),
	}
	exp := mk("expired-prices", ra, a, a, b, 0, 64, false)
	exp.prices, exp.auth = w.badPrices, false
	s = append(s, exp)

	// stream-level faults: the data that follows the response ends early, at every
	// byte of a short read and at chosen points of a whole-sector read; sectors with
	// a zero tail and the all-zero sector, where a hashed-as-zero remainder would verify
	z, zero := w.secs[2], w.secs[3]
	rz, r0 := w.secRoots[2], w.secRoots[3]
	every := func(n int) (p []int) {
		for i := 0; i < n; i++ {
			p = append(p, i)
		}
		return
	}
	// every leaf boundary and the bytes around it, plus every 7th byte
	pick3 := func(n int) (p []int) {
		for i := 0; i < n; i++ {
			if i%64 <= 1 || i%64 == 63 || i%7 == 0 || thoroughTier {
				p = append(p, i)
			}
		}
		return
	}
	whole := []int{0, 1, 64, 1000, 1024, 1088, 4096, sectorSize / 2, sectorSize/2 + 1, sectorSize - 4096, sectorSize - 64, sectorSize - 63, sectorSize - 1}
	sw := func(name string, root types.Hash256, sec *sector, off, l uint64, pts []int) {
		sc := mk(name, root, sec, sec, a, off, l, false)
		sc.sweep = pts
		s = append(s, sc)
	}
	sw("truncation/data-128-bytes", ra, a, 640, 128, every(128))
	sw("truncation/zero-tail-sector-data-then-zeros-192-bytes", rz, z, 896, 192, pick3(192))
	sw("truncation/zero-tail-sector-zero-region-128-bytes", rz, z, 8192, 128, every(128))
	sw("truncation/all-zero-sector-128-bytes", r0, zero, 0, 128, pick3(128))
	sw("truncation/whole-sector", ra, a, 0, sectorSize, whole)
	sw("truncation/whole-zero-tail-sector", rz, z, 0, sectorSize, whole)
	sw("truncation/whole-all-zero-sector", r0, zero, 0, sectorSize, whole)
	sw("truncation/second-half-of-zero-tail-sector", rz, z, sectorSize/2, sectorSize/2, []int{0, 64, 100, 4096, sectorSize/2 - 64, sectorSize/2 - 1})

	for _, ps := range priceSpread {
		sc := mk(ps.name, ra, a, a, b, 4096, 4096, false)
		sc.prices = w.pricesWith(ps.v)
		s = append(s, sc)
	}
	// a validly signed price table whose cost does not fit a Currency: core's arithmetic
	// panics; recorded as an observation (the caller chose to use this table), not judged
	ov := mk("prices-overflowing-observed-only", ra, a, a, b, 0, 64, false)
	ov.prices, ov.observe = w.pricesWith(types.MaxCurrency), true
	s = append(s, ov)

	// illegal arguments against a host that answers as if the request were fine
	for _, q := range []struct {
		n      string
		off, l uint64
	}{{"zero-length", 64, 0}, {"zero-length-at-0", 0, 0}, {"beyond-sector", sectorSize - 64, 128}, {"offset-beyond-sector", sectorSize + 64, 64},
		{"unaligned-end", 0, 100}, {"length-two-sectors", 0, 2 * sectorSize}, {"huge-offset", 1 << 62, 64}} {
		sc := mk("illegal-answered/"+q.n, ra, a, a, b, q.off, q.l, false)
		sc.answers = true
		s = append(s, sc)
	}
	return s
}

func readCorrs(sc *readScen) []corr {
	if sc.observe {
		return []corr{honestCorr}
	}
	valid := sc.auth && sc.length > 0 && sc.offset <= sectorSize && sc.length <= sectorSize-sc.offset && (sc.offset+sc.length)%leafSize == 0
	if !valid {
		if sc.answers {
			return []corr{
				{name: "host-answers/clamped-range-with-valid-proof", msg: 9, typed: func(any) {}},
				{name: "host-answers/no-data-empty-proof", msg: 9, typed: func(any) {}},
				{name: "host-answers/first-leaf-with-valid-proof", msg: 9, typed: func(any) {}},
			}
		}
		return []corr{honestCorr}
	}
	if sc.sweep != nil {
		cs := []corr{honestCorr}
		for _, n := range sc.sweep {
			n := n
			cs = append(cs, corr{name: fmt.Sprintf("msg1/stream-ends-after-%d-bytes", n), msg: 1, typed: func(st any) {
				s := st.(*readSt)
				*s.data = (*s.data)[:n]
			}})
		}
		return cs
	}
	aligned := sc.offset%leafSize == 0
	start, end := sc.offset/leafSize, (sc.offset+sc.length+leafSize-1)/leafSize
	cs := []corr{honestCorr}
	add := func(name string, f func(st *readSt)) {
		cs = append(cs, corr{name: "msg1/" + name, msg: 1, typed: func(st any) { f(st.(*readSt)) }})
	}
	// DataLength
	for _, d := range []struct {
		n string
		f func(uint64) uint64
	}{
		{"datalength-plus-leaf", func(v uint64) uint64 { return v + 64 }},
		{"datalength-minus-leaf", func(v uint64) uint64 { return v - 64 }},
		{"datalength-plus-1", func(v uint64) uint64 { return v + 1 }},
		{"datalength-minus-1", func(v uint64) uint64 { return v - 1 }},
		{"datalength-zero", func(v uint64) uint64 { return 0 }},
		{"datalength-sector", func(v uint64) uint64 { return sectorSize }},
		{"datalength-huge", func(v uint64) uint64 { return 1 << 62 }},
		{"datalength-max", func(v uint64) uint64 { return ^uint64(0) }},
	} {
		d := d
		add(d.n, func(st *readSt) { st.resp.DataLength = d.f(st.resp.DataLength) })
	}
	// the streamed bytes
	add("data-flip-first-bit", func(st *readSt) { (*st.data)[0] ^= 1 })
	add("data-flip-last-bit", func(st *readSt) { (*st.data)[len(*st.data)-1] ^= 0x80 })
	add("data-flip-middle-bit", func(st *readSt) { (*st.data)[len(*st.data)/2] ^= 0x08 })
	add("data-all-zero", func(st *readSt) { clear(*st.data) })
	add("data-of-another-sector", func(st *readSt) {
		*st.data = append([]byte(nil), st.sc.other[st.req.Offset:st.req.Offset+st.req.Length]...)
	})
	add("data-and-proof-of-another-sector", func(st *readSt) {
		*st.data, st.resp.Proof = honestRead(st.sc.other, st.req.Offset, st.req.Length)
	})
	otherOff := func(st *readSt) uint64 {
		if st.req.Offset+2*st.req.Length <= sectorSize {
			return st.req.Offset + st.req.Length
		}
		return st.req.Offset - st.req.Length
	}
	if sc.length < sectorSize {
		add("data-of-another-range", func(st *readSt) {
			o := otherOff(st)
			*st.data = append([]byte(nil), st.sc.standIn[o:o+st.req.Length]...)
		})
		add("data-and-proof-of-another-range", func(st *readSt) {
			*st.data, st.resp.Proof = honestRead(st.sc.standIn, otherOff(st), st.req.Length)
		})
		add("proof-of-another-range", func(st *readSt) {
			_, st.resp.Proof = honestRead(st.sc.standIn, otherOff(st), st.req.Length)
		})
	}
	add("stream-ends-one-leaf-early", func(st *readSt) { *st.data = (*st.data)[:len(*st.data)-min(64, len(*st.data))] })
	add("stream-ends-one-byte-early", func(st *readSt) { *st.data = (*st.data)[:len(*st.data)-1] })
	add("stream-empty", func(st *readSt) { *st.data = nil })
	add("stream-has-trailing-bytes", func(st *readSt) { *st.data = append(*st.data, bytes.Repeat([]byte{0xCD}, 64)...) })
	if sc.length > 64 {
		add("one-leaf-less-consistently", func(st *readSt) {
			*st.data = (*st.data)[:len(*st.data)-64]
			st.resp.DataLength = uint64(len(*st.data))
		})
		add("prefix-with-its-own-valid-proof", func(st *readSt) {
			*st.data, st.resp.Proof = honestRead(st.sc.standIn, st.req.Offset, st.req.Length-64)
			st.resp.DataLength = uint64(len(*st.data))
		})
	}
	if end < proto4.LeavesPerSector {
		add("one-leaf-more-consistently", func(st *readSt) {
			*st.data = append([]byte(nil), st.sc.standIn[st.req.Offset:st.req.Offset+st.req.Length+64]...)
			st.resp.DataLength = uint64(len(*st.data))
		})
		add("superset-with-its-own-valid-proof", func(st *readSt) {
			*st.data, st.resp.Proof = honestRead(st.sc.standIn, start*leafSize, (end-start+1)*leafSize)
			st.resp.DataLength = uint64(len(*st.data))
		})
	}
	if !aligned {
		// the covering whole leaves with their valid proof
		add("covering-leaves-with-valid-proof", func(st *readSt) {
			*st.data, st.resp.Proof = honestRead(st.sc.standIn, start*leafSize, (end-start)*leafSize)
			st.resp.DataLength = uint64(len(*st.data))
		})
		add("covering-leaves-datalength-as-requested", func(st *readSt) {
			*st.data, st.resp.Proof = honestRead(st.sc.standIn, start*leafSize, (end-start)*leafSize)
		})
	}
	if !sc.full {
		// short list: one representative proof corruption
		add("proof/flip-element-0", func(st *readSt) {
			if len(st.resp.Proof) > 0 {
				st.resp.Proof[0] = flipHash(st.resp.Proof[0], 3)
			}
		})
		add("proof/empty", func(st *readSt) { st.resp.Proof = nil })
		return append(cs, rawCorrs(1)[:7]...)
	}
	nproof := int(proto4.LeavesPerSector) // upper bound replaced below
	_, p := honestRead(sc.standIn, start*leafSize, (end-start)*leafSize)
	nproof = len(p)
	cs = append(cs, hashListCorrs(1, "proof", nproof,
		func(st any) *[]types.Hash256 { return &st.(*readSt).resp.Proof },
		func(st any) []types.Hash256 {
			s := st.(*readSt)
			_, p := honestRead(s.sc.other, start*leafSize, (end-start)*leafSize)
			return p
		})...)
	return append(cs, rawCorrs(1)...)
}

func (w *world) runRead(sc *readScen, c corr) *result {
	r := &result{rpc: "read", scen: sc.name, corr: c.name, observe: sc.observe}
	var out bytes.Buffer
	var res rhp4.RPCReadSectorResult
	var err error
	handler := func(s net.Conn, x *xchg) {
		var req proto4.RPCReadSectorRequest
		if !readReq(s, x, proto4.RPCReadSectorID, &req) {
			return
		}
		var data []byte
		var proof []types.Hash256
		if sc.answers {
			// a host that does not reject the illegal request: it serves what can be served
			off, l := min(req.Offset, sectorSize-leafSize)/leafSize*leafSize, req.Length
			switch c.name {
			case "host-answers/no-data-empty-proof":
				l = 0
			case "host-answers/first-leaf-with-valid-proof":
				off, l = 0, leafSize
			default:
				l = max(min(l, sectorSize-off)/leafSize*leafSize, leafSize)
			}
			if l > 0 {
				data, proof = honestRead(sc.standIn, off, l)
			}
			resp := proto4.RPCReadSectorResponse{Proof: proof, DataLength: req.Length}
			x.send(s, encode(&resp))
			x.send(s, data)
			return
		}
		data, proof = honestRead(sc.standIn, req.Offset, req.Length)
		resp := proto4.RPCReadSectorResponse{Proof: proof, DataLength: uint64(len(data))}
		c.applyTyped(1, &readSt{sc: sc, req: &req, resp: &resp, data: &data})
		b, cut := c.bytesOf(1, &resp)
		x.send(s, b)
		if cut {
			return
		}
		x.send(s, data)
	}
	x := w.do(r, handler, func(ctx context.Context, t rhp4.TransportClient) {
		res, err = rhp4.RPCReadSector(ctx, t, sc.prices, w.token, &out, sc.root, sc.offset, sc.length)
	})
	r.setErr(err)

	// the response as the client sees it, decoded by the harness
	all := x.all()
	rd := bytes.NewReader(all)
	var resp proto4.RPCReadSectorResponse
	dec := x.Streams > 0 && proto4.ReadResponse(rd, &resp) == nil
	rest := all[len(all)-rd.Len():]
	proofOK := false
	inRange := sc.offset <= sectorSize && sc.length <= sectorSize-sc.offset && sc.length > 0
	if dec && inRange {
		start, end := sc.offset/leafSize, (sc.offset+sc.length+leafSize-1)/leafSize
		n := min(resp.DataLength, uint64(len(rest)), (end-start)*leafSize)
		rpv := proto4.NewRangeProofVerifier(start, end)
		if _, e := rpv.ReadFrom(bytes.NewReader(rest[:n])); e == nil {
			proofOK = rpv.Verify(resp.Proof, sc.root)
		}
	}
	obs := "OErr"
	if r.ok {
		obs = fmt.Sprintf("(OOk [%d; %s])", out.Len(), res.Usage.Egress.Big())
		// ground truth
		switch {
		case sc.truth == nil:
			r.fail("read-succeeds-for-unknown-root", "RPCReadSector returned success for a root of which no sector is known; %d bytes were written", out.Len())
		case !inRange || !bytes.Equal(out.Bytes(), sc.truth[sc.offset:sc.offset+sc.length]):
			r.fail("read-delivers-other-bytes", "RPCReadSector(offset=%d,length=%d) returned success but wrote %d bytes to the caller's writer that are not bytes [%d,%d) of the sector with the requested root (DataLength=%d)", sc.offset, sc.length, out.Len(), sc.offset, sc.offset+sc.length, resp.DataLength)
		}
		if want := mulU(bi(sc.prices.EgressPrice), round4k(sc.length)); res.Usage.RenterCost().Big().Cmp(want) != 0 {
			r.fail("read-usage-not-price-table", "usage %v, price table says %v", res.Usage.RenterCost(), want)
		}
	}
	r.coq = fmt.Sprintf("CRead %s %s %d %d %s %d %d %s %s", coqBool(sc.auth), sc.prices.EgressPrice.Big(), sc.offset, sc.length,
		coqBool(dec), resp.DataLength, len(rest), coqBool(proofOK), obs)
	r.nontrivial = x.Streams > 0 && !c.honest()
	return r
}

// --------------------------------------------------------------- write ----

var thoroughTier bool

type writeScen struct {
	name   string
	data   []byte
	length uint64
	prices proto4.HostPrices
	auth   bool
}

type writeSt struct {
	w    *world
	sc   *writeScen
	resp *proto4.RPCWriteSectorResponse
	got  []byte
}

func padRoot(data []byte) types.Hash256 {
	var s sector
	copy(s[:], data)
	return proto4.SectorRoot(&s)
}

func (w *world) writeScenarios() []writeScen {
	a := w.secs[0]
	mk := func(name string, n uint64) writeScen {
		d := make([]byte, max(n, 256))
		copy(d, a[1000:])
		if n <= sectorSize {
			d = d[:n]
		} else {
			d = append(d[:0:0], bytes.Repeat(a[:], 2)[:n]...)
		}
		return writeScen{name: name, data: d, length: n, prices: w.prices, auth: true}
	}
	s := []writeScen{}
	for _, ps := range priceSpread {
		sc := mk(ps.name, 4096)
		sc.prices = w.pricesWith(ps.v)
		s = append(s, sc)
	}
	s = append(s,
		mk("one-leaf", 64), mk("three-leaves", 192), mk("4k", 4096), mk("half-sector-plus-leaf", sectorSize/2+64), mk("whole-sector", sectorSize),
		mk("invalid-zero", 0), mk("invalid-too-long", sectorSize+64), mk("invalid-unaligned", 100),
	)
	e := mk("expired-prices", 64)
	e.prices, e.auth = w.badPrices, false
	return append(s, e)
}

func writeCorrs(sc *writeScen) []corr {
	if !sc.auth || sc.length == 0 || sc.length > sectorSize || sc.length%leafSize != 0 {
		return []corr{honestCorr}
	}
	cs := []corr{honestCorr}
	add := func(name string, f func(st *writeSt)) {
		cs = append(cs, corr{name: "msg1/" + name, msg: 1, typed: func(st any) { f(st.(*writeSt)) }})
	}
	for _, bit := range []int{0, 7, 100, 255} {
		bit := bit
		add(fmt.Sprintf("root-flip-bit-%d", bit), func(st *writeSt) { st.resp.Root = flipHash(st.resp.Root, bit) })
	}
	add("root-zero", func(st *writeSt) { st.resp.Root = types.Hash256{} })
	add("root-of-unpadded-data", func(st *writeSt) {
		st.resp.Root, _ = proto4.ReaderRoot(bytes.NewReader(st.got))
	})
	add("root-of-another-sector", func(st *writeSt) { st.resp.Root = st.w.secRoots[1] })
	add("root-of-data-with-one-bit-changed", func(st *writeSt) {
		d := append([]byte(nil), st.got...)
		d[len(d)-1] ^= 1
		st.resp.Root = padRoot(d)
	})
	add("root-of-data-shifted-by-a-leaf", func(st *writeSt) {
		d := append(make([]byte, 64), st.got...)
		if len(d) > sectorSize {
			d = d[:sectorSize]
		}
		st.resp.Root = padRoot(d)
	})
	add("root-of-data-padded-with-ones", func(st *writeSt) {
		var s sector
		for i := range s {
			s[i] = 0xFF
		}
		copy(s[:], st.got)
		st.resp.Root = proto4.SectorRoot(&s)
	})
	add("root-of-first-leaf-only", func(st *writeSt) { st.resp.Root = padRoot(st.got[:64]) })
	for _, n := range []uint64{0, 64, sc.length / 2} {
		if n < sc.length {
			cs = append(cs, corr{name: fmt.Sprintf("upload-abort/host-closes-after-reading-%d-bytes", n), msg: 8, typed: func(any) {}})
		}
	}
	cs = append(cs, corr{name: "msg1/answers-before-reading-data-right-root", msg: 0})
	cs = append(cs, corr{name: "msg1/answers-before-reading-data-wrong-root", msg: 0})
	if sc.length > 1<<20 && !thoroughTier {
		return append(cs, rawCorrs(1)[:5]...) // 4 MiB per exchange: the framing corruptions are covered by the small writes
	}
	return append(cs, rawCorrs(1)...)
}

func (w *world) runWrite(sc *writeScen, c corr) *result {
	r := &result{rpc: "write", scen: sc.name, corr: c.name}
	var res rhp4.RPCWriteSectorResult
	var err error
	want := types.Hash256{}
	if sc.length <= sectorSize {
		want = padRoot(sc.data[:min(uint64(len(sc.data)), sc.length)])
	}
	early := c.msg == 0 && c.name != "honest"
	handler := func(s net.Conn, x *xchg) {
		var req proto4.RPCWriteSectorRequest
		if !readReq(s, x, proto4.RPCWriteSectorID, &req) {
			return
		}
		if early {
			root := want
			if c.name == "msg1/answers-before-reading-data-wrong-root" {
				root = flipHash(root, 5)
			}
			x.send(s, encode(&proto4.RPCWriteSectorResponse{Root: root}))
			io.Copy(io.Discard, io.LimitReader(s, int64(req.DataLength)))
			return
		}
		if c.msg == 8 {
			var n uint64
			fmt.Sscanf(c.name, "upload-abort/host-closes-after-reading-%d-bytes", &n)
			io.CopyN(io.Discard, s, int64(n))
			return
		}
		got := make([]byte, req.DataLength)
		if _, e := io.ReadFull(s, got); e != nil {
			x.note("host could not read the data: %v", e)
			return
		}
		if !bytes.Equal(got, sc.data) {
			x.note("host received other bytes than the caller supplied")
		}
		resp := proto4.RPCWriteSectorResponse{Root: padRoot(got)}
		c.applyTyped(1, &writeSt{w: w, sc: sc, resp: &resp, got: got})
		b, _ := c.bytesOf(1, &resp)
		x.send(s, b)
	}
	x := w.do(r, handler, func(ctx context.Context, t rhp4.TransportClient) {
		res, err = rhp4.RPCWriteSector(ctx, t, sc.prices, w.token, bytes.NewReader(sc.data), sc.length)
	})
	r.setErr(err)
	var resp proto4.RPCWriteSectorResponse
	dec := x.Streams > 0 && proto4.ReadResponse(bytes.NewReader(x.all()), &resp) == nil
	rootEq := dec && resp.Root == want
	obs := "OErr"
	if r.ok {
		obs = fmt.Sprintf("(OOk [%s; %s])", res.Usage.Storage.Big(), res.Usage.Ingress.Big())
		if res.Root != want {
			r.fail("write-returns-root-of-other-bytes", "RPCWriteSector(length=%d) returned success with root %v, the root of the bytes sent (zero padded) is %v", sc.length, res.Root, want)
		}
		wantCost := new(big.Int).Add(mulU(bi(sc.prices.StoragePrice), sectorSize, proto4.TempSectorDuration), mulU(bi(sc.prices.IngressPrice), round4k(sc.length)))
		if res.Usage.RenterCost().Big().Cmp(wantCost) != 0 {
			r.fail("write-usage-not-price-table", "usage %v, price table says %v", res.Usage.RenterCost(), wantCost)
		}
	}
	r.coq = fmt.Sprintf("CWrite %s %s %s %d %s %s %s", coqBool(sc.auth), sc.prices.StoragePrice.Big(), sc.prices.IngressPrice.Big(), sc.length, coqBool(dec), coqBool(rootEq), obs)
	r.nontrivial = x.Streams > 0 && !c.honest()
	return r
}

// -------------------------------------------------------------- verify ----

type verifyScen struct {
	name    string
	root    types.Hash256
	truth   *sector
	standIn *sector
	other   *sector
}

type verifySt struct {
	sc   *verifyScen
	req  *proto4.RPCVerifySectorRequest
	resp *proto4.RPCVerifySectorResponse
}

func (w *world) verifyScenarios() []verifyScen {
	return []verifyScen{
		{"sector-a", w.secRoots[0], w.secs[0], w.secs[0], w.secs[1]},
		{"sector-with-repeated-leaves", w.secRoots[1], w.secs[1], w.secs[1], w.secs[0]},
		{"unknown-root", types.HashBytes([]byte("no such sector 2")), nil, w.secs[0], w.secs[1]},
	}
}

func leafAt(s *sector, i uint64) (l [64]byte) {
	copy(l[:], s[i*leafSize:])
	return
}

func verifyCorrs(sc *verifyScen) []corr {
	cs := []corr{honestCorr}
	add := func(name string, f func(st *verifySt)) {
		cs = append(cs, corr{name: "msg1/" + name, msg: 1, typed: func(st any) { f(st.(*verifySt)) }})
	}
	next := func(i uint64) uint64 { return (i + 1) % proto4.LeavesPerSector }
	add("leaf-flip-first-bit", func(st *verifySt) { st.resp.Leaf[0] ^= 1 })
	add("leaf-flip-last-bit", func(st *verifySt) { st.resp.Leaf[63] ^= 0x80 })
	add("leaf-zero", func(st *verifySt) { st.resp.Leaf = [64]byte{} })
	add("leaf-of-next-index", func(st *verifySt) { st.resp.Leaf = leafAt(st.sc.standIn, next(st.req.LeafIndex)) })
	add("leaf-and-proof-of-next-index", func(st *verifySt) {
		i := next(st.req.LeafIndex)
		st.resp.Leaf = leafAt(st.sc.standIn, i)
		_, st.resp.Proof = honestRead(st.sc.standIn, i*leafSize, leafSize)
	})
	add("leaf-and-proof-of-sibling", func(st *verifySt) {
		i := st.req.LeafIndex ^ 1
		st.resp.Leaf = leafAt(st.sc.standIn, i)
		_, st.resp.Proof = honestRead(st.sc.standIn, i*leafSize, leafSize)
	})
	add("leaf-and-proof-of-index-0", func(st *verifySt) {
		st.resp.Leaf = leafAt(st.sc.standIn, 0)
		_, st.resp.Proof = honestRead(st.sc.standIn, 0, leafSize)
	})
	add("leaf-of-another-sector", func(st *verifySt) { st.resp.Leaf = leafAt(st.sc.other, st.req.LeafIndex) })
	add("leaf-and-proof-of-another-sector", func(st *verifySt) {
		st.resp.Leaf = leafAt(st.sc.other, st.req.LeafIndex)
		_, st.resp.Proof = honestRead(st.sc.other, st.req.LeafIndex*leafSize, leafSize)
	})
	add("leaf-hash-instead-of-leaf", func(st *verifySt) {
		h := types.HashBytes(st.resp.Leaf[:])
		st.resp.Leaf = [64]byte{}
		copy(st.resp.Leaf[:], h[:])
	})
	cs = append(cs, hashListCorrs(1, "proof", 16,
		func(st any) *[]types.Hash256 { return &st.(*verifySt).resp.Proof },
		func(st any) []types.Hash256 {
			s := st.(*verifySt)
			_, p := honestRead(s.sc.other, s.req.LeafIndex*leafSize, leafSize)
			return p
		})...)
	return append(cs, rawCorrs(1)...)
}

func (w *world) runVerify(sc *verifyScen, c corr) *result {
	r := &result{rpc: "verify", scen: sc.name, corr: c.name}
	var res rhp4.RPCVerifySectorResult
	var err error
	var idx uint64
	handler := func(s net.Conn, x *xchg) {
		var req proto4.RPCVerifySectorRequest
		if !readReq(s, x, proto4.RPCVerifySectorID, &req) {
			return
		}
		idx = req.LeafIndex
		if idx >= proto4.LeavesPerSector {
			x.note("leaf index %d out of range", idx)
			return
		}
		resp := proto4.RPCVerifySectorResponse{Leaf: leafAt(sc.standIn, idx)}
		_, resp.Proof = honestRead(sc.standIn, idx*leafSize, leafSize)
		c.applyTyped(1, &verifySt{sc: sc, req: &req, resp: &resp})
		b, _ := c.bytesOf(1, &resp)
		x.send(s, b)
	}
	x := w.do(r, handler, func(ctx context.Context, t rhp4.TransportClient) {
		res, err = rhp4.RPCVerifySector(ctx, t, w.prices, w.token, sc.root)
	})
	r.setErr(err)
	var resp proto4.RPCVerifySectorResponse
	dec := x.Streams > 0 && proto4.ReadResponse(bytes.NewReader(x.all()), &resp) == nil
	proofOK := dec && proto4.VerifyLeafProof(resp.Proof, resp.Leaf, idx, sc.root)
	obs := "OErr"
	if r.ok {
		obs = fmt.Sprintf("(OOk [%s])", res.Usage.Egress.Big())
		switch {
		case sc.truth == nil:
			r.fail("verify-succeeds-for-unknown-root", "RPCVerifySector returned success for a root of which no sector is known")
		case resp.Leaf != leafAt(sc.truth, idx):
			r.fail("verify-accepts-foreign-leaf", "RPCVerifySector returned success but the leaf in the response is not leaf %d of the sector with the requested root", idx)
		}
		if want := mulU(bi(w.prices.EgressPrice), sectorSize); res.Usage.RenterCost().Big().Cmp(want) != 0 {
			r.fail("verify-usage-not-price-table", "usage %v, price table says %v", res.Usage.RenterCost(), want)
		}
	}
	r.extra = map[string]any{"leafIndex": idx}
	r.coq = fmt.Sprintf("CVerify %s %s %s %s", w.prices.EgressPrice.Big(), coqBool(dec), coqBool(proofOK), obs)
	r.nontrivial = x.Streams > 0 && !c.honest()
	return r
}
