package main

// Dimensions added by the generalisation pass (seeded/LESSONS.md):
//
//   history (class 5)      many calls one after the other on ONE transport, the same caller
//                          objects reused, the revision threaded from call to call, and a host
//                          that replays what it sent in the previous exchange of the same RPC;
//   interleaving (2, 8)    two calls in flight on one transport, answered in the order the host
//                          chooses (the honest one completely before the corrupted one, and the
//                          other way round);
//   parameter spread (7)   price tables 0 / 1 H / typical / large, funds exactly at and one
//                          hasting below the cost, account batches at the protocol limit;
//   boundary shapes (6)    contracts of 15, 16 and 17 sectors (around a full subtree).

import (
	"bytes"
	"context"
	"fmt"
	"net"
	"slices"
	"sync"
	"time"

	proto4 "go.sia.tech/core/rhp/v4"
	"go.sia.tech/core/types"
	rhp4 "go.sia.tech/coreutils/rhp/v4"
)

// replayCorr answers with the bytes of the previous exchange of the same RPC.
func (w *world) replayCorr(rpc string) corr {
	return corr{name: "replay-of-previous-exchange", msg: 1, replay: func(msg int) []byte {
		prev := w.last[rpc]
		if i := (msg - 1) / 2; i < len(prev) {
			return prev[i]
		}
		return nil
	}}
}

func findCorr(cs []corr, name string) corr {
	for _, c := range cs {
		if c.name == name {
			return c
		}
	}
	panic("no corruption " + name)
}

// historyCases are run in order inside one session.
func (w *world) historyCases() []tcase {
	var cs []tcase
	add := func(rpc, scen string, c corr, run func() *result) {
		cs = append(cs, tcase{rpc, "history/" + scen, c.name, func() *result {
			r := run()
			r.scen = "history/" + scen
			return r
		}})
	}
	// ---- sector RPCs: the same objects again and again
	rs := w.readScenarios()
	rd := func(name string) *readScen {
		for i := range rs {
			if rs[i].name == name {
				return &rs[i]
			}
		}
		panic(name)
	}
	three, first, sub, rep, whole := rd("three-leaves-at-5"), rd("first-leaf"), rd("one-4k-subtree"), rd("repeated-leaves"), rd("whole-sector")
	three.full = true
	tc := readCorrs(three)
	readSeq := []struct {
		sc *readScen
		c  corr
	}{
		{three, honestCorr}, {three, findCorr(tc, "msg1/data-flip-first-bit")}, {three, findCorr(tc, "msg1/data-of-another-range")},
		{first, honestCorr}, {three, w.replayCorr("read")}, {three, honestCorr},
		{sub, honestCorr}, {sub, findCorr(readCorrs(sub), "msg1/data-all-zero")}, {sub, w.replayCorr("read")},
		{rep, honestCorr}, {rep, findCorr(readCorrs(rep), "msg1/data-of-another-sector")},
		{whole, honestCorr}, {whole, findCorr(readCorrs(whole), "msg1/data-flip-middle-bit")}, {whole, w.replayCorr("read")},
		{three, findCorr(tc, "msg1/data-and-proof-of-another-sector")}, {three, honestCorr},
	}
	for i, q := range readSeq {
		q := q
		add("read", fmt.Sprintf("%02d-%s", i, q.sc.name), q.c, func() *result { return w.runRead(q.sc, q.c) })
	}
	wsAll := w.writeScenarios()
	wr := func(name string) *writeScen {
		for i := range wsAll {
			if wsAll[i].name == name {
				return &wsAll[i]
			}
		}
		panic(name)
	}
	ws := []*writeScen{wr("one-leaf"), wr("three-leaves"), wr("4k")}
	for i, q := range []struct {
		sc *writeScen
		c  corr
	}{{ws[0], honestCorr}, {ws[1], w.replayCorr("write")}, {ws[1], honestCorr}, {ws[2], w.replayCorr("write")}, {ws[0], w.replayCorr("write")}, {ws[0], honestCorr}} {
		q := q
		add("write", fmt.Sprintf("%02d-%s", i, q.sc.name), q.c, func() *result { return w.runWrite(q.sc, q.c) })
	}
	vs := w.verifyScenarios()
	vc := verifyCorrs(&vs[0])
	for i, q := range []struct {
		sc *verifyScen
		c  corr
	}{{&vs[0], honestCorr}, {&vs[0], findCorr(vc, "msg1/leaf-of-next-index")}, {&vs[1], w.replayCorr("verify")}, {&vs[0], w.replayCorr("verify")}, {&vs[1], honestCorr}} {
		q := q
		add("verify", fmt.Sprintf("%02d-%s", i, q.sc.name), q.c, func() *result { return w.runVerify(q.sc, q.c) })
	}

	// ---- one contract, revised call after call; the host replays the previous exchange
	con, roots := w.contract(200, 6, 1, rich)
	other, otherRoots := w.contract(201, 6, 0, rich)
	step := 0
	chain := func(rpc, what string, c corr, run func() *result) {
		step++
		add(rpc, fmt.Sprintf("chain-%02d-%s", step, what), c, func() *result {
			r := run()
			if r.ok && r.rev != nil {
				con.Revision = *r.rev
			}
			return r
		})
	}
	rootsStep := func(off, l uint64, c corr) {
		chain("roots", fmt.Sprintf("roots-%d+%d", off, l), c, func() *result {
			sc := rootsScen{name: "chain", contract: con, roots: roots, other: other, otherRoots: otherRoots, offset: off, length: l, prices: w.prices, auth: true}
			return w.runRoots(&sc, c)
		})
	}
	appendStep := func(tag byte, k int, c corr) {
		chain("append", fmt.Sprintf("append-%d", k), c, func() *result {
			sc := appendScen{name: "chain", contract: con, roots: roots, other: other, otherRoots: otherRoots, add: newRoots(tag, k), accept: slices.Repeat([]bool{true}, k), prices: w.prices}
			r := w.runAppend(&sc, c)
			if r.ok {
				roots = append(cloneHashes(roots), r.secs...)
			}
			return r
		})
	}
	freeStep := func(idx []uint64, c corr) {
		chain("free", fmt.Sprintf("free-%v", idx), c, func() *result {
			sc := freeScen{name: "chain", contract: con, roots: roots, other: other, otherRoots: otherRoots, idx: idx, prices: w.prices}
			r := w.runFree(&sc, c)
			if r.ok {
				roots = swapRemove(roots, normalize(idx))
			}
			return r
		})
	}
	deposits := []proto4.AccountDeposit{{Account: acct(200, 0), Amount: types.Siacoins(1)}, {Account: acct(200, 1), Amount: types.Siacoins(2)}}
	fundStep := func(c corr) {
		chain("fund", "fund", c, func() *result {
			sc := fundScen{name: "chain", contract: con, other: other, deposits: deposits, acctsOK: true}
			return w.runFund(&sc, c)
		})
	}
	replStep := func(pools bool, c corr) {
		what := "replenish"
		if pools {
			what = "replenish-pools"
		}
		chain(what, what, c, func() *result {
			sc := replScen{name: "chain", contract: con, other: other, accounts: []proto4.Account{acct(200, 0), acct(200, 1)}, target: types.Siacoins(5),
				give: []types.Currency{types.Siacoins(5), types.Siacoins(1)}, pools: pools}
			return w.runReplenish(&sc, c)
		})
	}
	rootsStep(1, 2, honestCorr)
	rootsStep(1, 2, w.replayCorr("roots")) // the signature is over the revision before
	rootsStep(2, 2, w.replayCorr("roots")) // and the roots are those of another range
	appendStep(210, 2, honestCorr)
	appendStep(211, 2, w.replayCorr("append"))
	appendStep(210, 2, w.replayCorr("append")) // the same sectors again: old root, old signature
	rootsStep(5, 3, honestCorr)
	rootsStep(0, 2, honestCorr)
	// what the host could show for [0,2) before the free: stale afterwards
	var staleRoots, staleProof []types.Hash256
	chain("roots", "remember-range-0+2", honestCorr, func() *result {
		staleRoots, staleProof = cloneHashes(roots[0:2]), proto4.BuildSectorRootsProof(roots, 0, 2)
		sc := rootsScen{name: "chain", contract: con, roots: roots, other: other, otherRoots: otherRoots, offset: 0, length: 2, prices: w.prices, auth: true}
		return w.runRoots(&sc, honestCorr)
	})
	freeStep([]uint64{0, 7}, honestCorr)
	stale := corr{name: "msg1/roots-and-proof-of-this-range-before-the-free-freshly-signed", msg: 1, typed: func(st any) {
		s := st.(*rootsSt)
		s.resp.Roots, s.resp.Proof = cloneHashes(staleRoots), cloneHashes(staleProof)
	}}
	rootsStep(0, 2, stale)
	rootsStep(0, 2, honestCorr)
	freeStep([]uint64{0, 5}, w.replayCorr("free"))
	freeStep([]uint64{1}, honestCorr)
	fundStep(honestCorr)
	fundStep(w.replayCorr("fund"))
	fundStep(honestCorr)
	replStep(false, honestCorr)
	replStep(false, w.replayCorr("replenish"))
	replStep(true, honestCorr)
	replStep(true, w.replayCorr("replenish-pools"))
	appendStep(212, 1, honestCorr)
	rootsStep(0, 6, honestCorr) // the whole contract as the harness believes it to be
	return cs
}

// ---- two calls in flight ------------------------------------------------------

// concurrentReads runs two RPCReadSector calls of the same range at the same time on one
// transport. The host reads both requests first, then serves one stream completely before
// it touches the other: the honest one first or the corrupted one first.
func (w *world) concurrentReads(honestFirst bool) []*result {
	var sc readScen
	for _, q := range w.readScenarios() {
		if q.name == "three-leaves-at-5" {
			sc = q
		}
	}
	name := "corrupted-answered-first"
	if honestFirst {
		name = "honest-answered-first"
	}
	type pend struct {
		s   net.Conn
		req proto4.RPCReadSectorRequest
	}
	var mu sync.Mutex
	var pending []pend
	ready := make(chan struct{})
	res := []*result{{rpc: "read", scen: "concurrent/" + name, corr: "honest"}, {rpc: "read", scen: "concurrent/" + name, corr: "msg1/data-of-another-range"}}
	xs := []*xchg{{}, {}}
	sess := w.openRawSession(func(s net.Conn) {
		var req proto4.RPCReadSectorRequest
		x := &xchg{}
		if !readReq(s, x, proto4.RPCReadSectorID, &req) {
			return
		}
		mu.Lock()
		pending = append(pending, pend{s, req})
		n := len(pending)
		mu.Unlock()
		if n == 2 {
			close(ready)
		}
		<-ready
		// stream i of the two: the first one accepted is the honest call (the calls are started in order)
		mu.Lock()
		i := 0
		if pending[1].s == s {
			i = 1
		}
		mu.Unlock()
		serve := func() {
			data, proof := honestRead(sc.standIn, req.Offset, req.Length)
			if i == 1 {
				data = append([]byte(nil), sc.standIn[req.Offset+req.Length:req.Offset+2*req.Length]...)
			}
			resp := proto4.RPCReadSectorResponse{Proof: proof, DataLength: uint64(len(data))}
			xs[i].Streams = 1
			xs[i].send(s, encode(&resp))
			xs[i].send(s, data)
		}
		// the other stream goes first when it is its turn
		first := 0
		if !honestFirst {
			first = 1
		}
		if i == first {
			serve()
			orderDone.Store(true)
		} else {
			for !orderDone.Load() {
				time.Sleep(time.Millisecond)
			}
			time.Sleep(5 * time.Millisecond)
			serve()
		}
	})
	orderDone.Store(false)
	var wg sync.WaitGroup
	outs := []*bytes.Buffer{{}, {}}
	errs := make([]error, 2)
	uses := make([]rhp4.RPCReadSectorResult, 2)
	for i := 0; i < 2; i++ {
		i := i
		wg.Add(1)
		go func() {
			defer wg.Done()
			defer func() {
				if p := recover(); p != nil {
					res[i].panicked = true
					res[i].fail("renter-panics-on-read-response", "the RPC function panicked instead of returning an error: %v", p)
				}
			}()
			ctx, cancel := context.WithTimeout(context.Background(), 10*time.Second)
			defer cancel()
			uses[i], errs[i] = rhp4.RPCReadSector(ctx, sess.t, sc.prices, w.token, outs[i], sc.root, sc.offset, sc.length)
		}()
		time.Sleep(20 * time.Millisecond) // the honest call's stream is opened first
	}
	wg.Wait()
	sess.close()
	for i, r := range res {
		xs[i].finish()
		r.x = xs[i]
		r.setErr(errs[i])
		all := xs[i].all()
		rdr := bytes.NewReader(all)
		var resp proto4.RPCReadSectorResponse
		dec := proto4.ReadResponse(rdr, &resp) == nil
		rest := all[len(all)-rdr.Len():]
		proofOK := false
		if dec {
			start, end := sc.offset/leafSize, (sc.offset+sc.length)/leafSize
			rpv := proto4.NewRangeProofVerifier(start, end)
			n := min(resp.DataLength, uint64(len(rest)), (end-start)*leafSize)
			if _, e := rpv.ReadFrom(bytes.NewReader(rest[:n])); e == nil {
				proofOK = rpv.Verify(resp.Proof, sc.root)
			}
		}
		obs := "OErr"
		if r.ok {
			obs = fmt.Sprintf("(OOk [%d; %s])", outs[i].Len(), uses[i].Usage.Egress.Big())
			if !bytes.Equal(outs[i].Bytes(), sc.truth[sc.offset:sc.offset+sc.length]) {
				r.fail("read-delivers-other-bytes", "two RPCReadSector calls in flight on one transport (%s): the call answered with the bytes of another range returned success; %d bytes were written that are not bytes [%d,%d) of the sector", name, outs[i].Len(), sc.offset, sc.offset+sc.length)
			}
		}
		if r.panicked {
			obs = "OPanic"
		}
		r.coq = fmt.Sprintf("CRead true %s %d %d %s %d %d %s %s", sc.prices.EgressPrice.Big(), sc.offset, sc.length, coqBool(dec), resp.DataLength, len(rest), coqBool(proofOK), obs)
		r.nontrivial = true
	}
	return res
}
