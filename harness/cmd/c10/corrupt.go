package main

import (
	"bytes"
	"fmt"
	"math/big"

	proto4 "go.sia.tech/core/rhp/v4"
	"go.sia.tech/core/types"
)

// A corr is one entry of the corruption catalogue: a change applied to the
// honest response of the Byzantine host. typed changes the response object(s)
// before encoding, raw changes the encoded bytes of message msg, cut closes
// the stream right after message msg.
type corr struct {
	// replay, if set, returns the bytes the host sent as message msg of the previous
	// exchange of the same RPC on this transport (nil: nothing to replay)
	replay func(msg int) []byte
	name   string
	msg    int
	typed  func(st any)
	raw    func(b []byte) []byte
	cut    bool
}

func (c corr) honest() bool { return c.typed == nil && c.raw == nil && c.replay == nil }

var honestCorr = corr{name: "honest"}

// applyRaw encodes o (message number msg) and applies the raw corruption.
func (c corr) bytesOf(msg int, o proto4.Object) (b []byte, cut bool) {
	b = encode(o)
	if c.replay != nil {
		if p := c.replay(msg); p != nil {
			return append([]byte(nil), p...), false
		}
	}
	if c.msg == msg && c.raw != nil {
		b = c.raw(append([]byte(nil), b...))
	}
	return b, c.msg == msg && c.cut
}

func (c corr) applyTyped(msg int, st any) {
	if c.msg == msg && c.typed != nil {
		c.typed(st)
	}
}

// rawCorrs is the byte-level part of the catalogue for one response message:
// truncated, extended, replaced by an error, framing bytes flipped.
func rawCorrs(msg int) []corr {
	p := fmt.Sprintf("msg%d/", msg)
	garbage := bytes.Repeat([]byte{0xAB}, 40)
	mk := func(name string, cut bool, f func(b []byte) []byte) corr {
		return corr{name: p + name, msg: msg, raw: f, cut: cut}
	}
	return []corr{
		mk("truncated-to-nothing", true, func(b []byte) []byte { return nil }),
		mk("truncated-to-1-byte", true, func(b []byte) []byte { return b[:1] }),
		mk("truncated-to-half", true, func(b []byte) []byte { return b[:len(b)/2] }),
		mk("truncated-last-byte", true, func(b []byte) []byte { return b[:len(b)-1] }),
		mk("extended-garbage", false, func(b []byte) []byte { return append(b, garbage...) }),
		mk("extended-duplicate", false, func(b []byte) []byte { return append(b, b...) }),
		mk("error-response", true, func(b []byte) []byte {
			return encode(&proto4.RPCError{Code: proto4.ErrorCodeHostError, Description: "no"})
		}),
		mk("error-flag-set", false, func(b []byte) []byte { b[0] = 1; return b }),
		mk("error-flag-invalid", false, func(b []byte) []byte { b[0] = 7; return b }),
		mk("flip-byte-1", false, func(b []byte) []byte {
			if len(b) > 1 {
				b[1] ^= 0x01
			}
			return b
		}),
		mk("flip-byte-8-high", false, func(b []byte) []byte {
			if len(b) > 8 {
				b[8] ^= 0x80
			}
			return b
		}),
		mk("flip-middle-byte", false, func(b []byte) []byte { b[len(b)/2] ^= 0x10; return b }),
		mk("flip-last-byte", false, func(b []byte) []byte { b[len(b)-1] ^= 0x80; return b }),
	}
}

// hashListCorrs enumerates the corruptions of one []Hash256 field: every
// element flipped, dropped ends, extended, duplicated, swapped, reversed,
// emptied, replaced by the list of another exchange.
func hashListCorrs(msg int, field string, n int, get func(st any) *[]types.Hash256, other func(st any) []types.Hash256) []corr {
	var cs []corr
	p := fmt.Sprintf("msg%d/%s/", msg, field)
	add := func(name string, f func(l []types.Hash256, st any) []types.Hash256) {
		cs = append(cs, corr{name: p + name, msg: msg, typed: func(st any) {
			l := get(st)
			*l = f(cloneHashes(*l), st)
		}})
	}
	for i := 0; i < n; i++ {
		i := i
		add(fmt.Sprintf("flip-element-%d", i), func(l []types.Hash256, _ any) []types.Hash256 {
			if i < len(l) {
				l[i] = flipHash(l[i], 8*i+3)
			}
			return l
		})
	}
	if n > 0 {
		add("drop-first", func(l []types.Hash256, _ any) []types.Hash256 { return l[1:] })
		add("drop-last", func(l []types.Hash256, _ any) []types.Hash256 { return l[:len(l)-1] })
		add("duplicate-first", func(l []types.Hash256, _ any) []types.Hash256 {
			return append([]types.Hash256{l[0]}, l...)
		})
		add("zero-first", func(l []types.Hash256, _ any) []types.Hash256 { l[0] = types.Hash256{}; return l })
		add("empty", func(l []types.Hash256, _ any) []types.Hash256 { return nil })
	}
	if n > 1 {
		add("swap-first-two", func(l []types.Hash256, _ any) []types.Hash256 { l[0], l[1] = l[1], l[0]; return l })
		add("swap-first-last", func(l []types.Hash256, _ any) []types.Hash256 {
			l[0], l[len(l)-1] = l[len(l)-1], l[0]
			return l
		})
		add("reversed", func(l []types.Hash256, _ any) []types.Hash256 {
			for i, j := 0, len(l)-1; i < j; i, j = i+1, j-1 {
				l[i], l[j] = l[j], l[i]
			}
			return l
		})
	}
	add("extended-by-one", func(l []types.Hash256, _ any) []types.Hash256 {
		return append(l, types.HashBytes([]byte("extra")))
	})
	add("extended-by-zero-hash", func(l []types.Hash256, _ any) []types.Hash256 { return append(l, types.Hash256{}) })
	if other != nil {
		add("from-another-exchange", func(_ []types.Hash256, st any) []types.Hash256 { return cloneHashes(other(st)) })
	}
	return cs
}

// sigCorrs enumerates the corruptions of a host signature over a revision.
// sigSt gives access to what a host can sign with its own key.
type sigSt struct {
	w         *world
	sig       *types.Signature
	local     types.V2FileContract // the revision an honest host signs
	prev      types.V2FileContract // the revision before this RPC
	other     types.V2FileContract // a revision of another contract (another exchange)
	renterSig types.Signature      // the renter's signature as received (zero if none)
}

func sigCorrs(msg int, get func(st any) *sigSt) []corr {
	p := fmt.Sprintf("msg%d/signature/", msg)
	var cs []corr
	add := func(name string, f func(s *sigSt) types.Signature) {
		cs = append(cs, corr{name: p + name, msg: msg, typed: func(st any) {
			s := get(st)
			*s.sig = f(s)
		}})
	}
	over := func(s *sigSt, mod func(fc *types.V2FileContract)) types.Signature {
		fc := s.local
		mod(&fc)
		return s.w.hk.SignHash(s.w.cs.ContractSigHash(fc))
	}
	for _, bit := range []int{0, 255, 511} {
		bit := bit
		add(fmt.Sprintf("flip-bit-%d", bit), func(s *sigSt) types.Signature { return flipSig(*s.sig, bit) })
	}
	add("zero", func(s *sigSt) types.Signature { return types.Signature{} })
	add("stranger-key-over-right-revision", func(s *sigSt) types.Signature {
		return s.w.xk.SignHash(s.w.cs.ContractSigHash(s.local))
	})
	add("renter-signature-echoed", func(s *sigSt) types.Signature {
		return s.w.rk.SignHash(s.w.cs.ContractSigHash(s.local))
	})
	add("host-key-over-previous-revision", func(s *sigSt) types.Signature {
		return s.w.hk.SignHash(s.w.cs.ContractSigHash(s.prev))
	})
	add("host-key-over-cheaper-revision", func(s *sigSt) types.Signature {
		return over(s, func(fc *types.V2FileContract) {
			fc.RenterOutput.Value = fc.RenterOutput.Value.Add(types.NewCurrency64(1))
			fc.HostOutput.Value = fc.HostOutput.Value.Sub(types.NewCurrency64(1))
		})
	})
	add("host-key-over-dearer-revision", func(s *sigSt) types.Signature {
		return over(s, func(fc *types.V2FileContract) {
			fc.RenterOutput.Value = fc.RenterOutput.Value.Sub(types.NewCurrency64(1))
			fc.HostOutput.Value = fc.HostOutput.Value.Add(types.NewCurrency64(1))
		})
	})
	add("host-key-over-less-risked-collateral", func(s *sigSt) types.Signature {
		return over(s, func(fc *types.V2FileContract) { fc.MissedHostValue = fc.MissedHostValue.Add(types.NewCurrency64(1)) })
	})
	add("host-key-over-other-merkle-root", func(s *sigSt) types.Signature {
		return over(s, func(fc *types.V2FileContract) { fc.FileMerkleRoot = flipHash(fc.FileMerkleRoot, 9) })
	})
	add("host-key-over-other-filesize", func(s *sigSt) types.Signature {
		return over(s, func(fc *types.V2FileContract) { fc.Filesize += sectorSize })
	})
	add("host-key-over-next-revision-number", func(s *sigSt) types.Signature {
		return over(s, func(fc *types.V2FileContract) { fc.RevisionNumber++ })
	})
	add("host-key-over-revision-of-another-contract", func(s *sigSt) types.Signature {
		return s.w.hk.SignHash(s.w.cs.ContractSigHash(s.other))
	})
	add("host-key-over-unprefixed-hash", func(s *sigSt) types.Signature {
		var buf bytes.Buffer
		e := types.NewEncoder(&buf)
		s.local.EncodeTo(e)
		e.Flush()
		return s.w.hk.SignHash(types.HashBytes(buf.Bytes()))
	})
	add("host-price-table-signature", func(s *sigSt) types.Signature { return s.w.prices.Signature })
	return cs
}

// ---- independent arithmetic (big.Int, not core's Currency) -----------------

func bi(c types.Currency) *big.Int { return c.Big() }

func round4k(n uint64) uint64 { return (n + 4095) / 4096 * 4096 }

func mulU(a *big.Int, xs ...uint64) *big.Int {
	r := new(big.Int).Set(a)
	for _, x := range xs {
		r.Mul(r, new(big.Int).SetUint64(x))
	}
	return r
}

// nview renders the numeric part of a revision as the Coq record mk_nview.
func (w *world) nview(fc types.V2FileContract) string {
	return fmt.Sprintf("(mk_nview %d %d %d %d %s %s %s %d)", fc.RevisionNumber, fc.Filesize, fc.Capacity, w.id(fc.FileMerkleRoot),
		fc.RenterOutput.Value.Big(), fc.HostOutput.Value.Big(), fc.MissedHostValue.Big(), fc.ExpirationHeight)
}

func (w *world) nprices(p proto4.HostPrices) string {
	return fmt.Sprintf("(mk_nprices %s %s %s %s %s %d)", p.StoragePrice.Big(), p.IngressPrice.Big(), p.EgressPrice.Big(), p.FreeSectorPrice.Big(), p.Collateral.Big(), p.TipHeight)
}

func usageNums(u proto4.Usage) string {
	return fmt.Sprintf("(mk_usage %s %s %s %s %s %s)", u.RPC.Big(), u.Storage.Big(), u.Egress.Big(), u.Ingress.Big(), u.AccountFunding.Big(), u.RiskedCollateral.Big())
}

func coqBool(b bool) string {
	if b {
		return "true"
	}
	return "false"
}
