package main

// RPCFormContract, RPCRenewContract, RPCRefreshContractFullRollover and
// RPCRefreshContractPartialRollover against the Byzantine host, at the level
// of what the call returns: the contract must be the one the renter built and
// signed, with a host signature over exactly that contract. (Funding and the
// release of inputs belong to C16; the wallet and transaction pool here are
// stubs that fund exactly and record releases.)

import (
	"bytes"
	"context"
	"fmt"
	"math/big"
	"net"
	"strings"

	proto4 "go.sia.tech/core/rhp/v4"
	"go.sia.tech/core/types"
	rhp4 "go.sia.tech/coreutils/rhp/v4"
)

// ---- stub wallet / pool ---------------------------------------------------

type stubWallet struct {
	w        *world
	balance  types.Currency
	released int
	n        byte
}

func (s *stubWallet) SignHash(h types.Hash256) types.Signature { return s.w.rk.SignHash(h) }

func (s *stubWallet) SignV2Inputs(txn *types.V2Transaction, toSign []int) {
	h := s.w.cs.InputSigHash(*txn)
	for _, i := range toSign {
		txn.SiacoinInputs[i].SatisfiedPolicy = types.SatisfiedPolicy{
			Policy:     types.PolicyPublicKey(s.w.rk.PublicKey()),
			Signatures: []types.Signature{s.w.rk.SignHash(h)},
		}
	}
}

func (s *stubWallet) FundV2Transaction(txn *types.V2Transaction, amount types.Currency) (types.ChainIndex, []int, error) {
	if s.balance.Cmp(amount) < 0 {
		return types.ChainIndex{}, nil, fmt.Errorf("not enough funds")
	}
	s.n++
	txn.SiacoinInputs = append(txn.SiacoinInputs, types.V2SiacoinInput{Parent: types.SiacoinElement{
		ID:            types.SiacoinOutputID(types.HashBytes([]byte{'u', s.n})),
		StateElement:  types.StateElement{LeafIndex: 7},
		SiacoinOutput: types.SiacoinOutput{Address: types.StandardUnlockHash(s.w.rk.PublicKey()), Value: amount},
	}})
	return s.w.basis(), []int{len(txn.SiacoinInputs) - 1}, nil
}

func (s *stubWallet) RecommendedFee() types.Currency      { return types.NewCurrency64(1_000_000_000) }
func (s *stubWallet) ReleaseInputs([]types.V2Transaction) { s.released++ }

type stubPool struct{}

func (stubPool) V2TransactionSet(basis types.ChainIndex, txn types.V2Transaction) (types.ChainIndex, []types.V2Transaction, error) {
	return basis, []types.V2Transaction{txn}, nil
}

func (w *world) basis() types.ChainIndex {
	return types.ChainIndex{Height: w.cs.Index.Height, ID: types.BlockID(types.HashBytes([]byte("tip")))}
}

func (w *world) hostAddr() types.Address { return types.StandardUnlockHash(w.hpk) }

// ---- scenarios ------------------------------------------------------------

type formScen struct {
	name   string
	kind   string // form | renew | refresh-full | refresh-partial
	fgn    foreign
	funds  types.Currency // the renter wallet's balance
	full   bool
	exist  rhp4.ContractRevision // renew/refresh: the existing contract
	tag    byte
	prices proto4.HostPrices
}

func (w *world) formScenarios() []formScen {
	var s []formScen
	tag := byte(140)
	for _, kind := range []string{"form", "renew", "refresh-full", "refresh-partial"} {
		mk := func(name string, funds types.Currency, full bool, f foreign) {
			tag++
			c, _ := w.contract(tag, 3, 1, types.Siacoins(150))
			s = append(s, formScen{name: name, kind: kind, fgn: f, funds: funds, full: full, exist: c, tag: tag, prices: w.prices})
		}
		mk("normal", types.Siacoins(100000), true, "")
		mk("wallet-cannot-fund", types.NewCurrency64(5), false, "")
		mk(foreignNames["b"], types.Siacoins(100000), false, "b")
		mk(foreignNames["d"], types.Siacoins(100000), false, "d")
	}
	return s
}

// what the renter builds locally (recomputed by the harness with core)
type formLocal struct {
	mine       types.V2FileContract        // the new contract, unsigned
	renewal    types.V2FileContractRenewal // renew/refresh: the renewal, unsigned
	usage      proto4.Usage
	renterCost types.Currency
	hostCost   types.Currency
	minerFee   types.Currency
}

func (w *world) formParams(sc *formScen) (proto4.RPCFormContractParams, proto4.RPCRenewContractParams, proto4.RPCRefreshContractParams) {
	return proto4.RPCFormContractParams{
			RenterPublicKey: w.rk.PublicKey(), RenterAddress: types.StandardUnlockHash(w.rk.PublicKey()),
			Allowance: types.Siacoins(150), Collateral: types.Siacoins(300), ProofHeight: 1000,
		}, proto4.RPCRenewContractParams{
			ContractID: sc.exist.ID, Allowance: types.Siacoins(150), Collateral: types.Siacoins(300), ProofHeight: 2000,
		}, proto4.RPCRefreshContractParams{
			ContractID: sc.exist.ID, Allowance: types.Siacoins(150), Collateral: types.Siacoins(300),
		}
}

func (w *world) formLocal(sc *formScen, prices proto4.HostPrices, fee types.Currency) (l formLocal) {
	fp, rp, xp := w.formParams(sc)
	l.minerFee = fee
	switch sc.kind {
	case "form":
		l.mine, l.usage = proto4.NewContract(prices, fp, w.hpk, w.hostAddr())
		l.renterCost, l.hostCost = proto4.ContractCost(w.cs, l.mine, fee)
		l.hostCost = l.mine.TotalCollateral
	case "renew":
		l.renewal, l.usage = proto4.RenewContract(sc.exist.Revision, prices, w.hostAddr(), rp)
		l.renterCost, l.hostCost = proto4.RenewalCost(w.cs, l.renewal, fee)
	case "refresh-full":
		l.renewal, l.usage = proto4.RefreshContractFullRollover(sc.exist.Revision, prices, w.hostAddr(), xp)
		l.renterCost, l.hostCost = proto4.RefreshCost(w.cs, prices, l.renewal, fee)
	default:
		l.renewal, l.usage = proto4.RefreshContractPartialRollover(sc.exist.Revision, prices, w.hostAddr(), xp)
		l.renterCost, l.hostCost = proto4.RefreshCost(w.cs, prices, l.renewal, fee)
	}
	if sc.kind != "form" {
		l.mine = l.renewal.NewContract
	}
	return
}

// ---- corruption catalogue of the exchange ---------------------------------

// formSt is what a corruption can touch: the host inputs of message 1 and the
// final response (message 3).
type formSt struct {
	w      *world
	sc     *formScen
	local  formLocal
	inputs *[]types.V2SiacoinInput
	set    *[]types.V2Transaction
	basis  *types.ChainIndex
	signer types.PrivateKey
}

func (st *formSt) last() *types.V2Transaction { return &(*st.set)[len(*st.set)-1] }

// contractPtr is the contract object inside the final transaction.
func (st *formSt) contractPtr() *types.V2FileContract {
	t := st.last()
	if st.sc.kind == "form" {
		return &t.FileContracts[0]
	}
	return &t.FileContractResolutions[0].Resolution.(*types.V2FileContractRenewal).NewContract
}

func (st *formSt) renewalPtr() *types.V2FileContractRenewal {
	return st.last().FileContractResolutions[0].Resolution.(*types.V2FileContractRenewal)
}

type contractMod struct {
	name string
	f    func(st *formSt, fc *types.V2FileContract)
}

var contractMods = []contractMod{
	{"renter-payout-moved-to-host", func(st *formSt, fc *types.V2FileContract) {
		fc.RenterOutput.Value = fc.RenterOutput.Value.Sub(types.Siacoins(10))
		fc.HostOutput.Value = fc.HostOutput.Value.Add(types.Siacoins(10))
	}},
	{"one-hasting-moved-to-host", func(st *formSt, fc *types.V2FileContract) {
		fc.RenterOutput.Value = fc.RenterOutput.Value.Sub(types.NewCurrency64(1))
		fc.HostOutput.Value = fc.HostOutput.Value.Add(types.NewCurrency64(1))
	}},
	{"missed-host-value-raised", func(st *formSt, fc *types.V2FileContract) {
		fc.MissedHostValue = fc.MissedHostValue.Add(types.Siacoins(1))
	}},
	{"total-collateral-lowered", func(st *formSt, fc *types.V2FileContract) {
		fc.TotalCollateral = fc.TotalCollateral.Sub(types.Siacoins(1))
	}},
	{"heights-later", func(st *formSt, fc *types.V2FileContract) { fc.ProofHeight += 10; fc.ExpirationHeight += 10 }},
	{"filesize-and-root-changed", func(st *formSt, fc *types.V2FileContract) {
		fc.Filesize += sectorSize
		fc.Capacity += sectorSize
		fc.FileMerkleRoot = flipHash(fc.FileMerkleRoot, 3)
	}},
	{"host-key-replaced-by-peer-key", func(st *formSt, fc *types.V2FileContract) { fc.HostPublicKey = st.w.pk2.PublicKey() }},
	{"renter-key-replaced", func(st *formSt, fc *types.V2FileContract) { fc.RenterPublicKey = st.w.xk.PublicKey() }},
	{"revision-number-1", func(st *formSt, fc *types.V2FileContract) { fc.RevisionNumber = 1 }},
	{"renter-address-replaced", func(st *formSt, fc *types.V2FileContract) {
		fc.RenterOutput.Address = types.StandardUnlockHash(st.w.xk.PublicKey())
	}},
}

func (w *world) formCorrs(sc *formScen) []corr {
	cs := []corr{honestCorr}
	if sc.fgn != "" || sc.funds.Cmp(types.Siacoins(1)) < 0 {
		return cs
	}
	add := func(msg int, name string, f func(st *formSt)) {
		cs = append(cs, corr{name: fmt.Sprintf("msg%d/%s", msg, name), msg: msg, typed: func(st any) { f(st.(*formSt)) }})
	}
	renew := sc.kind != "form"
	// message 1: the host's inputs
	add(1, "host-inputs-one-hasting-short", func(st *formSt) {
		if len(*st.inputs) > 0 {
			v := &(*st.inputs)[0].Parent.SiacoinOutput.Value
			*v = v.Sub(types.NewCurrency64(1))
		}
	})
	add(1, "host-inputs-none", func(st *formSt) { *st.inputs = nil })
	add(1, "host-inputs-excess", func(st *formSt) {
		if len(*st.inputs) > 0 {
			v := &(*st.inputs)[0].Parent.SiacoinOutput.Value
			*v = v.Add(types.Siacoins(5))
		}
	})
	// message 3: the contract object inside the final transaction
	mods := contractMods
	if !sc.full {
		mods = mods[:2]
	}
	for _, m := range mods {
		m := m
		add(3, "contract/"+m.name+"/re-signed-by-host", func(st *formSt) {
			fc := st.contractPtr()
			m.f(st, fc)
			fc.HostSignature = st.w.hk.SignHash(st.w.cs.ContractSigHash(*fc))
		})
		add(3, "contract/"+m.name+"/host-signature-over-the-agreed-contract-kept", func(st *formSt) {
			m.f(st, st.contractPtr())
		})
		if renew {
			add(3, "contract/"+m.name+"/contract-and-renewal-re-signed-by-host", func(st *formSt) {
				fc := st.contractPtr()
				m.f(st, fc)
				fc.HostSignature = st.w.hk.SignHash(st.w.cs.ContractSigHash(*fc))
				r := st.renewalPtr()
				r.HostSignature = st.w.hk.SignHash(st.w.cs.RenewalSigHash(*r))
			})
		}
	}
	// the host's copy of the renter's signatures: nothing the renter returns may depend on it
	add(3, "contract/renter-signature-in-host-copy-zeroed", func(st *formSt) { st.contractPtr().RenterSignature = types.Signature{} })
	add(3, "contract/renter-signature-in-host-copy-by-stranger", func(st *formSt) {
		st.contractPtr().RenterSignature = st.w.xk.SignHash(st.w.cs.ContractSigHash(st.local.mine))
	})
	sigs := []struct {
		n string
		f func(st *formSt, s types.Signature) types.Signature
	}{
		{"flip-bit-0", func(st *formSt, s types.Signature) types.Signature { return flipSig(s, 0) }},
		{"flip-bit-511", func(st *formSt, s types.Signature) types.Signature { return flipSig(s, 511) }},
		{"zero", func(st *formSt, s types.Signature) types.Signature { return types.Signature{} }},
		{"stranger-key-over-agreed", func(st *formSt, s types.Signature) types.Signature {
			return st.w.xk.SignHash(st.w.cs.ContractSigHash(st.local.mine))
		}},
		{"peer-key-over-agreed", func(st *formSt, s types.Signature) types.Signature {
			return st.w.pk2.SignHash(st.w.cs.ContractSigHash(st.local.mine))
		}},
		{"renter-signature-echoed", func(st *formSt, s types.Signature) types.Signature {
			return st.w.rk.SignHash(st.w.cs.ContractSigHash(st.local.mine))
		}},
		{"host-price-table-signature", func(st *formSt, s types.Signature) types.Signature { return st.w.prices.Signature }},
		{"host-key-over-existing-contract", func(st *formSt, s types.Signature) types.Signature {
			return st.w.hk.SignHash(st.w.cs.ContractSigHash(st.sc.exist.Revision))
		}},
	}
	for _, sg := range sigs {
		sg := sg
		add(3, "contract-signature/"+sg.n, func(st *formSt) {
			fc := st.contractPtr()
			fc.HostSignature = sg.f(st, fc.HostSignature)
		})
	}
	if renew {
		add(3, "contract-signature/host-key-over-renewal-sighash", func(st *formSt) {
			st.contractPtr().HostSignature = st.w.hk.SignHash(st.w.cs.RenewalSigHash(st.local.renewal))
		})
		for _, sg := range sigs[:5] {
			sg := sg
			add(3, "renewal-signature/"+sg.n, func(st *formSt) {
				r := st.renewalPtr()
				if strings.Contains(sg.n, "over-agreed") {
					k := st.w.xk
					if strings.HasPrefix(sg.n, "peer") {
						k = st.w.pk2
					}
					r.HostSignature = k.SignHash(st.w.cs.RenewalSigHash(st.local.renewal))
					return
				}
				r.HostSignature = sg.f(st, r.HostSignature)
			})
		}
		add(3, "renewal-signature/host-key-over-contract-sighash", func(st *formSt) {
			st.renewalPtr().HostSignature = st.w.hk.SignHash(st.w.cs.ContractSigHash(st.local.mine))
		})
		add(3, "renewal/final-renter-output-lowered/re-signed-by-host", func(st *formSt) {
			r := st.renewalPtr()
			r.FinalRenterOutput.Value = types.ZeroCurrency
			r.HostSignature = st.w.hk.SignHash(st.w.cs.RenewalSigHash(*r))
		})
		add(3, "renewal/final-renter-output-lowered/signature-kept", func(st *formSt) {
			st.renewalPtr().FinalRenterOutput.Value = types.ZeroCurrency
		})
		add(3, "renewal/rollovers-changed/signature-kept", func(st *formSt) {
			r := st.renewalPtr()
			r.RenterRollover = r.RenterRollover.Add(types.NewCurrency64(1))
			r.HostRollover = types.ZeroCurrency
		})
		add(3, "set/resolution-is-an-expiration", func(st *formSt) {
			st.last().FileContractResolutions[0].Resolution = &types.V2FileContractExpiration{}
		})
		add(3, "set/no-resolution", func(st *formSt) { st.last().FileContractResolutions = nil })
		add(3, "set/two-resolutions", func(st *formSt) {
			t := st.last()
			t.FileContractResolutions = append(t.FileContractResolutions, t.FileContractResolutions[0])
		})
	} else {
		add(3, "set/no-contract", func(st *formSt) { st.last().FileContracts = nil })
		add(3, "set/two-contracts", func(st *formSt) {
			t := st.last()
			t.FileContracts = append(t.FileContracts, t.FileContracts[0])
		})
		add(3, "set/extra-output-for-the-host", func(st *formSt) {
			t := st.last()
			t.SiacoinOutputs = append(t.SiacoinOutputs, types.SiacoinOutput{Address: st.w.hostAddr(), Value: types.Siacoins(1)})
		})
		add(3, "set/renter-input-dropped", func(st *formSt) {
			t := st.last()
			t.SiacoinInputs = t.SiacoinInputs[1:]
		})
	}
	add(3, "set/empty", func(st *formSt) { *st.set = nil })
	add(3, "set/miner-fee-changed", func(st *formSt) { st.last().MinerFee = st.last().MinerFee.Add(types.NewCurrency64(1)) })
	add(3, "set/unrelated-parent-prepended", func(st *formSt) {
		*st.set = append([]types.V2Transaction{{ArbitraryData: []byte("parent")}}, *st.set...)
	})
	add(3, "set/unrelated-transaction-appended", func(st *formSt) {
		*st.set = append(*st.set, types.V2Transaction{ArbitraryData: []byte("last")})
	})
	add(3, "set/basis-changed", func(st *formSt) { st.basis.Height += 3 })
	r1, r3 := rawCorrs(1), rawCorrs(3)
	if !sc.full {
		r1, r3 = r1[:4], r3[:6]
	} else {
		r1 = r1[:7]
	}
	cs = append(cs, r1...)
	return append(cs, r3...)
}

// ---- one exchange -----------------------------------------------------------

func (w *world) runForm(sc *formScen, c corr) *result {
	r := &result{rpc: sc.kind, scen: sc.name, corr: c.name, peer: w.fPeer(sc.fgn)}
	wallet := &stubWallet{w: w, balance: sc.funds}
	fp, rp, xp := w.formParams(sc)
	fee := wallet.RecommendedFee().Mul64(1000)
	local := w.formLocal(sc, sc.prices, fee)
	signer := w.fSigner(sc.fgn)
	renew := sc.kind != "form"
	ids := map[string]types.Specifier{"form": proto4.RPCFormContractID, "renew": proto4.RPCRenewContractID,
		"refresh-full": proto4.RPCRefreshContractID, "refresh-partial": proto4.RPCRefreshPartialID}

	var sentInputs []types.V2SiacoinInput
	handler := func(s net.Conn, x *xchg) {
		var renterInputs []types.SiacoinElement
		var basis types.ChainIndex
		var hl formLocal // what an honest host computes from the request
		switch sc.kind {
		case "form":
			var req proto4.RPCFormContractRequest
			if !readReq(s, x, ids[sc.kind], &req) {
				return
			}
			renterInputs, basis = req.RenterInputs, req.Basis
			hl.mine, _ = proto4.NewContract(req.Prices, req.Contract, w.hpk, w.hostAddr())
			hl.hostCost, hl.minerFee = hl.mine.TotalCollateral, req.MinerFee
		case "renew":
			var req proto4.RPCRenewContractRequest
			if !readReq(s, x, ids[sc.kind], &req) {
				return
			}
			renterInputs, basis = req.RenterInputs, req.Basis
			hl.renewal, _ = proto4.RenewContract(sc.exist.Revision, req.Prices, w.hostAddr(), req.Renewal)
			_, hl.hostCost = proto4.RenewalCost(w.cs, hl.renewal, req.MinerFee)
			hl.minerFee = req.MinerFee
		default:
			var req proto4.RPCRefreshContractRequest
			if !readReq(s, x, ids[sc.kind], &req) {
				return
			}
			renterInputs, basis = req.RenterInputs, req.Basis
			if sc.kind == "refresh-full" {
				hl.renewal, _ = proto4.RefreshContractFullRollover(sc.exist.Revision, req.Prices, w.hostAddr(), req.Refresh)
			} else {
				hl.renewal, _ = proto4.RefreshContractPartialRollover(sc.exist.Revision, req.Prices, w.hostAddr(), req.Refresh)
			}
			_, hl.hostCost = proto4.RefreshCost(w.cs, req.Prices, hl.renewal, req.MinerFee)
			hl.minerFee = req.MinerFee
		}
		var inputs []types.V2SiacoinInput
		if !hl.hostCost.IsZero() {
			inputs = []types.V2SiacoinInput{{Parent: types.SiacoinElement{
				ID:            types.SiacoinOutputID(types.HashBytes([]byte{'h', sc.tag})),
				StateElement:  types.StateElement{LeafIndex: 9},
				SiacoinOutput: types.SiacoinOutput{Address: w.hostAddr(), Value: hl.hostCost},
			}, SatisfiedPolicy: types.SatisfiedPolicy{Policy: types.PolicyPublicKey(w.hpk)}}}
		}
		var set []types.V2Transaction
		st := &formSt{w: w, sc: sc, local: local, inputs: &inputs, set: &set, basis: &basis, signer: signer}
		c.applyTyped(1, st)
		sentInputs = inputs
		var m1 proto4.Object = &proto4.RPCFormContractResponse{HostInputs: inputs}
		if sc.kind == "renew" {
			m1 = &proto4.RPCRenewContractResponse{HostInputs: inputs}
		} else if renew {
			m1 = &proto4.RPCRefreshContractResponse{HostInputs: inputs}
		}
		b, cut := c.bytesOf(1, m1)
		x.send(s, b)
		if cut {
			return
		}
		// the renter's signatures
		var policies []types.SatisfiedPolicy
		var renterContractSig, renterRenewalSig types.Signature
		switch sc.kind {
		case "form":
			var rs proto4.RPCFormContractSecondResponse
			if !readRenterSig(s, x, &rs) {
				return
			}
			policies, renterContractSig = rs.RenterSatisfiedPolicies, rs.RenterContractSignature
		case "renew":
			var rs proto4.RPCRenewContractSecondResponse
			if !readRenterSig(s, x, &rs) {
				return
			}
			policies, renterContractSig, renterRenewalSig = rs.RenterSatisfiedPolicies, rs.RenterContractSignature, rs.RenterRenewalSignature
		default:
			var rs proto4.RPCRefreshContractSecondResponse
			if !readRenterSig(s, x, &rs) {
				return
			}
			policies, renterContractSig, renterRenewalSig = rs.RenterSatisfiedPolicies, rs.RenterContractSignature, rs.RenterRenewalSignature
		}
		// the finished transaction, built the way rhp4.Server builds it
		txn := types.V2Transaction{MinerFee: hl.minerFee}
		var sum types.Currency
		for i, sce := range renterInputs {
			in := types.V2SiacoinInput{Parent: sce}
			if i < len(policies) {
				in.SatisfiedPolicy = policies[i]
			}
			txn.SiacoinInputs = append(txn.SiacoinInputs, in)
		}
		for _, in := range inputs {
			sum = sum.Add(in.Parent.SiacoinOutput.Value)
			txn.SiacoinInputs = append(txn.SiacoinInputs, in)
		}
		if sum.Cmp(hl.hostCost) > 0 {
			txn.SiacoinOutputs = append(txn.SiacoinOutputs, types.SiacoinOutput{Address: w.hostAddr(), Value: sum.Sub(hl.hostCost)})
		}
		if !renew {
			fc := hl.mine
			fc.RenterSignature = renterContractSig
			fc.HostSignature = signer.SignHash(w.cs.ContractSigHash(fc))
			txn.FileContracts = []types.V2FileContract{fc}
		} else {
			rn := hl.renewal
			rn.RenterSignature, rn.NewContract.RenterSignature = renterRenewalSig, renterContractSig
			rn.HostSignature = signer.SignHash(w.cs.RenewalSigHash(rn))
			rn.NewContract.HostSignature = signer.SignHash(w.cs.ContractSigHash(rn.NewContract))
			txn.FileContractResolutions = []types.V2FileContractResolution{{
				Parent:     types.V2FileContractElement{ID: sc.exist.ID, StateElement: types.StateElement{LeafIndex: 3}, V2FileContract: sc.exist.Revision},
				Resolution: &rn,
			}}
		}
		set = []types.V2Transaction{txn}
		c.applyTyped(3, st)
		var m3 proto4.Object = &proto4.RPCFormContractThirdResponse{Basis: basis, TransactionSet: set}
		if sc.kind == "renew" {
			m3 = &proto4.RPCRenewContractThirdResponse{Basis: basis, TransactionSet: set}
		} else if renew {
			m3 = &proto4.RPCRefreshContractThirdResponse{Basis: basis, TransactionSet: set}
		}
		b, _ = c.bytesOf(3, m3)
		x.send(s, b)
	}

	var got rhp4.ContractRevision
	var gotSet rhp4.TransactionSet
	var gotCost types.Currency
	var gotUsage proto4.Usage
	var err error
	x := w.do(r, handler, func(ctx context.Context, t rhp4.TransportClient) {
		switch sc.kind {
		case "form":
			var res rhp4.RPCFormContractResult
			res, err = rhp4.RPCFormContract(ctx, t, stubPool{}, wallet, w.cs, sc.prices, w.hpk, w.hostAddr(), fp)
			got, gotSet, gotCost, gotUsage = res.Contract, res.FormationSet, res.Cost, res.Usage
		case "renew":
			var res rhp4.RPCRenewContractResult
			res, err = rhp4.RPCRenewContract(ctx, t, stubPool{}, wallet, w.cs, sc.prices, w.hostAddr(), sc.exist.Revision, rp)
			got, gotSet, gotCost, gotUsage = res.Contract, res.RenewalSet, res.Cost, res.Usage
		case "refresh-full":
			var res rhp4.RPCRefreshContractResult
			res, err = rhp4.RPCRefreshContractFullRollover(ctx, t, stubPool{}, wallet, w.cs, sc.prices, w.hostAddr(), sc.exist.Revision, xp)
			got, gotSet, gotCost, gotUsage = res.Contract, res.RenewalSet, res.Cost, res.Usage
		default:
			var res rhp4.RPCRefreshContractResult
			res, err = rhp4.RPCRefreshContractPartialRollover(ctx, t, stubPool{}, wallet, w.cs, sc.prices, w.hostAddr(), sc.exist.Revision, xp)
			got, gotSet, gotCost, gotUsage = res.Contract, res.RenewalSet, res.Cost, res.Usage
		}
	})
	r.setErr(err)

	// ---- the exchange as the client saw it, decoded by the harness ----------
	funded := sc.funds.Cmp(local.renterCost) >= 0
	rd := bytes.NewReader(x.all())
	var hostInputs []types.V2SiacoinInput
	var set []types.V2Transaction
	dec1, dec3 := false, false
	if x.Streams > 0 {
		switch sc.kind {
		case "form":
			var m proto4.RPCFormContractResponse
			dec1 = proto4.ReadResponse(rd, &m) == nil
			hostInputs = m.HostInputs
		case "renew":
			var m proto4.RPCRenewContractResponse
			dec1 = proto4.ReadResponse(rd, &m) == nil
			hostInputs = m.HostInputs
		default:
			var m proto4.RPCRefreshContractResponse
			dec1 = proto4.ReadResponse(rd, &m) == nil
			hostInputs = m.HostInputs
		}
	}
	hostSum := new(big.Int)
	for _, in := range hostInputs {
		hostSum.Add(hostSum, in.Parent.SiacoinOutput.Value.Big())
	}
	enough := hostSum.Cmp(local.hostCost.Big()) >= 0
	if dec1 && enough {
		switch sc.kind {
		case "form":
			var m proto4.RPCFormContractThirdResponse
			dec3 = proto4.ReadResponse(rd, &m) == nil
			set = m.TransactionSet
		case "renew":
			var m proto4.RPCRenewContractThirdResponse
			dec3 = proto4.ReadResponse(rd, &m) == nil
			set = m.TransactionSet
		default:
			var m proto4.RPCRefreshContractThirdResponse
			dec3 = proto4.ReadResponse(rd, &m) == nil
			set = m.TransactionSet
		}
	}
	nitems, isRenewal, idEq, csigOK, rsigOK := 0, false, false, false, false
	var hostContract *types.V2FileContract
	if dec3 && len(set) > 0 {
		last := set[len(set)-1]
		if !renew {
			nitems = len(last.FileContracts)
			if nitems == 1 {
				hostContract = &last.FileContracts[0]
				// the renter's own transaction: its inputs, the host inputs it was sent, the host's change
				mineTxn := types.V2Transaction{MinerFee: fee, FileContracts: []types.V2FileContract{local.mine}}
				mineTxn.SiacoinInputs = append(mineTxn.SiacoinInputs, types.V2SiacoinInput{Parent: types.SiacoinElement{ID: types.SiacoinOutputID(types.HashBytes([]byte{'u', 1}))}})
				for _, in := range hostInputs {
					mineTxn.SiacoinInputs = append(mineTxn.SiacoinInputs, in)
				}
				if hostSum.Cmp(local.hostCost.Big()) > 0 {
					var s types.Currency
					for _, in := range hostInputs {
						s = s.Add(in.Parent.SiacoinOutput.Value)
					}
					mineTxn.SiacoinOutputs = []types.SiacoinOutput{{Address: w.hostAddr(), Value: s.Sub(local.hostCost)}}
				}
				idEq = mineTxn.ID() == last.ID()
			}
		} else {
			nitems = len(last.FileContractResolutions)
			if nitems == 1 {
				if rn, ok := last.FileContractResolutions[0].Resolution.(*types.V2FileContractRenewal); ok {
					isRenewal = true
					hostContract = &rn.NewContract
					rsigOK = w.hpk.VerifyHash(w.cs.RenewalSigHash(local.renewal), rn.HostSignature)
				}
			}
		}
		if hostContract != nil {
			csigOK = w.hpk.VerifyHash(w.cs.ContractSigHash(local.mine), hostContract.HostSignature)
		}
	}

	// ---- ground truth -------------------------------------------------------
	same, hsig := 0, 0
	if r.ok {
		a, b := got.Revision, local.mine
		a.RenterSignature, a.HostSignature = types.Signature{}, types.Signature{}
		if a == b {
			same = 1
		} else {
			r.fail("returned-contract-not-the-signed-contract", "%s returned success with a contract that is not the one the renter built and signed: %s", sc.kind, contractDiff(b, a))
		}
		h := w.cs.ContractSigHash(got.Revision)
		if w.hpk.VerifyHash(h, got.Revision.HostSignature) {
			hsig = 1
		} else {
			r.fail("returned-contract-without-valid-host-signature", "%s returned success with a contract whose HostSignature does not verify over that contract under the host key", sc.kind)
		}
		if !w.rk.PublicKey().VerifyHash(h, got.Revision.RenterSignature) {
			r.fail("returned-contract-without-valid-renter-signature", "%s returned a contract whose RenterSignature does not verify over it", sc.kind)
		}
		if gotCost != local.renterCost || gotUsage != local.usage {
			r.fail("returned-cost-not-price-table", "%s returned cost %v usage %+v, locally computed %v %+v", sc.kind, gotCost, gotUsage, local.renterCost, local.usage)
		}
		wantID := sc.exist.ID.V2RenewalID()
		if !renew && len(gotSet.Transactions) > 0 {
			t := gotSet.Transactions[len(gotSet.Transactions)-1]
			wantID = t.V2FileContractID(t.ID(), 0)
		}
		if got.ID != wantID {
			r.fail("returned-contract-id-wrong", "%s returned contract id %v, expected %v", sc.kind, got.ID, wantID)
		}
		if renew && len(gotSet.Transactions) > 0 {
			t := gotSet.Transactions[len(gotSet.Transactions)-1]
			if len(t.FileContractResolutions) == 1 {
				if rn, ok := t.FileContractResolutions[0].Resolution.(*types.V2FileContractRenewal); ok {
					u, v := *rn, local.renewal
					u.RenterSignature, u.HostSignature, u.NewContract.RenterSignature, u.NewContract.HostSignature = types.Signature{}, types.Signature{}, types.Signature{}, types.Signature{}
					if !w.hpk.VerifyHash(w.cs.RenewalSigHash(local.renewal), rn.HostSignature) {
						r.fail("returned-renewal-without-valid-host-signature", "%s returned success although the renewal in the returned transaction set carries no valid host signature over the renewal the renter built", sc.kind)
					}
					if u != v {
						r.extra = map[string]any{"observation2": "the returned renewal transaction does not contain the renewal the renter signed (the client does not compare it)"}
					}
				}
			}
		}
	}
	_ = sentInputs
	obs := "OErr"
	if r.ok {
		obs = fmt.Sprintf("(OOk [%s; %d; %d])", gotCost.Big(), same, hsig)
	}
	kind := 0
	if renew {
		kind = 1
	}
	r.coq = fmt.Sprintf("CForm %d %s %s %s %s %s %d %d %s %s %s %s %s %s", kind, coqBool(funded), coqBool(dec1), hostSum, local.hostCost.Big(), coqBool(dec3),
		len(set), nitems, coqBool(isRenewal), coqBool(idEq), coqBool(rsigOK), coqBool(csigOK), local.renterCost.Big(), obs)
	r.nontrivial = x.Streams > 0 && (!c.honest() || sc.fgn != "")
	return r
}

func contractDiff(want, got types.V2FileContract) string {
	var d []string
	add := func(n string, a, b any) {
		if fmt.Sprint(a) != fmt.Sprint(b) {
			d = append(d, fmt.Sprintf("%s %v (agreed %v)", n, b, a))
		}
	}
	add("renter payout", want.RenterOutput.Value, got.RenterOutput.Value)
	add("host payout", want.HostOutput.Value, got.HostOutput.Value)
	add("missed host value", want.MissedHostValue, got.MissedHostValue)
	add("total collateral", want.TotalCollateral, got.TotalCollateral)
	add("proof height", want.ProofHeight, got.ProofHeight)
	add("expiration height", want.ExpirationHeight, got.ExpirationHeight)
	add("filesize", want.Filesize, got.Filesize)
	add("capacity", want.Capacity, got.Capacity)
	add("root", want.FileMerkleRoot, got.FileMerkleRoot)
	add("host key", want.HostPublicKey, got.HostPublicKey)
	add("renter key", want.RenterPublicKey, got.RenterPublicKey)
	add("revision number", want.RevisionNumber, got.RevisionNumber)
	add("renter address", want.RenterOutput.Address, got.RenterOutput.Address)
	add("host address", want.HostOutput.Address, got.HostOutput.Address)
	return strings.Join(d, ", ")
}
