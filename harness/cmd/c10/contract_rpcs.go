package main

// The revising RPCs: RPCSectorRoots, RPCAppendSectors, RPCFreeSectors,
// RPCFundAccounts, RPCReplenishAccounts; and the pass-through RPCs
// RPCLatestRevision and RPCSettings.

import (
	"bytes"
	"context"
	"fmt"
	"math/big"
	"net"
	"slices"
	"strings"

	proto4 "go.sia.tech/core/rhp/v4"
	"go.sia.tech/core/types"
	rhp4 "go.sia.tech/coreutils/rhp/v4"
)

var rich = types.Siacoins(1000)

// checkRevision is the ground-truth monitor shared by the revising RPCs: the
// returned revision carries valid signatures, charges exactly cost, risks
// exactly collateral, and leaves everything else alone.
func (w *world) checkRevision(r *result, old, got types.V2FileContract, usage proto4.Usage, cost, collateral *big.Int, wantRoot types.Hash256, wantFS, wantCap uint64, bump uint64) {
	h := w.cs.ContractSigHash(got)
	if !w.hpk.VerifyHash(h, got.HostSignature) {
		r.fail("returned-revision-without-valid-host-signature", "the %s RPC returned success with a revision (number %d) whose HostSignature does not verify under the host key", r.rpc, got.RevisionNumber)
	}
	if !w.rk.PublicKey().VerifyHash(h, got.RenterSignature) {
		r.fail("returned-revision-without-valid-renter-signature", "the %s RPC returned a revision whose RenterSignature does not verify", r.rpc)
	}
	paid := new(big.Int).Sub(old.RenterOutput.Value.Big(), got.RenterOutput.Value.Big())
	gained := new(big.Int).Sub(got.HostOutput.Value.Big(), old.HostOutput.Value.Big())
	if paid.Cmp(cost) != 0 || gained.Cmp(cost) != 0 {
		r.fail("returned-revision-charges-other-than-price-table", "the %s RPC returned a revision that moves %v from the renter and %v to the host; the locally computed cost is %v", r.rpc, paid, gained, cost)
	}
	if risked := new(big.Int).Sub(old.MissedHostValue.Big(), got.MissedHostValue.Big()); risked.Cmp(collateral) != 0 {
		r.fail("returned-revision-risks-other-collateral", "the %s RPC returned a revision that lowers MissedHostValue by %v; the locally computed risked collateral is %v", r.rpc, risked, collateral)
	}
	if usage.RenterCost().Big().Cmp(cost) != 0 || usage.RiskedCollateral.Big().Cmp(collateral) != 0 {
		r.fail("returned-usage-not-price-table", "the %s RPC returned usage %+v; locally computed cost %v, collateral %v", r.rpc, usage, cost, collateral)
	}
	if got.RevisionNumber != old.RevisionNumber+bump {
		r.fail("returned-revision-number-wrong", "revision number %d after %d", got.RevisionNumber, old.RevisionNumber)
	}
	if got.FileMerkleRoot != wantRoot || got.Filesize != wantFS || got.Capacity != wantCap {
		r.fail(r.rpc+"-revision-not-the-requested-change", "the %s RPC returned success with a revision (root %v, filesize %d, capacity %d) that is not the requested operation applied to the previous contract (root %v, filesize %d, capacity %d)", r.rpc, got.FileMerkleRoot, got.Filesize, got.Capacity, wantRoot, wantFS, wantCap)
	}
	a, b := old, got
	for _, fc := range []*types.V2FileContract{&a, &b} {
		fc.RevisionNumber, fc.FileMerkleRoot, fc.Filesize, fc.Capacity = 0, types.Hash256{}, 0, 0
		fc.RenterOutput.Value, fc.HostOutput.Value, fc.MissedHostValue = types.ZeroCurrency, types.ZeroCurrency, types.ZeroCurrency
		fc.RenterSignature, fc.HostSignature = types.Signature{}, types.Signature{}
	}
	if a != b {
		r.fail("returned-revision-changes-foreign-fields", "the %s RPC returned a revision that differs from the previous one in a field no RPC may touch", r.rpc)
	}
}

func revObs(w *world, fc types.V2FileContract, u proto4.Usage, extra ...uint64) string {
	xs := make([]string, len(extra))
	for i, v := range extra {
		xs[i] = fmt.Sprint(v)
	}
	return fmt.Sprintf("(OOkRev %s %s [%s])", w.nview(fc), usageNums(u), strings.Join(xs, "; "))
}

func guard(f func() bool) (ok bool, panicked any) {
	defer func() {
		if r := recover(); r != nil {
			ok, panicked = false, r
		}
	}()
	return f(), nil
}

// ---------------------------------------------------------------- roots ----

type rootsScen struct {
	name           string
	contract       rhp4.ContractRevision
	roots          []types.Hash256
	other          rhp4.ContractRevision
	otherRoots     []types.Hash256
	offset, length uint64
	prices         proto4.HostPrices
	auth           bool
	full           bool
	fgn            foreign
	answers        bool // illegal request: the host answers it as if it were fine
}

type rootsSt struct {
	sc   *rootsScen
	req  *proto4.RPCSectorRootsRequest
	resp *proto4.RPCSectorRootsResponse
	sig  *sigSt
}

func (w *world) rootsScenarios() []rootsScen {
	mk := func(name string, tag byte, n int, funds types.Currency, off, l uint64, full bool) rootsScen {
		c, roots := w.contract(tag, n, 0, funds)
		o, oroots := w.contract(tag+100, max(n, 4), 0, rich)
		return rootsScen{name: name, contract: c, roots: roots, other: o, otherRoots: oroots, offset: off, length: l, prices: w.prices, auth: true, full: full}
	}
	s := []rootsScen{
		mk("six-sectors-middle-3", 1, 6, rich, 2, 3, true),
		mk("six-sectors-all", 2, 6, rich, 0, 6, false),
		mk("six-sectors-last", 3, 6, rich, 5, 1, false),
		mk("one-sector", 4, 1, rich, 0, 1, true),
		mk("seven-sectors-first-2", 5, 7, rich, 0, 2, false),
		mk("invalid-beyond-contract", 6, 6, rich, 4, 3, false),
		mk("invalid-zero-length", 7, 6, rich, 1, 0, false),
		mk("invalid-empty-contract", 8, 0, rich, 0, 1, false),
		mk("insufficient-funds", 9, 6, types.NewCurrency64(10), 0, 2, false),
	}
	e := mk("expired-prices", 10, 6, rich, 0, 2, false)
	e.prices, e.auth = w.badPrices, false
	s = append(s, e)
	for i, f := range []foreign{"a", "b", "c", "d"} {
		sc := mk(foreignNames[f], 11+byte(i), 6, rich, 2, 3, false)
		sc.fgn, sc.prices = f, w.fPrices(f)
		sc.auth = w.pricesByContractHost(sc.prices)
		s = append(s, sc)
	}
	for i, ps := range priceSpread {
		sc := mk(ps.name, 180+byte(i), 6, rich, 1, 3, false)
		sc.prices = w.pricesWith(ps.v)
		s = append(s, sc)
	}
	cost := w.prices.RPCSectorRootsCost(3).RenterCost()
	s = append(s, mk("funds-exactly-the-cost", 184, 6, cost, 1, 3, false), mk("funds-one-hasting-short", 185, 6, cost.Sub(types.NewCurrency64(1)), 1, 3, false))
	for i, n := range []int{15, 16, 17} {
		s = append(s, mk(fmt.Sprintf("sectors-%d-range-across-subtrees", n), 186+byte(i), n, rich, 7, 8, false))
	}
	// illegal ranges against a host that answers as if the request were fine (the
	// invalid-* scenarios above are the same requests against a host that rejects them)
	for i, q := range []struct {
		n      string
		secs   int
		off, l uint64
	}{
		{"empty-contract-1-root", 0, 0, 1}, {"empty-contract-3-roots", 0, 0, 3}, {"empty-contract-offset-2", 0, 2, 2},
		{"empty-contract-zero-length", 0, 0, 0},
		{"beyond-contract", 6, 4, 3}, {"starts-at-end", 6, 6, 1}, {"starts-beyond-end", 6, 7, 1}, {"one-more-than-all", 6, 0, 7},
		{"zero-length", 6, 1, 0}, {"zero-length-at-end", 6, 6, 0}, {"huge-offset", 6, 1 << 62, 1}, {"huge-length", 6, 0, 1 << 62},
	} {
		sc := mk("illegal-answered/"+q.n, 150+byte(i), q.secs, rich, q.off, q.l, false)
		sc.answers = true
		s = append(s, sc)
	}
	// more roots than one batch may carry, from a contract that is large enough
	big := mk("illegal-answered/oversized-batch", 170, 4, rich, 0, proto4.MaxSectorBatchSize+1, false)
	big.contract.Revision.Filesize = (proto4.MaxSectorBatchSize + 10) * sectorSize
	big.contract.Revision.Capacity = big.contract.Revision.Filesize
	w.sign(&big.contract.Revision)
	big.answers = true
	s = append(s, big)
	return s
}

func (sc *rootsScen) valid() bool {
	n := sc.contract.Revision.Filesize / sectorSize
	return sc.auth && sc.length > 0 && sc.offset <= n && sc.length <= n-sc.offset
}

func (w *world) rootsCorrs(sc *rootsScen) []corr {
	if sc.answers {
		return []corr{
			{name: "host-answers/arbitrary-roots-empty-proof", msg: 9, typed: func(any) {}},
			{name: "host-answers/available-roots-and-their-proof", msg: 9, typed: func(any) {}},
		}
	}
	if !sc.valid() || sc.fgn != "" {
		return []corr{honestCorr}
	}
	cs := []corr{honestCorr}
	add := func(name string, f func(st *rootsSt)) {
		cs = append(cs, corr{name: "msg1/" + name, msg: 1, typed: func(st any) { f(st.(*rootsSt)) }})
	}
	n := uint64(len(sc.roots))
	if sc.length < n {
		otherOff := (sc.offset + 1) % (n - sc.length + 1)
		add("roots-and-proof-of-another-range", func(st *rootsSt) {
			st.resp.Roots = cloneHashes(sc.roots[otherOff : otherOff+sc.length])
			st.resp.Proof = proto4.BuildSectorRootsProof(sc.roots, otherOff, otherOff+sc.length)
		})
		add("proof-of-another-range", func(st *rootsSt) {
			st.resp.Proof = proto4.BuildSectorRootsProof(sc.roots, otherOff, otherOff+sc.length)
		})
		add("roots-of-another-range", func(st *rootsSt) {
			st.resp.Roots = cloneHashes(sc.roots[otherOff : otherOff+sc.length])
		})
		add("longer-range-with-its-valid-proof", func(st *rootsSt) {
			o := min(sc.offset, n-sc.length-1)
			st.resp.Roots = cloneHashes(sc.roots[o : o+sc.length+1])
			st.resp.Proof = proto4.BuildSectorRootsProof(sc.roots, o, o+sc.length+1)
		})
	}
	if sc.length > 1 {
		add("shorter-range-with-its-valid-proof", func(st *rootsSt) {
			st.resp.Roots = cloneHashes(sc.roots[sc.offset : sc.offset+sc.length-1])
			st.resp.Proof = proto4.BuildSectorRootsProof(sc.roots, sc.offset, sc.offset+sc.length-1)
		})
	}
	add("roots-and-proof-of-another-contract", func(st *rootsSt) {
		st.resp.Roots = cloneHashes(sc.otherRoots[sc.offset : sc.offset+sc.length])
		st.resp.Proof = proto4.BuildSectorRootsProof(sc.otherRoots, sc.offset, sc.offset+sc.length)
	})
	pl := len(proto4.BuildSectorRootsProof(sc.roots, sc.offset, sc.offset+sc.length))
	if sc.full {
		cs = append(cs, hashListCorrs(1, "proof", pl,
			func(st any) *[]types.Hash256 { return &st.(*rootsSt).resp.Proof },
			func(st any) []types.Hash256 {
				return proto4.BuildSectorRootsProof(sc.otherRoots, sc.offset, sc.offset+sc.length)
			})...)
		cs = append(cs, hashListCorrs(1, "roots", int(sc.length),
			func(st any) *[]types.Hash256 { return &st.(*rootsSt).resp.Roots },
			func(st any) []types.Hash256 { return sc.otherRoots[sc.offset : sc.offset+sc.length] })...)
		cs = append(cs, sigCorrs(1, func(st any) *sigSt { return st.(*rootsSt).sig })...)
		cs = append(cs, rawCorrs(1)...)
	} else {
		cs = append(cs, hashListCorrs(1, "roots", 1,
			func(st any) *[]types.Hash256 { return &st.(*rootsSt).resp.Roots }, nil)...)
		cs = append(cs, sigCorrs(1, func(st any) *sigSt { return st.(*rootsSt).sig })[:6]...)
		cs = append(cs, rawCorrs(1)[:5]...)
	}
	return cs
}

func (w *world) runRoots(sc *rootsScen, c corr) *result {
	r := &result{rpc: "roots", scen: sc.name, corr: c.name, peer: w.fPeer(sc.fgn)}
	var res rhp4.RPCSectorRootsResult
	var err error
	old := sc.contract.Revision
	handler := func(s net.Conn, x *xchg) {
		var req proto4.RPCSectorRootsRequest
		if !readReq(s, x, proto4.RPCSectorRootsID, &req) {
			return
		}
		local, _, e := proto4.ReviseForSectorRoots(old, req.Prices, req.Length)
		if sc.answers && e == nil {
			// a host that does not reject the illegal range: the right number of roots, a
			// proof as good as can be had, and a valid signature over the renter's revision
			n := uint64(len(sc.roots))
			resp := proto4.RPCSectorRootsResponse{HostSignature: w.hk.SignHash(w.cs.ContractSigHash(local))}
			for i := uint64(0); i < min(req.Length, proto4.MaxSectorBatchSize+1); i++ {
				if j := req.Offset + i; j >= req.Offset && j < n && c.name != "host-answers/arbitrary-roots-empty-proof" {
					resp.Roots = append(resp.Roots, sc.roots[j])
				} else {
					resp.Roots = append(resp.Roots, types.HashBytes([]byte{'x', byte(i), byte(i >> 8)}))
				}
			}
			if c.name != "host-answers/arbitrary-roots-empty-proof" && req.Offset < n {
				resp.Proof = proto4.BuildSectorRootsProof(sc.roots, req.Offset, min(n, max(req.Offset+1, req.Offset+req.Length)))
			}
			x.send(s, encode(&resp))
			return
		}
		if e != nil || req.Offset+req.Length > uint64(len(sc.roots)) {
			x.note("host cannot serve: %v", e)
			x.send(s, encode(&proto4.RPCError{Code: proto4.ErrorCodeBadRequest, Description: "no"}))
			return
		}
		resp := proto4.RPCSectorRootsResponse{
			Proof:         proto4.BuildSectorRootsProof(sc.roots, req.Offset, req.Offset+req.Length),
			Roots:         cloneHashes(sc.roots[req.Offset : req.Offset+req.Length]),
			HostSignature: w.fSigner(sc.fgn).SignHash(w.cs.ContractSigHash(local)),
		}
		st := &rootsSt{sc: sc, req: &req, resp: &resp}
		st.sig = &sigSt{w: w, sig: &resp.HostSignature, local: local, prev: old, other: sc.other.Revision, renterSig: req.RenterSignature}
		c.applyTyped(1, st)
		b, _ := c.bytesOf(1, &resp)
		x.send(s, b)
	}
	x := w.do(r, handler, func(ctx context.Context, t rhp4.TransportClient) {
		res, err = rhp4.RPCSectorRoots(ctx, t, w.cs, sc.prices, w.rk, sc.contract, sc.offset, sc.length)
	})
	r.setErr(err)
	var resp proto4.RPCSectorRootsResponse
	dec := x.Streams > 0 && proto4.ReadResponse(bytes.NewReader(x.all()), &resp) == nil
	local, usage, rerr := proto4.ReviseForSectorRoots(old, sc.prices, sc.length)
	numSectors := (old.Filesize + sectorSize - 1) / sectorSize
	proofOK, sigOK := false, false
	if dec && rerr == nil {
		if uint64(len(resp.Roots)) == sc.length && sc.valid() {
			proofOK, _ = guard(func() bool {
				return proto4.VerifySectorRootsProof(resp.Proof, resp.Roots, numSectors, sc.offset, sc.offset+sc.length, old.FileMerkleRoot)
			})
		}
		sigOK = w.hpk.VerifyHash(w.cs.ContractSigHash(local), resp.HostSignature)
	}
	obs := "OErr"
	if r.ok {
		obs = revObs(w, res.Revision, res.Usage, uint64(len(res.Roots)))
		rv := res.Revision
		r.rev = &rv
		inRange := sc.length > 0 && sc.offset <= uint64(len(sc.roots)) && sc.length <= uint64(len(sc.roots))-sc.offset
		if !inRange || !slices.Equal(res.Roots, sc.roots[sc.offset:sc.offset+sc.length]) {
			r.fail("roots-returns-foreign-roots", "RPCSectorRoots(offset=%d,length=%d) returned success with %d roots that are not the contract's roots [%d,%d)", sc.offset, sc.length, len(res.Roots), sc.offset, sc.offset+sc.length)
		}
		cost := mulU(bi(sc.prices.EgressPrice), round4k(32*sc.length))
		w.checkRevision(r, old, res.Revision, res.Usage, cost, big.NewInt(0), old.FileMerkleRoot, old.Filesize, old.Capacity, 1)
	}
	_ = usage
	r.coq = fmt.Sprintf("CRoots %s %s %s %d %d %s %d %s %s %s", w.nview(old), w.nprices(sc.prices), coqBool(sc.auth), sc.offset, sc.length,
		coqBool(dec), len(resp.Roots), coqBool(proofOK), coqBool(sigOK), obs)
	r.nontrivial = x.Streams > 0 && (!c.honest() || sc.fgn != "")
	return r
}

// --------------------------------------------------------------- append ----

type appendScen struct {
	name       string
	contract   rhp4.ContractRevision
	roots      []types.Hash256
	other      rhp4.ContractRevision
	otherRoots []types.Hash256
	add        []types.Hash256
	accept     []bool // the host's honest decision
	prices     proto4.HostPrices
	full       bool
	fgn        foreign
}

type appendSt struct {
	sc   *appendScen
	req  *proto4.RPCAppendSectorsRequest
	resp *proto4.RPCAppendSectorsResponse
	sig  *sigSt
}

func newRoots(tag byte, k int) []types.Hash256 {
	out := make([]types.Hash256, k)
	for i := range out {
		out[i] = types.HashBytes([]byte{'n', tag, byte(i)})
	}
	return out
}

func pick(roots []types.Hash256, accept []bool) (out []types.Hash256) {
	for i, a := range accept {
		if a && i < len(roots) {
			out = append(out, roots[i])
		}
	}
	return
}

func (w *world) appendScenarios() []appendScen {
	mk := func(name string, tag byte, n int, spare uint64, funds types.Currency, k int, accept []bool, full bool) appendScen {
		c, roots := w.contract(tag, n, spare, funds)
		o, oroots := w.contract(tag+100, n+1, 0, rich)
		if accept == nil {
			accept = slices.Repeat([]bool{true}, k)
		}
		return appendScen{name: name, contract: c, roots: roots, other: o, otherRoots: oroots, add: newRoots(tag, k), accept: accept, prices: w.prices, full: full}
	}
	s := []appendScen{
		mk("five-plus-three", 20, 5, 0, rich, 3, nil, true),
		mk("empty-plus-two", 21, 0, 0, rich, 2, nil, true),
		mk("eight-plus-one", 22, 8, 0, rich, 1, nil, false),
		mk("five-plus-three-host-accepts-first-and-last", 23, 5, 0, rich, 3, []bool{true, false, true}, true),
		mk("three-plus-two-host-accepts-none", 24, 3, 0, rich, 2, []bool{false, false}, false),
		mk("six-plus-two-within-spare-capacity", 25, 6, 5, rich, 2, nil, false),
		mk("six-plus-three-partly-within-capacity", 26, 6, 1, rich, 3, nil, false),
		mk("insufficient-funds", 27, 5, 0, types.NewCurrency64(1000), 2, nil, false),
		mk("no-sectors-requested", 28, 4, 0, rich, 0, nil, false),
	}
	for i, ps := range priceSpread {
		sc := mk(ps.name, 190+byte(i), 5, 0, rich, 3, nil, false)
		sc.prices = w.pricesWith(ps.v)
		s = append(s, sc)
	}
	acost := w.prices.RPCAppendSectorsCost(2, 1144-w.prices.TipHeight).RenterCost()
	s = append(s, mk("funds-exactly-the-cost", 194, 5, 0, acost, 2, nil, false), mk("funds-one-hasting-short", 195, 5, 0, acost.Sub(types.NewCurrency64(1)), 2, nil, false),
		mk("exactly-fills-spare-capacity", 196, 6, 2, rich, 2, nil, false))
	for i, n := range []int{15, 16, 17} {
		s = append(s, mk(fmt.Sprintf("sectors-%d-plus-two", n), 197+byte(i), n, 0, rich, 2, nil, false))
	}
	for i, f := range []foreign{"a", "b", "c", "d"} {
		sc := mk(foreignNames[f], 29+byte(i), 5, 0, rich, 3, nil, false)
		sc.fgn, sc.prices = f, w.fPrices(f)
		s = append(s, sc)
	}
	return s
}

func (w *world) appendCorrs(sc *appendScen) []corr {
	cs := []corr{honestCorr}
	if sc.fgn != "" {
		return cs
	}
	add := func(name string, f func(st *appendSt)) {
		cs = append(cs, corr{name: "msg1/" + name, msg: 1, typed: func(st any) { f(st.(*appendSt)) }})
	}
	setRoot := func(name string, f func(st *appendSt) types.Hash256) {
		add("newroot-"+name, func(st *appendSt) { st.resp.NewMerkleRoot = f(st) })
	}
	// Accepted
	add("accepted-drop-last", func(st *appendSt) {
		if len(st.resp.Accepted) > 0 {
			st.resp.Accepted = st.resp.Accepted[:len(st.resp.Accepted)-1]
		}
	})
	add("accepted-extended-true", func(st *appendSt) { st.resp.Accepted = append(slices.Clone(st.resp.Accepted), true) })
	add("accepted-extended-false", func(st *appendSt) { st.resp.Accepted = append(slices.Clone(st.resp.Accepted), false) })
	add("accepted-empty", func(st *appendSt) { st.resp.Accepted = nil })
	if len(sc.add) > 0 {
		add("accepted-flip-first", func(st *appendSt) {
			st.resp.Accepted = slices.Clone(st.resp.Accepted)
			st.resp.Accepted[0] = !st.resp.Accepted[0]
		})
		add("accepted-flip-last", func(st *appendSt) {
			st.resp.Accepted = slices.Clone(st.resp.Accepted)
			st.resp.Accepted[len(st.resp.Accepted)-1] = !st.resp.Accepted[len(st.resp.Accepted)-1]
		})
		add("accepted-all-flipped", func(st *appendSt) {
			st.resp.Accepted = slices.Clone(st.resp.Accepted)
			for i := range st.resp.Accepted {
				st.resp.Accepted[i] = !st.resp.Accepted[i]
			}
		})
	}
	// NewMerkleRoot
	setRoot("flip-bit", func(st *appendSt) types.Hash256 { return flipHash(st.resp.NewMerkleRoot, 77) })
	setRoot("zero", func(st *appendSt) types.Hash256 { return types.Hash256{} })
	setRoot("unchanged-old-root", func(st *appendSt) types.Hash256 { return sc.contract.Revision.FileMerkleRoot })
	setRoot("of-all-requested-sectors", func(st *appendSt) types.Hash256 {
		return proto4.MetaRoot(append(cloneHashes(sc.roots), st.req.Sectors...))
	})
	setRoot("without-last-appended", func(st *appendSt) types.Hash256 {
		a := pick(st.req.Sectors, sc.accept)
		if len(a) > 0 {
			a = a[:len(a)-1]
		}
		return proto4.MetaRoot(append(cloneHashes(sc.roots), a...))
	})
	setRoot("appended-in-reverse-order", func(st *appendSt) types.Hash256 {
		a := pick(st.req.Sectors, sc.accept)
		slices.Reverse(a)
		return proto4.MetaRoot(append(cloneHashes(sc.roots), a...))
	})
	setRoot("appending-other-sectors", func(st *appendSt) types.Hash256 {
		return proto4.MetaRoot(append(cloneHashes(sc.roots), newRoots(99, len(pick(st.req.Sectors, sc.accept)))...))
	})
	setRoot("prepended-instead-of-appended", func(st *appendSt) types.Hash256 {
		return proto4.MetaRoot(append(pick(st.req.Sectors, sc.accept), sc.roots...))
	})
	setRoot("of-another-contract", func(st *appendSt) types.Hash256 { return sc.other.Revision.FileMerkleRoot })
	add("proof-and-root-over-another-contract", func(st *appendSt) {
		st.resp.SubtreeRoots, st.resp.NewMerkleRoot = proto4.BuildAppendProof(sc.otherRoots, pick(st.req.Sectors, sc.accept))
	})
	add("proof-and-root-over-roots-with-one-replaced", func(st *appendSt) {
		if len(sc.roots) == 0 {
			return
		}
		rs := cloneHashes(sc.roots)
		rs[0] = flipHash(rs[0], 1)
		st.resp.SubtreeRoots, st.resp.NewMerkleRoot = proto4.BuildAppendProof(rs, pick(st.req.Sectors, sc.accept))
	})
	sl, _ := proto4.BuildAppendProof(sc.roots, nil)
	nsub := len(sl)
	if !sc.full {
		nsub = min(nsub, 1)
	}
	cs = append(cs, hashListCorrs(1, "subtreeroots", nsub,
		func(st any) *[]types.Hash256 { return &st.(*appendSt).resp.SubtreeRoots },
		func(st any) []types.Hash256 { p, _ := proto4.BuildAppendProof(sc.otherRoots, nil); return p })...)
	sg := sigCorrs(3, func(st any) *sigSt { return st.(*appendSt).sig })
	r1, r3 := rawCorrs(1), rawCorrs(3)
	if !sc.full {
		sg, r1, r3 = sg[:6], r1[:5], r3[:5]
	}
	cs = append(cs, r1...)
	cs = append(cs, sg...)
	return append(cs, r3...)
}

func (w *world) runAppend(sc *appendScen, c corr) *result {
	r := &result{rpc: "append", scen: sc.name, corr: c.name, peer: w.fPeer(sc.fgn)}
	var res rhp4.RPCAppendSectorsResult
	var err error
	old := sc.contract.Revision
	handler := func(s net.Conn, x *xchg) {
		var req proto4.RPCAppendSectorsRequest
		if !readReq(s, x, proto4.RPCAppendSectorsID, &req) {
			return
		}
		appended := pick(req.Sectors, sc.accept)
		resp := proto4.RPCAppendSectorsResponse{Accepted: slices.Clone(sc.accept)}
		resp.SubtreeRoots, resp.NewMerkleRoot = proto4.BuildAppendProof(sc.roots, appended)
		st := &appendSt{sc: sc, req: &req, resp: &resp}
		c.applyTyped(1, st)
		b, cut := c.bytesOf(1, &resp)
		x.send(s, b)
		if cut {
			return
		}
		var rs proto4.RPCAppendSectorsSecondResponse
		if !readRenterSig(s, x, &rs) {
			return
		}
		// sign what the renter computed from the response as sent
		local, _, e := proto4.ReviseForAppendSectors(old, req.Prices, resp.NewMerkleRoot, uint64(len(pick(req.Sectors, resp.Accepted))))
		if e != nil {
			x.note("revise: %v", e)
		}
		sig := proto4.RPCAppendSectorsThirdResponse{HostSignature: w.fSigner(sc.fgn).SignHash(w.cs.ContractSigHash(local))}
		st.sig = &sigSt{w: w, sig: &sig.HostSignature, local: local, prev: old, other: sc.other.Revision, renterSig: rs.RenterSignature}
		c.applyTyped(3, st)
		b, _ = c.bytesOf(3, &sig)
		x.send(s, b)
	}
	x := w.do(r, handler, func(ctx context.Context, t rhp4.TransportClient) {
		res, err = rhp4.RPCAppendSectors(ctx, t, w.rk, w.cs, sc.prices, sc.contract, sc.add)
	})
	r.setErr(err)

	rd := bytes.NewReader(x.all())
	var resp proto4.RPCAppendSectorsResponse
	var sig proto4.RPCAppendSectorsThirdResponse
	dec1 := x.Streams > 0 && proto4.ReadResponse(rd, &resp) == nil
	numSectors := (old.Filesize + sectorSize - 1) / sectorSize
	appended := pick(sc.add, resp.Accepted)
	proofOK, dec3, sigOK := false, false, false
	if dec1 && len(resp.Accepted) == len(sc.add) {
		proofOK = proto4.VerifyAppendSectorsProof(numSectors, resp.SubtreeRoots, appended, old.FileMerkleRoot, resp.NewMerkleRoot)
		local, _, rerr := proto4.ReviseForAppendSectors(old, sc.prices, resp.NewMerkleRoot, uint64(len(appended)))
		dec3 = proto4.ReadResponse(rd, &sig) == nil
		sigOK = dec3 && rerr == nil && w.hpk.VerifyHash(w.cs.ContractSigHash(local), sig.HostSignature)
	}
	obs := "OErr"
	if r.ok {
		obs = revObs(w, res.Revision, res.Usage, uint64(len(res.Sectors)))
		rv := res.Revision
		r.rev, r.secs = &rv, res.Sectors
		if !slices.Equal(res.Sectors, appended) || len(resp.Accepted) != len(sc.add) {
			r.fail("append-returns-foreign-sector-list", "RPCAppendSectors returned %d sectors that are not the requested sectors the host marked accepted", len(res.Sectors))
		}
		k := uint64(len(res.Sectors))
		growth := k - min(k, (old.Capacity-old.Filesize)/sectorSize)
		dur := old.ExpirationHeight - sc.prices.TipHeight
		cost := new(big.Int).Add(mulU(bi(sc.prices.StoragePrice), sectorSize, growth, dur), mulU(bi(sc.prices.IngressPrice), round4k(32*growth)))
		coll := mulU(bi(sc.prices.Collateral), sectorSize, growth, dur)
		wantRoot := proto4.MetaRoot(append(cloneHashes(sc.roots), res.Sectors...))
		w.checkRevision(r, old, res.Revision, res.Usage, cost, coll, wantRoot, old.Filesize+k*sectorSize, old.Capacity+growth*sectorSize, 1)
	}
	ntrue := 0
	for i, a := range resp.Accepted {
		if a && i < len(sc.add) {
			ntrue++
		}
	}
	r.coq = fmt.Sprintf("CAppend %s %s %d %s %d %d %d %s %s %s %s", w.nview(old), w.nprices(sc.prices), len(sc.add), coqBool(dec1), len(resp.Accepted), ntrue,
		w.id(resp.NewMerkleRoot), coqBool(proofOK), coqBool(dec3), coqBool(sigOK), obs)
	r.nontrivial = x.Streams > 0 && (!c.honest() || sc.fgn != "")
	return r
}

// ----------------------------------------------------------------- free ----

type freeScen struct {
	name       string
	contract   rhp4.ContractRevision
	roots      []types.Hash256
	other      rhp4.ContractRevision
	otherRoots []types.Hash256
	idx        []uint64
	prices     proto4.HostPrices
	full       bool
	fgn        foreign
}

type freeSt struct {
	sc   *freeScen
	req  *proto4.RPCFreeSectorsRequest
	resp *proto4.RPCFreeSectorsResponse
	sig  *sigSt
}

func normalize(idx []uint64) []uint64 {
	out := slices.Clone(idx)
	slices.Sort(out)
	out = slices.Compact(out)
	slices.Reverse(out)
	return out
}

func (sc *freeScen) inRange() bool {
	for _, i := range sc.idx {
		if i >= uint64(len(sc.roots)) {
			return false
		}
	}
	return true
}

func (w *world) freeScenarios() []freeScen {
	mk := func(name string, tag byte, n int, funds types.Currency, idx []uint64, full bool) freeScen {
		c, roots := w.contract(tag, n, 0, funds)
		o, oroots := w.contract(tag+100, n, 0, rich)
		return freeScen{name: name, contract: c, roots: roots, other: o, otherRoots: oroots, idx: idx, prices: w.prices, full: full}
	}
	s := []freeScen{
		mk("six-free-1-and-3", 40, 6, rich, []uint64{1, 3}, true),
		mk("six-free-first", 41, 6, rich, []uint64{0}, false),
		mk("six-free-last", 42, 6, rich, []uint64{5}, false),
		mk("seven-free-unordered-with-duplicates", 43, 7, rich, []uint64{2, 6, 2, 0, 6}, true),
		mk("four-free-all", 44, 4, rich, []uint64{0, 1, 2, 3}, false),
		mk("one-free-it", 45, 1, rich, []uint64{0}, false),
		mk("five-free-nothing", 46, 5, rich, nil, false),
		mk("insufficient-funds", 47, 5, types.NewCurrency64(5), []uint64{2}, false),
		mk("invalid-index-out-of-range", 48, 5, rich, []uint64{1, 5}, false),
		mk("invalid-index-far-out-of-range", 49, 5, rich, []uint64{1 << 40}, false),
		mk("invalid-more-indices-than-sectors", 50, 2, rich, []uint64{0, 1, 2, 3}, false),
		mk("invalid-index-on-empty-contract", 55, 0, rich, []uint64{0}, false),
		mk("invalid-index-equal-to-sector-count", 56, 5, rich, []uint64{5}, false),
	}
	for i, ps := range priceSpread {
		sc := mk(ps.name, 60+byte(i), 6, rich, []uint64{1, 3}, false)
		sc.prices = w.pricesWith(ps.v)
		s = append(s, sc)
	}
	fcost := w.prices.RPCFreeSectorsCost(2).RenterCost()
	s = append(s, mk("funds-exactly-the-cost", 64, 6, fcost, []uint64{1, 3}, false), mk("funds-one-hasting-short", 65, 6, fcost.Sub(types.NewCurrency64(1)), []uint64{1, 3}, false))
	for i, n := range []int{15, 16, 17} {
		s = append(s, mk(fmt.Sprintf("sectors-%d-free-first-middle-last", n), 70+byte(i), n, rich, []uint64{0, 8, uint64(n - 1)}, false))
	}
	for i, f := range []foreign{"a", "b", "c", "d"} {
		sc := mk(foreignNames[f], 51+byte(i), 6, rich, []uint64{1, 3}, false)
		sc.fgn, sc.prices = f, w.fPrices(f)
		s = append(s, sc)
	}
	return s
}

// freeProof is what an honest host answers for in-range normalized indices.
func freeProof(roots []types.Hash256, idxDesc []uint64) (tree, leaf []types.Hash256, newRoot types.Hash256) {
	idxDesc = slices.DeleteFunc(slices.Clone(idxDesc), func(i uint64) bool { return i >= uint64(len(roots)) })
	tree, leaf = proto4.BuildFreeSectorsProof(roots, idxDesc)
	return tree, leaf, proto4.MetaRoot(swapRemove(roots, idxDesc))
}

func (w *world) freeCorrs(sc *freeScen) []corr {
	cs := []corr{honestCorr}
	if sc.fgn != "" {
		return cs
	}
	add := func(name string, f func(st *freeSt)) {
		cs = append(cs, corr{name: "msg1/" + name, msg: 1, typed: func(st any) { f(st.(*freeSt)) }})
	}
	n := uint64(len(sc.roots))
	norm := normalize(sc.idx)
	add("newroot-flip-bit", func(st *freeSt) { st.resp.NewMerkleRoot = flipHash(st.resp.NewMerkleRoot, 200) })
	add("newroot-zero", func(st *freeSt) { st.resp.NewMerkleRoot = types.Hash256{} })
	add("newroot-unchanged-old-root", func(st *freeSt) { st.resp.NewMerkleRoot = sc.contract.Revision.FileMerkleRoot })
	add("newroot-of-another-contract", func(st *freeSt) { st.resp.NewMerkleRoot = sc.other.Revision.FileMerkleRoot })
	add("newroot-plain-removal-without-swap", func(st *freeSt) {
		var keep []types.Hash256
		for i, h := range sc.roots {
			if !slices.Contains(norm, uint64(i)) {
				keep = append(keep, h)
			}
		}
		st.resp.NewMerkleRoot = proto4.MetaRoot(keep)
	})
	if uint64(len(norm)) <= n {
		add("newroot-only-trimmed", func(st *freeSt) { st.resp.NewMerkleRoot = proto4.MetaRoot(sc.roots[:n-uint64(len(norm))]) })
	}
	if len(norm) > 0 && n > uint64(len(norm)) && sc.inRange() {
		// a consistent proof for a different index set of the same size
		alt := slices.Clone(norm)
		for i := range alt {
			alt[i] = (alt[i] + 1) % n
		}
		alt = normalize(alt)
		add("whole-proof-for-other-indices", func(st *freeSt) {
			st.resp.OldSubtreeHashes, st.resp.OldLeafHashes, st.resp.NewMerkleRoot = freeProof(sc.roots, alt)
		})
		add("newroot-for-other-indices", func(st *freeSt) { _, _, st.resp.NewMerkleRoot = freeProof(sc.roots, alt) })
		add("whole-proof-for-one-index-fewer", func(st *freeSt) {
			st.resp.OldSubtreeHashes, st.resp.OldLeafHashes, st.resp.NewMerkleRoot = freeProof(sc.roots, norm[1:])
		})
		add("newroot-freeing-one-more", func(st *freeSt) {
			more := normalize(append(slices.Clone(norm), alt...))
			_, _, st.resp.NewMerkleRoot = freeProof(sc.roots, more)
		})
	}
	add("whole-proof-over-another-contract", func(st *freeSt) {
		st.resp.OldSubtreeHashes, st.resp.OldLeafHashes, st.resp.NewMerkleRoot = freeProof(sc.otherRoots, norm)
	})
	tr, lf, _ := freeProof(sc.roots, norm)
	nt, nl := len(tr), len(lf)
	if !sc.full {
		nt, nl = min(nt, 1), min(nl, 1)
	}
	cs = append(cs, hashListCorrs(1, "oldsubtreehashes", nt,
		func(st any) *[]types.Hash256 { return &st.(*freeSt).resp.OldSubtreeHashes },
		func(st any) []types.Hash256 { t, _, _ := freeProof(sc.otherRoots, norm); return t })...)
	cs = append(cs, hashListCorrs(1, "oldleafhashes", nl,
		func(st any) *[]types.Hash256 { return &st.(*freeSt).resp.OldLeafHashes },
		func(st any) []types.Hash256 { _, l, _ := freeProof(sc.otherRoots, norm); return l })...)
	sg := sigCorrs(3, func(st any) *sigSt { return st.(*freeSt).sig })
	r1, r3 := rawCorrs(1), rawCorrs(3)
	if !sc.full {
		sg, r1, r3 = sg[:6], r1[:5], r3[:5]
	}
	cs = append(cs, r1...)
	cs = append(cs, sg...)
	return append(cs, r3...)
}

func (w *world) runFree(sc *freeScen, c corr) *result {
	r := &result{rpc: "free", scen: sc.name, corr: c.name, peer: w.fPeer(sc.fgn)}
	var res rhp4.RPCFreeSectorsResult
	var err error
	old := sc.contract.Revision
	norm := normalize(sc.idx)
	var seen []uint64
	handler := func(s net.Conn, x *xchg) {
		var req proto4.RPCFreeSectorsRequest
		if !readReq(s, x, proto4.RPCFreeSectorsID, &req) {
			return
		}
		seen = slices.Clone(req.Indices)
		var resp proto4.RPCFreeSectorsResponse
		resp.OldSubtreeHashes, resp.OldLeafHashes, resp.NewMerkleRoot = freeProof(sc.roots, norm)
		st := &freeSt{sc: sc, req: &req, resp: &resp}
		c.applyTyped(1, st)
		b, cut := c.bytesOf(1, &resp)
		x.send(s, b)
		if cut {
			return
		}
		var rs proto4.RPCFreeSectorsSecondResponse
		if !readRenterSig(s, x, &rs) {
			return
		}
		local, _, e := proto4.ReviseForFreeSectors(old, req.Prices, resp.NewMerkleRoot, len(req.Indices))
		if e != nil {
			x.note("revise: %v", e)
		}
		// a host that countersigns whatever the renter signed: if the renter's signature is
		// not over the revision for the indices it sent, try other deletion counts
		if !old.RenterPublicKey.VerifyHash(w.cs.ContractSigHash(local), rs.RenterSignature) {
			for k := 0; k <= len(req.Indices)+16; k++ {
				if alt, _, e := proto4.ReviseForFreeSectors(old, req.Prices, resp.NewMerkleRoot, k); e == nil &&
					old.RenterPublicKey.VerifyHash(w.cs.ContractSigHash(alt), rs.RenterSignature) {
					x.note("the renter signed a revision for %d deletions although it sent %d indices; the host countersigns that one", k, len(req.Indices))
					local = alt
					break
				}
			}
		}
		sig := proto4.RPCFreeSectorsThirdResponse{HostSignature: w.fSigner(sc.fgn).SignHash(w.cs.ContractSigHash(local))}
		st.sig = &sigSt{w: w, sig: &sig.HostSignature, local: local, prev: old, other: sc.other.Revision, renterSig: rs.RenterSignature}
		c.applyTyped(3, st)
		b, _ = c.bytesOf(3, &sig)
		x.send(s, b)
	}
	x := w.do(r, handler, func(ctx context.Context, t rhp4.TransportClient) {
		res, err = rhp4.RPCFreeSectors(ctx, t, w.rk, w.cs, sc.prices, sc.contract, sc.idx)
	})
	r.setErr(err)
	if x.Streams > 0 && x.Request != nil && !slices.Equal(seen, norm) {
		r.fail("free-request-not-normalized", "RPCFreeSectors(%v) sent indices %v, expected the descending duplicate-free list %v", sc.idx, seen, norm)
	}
	rd := bytes.NewReader(x.all())
	var resp proto4.RPCFreeSectorsResponse
	var sig proto4.RPCFreeSectorsThirdResponse
	dec1 := x.Streams > 0 && proto4.ReadResponse(rd, &resp) == nil
	numSectors := old.Filesize / sectorSize
	proofOK, dec3, sigOK := false, false, false
	if dec1 {
		var p any
		proofOK, p = guard(func() bool {
			return proto4.VerifyFreeSectorsProof(resp.OldSubtreeHashes, resp.OldLeafHashes, norm, numSectors, old.FileMerkleRoot, resp.NewMerkleRoot)
		})
		if p != nil {
			x.note("core's VerifyFreeSectorsProof panicked on this response: %v", p)
		}
		local, _, rerr := proto4.ReviseForFreeSectors(old, sc.prices, resp.NewMerkleRoot, len(norm))
		if proofOK {
			dec3 = proto4.ReadResponse(rd, &sig) == nil
		}
		sigOK = dec3 && rerr == nil && w.hpk.VerifyHash(w.cs.ContractSigHash(local), sig.HostSignature)
	}
	obs := "OErr"
	if r.ok {
		obs = revObs(w, res.Revision, res.Usage)
		rv := res.Revision
		r.rev = &rv
		cost := mulU(bi(sc.prices.FreeSectorPrice), uint64(len(norm)))
		wantRoot := types.Hash256{}
		if sc.inRange() {
			wantRoot = proto4.MetaRoot(swapRemove(sc.roots, norm))
		}
		w.checkRevision(r, old, res.Revision, res.Usage, cost, big.NewInt(0), wantRoot, old.Filesize-uint64(len(norm))*sectorSize, old.Capacity, 1)
	}
	r.coq = fmt.Sprintf("CFree %s %s %s %s %s %d %s %s %s %s", w.nview(old), w.nprices(sc.prices), nlist(sc.idx), nlist(seen), coqBool(dec1),
		w.id(resp.NewMerkleRoot), coqBool(proofOK), coqBool(dec3), coqBool(sigOK), obs)
	r.nontrivial = x.Streams > 0 && (!c.honest() || sc.fgn != "")
	return r
}

func nlist(xs []uint64) string {
	s := make([]string, len(xs))
	for i, v := range xs {
		s[i] = fmt.Sprint(v)
	}
	return "[" + strings.Join(s, "; ") + "]"
}

// ----------------------------------------------------------------- fund ----

type fundScen struct {
	name     string
	contract rhp4.ContractRevision
	other    rhp4.ContractRevision
	deposits []proto4.AccountDeposit
	acctsOK  bool
	full     bool
	fgn      foreign
}

type fundSt struct {
	sc   *fundScen
	req  *proto4.RPCFundAccountsRequest
	resp *proto4.RPCFundAccountsResponse
	sig  *sigSt
}

func acct(tag byte, i int) proto4.Account {
	return proto4.Account(types.HashBytes([]byte{'a', tag, byte(i), byte(i >> 8)}))
}

func (w *world) fundScenarios() []fundScen {
	mk := func(name string, tag byte, funds types.Currency, amounts []types.Currency, full bool) fundScen {
		c, _ := w.contract(tag, 3, 0, funds)
		o, _ := w.contract(tag+100, 3, 0, rich)
		sc := fundScen{name: name, contract: c, other: o, acctsOK: true, full: full}
		for i, a := range amounts {
			sc.deposits = append(sc.deposits, proto4.AccountDeposit{Account: acct(tag, i), Amount: a})
		}
		return sc
	}
	sc := types.Siacoins
	s := []fundScen{
		mk("three-accounts", 60, rich, []types.Currency{sc(1), sc(2), types.NewCurrency64(12345)}, true),
		mk("one-account", 61, rich, []types.Currency{sc(5)}, false),
		mk("exactly-all-funds", 62, sc(7), []types.Currency{sc(3), sc(4)}, false),
		mk("insufficient-funds", 63, sc(6), []types.Currency{sc(3), sc(4)}, false),
		mk("invalid-no-deposits", 64, rich, nil, false),
		mk("invalid-zero-amount", 65, rich, []types.Currency{sc(1), types.ZeroCurrency}, false),
	}
	many := func(n int) []types.Currency { return slices.Repeat([]types.Currency{types.NewCurrency64(7)}, n) }
	s = append(s, mk("batch-1000-deposits", 75, rich, many(proto4.MaxAccountBatchSize), false),
		mk("batch-1001-deposits", 76, rich, many(proto4.MaxAccountBatchSize+1), false),
		mk("funds-one-hasting-short", 77, sc(6).Sub(types.NewCurrency64(1)), []types.Currency{sc(2), sc(4)}, false))
	z := mk("invalid-zero-account", 66, rich, []types.Currency{sc(1)}, false)
	z.deposits[0].Account, z.acctsOK = proto4.Account{}, false
	s = append(s, z)
	for i, f := range []foreign{"b", "d"} { // no price table in this RPC
		fs := mk(foreignNames[f], 67+byte(i), rich, []types.Currency{sc(1), sc(2)}, false)
		fs.fgn = f
		s = append(s, fs)
	}
	return s
}

func (w *world) fundCorrs(sc *fundScen) []corr {
	cs := []corr{honestCorr}
	if sc.fgn != "" {
		return cs
	}
	add := func(name string, f func(st *fundSt)) {
		cs = append(cs, corr{name: "msg1/" + name, msg: 1, typed: func(st any) { f(st.(*fundSt)) }})
	}
	add("balances-drop-last", func(st *fundSt) {
		if len(st.resp.Balances) > 0 {
			st.resp.Balances = st.resp.Balances[:len(st.resp.Balances)-1]
		}
	})
	add("balances-extended", func(st *fundSt) { st.resp.Balances = append(slices.Clone(st.resp.Balances), types.Siacoins(9)) })
	add("balances-empty", func(st *fundSt) { st.resp.Balances = nil })
	add("balances-first-zeroed", func(st *fundSt) {
		if len(st.resp.Balances) > 0 {
			st.resp.Balances = slices.Clone(st.resp.Balances)
			st.resp.Balances[0] = types.ZeroCurrency
		}
	})
	add("balances-reversed", func(st *fundSt) {
		st.resp.Balances = slices.Clone(st.resp.Balances)
		slices.Reverse(st.resp.Balances)
	})
	sg := sigCorrs(1, func(st any) *sigSt { return st.(*fundSt).sig })
	r1 := rawCorrs(1)
	if !sc.full {
		sg, r1 = sg[:6], r1[:5]
	}
	cs = append(cs, sg...)
	return append(cs, r1...)
}

func (w *world) runFund(sc *fundScen, c corr) *result {
	r := &result{rpc: "fund", scen: sc.name, corr: c.name, peer: w.fPeer(sc.fgn)}
	var res rhp4.RPCFundAccountResult
	var err error
	old := sc.contract.Revision
	total := new(big.Int)
	var amounts []string
	for _, d := range sc.deposits {
		total.Add(total, d.Amount.Big())
		amounts = append(amounts, d.Amount.Big().String())
	}
	handler := func(s net.Conn, x *xchg) {
		var req proto4.RPCFundAccountsRequest
		if !readReq(s, x, proto4.RPCFundAccountsID, &req) {
			return
		}
		var sum types.Currency
		resp := proto4.RPCFundAccountsResponse{}
		for _, d := range req.Deposits {
			sum = sum.Add(d.Amount)
			resp.Balances = append(resp.Balances, d.Amount.Add(types.NewCurrency64(5)))
		}
		local, _, e := proto4.ReviseForFundAccounts(old, sum)
		if e != nil {
			x.note("revise: %v", e)
		}
		resp.HostSignature = w.fSigner(sc.fgn).SignHash(w.cs.ContractSigHash(local))
		st := &fundSt{sc: sc, req: &req, resp: &resp}
		st.sig = &sigSt{w: w, sig: &resp.HostSignature, local: local, prev: old, other: sc.other.Revision, renterSig: req.RenterSignature}
		c.applyTyped(1, st)
		b, _ := c.bytesOf(1, &resp)
		x.send(s, b)
	}
	x := w.do(r, handler, func(ctx context.Context, t rhp4.TransportClient) {
		res, err = rhp4.RPCFundAccounts(ctx, t, w.cs, w.rk, sc.contract, sc.deposits)
	})
	r.setErr(err)
	var resp proto4.RPCFundAccountsResponse
	dec := x.Streams > 0 && proto4.ReadResponse(bytes.NewReader(x.all()), &resp) == nil
	sigOK := false
	if dec {
		var sum types.Currency
		for _, d := range sc.deposits {
			sum = sum.Add(d.Amount)
		}
		if local, _, e := proto4.ReviseForFundAccounts(old, sum); e == nil {
			sigOK = w.hpk.VerifyHash(w.cs.ContractSigHash(local), resp.HostSignature)
		}
	}
	obs := "OErr"
	if r.ok {
		obs = revObs(w, res.Revision, res.Usage, uint64(len(res.Balances)))
		rv := res.Revision
		r.rev = &rv
		w.checkRevision(r, old, res.Revision, res.Usage, total, big.NewInt(0), old.FileMerkleRoot, old.Filesize, old.Capacity, 1)
		okb := len(res.Balances) == len(sc.deposits)
		for i := range res.Balances {
			okb = okb && res.Balances[i].Account == sc.deposits[i].Account
		}
		if !okb {
			r.fail("fund-balances-not-for-requested-accounts", "RPCFundAccounts returned %d balances for %d deposits or for other accounts", len(res.Balances), len(sc.deposits))
		}
	}
	r.coq = fmt.Sprintf("CFund %s [%s] %s %s %d %s %s", w.nview(old), strings.Join(amounts, "; "), coqBool(sc.acctsOK), coqBool(dec), len(resp.Balances), coqBool(sigOK), obs)
	r.nontrivial = x.Streams > 0 && (!c.honest() || sc.fgn != "")
	return r
}

// ------------------------------------------------------------ replenish ----

type replScen struct {
	name     string
	contract rhp4.ContractRevision
	other    rhp4.ContractRevision
	accounts []proto4.Account
	target   types.Currency
	give     []types.Currency // the host's honest deposits
	full     bool
	fgn      foreign
	pools    bool // RPCReplenishPools instead of RPCReplenishAccounts (same wire types, same checks)
}

type replSt struct {
	sc   *replScen
	req  *proto4.RPCReplenishAccountsRequest
	resp *proto4.RPCReplenishAccountsResponse
	sig  *sigSt
}

func (w *world) replenishScenarios() []replScen {
	mk := func(name string, tag byte, funds, target types.Currency, give []types.Currency, full bool) replScen {
		c, _ := w.contract(tag, 2, 0, funds)
		o, _ := w.contract(tag+100, 2, 0, rich)
		sc := replScen{name: name, contract: c, other: o, target: target, give: give, full: full}
		for i := range give {
			sc.accounts = append(sc.accounts, acct(tag, i))
		}
		return sc
	}
	sc := types.Siacoins
	half := types.NewCurrency(0, 1<<63) // 2^127
	s := []replScen{
		mk("three-accounts-partly-full", 80, rich, sc(10), []types.Currency{sc(10), sc(3), types.ZeroCurrency}, true),
		mk("one-account", 81, rich, sc(2), []types.Currency{sc(1)}, false),
		mk("two-accounts-already-at-target", 82, rich, sc(2), []types.Currency{types.ZeroCurrency, types.ZeroCurrency}, true),
		mk("insufficient-funds", 83, sc(3), sc(2), []types.Currency{sc(2), sc(2)}, false),
		mk("huge-target-one-account", 84, rich, half, []types.Currency{sc(1)}, false),
		mk("invalid-zero-target", 85, rich, types.ZeroCurrency, []types.Currency{types.ZeroCurrency}, false),
		mk("invalid-no-accounts", 86, rich, sc(1), nil, false),
		mk("batch-1000-accounts", 89, rich, types.NewCurrency64(9), slices.Repeat([]types.Currency{types.NewCurrency64(9)}, proto4.MaxAccountBatchSize), false),
		mk("batch-1001-accounts", 90, rich, types.NewCurrency64(9), slices.Repeat([]types.Currency{types.NewCurrency64(9)}, proto4.MaxAccountBatchSize+1), false),
		mk("funds-one-hasting-short", 91, sc(4).Sub(types.NewCurrency64(1)), sc(2), []types.Currency{sc(2), sc(2)}, false),
	}
	for i, f := range []foreign{"b", "d"} { // no price table in this RPC
		fs := mk(foreignNames[f], 87+byte(i), rich, sc(10), []types.Currency{sc(10), sc(3)}, false)
		fs.fgn = f
		s = append(s, fs)
	}
	// the same exchanges through RPCReplenishPools (short catalogue)
	n := len(s)
	for i := 0; i < n; i++ {
		p := s[i]
		p.pools, p.full = true, false
		s = append(s, p)
	}
	return s
}

func (w *world) replenishCorrs(sc *replScen) []corr {
	if sc.target.IsZero() || len(sc.accounts) == 0 || sc.fgn != "" {
		return []corr{honestCorr}
	}
	cs := []corr{honestCorr}
	add := func(name string, f func(st *replSt)) {
		cs = append(cs, corr{name: "msg1/" + name, msg: 1, typed: func(st any) { f(st.(*replSt)) }})
	}
	one := types.NewCurrency64(1)
	stranger := func(i int) proto4.AccountDeposit {
		return proto4.AccountDeposit{Account: acct(250, i), Amount: sc.target}
	}
	add("deposit-0-above-target-by-1", func(st *replSt) { st.resp.Deposits[0].Amount = sc.target.Add(one) })
	add("deposit-last-above-target-by-1", func(st *replSt) { st.resp.Deposits[len(st.resp.Deposits)-1].Amount = sc.target.Add(one) })
	add("deposit-0-exactly-target", func(st *replSt) { st.resp.Deposits[0].Amount = sc.target })
	add("all-deposits-exactly-target", func(st *replSt) {
		for i := range st.resp.Deposits {
			st.resp.Deposits[i].Amount = sc.target
		}
	})
	add("all-deposits-zero", func(st *replSt) {
		for i := range st.resp.Deposits {
			st.resp.Deposits[i].Amount = types.ZeroCurrency
		}
	})
	add("deposit-0-huge", func(st *replSt) { st.resp.Deposits[0].Amount = types.MaxCurrency })
	add("deposits-empty", func(st *replSt) { st.resp.Deposits = nil })
	add("deposits-drop-last", func(st *replSt) { st.resp.Deposits = st.resp.Deposits[:len(st.resp.Deposits)-1] })
	add("deposits-extended-by-zero-deposit", func(st *replSt) {
		st.resp.Deposits = append(st.resp.Deposits, proto4.AccountDeposit{Account: acct(250, 0)})
	})
	add("deposits-extended-by-stranger-at-target", func(st *replSt) { st.resp.Deposits = append(st.resp.Deposits, stranger(0)) })
	add("deposits-all-at-target-plus-one-extra", func(st *replSt) {
		for i := range st.resp.Deposits {
			st.resp.Deposits[i].Amount = sc.target
		}
		st.resp.Deposits = append(st.resp.Deposits, stranger(0))
	})
	add("deposits-extended-by-three-strangers-at-target", func(st *replSt) {
		st.resp.Deposits = append(st.resp.Deposits, stranger(0), stranger(1), stranger(2))
	})
	add("deposits-for-other-accounts", func(st *replSt) {
		for i := range st.resp.Deposits {
			st.resp.Deposits[i].Account = acct(251, i)
		}
	})
	add("deposits-duplicate-first-account", func(st *replSt) {
		for i := range st.resp.Deposits {
			st.resp.Deposits[i].Account = st.resp.Deposits[0].Account
		}
	})
	add("deposits-reversed", func(st *replSt) { slices.Reverse(st.resp.Deposits) })
	sg := sigCorrs(3, func(st any) *sigSt { return st.(*replSt).sig })
	r1, r3 := rawCorrs(1), rawCorrs(3)
	if !sc.full {
		sg, r1, r3 = sg[:6], r1[:5], r3[:5]
	}
	cs = append(cs, r1...)
	cs = append(cs, sg...)
	return append(cs, r3...)
}

func (w *world) runReplenish(sc *replScen, c corr) *result {
	r := &result{rpc: "replenish", scen: sc.name, corr: c.name, peer: w.fPeer(sc.fgn)}
	rpcID := proto4.RPCReplenishAccountsID
	if sc.pools {
		r.rpc, rpcID = "replenish-pools", proto4.RPCReplenishPoolsID
	}
	var res rhp4.RPCReplenishAccountsResult
	var err error
	old := sc.contract.Revision
	handler := func(s net.Conn, x *xchg) {
		var req proto4.RPCReplenishAccountsRequest
		if !readReq(s, x, rpcID, &req) {
			return
		}
		var resp proto4.RPCReplenishAccountsResponse
		for i, a := range req.Accounts {
			resp.Deposits = append(resp.Deposits, proto4.AccountDeposit{Account: a, Amount: sc.give[i%len(sc.give)]})
		}
		st := &replSt{sc: sc, req: &req, resp: &resp}
		c.applyTyped(1, st)
		b, cut := c.bytesOf(1, &resp)
		x.send(s, b)
		if cut {
			return
		}
		var rs proto4.RPCReplenishAccountsSecondResponse
		if !readRenterSig(s, x, &rs) {
			return
		}
		sum := new(big.Int)
		for _, d := range resp.Deposits {
			sum.Add(sum, d.Amount.Big())
		}
		local := old
		if sum.BitLen() <= 128 {
			amt := types.NewCurrency(new(big.Int).And(sum, new(big.Int).SetUint64(^uint64(0))).Uint64(), new(big.Int).Rsh(sum, 64).Uint64())
			if l, _, e := proto4.ReviseForReplenish(old, amt); e == nil {
				local = l
			} else {
				x.note("revise: %v", e)
			}
		}
		sig := proto4.RPCReplenishAccountsThirdResponse{HostSignature: w.fSigner(sc.fgn).SignHash(w.cs.ContractSigHash(local))}
		st.sig = &sigSt{w: w, sig: &sig.HostSignature, local: local, prev: old, other: sc.other.Revision, renterSig: rs.RenterSignature}
		c.applyTyped(3, st)
		b, _ = c.bytesOf(3, &sig)
		x.send(s, b)
	}
	x := w.do(r, handler, func(ctx context.Context, t rhp4.TransportClient) {
		if sc.pools {
			var pr rhp4.RPCReplenishPoolsResult
			pr, err = rhp4.RPCReplenishPools(ctx, t, rhp4.RPCReplenishPoolsParams{Pools: sc.accounts, Target: sc.target, Contract: sc.contract}, w.cs, w.rk)
			res = rhp4.RPCReplenishAccountsResult{Revision: pr.Revision, Deposits: pr.Deposits, Usage: pr.Usage}
			return
		}
		res, err = rhp4.RPCReplenishAccounts(ctx, t, rhp4.RPCReplenishAccountsParams{Accounts: sc.accounts, Target: sc.target, Contract: sc.contract}, w.cs, w.rk)
	})
	r.setErr(err)
	rd := bytes.NewReader(x.all())
	var resp proto4.RPCReplenishAccountsResponse
	var sig proto4.RPCReplenishAccountsThirdResponse
	dec1 := x.Streams > 0 && proto4.ReadResponse(rd, &resp) == nil
	sum := new(big.Int)
	var amounts []string
	for _, d := range resp.Deposits {
		sum.Add(sum, d.Amount.Big())
		amounts = append(amounts, d.Amount.Big().String())
	}
	dec3, sigOK := false, false
	if dec1 && sum.Sign() > 0 && sum.BitLen() <= 128 {
		amt := types.NewCurrency(new(big.Int).And(sum, new(big.Int).SetUint64(^uint64(0))).Uint64(), new(big.Int).Rsh(sum, 64).Uint64())
		dec3 = proto4.ReadResponse(rd, &sig) == nil
		if local, _, e := proto4.ReviseForReplenish(old, amt); e == nil && dec3 {
			sigOK = w.hpk.VerifyHash(w.cs.ContractSigHash(local), sig.HostSignature)
		}
	}
	obs := "OErr"
	if r.ok {
		obs = revObs(w, res.Revision, res.Usage, uint64(len(res.Deposits)))
		rv := res.Revision
		r.rev = &rv
		bound := mulU(bi(sc.target), uint64(len(sc.accounts)))
		paid := new(big.Int).Sub(old.RenterOutput.Value.Big(), res.Revision.RenterOutput.Value.Big())
		total := new(big.Int)
		for _, d := range res.Deposits {
			total.Add(total, d.Amount.Big())
			if d.Amount.Cmp(sc.target) > 0 {
				r.fail("replenish-deposit-above-target", "RPCReplenishAccounts returned success with a deposit of %v for target %v", d.Amount, sc.target)
			}
		}
		if paid.Cmp(bound) > 0 || total.Cmp(bound) > 0 {
			r.fail("replenish-charges-above-bound", "RPCReplenishAccounts returned success charging %v (deposits %v) for %d accounts with target %v (bound %v)", paid, total, len(sc.accounts), sc.target, bound)
		}
		bump := uint64(1)
		if total.Sign() == 0 {
			bump = 0
		}
		w.checkRevision(r, old, res.Revision, res.Usage, total, big.NewInt(0), old.FileMerkleRoot, old.Filesize, old.Capacity, bump)
	}
	r.coq = fmt.Sprintf("CReplenish %s %d %s %s [%s] %s %s %s", w.nview(old), len(sc.accounts), sc.target.Big(), coqBool(dec1), strings.Join(amounts, "; "), coqBool(dec3), coqBool(sigOK), obs)
	r.nontrivial = x.Streams > 0 && (!c.honest() || sc.fgn != "")
	return r
}

// ------------------------------------------- latest revision / settings ----

type passSt struct {
	w      *world
	latest *proto4.RPCLatestRevisionResponse
	set    *proto4.RPCSettingsResponse
}

func passCorrs() []corr {
	cs := []corr{honestCorr}
	add := func(name string, f func(st *passSt)) {
		cs = append(cs, corr{name: "msg1/observe/" + name, msg: 1, typed: func(st any) { f(st.(*passSt)) }})
	}
	add("signatures-zeroed", func(st *passSt) {
		if st.latest != nil {
			st.latest.Contract.HostSignature, st.latest.Contract.RenterSignature = types.Signature{}, types.Signature{}
		} else {
			st.set.Settings.Prices.Signature = types.Signature{}
		}
	})
	add("values-changed-signature-kept", func(st *passSt) {
		if st.latest != nil {
			st.latest.Contract.RenterOutput.Value = types.ZeroCurrency
			st.latest.Contract.FileMerkleRoot = flipHash(st.latest.Contract.FileMerkleRoot, 4)
		} else {
			st.set.Settings.Prices.EgressPrice = types.Siacoins(1)
		}
	})
	add("foreign-peer-signs-the-revision", func(st *passSt) {
		if st.latest != nil {
			st.latest.Contract.HostSignature = st.w.pk2.SignHash(st.w.cs.ContractSigHash(st.latest.Contract))
		} else {
			st.set.Settings.Prices.Signature = st.w.pk2.SignHash(st.set.Settings.Prices.SigHash())
		}
	})
	return append(cs, rawCorrs(1)...)
}

func (w *world) runLatest(c corr) *result {
	r := &result{rpc: "latest", scen: "contract-a", corr: c.name}
	if strings.Contains(c.name, "foreign-peer") {
		r.peer = w.pk2
	}
	con, _ := w.contract(120, 3, 0, rich)
	var res proto4.RPCLatestRevisionResponse
	var err error
	handler := func(s net.Conn, x *xchg) {
		var req proto4.RPCLatestRevisionRequest
		if !readReq(s, x, proto4.RPCLatestRevisionID, &req) {
			return
		}
		resp := proto4.RPCLatestRevisionResponse{Contract: con.Revision, Revisable: true}
		c.applyTyped(1, &passSt{w: w, latest: &resp})
		b, _ := c.bytesOf(1, &resp)
		x.send(s, b)
	}
	x := w.do(r, handler, func(ctx context.Context, t rhp4.TransportClient) {
		res, err = rhp4.RPCLatestRevision(ctx, t, con.ID)
	})
	r.setErr(err)
	var resp proto4.RPCLatestRevisionResponse
	dec := x.Streams > 0 && proto4.ReadResponse(bytes.NewReader(x.all()), &resp) == nil
	obs := "OErr"
	if r.ok {
		obs = "(OOk [])"
		if !w.hpk.VerifyHash(w.cs.ContractSigHash(res.Contract), res.Contract.HostSignature) {
			r.extra = map[string]any{"observation": "RPCLatestRevision returned a revision whose host signature does not verify (the client does not check it)"}
		}
	}
	r.coq = fmt.Sprintf("CPass 0 %s %s", coqBool(dec), obs)
	r.nontrivial = x.Streams > 0 && !c.honest()
	return r
}

func (w *world) runSettings(c corr) *result {
	r := &result{rpc: "settings", scen: "host", corr: c.name}
	var err error
	handler := func(s net.Conn, x *xchg) {
		if !readReq(s, x, proto4.RPCSettingsID, nil) {
			return
		}
		resp := proto4.RPCSettingsResponse{Settings: proto4.HostSettings{
			ProtocolVersion: proto4.ProtocolVersion{5, 1, 0}, Release: "byzantine", AcceptingContracts: true,
			MaxCollateral: types.Siacoins(1000), MaxContractDuration: 1000, RemainingStorage: 1 << 30, TotalStorage: 1 << 31, Prices: w.prices,
		}}
		c.applyTyped(1, &passSt{w: w, set: &resp})
		b, _ := c.bytesOf(1, &resp)
		x.send(s, b)
	}
	x := w.do(r, handler, func(ctx context.Context, t rhp4.TransportClient) {
		_, err = rhp4.RPCSettings(ctx, t)
	})
	r.setErr(err)
	var resp proto4.RPCSettingsResponse
	dec := x.Streams > 0 && proto4.ReadResponse(bytes.NewReader(x.all()), &resp) == nil
	obs := "OErr"
	if r.ok {
		obs = "(OOk [])"
	}
	r.coq = fmt.Sprintf("CPass 1 %s %s", coqBool(dec), obs)
	r.nontrivial = x.Streams > 0 && !c.honest()
	return r
}
