package main

// Projection of an attempt onto the vocabulary of RHP/Form.v (cases for
// Run/Run_C16.v).  Output ids become list positions: host outputs 0.., renter
// outputs 1000.., anything else 9000...  The renter's key is 1, the host's 2,
// any other key 3.

import (
	"fmt"
	"sort"
	"strings"

	proto4 "go.sia.tech/core/rhp/v4"
	"go.sia.tech/core/types"
)

func zc(c types.Currency) string { return "(" + c.ExactString() + ")%Z" }

// ordered returns the outputs sorted by value (descending); among equal values
// the ones that were actually selected come first, in the order they were
// selected (sort.Slice is not stable), so that the model's largest-first
// selection names the same outputs in the same order.
func ordered(av []availOut, funded []types.SiacoinOutputID) []availOut {
	f := map[types.SiacoinOutputID]int{}
	for i, id := range funded {
		f[id] = i + 1
	}
	rank := func(id types.SiacoinOutputID) int {
		if r, ok := f[id]; ok {
			return r
		}
		return 1 << 30
	}
	var conf, unconf []availOut
	for _, a := range av {
		if a.Unconf {
			unconf = append(unconf, a)
		} else {
			conf = append(conf, a)
		}
	}
	less := func(l []availOut) func(i, j int) bool {
		return func(i, j int) bool {
			if c := l[i].Value.Cmp(l[j].Value); c != 0 {
				return c > 0
			}
			return rank(l[i].ID) < rank(l[j].ID)
		}
	}
	sort.SliceStable(conf, less(conf))
	sort.SliceStable(unconf, less(unconf))
	return append(conf, unconf...)
}

type idmap struct {
	host, renter map[types.SiacoinOutputID]int
}

func (m idmap) id(x types.SiacoinOutputID, j int) int {
	if i, ok := m.renter[x]; ok {
		return 1000 + i
	}
	if i, ok := m.host[x]; ok {
		return i
	}
	return 9000 + j
}

// walletTerm renders the first outputs of a wallet: enough to cover amount
// plus two (the selection never looks further), everything if they do not.
func walletTerm(av []availOut, base int, amount types.Currency, hostOnly bool) string {
	var parts []string
	var sum types.Currency
	extra := 0
	for i, a := range av {
		if hostOnly && a.Unconf {
			continue
		}
		if sum.Cmp(amount) >= 0 && !a.Unconf {
			extra++
			if extra > 2 {
				continue
			}
		}
		sum = sum.Add(a.Value)
		parts = append(parts, fmt.Sprintf("(%d, %s, %s)", base+i, zc(a.Value), coqBool(a.Unconf)))
	}
	return "[" + strings.Join(parts, "; ") + "]"
}

// hostTerms computes what the host computes from the request it received:
// renter and host funding and the key the contract names.
func (w *world) hostTerms(o *outcome) (rfund, hfund types.Currency, rk int, fc types.V2FileContract, ok bool) {
	defer func() {
		if r := recover(); r != nil {
			ok = false
		}
	}()
	rk = 1
	addr := w.base.WalletAddress
	switch req := o.M.fwdReq.(type) {
	case *proto4.RPCFormContractRequest:
		c, _ := proto4.NewContract(req.Prices, req.Contract, w.hostKey.PublicKey(), addr)
		rfund, hfund = proto4.ContractCost(o.HostCS, c, req.MinerFee)
		if req.Contract.RenterPublicKey != w.renterKey.PublicKey() {
			rk = 3
		}
		return rfund, hfund, rk, c, true
	case *proto4.RPCRenewContractRequest:
		r, _ := proto4.RenewContract(o.Existing.Revision, req.Prices, addr, req.Renewal)
		rfund, hfund = proto4.RenewalCost(o.HostCS, r, req.MinerFee)
		return rfund, hfund, rk, r.NewContract, true
	case *proto4.RPCRefreshContractRequest:
		var r types.V2FileContractRenewal
		if o.Script.Partial {
			r, _ = proto4.RefreshContractPartialRollover(o.Existing.Revision, req.Prices, addr, req.Refresh)
		} else {
			r, _ = proto4.RefreshContractFullRollover(o.Existing.Revision, req.Prices, addr, req.Refresh)
		}
		rfund, hfund = proto4.RefreshCost(o.HostCS, req.Prices, r, req.MinerFee)
		return rfund, hfund, rk, r.NewContract, true
	}
	return
}

// renterTerms computes what the renter function computes from its parameters.
func (w *world) renterTerms(o *outcome, fee types.Currency) (rfund, hfund types.Currency, fc types.V2FileContract, renewal types.V2FileContractRenewal) {
	p, addr := o.Settings.Prices, o.Settings.WalletAddress
	switch o.Script.Kind {
	case "form":
		fc, _ = proto4.NewContract(p, o.FormParams, w.hostKey.PublicKey(), addr)
		rfund, _ = proto4.ContractCost(o.CS, fc, fee)
		return rfund, fc.TotalCollateral, fc, renewal
	case "renew":
		renewal, _ = proto4.RenewContract(o.Existing.Revision, p, addr, o.RenewParams)
		rfund, hfund = proto4.RenewalCost(o.CS, renewal, fee)
	default:
		if o.Script.Partial {
			renewal, _ = proto4.RefreshContractPartialRollover(o.Existing.Revision, p, addr, o.RefreshParams)
		} else {
			renewal, _ = proto4.RefreshContractFullRollover(o.Existing.Revision, p, addr, o.RefreshParams)
		}
		rfund, hfund = proto4.RefreshCost(o.CS, p, renewal, fee)
	}
	return rfund, hfund, renewal.NewContract, renewal
}

func kindNo(k string) int {
	switch k {
	case "form":
		return 0
	case "renew":
		return 1
	}
	return 2
}

func basisTerm(s script, calls []string) string {
	switch s.Fault {
	case "req-unknown-basis":
		return "BUnknown"
	case "req-wrong-basis", "req-foreign-input":
		// proofs that were not made for the named basis: the verdict is the chain manager's
		for _, c := range calls {
			if strings.HasPrefix(c, "CUpdate ") {
				return "(BClaimed (Some " + strings.TrimPrefix(c, "CUpdate ") + "))"
			}
		}
		return "(BClaimed None)"
	}
	switch s.Relation {
	case "same":
		return "BSame"
	case "behind":
		// confirmed inputs rebase; whether an unconfirmed input can be rebased
		// without its parent is the chain manager's answer (today: no)
		if s.Unconf {
			return "(BBehind " + coqBool(observedOK(calls, "CUpdate")) + ")"
		}
		return "(BBehind true)"
	case "behind-far":
		return "(BBehind " + coqBool(observedOK(calls, "CUpdate")) + ")"
	case "fork-ok":
		return "(BFork true)"
	case "fork-stale":
		return "(BFork false)"
	case "wallet-behind":
		// inputs older than the wallet's tip rebase backwards; for younger ones the verdict
		// is the chain manager's
		return "(BHostBehind " + coqBool(observedOK(calls, "CUpdate")) + ")"
	}
	return "BUnknown"
}

func termsTerm(no, rk int, rfund, hfund types.Currency) string {
	return fmt.Sprintf("(mk_terms %d %d 2 %s %s)", no, rk, zc(rfund), zc(hfund))
}

// observed verdict of a pool / chain call ("CPoolSet", ...); true if it was not made.
func observedOK(calls []string, name string) bool {
	for _, c := range calls {
		if strings.HasPrefix(c, name+" ") {
			return strings.HasSuffix(c, "true")
		}
	}
	return true
}

func callsTerm(calls []string) string {
	out := make([]string, len(calls))
	for i, c := range calls {
		f := strings.Fields(c)
		if len(f) == 2 && f[1] != "true" && f[1] != "false" {
			out[i] = f[0] + " " + f[1] + "%nat"
		} else {
			out[i] = c
		}
	}
	return "[" + strings.Join(out, "; ") + "]"
}

func (h *harness) project(o *outcome) []string {
	w := h.w
	s := o.Script
	var cases []string
	k := kindNo(s.Kind)
	committed := len(o.Log.broadcast) > 0
	rn := w.renterNode(s)

	hostAv := ordered(confirmedOnly(o.HostBefore), o.Log.fundedIDs)
	renterAv := ordered(o.RenterBefore, o.Signer.funded)
	ids := idmap{host: map[types.SiacoinOutputID]int{}, renter: map[types.SiacoinOutputID]int{}}
	for i, a := range hostAv {
		ids.host[a.ID] = i
	}
	for i, a := range renterAv {
		ids.renter[a.ID] = i
	}

	valid := s.Fault != "req-invalid-params" && s.Fault != "req-bad-challenge" && s.Fault != "req-unknown-contract" &&
		s.Fault != "req-huge-allowance" && s.Fault != "req-zero-fee"
	// renew / refresh: the contractor follows the chain manager, so the contract element
	// is rebased exactly when the host's wallet (the funding basis) is behind it
	elemRebase := "None"
	for _, c := range o.Log.calls {
		if strings.HasPrefix(c, "CElemUpdate ") {
			elemRebase = "(Some " + strings.TrimPrefix(c, "CElemUpdate ") + ")"
		}
	}
	// chain states are named by their height on the host's chain: the host wallet's
	// tip (funding basis) and the chain manager's tip
	// the element is missing when the lookup is made to fail or the formation is unconfirmed
	elemFound := s.Kind == "form" || !(s.Unmined || s.Fault == "elem-lookup-fail")
	env := fmt.Sprintf("(mk_env %s %s %s %s %s true %s %s %s %d %d)",
		coqBool(s.Fault != "host-not-accepting"), coqBool(valid), coqBool(elemFound), basisTerm(s, o.Log.calls), elemRebase,
		coqBool(observedOK(o.Log.calls, "CPoolParents")), coqBool(observedOK(o.Log.calls, "CTxSet")), coqBool(observedOK(o.Log.calls, "CPoolSet")),
		o.HostWalletTip.Height, o.HostTipEnd.Height)

	hdlock := len(confirmedOnly(o.HostBefore)) - len(confirmedOnly(o.HostAfter))
	rdlock := len(o.RenterBefore) - len(o.RenterAfter)
	recorded := len(o.Log.recorded) == 1

	// ---- host case ----
	hostWallet := "[]"
	if o.Streams > 0 {
		m1, m2 := "None", "None"
		var hfundH types.Currency
		if o.M.fwdReq != nil {
			rfund, hfund, rk, hfc, ok := w.hostTerms(o)
			if ok {
				hfundH = hfund
				T := termsTerm(o.No, rk, rfund, hfund)
				v := viewReq(o.M.fwdReq)
				var ins []string
				for j, e := range *v.Inputs {
					ins = append(ins, fmt.Sprintf("(%d, %s)", ids.id(e.ID, j), zc(e.SiacoinOutput.Value)))
				}
				m1 = fmt.Sprintf("(Some (mk_req %s [%s] %d%%nat))", T, strings.Join(ins, "; "), len(*v.Parents))
				if o.M.fwdR2 != nil {
					sv := viewSigs(o.M.fwdR2)
					named := hfc.RenterPublicKey
					sigTerm := func(hash types.Hash256, sig types.Signature, msg string) string {
						switch {
						case named.VerifyHash(hash, sig):
							return fmt.Sprintf("(Sig %d (%s %s))", rk, msg, T)
						case w.renterKey.PublicKey().VerifyHash(hash, sig):
							return fmt.Sprintf("(Sig 1 (%s %s))", msg, T)
						}
						return "(SigJunk 7)"
					}
					csig := sigTerm(o.HostCS.ContractSigHash(hfc), *sv.Contract, "MContract")
					rsig := "(SigJunk 0)"
					if sv.Renewal != nil {
						// the renewal the host signs is determined by the same request
						_, _, _, ren := w.hostRenewal(o)
						rsig = sigTerm(o.HostCS.RenewalSigHash(ren), *sv.Renewal, "MRenewal")
					}
					m2 = fmt.Sprintf("(Some (mk_rsigs %s %s %d%%nat))", csig, rsig, len(*sv.Policies))
				}
			}
		}
		hostWallet = walletTerm(hostAv, 0, hfundH, true)
		rbasis := "None"
		if o.M.gotR3 != nil {
			rbasis = fmt.Sprintf("(Some %d)", viewFinal(o.M.gotR3).Basis.Height)
		}
		cases = append(cases, fmt.Sprintf("HostCase %d %s %s %s %s %s %s (%d)%%Z %s %s",
			k, env, hostWallet, m1, m2, coqBool(committed), callsTerm(o.Log.calls), hdlock, coqBool(recorded), rbasis))
	}

	// ---- renter case ----
	fee := rn.w.RecommendedFee().Mul64(1000)
	if o.M.cliReq != nil {
		fee = *viewReq(o.M.cliReq).MinerFee
	}
	rfund, hfund, lfc, lren := w.renterTerms(o, fee)
	T := termsTerm(o.No, 1, rfund, hfund)
	parents := 0
	if o.M.cliReq != nil {
		parents = len(*viewReq(o.M.cliReq).Parents)
	}
	renv := fmt.Sprintf("(mk_renv %s %s %s true %d%%nat)", coqBool(s.Fault != "txset-fail"), coqBool(!o.M.plan.DialFail), coqBool(!o.M.plan.Write1Fail), parents)
	rm2, rm4 := "None", "None"
	var hinTerm []string
	if o.M.dlvR1 != nil {
		for j, in := range *viewInputs(o.M.dlvR1) {
			hinTerm = append(hinTerm, fmt.Sprintf("(%d, %s)", ids.id(in.Parent.ID, j), zc(in.Parent.SiacoinOutput.Value)))
		}
		rm2 = fmt.Sprintf("(Some (mk_hinputs [%s]))", strings.Join(hinTerm, "; "))
	}
	if o.M.dlvR3 != nil {
		set := *viewFinal(o.M.dlvR3).Set
		shape, idMatch := false, false
		csigT, rsigT := "(SigJunk 8)", "None"
		var rin, hin []string
		if len(set) > 0 {
			last := set[len(set)-1]
			if committed {
				bl := o.Log.broadcast[0].Transactions
				idMatch = last.ID() == bl[len(bl)-1].ID()
			}
			hk := w.hostKey.PublicKey()
			if s.Kind == "form" {
				shape = len(last.FileContracts) == 1
				if shape && hk.VerifyHash(o.CS.ContractSigHash(lfc), last.FileContracts[0].HostSignature) {
					csigT = fmt.Sprintf("(Sig 2 (MContract %s))", T)
				}
			} else if len(last.FileContractResolutions) == 1 {
				if r, isR := last.FileContractResolutions[0].Resolution.(*types.V2FileContractRenewal); isR {
					shape = true
					if hk.VerifyHash(o.CS.ContractSigHash(lren.NewContract), r.NewContract.HostSignature) {
						csigT = fmt.Sprintf("(Sig 2 (MContract %s))", T)
					}
					if hk.VerifyHash(o.CS.RenewalSigHash(lren), r.HostSignature) {
						rsigT = fmt.Sprintf("(Some (Sig 2 (MRenewal %s)))", T)
					} else {
						rsigT = "(Some (SigJunk 8))"
					}
				}
			}
			nr := len(o.Signer.funded)
			for j, in := range last.SiacoinInputs {
				t := fmt.Sprintf("%d", ids.id(in.Parent.ID, j))
				if j < nr {
					rin = append(rin, t)
				} else {
					hin = append(hin, t)
				}
			}
		}
		ct := T
		if !idMatch {
			ct = termsTerm(o.No+5000, 1, rfund, hfund)
		}
		rm4 = fmt.Sprintf("(Some (mk_final %d %d%%nat %s (mk_atxn (mk_contract %s (Sig 1 (MContract %s)) %s None %s) [%s] [%s])))",
			viewFinal(o.M.dlvR3).Basis.Height, len(set), coqBool(shape), ct, T, csigT, rsigT, strings.Join(rin, "; "), strings.Join(hin, "; "))
	}
	renterWallet := walletTerm(renterAv, 1000, rfund, false)
	pl := o.M.plan
	paired := pl.T1 == "" && pl.T2 == "" && pl.T3 == "" && pl.T4 == "" && s.Fault != "req-wrong-renter-key"
	if !paired { // (the pair case below checks the renter side of an unrewritten exchange)
		cases = append(cases, fmt.Sprintf("RenterCase %d %s %s %s %s %s %s %s (%d)%%Z",
			k, renv, renterWallet, T, rm2, rm4, coqBool(o.RenterErr == nil), callsTerm(o.Signer.calls), rdlock))
	}

	// ---- both, over a stream that is only cut ----
	p := o.M.plan
	if paired {
		ch := func(i int) string {
			if p.Cut == i || p.Trunc == i {
				return "Cut"
			}
			return "Deliver"
		}
		sched := fmt.Sprintf("(mk_sched %s %s %s %s)", ch(1), ch(2), ch(3), ch(4))
		hw := hostWallet
		if hw == "[]" {
			hw = walletTerm(hostAv, 0, hfund, true)
		}
		cases = append(cases, fmt.Sprintf("PairCase %d %s %s %s %s %s %s %s %s %s %s (%d)%%Z (%d)%%Z %s",
			k, env, renv, sched, hw, renterWallet, T, coqBool(committed), coqBool(o.RenterErr == nil),
			callsTerm(o.Log.calls), callsTerm(o.Signer.calls), hdlock, rdlock, coqBool(recorded)))
	}
	return cases
}

// hostRenewal recomputes the renewal object the host builds from the request.
func (w *world) hostRenewal(o *outcome) (rfund, hfund types.Currency, ok bool, r types.V2FileContractRenewal) {
	addr := w.base.WalletAddress
	switch req := o.M.fwdReq.(type) {
	case *proto4.RPCRenewContractRequest:
		r, _ = proto4.RenewContract(o.Existing.Revision, req.Prices, addr, req.Renewal)
		return rfund, hfund, true, r
	case *proto4.RPCRefreshContractRequest:
		if o.Script.Partial {
			r, _ = proto4.RefreshContractPartialRollover(o.Existing.Revision, req.Prices, addr, req.Refresh)
		} else {
			r, _ = proto4.RefreshContractFullRollover(o.Existing.Revision, req.Prices, addr, req.Refresh)
		}
		return rfund, hfund, true, r
	}
	return
}
