package main

// The world of a C16 run: a host node (chain manager, wallet, contractor, the
// real rhp4.Server), a renter node on its own chain manager with two wallets
// (one funding from confirmed outputs, one from an unconfirmed output with a
// parent in the renter's pool), and a verifier node that follows the host's
// chain and is only used to re-check returned transaction sets.  Renter and
// host never share a wallet.

import (
	"errors"
	"fmt"
	"net"
	"sort"
	"time"

	"go.sia.tech/core/consensus"
	proto4 "go.sia.tech/core/rhp/v4"
	"go.sia.tech/core/types"
	coreutils "go.sia.tech/coreutils"
	"go.sia.tech/coreutils/chain"
	rhp4 "go.sia.tech/coreutils/rhp/v4"
	"go.sia.tech/coreutils/testutil"
	"go.sia.tech/coreutils/wallet"
	"go.uber.org/zap"
)

type walletNode struct {
	cm  *chain.Manager
	ws  *testutil.EphemeralWalletStore
	hs  *hookStore
	w   *wallet.SingleAddressWallet
	key types.PrivateKey
}

func must(err error) {
	if err != nil {
		panic(err)
	}
}

func newManager(n *consensus.Network, genesis types.Block) *chain.Manager {
	db, tipstate, err := chain.NewDBStore(chain.NewMemDB(), n, genesis, nil)
	must(err)
	return chain.NewManager(db, tipstate)
}

// hookStore is the wallet's store with a fault plan: AddBroadcastedSet (the record the
// wallet keeps of sets it broadcast, for rebroadcasting) can be made to fail.
type hookStore struct {
	*testutil.EphemeralWalletStore
	failBroadcasted bool
}

func (s *hookStore) AddBroadcastedSet(set wallet.BroadcastedSet) error {
	if s.failBroadcasted {
		return errors.New("wallet store cannot record the broadcast set (fault plan)")
	}
	return s.EphemeralWalletStore.AddBroadcastedSet(set)
}

func newWallet(cm *chain.Manager, key types.PrivateKey) *walletNode {
	ws := testutil.NewEphemeralWalletStore()
	hs := &hookStore{EphemeralWalletStore: ws}
	w, err := wallet.NewSingleAddressWallet(key, cm, hs, &testutil.MockSyncer{},
		wallet.WithDefragThreshold(100000), wallet.WithDebounceInterval(time.Hour))
	must(err)
	return &walletNode{cm: cm, ws: ws, hs: hs, w: w, key: key}
}

// sync applies the chain updates the wallet has not seen yet (synchronously).
func (n *walletNode) sync() {
	for {
		tip, err := n.ws.Tip()
		must(err)
		reverted, applied, err := n.cm.UpdatesSince(tip, 1000)
		must(err)
		if len(reverted) == 0 && len(applied) == 0 {
			return
		}
		must(n.ws.UpdateChainState(func(tx wallet.UpdateTx) error {
			return n.w.UpdateChainState(tx, reverted, applied)
		}))
	}
}

// value of the fresh output the host is given for the wallet-behind relation
var freshOutputValue = types.Siacoins(3000)

// hasFreshOutput: the host still holds that output (it is selected first).
func (w *world) hasFreshOutput() bool {
	for _, a := range w.H.avail() {
		if !a.Unconf && a.Value.Cmp(freshOutputValue) >= 0 {
			return true
		}
	}
	return false
}

type liveContract struct {
	ID       types.FileContractID
	Revision types.V2FileContract
	Height   uint64 // host height when it was confirmed
}

type world struct {
	net     *consensus.Network
	genesis types.Block

	cmH *chain.Manager
	H   *walletNode // host wallet
	cmR *chain.Manager
	R   *walletNode // renter wallet, confirmed outputs
	R2  *walletNode // renter wallet whose funds sit in an unconfirmed output
	cmV *chain.Manager
	B   *walletNode // harness-owned bank on the host's node: pays out the wallets' outputs

	hostKey, renterKey, otherKey types.PrivateKey // RPC keys

	best []types.Block // the host's best chain, best[i] has height i+1

	contractor *testutil.EphemeralContractor
	rc         *recContractor
	log        *callLog
	settings   *testutil.EphemeralSettingsReporter
	base       proto4.HostSettings
	srv        *rhp4.Server
	mux        *tcpMux
	trk        *tracker
	client     *tcpClient

	rel string
	// holdHostWallet: the host's wallet is not told about new blocks of the
	// host's own chain manager (relation wallet-behind)
	holdHostWallet bool
	contracts      []liveContract
	attemptNo      int
}

func seededKey(r interface{ Bytes([]byte) }) types.PrivateKey {
	var seed [32]byte
	r.Bytes(seed[:])
	return types.NewPrivateKeyFromSeed(seed[:])
}

func newWorld(c *Ctx) *world {
	n, genesis := testutil.V2Network()
	w := &world{net: n, genesis: genesis, log: &callLog{}, trk: newTracker()}
	w.log.reset()
	w.hostKey, w.renterKey, w.otherKey = seededKey(c.R), seededKey(c.R), seededKey(c.R)
	w.cmH, w.cmR, w.cmV = newManager(n, genesis), newManager(n, genesis), newManager(n, genesis)
	w.H = newWallet(w.cmH, seededKey(c.R))
	w.R = newWallet(w.cmR, seededKey(c.R))
	w.R2 = newWallet(w.cmR, seededKey(c.R))
	w.contractor = testutil.NewEphemeralContractor(w.cmH)

	w.settings = testutil.NewEphemeralSettingsReporter()
	w.base = proto4.HostSettings{
		Release:             "verif",
		AcceptingContracts:  true,
		WalletAddress:       w.H.w.Address(),
		MaxCollateral:       types.Siacoins(1000000000),
		MaxContractDuration: 2000,
		RemainingStorage:    100 * proto4.SectorSize,
		TotalStorage:        100 * proto4.SectorSize,
		Prices: proto4.HostPrices{
			ContractPrice: types.Siacoins(1).Div64(5),
			StoragePrice:  types.NewCurrency64(1),
			IngressPrice:  types.NewCurrency64(100),
			EgressPrice:   types.NewCurrency64(100),
			Collateral:    types.NewCurrency64(1000),
		},
	}
	w.settings.Update(w.base)

	w.rc = &recContractor{Contractor: w.contractor, log: w.log}
	w.srv = rhp4.NewServer(w.hostKey, &recChain{ChainManager: w.cmH, log: w.log},
		w.rc, &recWallet{Wallet: w.H.w, log: w.log},
		w.settings, testutil.NewEphemeralSectorStore(), rhp4.WithPriceTableValidity(10*time.Minute))
	l, err := net.Listen("tcp", "127.0.0.1:0")
	must(err)
	w.mux = &tcpMux{l: l, t: w.trk}
	go w.srv.Serve(w.mux, zap.NewNop())
	w.client = &tcpClient{addr: l.Addr().String(), peer: w.hostKey.PublicKey()}

	// all coins are mined to a bank wallet, which pays the host's and the renters'
	// wallets in outputs of 1000 SC (so that one- and two-output funding is cheap)
	w.B = newWallet(w.cmH, seededKey(c.R))
	for i := 0; i < 10; i++ {
		w.mineHost(w.B.w.Address(), false)
	}
	for i := 0; i < int(n.MaturityDelay)+1; i++ {
		w.mineHost(types.VoidAddress, false)
	}
	w.pay(w.H.w.Address(), 24)
	w.pay(w.R.w.Address(), 14)
	w.pay(w.R2.w.Address(), 2)
	w.mineHost(types.VoidAddress, false)
	w.rel = "same"
	w.resync()
	return w
}

func (w *world) close() {
	w.mux.Close()
	w.srv.Close()
	w.contractor.Close()
	w.H.w.Close()
	w.B.w.Close()
	w.R.w.Close()
	w.R2.w.Close()
}

// mineHost mines one block on the host's chain, updates the host's wallet and
// contractor and the verifier; feedRenter also gives it to the renter's node.
func (w *world) mineHost(addr types.Address, feedRenter bool) {
	b, ok := coreutils.MineBlock(w.cmH, addr, 5*time.Second)
	if !ok {
		panic("could not mine a block")
	}
	must(w.cmH.AddBlocks([]types.Block{b}))
	w.best = append(w.best, b)
	w.afterHostChange()
	must(w.cmV.AddBlocks([]types.Block{b}))
	if feedRenter {
		w.feedRenter(len(w.best))
	}
}

// pay puts a bank transaction with n outputs of 1000 SC to addr into the
// host's pool (the next host block confirms it).
func (w *world) pay(addr types.Address, n int) { w.payValue(addr, n, types.Siacoins(1000)) }

func (w *world) payValue(addr types.Address, n int, unit types.Currency) {
	w.B.sync()
	fee := types.Siacoins(1)
	txn := types.V2Transaction{MinerFee: fee}
	for i := 0; i < n; i++ {
		txn.SiacoinOutputs = append(txn.SiacoinOutputs, types.SiacoinOutput{Address: addr, Value: unit})
	}
	basis, toSign, err := w.B.w.FundV2Transaction(&txn, unit.Mul64(uint64(n)).Add(fee), false)
	must(err)
	w.B.w.SignV2Inputs(&txn, toSign)
	_, err = w.cmH.AddV2PoolTransactions(basis, []types.V2Transaction{txn})
	must(err)
}

// topUp keeps the wallets supplied; it needs a synced pair and leaves one.
func (w *world) topUp() {
	paid := false
	full := func(av []availOut) int { // outputs that still hold (almost) a whole unit
		n := 0
		for _, a := range av {
			if !a.Unconf && a.Value.Cmp(types.Siacoins(900)) >= 0 {
				n++
			}
		}
		return n
	}
	if full(w.H.avail()) < 10 {
		w.resync()
		w.pay(w.H.w.Address(), 16)
		paid = true
	}
	if full(w.R.avail()) < 5 {
		w.resync()
		w.pay(w.R.w.Address(), 10)
		paid = true
	}
	if b, err := w.R2.w.Balance(); err == nil && b.Confirmed.Add(b.Unconfirmed).Cmp(types.Siacoins(200)) < 0 {
		w.resync()
		w.pay(w.R2.w.Address(), 2)
		paid = true
	}
	if paid {
		w.mineHost(types.VoidAddress, true)
		w.resync()
	}
}

func (w *world) afterHostChange() {
	if !w.holdHostWallet {
		w.H.sync()
	}
	w.B.sync()
	deadline := time.Now().Add(10 * time.Second)
	for {
		tip, _ := w.contractor.Tip()
		if tip == w.cmH.Tip() {
			return
		}
		if time.Now().After(deadline) {
			panic("contractor did not follow the chain")
		}
		time.Sleep(100 * time.Microsecond)
	}
}

// feedRenter makes the renter's node hold the host's best chain up to height h.
func (w *world) feedRenter(h int) {
	// number of leading host blocks the renter already has on its best chain
	// (search down from the renter's height: the forks are short)
	from := int(w.cmR.Tip().Height)
	if from > h {
		from = h
	}
	for from > 0 {
		idx, ok := w.cmR.BestIndex(uint64(from))
		if ok && idx.ID == w.best[from-1].ID() {
			break
		}
		from--
	}
	if from < h {
		must(w.cmR.AddBlocks(w.best[from:h]))
	}
	w.R.sync()
	w.R2.sync()
}

// resync brings the renter's node to the host's tip (the host's chain is made
// heavier first if the renter sits on a fork of its own).
func (w *world) resync() {
	w.holdHostWallet = false
	w.H.sync()
	for w.cmR.Tip() != w.cmH.Tip() {
		if w.cmR.Tip().Height >= w.cmH.Tip().Height {
			idx, ok := w.cmH.BestIndex(w.cmR.Tip().Height)
			if ok && idx == w.cmR.Tip() {
				panic("renter ahead of the host on the host's chain")
			}
			w.mineHost(types.VoidAddress, false)
			continue
		}
		w.feedRenter(len(w.best))
		if w.cmR.Tip() != w.cmH.Tip() {
			w.mineHost(types.VoidAddress, false)
		}
	}
	w.R.sync()
	w.R2.sync()
	w.rel = "same"
}

func (w *world) mineRenterOnly(n int) []types.Block {
	var bs []types.Block
	for i := 0; i < n; i++ {
		b, ok := coreutils.MineBlock(w.cmR, types.VoidAddress, 5*time.Second)
		if !ok {
			panic("could not mine a renter block")
		}
		must(w.cmR.AddBlocks([]types.Block{b}))
		bs = append(bs, b)
	}
	w.R.sync()
	w.R2.sync()
	return bs
}

// setRelation establishes one of the basis relations between the renter's
// node and the host's node, starting from a synced pair.
//
//	same       both on the same tip
//	behind     the renter lacks the last 3 host blocks
//	behind-far the renter lacks the last 146 host blocks (more than a set is rebased over)
//	fork-ok    the renter sits on a one-block fork the host applied and left
//	fork-stale the renter sits on a fork the host stored but never applied
//	unknown    the renter sits on a fork the host has never seen
//	wallet-behind  renter and host chain manager on the same tip, the host's
//	           wallet 3 blocks behind its own chain manager
func (w *world) setRelation(rel string) {
	if w.rel == rel && rel != "same" {
		return
	}
	w.resync()
	switch rel {
	case "same":
	case "behind":
		for i := 0; i < 3; i++ {
			w.mineHost(types.VoidAddress, false)
		}
	case "behind-far":
		// beyond the distance over which the chain manager rebases a transaction set (144)
		for i := 0; i < 146; i++ {
			w.mineHost(types.VoidAddress, false)
		}
	case "unknown":
		w.mineRenterOnly(1)
		w.mineHost(types.VoidAddress, false)
	case "wallet-behind":
		// the renter follows the host's chain manager, the host's own wallet has
		// not processed the last 3 blocks; its largest output is fresh, so its
		// Merkle proof differs between the wallet's tip and the manager's tip
		w.payValue(w.H.w.Address(), 1, freshOutputValue)
		w.mineHost(types.VoidAddress, true)
		w.holdHostWallet = true
		for i := 0; i < 3; i++ {
			w.mineHost(types.VoidAddress, true)
		}
	case "fork-stale":
		bs := w.mineRenterOnly(1)
		w.mineHost(types.VoidAddress, false)
		w.mineHost(types.VoidAddress, false)
		must(w.cmH.AddBlocks(bs)) // lighter than the host's chain: stored, never applied
		if w.cmH.Tip() != (types.ChainIndex{Height: uint64(len(w.best)), ID: w.best[len(w.best)-1].ID()}) {
			panic("host reorged to the stale fork")
		}
	case "fork-ok":
		bs := w.mineRenterOnly(1)
		// the host adopts the renter's block ...
		must(w.cmH.AddBlocks(bs))
		if w.cmH.Tip() != w.cmR.Tip() {
			panic("host did not adopt the renter's block")
		}
		w.afterHostChange()
		// ... and then two blocks mined on the verifier (which never saw it) win
		var vs []types.Block
		for i := 0; i < 2; i++ {
			b, ok := coreutils.MineBlock(w.cmV, types.VoidAddress, 5*time.Second)
			if !ok {
				panic("could not mine")
			}
			must(w.cmV.AddBlocks([]types.Block{b}))
			vs = append(vs, b)
		}
		must(w.cmH.AddBlocks(vs))
		if w.cmH.Tip() != w.cmV.Tip() {
			panic("host did not reorg off the renter's block")
		}
		w.best = append(w.best, vs...)
		w.afterHostChange()
	default:
		panic("unknown relation " + rel)
	}
	w.rel = rel
}

// confirm mines the host's pool into a block after a successful attempt and
// keeps the relation: a synced renter receives the block, the others fall
// one more block behind / keep their fork.
func (w *world) confirm() (types.ChainIndex, []chain.ApplyUpdate) {
	prev := w.cmH.Tip()
	w.mineHost(types.VoidAddress, w.rel == "same" || w.rel == "wallet-behind")
	_, applied, err := w.cmH.UpdatesSince(prev, 10)
	must(err)
	return prev, applied
}

// avail lists what a wallet's selection can use right now: confirmed matured
// outputs that are neither locked nor spent in its node's pool, and (for the
// renter) its unconfirmed pool outputs. Sorted by value descending.
type availOut struct {
	ID     types.SiacoinOutputID
	Value  types.Currency
	Unconf bool
}

func (n *walletNode) avail() []availOut {
	spent := map[types.SiacoinOutputID]bool{}
	var eph []availOut
	for _, txn := range n.cm.V2PoolTransactions() {
		for _, in := range txn.SiacoinInputs {
			spent[in.Parent.ID] = true
		}
	}
	for _, txn := range n.cm.V2PoolTransactions() {
		for i, o := range txn.SiacoinOutputs {
			if o.Address != n.w.Address() {
				continue
			}
			e := txn.EphemeralSiacoinOutput(i)
			if !spent[e.ID] {
				eph = append(eph, availOut{ID: e.ID, Value: o.Value, Unconf: true})
			}
		}
	}
	outs, err := n.w.SpendableOutputs()
	must(err)
	var res []availOut
	for _, o := range outs {
		if !spent[o.ID] {
			res = append(res, availOut{ID: o.ID, Value: o.SiacoinOutput.Value})
		}
	}
	sort.SliceStable(res, func(i, j int) bool { return res[i].Value.Cmp(res[j].Value) > 0 })
	sort.SliceStable(eph, func(i, j int) bool { return eph[i].Value.Cmp(eph[j].Value) > 0 })
	// the wallet does not show whether an unconfirmed output is locked: probe it
	// by funding a scratch transaction with everything (released at once)
	if len(eph) > 0 {
		var total types.Currency
		for _, a := range append(append([]availOut(nil), res...), eph...) {
			total = total.Add(a.Value)
		}
		var probe types.V2Transaction
		if _, _, err := n.w.FundV2Transaction(&probe, total, true); err != nil {
			eph = nil // (the harness never holds more than one unconfirmed output per wallet)
		} else {
			n.w.ReleaseInputs(nil, []types.V2Transaction{probe})
		}
	}
	return append(res, eph...)
}

// ensureUnconfirmed makes the second renter wallet hold all its funds in one
// unconfirmed output whose parent sits in the renter's pool.
func (w *world) ensureUnconfirmed() bool {
	av := w.R2.avail()
	hasConf, hasUnconf := false, false
	for _, a := range av {
		if a.Unconf {
			hasUnconf = true
		} else {
			hasConf = true
		}
	}
	if hasUnconf && !hasConf {
		return true
	}
	if !hasConf {
		return false
	}
	bal, err := w.R2.w.Balance()
	must(err)
	fee := types.Siacoins(1)
	if bal.Spendable.Cmp(fee.Mul64(2)) < 0 {
		return false
	}
	amount := bal.Spendable.Sub(fee)
	txn := types.V2Transaction{MinerFee: fee, SiacoinOutputs: []types.SiacoinOutput{{Address: w.R2.w.Address(), Value: amount}}}
	basis, toSign, err := w.R2.w.FundV2Transaction(&txn, bal.Spendable, true)
	if err != nil {
		return false
	}
	w.R2.w.SignV2Inputs(&txn, toSign)
	if _, err := w.cmR.AddV2PoolTransactions(basis, []types.V2Transaction{txn}); err != nil {
		w.R2.w.ReleaseInputs(nil, []types.V2Transaction{txn})
		panic(fmt.Sprintf("self transfer rejected: %v", err))
	}
	return true
}
