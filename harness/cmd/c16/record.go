package main

// Recording wrappers around the host's wallet, chain manager and contractor:
// every call the handlers make, in order, projected to the vocabulary of
// RHP/Form.v (hcall), and the raw facts the monitors need.

import (
	"errors"
	"fmt"
	"os"
	"sync"

	proto4 "go.sia.tech/core/rhp/v4"
	"go.sia.tech/core/types"
	rhp4 "go.sia.tech/coreutils/rhp/v4"
)

type callLog struct {
	mu sync.Mutex
	logData
}

type logData struct {
	calls       []string // Coq hcall terms
	funded      map[types.SiacoinOutputID]bool
	fundedIDs   []types.SiacoinOutputID
	released    map[types.SiacoinOutputID]bool
	seenTxSet   bool
	recorded    []rhp4.TransactionSet // sets handed to AddV2Contract / RenewV2Contract that were accepted
	recordKinds []string
	broadcast   []rhp4.TransactionSet // sets broadcast successfully
	poolSets    []rhp4.TransactionSet // sets the pool accepted
	locks       int
	unlocks     int
	// order facts for the monitors
	poolOKBeforeRecord bool
	recordBeforeBcast  bool
}

func (l *callLog) reset() {
	l.mu.Lock()
	defer l.mu.Unlock()
	l.logData = logData{funded: map[types.SiacoinOutputID]bool{}, released: map[types.SiacoinOutputID]bool{}}
}

func (l *callLog) add(s string) { l.calls = append(l.calls, s) }

func (l *callLog) snapshot() logData {
	l.mu.Lock()
	defer l.mu.Unlock()
	c := l.logData
	c.calls = append([]string(nil), l.calls...)
	c.fundedIDs = append([]types.SiacoinOutputID(nil), l.fundedIDs...)
	return c
}

func coqBool(b bool) string {
	if b {
		return "true"
	}
	return "false"
}

type recWallet struct {
	rhp4.Wallet
	log *callLog
}

func (w *recWallet) FundV2Transaction(txn *types.V2Transaction, amount types.Currency, useUnconfirmed bool) (types.ChainIndex, []int, error) {
	n0 := len(txn.SiacoinInputs)
	basis, toSign, err := w.Wallet.FundV2Transaction(txn, amount, useUnconfirmed)
	w.log.mu.Lock()
	defer w.log.mu.Unlock()
	if err != nil {
		w.log.add("CFundFail")
		return basis, toSign, err
	}
	for _, in := range txn.SiacoinInputs[n0:] {
		w.log.funded[in.Parent.ID] = true
		w.log.fundedIDs = append(w.log.fundedIDs, in.Parent.ID)
	}
	w.log.add(fmt.Sprintf("CFund %d", len(txn.SiacoinInputs)-n0))
	return basis, toSign, err
}

func (w *recWallet) ReleaseInputs(txns []types.Transaction, v2txns []types.V2Transaction) {
	w.Wallet.ReleaseInputs(txns, v2txns)
	w.log.mu.Lock()
	defer w.log.mu.Unlock()
	seen := map[types.SiacoinOutputID]bool{}
	n := 0
	for _, txn := range v2txns {
		for _, in := range txn.SiacoinInputs {
			if w.log.funded[in.Parent.ID] && !seen[in.Parent.ID] {
				seen[in.Parent.ID] = true
				w.log.released[in.Parent.ID] = true
				n++
			}
		}
	}
	w.log.add(fmt.Sprintf("CRelease %d", n))
}

func (w *recWallet) BroadcastV2TransactionSet(basis types.ChainIndex, txns []types.V2Transaction) error {
	err := w.Wallet.BroadcastV2TransactionSet(basis, txns)
	w.log.mu.Lock()
	defer w.log.mu.Unlock()
	if err == nil {
		w.log.add("CBroadcast")
		w.log.broadcast = append(w.log.broadcast, rhp4.TransactionSet{Basis: basis, Transactions: deepCopySet(txns)})
	} else {
		w.log.add("CBroadcastFail")
	}
	return err
}

type recChain struct {
	rhp4.ChainManager
	log *callLog
}

func (c *recChain) UpdateV2TransactionSet(txns []types.V2Transaction, from, to types.ChainIndex) ([]types.V2Transaction, error) {
	elem := len(txns) == 1 && len(txns[0].FileContractResolutions) > 0 && len(txns[0].SiacoinInputs) == 0
	res, err := c.ChainManager.UpdateV2TransactionSet(txns, from, to)
	c.log.mu.Lock()
	defer c.log.mu.Unlock()
	if elem {
		c.log.add("CElemUpdate " + coqBool(err == nil))
	} else {
		c.log.add("CUpdate " + coqBool(err == nil))
	}
	return res, err
}

func (c *recChain) V2TransactionSet(basis types.ChainIndex, txn types.V2Transaction) (types.ChainIndex, []types.V2Transaction, error) {
	b, set, err := c.ChainManager.V2TransactionSet(basis, txn)
	c.log.mu.Lock()
	defer c.log.mu.Unlock()
	c.log.seenTxSet = true
	c.log.add("CTxSet " + coqBool(err == nil))
	if err != nil && os.Getenv("C16_DEBUG") != "" {
		fmt.Fprintf(os.Stderr, "   V2TransactionSet(%v): %v\n", basis, err)
	}
	return b, set, err
}

func (c *recChain) AddV2PoolTransactions(basis types.ChainIndex, txns []types.V2Transaction) (bool, error) {
	known, err := c.ChainManager.AddV2PoolTransactions(basis, txns)
	c.log.mu.Lock()
	defer c.log.mu.Unlock()
	if !c.log.seenTxSet {
		c.log.add("CPoolParents " + coqBool(err == nil))
	} else {
		c.log.add("CPoolSet " + coqBool(err == nil))
		if err == nil {
			c.log.poolSets = append(c.log.poolSets, rhp4.TransactionSet{Basis: basis, Transactions: deepCopySet(txns)})
		}
	}
	return known, err
}

type recContractor struct {
	rhp4.Contractor
	log *callLog
	// failElement makes V2FileContractElement fail (fault plan: the contract store
	// cannot produce the state element)
	failElement bool
}

func (c *recContractor) V2FileContractElement(id types.FileContractID) (types.ChainIndex, types.V2FileContractElement, error) {
	var basis types.ChainIndex
	var fce types.V2FileContractElement
	var err error
	if c.failElement {
		err = errors.New("contract store unavailable (fault plan)")
	} else {
		basis, fce, err = c.Contractor.V2FileContractElement(id)
	}
	c.log.mu.Lock()
	c.log.add("CElement " + coqBool(err == nil))
	c.log.mu.Unlock()
	return basis, fce, err
}

func (c *recContractor) LockV2Contract(id types.FileContractID) (rhp4.RevisionState, func(), error) {
	rs, unlock, err := c.Contractor.LockV2Contract(id)
	if err != nil {
		return rs, unlock, err
	}
	c.log.mu.Lock()
	c.log.locks++
	c.log.mu.Unlock()
	var once sync.Once
	return rs, func() {
		unlock()
		once.Do(func() {
			c.log.mu.Lock()
			c.log.unlocks++
			c.log.mu.Unlock()
		})
	}, nil
}

func (c *recContractor) record(kind string, set rhp4.TransactionSet, err error) {
	c.log.mu.Lock()
	defer c.log.mu.Unlock()
	if err != nil {
		c.log.add("CRecordFail")
		return
	}
	c.log.add("CRecord")
	// was this very set accepted by the pool before it was recorded?
	ok := false
	for _, ps := range c.log.poolSets {
		if sameSet(ps.Transactions, set.Transactions) {
			ok = true
		}
	}
	if len(c.log.recorded) == 0 {
		c.log.poolOKBeforeRecord = ok
		c.log.recordBeforeBcast = len(c.log.broadcast) == 0
	}
	c.log.recorded = append(c.log.recorded, rhp4.TransactionSet{Basis: set.Basis, Transactions: deepCopySet(set.Transactions)})
	c.log.recordKinds = append(c.log.recordKinds, kind)
}

func (c *recContractor) AddV2Contract(set rhp4.TransactionSet, usage proto4.Usage) error {
	err := c.Contractor.AddV2Contract(set, usage)
	c.record("form", set, err)
	return err
}

func (c *recContractor) RenewV2Contract(set rhp4.TransactionSet, usage proto4.Usage) error {
	err := c.Contractor.RenewV2Contract(set, usage)
	c.record("renew", set, err)
	return err
}

func deepCopySet(txns []types.V2Transaction) []types.V2Transaction {
	out := make([]types.V2Transaction, len(txns))
	for i := range txns {
		out[i] = txns[i].DeepCopy()
	}
	return out
}

func sameSet(a, b []types.V2Transaction) bool {
	if len(a) != len(b) {
		return false
	}
	for i := range a {
		if a[i].ID() != b[i].ID() {
			return false
		}
	}
	return true
}
