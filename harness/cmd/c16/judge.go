package main

// Monitors: the property's own observable predicate, evaluated on every
// attempt against the wallets, the contractor record, a second node's pool and
// the mined block.  Nothing here consults the Coq model.

import (
	"bytes"
	"fmt"
	"os"

	"go.sia.tech/core/types"
	rhp4 "go.sia.tech/coreutils/rhp/v4"
)

type failure struct{ kind, detail string }

func confirmedOnly(av []availOut) []availOut {
	var r []availOut
	for _, a := range av {
		if !a.Unconf {
			r = append(r, a)
		}
	}
	return r
}

func idSet(av []availOut) map[types.SiacoinOutputID]bool {
	m := map[types.SiacoinOutputID]bool{}
	for _, a := range av {
		m[a.ID] = true
	}
	return m
}

// diffSets returns the ids only in a and only in b.
func diffSets(a, b []availOut) (onlyA, onlyB []types.SiacoinOutputID) {
	sa, sb := idSet(a), idSet(b)
	for _, x := range a {
		if !sb[x.ID] {
			onlyA = append(onlyA, x.ID)
		}
	}
	for _, x := range b {
		if !sa[x.ID] {
			onlyB = append(onlyB, x.ID)
		}
	}
	return
}

func sameIDs(a []types.SiacoinOutputID, b []types.SiacoinOutputID) bool {
	if len(a) != len(b) {
		return false
	}
	m := map[types.SiacoinOutputID]int{}
	for _, x := range a {
		m[x]++
	}
	for _, x := range b {
		m[x]--
	}
	for _, v := range m {
		if v != 0 {
			return false
		}
	}
	return true
}

func releaseIDs(n *walletNode, ids []types.SiacoinOutputID) {
	var txn types.V2Transaction
	for _, id := range ids {
		txn.SiacoinInputs = append(txn.SiacoinInputs, types.V2SiacoinInput{Parent: types.SiacoinElement{ID: id}})
	}
	n.w.ReleaseInputs(nil, []types.V2Transaction{txn})
}

func (h *harness) judge(o *outcome) []failure {
	w := h.w
	s := o.Script
	var fs []failure
	fail := func(kind, f string, a ...any) {
		fs = append(fs, failure{kind, fmt.Sprintf("%s [%s]: ", s.Kind, s.String()) + fmt.Sprintf(f, a...)})
	}
	committed := len(o.Log.broadcast) > 0
	rn := w.renterNode(s)
	hostB, hostA := confirmedOnly(o.HostBefore), confirmedOnly(o.HostAfter)

	// the contract lock is released whatever happened
	if o.Log.locks != o.Log.unlocks {
		fail("contract-lock-leak", "the host locked the contract %d times and unlocked it %d times", o.Log.locks, o.Log.unlocks)
	}
	// the renter only reports success if the host committed
	if o.RenterErr == nil && !committed {
		fail("renter-success-without-host-commit", "the renter function returned success but the host never broadcast a set (host calls %v)", o.Log.calls)
	}

	if o.Held != nil {
		// the parked exchange was abandoned afterwards: its reservation is gone too
		gone, _ := diffSets(confirmedOnly(o.HeldBefore), confirmedOnly(o.HeldAfter))
		if committed && !sameIDs(gone, o.Log.fundedIDs) {
			fail("host-reservation-leak", "a formation abandoned after the host sent its inputs, while another exchange committed, left %d host output(s) unavailable although the committed exchange funded %d", len(gone), len(o.Log.fundedIDs))
		}
		if len(gone) > 0 && !committed {
			fail("host-reservation-leak", "a formation abandoned after the host sent its inputs left %d host output(s) locked", len(gone))
			releaseIDs(w.H, gone)
		}
	}
	// the final response reached the renter exactly as the host sent it and the renter
	// function still reports a failure (and gives its inputs back) although the host
	// recorded and broadcast the contract: the two sides disagree about a finished exchange
	if pl := o.M.plan; committed && o.RenterErr != nil && o.M.dlvR3 != nil && pl.T1 == "" && pl.T2 == "" && pl.T3 == "" && pl.T4 == "" {
		fail("renter-failed-although-host-committed", "the host recorded and broadcast the contract and its final response (%d transaction(s)) was delivered unchanged, but the renter function failed (%v) and released its inputs (renter calls %v)", len(*viewFinal(o.M.dlvR3).Set), o.RenterErr, o.Signer.calls)
	}
	if !committed {
		// failed or abandoned: no contract, every reservation released
		if len(o.Log.recorded) != 0 {
			fail("contract-recorded-on-failure", "the attempt failed (no broadcast, host calls %v) but the contractor recorded %d contract(s)", o.Log.calls, len(o.Log.recorded))
		}
		gone, extra := diffSets(hostB, hostA)
		if len(gone) > 0 {
			fail("host-reservation-leak", "the host had %d spendable outputs before the failed attempt and %d after it: %d output(s) it reserved stayed locked (host calls %v)", len(hostB), len(hostA), len(gone), o.Log.calls)
			if h.keepLeaks {
				h.leaked = append(h.leaked, gone...)
			} else {
				releaseIDs(w.H, gone)
			}
		}
		if len(extra) > 0 {
			fail("host-over-release", "the failed attempt unlocked %d host output(s) that were reserved (for another exchange) before it (host calls %v)", len(extra), o.Log.calls)
		}
		if len(gone) == 0 && len(extra) == 0 && o.HostBal0 != o.HostBal1 {
			fail("host-balance-changed-on-failure", "host balance before %v after %v", o.HostBal0, o.HostBal1)
		}
	}
	if o.RenterErr != nil {
		gone, extra := diffSets(o.RenterBefore, o.RenterAfter)
		if len(gone) > 0 {
			fail("renter-reservation-leak", "the renter function failed (%v) and left %d of its %d spendable outputs locked (renter calls %v)", o.RenterErr, len(gone), len(o.RenterBefore), o.Signer.calls)
			releaseIDs(rn, gone)
		}
		if len(extra) > 0 {
			fail("renter-over-release", "the failed renter function unlocked %d output(s) that were locked before", len(extra))
		}
		if len(gone) == 0 && len(extra) == 0 && o.RenterBal0 != o.RenterBal1 {
			fail("renter-balance-changed-on-failure", "renter balance before %v after %v", o.RenterBal0, o.RenterBal1)
		}
	}
	if !committed {
		return fs
	}
	if o.RenterErr != nil && w.rel != "same" {
		// the renter released inputs that are spent on the host's chain: let its
		// node learn about it before the next attempt (the relation is re-established)
		defer w.resync()
	}

	// ---- the host committed ----
	if len(o.Log.recorded) != 1 {
		fail("commit-without-single-contract", "the host broadcast a set but the contractor recorded %d contracts", len(o.Log.recorded))
		w.confirm()
		return fs
	}
	rec := o.Log.recorded[0]
	bc := o.Log.broadcast[0]
	if !sameSet(rec.Transactions, bc.Transactions) {
		fail("recorded-set-differs-from-broadcast", "the set handed to the contractor is not the set that was broadcast")
	}
	id, fc, renewal, ok := contractOf(rec.Transactions)
	if !ok {
		fail("recorded-set-malformed", "the recorded set does not end in a formation or renewal transaction")
		w.confirm()
		return fs
	}
	// both signatures verify over the contract (and the renewal)
	cs := o.HostCS
	sigHash := cs.ContractSigHash(fc)
	if !fc.RenterPublicKey.VerifyHash(sigHash, fc.RenterSignature) || !fc.HostPublicKey.VerifyHash(sigHash, fc.HostSignature) {
		fail("success-bad-signature", "the recorded contract %v does not carry both valid signatures", id)
	}
	if fc.RenterPublicKey != w.renterKey.PublicKey() && s.Fault != "req-wrong-renter-key" || fc.HostPublicKey != w.hostKey.PublicKey() {
		fail("success-wrong-keys", "the recorded contract names other keys than the two parties'")
	}
	if renewal != nil {
		rh := cs.RenewalSigHash(*renewal)
		if !fc.RenterPublicKey.VerifyHash(rh, renewal.RenterSignature) || !fc.HostPublicKey.VerifyHash(rh, renewal.HostSignature) {
			fail("success-bad-signature", "the renewal of %v does not carry both valid renewal signatures", o.Existing.ID)
		}
	}
	// the renter holds the same contract
	if o.RenterErr == nil {
		if o.ResContract.ID != id || !bytes.Equal(encodeContract(o.ResContract.Revision), encodeContract(fc)) {
			fail("success-contracts-differ", "renter holds contract %v, host recorded %v, or their revisions differ", o.ResContract.ID, id)
		}
		if !sameSet(o.ResSet.Transactions, bc.Transactions) {
			fail("success-returned-set-differs", "the set returned to the renter is not the set the host broadcast")
		}
	}
	// exactly what was returned - the basis and the set of the final response as the
	// host sent it, and of the renter function's result - is accepted by the pool of
	// a second node on the same tip
	if o.M.gotR3 != nil {
		fv := viewFinal(o.M.gotR3)
		if _, err := w.cmV.AddV2PoolTransactions(*fv.Basis, deepCopySet(*fv.Set)); err != nil {
			fail("success-returned-set-rejected-by-fresh-pool", "the host answered with basis %v and a set of %d transaction(s) (host chain tip %v, host wallet tip %v); a second node on that tip rejects exactly that: %v", *fv.Basis, len(*fv.Set), o.HostCS.Index, o.HostWalletTip, err)
		}
	}
	if o.RenterErr == nil {
		if _, err := w.cmV.AddV2PoolTransactions(o.ResSet.Basis, deepCopySet(o.ResSet.Transactions)); err != nil {
			fail("success-returned-set-rejected-by-fresh-pool", "the renter function returned basis %v and a set of %d transaction(s) (host chain tip %v, host wallet tip %v); a second node on that tip rejects exactly that: %v", o.ResSet.Basis, len(o.ResSet.Transactions), o.HostCS.Index, o.HostWalletTip, err)
		}
	}
	// ... and so is the set the host broadcast
	if _, err := w.cmV.AddV2PoolTransactions(bc.Basis, deepCopySet(bc.Transactions)); err != nil {
		fail("success-set-rejected-by-fresh-pool", "a second node on the same tip rejects the broadcast set: %v", err)
	}
	// exactly the funded inputs stay locked
	gone, extra := diffSets(hostB, hostA)
	if (!sameIDs(gone, o.Log.fundedIDs) || len(extra) > 0) && os.Getenv("C16_DEBUG") != "" {
		for _, a := range hostA {
			for _, e := range extra {
				if a.ID == e {
					fmt.Fprintf(os.Stderr, "   gained host output %v value %v unconf %v\n", a.ID, a.Value, a.Unconf)
				}
			}
		}
	}
	if !sameIDs(gone, o.Log.fundedIDs) || len(extra) > 0 {
		fail("success-locks-wrong-set", "after success the host lost %d spendable outputs and gained %d, it funded %d", len(gone), len(extra), len(o.Log.fundedIDs))
	}
	if o.RenterErr == nil {
		gone, extra := diffSets(o.RenterBefore, o.RenterAfter)
		if !sameIDs(gone, o.Signer.funded) || len(extra) > 0 {
			fail("success-locks-wrong-set", "after success the renter lost %d spendable outputs and gained %d, it funded %d", len(gone), len(extra), len(o.Signer.funded))
		}
	}

	// bookkeeping: the new contract can be renewed later
	lc := liveContract{ID: id, Revision: fc, Height: w.cmH.Tip().Height}
	if s.Kind == "form" {
		w.contracts = append(w.contracts, lc)
	} else {
		w.contracts[len(w.contracts)-1] = lc
	}
	if h.deferConfirm {
		// the caller wants the set to stay in the pool for now; the mined part of
		// the judgement runs when it confirms
		since := w.cmH.Tip()
		h.pending = func() []failure { return h.judgeMined(o, since, bc, id, fc, renewal) }
		return fs
	}
	return append(fs, h.judgeMined(o, w.cmH.Tip(), bc, id, fc, renewal)...)
}

// judgeMined mines the host's pool and checks that the contract exists on
// chain with exactly the agreed funding.
func (h *harness) judgeMined(o *outcome, since types.ChainIndex, bc rhp4.TransactionSet, id types.FileContractID, fc types.V2FileContract, renewal *types.V2FileContractRenewal) []failure {
	w := h.w
	s := o.Script
	rn := w.renterNode(s)
	var fs []failure
	fail := func(kind, f string, a ...any) {
		fs = append(fs, failure{kind, fmt.Sprintf("%s [%s]: ", s.Kind, s.String()) + fmt.Sprintf(f, a...)})
	}
	rfund, hfund, _, _, tok := w.hostTerms(o)
	last := bc.Transactions[len(bc.Transactions)-1]
	w.confirm()
	// (the set may have been mined by a block another step needed in the meantime)
	_, applied, err := w.cmH.UpdatesSince(since, 1000)
	must(err)
	found, resolved, mined := false, false, false
	for _, cau := range applied {
		for _, txn := range cau.Block.V2Transactions() {
			if txn.ID() == last.ID() {
				mined = true
			}
		}
		for _, d := range cau.V2FileContractElementDiffs() {
			if d.Created && d.V2FileContractElement.ID == id {
				found = true
				if !bytes.Equal(encodeContract(d.V2FileContractElement.V2FileContract), encodeContract(fc)) {
					fail("mined-contract-differs", "the contract element %v created on chain is not the recorded contract", id)
				}
			}
			if renewal != nil && d.V2FileContractElement.ID == o.Existing.ID && d.Resolution != nil {
				if _, isRenewal := d.Resolution.(*types.V2FileContractRenewal); isRenewal {
					resolved = true
				}
			}
		}
	}
	if !mined || !found {
		fail("mined-contract-missing", "after mining a block the contract %v is not on chain (transaction mined: %v)", id, mined)
	}
	if renewal != nil && !resolved {
		fail("mined-renewal-missing", "after mining a block the old contract %v is not resolved by a renewal", o.Existing.ID)
	}
	if tok {
		net := func(addr types.Address) (in, out types.Currency) {
			for _, si := range last.SiacoinInputs {
				if si.Parent.SiacoinOutput.Address == addr {
					in = in.Add(si.Parent.SiacoinOutput.Value)
				}
			}
			for _, so := range last.SiacoinOutputs {
				if so.Address == addr {
					out = out.Add(so.Value)
				}
			}
			return
		}
		hin, hout := net(w.H.w.Address())
		rin, rout := net(rn.w.Address())
		if hin.Cmp(hout) < 0 || !hin.Sub(hout).Equals(hfund) {
			fail("mined-funding-differs", "the host put in %v - %v, agreed host funding is %v", hin, hout, hfund)
		}
		if rin.Cmp(rout) < 0 || !rin.Sub(rout).Equals(rfund) {
			fail("mined-funding-differs", "the renter put in %v - %v, agreed renter funding is %v", rin, rout, rfund)
		}
	}
	return fs
}
