package main

// Batches: several exchanges against the one host, either all at once (separate
// streams, concurrently) or one after the other, with NO read of any wallet,
// pool or contractor in between.  Everything is judged once at the end, from
// the state before and after the whole batch: a harness that looks after every
// step can hide a defect that a look repairs, and a host that serves one renter
// at a time can hide one that needs two.

import (
	"bytes"
	"context"
	"fmt"
	"sync"
	"time"

	"go.sia.tech/core/types"
	rhp4 "go.sia.tech/coreutils/rhp/v4"
)

type batchItem struct {
	o      *outcome
	rn     *walletNode
	m      *mitm
	signer *recSigner
}

// faults a batch item may carry (none that reconfigure the host)
var batchFaults = []string{"none", "none", "none", "cut2", "cut3", "cut4", "trunc3", "req-unknown-basis", "sig-bad-contract", "sig-bad-input", "dial-fail", "resp-inputs-short", "final-bad-sig", "req-dup-inputs"}

func (h *harness) batch(scripts []script, concurrent bool) {
	w := h.w
	res := h.c.Res
	w.topUp()
	w.resync()
	for i := range scripts {
		scripts[i].Relation, scripts[i].Large, scripts[i].Mid, scripts[i].Unmined = "same", false, "", false
		if scripts[i].Kind != "form" && !h.usableContract() {
			h.attempt(script{Kind: "form", Relation: "same", Fault: "none"})
			w.resync()
		}
	}
	unconfUsed := false
	for i := range scripts {
		if scripts[i].Unconf && (unconfUsed || !w.ensureUnconfirmed()) {
			scripts[i].Unconf = false
		}
		unconfUsed = unconfUsed || scripts[i].Unconf
	}
	ctx, cancel := context.WithTimeout(context.Background(), 30*time.Second)
	defer cancel()
	settings, err := rhp4.RPCSettings(ctx, w.client)
	must(err)
	w.trk.waitIdle(0)

	// ---- the only look before ----
	hostB := confirmedOnly(w.H.avail())
	renterB := map[*walletNode][]availOut{w.R: w.R.avail(), w.R2: w.R2.avail()}
	w.log.reset()
	n0 := w.trk.count()

	idx0 := len(w.contracts) - 1 // the contract a renew / refresh item works on
	var items []*batchItem
	renewed := false
	for _, s := range scripts {
		if s.Kind != "form" {
			if renewed { // one exchange per existing contract
				s.Kind = "form"
			}
			renewed = true
		}
		if !applicable(s) {
			s.Fault = "none"
		}
		w.attemptNo++
		o := &outcome{Script: s, No: w.attemptNo, Settings: settings, CS: w.cmR.TipState(), HostCS: w.cmH.TipState()}
		o.HostWalletTip, _ = w.H.ws.Tip()
		if s.Kind != "form" {
			o.Existing = w.contracts[len(w.contracts)-1]
		}
		it := &batchItem{o: o, rn: w.renterNode(s)}
		it.signer = &recSigner{w: it.rn.w, key: w.renterKey}
		it.m = &mitm{inner: w.client, kind: s.Kind, partial: s.Partial, plan: planOf(s)}
		oo := o
		it.m.tamper = func(stage int, name string, wr *wire) { w.tamper(oo, stage, name, wr) }
		o.M, o.Signer = it.m, it.signer
		items = append(items, it)
	}
	run := func(it *batchItem) {
		allowance, collateral := w.amounts(it.o.Script, it.o.Existing.Revision)
		w.call(ctx, it.o, it.rn, it.m, w.cmR, it.signer, settings, allowance, collateral)
		it.m.wait()
	}
	if concurrent {
		var wg sync.WaitGroup
		for _, it := range items {
			wg.Add(1)
			go func(it *batchItem) { defer wg.Done(); run(it) }(it)
		}
		wg.Wait()
	} else {
		for _, it := range items {
			run(it)
		}
	}
	streams := 0
	for _, it := range items {
		streams += it.m.hostConns
	}
	if !w.trk.waitIdle(n0 + streams) {
		panic("host handlers did not return after a batch")
	}

	// ---- the only look after ----
	log := w.log.snapshot()
	hostA := confirmedOnly(w.H.avail())
	var names []string
	for _, it := range items {
		names = append(names, it.o.Script.String())
	}
	mode := "sequential-unobserved"
	if concurrent {
		mode = "concurrent"
	}
	res.Count("batch:" + mode)
	res.CountN("batch-exchanges:"+mode, len(items))
	res.Eval(fmt.Sprintf("batch|%s|%v|%v", mode, names, log.calls), true)
	replay := map[string]any{"batch": scripts, "concurrent": concurrent}
	fail := func(kind, f string, a ...any) {
		h.fails[kind]++
		if h.fails[kind] > 3 {
			res.Count("fail:" + kind)
			return
		}
		res.Fail(kind, fmt.Sprintf("batch (%s) %v: ", mode, names)+fmt.Sprintf(f, a...), replay)
	}

	if log.locks != log.unlocks {
		fail("contract-lock-leak", "the host locked contracts %d times and unlocked them %d times", log.locks, log.unlocks)
	}
	// what the host committed
	if len(log.recorded) != len(log.broadcast) {
		fail("contract-recorded-on-failure", "%d contracts recorded but %d sets broadcast", len(log.recorded), len(log.broadcast))
	}
	for _, rec := range log.recorded {
		ok := false
		for _, bc := range log.broadcast {
			ok = ok || sameSet(rec.Transactions, bc.Transactions)
		}
		if !ok {
			fail("contract-recorded-on-failure", "a recorded set was never broadcast")
		}
	}
	// exactly the inputs of the committed sets are gone from the host's spendable outputs
	var committedIn []types.SiacoinOutputID
	for _, bc := range log.broadcast {
		last := bc.Transactions[len(bc.Transactions)-1]
		for _, in := range last.SiacoinInputs {
			if in.Parent.SiacoinOutput.Address == w.H.w.Address() {
				committedIn = append(committedIn, in.Parent.ID)
			}
		}
	}
	gone, extra := diffSets(hostB, hostA)
	if !sameIDs(gone, committedIn) || len(extra) > 0 {
		kind := "host-reservation-leak"
		if len(gone) < len(committedIn) || len(extra) > 0 {
			kind = "host-over-release"
		}
		fail(kind, "the host had %d spendable outputs before and %d after; %d are gone, the %d committed exchange(s) spend %d of its outputs (host calls %v)", len(hostB), len(hostA), len(gone), len(log.broadcast), len(committedIn), log.calls)
		var leaked []types.SiacoinOutputID
		in := map[types.SiacoinOutputID]bool{}
		for _, id := range committedIn {
			in[id] = true
		}
		for _, id := range gone {
			if !in[id] {
				leaked = append(leaked, id)
			}
		}
		releaseIDs(w.H, leaked)
	}
	// each renter wallet: exactly what its successful calls funded stays reserved
	for _, rn := range []*walletNode{w.R, w.R2} {
		var kept []types.SiacoinOutputID
		for _, it := range items {
			if it.rn == rn && it.o.RenterErr == nil {
				kept = append(kept, it.signer.funded...)
			}
		}
		g, e := diffSets(renterB[rn], rn.avail())
		if !sameIDs(g, kept) || len(e) > 0 {
			fail("renter-reservation-leak", "a renter wallet lost %d spendable outputs and gained %d; its successful calls funded %d", len(g), len(e), len(kept))
			releaseIDs(rn, g)
		}
	}
	// every successful renter call: its set is one the host committed, the contract is the
	// recorded one, and a second node accepts exactly what was returned
	for _, it := range items {
		o := it.o
		if o.RenterPanic != nil {
			fail("renter-reservation-leak", "the renter function panicked: %v", o.RenterPanic)
		}
		if o.RenterErr != nil {
			continue
		}
		var rec *rhp4.TransactionSet
		for i := range log.recorded {
			if sameSet(log.recorded[i].Transactions, o.ResSet.Transactions) {
				rec = &log.recorded[i]
			}
		}
		if rec == nil {
			fail("renter-success-without-host-commit", "%s returned success but the host recorded no such set", o.Script)
			continue
		}
		id, fc, _, ok := contractOf(rec.Transactions)
		if !ok || o.ResContract.ID != id || !bytes.Equal(encodeContract(o.ResContract.Revision), encodeContract(fc)) {
			fail("success-contracts-differ", "%s: the renter's contract is not the one the host recorded", o.Script)
		}
		if _, err := w.cmV.AddV2PoolTransactions(o.ResSet.Basis, deepCopySet(o.ResSet.Transactions)); err != nil {
			fail("success-returned-set-rejected-by-fresh-pool", "%s: a second node rejects exactly what was returned (basis %v): %v", o.Script, o.ResSet.Basis, err)
		}
	}
	for _, bc := range log.broadcast {
		if _, err := w.cmV.AddV2PoolTransactions(bc.Basis, deepCopySet(bc.Transactions)); err != nil {
			fail("success-set-rejected-by-fresh-pool", "a second node rejects a broadcast set: %v", err)
		}
	}
	// mined: every committed contract is on chain as recorded
	if len(log.broadcast) > 0 {
		_, applied := w.confirm()
		for _, rec := range log.recorded {
			id, fc, renewal, ok := contractOf(rec.Transactions)
			if !ok {
				continue
			}
			found := false
			for _, cau := range applied {
				for _, d := range cau.V2FileContractElementDiffs() {
					if d.Created && d.V2FileContractElement.ID == id && bytes.Equal(encodeContract(d.V2FileContractElement.V2FileContract), encodeContract(fc)) {
						found = true
					}
				}
			}
			if !found {
				fail("mined-contract-missing", "after mining a block the contract %v is not on chain as recorded", id)
			}
			lc := liveContract{ID: id, Revision: fc, Height: w.cmH.Tip().Height}
			if renewal == nil {
				w.contracts = append(w.contracts, lc)
			} else if idx0 >= 0 {
				w.contracts[idx0] = lc
			}
		}
	}
	res.CountN("batch-committed", len(log.broadcast))
	w.resync()
}
