package main

// Transport for C16: every RPC stream is its own loopback TCP connection.  The
// server side (rhp4.TransportMux) wraps accepted connections so that the
// harness knows when a handler has returned (handleHostStream closes the
// stream after the handler and its deferred functions ran); the client side
// (rhp4.TransportClient) can be told to fail dialing.

import (
	"context"
	"errors"
	"net"
	"sync"
	"time"

	"go.sia.tech/core/types"
)

type tracker struct {
	mu       sync.Mutex
	cond     *sync.Cond
	accepted int
	closed   int
}

func newTracker() *tracker {
	t := &tracker{}
	t.cond = sync.NewCond(&t.mu)
	return t
}

// waitIdle blocks until at least min streams were accepted and every accepted
// stream but `outstanding` was closed by its handler.
func (t *tracker) waitIdle(min int, outstanding ...int) bool {
	out := 0
	if len(outstanding) > 0 {
		out = outstanding[0]
	}
	deadline := time.Now().Add(20 * time.Second)
	t.mu.Lock()
	defer t.mu.Unlock()
	for t.accepted < min || t.closed < t.accepted-out {
		if time.Now().After(deadline) {
			return false
		}
		t.mu.Unlock()
		time.Sleep(200 * time.Microsecond)
		t.mu.Lock()
	}
	return true
}

func (t *tracker) count() int {
	t.mu.Lock()
	defer t.mu.Unlock()
	return t.accepted
}

type hookConn struct {
	net.Conn
	once sync.Once
	t    *tracker
}

func (c *hookConn) Close() error {
	err := c.Conn.Close()
	c.once.Do(func() {
		c.t.mu.Lock()
		c.t.closed++
		c.t.mu.Unlock()
	})
	return err
}

// tcpMux implements rhp4.TransportMux.
type tcpMux struct {
	l net.Listener
	t *tracker
}

func (m *tcpMux) AcceptStream() (net.Conn, error) {
	c, err := m.l.Accept()
	if err != nil {
		return nil, net.ErrClosed
	}
	m.t.mu.Lock()
	m.t.accepted++
	m.t.mu.Unlock()
	return &hookConn{Conn: c, t: m.t}, nil
}

func (m *tcpMux) Close() error { return m.l.Close() }

// tcpClient implements rhp4.TransportClient.
type tcpClient struct {
	addr string
	peer types.PublicKey
}

func (c *tcpClient) DialStream(ctx context.Context) (net.Conn, error) {
	var d net.Dialer
	return d.DialContext(ctx, "tcp", c.addr)
}
func (c *tcpClient) FrameSize() int           { return 4296 }
func (c *tcpClient) PeerKey() types.PublicKey { return c.peer }
func (c *tcpClient) Close() error             { return nil }

var errDialRefused = errors.New("dial refused by the fault plan")
